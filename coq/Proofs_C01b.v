(* Proofs_C01b.v — C01 on the straight-line fragment, part 2: running a straight code segment on the VM and
   on the reference interpreter, the simulation between registers and the reference store, and the
   views at the end. *)
From Coq Require Import List ZArith NArith Lia Bool.
From Theo Require Import Base Tokens Errors MacroExtract Parser VMModel VMSpec GenModel Compile RefSem C01Statements Proofs_VM_mem Proofs_VM_dbg Proofs_Gen0 Proofs_Gen Proofs_Sem Gen_Consts Proofs_C01a.
Import ListNotations.
Local Open Scope Z_scope.

(* ================================================================================================ *)
(* 1. vectors                                                                                       *)
(* ================================================================================================ *)
Lemma znth_mid {A} (pre : list A) x rest : znth (pre ++ x :: rest) (zlen pre) = Some x.
Proof.
  unfold znth, zlen. destruct (Z.ltb_spec (Z.of_nat (length pre)) 0); [lia|].
  rewrite Nat2Z.id. rewrite nth_error_app2 by lia. rewrite Nat.sub_diag. reflexivity.
Qed.

Lemma zlen_snoc {A} (l : list A) x : zlen (l ++ [x]) = zlen l + 1.
Proof. rewrite zlen_app. reflexivity. Qed.

Lemma zlen_cons {A} (x : A) l : zlen (x :: l) = zlen l + 1.
Proof. unfold zlen. cbn [length]. lia. Qed.

Lemma zlen_length {A} (l : list A) : zlen l = Z.of_nat (length l).
Proof. reflexivity. Qed.

(* ================================================================================================ *)
(* 2. a straight segment on the VM                                                                  *)
(* ================================================================================================ *)
Definition exec_i (i : instr) (d : list Z) : option (list Z) :=
  match iop i with
  | POTENTIAL_BREAK => Some d
  | ADD_CONST =>
      match znth d (ib i) with
      | Some x => zupd d (ia i) (Z.max 0 (Z.min (x + ic i) INT_MAX))
      | None => None
      end
  | CONST => zupd d (ia i) (ib i)
  | _ => None
  end.

Fixpoint exec_list (seg : list instr) (d : list Z) : option (list Z) :=
  match seg with
  | [] => Some d
  | i :: r => match exec_i i d with Some d1 => exec_list r d1 | None => None end
  end.

Lemma exec_list_app a b d :
  exec_list (a ++ b) d = match exec_list a d with Some d1 => exec_list b d1 | None => None end.
Proof.
  revert d. induction a as [|i a IH]; intros d; cbn [app exec_list]; [reflexivity|].
  destruct (exec_i i d); [apply IH | reflexivity].
Qed.

Lemma exec1_simple s a i d' :
  znth (code (prog s)) (ip s) = Some i -> stack s = [a] -> data_start a = 0 ->
  exec_i i (data s) = Some d' ->
  exists b, exec1 s = Ok (mkVM (stepping s) (ip s + 1) (prog s) d' (stack s) (enabled s), b).
Proof.
  intros Hz Hs Ha He. unfold exec1, exec1_gen. rewrite Hz. cbn [of_opt bind].
  unfold exec_i in He. destruct (iop i); try discriminate.
  - inversion He; subst. eexists. unfold set_ip. reflexivity.
  - unfold top. rewrite Hs. cbn [hd_error of_opt bind]. rewrite Ha. cbn [Z.add].
    unfold rd. destruct (znth (data s) (ib i)) as [x|]; [|discriminate]. cbn [of_opt bind].
    rewrite add_const_now. cbn [bind]. unfold wr. rewrite He. cbn [of_opt bind].
    eexists. unfold set_data_ip. rewrite Hs. reflexivity.
  - unfold top. rewrite Hs. cbn [hd_error of_opt bind]. rewrite Ha. cbn [Z.add].
    unfold wr. rewrite He. cbn [of_opt bind].
    eexists. unfold set_data_ip. rewrite Hs. reflexivity.
Qed.

Lemma vm_run_seg : forall seg pre post s a d',
  code (prog s) = pre ++ seg ++ post -> ip s = zlen pre -> stack s = [a] -> data_start a = 0 ->
  exec_list seg (data s) = Some d' ->
  vm_run (length seg) s = Ok (mkVM (stepping s) (zlen pre + zlen seg) (prog s) d' (stack s) (enabled s)).
Proof.
  induction seg as [|i seg IH]; intros pre post s a d' Hc Hi Hs Ha He.
  - cbn in He. inversion He; subst. cbn [length vm_run]. destruct s; cbn in *. subst.
    unfold zlen at 2. cbn [length]. rewrite Z.add_0_r. reflexivity.
  - cbn [exec_list] in He. destruct (exec_i i (data s)) as [d1|] eqn:E1; [|discriminate].
    assert (Hz : znth (code (prog s)) (ip s) = Some i).
    { rewrite Hc, Hi. cbn [app]. apply znth_mid. }
    destruct (exec1_simple s a i d1 Hz Hs Ha E1) as [b Hx].
    cbn [length vm_run]. rewrite Hx. cbn [bind fst].
    rewrite (IH (pre ++ [i]) post _ a d').
    + cbn [stepping prog stack enabled]. rewrite zlen_snoc, zlen_cons. f_equal. f_equal. lia.
    + cbn [prog]. rewrite Hc. rewrite <- app_assoc. reflexivity.
    + cbn [ip]. rewrite Hi, zlen_snoc. reflexivity.
    + exact Hs.
    + exact Ha.
    + exact He.
Qed.

(* ================================================================================================ *)
(* 3. a straight segment on the reference interpreter                                               *)
(* ================================================================================================ *)
Definition simple_rv (v : rvalue) : bool :=
  match v with
  | RVar _ => true
  | RNum _ => true
  | RInc (RVar _) _ => true
  | RDec (RVar _) _ => true
  | _ => false
  end.

Definition rv_val (st : list (str * Z)) (v : rvalue) : Z :=
  match v with
  | RVar y => get st y
  | RNum c => c
  | RInc (RVar y) c => get st y + c
  | RDec (RVar y) c => Z.max (get st y - c) 0
  | _ => 0
  end.

Definition simple_ri (i : rinstr) : bool :=
  match i with RSite _ => true | RAssign _ v => simple_rv v | _ => false end.

Definition rexec_i (st : list (str * Z)) (i : rinstr) : list (str * Z) :=
  match i with RAssign x v => put st x (rv_val st v) | _ => st end.

Definition rexec (seg : list rinstr) (st : list (str * Z)) : list (str * Z) := fold_left rexec_i seg st.

Lemma eval_simple rs rec a here v st tr : simple_rv v = true ->
  eval rs rec a here v st tr = EVal (rv_val (ra_vars a) v) st tr.
Proof.
  destruct v as [y|c|y c|y c|j args]; cbn [simple_rv]; intros H; try discriminate; try reflexivity.
  - destruct y; try discriminate. reflexivity.
  - destruct y; try discriminate. reflexivity.
Qed.

Lemma run_seg rs k r ctx : nth_error rs k = Some r -> forall seg pre post a steps trace fuel,
  r_code r = pre ++ seg ++ post -> forallb simple_ri seg = true ->
  exists trace',
    run rs (length seg + fuel) ctx k a (zlen pre) steps trace =
    run rs fuel ctx k (mkRAct (rexec seg (ra_vars a)) (ra_cnt a)) (zlen pre + zlen seg) (steps + length seg)%nat trace'.
Proof.
  intros Hk. induction seg as [|i seg IH]; intros pre post a steps trace fuel Hc Hs.
  - exists trace. cbn [length Nat.add rexec fold_left]. destruct a as [av ac]. cbn [ra_vars ra_cnt].
    unfold zlen at 2. cbn [length]. rewrite Z.add_0_r, Nat.add_0_r. reflexivity.
  - cbn [forallb] in Hs. apply andb_true_iff in Hs. destruct Hs as [Hi Hs].
    cbn [length Nat.add]. rewrite run_S. unfold body. rewrite Hk, Hc. cbn [app]. rewrite znth_mid.
    assert (Hc' : r_code r = (pre ++ [i]) ++ seg ++ post) by (rewrite Hc, <- app_assoc; reflexivity).
    destruct i; try discriminate; cbn [exec_instr].
    + destruct (IH (pre ++ [RSite l]) post a (S steps) (trace ++ [(l, ctx ++ [view_of r a])]) fuel Hc' Hs) as [tr' E].
      exists tr'. rewrite zlen_snoc in E. rewrite E. cbn [rexec fold_left rexec_i].
      rewrite zlen_cons. f_equal; lia.
    + cbn [simple_ri] in Hi. rewrite eval_simple by exact Hi.
      destruct (IH (pre ++ [RAssign x v]) post (mkRAct (put (ra_vars a) x (rv_val (ra_vars a) v)) (ra_cnt a))
                   (S steps) trace fuel Hc' Hs) as [tr' E].
      exists tr'. rewrite zlen_snoc in E. rewrite E. cbn [rexec fold_left rexec_i ra_vars ra_cnt].
      rewrite zlen_cons. f_equal; lia.
Qed.

Lemma rexec_app a b st : rexec (a ++ b) st = rexec b (rexec a st).
Proof. unfold rexec. apply fold_left_app. Qed.

Lemma rexec_adv pos p st : rexec (f_adv pos p) st = st.
Proof. unfold f_adv. destruct (moved pos p); reflexivity. Qed.

Lemma exec_adv pos p d : exec_list (g_adv pos p) d = Some d.
Proof. unfold g_adv. destruct (moved pos p); reflexivity. Qed.

Lemma simple_adv pos p : forallb simple_ri (f_adv pos p) = true.
Proof. unfold f_adv. destruct (moved pos p); reflexivity. Qed.

Lemma len_adv pos p : length (f_adv pos p) = length (g_adv pos p).
Proof. unfold f_adv, g_adv. destruct (moved pos p); reflexivity. Qed.

Lemma simple_val_rv v : simple_rv (val_rv v) = true.
Proof. destruct v as [p y|p tok|p inc p1 y p2 tok]; try reflexivity. destruct inc; reflexivity. Qed.

Lemma simple_val_sites v pos : forallb simple_ri (val_sites v pos) = true.
Proof.
  destruct v; cbn [val_sites]; rewrite ?forallb_app, ?simple_adv; reflexivity.
Qed.

Lemma rexec_val_sites v pos st : rexec (val_sites v pos) st = st.
Proof. destruct v; cbn [val_sites]; rewrite ?rexec_app, ?rexec_adv; reflexivity. Qed.

Lemma simple_chain l : forall pos, forallb simple_ri (chain_rcode l pos) = true.
Proof.
  induction l as [|s l IH]; intros pos; cbn [chain_rcode]; [reflexivity|].
  rewrite forallb_app, IH, andb_true_r. unfold stmt_rcode.
  rewrite !forallb_app, !simple_adv, simple_val_sites. cbn [forallb simple_ri]. rewrite simple_val_rv. reflexivity.
Qed.

Lemma rexec_stmt s pos st :
  rexec (stmt_rcode s pos) st = put st (as_x s) (rv_val st (val_rv (as_v s))).
Proof.
  unfold stmt_rcode. rewrite !rexec_app, !rexec_adv, rexec_val_sites. reflexivity.
Qed.

Lemma len_val v tgt regs pos : (length (val_sites v pos) + 1 <= length (val_code v tgt regs pos))%nat.
Proof.
  destruct v; cbn [val_sites val_code]; rewrite ?app_length, ?len_adv; cbn [length]; lia.
Qed.

Lemma len_chain l : forall regs pos, (length (chain_rcode l pos) <= length (chain_code l regs pos))%nat.
Proof.
  induction l as [|s l IH]; intros regs pos; cbn [chain_rcode chain_code]; [cbn; lia|].
  rewrite !app_length. specialize (IH (stmt_regs s regs) (stmt_pos s pos)).
  unfold stmt_rcode, stmt_code. rewrite !app_length, !len_adv. cbn [length].
  pose proof (len_val (as_v s) (reg_ix regs (as_x s)) (add_var regs (as_x s)) (stmt_pos0 s pos)). lia.
Qed.

(* ================================================================================================ *)
(* 4. stores                                                                                        *)
(* ================================================================================================ *)
Lemma str_eqb_refl x : str_eqb x x = true.
Proof. apply str_eqb_eq; reflexivity. Qed.

Lemma str_eqb_neq x y : x <> y -> str_eqb x y = false.
Proof. intros H. destruct (str_eqb x y) eqn:E; [|reflexivity]. apply str_eqb_eq in E. contradiction. Qed.

Lemma get_put_same st x v : get (put st x v) x = v.
Proof.
  induction st as [|[k w] t IH]; cbn [put get].
  - rewrite str_eqb_refl. reflexivity.
  - destruct (str_eqb k x) eqn:E; cbn [get]; rewrite E; auto.
Qed.

Lemma get_put_other st x v y : y <> x -> get (put st x v) y = get st y.
Proof.
  intros H. induction st as [|[k w] t IH]; cbn [put get].
  - rewrite str_eqb_neq by congruence. reflexivity.
  - destruct (str_eqb k x) eqn:E; cbn [get].
    + apply str_eqb_eq in E. subst k. rewrite str_eqb_neq by congruence. reflexivity.
    + destruct (str_eqb k y); auto.
Qed.

(* ================================================================================================ *)
(* 5. registers against the reference store                                                         *)
(* ================================================================================================ *)
Record Sim (regs : list vreg) (st : list (str * Z)) (d : list Z) : Prop := mkSim {
  sim_zero : forall i, zlen regs <= i < zlen d -> znth d i = Some 0;
  sim_var : forall x i, x <> temp_name_str -> find_reg regs x 0 = Some i -> znth d i = Some (get st x);
  sim_new : forall x, x <> temp_name_str -> find_reg regs x 0 = None -> get st x = 0 }.

Lemma find_reg_snoc regs r x :
  find_reg (regs ++ [r]) x 0 =
  match find_reg regs x 0 with
  | Some i => Some i
  | None => if str_eqb (vname r) x then Some (zlen regs) else None
  end.
Proof.
  destruct (find_reg regs x 0) as [i|] eqn:E.
  - apply find_reg_app_some; exact E.
  - rewrite find_reg_app_none by exact E. cbn [find_reg]. rewrite Z.add_0_l. reflexivity.
Qed.

Lemma S_tmp regs st d : Sim regs st d -> Sim (regs ++ [tmp_reg]) st d.
Proof.
  intros [Hz Hv Hn]. constructor.
  - intros i Hi. apply Hz. rewrite zlen_snoc in Hi. lia.
  - intros x i Hx H. rewrite find_reg_snoc in H. destruct (find_reg regs x 0) as [j|] eqn:E.
    + inversion H; subst. apply Hv; auto.
    + cbn [tmp_reg vname] in H. rewrite str_eqb_neq in H by congruence. discriminate.
  - intros x Hx H. rewrite find_reg_snoc in H. destruct (find_reg regs x 0) as [j|] eqn:E; [discriminate|].
    apply Hn; auto.
Qed.

Lemma S_var regs st d x : Sim regs st d -> x <> temp_name_str -> zlen (add_var regs x) <= zlen d ->
  Sim (add_var regs x) st d.
Proof.
  intros S Hx Hl. unfold add_var in *. destruct (find_reg regs x 0) as [j|] eqn:E; [exact S|].
  destruct S as [Hz Hv Hn]. rewrite zlen_snoc in Hl. constructor.
  - intros i Hi. apply Hz. rewrite zlen_snoc in Hi. lia.
  - intros y i Hy H. rewrite find_reg_snoc in H. destruct (find_reg regs y 0) as [k|] eqn:E2.
    + inversion H; subst. apply Hv; auto.
    + cbn [var_reg vname] in H. destruct (str_eqb x y) eqn:E3; [|discriminate].
      apply str_eqb_eq in E3. subst y. inversion H; subst i.
      rewrite (Hn x Hx E). apply Hz. pose proof (zlen_nonneg regs). lia.
  - intros y Hy H. rewrite find_reg_snoc in H. destruct (find_reg regs y 0) as [k|] eqn:E2; [discriminate|].
    apply Hn; auto.
Qed.

Lemma find_reg_znth regs x i : find_reg regs x 0 = Some i -> exists r, znth regs i = Some r /\ vname r = x.
Proof. intros H. apply find_reg_name in H. rewrite Z.sub_0_r in H. exact H. Qed.

Lemma S_wr_tmp regs st d t r v d' : Sim regs st d -> znth regs t = Some r -> vname r = temp_name_str ->
  zupd d t v = Some d' -> Sim regs st d'.
Proof.
  intros [Hz Hv Hn] Ht Hr Hu. pose proof (znth_zupd _ _ _ _ Hu) as Hd. pose proof (zupd_length _ _ _ _ Hu) as Hl.
  pose proof (znth_some_range _ _ _ Ht) as Hrange. constructor.
  - intros i Hi. rewrite Hd. destruct (Z.eqb_spec i t); [lia|]. apply Hz. lia.
  - intros x i Hx H. rewrite Hd. destruct (Z.eqb_spec i t) as [->|Hne]; [|apply Hv; auto].
    apply find_reg_znth in H. destruct H as (r' & H1 & H2). congruence.
  - exact Hn.
Qed.

Lemma S_wr_var regs st d x i v d' : Sim regs st d -> x <> temp_name_str -> find_reg regs x 0 = Some i ->
  zupd d i v = Some d' -> Sim regs (put st x v) d'.
Proof.
  intros [Hz Hv Hn] Hx Hf Hu. pose proof (znth_zupd _ _ _ _ Hu) as Hd. pose proof (zupd_length _ _ _ _ Hu) as Hl.
  pose proof (find_reg_range _ _ _ _ Hf) as Hrange. constructor.
  - intros j Hj. rewrite Hd. destruct (Z.eqb_spec j i); [lia|]. apply Hz. lia.
  - intros y j Hy H. rewrite Hd. destruct (Z.eqb_spec j i) as [->|Hne].
    + destruct (find_reg_znth _ _ _ H) as (r1 & A1 & A2). destruct (find_reg_znth _ _ _ Hf) as (r2 & B1 & B2).
      assert (Eyx : y = x) by congruence. rewrite Eyx. rewrite get_put_same. reflexivity.
    + assert (y <> x) by (intros ->; congruence). rewrite get_put_other by assumption. apply Hv; auto.
  - intros y Hy H. assert (y <> x) by (intros ->; congruence). rewrite get_put_other by assumption. apply Hn; auto.
Qed.

Lemma zlen_app_le {A} (l l' : list A) : zlen l <= zlen (l ++ l').
Proof. rewrite zlen_app. pose proof (zlen_nonneg l'). lia. Qed.

Lemma add_var_le regs x : zlen regs <= zlen (add_var regs x).
Proof. destruct (add_var_prefix regs x) as [l ->]. apply zlen_app_le. Qed.
Lemma val_regs_le v regs : zlen regs <= zlen (val_regs v regs).
Proof. destruct (val_regs_prefix v regs) as [l ->]. apply zlen_app_le. Qed.
Lemma stmt_regs_le s regs : zlen regs <= zlen (stmt_regs s regs).
Proof. destruct (stmt_regs_prefix s regs) as [l ->]. apply zlen_app_le. Qed.
Lemma chain_regs_le l regs : zlen regs <= zlen (chain_regs l regs).
Proof. destruct (chain_regs_prefix l regs) as [l' ->]. apply zlen_app_le. Qed.

Lemma find_reg_add_var_mono regs x y i : find_reg regs x 0 = Some i -> find_reg (add_var regs y) x 0 = Some i.
Proof. intros H. destruct (add_var_prefix regs y) as [l ->]. apply find_reg_app_some; exact H. Qed.

Lemma wrap_int_neg c : 0 <= c < INT_MAX -> wrap_int (- c) = - c.
Proof.
  intros H. unfold wrap_int, INT_MAX in *. rewrite Z.mod_small by lia. lia.
Qed.

Lemma lit_of_small tok : strtol tok < INT_MAX -> lit_of tok = strtol tok.
Proof. intros H. unfold lit_of. apply wrap_int_small. pose proof (strtol_nonneg tok). lia. Qed.

Lemma exec_add d tgt src c x :
  znth d src = Some x -> 0 <= tgt < zlen d ->
  exists d', exec_i (IAdd tgt src c) d = Some d' /\ zupd d tgt (Z.max 0 (Z.min (x + c) INT_MAX)) = Some d'.
Proof.
  intros Hs Ht. unfold exec_i, IAdd. cbn [iop ia ib ic]. rewrite Hs.
  rewrite (Proofs_Gen0.zupd_some d tgt _ Ht). eexists; split; reflexivity.
Qed.

Lemma exec_const d tgt c : 0 <= tgt < zlen d ->
  exists d', exec_i (IConst tgt c) d = Some d' /\ zupd d tgt c = Some d'.
Proof.
  intros Ht. unfold exec_i, IConst. cbn [iop ia ib ic].
  rewrite (Proofs_Gen0.zupd_some d tgt _ Ht). eexists; split; reflexivity.
Qed.

Lemma val_lit_nonneg v : 0 <= val_lit v.
Proof. destruct v; cbn [val_lit]; [lia | apply strtol_nonneg | apply strtol_nonneg]. Qed.

(* one value, compiled into the register tgt of variable x *)
Lemma core_val av : forall tgt regs pos x st d B,
  Sim regs st d -> x <> temp_name_str -> (forall y, In y (val_names av) -> y <> temp_name_str) ->
  find_reg regs x 0 = Some tgt -> zlen (val_regs av regs) <= zlen d ->
  (forall y, 0 <= get st y <= B) -> B + val_lit av < INT_MAX ->
  exists d', exec_list (val_code av tgt regs pos) d = Some d' /\ zlen d' = zlen d /\
    Sim (val_regs av regs) (put st x (rv_val st (val_rv av))) d' /\
    0 <= rv_val st (val_rv av) <= B + val_lit av.
Proof.
  destruct av as [p y|p tok|p inc p1 y p2 tok]; intros tgt regs pos x st d B S Hx Hn Hf Hl Hb HB;
    cbn [val_regs val_code val_rv val_lit val_names rv_val] in *.
  - (* x := y *)
    assert (Hy : y <> temp_name_str) by (apply Hn; left; reflexivity).
    pose proof (S_var _ _ _ y S Hy Hl) as S1.
    pose proof (find_reg_add_var regs y) as Fy.
    pose proof (find_reg_add_var_mono _ _ y _ Hf) as Fx.
    pose proof (find_reg_range _ _ _ _ Fx) as Rx.
    destruct (exec_add d tgt (reg_ix regs y) 0 (get st y) (sim_var _ _ _ S1 y _ Hy Fy) ltac:(lia)) as (d' & E1 & U1).
    exists d'. rewrite exec_list_app, exec_adv. cbn [exec_list]. rewrite E1.
    split; [reflexivity|]. split; [apply (zupd_length _ _ _ _ U1)|].
    specialize (Hb y). unfold INT_MAX in *.
    replace (Z.max 0 (Z.min (get st y + 0) 2147483647)) with (get st y) in U1 by lia.
    split; [|lia]. eapply S_wr_var; eauto.
  - (* x := c *)
    pose proof (strtol_nonneg tok) as Hc. specialize (Hb x).
    rewrite lit_of_small by lia.
    pose proof (find_reg_range _ _ _ _ Hf) as Rx.
    destruct (exec_const d tgt (strtol tok) ltac:(lia)) as (d' & E1 & U1).
    exists d'. rewrite exec_list_app, exec_adv. cbn [exec_list]. rewrite E1.
    split; [reflexivity|]. split; [apply (zupd_length _ _ _ _ U1)|].
    split; [|lia]. eapply S_wr_var; eauto.
  - (* x := y +/- c *)
    assert (Hy : y <> temp_name_str) by (apply Hn; left; reflexivity).
    pose proof (strtol_nonneg tok) as Hc. pose proof (Hb y) as Hby.
    assert (Hlit : lit_of tok = strtol tok) by (apply lit_of_small; lia).
    set (regs1 := regs ++ [tmp_reg]) in *.
    set (regs2 := add_var regs1 y) in *.
    set (regs3 := regs2 ++ [tmp_reg]) in *.
    assert (L1 : zlen regs1 = zlen regs + 1) by (unfold regs1; apply zlen_snoc).
    assert (L2 : zlen regs1 <= zlen regs2) by (apply add_var_le).
    assert (L3 : zlen regs3 = zlen regs2 + 1) by (unfold regs3; apply zlen_snoc).
    pose proof (zlen_nonneg regs) as L0.
    pose proof (S_tmp _ _ _ S) as S1. fold regs1 in S1.
    assert (S2 : Sim regs2 st d) by (unfold regs2; apply S_var; [exact S1 | exact Hy | fold regs2; lia]).
    pose proof (find_reg_add_var regs1 y) as Fy. fold regs2 in Fy.
    (* t1 := y *)
    destruct (exec_add d (zlen regs) (reg_ix regs1 y) 0 (get st y) (sim_var _ _ _ S2 y _ Hy Fy) ltac:(lia))
      as (d1 & E1 & U1).
    unfold INT_MAX in *.
    replace (Z.max 0 (Z.min (get st y + 0) 2147483647)) with (get st y) in U1 by lia.
    assert (T1 : znth regs2 (zlen regs) = Some tmp_reg).
    { unfold regs2. destruct (add_var_prefix regs1 y) as [l ->]. rewrite znth_app_l by lia.
      unfold regs1. apply znth_app_last. }
    assert (S3 : Sim regs2 st d1) by (eapply S_wr_tmp; eauto).
    pose proof (zupd_length _ _ _ _ U1) as Ld1.
    pose proof (S_tmp _ _ _ S3) as S4. fold regs3 in S4.
    (* t2 := c *)
    destruct (exec_const d1 (zlen regs2) (lit_of tok) ltac:(lia)) as (d2 & E2 & U2).
    assert (T2 : znth regs3 (zlen regs2) = Some tmp_reg) by (unfold regs3; apply znth_app_last).
    assert (S5 : Sim regs3 st d2) by (eapply S_wr_tmp; eauto).
    pose proof (zupd_length _ _ _ _ U2) as Ld2.
    (* x := t1 +/- c *)
    assert (R1 : znth d2 (zlen regs) = Some (get st y)).
    { rewrite (znth_zupd _ _ _ _ U2). destruct (Z.eqb_spec (zlen regs) (zlen regs2)); [lia|].
      rewrite (znth_zupd _ _ _ _ U1). rewrite Z.eqb_refl. reflexivity. }
    assert (Fx : find_reg regs3 x 0 = Some tgt).
    { unfold regs3. apply find_reg_app_some. unfold regs2. apply find_reg_add_var_mono.
      unfold regs1. apply find_reg_app_some. exact Hf. }
    pose proof (find_reg_range _ _ _ _ Hf) as Rx.
    set (c' := if inc then lit_of tok else wrap_int (- lit_of tok)) in *.
    destruct (exec_add d2 tgt (zlen regs) c' (get st y) R1 ltac:(lia)) as (d3 & E3 & U3).
    exists d3.
    rewrite exec_list_app, exec_adv. rewrite exec_list_app. rewrite exec_list_app, exec_adv.
    cbn [exec_list]. rewrite E1.
    rewrite exec_list_app. rewrite exec_list_app, exec_adv. cbn [exec_list]. rewrite E2, E3.
    split; [reflexivity|]. split; [pose proof (zupd_length _ _ _ _ U3); lia|].
    assert (V : Z.max 0 (Z.min (get st y + c') INT_MAX) =
                rv_val st (if inc then RInc (RVar y) (lit_of tok) else RDec (RVar y) (lit_of tok)) /\
                0 <= rv_val st (if inc then RInc (RVar y) (lit_of tok) else RDec (RVar y) (lit_of tok)) <= B + strtol tok).
    { unfold c'. destruct inc; cbn [rv_val].
      - rewrite Hlit. unfold INT_MAX. lia.
      - rewrite Hlit. rewrite wrap_int_neg by (unfold INT_MAX; lia). unfold INT_MAX. lia. }
    destruct V as [V1 V2]. rewrite V1 in U3. split; [|exact V2].
    eapply S_wr_var; eauto.
Qed.

Lemma core_chain l : forall regs pos st d B,
  Sim regs st d -> names_ok l -> zlen (chain_regs l regs) <= zlen d ->
  (forall y, 0 <= get st y <= B) -> B + chain_lit l < INT_MAX ->
  exists d', exec_list (chain_code l regs pos) d = Some d' /\ zlen d' = zlen d /\
    Sim (chain_regs l regs) (rexec (chain_rcode l pos) st) d'.
Proof.
  induction l as [|s l IH]; intros regs pos st d B S Hok Hl Hb HB; cbn [chain_regs chain_code chain_rcode chain_lit] in *.
  - exists d. split; [reflexivity|]. split; [reflexivity|]. exact S.
  - apply names_ok_cons in Hok. destruct Hok as [Hn Hok].
    assert (Hx : as_x s <> temp_name_str) by (apply Hn; left; reflexivity).
    pose proof (chain_regs_le l (stmt_regs s regs)) as L1.
    pose proof (val_regs_le (as_v s) (add_var regs (as_x s))) as L2. fold (stmt_regs s regs) in L2.
    assert (S1 : Sim (add_var regs (as_x s)) st d) by (apply S_var; auto; lia).
    pose proof (val_lit_nonneg (as_v s)) as Hv0.
    assert (Hcl : 0 <= chain_lit l).
    { clear. induction l as [|s' l' IH']; cbn [chain_lit]; [lia|]. pose proof (val_lit_nonneg (as_v s')). lia. }
    destruct (core_val (as_v s) (reg_ix regs (as_x s)) (add_var regs (as_x s)) (stmt_pos0 s pos) (as_x s) st d B
                S1 Hx (fun y Hy => Hn y (or_intror Hy)) (find_reg_add_var regs (as_x s))
                ltac:(fold (stmt_regs s regs); lia) Hb ltac:(lia)) as (d1 & E1 & Ld1 & S2 & Hv).
    fold (stmt_regs s regs) in S2.
    rewrite rexec_app, rexec_stmt.
    destruct (IH (stmt_regs s regs) (stmt_pos s pos) _ d1 (B + val_lit (as_v s)) S2 Hok ltac:(lia)) as (d2 & E2 & Ld2 & S3).
    + intros y. destruct (str_eqb y (as_x s)) eqn:E.
      * apply str_eqb_eq in E. subst y. rewrite get_put_same. exact Hv.
      * rewrite get_put_other by (intros ->; rewrite str_eqb_refl in E; discriminate).
        specialize (Hb y). lia.
    + lia.
    + exists d2. unfold stmt_code. rewrite exec_list_app.
      rewrite exec_list_app, exec_adv. rewrite exec_list_app, exec_adv. rewrite E1.
      split; [exact E2|]. split; [lia | exact S3].
Qed.

(* ================================================================================================ *)
(* 6. the stack map and the variables of the routine                                                *)
(* ================================================================================================ *)
Lemma stack_map_app regs l : forall k,
  stack_map_of (regs ++ l) k = stack_map_of regs k ++ stack_map_of l (k + zlen regs).
Proof.
  induction regs as [|r regs IH]; intros k; cbn [app stack_map_of].
  - unfold zlen; cbn [length]. rewrite Z.add_0_r. reflexivity.
  - rewrite IH, zlen_cons. replace (k + 1 + zlen regs) with (k + (zlen regs + 1)) by lia.
    destruct (is_temp r); reflexivity.
Qed.

Lemma smap_snoc regs r :
  stack_map_of (regs ++ [r]) 0 = stack_map_of regs 0 ++ (if is_temp r then [] else [(zlen regs, vname r)]).
Proof. rewrite stack_map_app. cbn [stack_map_of]. rewrite Z.add_0_l. destruct (is_temp r); reflexivity. Qed.

Lemma znth_nil {A} i : znth (@nil A) i = None.
Proof. unfold znth. destruct (i <? 0); [reflexivity|]. destruct (Z.to_nat i); reflexivity. Qed.

Lemma smap_in regs : forall i x,
  In (i, x) (stack_map_of regs 0) <-> exists r, znth regs i = Some r /\ is_temp r = false /\ vname r = x.
Proof.
  induction regs as [|r regs IH] using rev_ind; intros i x.
  - cbn [stack_map_of In]. split; [tauto|]. intros (r & H & _). rewrite znth_nil in H. discriminate.
  - rewrite smap_snoc, in_app_iff, IH. split.
    + intros [(r' & H1 & H2 & H3)|H].
      * exists r'. split; [|auto]. rewrite znth_app_l; [exact H1|]. apply znth_some_range in H1. lia.
      * destruct (is_temp r) eqn:E; [destruct H|]. destruct H as [H|[]]. inversion H; subst.
        exists r. split; [apply znth_app_last|auto].
    + intros (r' & H1 & H2 & H3). apply znth_snoc_inv in H1. destruct H1 as [[_ H1]|[-> ->]].
      * left. exists r'. auto.
      * right. rewrite H2. left. congruence.
Qed.

Lemma smap_find regs i x : wf regs -> In (i, x) (stack_map_of regs 0) ->
  x <> temp_name_str /\ find_reg regs x 0 = Some i.
Proof.
  intros W H. apply smap_in in H. destruct H as (r & H1 & H2 & H3). specialize (W _ _ H1).
  rewrite H2 in W. subst x. exact W.
Qed.

Lemma find_smap regs i x : wf regs -> x <> temp_name_str -> find_reg regs x 0 = Some i ->
  In (i, x) (stack_map_of regs 0).
Proof.
  intros W Hx H. apply smap_in. destruct (find_reg_znth _ _ _ H) as (r & H1 & H2).
  exists r. split; [exact H1|]. split; [|exact H2].
  specialize (W _ _ H1). destruct (is_temp r); [|reflexivity]. destruct W as [W _]. congruence.
Qed.

Definition VR (regs : list vreg) (vars : list str) : Prop := vars = map snd (stack_map_of regs 0).

Lemma VR_tmp regs vars : VR regs vars -> VR (regs ++ [tmp_reg]) vars.
Proof. unfold VR. intros ->. rewrite smap_snoc. cbn [tmp_reg is_temp]. rewrite app_nil_r. reflexivity. Qed.

Lemma VR_var regs vars x : wf regs -> x <> temp_name_str -> VR regs vars -> VR (add_var regs x) (mention_l vars x).
Proof.
  unfold VR. intros W Hx ->. unfold add_var, mention_l.
  destruct (find_reg regs x 0) as [i|] eqn:E.
  - assert (Hin : In x (map snd (stack_map_of regs 0))).
    { apply in_map_iff. exists (i, x). split; [reflexivity|]. apply find_smap; auto. }
    assert (He : existsb (str_eqb x) (map snd (stack_map_of regs 0)) = true).
    { apply existsb_exists. exists x. split; [exact Hin | apply str_eqb_refl]. }
    rewrite He. reflexivity.
  - assert (He : existsb (str_eqb x) (map snd (stack_map_of regs 0)) = false).
    { destruct (existsb _ _) eqn:Ex; [|reflexivity]. apply existsb_exists in Ex.
      destruct Ex as (y & Hy & Hxy). apply str_eqb_eq in Hxy. subst y.
      apply in_map_iff in Hy. destruct Hy as ([j z] & Hz & Hj). cbn [snd] in Hz. subst z.
      apply (smap_find _ _ _ W) in Hj. destruct Hj as [_ Hj]. congruence. }
    rewrite He. rewrite smap_snoc. cbn [var_reg is_temp vname]. rewrite map_app. reflexivity.
Qed.

Lemma VR_val v regs vars : wf regs -> (forall y, In y (val_names v) -> y <> temp_name_str) ->
  VR regs vars -> VR (val_regs v regs) (val_vars v vars).
Proof.
  intros W Hn H. destruct v as [p y|p tok|p inc p1 y p2 tok]; cbn [val_regs val_vars val_names] in *.
  - apply VR_var; auto. apply Hn; left; reflexivity.
  - exact H.
  - apply VR_tmp. apply VR_var; [apply wf_tmp; exact W | apply Hn; left; reflexivity | apply VR_tmp; exact H].
Qed.

Lemma VR_chain l : forall regs vars, wf regs -> names_ok l -> VR regs vars ->
  VR (chain_regs l regs) (chain_vars l vars).
Proof.
  induction l as [|s l IH]; intros regs vars W Hok H; cbn [chain_regs chain_vars]; [exact H|].
  apply names_ok_cons in Hok. destruct Hok as [Hn Hok].
  apply IH; [apply wf_stmt_regs; auto | exact Hok |].
  unfold stmt_regs, stmt_vars. apply VR_val.
  - apply wf_add_var; [apply Hn; left; reflexivity | exact W].
  - intros y Hy. apply Hn. right; exact Hy.
  - apply VR_var; [exact W | apply Hn; left; reflexivity | exact H].
Qed.

Lemma mention_l_NoDup vars x : NoDup vars -> NoDup (mention_l vars x).
Proof.
  intros H. unfold mention_l. destruct (existsb (str_eqb x) vars) eqn:E; [exact H|].
  apply NoDup_snoc; [exact H|]. intros Hin.
  assert (existsb (str_eqb x) vars = true) by (apply existsb_exists; exists x; split; [exact Hin | apply str_eqb_refl]).
  congruence.
Qed.

Lemma chain_vars_NoDup l : forall vars, NoDup vars -> NoDup (chain_vars l vars).
Proof.
  induction l as [|s l IH]; intros vars H; cbn [chain_vars]; [exact H|].
  apply IH. unfold stmt_vars. destruct (as_v s); cbn [val_vars]; repeat apply mention_l_NoDup; exact H.
Qed.

(* ================================================================================================ *)
(* 7. reading the variables of the frame                                                            *)
(* ================================================================================================ *)
Lemma read_vars_spec d base : forall m acc,
  NoDup (map snd m) ->
  (forall r n, In (r, n) m -> alookup str_ltb acc n = None) ->
  (forall r n, In (r, n) m -> znth d (base + r) <> None) ->
  exists res, read_vars d base m acc = Ok res /\
    forall x v, alookup str_ltb res x = Some v <->
                (alookup str_ltb acc x = Some v \/ exists r, In (r, x) m /\ znth d (base + r) = Some v).
Proof.
  induction m as [|[r n] m IH]; intros acc Hnd Hacc Hrange; cbn [read_vars].
  - exists acc. split; [reflexivity|]. intros x v. split; [auto|]. intros [H|(r & [] & _)]; exact H.
  - cbn [map snd] in Hnd. inversion Hnd as [|? ? Hnotin Hnd']; subst.
    unfold rd. destruct (znth d (base + r)) as [v0|] eqn:Ev.
    2:{ exfalso. apply (Hrange r n); [left; reflexivity | exact Ev]. }
    cbn [of_opt bind].
    destruct (IH (ainsert str_ltb acc n v0) Hnd') as (res & E & Hres).
    + intros r' n' Hin. rewrite (alookup_ainsert str_ltb str_keqb_eq).
      destruct (keqb str_ltb n' n) eqn:K.
      * apply str_keqb_eq in K. subst n'. exfalso. apply Hnotin. apply in_map_iff. exists (r', n). auto.
      * apply (Hacc r' n'). right; exact Hin.
    + intros r' n' Hin. apply (Hrange r' n'). right; exact Hin.
    + exists res. split; [exact E|]. intros x v. rewrite Hres.
      rewrite (alookup_ainsert str_ltb str_keqb_eq).
      destruct (keqb str_ltb x n) eqn:K.
      * apply str_keqb_eq in K. subst x. split.
        -- intros [H|(r' & Hin & Hz)].
           ++ inversion H; subst. right. exists r. split; [left; reflexivity | exact Ev].
           ++ right. exists r'. split; [right; exact Hin | exact Hz].
        -- intros [H|(r' & [Hin|Hin] & Hz)].
           ++ rewrite (Hacc r n (or_introl eq_refl)) in H. discriminate.
           ++ inversion Hin; subst. left. congruence.
           ++ right. exists r'. auto.
      * split.
        -- intros [H|(r' & Hin & Hz)]; [left; exact H|]. right. exists r'. split; [right; exact Hin | exact Hz].
        -- intros [H|(r' & [Hin|Hin] & Hz)]; [left; exact H | |].
           ++ inversion Hin; subst. rewrite (proj2 (str_keqb_eq x x) eq_refl) in K. discriminate.
           ++ right. exists r'. auto.
Qed.

(* the variables read from a frame that simulates the store are the view of the routine *)
Lemma views_agree regs vars st d : wf regs -> VR regs vars -> NoDup vars -> Sim regs st d -> zlen regs <= zlen d ->
  exists vmvars, read_vars d 0 (stack_map_of regs 0) [] = Ok vmvars /\
    same_values vmvars (map (fun x => (x, get st x)) vars).
Proof.
  intros W HVR Hnd S Hl. unfold VR in HVR. subst vars.
  destruct (read_vars_spec d 0 (stack_map_of regs 0) [] Hnd) as (res & E & Hres).
  - intros; reflexivity.
  - intros r n Hin. destruct (smap_find _ _ _ W Hin) as [Hn Hf]. rewrite Z.add_0_l.
    rewrite (sim_var _ _ _ S n r Hn Hf). discriminate.
  - exists res. split; [exact E|]. split.
    + intros x v Hin. apply in_map_iff in Hin. destruct Hin as (y & Hy & Hin). inversion Hy; subst.
      apply in_map_iff in Hin. destruct Hin as ([r n] & Hn & Hin). cbn [snd] in Hn. subst n.
      apply Hres. right. exists r. split; [exact Hin|]. rewrite Z.add_0_l.
      destruct (smap_find _ _ _ W Hin) as [Hx Hf]. apply (sim_var _ _ _ S x r Hx Hf).
    + intros x v H. apply Hres in H. destruct H as [H|(r & Hin & Hz)]; [discriminate|].
      rewrite Z.add_0_l in Hz. destruct (smap_find _ _ _ W Hin) as [Hx Hf].
      rewrite (sim_var _ _ _ S x r Hx Hf) in Hz. inversion Hz; subst.
      apply in_map_iff. exists x. split; [reflexivity|]. apply in_map_iff. exists (r, x). auto.
Qed.
