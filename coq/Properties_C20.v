(* Properties_C20.v — the theorems that decide property C20 on the model, each stated in full and closed by
   `exact <lemma>`; the lemmas live in the Proofs_*.v files.  Nothing else belongs in this file. *)
From Theo Require Import Base VMModel VMSpec VMStatements Proofs_VM_mem CompiledStatements Regex Tokens Errors Lexer Scan MacroExtract Grammar LR MacroApply Parser VMCheck VMCheckStatements GenModel Compile Gen_Lexer Gen_Consts CompileStatements Proofs_Compiled PrioStatements Proofs_Prio.
Local Open Scope Z_scope.

Theorem C20_range :
  forall p h fuel s, consts_in_range p = true -> run_hist fuel h (init p) = Ok s -> Forall word_ok (data s).
Proof. exact C20_range_proof. Qed.
Print Assumptions C20_range.

Theorem C20_no_overflow :
  (forall s, exec1 s <> UB ub_overflow) /\
  (forall fuel h s, run_hist fuel h s <> UB ub_overflow).
Proof. exact C20_no_overflow_proof. Qed.
Print Assumptions C20_no_overflow.

Theorem C20_sub :
  forall x c, word_ok x -> 0 <= c -> add_const cfg_now x (- c) = Ok (Z.max (x - c) 0).
Proof. exact C20_sub_proof. Qed.
Print Assumptions C20_sub.

Theorem C20_add :
  forall x c, word_ok x -> 0 <= c -> add_const cfg_now x c = Ok (Z.min (x + c) INT_MAX).
Proof. exact C20_add_proof. Qed.
Print Assumptions C20_add.

Theorem C20_refuted_at_pinned :
  exists x c, word_ok x /\ word_ok c /\ add_const cfg_pinned x c = UB ub_overflow.
Proof. exact C20_refuted_at_pinned_proof. Qed.
Print Assumptions C20_refuted_at_pinned.

(* ---- the constants of generated code (needs the generator model) ---- *)
From Theo Require Import Parser GenModel CompileStatements Proofs_Gen.

Theorem C20_consts :
  forall root r, gen true [] (Some root) = Ok r -> gr_ok r = true ->
    consts_in_range (gr_prog r) = true /\ counts_ok (gr_prog r) = true.
Proof. exact C20_consts_proof. Qed.
Print Assumptions C20_consts.

Theorem C20_compiled :
  forall files main c h fuel s,
    compile files main = Ok c -> cr_ok c = true -> run_hist fuel h (init (cr_prog c)) = Ok s ->
    Forall word_ok (data s).
Proof. exact C20_compiled_proof. Qed.
Print Assumptions C20_compiled.

Theorem C20_priority_word :
  forall toks errs out macros, extract_macros toks = Ok (errs, out, macros) ->
    Forall (fun m => - INT_MAX - 1 <= m_priority m <= INT_MAX) macros.
Proof. exact C20_priority_word_proof. Qed.
Print Assumptions C20_priority_word.

Theorem C20_priority_range :
  forall toks errs out macros, eof_terminated toks -> extract_macros toks = Ok (errs, out, macros) ->
    forall i d p n,
      znth toks i = Some d -> znth toks (i + 1) = Some p -> znth toks (i + 2) = Some n ->
      tk d = DEFINE -> tk p = PRIORITY -> tk n = INT -> INT_MAX <= strtol (ttext n) ->
      (forall e, In e errs -> pe_kind e <> e_macro_nested_define /\ pe_kind e <> e_macro_nested_as /\
                              pe_kind e <> e_macro_expect) ->
      exists e, In e errs /\ pe_kind e = e_range.
Proof. exact C20_priority_range_proof. Qed.
Print Assumptions C20_priority_range.

Theorem C20_priority_range_needs_guards :
  ~ C20_priority_range_unguarded_stmt.
Proof. exact C20_priority_range_needs_guards_proof. Qed.
Print Assumptions C20_priority_range_needs_guards.
