(* Tokens.v — Token::Type of Compiler/include/token.hpp as an inductive with its numbering, and the
   Token record.  The numbering is re-checked against the source on every run (Gen_Enums.v). *)
From Coq Require Import String.
From Theo Require Import Base.
Local Open Scope N_scope.

Inductive tkind :=
| T_EOF | ID | NV_ID | INT | PAREN_CLOSE | PAREN_OPEN | ARGSEP | PROGSEP | LABELDEC | ASSIGN
| NEQ_ZERO | EQ | DO | LOOP | WHILE | GOTO | IF | THEN | STOP | END | PROGRAM | IN | OUT | INCLUDE
| FNAME | DEFINE | AS | PRIORITY | END_DEFINE | PROG_TEMP | VALUE_TEMP | ID_TEMP | INT_TEMP
| ARGS_TEMP | INSERTION | TEMP_VAL | RUN | WITH | UNKNOWN.

Definition all_tkinds : list tkind :=
  [T_EOF; ID; NV_ID; INT; PAREN_CLOSE; PAREN_OPEN; ARGSEP; PROGSEP; LABELDEC; ASSIGN;
   NEQ_ZERO; EQ; DO; LOOP; WHILE; GOTO; IF; THEN; STOP; END; PROGRAM; IN; OUT; INCLUDE;
   FNAME; DEFINE; AS; PRIORITY; END_DEFINE; PROG_TEMP; VALUE_TEMP; ID_TEMP; INT_TEMP;
   ARGS_TEMP; INSERTION; TEMP_VAL; RUN; WITH; UNKNOWN].

Definition tk_num (k : tkind) : N :=
  match k with
  | T_EOF => 0 | ID => 1 | NV_ID => 2 | INT => 3 | PAREN_CLOSE => 4 | PAREN_OPEN => 5 | ARGSEP => 6
  | PROGSEP => 7 | LABELDEC => 8 | ASSIGN => 9 | NEQ_ZERO => 10 | EQ => 11 | DO => 12 | LOOP => 13
  | WHILE => 14 | GOTO => 15 | IF => 16 | THEN => 17 | STOP => 18 | END => 19 | PROGRAM => 20
  | IN => 21 | OUT => 22 | INCLUDE => 23 | FNAME => 24 | DEFINE => 25 | AS => 26 | PRIORITY => 27
  | END_DEFINE => 28 | PROG_TEMP => 29 | VALUE_TEMP => 30 | ID_TEMP => 31 | INT_TEMP => 32
  | ARGS_TEMP => 33 | INSERTION => 34 | TEMP_VAL => 35 | RUN => 36 | WITH => 37 | UNKNOWN => 38
  end.

Definition tk_name (k : tkind) : string :=
  match k with
  | T_EOF => "T_EOF" | ID => "ID" | NV_ID => "NV_ID" | INT => "INT" | PAREN_CLOSE => "PAREN_CLOSE"
  | PAREN_OPEN => "PAREN_OPEN" | ARGSEP => "ARGSEP" | PROGSEP => "PROGSEP" | LABELDEC => "LABELDEC"
  | ASSIGN => "ASSIGN" | NEQ_ZERO => "NEQ_ZERO" | EQ => "EQ" | DO => "DO" | LOOP => "LOOP"
  | WHILE => "WHILE" | GOTO => "GOTO" | IF => "IF" | THEN => "THEN" | STOP => "STOP" | END => "END"
  | PROGRAM => "PROGRAM" | IN => "IN" | OUT => "OUT" | INCLUDE => "INCLUDE" | FNAME => "FNAME"
  | DEFINE => "DEFINE" | AS => "AS" | PRIORITY => "PRIORITY" | END_DEFINE => "END_DEFINE"
  | PROG_TEMP => "PROG_TEMP" | VALUE_TEMP => "VALUE_TEMP" | ID_TEMP => "ID_TEMP"
  | INT_TEMP => "INT_TEMP" | ARGS_TEMP => "ARGS_TEMP" | INSERTION => "INSERTION"
  | TEMP_VAL => "TEMP_VAL" | RUN => "RUN" | WITH => "WITH" | UNKNOWN => "UNKNOWN"
  end%string.

Definition tk_eqb (a b : tkind) : bool := N.eqb (tk_num a) (tk_num b).

Record token := mkTok { tk : tkind; ttext : str; tfile : str; tline : Z }.
