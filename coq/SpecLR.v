(* SpecLR.v — derivation trees and their values: the vocabulary of "the parser accepts exactly the
   language and returns the fold of the derivation tree" (C13). *)
From Theo Require Import Base Grammar LR.
Local Open Scope N_scope.

Section Trees.
  Context {T V : Type}.
  Variable translator : T -> N.
  Variable creator : T -> V.
  Variable semantic : sym -> N -> list V -> V.

  Inductive tree :=
  | Leaf (tok : T)
  | Inner (lhs : sym) (alt : N) (children : list tree).

  Definition root (t : tree) : sym :=
    match t with Leaf tok => Tm (translator tok) | Inner lhs _ _ => lhs end.

  Fixpoint yield (t : tree) : list T :=
    match t with
    | Leaf tok => [tok]
    | Inner _ _ ch => (fix go (l : list tree) : list T := match l with [] => [] | c :: r => yield c ++ go r end) ch
    end.

  (* each rule's action applied once to the values of its right-hand side, LAST symbol first *)
  Fixpoint value (t : tree) : V :=
    match t with
    | Leaf tok => creator tok
    | Inner lhs alt ch =>
        semantic lhs alt (rev ((fix go (l : list tree) : list V := match l with [] => [] | c :: r => value c :: go r end) ch))
    end.

  (* the tree is built from rules of g *)
  Inductive valid (g : grammar) : tree -> Prop :=
  | V_leaf : forall tok, valid g (Leaf tok)
  | V_inner : forall lhs alt ch rhs,
      nth_error (rs_get g lhs) (N.to_nat alt) = Some rhs ->
      map root ch = rhs -> Forall (valid g) ch ->
      valid g (Inner lhs alt ch).
End Trees.
Arguments Leaf {T}.
Arguments Inner {T}.
