(* Proofs_Gen.v — proofs about the code generator and the pipeline (statements in CompileStatements.v). *)
From Coq Require Import List ZArith NArith Lia Bool Sorting.Sorted.
From Theo Require Import Base Regex Tokens Errors Lexer Scan MacroExtract Grammar LR MacroApply Parser VMModel VMSpec VMCheck GenModel Compile Gen_Lexer Gen_Consts CompileStatements Proofs_VM_dbg.
From Theo Require Import Proofs_Gen0.
Import ListNotations.
Local Open Scope Z_scope.

(* ===== C08_tables_ok_meaning ===================================================================== *)
Lemma C08_tables_ok_meaning_proof : C08_tables_ok_meaning_stmt.
Proof.
  intros p H. destruct (tables_ok_unpack p H) as [TA TB TC]. repeat split; auto.
  - apply (TA b i); auto.
  - apply (TA b i); auto.
Qed.

(* ===== C02_shape ================================================================================= *)
Lemma C02_shape_proof : C02_shape_stmt.
Proof.
  intros files main r H. unfold compile, compile_budget in H. binv H.
  inversion H; subst; clear H. cbn [cr_ok cr_errors].
  unfold gen in H1. apply gen_gen_inv in H1.
  destruct H1 as (g3 & g4 & p & i0 & c0 & g6 & _ & _ & _ & _ & _ & _ & ->).
  unfold gen_result; cbn [gr_ok gr_errors]. destruct (g_errs g6); [left | right]; split; auto; discriminate.
Qed.

(* ===== C02_errors_forwarded ====================================================================== *)
Lemma fold_verr perrs : forall g,
  fold_left (fun g e => verr g T_PARSE_ERROR (se_kind e) (se_file e) (se_line e)) perrs g =
  upd_errs g (g_errs g ++ map (fun e => mkGErr T_PARSE_ERROR (se_kind e) (se_file e) (se_line e)) perrs).
Proof.
  induction perrs as [|e t IH]; intros g; cbn [fold_left map].
  - rewrite app_nil_r. destruct g; reflexivity.
  - rewrite IH. unfold verr, upd_errs; cbn. rewrite <- app_assoc. reflexivity.
Qed.

Lemma parse_budget_ok passes files main p : parse_budget passes files main = Ok p ->
  pr_ok p = match pr_errors p with [] => true | _ => false end.
Proof.
  unfold parse_budget. intros H. binv H. inversion H; subst. reflexivity.
Qed.

Lemma C02_errors_forwarded_proof : C02_errors_forwarded_stmt.
Proof.
  intros passes files main p Hp. apply parse_budget_ok in Hp. split.
  - intros Hne. rewrite Hp. destruct (pr_errors p); congruence.
  - intros g Hg Hf. rewrite Hf in Hg. unfold gen in Hg. apply gen_gen_inv in Hg.
    destruct Hg as (g3 & g4 & p0 & i0 & c0 & g6 & H1 & H2 & H3 & H4 & H5 & H6 & ->).
    unfold gen_body in H1. cbn [negb] in H1. rewrite fold_verr in H1. inversion H1; subst g3; clear H1.
    unfold pop_symbols in H2. cbn in H2. inversion H2; subst g4; clear H2.
    cbn in H4. inversion H4; subst i0; clear H4.
    cbn in H5. inversion H5; subst c0; clear H5.
    unfold backpatch in H6. cbn in H6. inversion H6; subst g6; clear H6.
    unfold gen_result; cbn. rewrite map_length.
    rewrite Hf in Hp. destruct (pr_errors p); [discriminate|]. cbn. auto.
Qed.

(* ===== the run of gen as primitive steps ========================================================== *)
Lemma gen_body_steps Pos ok perrs root g3 :
  allpos_o Pos root -> gen_body cfgen_now ok perrs root = Ok g3 -> steps Pos ginit g3.
Proof.
  unfold gen_body. intros HA H. destruct (negb ok).
  - rewrite fold_verr in H.
    match type of H with Ok (upd_errs _ (_ ++ ?m)) = _ => pose proof (st_errs Pos ginit m) as St end.
    eapply steps_snoc; [apply steps_refl|]. congruence.
  - destruct root as [n|].
    + cbn in H. eapply dvoid_steps; eauto. apply steps_refl.
    + inversion H; subst. apply steps_refl.
Qed.

Lemma allpos_true o : allpos_o (fun _ _ => True) o.
Proof. destruct o; cbn; auto. intros f l _ _. exact I. Qed.

Lemma patch0_map_iop c i0 a b c0 :
  znth c 0 = Some i0 -> zupd c 0 (mkI (iop i0) a b (ic i0)) = Some c0 -> map iop c0 = map iop c.
Proof.
  intros H1 H2. apply zupd_inv in H2. destruct H2 as [_ ->]. rewrite map_upd_nat. cbn [iop].
  apply upd_nat_same. rewrite nth_error_map. apply znth_nth_error in H1. rewrite H1. reflexivity.
Qed.

(* ===== C08_gen_tables ============================================================================ *)
Lemma inv1_ginit : inv1 ginit.
Proof. unfold inv1; cbn. apply tabinv_init; discriminate. Qed.

Lemma C08_gen_tables_proof : C08_gen_tables_stmt.
Proof.
  intros ok perrs root r H. unfold gen in H. apply gen_gen_inv in H.
  destruct H as (g3 & g4 & p & i0 & c0 & g6 & H1 & H2 & H3 & H4 & H5 & H6 & ->).
  apply (gen_body_steps (fun _ _ => True)) in H1; [|apply allpos_true].
  assert (I4 : inv1 g4).
  { eapply (steps_preserve _ inv1 (step_inv1 _)); [|apply inv1_ginit].
    eapply ss_pop; eauto. }
  apply backpatch_spec in H6. destruct H6 as (J1 & J2 & J3 & _).
  unfold gen_result; cbn [gr_prog]. apply tabinv_tables_ok.
  rewrite J2, J3. rewrite (jok_map_iop _ _ J1). cbn. rewrite map_app.
  rewrite (patch0_map_iop _ _ _ _ _ H4 H5). apply tabinv_app; try discriminate. exact I4.
Qed.

(* ===== C20_consts ================================================================================ *)
Definition const_ok (ins : instr) : Prop := iop ins = CONST -> 0 <= ib ins <= INT_MAX.
Definition count_ok (ins : instr) : Prop := iop ins = PREPARE_EXEC -> 0 <= ia ins.

Record inv3 (g : gstate) : Prop := mkInv3 {
  i3_const : g_errs g = [] -> Forall const_ok (g_code g);
  i3_count : Forall count_ok (tl (g_code g));
  i3_funcs : forall f p, alookup str_ltb (g_funcs g) f = Some p -> 0 <= p_stack_size p;
  i3_head : hd_error (map iop (g_code g)) = Some PREPARE_EXEC
}.

Lemma digits_val_ge s : forall acc, 0 <= acc -> acc <= digits_val s acc.
Proof.
  induction s as [|c t IH]; intros acc H; cbn [digits_val]; [lia|].
  destruct ((48 <=? c)%N && (c <=? 57)%N); [|lia].
  assert (H1 : 0 <= acc * 10 + Z.of_N (c - 48)) by lia.
  specialize (IH _ H1). lia.
Qed.

Lemma strtol_nonneg s : 0 <= strtol s.
Proof. unfold strtol. pose proof (digits_val_ge s 0 ltac:(lia)). unfold LONG_MAX. lia. Qed.

Lemma wrap_int_small v : 0 <= v < INT_MAX -> wrap_int v = v.
Proof. unfold wrap_int, INT_MAX. intros H. rewrite Z.mod_small by lia. lia. Qed.

Lemma Forall_tl_snoc {A} (P : A -> Prop) c x : Forall P (tl c) -> P x -> Forall P (tl (c ++ [x])).
Proof.
  destruct c as [|h t]; cbn; intros H Hx; [constructor|]. apply Forall_app. split; auto.
Qed.

Lemma Forall_tl_removelast {A} (P : A -> Prop) (c : list A) : Forall P (tl c) -> Forall P (tl (removelast c)).
Proof.
  destruct c as [|h t]; cbn [tl removelast]; auto. destruct t as [|y t]; [constructor|].
  cbn [tl]. apply Forall_removelast.
Qed.

Lemma inv3_emit g i : const_ok i -> count_ok i -> inv3 g -> inv3 (emit g i).
Proof.
  intros H1 H2 [A B C D]. constructor; cbn; auto.
  - intros He. apply Forall_app. split; auto.
  - apply Forall_tl_snoc; auto.
  - destruct (g_code g); [discriminate | exact D].
Qed.

Lemma inv3_ext g g' : g_code g' = g_code g -> (g_errs g' = [] -> g_errs g = []) -> g_funcs g' = g_funcs g ->
  inv3 g -> inv3 g'.
Proof. intros E1 E2 E3 [A B C D]. constructor; rewrite ?E1, ?E3; auto. Qed.

Lemma step_inv3 Pos g g' : step Pos g g' -> inv3 g -> inv3 g'.
Proof.
  intros S I. destruct S; try (eapply inv3_ext; [| | | exact I]; cbn; auto; fail).
  - apply inv3_emit; auto; intros Hc; destruct i as [o ? ? ?]; cbn in *; subst o; discriminate.
  - unfold gen_str_to_int; cbn [fst snd]. destruct (Z.leb_spec INT_MAX (strtol tok)) as [Hle|Hlt].
    + destruct I as [A B C D]. constructor; cbn; auto.
      * intros He. apply app_eq_nil in He. destruct He as [_ He]. discriminate.
      * apply Forall_tl_snoc; auto. intros Hc; discriminate.
      * destruct (g_code g); [discriminate | exact D].
    + apply inv3_emit; auto; [|intros Hc; discriminate]. intros _. cbn [ib IConst].
      pose proof (strtol_nonneg tok). rewrite wrap_int_small by lia. lia.
  - apply inv3_emit; auto; [intros Hc; discriminate|]. intros _. cbn. eapply (i3_funcs _ I); eauto.
  - destruct (advance_spec g line file) as [->|[_ ->]]; auto.
    apply inv3_emit; [intros Hc; discriminate | intros Hc; discriminate |].
    eapply inv3_ext; [| | | exact I]; cbn; auto.
  - apply remove_spec in H. destruct H as [->|(i & pb & li & H1 & H2 & _ & ->)]; auto.
    destruct I as [A B C D]. constructor; cbn; auto.
    + intros He. apply Forall_removelast; auto.
    + apply Forall_tl_removelast; auto.
    + rewrite H2 in D. destruct (removelast (g_code g)); [|exact D].
      cbn in D. rewrite H1 in D. discriminate.
  - eapply inv3_ext; [| | | exact I]; cbn; auto. intros He. apply app_eq_nil in He. tauto.
  - destruct I as [A B C D]. constructor; cbn; auto.
    + intros He. apply app_eq_nil in He. tauto.
    + intros f p0. rewrite str_lookup_insert. destruct (keqb str_ltb f name); [|apply C].
      intros Hs; inversion Hs; subst; auto.
Qed.

Lemma inv3_ginit : inv3 ginit.
Proof.
  constructor; cbn; auto.
  - intros _. constructor; [|constructor]. intros Hc; discriminate.
  - intros f p; discriminate.
Qed.

Lemma Forall_forallb {A} (P : A -> Prop) (f : A -> bool) l :
  (forall x, P x -> f x = true) -> Forall P l -> forallb f l = true.
Proof. intros H HF. apply forallb_forall. rewrite Forall_forall in HF. auto. Qed.

Lemma C20_consts_proof : C20_consts_stmt.
Proof.
  intros root r H Hok. unfold gen in H. apply gen_gen_inv in H.
  destruct H as (g3 & g4 & p & i0 & c0 & g6 & H1 & H2 & H3 & H4 & H5 & H6 & ->).
  apply (gen_body_steps (fun _ _ => True)) in H1; [|apply allpos_true].
  assert (I4 : inv3 g4).
  { eapply (steps_preserve _ inv3 (step_inv3 _)); [|apply inv3_ginit]. eapply ss_pop; eauto. }
  apply backpatch_spec in H6. destruct H6 as (J1 & _ & _ & _ & J5).
  unfold gen_result in *; cbn [gr_prog gr_ok] in *.
  assert (He6 : g_errs g6 = []) by (destruct (g_errs g6); [reflexivity | discriminate]).
  specialize (J5 He6). cbn in J5, J1.
  destruct I4 as [A B C D]. specialize (A J5). specialize (C _ _ H3).
  apply zupd_inv in H5. destruct H5 as [_ ->].
  destruct (g_code g4) as [|h t] eqn:Ec; [discriminate|]. cbn in H4, D, B |- *. inversion H4; subst i0; clear H4.
  injection D as Hh. inversion A as [|? ? Ah At]; subst.
  unfold consts_in_range, counts_ok; cbn [code]. split.
  - eapply Forall_forallb; [|eapply (jok_Forall const_ok); [| exact J1 |]].
    + intros x Hx. destruct (opcode_eqb (iop x) CONST) eqn:E; auto. apply opcode_eqb_eq in E.
      specialize (Hx E). apply andb_true_iff. split; [apply Z.leb_le | apply Z.leb_le]; lia.
    + intros i Hj Hc. destruct Hj as [Hj|Hj]; rewrite Hj in Hc; discriminate.
    + cbn. constructor; [intros Hc; cbn in Hc; rewrite Hh in Hc; discriminate|].
      apply Forall_app. split; auto. constructor; [intros Hc; discriminate | constructor].
  - eapply Forall_forallb; [|eapply (jok_Forall count_ok); [| exact J1 |]].
    + intros x Hx. destruct (opcode_eqb (iop x) PREPARE_EXEC) eqn:E; auto. apply opcode_eqb_eq in E.
      specialize (Hx E). apply Z.leb_le. lia.
    + intros i Hj Hc. destruct Hj as [Hj|Hj]; rewrite Hj in Hc; discriminate.
    + cbn. constructor; [intros _; cbn; exact C|].
      apply Forall_app. split; auto. constructor; [intros Hc; discriminate | constructor].
Qed.

(* ===== C08_locations_ast ========================================================================= *)
Section Locations.
  Variable root : node.
  Definition PosH (f : str) (l : Z) : Prop := f <> hidden_file /\ In (f, l) (positions root).
  Definition inv4 (g : gstate) : Prop := forall b, In b (map fst (g_pb g)) -> PosH (bfile b) (bline b).

  Lemma step_inv4 g g' : step PosH g g' -> inv4 g -> inv4 g'.
  Proof.
    intros S I. destruct S; try exact I.
    - unfold gen_str_to_int; cbn [fst]. destruct (INT_MAX <=? strtol tok); exact I.
    - destruct (advance_spec g line file) as [->|[Hn ->]]; auto.
      unfold inv4, breakpoint; cbn. intros b Hb. apply in_keys_ainsert in Hb.
      destruct Hb as [->|Hb]; auto.
    - apply remove_spec in H. destruct H as [->|(i & pb & li & H1 & H2 & H3 & ->)]; auto.
      unfold inv4; cbn. intros b Hb. apply I. auto.
  Qed.

  Lemma allpos_root : allpos PosH root.
  Proof. intros f l Hin Hn. split; auto. Qed.
End Locations.

Lemma C08_locations_ast_proof : C08_locations_ast_stmt.
Proof.
  intros root r b H Hb. unfold gen in H. apply gen_gen_inv in H.
  destruct H as (g3 & g4 & p & i0 & c0 & g6 & H1 & H2 & H3 & H4 & H5 & H6 & ->).
  apply (gen_body_steps (PosH root)) in H1; [|apply allpos_root].
  assert (I4 : inv4 root g4).
  { eapply (steps_preserve _ (inv4 root) (step_inv4 root)); [eapply ss_pop; eauto|].
    intros b0 Hb0. destruct Hb0. }
  apply backpatch_spec in H6. destruct H6 as (_ & J2 & _).
  unfold gen_result, available in Hb. cbn in Hb. rewrite J2 in Hb. cbn in Hb.
  apply I4 in Hb. exact Hb.
Qed.

(* ===== C02_gen_total ============================================================================== *)
Definition PT : str -> Z -> Prop := fun _ _ => True.
Definition reach (g : gstate) : Prop := steps PT ginit g.

Lemma okpos_true f l : okpos PT f l.
Proof. intros _. exact I. Qed.

Lemma reach_inv1 g : reach g -> inv1 g.
Proof. intros H. eapply (steps_preserve _ inv1 (step_inv1 _)); [exact H | apply inv1_ginit]. Qed.

Lemma reach_inv3 g : reach g -> inv3 g.
Proof. intros H. eapply (steps_preserve _ inv3 (step_inv3 _)); [exact H | apply inv3_ginit]. Qed.

Lemma reach_code g : reach g -> exists h t, g_code g = h :: t /\ iop h = PREPARE_EXEC.
Proof.
  intros H. apply reach_inv3 in H. destruct H as [_ _ _ D]. destruct (g_code g) as [|h t]; [discriminate|].
  cbn in D. inversion D. eauto.
Qed.

Definition lab_ok (g : gstate) (l : Z) : Prop := 0 <= l < zlen (g_labels g).
Definition marks_ok (g : gstate) : Prop :=
  forall f, In f (g_syms g) -> forall n l, In (n, l) (f_marks f) -> lab_ok g l.
Definition jmp_op (o : opcode) : Prop := o = JMP \/ o = JMPC.
Definition todo_ok (g : gstate) : Prop :=
  NoDup (g_todo g) /\
  forall loc, In loc (g_todo g) ->
    exists ins, znth (g_code g) loc = Some ins /\ jmp_op (iop ins) /\ lab_ok g (ia ins).

Record T (g : gstate) : Prop := mkT {
  T_reach : reach g;
  T_syms : g_syms g <> [];
  T_marks : marks_ok g;
  T_todo : todo_ok g
}.

Definition top_rel (s s' : list fgs) : Prop :=
  exists f f' tl, s = f :: tl /\ s' = f' :: tl /\ f_name f' = f_name f /\ zlen (f_regs f) <= zlen (f_regs f').

Record R (g g' : gstate) : Prop := mkR {
  R_T : T g';
  R_labels : zlen (g_labels g) <= zlen (g_labels g');
  R_syms : top_rel (g_syms g) (g_syms g')
}.

Lemma top_rel_refl s : s <> [] -> top_rel s s.
Proof. destruct s as [|f tl]; [congruence|]. intros _. exists f, f, tl. repeat split; auto. lia. Qed.

Lemma top_rel_trans a b c : top_rel a b -> top_rel b c -> top_rel a c.
Proof.
  intros (f1 & f2 & t1 & -> & -> & N1 & L1) (f2' & f3 & t2 & E & -> & N2 & L2).
  inversion E; subst. exists f1, f3, t2. repeat split; auto; [congruence | lia].
Qed.

Lemma R_refl g : T g -> R g g.
Proof. intros H. constructor; auto; [lia | apply top_rel_refl; apply (T_syms _ H)]. Qed.

Lemma R_trans a b c : R a b -> R b c -> R a c.
Proof.
  intros [T1 L1 S1] [T2 L2 S2]. constructor; auto; [lia | eapply top_rel_trans; eauto].
Qed.

Definition reg_ok (g : gstate) (i : Z) : Prop :=
  exists f tl, g_syms g = f :: tl /\ 0 <= i < zlen (f_regs f).

Lemma reg_ok_R g g' i : R g g' -> reg_ok g i -> reg_ok g' i.
Proof.
  intros [_ _ (f & f' & tl & E1 & E2 & _ & L)] (f0 & tl0 & E & Hi). rewrite E1 in E. inversion E; subst.
  exists f', tl0. split; auto. lia.
Qed.

Lemma lab_ok_R g g' l : R g g' -> lab_ok g l -> lab_ok g' l.
Proof. intros [_ L _]. unfold lab_ok. lia. Qed.

Lemma marks_ok_frame g g' : g_syms g' = g_syms g -> zlen (g_labels g) <= zlen (g_labels g') ->
  marks_ok g -> marks_ok g'.
Proof.
  unfold marks_ok, lab_ok. intros E L H f Hf n l Hl. rewrite E in Hf. specialize (H f Hf n l Hl). lia.
Qed.

Lemma todo_ok_ext g g' : g_todo g' = g_todo g -> (exists l, g_code g' = g_code g ++ l) ->
  zlen (g_labels g) <= zlen (g_labels g') -> todo_ok g -> todo_ok g'.
Proof.
  unfold todo_ok, lab_ok. intros E [l C] L [N H]. rewrite E. split; auto.
  intros loc Hl. destruct (H loc Hl) as (ins & Z1 & J & B). exists ins. repeat split; auto; try lia.
  rewrite C. rewrite znth_app_l; auto. apply znth_some_range in Z1. lia.
Qed.

Lemma R_ext g g' : T g -> reach g' -> g_syms g' = g_syms g ->
  zlen (g_labels g) <= zlen (g_labels g') -> g_todo g' = g_todo g ->
  (exists l, g_code g' = g_code g ++ l) -> R g g'.
Proof.
  intros [A B C D] Hr Es L Et Ec. constructor; auto.
  - constructor; auto; [congruence | eapply marks_ok_frame; eauto | eapply todo_ok_ext; eauto].
  - rewrite Es. apply top_rel_refl; auto.
Qed.

Lemma app_nil_ex {A} (l : list A) : exists l', l = l ++ l'.
Proof. exists []. rewrite app_nil_r. reflexivity. Qed.

(* ---- primitives ---- *)
Lemma tot_adv g line file : T g -> R g (advance_line g line file).
Proof.
  intros H. apply R_ext; auto.
  - apply ss_adv; [apply okpos_true | apply (T_reach _ H)].
  - destruct (advance_spec g line file) as [->|[_ ->]]; reflexivity.
  - destruct (advance_spec g line file) as [->|[_ ->]]; cbn; lia.
  - destruct (advance_spec g line file) as [->|[_ ->]]; reflexivity.
  - destruct (advance_spec g line file) as [->|[_ ->]]; [apply app_nil_ex|]. cbn. eauto.
Qed.

Lemma tot_emit g i : plain_op (iop i) = true -> T g -> R g (emit g i).
Proof.
  intros Hp H. apply R_ext; auto; cbn; try lia; eauto. apply ss_emit; auto. apply (T_reach _ H).
Qed.

Lemma tot_err g t k : T g -> R g (err g t k).
Proof.
  intros H. apply R_ext; auto; cbn; try lia; [|apply app_nil_ex]. apply ss_err. apply (T_reach _ H).
Qed.

Lemma tot_verr g t k f l : T g -> R g (verr g t k f l).
Proof.
  intros H. apply R_ext; auto; cbn; try lia; [|apply app_nil_ex]. apply ss_verr. apply (T_reach _ H).
Qed.

Lemma tot_loops g : T g -> R g (loops_incr g).
Proof.
  intros H. apply R_ext; auto; cbn; try lia; [|apply app_nil_ex]. apply ss_loops. apply (T_reach _ H).
Qed.

Lemma tot_const g tok tgt : T g ->
  R g (emit (fst (gen_str_to_int g tok)) (IConst tgt (snd (gen_str_to_int g tok)))).
Proof.
  intros H. apply R_ext; auto.
  - eapply steps_snoc; [apply (T_reach _ H) | apply st_const].
  - unfold gen_str_to_int; cbn. destruct (INT_MAX <=? strtol tok); reflexivity.
  - unfold gen_str_to_int; cbn. destruct (INT_MAX <=? strtol tok); cbn; lia.
  - unfold gen_str_to_int; cbn. destruct (INT_MAX <=? strtol tok); reflexivity.
  - unfold gen_str_to_int; cbn. destruct (INT_MAX <=? strtol tok); cbn; eauto.
Qed.

Lemma tot_prep g f p tgt : alookup str_ltb (g_funcs g) f = Some p -> T g ->
  R g (emit g (IPrepare (p_stack_size p) (p_mi p) tgt)).
Proof.
  intros Hf H. apply R_ext; auto; cbn; try lia; eauto.
  eapply steps_snoc; [apply (T_reach _ H) | eapply st_prep; eauto].
Qed.

Lemma NoDup_snoc {A} (l : list A) x : NoDup l -> ~ In x l -> NoDup (l ++ [x]).
Proof.
  induction 1 as [|h t Hh Ht IH]; cbn; intros Hx.
  - constructor; [intros []|constructor].
  - constructor.
    + intros Hi. apply in_app_or in Hi. destruct Hi as [Hi|[Hi|[]]]; [auto|]. apply Hx. auto.
    + apply IH. intros Hi. apply Hx. auto.
Qed.

Lemma tot_emit_bp g i : jmp_op (iop i) -> lab_ok g (ia i) -> T g -> R g (emit_backpatched g i).
Proof.
  intros Hj Hl [A B C [D1 D2]].
  assert (Hp : plain_op (iop i) = true) by (destruct Hj as [Hj|Hj]; rewrite Hj; reflexivity).
  constructor; cbn; try lia; [|apply top_rel_refl; auto].
  constructor; cbn; auto.
  - apply ss_emit_bp; auto.
  - unfold todo_ok; cbn. unfold next_pos; cbn. rewrite zlen_app. cbn.
    replace (zlen (g_code g) + 1 - 1) with (zlen (g_code g)) by lia. split.
    + apply NoDup_snoc; auto. intros Hi. destruct (D2 _ Hi) as (ins & Z1 & _).
      apply znth_some_range in Z1. lia.
    + intros loc Hi. apply in_app_or in Hi. destruct Hi as [Hi|[<-|[]]].
      * destruct (D2 _ Hi) as (ins & Z1 & J & L). exists ins. split; [|split; [exact J | exact L]].
        rewrite znth_app_l; auto. apply znth_some_range in Z1. lia.
      * exists i. rewrite znth_app_last. split; [reflexivity|]. split; [exact Hj | exact Hl].
Qed.

Lemma tot_labels g ls : zlen (g_labels g) <= zlen ls -> T g -> R g (upd_labels g ls).
Proof.
  intros L H. apply R_ext; auto; cbn; try lia; [|apply app_nil_ex].
  eapply steps_snoc; [apply (T_reach _ H) | apply st_labels].
Qed.

Lemma tot_create_label g g1 l : create_label g = (g1, l) -> T g -> R g g1 /\ lab_ok g1 l.
Proof.
  unfold create_label. intros E H. inversion E; subst; clear E. split.
  - apply tot_labels; auto. rewrite zlen_app. cbn. lia.
  - unfold lab_ok; cbn. rewrite zlen_app. cbn. pose proof (zlen_nonneg (g_labels g)). lia.
Qed.

Lemma tot_set_label g l i : T g -> lab_ok g l -> exists g', set_label g l i = Ok g' /\ R g g'.
Proof.
  intros H Hl. unfold set_label. rewrite (zupd_some (g_labels g) l i Hl). cbn.
  eexists; split; [reflexivity|]. apply tot_labels; auto.
  unfold zlen. rewrite upd_nat_length. lia.
Qed.

Lemma tot_get_symbols g : T g -> exists f tl, g_syms g = f :: tl /\ get_symbols g = Ok f.
Proof.
  intros H. pose proof (T_syms _ H). unfold get_symbols. destruct (g_syms g) as [|f tl]; [congruence|].
  exists f, tl. split; reflexivity.
Qed.

Lemma tot_set_symbols g f tl f' : T g -> g_syms g = f :: tl -> f_name f' = f_name f ->
  zlen (f_regs f) <= zlen (f_regs f') -> (forall n l, In (n, l) (f_marks f') -> lab_ok g l) ->
  R g (set_symbols g f').
Proof.
  intros [A B C D] E N L M. constructor; cbn; try lia.
  - constructor; cbn; auto.
    + apply ss_set_symbols; auto.
    + discriminate.
    + unfold marks_ok; cbn. rewrite E; cbn. intros f0 [<-|Hf] n l Hl; [apply (M n l Hl)|].
      apply (C f0) with (n := n); auto. rewrite E. right; auto.
  - rewrite E. cbn. exists f, f', tl. repeat split; auto.
Qed.

Lemma find_reg_range regs name : forall k i, find_reg regs name k = Some i -> k <= i < k + zlen regs.
Proof.
  induction regs as [|r t IH]; intros k i H; cbn [find_reg] in H; [discriminate|].
  unfold zlen; cbn [length]. destruct (str_eqb (vname r) name).
  - inversion H; subst. lia.
  - apply IH in H. unfold zlen in H. lia.
Qed.

Lemma find_free_temp_range regs : forall k i, find_free_temp regs k = Some i -> k <= i < k + zlen regs.
Proof.
  induction regs as [|r t IH]; intros k i H; cbn [find_free_temp] in H; [discriminate|].
  unfold zlen; cbn [length]. destruct (is_temp r && negb (in_use r)).
  - inversion H; subst. lia.
  - apply IH in H. unfold zlen in H. lia.
Qed.

Lemma tot_fetch_variable g n : T g ->
  exists g' i, fetch_variable g n = Ok (g', i) /\ R g g' /\ reg_ok g' i.
Proof.
  intros H. destruct (tot_get_symbols g H) as (f & tl & E & Eg). unfold fetch_variable. rewrite Eg. cbn [bind].
  destruct (find_reg (f_regs f) n 0) as [i|] eqn:Ef.
  - exists g, i. split; auto. split; [apply R_refl; auto|]. apply find_reg_range in Ef.
    exists f, tl. split; auto; try lia.
  - eexists _, _. split; [reflexivity|]. split.
    + eapply tot_set_symbols; [exact H | exact E | reflexivity | |].
      * cbn. rewrite zlen_app. cbn. lia.
      * cbn. intros m l Hl. apply (T_marks _ H f) with (n := m); auto. rewrite E; left; auto.
    + cbn. eexists _, _. split; [reflexivity|]. cbn. rewrite zlen_app. cbn.
      pose proof (zlen_nonneg (f_regs f)). lia.
Qed.

Lemma tot_fetch_temporary g : T g ->
  exists g' i, fetch_temporary g = Ok (g', i) /\ R g g' /\ reg_ok g' i.
Proof.
  intros H. destruct (tot_get_symbols g H) as (f & tl & E & Eg). unfold fetch_temporary. rewrite Eg. cbn [bind].
  assert (HM : forall m l, In (m, l) (f_marks f) -> lab_ok g l).
  { intros m l Hl. apply (T_marks _ H f) with (n := m); auto. rewrite E; left; auto. }
  destruct (find_free_temp (f_regs f) 0) as [i|] eqn:Ef.
  - apply find_free_temp_range in Ef.
    destruct (znth_in_range (f_regs f) i) as [r Hr]; [lia|]. rewrite Hr. cbn [of_opt bind].
    rewrite zupd_some by lia. cbn [of_opt bind].
    eexists _, _. split; [reflexivity|]. split.
    + eapply tot_set_symbols; [exact H | exact E | reflexivity | | exact HM].
      cbn. unfold zlen. rewrite upd_nat_length. lia.
    + cbn. eexists _, _. split; [reflexivity|]. cbn. unfold zlen. rewrite upd_nat_length. unfold zlen in Ef. lia.
  - eexists _, _. split; [reflexivity|]. split.
    + eapply tot_set_symbols; [exact H | exact E | reflexivity | | exact HM].
      cbn. rewrite zlen_app. cbn. lia.
    + cbn. eexists _, _. split; [reflexivity|]. cbn. rewrite zlen_app. cbn.
      pose proof (zlen_nonneg (f_regs f)). lia.
Qed.

Lemma tot_release g i : T g -> reg_ok g i -> exists g', release_temporary g i = Ok g' /\ R g g'.
Proof.
  intros H (f & tl & E & Hi). unfold release_temporary, get_symbols. rewrite E. cbn [hd_error of_opt bind].
  destruct (znth_in_range (f_regs f) i) as [r Hr]; [lia|]. rewrite Hr. cbn [of_opt bind].
  destruct (is_temp r).
  - rewrite zupd_some by lia. cbn [of_opt bind]. eexists. split; [reflexivity|].
    eapply tot_set_symbols; [exact H | exact E | reflexivity | |].
    + cbn. unfold zlen. rewrite upd_nat_length. lia.
    + cbn. intros m l Hl. apply (T_marks _ H f) with (n := m); auto. rewrite E; left; auto.
  - eexists. split; [reflexivity|]. apply R_refl; auto.
Qed.

Lemma str_alookup_in {V} (m : list (str * V)) k v : alookup str_ltb m k = Some v -> In (k, v) m.
Proof. apply alookup_in. apply str_keqb_eq. Qed.

Lemma tot_ensure_mark g n : T g ->
  exists g' l, ensure_mark g n = Ok (g', l) /\ R g g' /\ lab_ok g' l.
Proof.
  intros H. destruct (tot_get_symbols g H) as (f & tl & E & Eg). unfold ensure_mark. rewrite Eg. cbn [bind].
  assert (HM : forall m l, In (m, l) (f_marks f) -> lab_ok g l).
  { intros m l Hl. apply (T_marks _ H f) with (n := m); auto. rewrite E; left; auto. }
  destruct (alookup str_ltb (f_marks f) n) as [l|] eqn:El.
  - exists g, l. split; auto. split; [apply R_refl; auto|]. apply str_alookup_in in El. eauto.
  - destruct (create_label g) as [g1 l] eqn:Ec.
    destruct (tot_create_label _ _ _ Ec H) as [R1 L1].
    assert (E1 : g_syms g1 = f :: tl) by (unfold create_label in Ec; inversion Ec; subst; exact E).
    unfold get_symbols. rewrite E1. cbn [hd_error of_opt bind].
    eexists _, _. split; [reflexivity|]. split.
    + eapply R_trans; [exact R1|]. eapply tot_set_symbols; [apply (R_T _ _ R1) | exact E1 | reflexivity | cbn; lia |].
      cbn. intros m l0 Hl. apply (in_ainsert str_ltb) in Hl. destruct Hl as [Hl|Hl].
      * inversion Hl; subst; auto.
      * eapply lab_ok_R; eauto.
    + unfold lab_ok in *. cbn. exact L1.
Qed.

Lemma tot_get_mark_pos g : T g -> exists p, get_mark_pos g = Ok p.
Proof.
  intros H. destruct (reach_code g (T_reach _ H)) as (h & t & E & _).
  unfold get_mark_pos, code_back. rewrite E.
  destruct (rev (h :: t)) as [|x r] eqn:Er.
  - apply (f_equal (@length instr)) in Er. rewrite rev_length in Er. discriminate.
  - cbn. eauto.
Qed.

Lemma tot_remove g : T g -> exists g', remove_top_pot_break false g = Ok g' /\ R g g'.
Proof.
  intros H. destruct (reach_code g (T_reach _ H)) as (h & t & E & _).
  assert (Hne : g_code g <> []) by (rewrite E; discriminate).
  destruct (exists_last Hne) as (c' & a & Ec).
  assert (Hex : exists g', remove_top_pot_break false g = Ok g').
  { unfold remove_top_pot_break, code_back. rewrite Ec, rev_app_distr. cbn [rev app hd_error of_opt bind].
    destruct (opcode_eqb (iop a) POTENTIAL_BREAK) eqn:Eo; [|eauto].
    apply opcode_eqb_eq in Eo. pose proof (reach_inv1 g (T_reach _ H)) as [A B C D E1].
    rewrite Ec, map_app in D, E1. cbn [map] in D, E1. rewrite Eo in *.
    assert (Hp : next_pos g - 1 = zlen (map iop c')).
    { unfold next_pos. rewrite Ec, zlen_app, zlen_map. cbn. lia. }
    rewrite Hp. destruct (E1 _ _ (znth_app_last (map iop c') POTENTIAL_BREAK)) as [_ E2].
    destruct (alookup z_ltb (g_li g) (zlen (map iop c'))) as [b|] eqn:El; [|exfalso; apply E2; auto].
    cbn [of_opt bind]. destruct (D _ _ El) as [_ (s & Hs & Hin)]. rewrite Hs. cbn [of_opt bind].
    destruct (C _ _ Hs) as (Hnn & _ & _).
    destruct (rev s) as [|x r] eqn:Er.
    { exfalso. apply Hnn. rewrite <- (rev_involutive s), Er. reflexivity. }
    cbn [bind]. eauto. }
  destruct Hex as [g' Hg]. exists g'. split; auto.
  pose proof (ss_rem PT _ _ _ Hg (T_reach _ H)) as Hr.
  apply remove_spec in Hg. destruct Hg as [->|(i & pb & li & Hi & Hc & _ & ->)]; [apply R_refl; auto|].
  destruct H as [A B C [D1 D2]]. constructor; cbn; try lia; [|apply top_rel_refl; auto].
  constructor; cbn; auto. split; cbn; auto.
  intros loc Hl. destruct (D2 loc Hl) as (ins & Z1 & J & L). exists ins. split; [|split; [exact J | exact L]].
  rewrite Hc in Z1. apply znth_snoc_inv in Z1. destruct Z1 as [[_ Z1]|[_ ->]]; auto.
  destruct J as [J|J]; rewrite J in Hi; discriminate.
Qed.

Lemma tot_check_marks marks : forall g, (forall n l, In (n, l) marks -> lab_ok g l) ->
  exists g1, check_marks g marks = Ok g1.
Proof.
  induction marks as [|[n l] rest IH]; intros g H; cbn [check_marks]; [eauto|].
  destruct (znth_in_range (g_labels g) l) as [p Hp]; [apply (H n l); left; auto|].
  rewrite Hp. cbn [of_opt bind]. apply IH. intros n0 l0 Hl.
  assert (lab_ok g l0) by (apply (H n0 l0); right; auto).
  destruct (p =? -1); auto.
Qed.

Lemma tot_pop g addr : T g ->
  exists g', pop_symbols g addr = Ok g' /\ reach g' /\ g_syms g' = tl (g_syms g) /\
    g_labels g' = g_labels g /\ g_todo g' = g_todo g /\ g_code g' = g_code g /\
    (forall f, hd_error (g_syms g) = Some f -> alookup str_ltb (g_funcs g') (f_name f) <> None).
Proof.
  intros H. destruct (tot_get_symbols g H) as (f & tl & E & Eg).
  destruct (tot_check_marks (f_marks f) g) as [g1 H1].
  { intros n l Hl. apply (T_marks _ H f) with (n := n); auto. rewrite E; left; auto. }
  assert (Hex : exists g', pop_symbols g addr = Ok g').
  { unfold pop_symbols. rewrite Eg. cbn [bind]. rewrite H1. cbn [bind]. eauto. }
  destruct Hex as [g' Hg]. exists g'. split; auto. split; [eapply ss_pop; eauto; apply (T_reach _ H)|].
  unfold pop_symbols in Hg. rewrite Eg in Hg. cbn [bind] in Hg. rewrite H1 in Hg. cbn [bind] in Hg.
  apply check_marks_errs in H1. destruct H1 as [e ->]. inversion Hg; subst g'; clear Hg. cbn.
  repeat split; auto. intros f0 Hf. rewrite E in Hf. cbn in Hf. inversion Hf; subst f0.
  rewrite str_lookup_insert. rewrite (proj2 (str_keqb_eq _ _) eq_refl). discriminate.
Qed.

Lemma tot_emit_args arglocs : forall g i, T g -> (forall a, In a arglocs -> reg_ok g a) ->
  exists g', emit_args g arglocs i = Ok g' /\ R g g'.
Proof.
  induction arglocs as [|a rest IH]; intros g i H Ha; cbn [emit_args].
  - eexists; split; [reflexivity | apply R_refl; auto].
  - assert (R1 : R g (emit g (IArg i a))) by (apply tot_emit; auto).
    destruct (tot_release (emit g (IArg i a)) a (R_T _ _ R1)) as (g2 & E2 & R2).
    { eapply reg_ok_R; [exact R1|]. apply Ha; left; auto. }
    rewrite E2. cbn [bind].
    destruct (IH g2 (i + 1) (R_T _ _ R2)) as (g3 & E3 & R3).
    { intros x Hx. eapply reg_ok_R; [exact R2|]. eapply reg_ok_R; [exact R1|]. apply Ha; right; auto. }
    exists g3. split; auto. eapply R_trans; [exact R1|]. eapply R_trans; eauto.
Qed.

Lemma tot_dispatch_args_n : forall n g, T g -> exists g', dispatch_args_n false n g = Ok g' /\ R g g'.
Proof.
  induction n as [t line file tok l r IHl IHr] using node_ind'. intros g H.
  destruct (ntype_eq_dec_split t) as [->|Hn].
  - rewrite da_split.
    assert (Hl : exists g1, dispatch_args false l g = Ok g1 /\ R g g1).
    { destruct l as [x|]; cbn in IHl |- *; [apply IHl; auto | eexists; split; [reflexivity | apply R_refl; auto]]. }
    destruct Hl as (g1 & E1 & R1). rewrite E1. cbn [bind].
    assert (Hr : exists g2, dispatch_args false r g1 = Ok g2 /\ R g1 g2).
    { destruct r as [x|]; cbn in IHr |- *; [apply IHr; apply (R_T _ _ R1) | eexists; split; [reflexivity | apply R_refl; apply (R_T _ _ R1)]]. }
    destruct Hr as (g2 & E2 & R2). exists g2. split; auto. eapply R_trans; eauto.
  - rewrite da_leaf by auto. destruct (tot_get_symbols g H) as (f & tl & E & Eg). rewrite Eg. cbn [bind].
    destruct (find_reg (f_regs f) tok 0).
    + eexists; split; [reflexivity | apply tot_verr; auto].
    + cbv zeta.
      assert (R1 : R g (set_symbols g (mkFGS (f_name f) (f_regs f) (f_argnum f + 1) (f_marks f)))).
      { eapply tot_set_symbols; [exact H | exact E | reflexivity | cbn; lia |].
        cbn. intros m l0 Hl. apply (T_marks _ H f) with (n := m); auto. rewrite E; left; auto. }
      destruct (tot_fetch_variable _ tok (R_T _ _ R1)) as (g2 & i & E2 & R2 & _).
      rewrite E2. cbn [bind fst]. exists g2. split; auto. eapply R_trans; eauto.
Qed.

Lemma tot_dispatch_args o g : T g -> exists g', dispatch_args false o g = Ok g' /\ R g g'.
Proof.
  intros H. destruct o as [n|]; cbn; [apply tot_dispatch_args_n; auto|].
  eexists; split; [reflexivity | apply R_refl; auto].
Qed.

Lemma T_push g n : T g -> T (push_symbols g n).
Proof.
  intros [A B C D]. constructor; cbn; auto.
  - apply ss_push; auto.
  - discriminate.
  - unfold marks_ok; cbn. intros f [<-|Hf] m l Hl; [destruct Hl|]. apply (C f Hf m l Hl).
Qed.

(* ---- the shape of trees ---- *)
Definition shape_o (o : option node) : bool := match o with None => true | Some x => shape_ok x end.

Definition plain_type (t : ntype) : bool :=
  match t with N_PROGRAM | N_ASSIGN | N_MARK | N_GOTO | N_IF | N_CALL => false | _ => true end.

Lemma shape_plain t line file tok l r : plain_type t = true ->
  shape_ok (Node t line file tok l r) = shape_o l && shape_o r.
Proof. destruct t; cbn [plain_type]; intros H; try discriminate; reflexivity. Qed.

Lemma shape_call line file tok l r : shape_ok (Node N_CALL line file tok l r) = true ->
  (exists ln, l = Some ln) /\ shape_o r = true /\
  (r = None \/
   (exists a b c x, r = Some (Node N_SPLIT a b c (Some x) None)) \/
   (exists a b c x a' b' c' y z, r = Some (Node N_SPLIT a b c (Some x) (Some (Node N_SPLIT a' b' c' (Some y) z))))).
Proof.
  destruct l as [ln|]; [|discriminate]. intros H. split; [eauto|].
  change (shape_o r && match r with
      | Some (Node N_SPLIT _ _ _ (Some _) None) => true
      | Some (Node N_SPLIT _ _ _ (Some _) (Some (Node N_SPLIT _ _ _ (Some _) _))) => true
      | None => true
      | _ => false
      end = true) in H.
  apply andb_true_iff in H. destruct H as [H1 H2]. split; auto.
  destruct r as [[t a b c [x|] rr]|]; auto; try (destruct t; discriminate).
  right. destruct t; try discriminate.
  destruct rr as [[t2 a' b' c' [y|] z]|]; try (destruct t2; discriminate).
  - right. destruct t2; try discriminate. repeat eexists.
  - left. repeat eexists.
Qed.

Lemma call_const_some l r arglocs c : call_const l r arglocs = Ok (Some c) -> exists a0, znth arglocs 0 = Some a0.
Proof.
  unfold call_const. destruct (Nat.eqb (length arglocs) 2) eqn:E; [|discriminate]. intros _.
  apply Nat.eqb_eq in E. destruct arglocs as [|a0 rest]; [discriminate|]. exists a0. reflexivity.
Qed.

Lemma tot_call_const dv line file tok l r ga g1 arglocs :
  shape_ok (Node N_CALL line file tok l r) = true ->
  call_args_o dv r (ga, []) = Ok (g1, arglocs) ->
  exists rco, call_const l r arglocs = Ok rco.
Proof.
  intros Hs Hc. apply shape_call in Hs. destruct Hs as (_ & _ & [->|[(a & b & c & x & ->)|(a & b & c & x & a' & b' & c' & y & z & ->)]]).
  - cbn in Hc. inversion Hc; subst. cbn. eauto.
  - unfold call_const. destruct (Nat.eqb (length arglocs) 2) eqn:E; [|eauto].
    cbn [child of_opt bind n_left n_right].
    destruct (ntype_eq_dec_split (n_type x)) as [Ex|Ex]; [rewrite Ex; eauto|].
    exfalso. cbn [call_args_o] in Hc. rewrite call_args_split in Hc. cbn [call_args_o] in Hc.
    rewrite call_args_leaf in Hc by auto. cbn [fst snd] in Hc. binv Hc. binv H. inversion H; subst a0; clear H.
    inversion Hc; subst. cbn in E. discriminate.
  - unfold call_const. destruct (Nat.eqb (length arglocs) 2); [|eauto].
    cbn [child of_opt bind n_left n_right]. destruct (n_type x); eauto.
Qed.

(* ---- dispatch_value ---- *)
Definition Ptv (n : node) : Prop :=
  shape_ok n = true -> forall tgt g, T g -> exists g', dispatch_value false n tgt g = Ok g' /\ R g g'.

Lemma tot_call_args : forall a, all_sub Ptv a -> shape_ok a = true ->
  forall acc, T (fst acc) -> (forall x, In x (snd acc) -> reg_ok (fst acc) x) ->
  exists res, call_args (dispatch_value false) a acc = Ok res /\ R (fst acc) (fst res) /\
              (forall x, In x (snd res) -> reg_ok (fst res) x).
Proof.
  induction a as [t line file tok l r IHl IHr] using node_ind'. intros HS Hsh acc HT Hreg.
  cbn [all_sub] in HS. destruct HS as [Hh [HSl HSr]].
  destruct (ntype_eq_dec_split t) as [->|Hn].
  - rewrite call_args_split. rewrite shape_plain in Hsh by reflexivity.
    apply andb_true_iff in Hsh. destruct Hsh as [Hsl Hsr].
    assert (Hl : exists a1, call_args_o (dispatch_value false) l acc = Ok a1 /\ R (fst acc) (fst a1) /\
                            (forall x, In x (snd a1) -> reg_ok (fst a1) x)).
    { destruct l as [x|]; cbn in IHl, HSl, Hsl |- *; [apply IHl; auto|].
      exists acc. split; auto. split; auto. apply R_refl; auto. }
    destruct Hl as (a1 & E1 & R1 & V1). rewrite E1. cbn [bind].
    assert (Hr : exists a2, call_args_o (dispatch_value false) r a1 = Ok a2 /\ R (fst a1) (fst a2) /\
                            (forall x, In x (snd a2) -> reg_ok (fst a2) x)).
    { destruct r as [x|]; cbn in IHr, HSr, Hsr |- *; [apply IHr; auto; apply (R_T _ _ R1)|].
      exists a1. split; auto. split; auto. apply R_refl; apply (R_T _ _ R1). }
    destruct Hr as (a2 & E2 & R2 & V2). exists a2. split; auto. split; auto. eapply R_trans; eauto.
  - rewrite call_args_leaf by (cbn; auto).
    destruct (tot_fetch_temporary (fst acc) HT) as (g1 & tmp & E1 & R1 & V1). rewrite E1. cbn [bind].
    cbv beta iota.
    destruct (Hh Hsh tmp g1 (R_T _ _ R1)) as (g2 & E2 & R2). rewrite E2. cbn [bind].
    eexists. split; [reflexivity|]. cbn [fst snd]. split; [eapply R_trans; eauto|].
    intros x Hx. apply in_app_or in Hx. destruct Hx as [Hx|[<-|[]]].
    + eapply reg_ok_R; [exact R2|]. eapply reg_ok_R; [exact R1|]. auto.
    + eapply reg_ok_R; [exact R2|]. auto.
Qed.

Lemma tot_call_plain g1 arglocs fn tgt : T g1 -> (forall x, In x arglocs -> reg_ok g1 x) ->
  exists g', call_plain g1 arglocs fn tgt = Ok g' /\ R g1 g'.
Proof.
  intros H Hreg. unfold call_plain. destruct (alookup str_ltb (g_funcs g1) fn) as [p|] eqn:E.
  - destruct (negb (p_argnum p =? zlen arglocs)).
    + eexists; split; [reflexivity | apply tot_err; auto].
    + cbv zeta. pose proof (tot_prep g1 fn p tgt E H) as R1.
      destruct (tot_emit_args arglocs _ 0 (R_T _ _ R1)) as (g3 & E3 & R3).
      { intros a Ha. eapply reg_ok_R; [exact R1|]. auto. }
      rewrite E3. cbn [bind]. eexists; split; [reflexivity|].
      eapply R_trans; [exact R1|]. eapply R_trans; [exact R3|]. apply tot_emit; auto. apply (R_T _ _ R3).
  - eexists; split; [reflexivity | apply tot_err; auto].
Qed.

Lemma tot_dv : forall n, all_sub Ptv n.
Proof.
  apply all_sub_intro. intros t line file tok l r Hl Hr Hsh tgt g HT.
  pose proof (tot_adv g line file HT) as Ra. pose proof (R_T _ _ Ra) as Ta.
  destruct (value_type t) eqn:Et.
  - destruct t; try discriminate.
    + rewrite dv_name. destruct (tot_fetch_variable _ tok Ta) as (g1 & i & E1 & R1 & V1).
      rewrite E1. cbn [bind]. cbv beta iota. eexists; split; [reflexivity|].
      eapply R_trans; [exact Ra|]. eapply R_trans; [exact R1|]. apply tot_emit; auto. apply (R_T _ _ R1).
    + rewrite dv_number. eexists; split; [reflexivity|]. eapply R_trans; [exact Ra|]. apply tot_const; auto.
    + rewrite dv_call. pose proof (shape_call _ _ _ _ _ Hsh) as ([lnn ->] & Hsr & _).
      assert (Hc : exists res, call_args_o (dispatch_value false) r (advance_line g line file, []) = Ok res /\
                    R (advance_line g line file) (fst res) /\ (forall x, In x (snd res) -> reg_ok (fst res) x)).
      { destruct r as [rn|]; cbn [call_args_o].
        - cbn in Hr, Hsr. apply (tot_call_args rn Hr Hsr (advance_line g line file, [])); auto.
          intros x [].
        - eexists; split; [reflexivity|]. cbn. split; [apply R_refl; auto | intros x []]. }
      destruct Hc as ([g1 arglocs] & E1 & R1 & V1). cbn [fst snd] in R1, V1. rewrite E1. cbn [bind].
      destruct (tot_call_const _ _ _ _ _ _ _ _ _ Hsh E1) as [rco Eco].
      unfold call_tail. cbn [child of_opt bind]. rewrite Eco. cbn [bind].
      pose proof (R_T _ _ R1) as T1.
      assert (Hplain : exists g', call_plain g1 arglocs (n_tok lnn) tgt = Ok g' /\ R g g').
      { destruct (tot_call_plain g1 arglocs (n_tok lnn) tgt T1 V1) as (g' & E' & R').
        exists g'. split; auto. eapply R_trans; [exact Ra|]. eapply R_trans; eauto. }
      destruct rco as [ctok|]; [|exact Hplain].
      destruct (str_eqb (n_tok lnn) name_INC || str_eqb (n_tok lnn) name_DEC); [|exact Hplain].
      destruct (call_const_some _ _ _ _ Eco) as [a0 Ea]. rewrite Ea. cbn [of_opt bind andb].
      destruct (str_eqb (n_tok lnn) name_INC).
      * eexists; split; [reflexivity|]. eapply R_trans; [exact Ra|]. eapply R_trans; [exact R1|].
        apply tot_emit; auto.
      * eexists; split; [reflexivity|]. eapply R_trans; [exact Ra|]. eapply R_trans; [exact R1|].
        apply tot_emit; auto.
  - rewrite dv_other by auto. eexists; split; [reflexivity|]. eapply R_trans; [exact Ra|]. apply tot_err; auto.
Qed.

Lemma tot_dvalue n tgt g : shape_ok n = true -> T g ->
  exists g', dispatch_value false n tgt g = Ok g' /\ R g g'.
Proof. intros Hs HT. apply (all_sub_here _ _ (tot_dv n)); auto. Qed.

Lemma tot_dvalue_opt o tgt g : shape_o o = true -> T g ->
  exists g', dispatch_value_opt false o tgt g = Ok g' /\ R g g'.
Proof.
  destruct o as [n|]; cbn; intros Hs HT; [apply tot_dvalue; auto|].
  eexists; split; [reflexivity | apply R_refl; auto].
Qed.

(* ---- dispatch_void ---- *)
Lemma shape_program line file tok l r : shape_ok (Node N_PROGRAM line file tok l r) = true ->
  exists lnn name, l = Some lnn /\ n_left lnn = Some name /\ shape_o r = true.
Proof.
  destruct l as [[t1 a1 b1 c1 [name|] ports]|]; try discriminate. intros H.
  change (shape_o ports && shape_o r = true) in H. apply andb_true_iff in H.
  eexists _, _. split; [reflexivity|]. split; [reflexivity | tauto].
Qed.

Lemma shape_assign line file tok l r : shape_ok (Node N_ASSIGN line file tok l r) = true ->
  exists lnn, l = Some lnn /\ shape_o r = true.
Proof. destruct l as [lnn|]; [|discriminate]. intros H. exists lnn. split; auto. Qed.

Lemma shape_mark line file tok l r : shape_ok (Node N_MARK line file tok l r) = true -> exists lnn, l = Some lnn.
Proof. destruct l as [lnn|]; [eauto | discriminate]. Qed.

Lemma shape_goto line file tok l r : shape_ok (Node N_GOTO line file tok l r) = true -> exists lnn, l = Some lnn.
Proof. destruct l as [lnn|]; [eauto | discriminate]. Qed.

Lemma shape_if line file tok l r : shape_ok (Node N_IF line file tok l r) = true ->
  exists eqn gon nm, l = Some eqn /\ r = Some gon /\ n_left gon = Some nm /\
    shape_o (n_left eqn) = true /\ shape_o (n_right eqn) = true.
Proof.
  destruct l as [[t1 a1 b1 c1 a b]|]; [|discriminate].
  destruct r as [[t2 a2 b2 c2 [nm|] rr]|]; try discriminate. intros H.
  change (shape_o a && shape_o b = true) in H. apply andb_true_iff in H.
  eexists _, _, _. repeat split; try reflexivity; cbn; tauto.
Qed.

Ltac fwd Rn :=
  match type of Rn with R ?g ?g' =>
    repeat match goal with
    | V : reg_ok g ?i |- _ =>
        lazymatch goal with _ : reg_ok g' i |- _ => fail | _ => pose proof (reg_ok_R _ _ _ Rn V) end
    | V : lab_ok g ?l |- _ =>
        lazymatch goal with _ : lab_ok g' l |- _ => fail | _ => pose proof (lab_ok_R _ _ _ Rn V) end
    end
  end.

Ltac rchain := repeat first [ eassumption | eapply R_trans; [eassumption|] ].
Ltac nxt E := rewrite E; cbn [bind]; cbv beta iota zeta.

Definition Ptvoid (n : node) : Prop :=
  shape_ok n = true -> forall g, T g -> exists g', dispatch_void false false false n g = Ok g' /\ R g g'.

Lemma tot_dvoid : forall n, Ptvoid n.
Proof.
  induction n as [t line file tok l r IHl IHr] using node_ind'. intros Hsh g HT.
  assert (Il : shape_o l = true -> forall g, T g -> exists g', dvo false false false l g = Ok g' /\ R g g').
  { intros Hs x Hx. destruct l as [n|]; cbn in Hs, IHl |- *; [apply IHl; auto|].
    eexists; split; [reflexivity | apply R_refl; auto]. }
  assert (Ir : shape_o r = true -> forall g, T g -> exists g', dvo false false false r g = Ok g' /\ R g g').
  { intros Hs x Hx. destruct r as [n|]; cbn in Hs, IHr |- *; [apply IHr; auto|].
    eexists; split; [reflexivity | apply R_refl; auto]. }
  clear IHl IHr.
  pose proof (tot_adv g line file HT) as Ra. set (ga := advance_line g line file) in *.
  pose proof (R_T _ _ Ra) as Ta.
  destruct (void_type t) eqn:Et.
  - destruct t; try discriminate.
    + (* SPLIT *)
      rewrite dvoid_split. fold ga. rewrite shape_plain in Hsh by reflexivity.
      apply andb_true_iff in Hsh. destruct Hsh as [Hsl Hsr].
      destruct (Il Hsl ga Ta) as (g1 & E1 & R1). nxt E1.
      destruct (Ir Hsr g1 (R_T _ _ R1)) as (g2 & E2 & R2). exists g2. split; [exact E2|]. rchain.
    + (* ASSIGN *)
      rewrite dvoid_assign. fold ga. destruct (shape_assign _ _ _ _ _ Hsh) as (lnn & -> & Hsr).
      cbn [child of_opt bind].
      destruct (tot_fetch_variable ga (n_tok lnn) Ta) as (g1 & tind & E1 & R1 & V1). nxt E1.
      destruct (tot_dvalue_opt r tind g1 Hsr (R_T _ _ R1)) as (g2 & E2 & R2).
      exists g2. split; [exact E2|]. rchain.
    + (* LOOP *)
      rewrite dvoid_loop. fold ga. rewrite shape_plain in Hsh by reflexivity.
      apply andb_true_iff in Hsh. destruct Hsh as [Hsl Hsr]. cbv zeta.
      pose proof (tot_loops ga Ta) as R0. set (g0 := loops_incr ga) in *.
      destruct (tot_fetch_variable g0 (loop_counter_name g0) (R_T _ _ R0)) as (g1 & counter & E1 & R1 & V1). nxt E1.
      destruct (tot_dvalue_opt l counter g1 Hsl (R_T _ _ R1)) as (g2 & E2 & R2). nxt E2. fwd R2.
      destruct (create_label g2) as [g3 sl] eqn:Ec3. destruct (tot_create_label _ _ _ Ec3 (R_T _ _ R2)) as [R3 L3]. fwd R3.
      destruct (create_label g3) as [g4 el] eqn:Ec4. destruct (tot_create_label _ _ _ Ec4 (R_T _ _ R3)) as [R4 L4]. fwd R4.
      destruct (tot_set_label g4 sl (next_pos g4) (R_T _ _ R4)) as (g5 & E5 & R5); [assumption|]. nxt E5. fwd R5.
      assert (R6 : R g5 (emit_backpatched g5 (IJmpC el counter))).
      { apply tot_emit_bp; [right; reflexivity | assumption | apply (R_T _ _ R5)]. }
      fwd R6.
      destruct (Ir Hsr _ (R_T _ _ R6)) as (g7 & E7 & R7). nxt E7. fwd R7.
      assert (R8 : R g7 (emit g7 (IAdd counter counter (-1)))) by (apply tot_emit; [reflexivity | apply (R_T _ _ R7)]).
      fwd R8.
      assert (R9 : R (emit g7 (IAdd counter counter (-1))) (emit_backpatched (emit g7 (IAdd counter counter (-1))) (IJmp sl))).
      { apply tot_emit_bp; [left; reflexivity | assumption | apply (R_T _ _ R8)]. }
      fwd R9.
      destruct (tot_set_label _ el (next_pos (emit_backpatched (emit g7 (IAdd counter counter (-1))) (IJmp sl))) (R_T _ _ R9)) as (g10 & E10 & R10); [assumption|].
      exists g10. split; [exact E10|]. rchain.
    + (* WHILE *)
      rewrite dvoid_while. fold ga. rewrite shape_plain in Hsh by reflexivity.
      apply andb_true_iff in Hsh. destruct Hsh as [Hsl Hsr].
      destruct (create_label ga) as [g1 sl] eqn:Ec1. destruct (tot_create_label _ _ _ Ec1 Ta) as [R1 L1].
      destruct (create_label g1) as [g2 el] eqn:Ec2. destruct (tot_create_label _ _ _ Ec2 (R_T _ _ R1)) as [R2 L2]. fwd R2.
      destruct (tot_fetch_temporary g2 (R_T _ _ R2)) as (g3 & cond & E3 & R3 & V3). nxt E3. fwd R3.
      destruct (tot_set_label g3 sl (next_pos g3) (R_T _ _ R3)) as (g4 & E4 & R4); [assumption|]. nxt E4. fwd R4.
      destruct (tot_dvalue_opt l cond g4 Hsl (R_T _ _ R4)) as (g5 & E5 & R5). nxt E5. fwd R5.
      assert (R6 : R g5 (emit_backpatched g5 (IJmpC el cond))).
      { apply tot_emit_bp; [right; reflexivity | assumption | apply (R_T _ _ R5)]. }
      fwd R6.
      destruct (Ir Hsr _ (R_T _ _ R6)) as (g7 & E7 & R7). nxt E7. fwd R7.
      assert (R8 : R g7 (emit_backpatched g7 (IJmp sl))).
      { apply tot_emit_bp; [left; reflexivity | assumption | apply (R_T _ _ R7)]. }
      fwd R8.
      destruct (tot_set_label _ el (next_pos (emit_backpatched g7 (IJmp sl))) (R_T _ _ R8)) as (g9 & E9 & R9); [assumption|].
      nxt E9. fwd R9.
      destruct (tot_release g9 cond (R_T _ _ R9)) as (g10 & E10 & R10); [assumption|].
      exists g10. split; [exact E10|]. rchain.
    + (* GOTO *)
      rewrite dvoid_goto. fold ga. destruct (shape_goto _ _ _ _ _ Hsh) as (lnn & ->).
      cbn [child of_opt bind].
      destruct (tot_ensure_mark ga (n_tok lnn) Ta) as (g1 & lab & E1 & R1 & L1). nxt E1.
      eexists; split; [reflexivity|].
      assert (R2 : R g1 (emit_backpatched g1 (IJmp lab))).
      { apply tot_emit_bp; [left; reflexivity | assumption | apply (R_T _ _ R1)]. }
      rchain.
    + (* IF *)
      rewrite dvoid_if. fold ga.
      destruct (shape_if _ _ _ _ _ Hsh) as (eqn & gon & nm & -> & -> & Hnm & Hs1 & Hs2).
      destruct (tot_fetch_temporary ga Ta) as (g1 & cond & E1 & R1 & V1). nxt E1.
      destruct (tot_fetch_temporary g1 (R_T _ _ R1)) as (g2 & op1 & E2 & R2 & V2). nxt E2. fwd R2.
      destruct (tot_fetch_temporary g2 (R_T _ _ R2)) as (g3 & op2 & E3 & R3 & V3). nxt E3. fwd R3.
      cbn [child of_opt bind].
      destruct (tot_dvalue_opt (n_left eqn) op1 g3 Hs1 (R_T _ _ R3)) as (g4 & E4 & R4). nxt E4. fwd R4.
      destruct (tot_dvalue_opt (n_right eqn) op2 g4 Hs2 (R_T _ _ R4)) as (g5 & E5 & R5). nxt E5. fwd R5.
      rewrite Hnm. cbn [child of_opt bind].
      assert (R6 : R g5 (emit g5 (ITest cond op1 op2))) by (apply tot_emit; [reflexivity | apply (R_T _ _ R5)]).
      fwd R6.
      destruct (tot_ensure_mark _ (n_tok nm) (R_T _ _ R6)) as (g7 & lab & E7 & R7 & L7). nxt E7. fwd R7.
      assert (R8 : R g7 (emit_backpatched g7 (IJmpC lab cond))).
      { apply tot_emit_bp; [right; reflexivity | assumption | apply (R_T _ _ R7)]. }
      fwd R8.
      destruct (tot_release _ cond (R_T _ _ R8)) as (g9 & E9 & R9); [assumption|]. nxt E9. fwd R9.
      destruct (tot_release g9 op1 (R_T _ _ R9)) as (g10 & E10 & R10); [assumption|]. nxt E10. fwd R10.
      destruct (tot_release g10 op2 (R_T _ _ R10)) as (g11 & E11 & R11); [assumption|].
      exists g11. split; [exact E11|]. rchain.
    + (* PROGRAM *)
      rewrite dvoid_program. fold ga.
      destruct (shape_program _ _ _ _ _ Hsh) as (lnn & name & -> & Hname & Hsr).
      destruct (tot_remove ga Ta) as (g0 & E0 & R0). nxt E0.
      destruct (create_label g0) as [g1 al] eqn:Ec1. destruct (tot_create_label _ _ _ Ec1 (R_T _ _ R0)) as [R1 L1].
      assert (R2 : R g1 (emit_backpatched g1 (IJmp al))).
      { apply tot_emit_bp; [left; reflexivity | assumption | apply (R_T _ _ R1)]. }
      fwd R2. set (g2 := emit_backpatched g1 (IJmp al)) in *.
      cbn [child of_opt bind]. rewrite Hname. cbn [child of_opt bind].
      pose proof (T_push g2 (n_tok name) (R_T _ _ R2)) as T3. set (g3 := push_symbols g2 (n_tok name)) in *.
      destruct (tot_dispatch_args (match n_right lnn with Some p => n_left p | None => None end) g3 T3) as (g4 & E4 & R4).
      nxt E4.
      destruct (Ir Hsr g4 (R_T _ _ R4)) as (g5 & E5 & R5). nxt E5.
      destruct (tot_fetch_variable g5 (match (match n_right lnn with Some p => n_right p | None => None end) with Some o => n_tok o | None => name_x0 end) (R_T _ _ R5)) as (g6 & rv & E6 & R6 & V6).
      nxt E6.
      assert (R7 : R g6 (emit g6 (IRet rv))) by (apply tot_emit; [reflexivity | apply (R_T _ _ R6)]).
      set (g7 := emit g6 (IRet rv)) in *.
      assert (R37 : R g3 g7) by rchain.
      destruct (tot_pop g7 (next_pos g4) (R_T _ _ R7)) as (g8 & E8 & Hr8 & Hs8 & Hl8 & Ht8 & Hc8 & _). nxt E8.
      assert (R28 : R g2 g8).
      { destruct R37 as [T7 L37 (f3 & f7 & tl3 & S3 & S7 & _ & _)].
        assert (Hsy : g_syms g8 = g_syms g2).
        { rewrite Hs8, S7. cbn [tl]. subst g3. cbn in S3. inversion S3; subst. reflexivity. }
        pose proof (R_T _ _ R2) as T2.
        constructor.
        - constructor; auto.
          + rewrite Hsy. apply (T_syms _ T2).
          + unfold marks_ok, lab_ok. rewrite Hs8, Hl8. intros f Hf n l0 Hl0.
            apply (T_marks _ T7 f) with (n := n); auto. rewrite S7. right. rewrite S7 in Hf. exact Hf.
          + destruct (T_todo _ T7) as [D1 D2]. unfold todo_ok, lab_ok. rewrite Ht8, Hc8, Hl8. split; auto.
        - rewrite Hl8. subst g3. cbn in L37. exact L37.
        - rewrite Hsy. apply top_rel_refl. apply (T_syms _ T2). }
      fwd R28.
      destruct (tot_set_label g8 al (next_pos g8) (R_T _ _ R28)) as (g9 & E9 & R9); [assumption|].
      exists g9. split; [exact E9|]. rchain.
    + (* MARK *)
      rewrite dvoid_mark. fold ga. destruct (shape_mark _ _ _ _ _ Hsh) as (lnn & ->).
      cbn [child of_opt bind].
      destruct (tot_ensure_mark ga (n_tok lnn) Ta) as (g1 & lab & E1 & R1 & L1). nxt E1.
      destruct (tot_get_mark_pos g1 (R_T _ _ R1)) as (pos & E2). nxt E2.
      destruct (tot_set_label g1 lab pos (R_T _ _ R1)) as (g3 & E3 & R3); [assumption|].
      exists g3. split; [exact E3|]. rchain.
    + (* STOP *)
      rewrite dvoid_stop. fold ga. eexists; split; [reflexivity|].
      assert (R1 : R ga (emit ga IHalt)) by (apply tot_emit; [reflexivity | exact Ta]). rchain.
  - rewrite dvoid_other by auto. fold ga. eexists; split; [reflexivity|].
    assert (R1 : R ga (err ga T_MALFORMED_AST e_malformed_ast)) by (apply tot_err; exact Ta). rchain.
Qed.

(* ---- the last phase: backpatching ---- *)
Lemma tot_backpatch_list todo : forall g, NoDup todo ->
  (forall loc, In loc todo -> exists ins, znth (g_code g) loc = Some ins /\
      (jmp_op (iop ins) -> 0 <= ia ins < zlen (g_labels g))) ->
  exists g', backpatch_list g todo = Ok g'.
Proof.
  induction todo as [|loc rest IH]; intros g Hnd H; cbn [backpatch_list]; [eauto|].
  inversion Hnd as [|? ? Hni Hnd']; subst.
  destruct (H loc (or_introl eq_refl)) as (ins & Hz & Hj). rewrite Hz. cbn [of_opt bind].
  assert (Hrest : forall g1, g_code g1 = g_code g -> g_labels g1 = g_labels g ->
            exists g', backpatch_list g1 rest = Ok g').
  { intros g1 Ec El. apply IH; auto. intros loc' Hl. rewrite Ec, El. apply H. right; auto. }
  assert (HJ : jmp_op (iop ins) ->
    exists g', (do tgt <- of_opt ub_index (znth (g_labels g) (ia ins));
       let g1 := if tgt =? -1 then err g T_UNKNOWN_MARK e_backpatch_failed else g in
       do c <- of_opt ub_index (zupd (g_code g1) loc (mkI (iop ins) (tgt - loc) (ib ins) (ic ins)));
       backpatch_list (upd_code g1 c) rest) = Ok g').
  { intros J. destruct (znth_in_range (g_labels g) (ia ins) (Hj J)) as [tgt Ht]. rewrite Ht.
    cbn [of_opt bind]. cbv zeta.
    set (g1 := if tgt =? -1 then err g T_UNKNOWN_MARK e_backpatch_failed else g).
    assert (Ec : g_code g1 = g_code g) by (subst g1; destruct (tgt =? -1); reflexivity).
    assert (El : g_labels g1 = g_labels g) by (subst g1; destruct (tgt =? -1); reflexivity).
    pose proof (znth_some_range _ _ _ Hz) as Hr. rewrite Ec.
    rewrite (zupd_some (g_code g) loc _ Hr). cbn [of_opt bind].
    apply IH; auto. intros loc' Hl. cbn [g_code g_labels upd_code]. rewrite El.
    assert (Hne : loc' <> loc) by (intros ->; contradiction).
    rewrite (znth_zupd _ _ _ _ (zupd_some (g_code g) loc _ Hr) loc').
    destruct (Z.eqb_spec loc' loc); [contradiction|]. apply H. right; auto. }
  destruct (iop ins) eqn:Eop; try (apply Hrest; reflexivity); apply HJ; [left | right]; reflexivity.
Qed.

Lemma T_ginit : T ginit.
Proof.
  constructor.
  - apply steps_refl.
  - discriminate.
  - intros f [<-|[]] n l [].
  - split; [constructor | intros loc []].
Qed.

Lemma C02_gen_total_proof : C02_gen_total_stmt.
Proof.
  split.
  - intros root Hsh. unfold gen.
    destruct (tot_dvoid root Hsh ginit T_ginit) as (g3 & E3 & R3).
    pose proof (R_T _ _ R3) as T3.
    destruct (tot_pop g3 0 T3) as (g4 & E4 & Hr4 & Hs4 & Hl4 & Ht4 & Hc4 & Hf4).
    destruct R3 as [_ _ (f0 & f3 & tl0 & S0 & S3 & Hn & _)]. cbn in S0. inversion S0; subst f0 tl0; clear S0.
    assert (Hp : exists p, alookup str_ltb (g_funcs g4) name_root = Some p).
    { specialize (Hf4 f3). rewrite S3 in Hf4. specialize (Hf4 eq_refl). rewrite Hn in Hf4. cbn in Hf4.
      destruct (alookup str_ltb (g_funcs g4) name_root); [eauto | congruence]. }
    destruct Hp as [p Hp].
    destruct (reach_code g4 Hr4) as (h & t & Ec & Hh).
    assert (Hz : znth (g_code g4) 0 = Some h) by (rewrite Ec; reflexivity).
    assert (Hr0 : 0 <= 0 < zlen (g_code g4)) by (apply znth_some_range in Hz; exact Hz).
    pose proof (zupd_some (g_code g4) 0 (mkI (iop h) (p_stack_size p) (p_mi p) (ic h)) Hr0) as Hu.
    set (c0 := upd_nat (g_code g4) (Z.to_nat 0) (mkI (iop h) (p_stack_size p) (p_mi p) (ic h))) in *.
    assert (Hb : exists g6, backpatch (emit (upd_code g4 c0) IHalt) = Ok g6).
    { unfold backpatch.
      destruct (tot_backpatch_list (g_todo (emit (upd_code g4 c0) IHalt)) (emit (upd_code g4 c0) IHalt)) as [g' Hg'].
      - cbn. rewrite Ht4. apply (T_todo _ T3).
      - cbn. rewrite Ht4, Hl4. intros loc Hl. destruct (T_todo _ T3) as [_ D2].
        destruct (D2 loc Hl) as (ins & Z1 & J & L). rewrite <- Hc4 in Z1.
        assert (Hne : loc <> 0).
        { intros ->. rewrite Hz in Z1. inversion Z1; subst ins. destruct J as [J|J]; rewrite J in Hh; discriminate. }
        exists ins. split; [|intros _; exact L].
        pose proof (znth_some_range _ _ _ Z1) as Hr.
        rewrite znth_app_l by (unfold c0, zlen; rewrite upd_nat_length; apply Hr).
        rewrite (znth_zupd _ _ _ _ Hu loc). destruct (Z.eqb_spec loc 0); [contradiction | exact Z1].
      - rewrite Hg'. cbn [bind]. eauto. }
    destruct Hb as [g6 Hb]. eexists. eapply gen_gen_ok; eauto.
  - intros perrs root. unfold gen. eexists. eapply gen_gen_ok.
    + unfold gen_body. cbn [negb]. rewrite fold_verr. reflexivity.
    + unfold pop_symbols. cbn. reflexivity.
    + cbn. reflexivity.
    + cbn. reflexivity.
    + cbn. reflexivity.
    + unfold backpatch. cbn. reflexivity.
Qed.

Print Assumptions C08_tables_ok_meaning_proof.
Print Assumptions C08_gen_tables_proof.
Print Assumptions C02_shape_proof.
Print Assumptions C02_errors_forwarded_proof.
Print Assumptions C20_consts_proof.
Print Assumptions C08_locations_ast_proof.
Print Assumptions C02_gen_total_proof.
