(* Properties_C04.v — the theorems proved so far for C04 (the compiler accepts exactly the language).
   Proved here: the rejecting half that holds for all inputs (never both / never neither, errors of every stage are
   forwarded), totality of the parser, and that the static rule "callees are earlier definitions" is what the
   accepted trees satisfy.  The equivalences with the documented grammar (AcceptStatements.C04_parser_stmt) and with
   the static rules (C04_static_stmt) are stated in AcceptStatements.v; until they are proved they are decided on
   explored token sequences by the independent recogniser of tools/explore_accept.py. *)
From Theo Require Import Base Regex Tokens Errors Lexer Scan MacroExtract Grammar LR MacroApply Parser VMModel VMSpec VMCheck GenModel Compile Gen_Lexer Gen_Consts CompileStatements Proofs_Front Proofs_Gen RefSem SemStatements Proofs_Sem SugarStatements SpecMacro ApplyStatements MacroStatements ApplyCompleteStatements LocErrStatements Proofs_Sugar.
Local Open Scope Z_scope.

(* in every case the result is correct with no error, or incorrect with at least one *)
Theorem C04_reject :
  forall files main r, compile files main = Ok r ->
    (cr_ok r = true /\ cr_errors r = []) \/ (cr_ok r = false /\ cr_errors r <> []).
Proof. exact C02_shape_proof. Qed.
Print Assumptions C04_reject.

(* a syntax error (or any earlier error) always makes the compilation incorrect *)
Theorem C04_errors_forwarded :
  forall passes files main p, parse_budget passes files main = Ok p ->
    (pr_errors p <> [] -> pr_ok p = false) /\
    forall g, gen (pr_ok p) (pr_errors p) (pr_root p) = Ok g -> pr_ok p = false ->
      gr_ok g = false /\ length (gr_errors g) = length (pr_errors p).
Proof. exact C02_errors_forwarded_proof. Qed.
Print Assumptions C04_errors_forwarded.

(* the parser decides every end-of-file terminated token sequence *)
Theorem C04_parser_total :
  forall toks, eof_terminated toks -> exists root errs, parse_tokens toks = Ok (root, errs).
Proof. exact C02_parse_total_proof. Qed.
Print Assumptions C04_parser_total.

(* in every source whose static rules hold (the reference semantics is defined), a RUN names an earlier definition *)
Theorem C04_calls_name_earlier_definitions :
  forall root rs, abstract_source root = Some rs ->
    forall k r, nth_error rs k = Some r -> forallb (instr_calls_below k) (r_code r) = true.
Proof. exact C16_calls_earlier_proof. Qed.
Print Assumptions C04_calls_name_earlier_definitions.

(* ---- the parser accepts exactly the sentences of the documented grammar ---- *)
From Theo Require Import SpecGrammar AcceptStatements Proofs_Accept.

Theorem C04_parser :
  forall body e, tk e = T_EOF -> Forall (fun t => tk t <> T_EOF) body ->
    ((exists root, parse_tokens (body ++ [e]) = Ok (root, [])) <-> DS (map tk body)).
Proof. exact C04_parser_proof. Qed.
Print Assumptions C04_parser.

(* ---- the generator reports no error exactly when the static rules hold (the reference semantics is defined) ---- *)
From Theo Require Import Proofs_Static.

Theorem C04_static :
  forall toks root r, parse_tokens toks = Ok (Some root, []) -> gen true [] (Some root) = Ok r ->
    (gr_errors r = [] <-> exists rs, abstract_source (Some root) = Some rs).
Proof. exact C04_static_proof. Qed.
Print Assumptions C04_static.

Theorem C04_std_macros :
  length std_macros = 2%nat /\
  (exists m, macro_for plus_text = Some m /\ map tk (m_rule m) = [ID_TEMP; NV_ID; INT_TEMP] /\
             map tk (m_repl m) = [RUN; ID; WITH; INSERTION; ARGSEP; INSERTION; END]) /\
  (exists m, macro_for minus_text = Some m /\ map tk (m_rule m) = [ID_TEMP; NV_ID; INT_TEMP] /\
             map tk (m_repl m) = [RUN; ID; WITH; INSERTION; ARGSEP; INSERTION; END]).
Proof. exact C04_std_macros_proof. Qed.
Print Assumptions C04_std_macros.

Theorem C04_sugar :
  forall input passes errs out,
    eof_terminated input -> no_unknown input ->
    apply_macros input std_macros passes = Ok (errs, out) ->
    (count_sugar input < passes)%nat ->
    errs = [] /\ out = desugar input.
Proof. exact C04_sugar_proof. Qed.
Print Assumptions C04_sugar.

Theorem C04_accepts :
  forall files main c toks serrs xerrs out,
    compile files main = Ok c ->
    scan Gen_Lexer.rules (seen_files files main) main = Ok (toks, serrs) ->
    extract_macros toks = Ok (xerrs, out, std_macros) ->
    (count_sugar out < N.to_nat macro_passes)%nat ->
    (cr_ok c = true <->
       serrs = [] /\ xerrs = [] /\
       exists root, parse_tokens (desugar out) = Ok (root, []) /\
                    match root with Some n => exists rs, abstract_source (Some n) = Some rs | None => True end).
Proof. exact C04_accepts_proof. Qed.
Print Assumptions C04_accepts.
