(* Proofs_C16any.v — halting of LOOP programs on the VM for every layout: C16_ref_loop_halts + C01_every_source. *)
From Coq Require Import List ZArith NArith Lia Bool.
From Theo Require Import Base Regex Tokens Errors Lexer Scan MacroExtract Grammar LR MacroApply Parser VMModel VMSpec GenModel Compile
                         RefSem RefSemChk C01Statements C01Stages C01Stages3 C01Stages4 NamesStatements RefHaltStatements Stage6Statements
                         Gen_Lexer Gen_Consts Proofs_C01s2a Proofs_RefHalt Proofs_Stage6w.
Local Open Scope Z_scope.

Lemma C16_vm_loop_halts_any_proof : C16_vm_loop_halts_any_stmt.
Proof.
  intros files main c p root rs Hf Hc Hok Hp Hroot Hlo Habs Hnb.
  destruct (Proofs_RefHalt.C16_ref_loop_halts_proof root rs Hlo Habs) as (fuel & views & steps & trace & Href).
  assert (Hchk : run_ref_chk fuel rs = OStop views steps trace).
  { unfold run_ref in Href. pose proof (Hnb fuel) as Hne. unfold run_ref_chk in *.
    destruct (length rs) as [|k]; [discriminate Href|].
    pose proof (C01_chk_is_run_proof rs fuel [] k (mkRAct [] []) 0 0%nat [] _ eq_refl Hne) as E.
    rewrite Href in E. symmetry. exact E. }
  destruct (C01_every_source_proof files main c p root rs Hf Hc Hok Hp Hroot Habs) as [Hfin _].
  destruct (Hfin fuel views steps trace Hchk) as (k & s & vmviews & Hvm & Hd & _).
  exists k, s. split; assumption.
Qed.

Print Assumptions C16_vm_loop_halts_any_proof.
