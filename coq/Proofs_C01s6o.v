(* Proofs_C01s6o.v — C01, stage 6 (any layout), part 13: between the STATIC and the DYNAMIC part.
   Backpatching re-targets the jumps of a block with sites inside (imatch6_patch); a finished routine of the static
   part is a good routine of the dynamic part once every jump has been patched (FRok_ROK6); choosing the ghost
   counts of all routines at once (list_choice). *)
From Coq Require Import List ZArith NArith Lia Bool.
From Theo Require Import Base Tokens Errors MacroExtract Parser VMModel VMSpec GenModel Compile RefSem RefSemChk C01Statements C01Stages C01Stages3 C01Stages4 Gen_Consts Proofs_VM_mem Proofs_VM_dbg Proofs_Gen0 Proofs_Gen Proofs_Sem Proofs_C01a Proofs_C01b Proofs_C01 Proofs_C01s2a Proofs_C01s2b Proofs_C01s2c Proofs_C01s2d Proofs_C01s2 Proofs_C01s3a Proofs_C01s3b Proofs_C01s3c Proofs_C01s3d Proofs_C01s3 Proofs_C01s4a Proofs_C01s4b Proofs_C01s4c Proofs_C01s4d Proofs_C01s4g Proofs_C01s4h Proofs_C01s4l Proofs_C01s4m Proofs_C01s4o Proofs_C01s6a Proofs_C01s6c Proofs_C01s6g Proofs_C01s6h Proofs_C01s6l.
Import ListNotations.
Local Open Scope Z_scope.

Lemma imatch6_patch rm C C' FT (J J' : jrel3) q k i :
  (forall q' ins, q <= q' -> znth C q' = Some ins -> ~ is_jmp (iop ins) -> znth C' q' = Some ins) ->
  (forall q' ins e, q <= q' -> znth C q' = Some ins -> is_jmp (iop ins) -> J q' (ia ins) e ->
     exists f', znth C' q' = Some (mkI (iop ins) f' (ib ins) (ic ins)) /\ J' q' f' e) ->
  imatch6 rm C FT J q k i -> imatch6 rm C' FT J' q k i.
Proof.
  intros HC HJ. apply imatch6_move; [apply rm_le_refl | intros j x H; exact H | exact HC | exact HJ |].
  apply imatch3_patch; assumption.
Qed.

(* the ghost count of a position, from the list kept by the static part *)
Definition gbf (gbl : list Z) (pc : Z) : Z := match znth gbl pc with Some g => g | None => 0 end.

Lemma FRok_ROK6 W code labels FT r P0 regs lo hi lmap marks L gbl C6 (RI : nat -> rinfo) (GB : nat -> Z -> Z) k :
  FRfacts6 W code labels FT r P0 regs lo hi lmap marks L gbl ->
  ri_rm (RI k) = RMof (map key regs) -> ri_N (RI k) = zlen regs -> ri_P0 (RI k) = P0 -> GB k = gbf gbl ->
  (forall q ins, 1 <= q -> znth code q = Some ins -> ~ is_jmp (iop ins) -> znth C6 q = Some ins) ->
  (forall q ins, 1 <= q -> znth code q = Some ins -> is_jmp (iop ins) ->
     exists tgt, znth labels (ia ins) = Some tgt /\ znth C6 q = Some (mkI (iop ins) (tgt - q) (ib ins) (ic ins))) ->
  routine_ok6 RI GB C6 FT k r.
Proof.
  intros [Hcm Hjg Hend Hstr Hmark Hrw Hjv Hpar Hnd Hp0] Erm EN EP EG BA BB.
  pose proof Hcm as (HGl & HG0 & HGC). destruct Hjg as [JGt JGl].
  constructor.
  - rewrite Erm, EN. rewrite <- (zlen_map key regs). eapply RW_rm_ok; exact Hrw.
  - rewrite EG. unfold gbf. rewrite HG0. reflexivity.
  - rewrite EG. unfold gbf. rewrite Hend. reflexivity.
  - intros pc i Hz. pose proof (znth_some_range _ _ _ Hz) as Rpc. rewrite EG. unfold gbf.
    destruct (znth_in_range gbl pc) as [g Hg]; [lia|]. destruct (znth_in_range gbl (pc + 1)) as [g' Hg']; [lia|].
    rewrite Hg, Hg'. destruct (HGC _ _ _ _ Hz Hg Hg') as (Hg0 & Hcase).
    destruct (gb_pm P0 _ (r_code r) gbl pc g Hcm Hg) as [Rg Epm].
    split; [exact Hg0|]. split; [unfold pm4; rewrite EP; exact Epm|].
    destruct Hcase as [(-> & l & ->)|(-> & HM & _)]; [left; eauto|]. right. split; [reflexivity|].
    unfold pm4. rewrite Erm, EP.
    assert (Hq1 : 1 <= pm_of4 P0 (r_code r) (pc - g)).
    { unfold pm_of4. pose proof (boff4_nonneg (r_code r) (Z.to_nat (pc - g))). lia. }
    eapply (imatch6_patch _ code C6 FT (jpreL lmap marks)); [| |exact HM].
    + intros q' ins Hq' Hzq Hnj. apply BA; [lia | exact Hzq | exact Hnj].
    + intros q' ins e Hq' Hzq Hjm Hlm. destruct (BB q' ins ltac:(lia) Hzq Hjm) as (tgt & Htg & Hz6).
      exists (tgt - q'). split; [exact Hz6|]. destruct e as [e|l]; cbn [jpost6 jpreL] in *.
      * destruct (Hstr _ _ Hlm) as (_ & lv & t & A & B & Cc & D). rewrite A in Htg. inversion Htg; subst tgt.
        exists t. split; [exact B|]. intros Ht. split; [unfold pm4; rewrite EP; rewrite (D Ht); lia|].
        rewrite EG. unfold gbf. rewrite (JGt _ _ B Ht). reflexivity.
      * destruct (Hmark _ _ Hlm) as (_ & lv & A & Cc & D). rewrite A in Htg. inversion Htg; subst tgt.
        intros Ht. split; [unfold pm4; rewrite EP; rewrite (D Ht); lia|].
        rewrite EG. unfold gbf. rewrite (JGl _ Ht). reflexivity.
  - intros i p Hi. rewrite Erm. destruct (Hpar _ _ Hi) as [A B]. split; assumption.
  - exact Hnd.
  - rewrite EN. apply zlen_nonneg.
Qed.

(* the side condition of the groups with sites inside *)
Lemma FRfacts6_side W code labels FT r P0 regs lo hi lmap marks L gbl :
  FRfacts6 W code labels FT r P0 regs lo hi lmap marks L gbl ->
  forall pc x v, znth (r_code r) pc = Some (RAssign x v) -> 0 < gbf gbl pc -> W v.
Proof.
  intros [Hcm _ _ _ _ _ _ _ _ _] pc x v Hz Hg. pose proof Hcm as (HGl & HG0 & HGC).
  pose proof (znth_some_range _ _ _ Hz) as Rpc. unfold gbf in Hg.
  destruct (znth_in_range gbl pc) as [g Eg]; [lia|]. destruct (znth_in_range gbl (pc + 1)) as [g' Eg']; [lia|].
  rewrite Eg in Hg. destruct (HGC _ _ _ _ Hz Eg Eg') as (_ & [(_ & l & E)|(_ & _ & Hs)]); [discriminate E|].
  exact (Hs Hg).
Qed.

(* one choice for every element of a list *)
Lemma list_choice {A B} (b0 : B) : forall (l : list A) (Q : nat -> A -> B -> Prop),
  (forall k x, nth_error l k = Some x -> exists b, Q k x b) ->
  exists f : nat -> B, forall k x, nth_error l k = Some x -> Q k x (f k).
Proof.
  induction l as [|a l IH]; intros Q H.
  - exists (fun _ => b0). intros k x Hk. destruct k; discriminate Hk.
  - destruct (H 0%nat a eq_refl) as [ba Ha].
    destruct (IH (fun k x b => Q (S k) x b)) as [f Hf]; [intros k x Hk; exact (H (S k) x Hk)|].
    exists (fun k => match k with O => ba | S k' => f k' end). intros [|k] x Hk; cbn [nth_error] in Hk.
    + inversion Hk; subst. exact Ha.
    + apply Hf; exact Hk.
Qed.
