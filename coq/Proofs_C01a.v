(* Proofs_C01a.v — C01 on the straight-line fragment, part 1: an abstract syntax for straight chains, pure
   specifications of what the generator (code, registers, position) and the flattener (reference code,
   variables, position) produce on a chain, and the proofs that dispatch_void / flat_stmt follow them. *)
From Coq Require Import List ZArith NArith Lia Bool.
From Theo Require Import Base Tokens Errors MacroExtract Parser VMModel VMSpec GenModel Compile RefSem C01Statements Proofs_VM_mem Proofs_VM_dbg Proofs_Gen0 Proofs_Gen Proofs_Sem Gen_Consts.
Import ListNotations.
Local Open Scope Z_scope.

(* ================================================================================================ *)
(* 1. abstract syntax of a straight chain                                                           *)
(* ================================================================================================ *)
Inductive aval :=
| AVar (p : loc) (y : str)
| ANum (p : loc) (tok : str)
| AOp (p : loc) (inc : bool) (p1 : loc) (y : str) (p2 : loc) (tok : str).

Record astmt := mkAS { as_p1 : loc; as_p2 : loc; as_x : str; as_v : aval }.

Inductive IsVal : node -> aval -> Prop :=
| IV_name line file tok l r : IsVal (Node N_NAME line file tok l r) (AVar (file, line) tok)
| IV_num line file tok l r : IsVal (Node N_NUMBER line file tok l r) (ANum (file, line) tok)
| IV_op line file tok f l1 f1 t1 l3 f3 y c1 c2 l2 f2 t2 l4 f4 ctok c3 c4 inc :
    str_eqb (n_tok f) name_INC = inc ->
    (inc = false -> str_eqb (n_tok f) name_DEC = true) ->
    IsVal (Node N_CALL line file tok (Some f)
             (Some (Node N_SPLIT l1 f1 t1 (Some (Node N_NAME l3 f3 y c1 c2))
                      (Some (Node N_SPLIT l2 f2 t2 (Some (Node N_NUMBER l4 f4 ctok c3 c4)) None)))))
          (AOp (file, line) inc (f3, l3) y (f4, l4) ctok).

Inductive IsChain : node -> list astmt -> Prop :=
| IC_last line file tok l2 f2 t2 lt ft x ct1 ct2 v av :
    IsVal v av ->
    IsChain (Node N_SPLIT line file tok
               (Some (Node N_ASSIGN l2 f2 t2 (Some (Node N_NAME lt ft x ct1 ct2)) (Some v))) None)
            [mkAS (file, line) (f2, l2) x av]
| IC_cons line file tok l2 f2 t2 lt ft x ct1 ct2 v av rest lr :
    IsVal v av -> IsChain rest lr ->
    IsChain (Node N_SPLIT line file tok
               (Some (Node N_ASSIGN l2 f2 t2 (Some (Node N_NAME lt ft x ct1 ct2)) (Some v))) (Some rest))
            (mkAS (file, line) (f2, l2) x av :: lr).

Definition val_names (v : aval) : list str :=
  match v with AVar _ y => [y] | ANum _ _ => [] | AOp _ _ _ y _ _ => [y] end.
Definition val_lit (v : aval) : Z :=
  match v with AVar _ _ => 0 | ANum _ tok => strtol tok | AOp _ _ _ _ _ tok => strtol tok end.
Definition stmt_names (s : astmt) : list str := as_x s :: val_names (as_v s).
Definition names_ok (l : list astmt) : Prop :=
  forall s x, In s l -> In x (stmt_names s) -> x <> temp_name_str.
Fixpoint chain_lit (l : list astmt) : Z :=
  match l with [] => 0 | s :: r => val_lit (as_v s) + chain_lit r end.

(* no NAME node of the tree carries the name the generator gives to its temporaries *)
Fixpoint name_free (bad : str) (n : node) : bool :=
  match n with
  | Node t _ _ tok l r =>
      negb ((match t with N_NAME => true | _ => false end) && str_eqb tok bad)
      && (match l with Some x => name_free bad x | None => true end)
      && (match r with Some x => name_free bad x | None => true end)
  end.

Lemma literal_sum_nonneg : forall n, 0 <= literal_sum n.
Proof.
  induction n as [t line file tok l r IHl IHr] using Proofs_Gen0.node_ind'.
  assert (H : 0 <= (match l with Some x => literal_sum x | None => 0 end) +
                   (match r with Some x => literal_sum x | None => 0 end)).
  { destruct l, r; cbn [optP] in *; lia. }
  destruct t; cbn [literal_sum]; try exact H. apply strtol_nonneg.
Qed.

Lemma simple_value_IsVal v : simple_value v = true -> name_free temp_name_str v = true ->
  exists av, IsVal v av /\ (forall x, In x (val_names av) -> x <> temp_name_str) /\ val_lit av <= literal_sum v.
Proof.
  destruct v as [t line file tok l r]. destruct t; try (cbn [simple_value]; discriminate).
  - (* NAME *) intros _ Hn. eexists; split; [constructor|]. split.
    + cbn [val_names]. intros x [<-|[]]. cbn [name_free] in Hn.
      rewrite !andb_true_iff in Hn. destruct Hn as [[Hn _] _]. cbn [andb] in Hn.
      intros ->. rewrite (proj2 (str_eqb_eq _ _) eq_refl) in Hn. discriminate.
    + cbn [val_lit]. apply literal_sum_nonneg.
  - (* NUMBER *) intros _ _. eexists; split; [constructor|]. split.
    + cbn [val_names]. intros x [].
    + cbn [val_lit literal_sum]. lia.
  - (* CALL *)
    cbn [simple_value].
    destruct l as [f|]; [|discriminate].
    destruct r as [[t1 l1 f1 k1 [a1|] [[t2 l2 f2 k2 [a2|] [z|]]|]]|]; try (destruct t1; discriminate);
      try (destruct t1; try discriminate; destruct t2; discriminate); try discriminate.
    destruct t1; try discriminate. destruct t2; try discriminate.
    intros Hs Hn. rewrite !andb_true_iff in Hs. destruct Hs as [[Hf H1] H2].
    destruct a1 as [ta1 l3 f3 y c1 c2]. destruct a2 as [ta2 l4 f4 ctok c3 c4].
    unfold is_name, is_number in H1, H2. cbn [n_type] in H1, H2.
    destruct ta1; try discriminate. destruct ta2; try discriminate.
    eexists; split.
    + apply IV_op with (inc := str_eqb (n_tok f) name_INC); [reflexivity|].
      intros E. rewrite E in Hf. exact Hf.
    + split.
      * cbn [val_names]. intros x [<-|[]].
        cbn [name_free] in Hn. rewrite !andb_true_iff in Hn.
        destruct Hn as [[_ _] [[_ [[Hy _] _]] _]]. cbn [andb] in Hy.
        intros ->. rewrite (proj2 (str_eqb_eq _ _) eq_refl) in Hy. discriminate.
      * cbn [val_lit literal_sum].
        pose proof (literal_sum_nonneg f).
        assert (0 <= match c1 with Some x => literal_sum x | None => 0 end) by (destruct c1; [apply literal_sum_nonneg|lia]).
        assert (0 <= match c2 with Some x => literal_sum x | None => 0 end) by (destruct c2; [apply literal_sum_nonneg|lia]).
        lia.
Qed.

Lemma straight_IsChain : forall n, straight n = true -> name_free temp_name_str n = true ->
  exists l, IsChain n l /\ names_ok l /\ chain_lit l <= literal_sum n.
Proof.
  induction n as [t line file tok l r IHl IHr] using Proofs_Gen0.node_ind'.
  destruct t; try (cbn [straight]; discriminate).
  destruct l as [[ta l2 f2 t2 [tgt|] [v|]]|]; try (cbn [straight]; destruct ta; discriminate);
    try (cbn [straight]; discriminate).
  destruct ta; try (cbn [straight]; discriminate).
  cbn [straight]. intros Hs Hn. rewrite !andb_true_iff in Hs. destruct Hs as [[Ht Hv] Hr].
  destruct tgt as [tt lt ft x ct1 ct2]. unfold is_name in Ht. cbn [n_type] in Ht.
  destruct tt; try discriminate.
  cbn [name_free] in Hn. rewrite !andb_true_iff in Hn.
  destruct Hn as [[_ [[_ [[Hx _] _]] Hnv]] Hnr]. cbn [andb] in Hx.
  assert (Hx' : x <> temp_name_str).
  { intros ->. rewrite (proj2 (str_eqb_eq _ _) eq_refl) in Hx. discriminate. }
  destruct (simple_value_IsVal v Hv Hnv) as (av & Hav & Hnames & Hlit).
  assert (Hlt : 0 <= (match ct1 with Some x => literal_sum x | None => 0 end) +
                     (match ct2 with Some x => literal_sum x | None => 0 end)).
  { assert (0 <= match ct1 with Some x => literal_sum x | None => 0 end) by (destruct ct1; [apply literal_sum_nonneg|lia]).
    assert (0 <= match ct2 with Some x => literal_sum x | None => 0 end) by (destruct ct2; [apply literal_sum_nonneg|lia]).
    lia. }
  destruct r as [rest|].
  - cbn [optP] in IHr. destruct (IHr Hr Hnr) as (lr & Hc & Hok & Hl).
    exists (mkAS (file, line) (f2, l2) x av :: lr). split; [constructor; auto|]. split.
    + intros s y [<-|Hs] Hy.
      * cbn [stmt_names as_x as_v] in Hy. destruct Hy as [<-|Hy]; auto.
      * eapply Hok; eauto.
    + cbn [chain_lit as_v literal_sum]. lia.
  - exists [mkAS (file, line) (f2, l2) x av]. split; [constructor; auto|]. split.
    + intros s y [<-|[]] Hy.
      cbn [stmt_names as_x as_v] in Hy. destruct Hy as [<-|Hy]; auto.
    + cbn [chain_lit as_v literal_sum]. lia.
Qed.

(* ================================================================================================ *)
(* 2. pure specifications                                                                           *)
(* ================================================================================================ *)
(* the text position moves to p: a site / potential break unless hidden or unchanged *)
Definition moved (pos p : loc) : bool :=
  if str_eqb (fst p) hidden_file then false
  else if str_eqb (fst pos) (fst p) then negb (snd p =? snd pos) else true.
Definition newpos (pos p : loc) : loc := if moved pos p then p else pos.
Definition g_adv (pos p : loc) : list instr := if moved pos p then [IPotentialBreak] else [].
Definition f_adv (pos p : loc) : list rinstr := if moved pos p then [RSite p] else [].

Definition tmp_reg : vreg := mkVReg true true temp_name_str.
Definition var_reg (x : str) : vreg := mkVReg true false x.
Definition add_var (regs : list vreg) (x : str) : list vreg :=
  match find_reg regs x 0 with Some _ => regs | None => regs ++ [var_reg x] end.
Definition reg_ix (regs : list vreg) (x : str) : Z :=
  match find_reg regs x 0 with Some i => i | None => zlen regs end.
Definition mention_l (vars : list str) (x : str) : list str :=
  if existsb (str_eqb x) vars then vars else vars ++ [x].

Definition lit_of (tok : str) : Z := wrap_int (strtol tok).

Definition val_pos (v : aval) (pos : loc) : loc :=
  match v with
  | AVar p _ => newpos pos p
  | ANum p _ => newpos pos p
  | AOp p _ p1 _ p2 _ => newpos (newpos (newpos pos p) p1) p2
  end.
Definition val_regs (v : aval) (regs : list vreg) : list vreg :=
  match v with
  | AVar _ y => add_var regs y
  | ANum _ _ => regs
  | AOp _ _ _ y _ _ => add_var (regs ++ [tmp_reg]) y ++ [tmp_reg]
  end.
Definition val_code (v : aval) (tgt : Z) (regs : list vreg) (pos : loc) : list instr :=
  match v with
  | AVar p y => g_adv pos p ++ [IAdd tgt (reg_ix regs y) 0]
  | ANum p tok => g_adv pos p ++ [IConst tgt (lit_of tok)]
  | AOp p inc p1 y p2 tok =>
      let regs1 := regs ++ [tmp_reg] in
      g_adv pos p ++
      (g_adv (newpos pos p) p1 ++ [IAdd (zlen regs) (reg_ix regs1 y) 0]) ++
      (g_adv (newpos (newpos pos p) p1) p2 ++ [IConst (zlen (add_var regs1 y)) (lit_of tok)]) ++
      [IAdd tgt (zlen regs) (if inc then lit_of tok else wrap_int (- lit_of tok))]
  end.
Definition val_sites (v : aval) (pos : loc) : list rinstr :=
  match v with
  | AVar p _ => f_adv pos p
  | ANum p _ => f_adv pos p
  | AOp p _ p1 _ p2 _ => f_adv pos p ++ f_adv (newpos pos p) p1 ++ f_adv (newpos (newpos pos p) p1) p2
  end.
Definition val_rv (v : aval) : rvalue :=
  match v with
  | AVar _ y => RVar y
  | ANum _ tok => RNum (strtol tok)
  | AOp _ inc _ y _ tok => if inc then RInc (RVar y) (lit_of tok) else RDec (RVar y) (lit_of tok)
  end.
Definition val_vars (v : aval) (vars : list str) : list str :=
  match v with
  | AVar _ y => mention_l vars y
  | ANum _ _ => vars
  | AOp _ _ _ y _ _ => mention_l vars y
  end.

Definition stmt_pos0 (s : astmt) (pos : loc) : loc := newpos (newpos pos (as_p1 s)) (as_p2 s).
Definition stmt_pos (s : astmt) (pos : loc) : loc := val_pos (as_v s) (stmt_pos0 s pos).
Definition stmt_regs (s : astmt) (regs : list vreg) : list vreg := val_regs (as_v s) (add_var regs (as_x s)).
Definition stmt_code (s : astmt) (regs : list vreg) (pos : loc) : list instr :=
  g_adv pos (as_p1 s) ++ g_adv (newpos pos (as_p1 s)) (as_p2 s) ++
  val_code (as_v s) (reg_ix regs (as_x s)) (add_var regs (as_x s)) (stmt_pos0 s pos).
Definition stmt_rcode (s : astmt) (pos : loc) : list rinstr :=
  f_adv pos (as_p1 s) ++ f_adv (newpos pos (as_p1 s)) (as_p2 s) ++
  val_sites (as_v s) (stmt_pos0 s pos) ++ [RAssign (as_x s) (val_rv (as_v s))].
Definition stmt_vars (s : astmt) (vars : list str) : list str := val_vars (as_v s) (mention_l vars (as_x s)).

Fixpoint chain_pos (l : list astmt) (pos : loc) : loc :=
  match l with [] => pos | s :: r => chain_pos r (stmt_pos s pos) end.
Fixpoint chain_regs (l : list astmt) (regs : list vreg) : list vreg :=
  match l with [] => regs | s :: r => chain_regs r (stmt_regs s regs) end.
Fixpoint chain_code (l : list astmt) (regs : list vreg) (pos : loc) : list instr :=
  match l with [] => [] | s :: r => stmt_code s regs pos ++ chain_code r (stmt_regs s regs) (stmt_pos s pos) end.
Fixpoint chain_rcode (l : list astmt) (pos : loc) : list rinstr :=
  match l with [] => [] | s :: r => stmt_rcode s pos ++ chain_rcode r (stmt_pos s pos) end.
Fixpoint chain_vars (l : list astmt) (vars : list str) : list str :=
  match l with [] => vars | s :: r => chain_vars r (stmt_vars s vars) end.

(* every literal of the chain is a proper int *)
Definition lits_ok (l : list astmt) : Prop := forall s, In s l -> val_lit (as_v s) < INT_MAX.

(* ================================================================================================ *)
(* 3. register tables                                                                               *)
(* ================================================================================================ *)
Lemma find_reg_app_some regs l x : forall k i, find_reg regs x k = Some i -> find_reg (regs ++ l) x k = Some i.
Proof.
  induction regs as [|r regs IH]; intros k i; cbn [find_reg app]; [discriminate|].
  destruct (str_eqb (vname r) x); auto.
Qed.

Lemma find_reg_app_none regs l x : forall k, find_reg regs x k = None ->
  find_reg (regs ++ l) x k = find_reg l x (k + zlen regs).
Proof.
  induction regs as [|r regs IH]; intros k; cbn [find_reg app].
  - intros _. unfold zlen; cbn. f_equal. lia.
  - destruct (str_eqb (vname r) x); [discriminate|]. intros H. rewrite IH by exact H.
    f_equal. unfold zlen. cbn [length]. lia.
Qed.

Lemma find_reg_name regs x : forall k i, find_reg regs x k = Some i ->
  exists r, znth regs (i - k) = Some r /\ vname r = x.
Proof.
  induction regs as [|r regs IH]; intros k i; cbn [find_reg]; [discriminate|].
  destruct (str_eqb (vname r) x) eqn:E.
  - intros H; inversion H; subst. exists r. rewrite Z.sub_diag. split; [reflexivity|].
    apply str_eqb_eq; exact E.
  - intros H. pose proof (find_reg_range _ _ _ _ H) as Hr.
    destruct (IH _ _ H) as (r' & Hz & Hn). exists r'. split; [|exact Hn].
    unfold znth in *. destruct (Z.ltb_spec (i - (k + 1)) 0); [lia|]. destruct (Z.ltb_spec (i - k) 0); [lia|].
    replace (Z.to_nat (i - k)) with (S (Z.to_nat (i - (k + 1)))) by lia. exact Hz.
Qed.

Lemma find_reg_add_var regs x : find_reg (add_var regs x) x 0 = Some (reg_ix regs x).
Proof.
  unfold add_var, reg_ix. destruct (find_reg regs x 0) as [i|] eqn:E; [exact E|].
  rewrite find_reg_app_none by exact E. cbn [find_reg var_reg vname].
  rewrite (proj2 (str_eqb_eq _ _) eq_refl). f_equal.
Qed.

Lemma add_var_prefix regs x : exists l, add_var regs x = regs ++ l.
Proof. unfold add_var. destruct (find_reg regs x 0); [exists []; rewrite app_nil_r|eexists]; reflexivity. Qed.

Lemma val_regs_prefix v regs : exists l, val_regs v regs = regs ++ l.
Proof.
  destruct v; cbn [val_regs].
  - apply add_var_prefix.
  - exists []; rewrite app_nil_r; reflexivity.
  - destruct (add_var_prefix (regs ++ [tmp_reg]) y) as [l ->]. rewrite <- !app_assoc. eexists; reflexivity.
Qed.

Lemma stmt_regs_prefix s regs : exists l, stmt_regs s regs = regs ++ l.
Proof.
  unfold stmt_regs. destruct (add_var_prefix regs (as_x s)) as [l1 ->].
  destruct (val_regs_prefix (as_v s) (regs ++ l1)) as [l2 ->]. rewrite <- app_assoc. eexists; reflexivity.
Qed.

Lemma chain_regs_prefix l : forall regs, exists l', chain_regs l regs = regs ++ l'.
Proof.
  induction l as [|s l IH]; intros regs; cbn [chain_regs].
  - exists []; rewrite app_nil_r; reflexivity.
  - destruct (stmt_regs_prefix s regs) as [l1 E1]. destruct (IH (stmt_regs s regs)) as [l2 E2].
    rewrite E2, E1, <- app_assoc. eexists; reflexivity.
Qed.

(* well-formed table: temporaries carry the reserved name and are in use; every other register is the first
   of its name and does not carry the reserved name *)
Definition wf (regs : list vreg) : Prop :=
  forall i r, znth regs i = Some r ->
    if is_temp r then vname r = temp_name_str /\ in_use r = true
    else vname r <> temp_name_str /\ find_reg regs (vname r) 0 = Some i.

Lemma wf_nil : wf [].
Proof. intros i r H. unfold znth in H. destruct (i <? 0); [discriminate|]. destruct (Z.to_nat i); discriminate. Qed.

Lemma wf_snoc regs r : wf regs ->
  (if is_temp r then vname r = temp_name_str /\ in_use r = true
   else vname r <> temp_name_str /\ find_reg regs (vname r) 0 = None) ->
  wf (regs ++ [r]).
Proof.
  intros W Hr i r' Hz. apply znth_snoc_inv in Hz. destruct Hz as [[_ Hz]|[-> ->]].
  - specialize (W _ _ Hz). destruct (is_temp r'); [exact W|]. destruct W as [W1 W2]. split; [exact W1|].
    apply find_reg_app_some; exact W2.
  - destruct (is_temp r); [exact Hr|]. destruct Hr as [H1 H2]. split; [exact H1|].
    rewrite find_reg_app_none by exact H2. cbn [find_reg]. rewrite (proj2 (str_eqb_eq _ _) eq_refl). f_equal.
Qed.

Lemma wf_tmp regs : wf regs -> wf (regs ++ [tmp_reg]).
Proof. intros W. apply wf_snoc; auto. cbn. auto. Qed.

Lemma wf_add_var regs x : x <> temp_name_str -> wf regs -> wf (add_var regs x).
Proof.
  intros Hx W. unfold add_var. destruct (find_reg regs x 0) eqn:E; [exact W|].
  apply wf_snoc; auto. cbn. auto.
Qed.

Lemma no_free_temp regs : forall k, (forall r, In r regs -> is_temp r = true -> in_use r = true) ->
  find_free_temp regs k = None.
Proof.
  induction regs as [|r regs IH]; intros k H; cbn [find_free_temp]; [reflexivity|].
  destruct (is_temp r) eqn:E.
  - rewrite (H r (or_introl eq_refl) E). cbn. apply IH. intros; apply H; auto. right; auto.
  - cbn. apply IH. intros; apply H; auto. right; auto.
Qed.

Lemma wf_no_free regs : wf regs -> forall k, find_free_temp regs k = None.
Proof.
  intros W k. apply no_free_temp. intros r Hin Ht.
  apply In_nth_error in Hin. destruct Hin as [n Hn].
  specialize (W (Z.of_nat n) r). rewrite znth_of_nat in W. specialize (W Hn).
  rewrite Ht in W. apply W.
Qed.

Lemma wf_val_regs v regs : (forall x, In x (val_names v) -> x <> temp_name_str) -> wf regs -> wf (val_regs v regs).
Proof.
  intros Hn W. destruct v; cbn [val_regs val_names] in *; auto.
  - apply wf_add_var; auto. apply Hn; left; reflexivity.
  - apply wf_tmp. apply wf_add_var; [apply Hn; left; reflexivity|]. apply wf_tmp; exact W.
Qed.

Lemma wf_stmt_regs s regs : (forall x, In x (stmt_names s) -> x <> temp_name_str) -> wf regs -> wf (stmt_regs s regs).
Proof.
  intros Hn W. unfold stmt_regs. apply wf_val_regs.
  - intros x Hx. apply Hn. right; exact Hx.
  - apply wf_add_var; auto. apply Hn. left; reflexivity.
Qed.

(* ================================================================================================ *)
(* 4. the generator follows the specification                                                       *)
(* ================================================================================================ *)
Definition gpos (g : gstate) : loc := (g_fsname g, g_fsline g).

Record GX (g g' : gstate) (code : list instr) (regs regs' : list vreg) (pos' : loc) : Prop := mkGX {
  gx_code : g_code g' = g_code g ++ code;
  gx_maps : g_maps g' = g_maps g;
  gx_funcs : g_funcs g' = g_funcs g;
  gx_todo : g_todo g' = g_todo g;
  gx_syms : exists nm an mk t, g_syms g = mkFGS nm regs an mk :: t /\ g_syms g' = mkFGS nm regs' an mk :: t;
  gx_pos : gpos g' = pos' }.

Definition GPre (g : gstate) (regs : list vreg) (pos : loc) : Prop :=
  (exists nm an mk t, g_syms g = mkFGS nm regs an mk :: t) /\ gpos g = pos.

Lemma GX_post g g' code regs regs' pos' : GX g g' code regs regs' pos' -> GPre g' regs' pos'.
Proof. intros [_ _ _ _ (nm & an & mk & t & _ & H) Hp]. split; eauto. Qed.

Lemma GX_refl g regs pos : GPre g regs pos -> GX g g [] regs regs pos.
Proof.
  intros [(nm & an & mk & t & H) Hp]. constructor; auto.
  - rewrite app_nil_r; reflexivity.
  - eauto 10.
Qed.

Lemma GX_trans g g1 g2 c1 c2 r r1 r2 p1 p2 :
  GX g g1 c1 r r1 p1 -> GX g1 g2 c2 r1 r2 p2 -> GX g g2 (c1 ++ c2) r r2 p2.
Proof.
  intros [A1 A2 A3 A4 (nm & an & mk & t & A5 & A5') A6] [B1 B2 B3 B4 (nm' & an' & mk' & t' & B5 & B5') B6].
  constructor; try congruence.
  - rewrite B1, A1, app_assoc. reflexivity.
  - rewrite A5' in B5. inversion B5; subst. eauto 10.
Qed.

Lemma G_adv g regs pos line file : GPre g regs pos ->
  GX g (advance_line g line file) (g_adv pos (file, line)) regs regs (newpos pos (file, line)).
Proof.
  intros Hpre. pose proof Hpre as [(nm & an & mk & t & Hs) Hp].
  unfold advance_line, g_adv, newpos, moved. subst pos. cbn [fst snd gpos].
  destruct (str_eqb file hidden_file); [apply GX_refl; exact Hpre|].
  destruct (str_eqb (g_fsname g) file) eqn:E.
  - destruct (line =? g_fsline g); cbn [negb]; [apply GX_refl; exact Hpre|].
    apply str_eqb_eq in E. constructor; try reflexivity.
    + exists nm, an, mk, t. split; [exact Hs|]. cbn. exact Hs.
    + unfold gpos. cbn. rewrite E. reflexivity.
  - constructor; try reflexivity.
    exists nm, an, mk, t. split; [exact Hs|]. cbn. exact Hs.
Qed.

Lemma G_emit g regs pos i : GPre g regs pos -> GX g (emit g i) [i] regs regs pos.
Proof.
  intros [(nm & an & mk & t & Hs) Hp]. constructor; try reflexivity; auto.
  exists nm, an, mk, t. split; [exact Hs|]. cbn. exact Hs.
Qed.

Lemma G_var g regs pos x : GPre g regs pos ->
  exists g', fetch_variable g x = Ok (g', reg_ix regs x) /\ GX g g' [] regs (add_var regs x) pos.
Proof.
  intros Hpre. pose proof Hpre as [(nm & an & mk & t & Hs) Hp].
  unfold fetch_variable, get_symbols. rewrite Hs. cbn [hd_error of_opt bind f_regs f_name f_argnum f_marks].
  unfold add_var, reg_ix. destruct (find_reg regs x 0).
  - exists g. split; [reflexivity|]. apply GX_refl; exact Hpre.
  - eexists. split; [reflexivity|]. constructor; try reflexivity; auto.
    + cbn. rewrite app_nil_r. reflexivity.
    + exists nm, an, mk, t. split; [exact Hs|]. cbn. rewrite Hs. reflexivity.
Qed.

Lemma G_tmp g regs pos : GPre g regs pos -> wf regs ->
  exists g', fetch_temporary g = Ok (g', zlen regs) /\ GX g g' [] regs (regs ++ [tmp_reg]) pos.
Proof.
  intros Hpre W. pose proof Hpre as [(nm & an & mk & t & Hs) Hp].
  unfold fetch_temporary, get_symbols. rewrite Hs. cbn [hd_error of_opt bind f_regs f_name f_argnum f_marks].
  rewrite (wf_no_free regs W 0).
  eexists. split; [reflexivity|]. constructor; try reflexivity; auto.
  - cbn. rewrite app_nil_r. reflexivity.
  - exists nm, an, mk, t. split; [exact Hs|]. cbn. rewrite Hs. reflexivity.
Qed.

Lemma G_strtoint g regs pos tok : GPre g regs pos ->
  GX g (fst (gen_str_to_int g tok)) [] regs regs pos /\ snd (gen_str_to_int g tok) = lit_of tok.
Proof.
  intros Hpre. pose proof Hpre as [(nm & an & mk & t & Hs) Hp].
  unfold gen_str_to_int. cbn [fst snd]. split; [|reflexivity].
  destruct (INT_MAX <=? strtol tok); [|apply GX_refl; exact Hpre].
  constructor; try reflexivity; auto.
  - cbn. rewrite app_nil_r. reflexivity.
  - exists nm, an, mk, t. split; exact Hs.
Qed.

Lemma G_name ln g regs pos line file tok l r tgt : GPre g regs pos ->
  exists g', dispatch_value ln (Node N_NAME line file tok l r) tgt g = Ok g' /\
    GX g g' (g_adv pos (file, line) ++ [IAdd tgt (reg_ix regs tok) 0]) regs (add_var regs tok) (newpos pos (file, line)).
Proof.
  intros Hpre. rewrite dv_name.
  pose proof (G_adv g regs pos line file Hpre) as X0.
  destruct (G_var _ _ _ tok (GX_post _ _ _ _ _ _ X0)) as (g1 & E1 & X1).
  rewrite E1. cbn [bind]. cbv beta iota. eexists; split; [reflexivity|].
  pose proof (G_emit g1 _ _ (IAdd tgt (reg_ix regs tok) 0) (GX_post _ _ _ _ _ _ X1)) as X2.
  pose proof (GX_trans _ _ _ _ _ _ _ _ _ _ X0 (GX_trans _ _ _ _ _ _ _ _ _ _ X1 X2)) as X.
  exact X.
Qed.

Lemma G_num ln g regs pos line file tok l r tgt : GPre g regs pos ->
  exists g', dispatch_value ln (Node N_NUMBER line file tok l r) tgt g = Ok g' /\
    GX g g' (g_adv pos (file, line) ++ [IConst tgt (lit_of tok)]) regs regs (newpos pos (file, line)).
Proof.
  intros Hpre. rewrite dv_number.
  pose proof (G_adv g regs pos line file Hpre) as X0.
  destruct (G_strtoint _ _ _ tok (GX_post _ _ _ _ _ _ X0)) as [X1 E1].
  rewrite E1. eexists; split; [reflexivity|].
  pose proof (G_emit _ _ _ (IConst tgt (lit_of tok)) (GX_post _ _ _ _ _ _ X1)) as X2.
  exact (GX_trans _ _ _ _ _ _ _ _ _ _ X0 (GX_trans _ _ _ _ _ _ _ _ _ _ X1 X2)).
Qed.

Lemma call_tail_op f l1 f1 t1 l3 f3 y c1 c2 l2 f2 t2 l4 f4 ctok c3 c4 tgt g r1 r2 :
  str_eqb (n_tok f) name_INC || str_eqb (n_tok f) name_DEC = true ->
  call_tail false (Some f)
    (Some (Node N_SPLIT l1 f1 t1 (Some (Node N_NAME l3 f3 y c1 c2))
             (Some (Node N_SPLIT l2 f2 t2 (Some (Node N_NUMBER l4 f4 ctok c3 c4)) None)))) tgt (g, [r1; r2]) =
  Ok (emit g (IAdd tgt r1 (if str_eqb (n_tok f) name_INC then lit_of ctok else wrap_int (- lit_of ctok)))).
Proof.
  intros H. unfold call_tail, call_const.
  cbn [length Nat.eqb child of_opt bind n_left n_right n_type n_tok].
  rewrite H. unfold strToIntSilent_gen. fold (lit_of ctok).
  replace (znth [r1; r2] 0) with (Some r1) by reflexivity. cbn [of_opt bind andb].
  destruct (str_eqb (n_tok f) name_INC); reflexivity.
Qed.

Lemma G_val v av : IsVal v av -> forall g regs pos tgt, GPre g regs pos -> wf regs ->
  (forall x, In x (val_names av) -> x <> temp_name_str) ->
  exists g', dispatch_value false v tgt g = Ok g' /\
    GX g g' (val_code av tgt regs pos) regs (val_regs av regs) (val_pos av pos).
Proof.
  intros HV. destruct HV as [line file tok l r|line file tok l r|
    line file tok f l1 f1 t1 l3 f3 y c1 c2 l2 f2 t2 l4 f4 ctok c3 c4 inc Hinc Hdec]; intros g regs pos tgt Hpre W Hn.
  - apply G_name; exact Hpre.
  - apply G_num; exact Hpre.
  - rewrite dv_call. cbn [call_args_o].
    rewrite call_args_split. cbn [call_args_o].
    rewrite call_args_leaf by (cbn; discriminate). cbn [fst snd].
    pose proof (G_adv g regs pos line file Hpre) as X0.
    destruct (G_tmp _ _ _ (GX_post _ _ _ _ _ _ X0) W) as (g1 & E1 & X1).
    rewrite E1. cbn [bind]. cbv beta iota.
    destruct (G_name false g1 _ _ l3 f3 y c1 c2 (zlen regs) (GX_post _ _ _ _ _ _ X1)) as (g2 & E2 & X2).
    rewrite E2. cbn [bind app].
    rewrite call_args_split. cbn [call_args_o].
    rewrite call_args_leaf by (cbn; discriminate). cbn [fst snd].
    assert (W2 : wf (add_var (regs ++ [tmp_reg]) y)).
    { apply wf_add_var; [apply Hn; left; reflexivity|]. apply wf_tmp; exact W. }
    destruct (G_tmp _ _ _ (GX_post _ _ _ _ _ _ X2) W2) as (g3 & E3 & X3).
    rewrite E3. cbn [bind]. cbv beta iota.
    destruct (G_num false g3 _ _ l4 f4 ctok c3 c4 (zlen (add_var (regs ++ [tmp_reg]) y)) (GX_post _ _ _ _ _ _ X3)) as (g4 & E4 & X4).
    rewrite E4. cbn [bind app].
    rewrite call_tail_op.
    2:{ destruct inc; [rewrite Hinc; reflexivity|]. rewrite (Hdec eq_refl). apply orb_true_r. }
    eexists; split; [reflexivity|]. rewrite Hinc.
    pose proof (G_emit g4 _ _ (IAdd tgt (zlen regs) (if inc then lit_of ctok else wrap_int (- lit_of ctok)))
                  (GX_post _ _ _ _ _ _ X4)) as X5.
    pose proof (GX_trans _ _ _ _ _ _ _ _ _ _ X0
                 (GX_trans _ _ _ _ _ _ _ _ _ _ X1
                   (GX_trans _ _ _ _ _ _ _ _ _ _ X2
                     (GX_trans _ _ _ _ _ _ _ _ _ _ X3
                       (GX_trans _ _ _ _ _ _ _ _ _ _ X4 X5))))) as X.
    cbn [val_code val_regs val_pos]. cbn [app] in X. exact X.
Qed.

Lemma G_assign g regs pos line file tok lt ft x ct1 ct2 v av :
  IsVal v av -> GPre g regs pos -> wf regs -> x <> temp_name_str ->
  (forall y, In y (val_names av) -> y <> temp_name_str) ->
  exists g', dispatch_void false false false
               (Node N_ASSIGN line file tok (Some (Node N_NAME lt ft x ct1 ct2)) (Some v)) g = Ok g' /\
    GX g g' (g_adv pos (file, line) ++
             val_code av (reg_ix regs x) (add_var regs x) (newpos pos (file, line)))
       regs (val_regs av (add_var regs x)) (val_pos av (newpos pos (file, line))).
Proof.
  intros HV Hpre W Hx Hn. rewrite dvoid_assign. cbn [child of_opt bind n_tok].
  pose proof (G_adv g regs pos line file Hpre) as X0.
  destruct (G_var _ _ _ x (GX_post _ _ _ _ _ _ X0)) as (g1 & E1 & X1).
  rewrite E1. cbn [bind]. cbv beta iota. cbn [dispatch_value_opt].
  destruct (G_val v av HV g1 _ _ (reg_ix regs x) (GX_post _ _ _ _ _ _ X1) (wf_add_var _ _ Hx W) Hn) as (g2 & E2 & X2).
  exists g2. split; [exact E2|].
  pose proof (GX_trans _ _ _ _ _ _ _ _ _ _ X0 (GX_trans _ _ _ _ _ _ _ _ _ _ X1 X2)) as X.
  cbn [app] in X. exact X.
Qed.

Lemma names_ok_cons s l : names_ok (s :: l) ->
  (forall x, In x (stmt_names s) -> x <> temp_name_str) /\ names_ok l.
Proof.
  intros H. split.
  - intros x Hx. apply (H s x); [left; reflexivity | exact Hx].
  - intros s' x Hs Hx. apply (H s' x); [right; exact Hs | exact Hx].
Qed.

Lemma wf_chain_regs l : forall regs, names_ok l -> wf regs -> wf (chain_regs l regs).
Proof.
  induction l as [|s l IH]; intros regs Hok W; cbn [chain_regs]; [exact W|].
  apply names_ok_cons in Hok. destruct Hok as [H1 H2]. apply IH; [exact H2|]. apply wf_stmt_regs; auto.
Qed.

Lemma G_chain n l : IsChain n l -> forall g regs pos, GPre g regs pos -> wf regs -> names_ok l ->
  exists g', dispatch_void false false false n g = Ok g' /\
    GX g g' (chain_code l regs pos) regs (chain_regs l regs) (chain_pos l pos).
Proof.
  induction 1 as [line file tok l2 f2 t2 lt ft x ct1 ct2 v av HV|
                  line file tok l2 f2 t2 lt ft x ct1 ct2 v av rest lr HV HC IH];
    intros g regs pos Hpre W Hok; apply names_ok_cons in Hok; destruct Hok as [Hn Hok].
  - rewrite dvoid_split. cbn [dvo].
    pose proof (G_adv g regs pos line file Hpre) as X0.
    destruct (G_assign _ _ _ l2 f2 t2 lt ft x ct1 ct2 v av HV (GX_post _ _ _ _ _ _ X0) W
                (Hn x (or_introl eq_refl)) (fun y Hy => Hn y (or_intror Hy))) as (g1 & E1 & X1).
    rewrite E1. cbn [bind]. exists g1. split; [reflexivity|].
    pose proof (GX_trans _ _ _ _ _ _ _ _ _ _ X0 X1) as X.
    cbn [chain_code chain_regs chain_pos]. rewrite app_nil_r.
    unfold stmt_code, stmt_regs, stmt_pos, stmt_pos0. cbn [as_p1 as_p2 as_x as_v]. exact X.
  - rewrite dvoid_split. cbn [dvo].
    pose proof (G_adv g regs pos line file Hpre) as X0.
    destruct (G_assign _ _ _ l2 f2 t2 lt ft x ct1 ct2 v av HV (GX_post _ _ _ _ _ _ X0) W
                (Hn x (or_introl eq_refl)) (fun y Hy => Hn y (or_intror Hy))) as (g1 & E1 & X1).
    rewrite E1. cbn [bind].
    assert (W1 : wf (stmt_regs (mkAS (file, line) (f2, l2) x av) regs)) by (apply wf_stmt_regs; auto).
    unfold stmt_regs in W1. cbn [as_x as_v] in W1.
    destruct (IH g1 _ _ (GX_post _ _ _ _ _ _ X1) W1 Hok) as (g2 & E2 & X2).
    exists g2. split; [exact E2|].
    pose proof (GX_trans _ _ _ _ _ _ _ _ _ _ X0 (GX_trans _ _ _ _ _ _ _ _ _ _ X1 X2)) as X.
    cbn [chain_code chain_regs chain_pos].
    unfold stmt_code, stmt_regs, stmt_pos, stmt_pos0. cbn [as_p1 as_p2 as_x as_v].
    rewrite <- !app_assoc in X. rewrite <- !app_assoc. exact X.
Qed.

(* ================================================================================================ *)
(* 5. the flattener follows the specification                                                       *)
(* ================================================================================================ *)
Definition fapp (s : fstate) (rc : list rinstr) (vars : list str) (pos : loc) : fstate :=
  mkF (f_done s) (f_names s)
      (mkB (b_name (f_cur s)) (b_params (f_cur s)) (b_code (f_cur s) ++ rc) (b_labels (f_cur s))
           (b_targets (f_cur s)) vars)
      pos (f_loops s).

Lemma fapp_fapp s c1 v1 p1 c2 v2 p2 : fapp (fapp s c1 v1 p1) c2 v2 p2 = fapp s (c1 ++ c2) v2 p2.
Proof. unfold fapp; cbn. rewrite app_assoc. reflexivity. Qed.
Lemma fapp_id s : fapp s [] (b_vars (f_cur s)) (f_pos s) = s.
Proof. destruct s as [d n [a b c e f g] p l]. unfold fapp; cbn. rewrite app_nil_r. reflexivity. Qed.
Lemma fapp_vars s c v p : b_vars (f_cur (fapp s c v p)) = v.
Proof. reflexivity. Qed.
Lemma fapp_pos s c v p : f_pos (fapp s c v p) = p.
Proof. reflexivity. Qed.

Lemma F_move s file line :
  move_to s file line = fapp s (f_adv (f_pos s) (file, line)) (b_vars (f_cur s)) (newpos (f_pos s) (file, line)).
Proof.
  unfold move_to, f_adv, newpos, moved. cbn [fst snd].
  destruct (str_eqb file hidden_file); [symmetry; apply fapp_id|].
  destruct (str_eqb (fst (f_pos s)) file); cbn [andb]; [|reflexivity].
  rewrite (Z.eqb_sym line). destruct (snd (f_pos s) =? line); cbn [negb]; [symmetry; apply fapp_id | reflexivity].
Qed.

Lemma F_mention s x :
  with_cur s (mention (f_cur s) x) = fapp s [] (mention_l (b_vars (f_cur s)) x) (f_pos s).
Proof.
  unfold with_cur, mention, mention_l. destruct (existsb (str_eqb x) (b_vars (f_cur s))).
  - rewrite fapp_id. destruct s; reflexivity.
  - unfold fapp. cbn. rewrite app_nil_r. reflexivity.
Qed.

Lemma F_emit s i : with_cur s (bemit (f_cur s) i) = fapp s [i] (b_vars (f_cur s)) (f_pos s).
Proof. reflexivity. Qed.

Lemma F_name line file tok l r s :
  flat_value (Node N_NAME line file tok l r) s =
  Some (fapp s (f_adv (f_pos s) (file, line)) (mention_l (b_vars (f_cur s)) tok) (newpos (f_pos s) (file, line)),
        RVar tok).
Proof.
  rewrite flat_value_name. cbv zeta. rewrite F_mention, F_move.
  rewrite fapp_vars, fapp_pos, fapp_fapp, app_nil_r. reflexivity.
Qed.

Lemma F_num line file tok l r s : strtol tok < INT_MAX ->
  flat_value (Node N_NUMBER line file tok l r) s =
  Some (fapp s (f_adv (f_pos s) (file, line)) (b_vars (f_cur s)) (newpos (f_pos s) (file, line)),
        RNum (strtol tok)).
Proof.
  intros H. rewrite flat_value_number. cbv zeta.
  destruct (Z.leb_spec INT_MAX (strtol tok)); [lia|]. rewrite F_move. reflexivity.
Qed.

Lemma flat_value_call' line file tok ln r s :
  flat_value (Node N_CALL line file tok (Some ln) r) s =
  match (match r with None => Some (move_to s file line, []) | Some rn0 => fargs rn0 (move_to s file line, []) end) with
  | None => None
  | Some (s1, vs) =>
      match builtin_of r vs with
      | Some (v1, c) =>
          if str_eqb (n_tok ln) name_INC then Some (s1, RInc v1 c)
          else if str_eqb (n_tok ln) name_DEC then Some (s1, RDec v1 c)
          else resolve_call s1 (n_tok ln) vs
      | None => resolve_call s1 (n_tok ln) vs
      end
  end.
Proof. reflexivity. Qed.

Lemma F_val v av : IsVal v av -> val_lit av < INT_MAX -> forall s,
  flat_value v s = Some (fapp s (val_sites av (f_pos s)) (val_vars av (b_vars (f_cur s))) (val_pos av (f_pos s)),
                         val_rv av).
Proof.
  intros HV. destruct HV as [line file tok l r|line file tok l r|
    line file tok f l1 f1 t1 l3 f3 y c1 c2 l2 f2 t2 l4 f4 ctok c3 c4 inc Hinc Hdec]; intros Hl s.
  - apply F_name.
  - apply F_num. exact Hl.
  - cbn [val_lit] in Hl. rewrite flat_value_call'.
    rewrite fargs_eq. cbn [fargs_opt]. rewrite fargs_eq. cbn [fst snd].
    rewrite F_name. cbn [app]. rewrite fargs_eq. cbn [fargs_opt]. rewrite fargs_eq. cbn [fst snd].
    rewrite (F_num _ _ _ _ _ _ Hl). cbn [app].
    unfold builtin_of. cbn [n_type]. unfold lit. cbn [n_tok]. fold (lit_of ctok).
    rewrite Hinc. rewrite F_move.
    rewrite !fapp_vars, !fapp_pos, !fapp_fapp.
    cbn [val_sites val_vars val_pos val_rv].
    destruct inc.
    + rewrite app_assoc. reflexivity.
    + rewrite (Hdec eq_refl). rewrite app_assoc. reflexivity.
Qed.

Lemma F_assign line file tok lt ft x ct1 ct2 v av : IsVal v av -> val_lit av < INT_MAX -> forall s,
  flat_stmt (Node N_ASSIGN line file tok (Some (Node N_NAME lt ft x ct1 ct2)) (Some v)) s =
  Some (fapp s (f_adv (f_pos s) (file, line) ++ val_sites av (newpos (f_pos s) (file, line)) ++ [RAssign x (val_rv av)])
              (val_vars av (mention_l (b_vars (f_cur s)) x))
              (val_pos av (newpos (f_pos s) (file, line)))).
Proof.
  intros HV Hl s. rewrite flat_stmt_eq. cbn [fs_body]. unfold fs_assign. cbn [n_tok opt_value].
  rewrite F_mention. rewrite (F_val v av HV Hl). rewrite F_emit. rewrite F_move.
  rewrite !fapp_vars, !fapp_pos, !fapp_fapp. cbn [app]. rewrite <- ?app_assoc. reflexivity.
Qed.

Lemma lits_ok_cons s l : lits_ok (s :: l) -> val_lit (as_v s) < INT_MAX /\ lits_ok l.
Proof.
  intros H. split; [apply H; left; reflexivity|]. intros s' Hs. apply H. right; exact Hs.
Qed.

Lemma F_chain n l : IsChain n l -> lits_ok l -> forall s,
  flat_stmt n s = Some (fapp s (chain_rcode l (f_pos s)) (chain_vars l (b_vars (f_cur s))) (chain_pos l (f_pos s))).
Proof.
  induction 1 as [line file tok l2 f2 t2 lt ft x ct1 ct2 v av HV|
                  line file tok l2 f2 t2 lt ft x ct1 ct2 v av rest lr HV HC IH];
    intros Hok s; apply lits_ok_cons in Hok; destruct Hok as [Hl Hok]; cbn [as_v] in Hl.
  - rewrite flat_stmt_eq. cbn [fs_body]. unfold fs_split. cbn [fsub].
    rewrite (F_assign _ _ _ _ _ _ _ _ v av HV Hl). rewrite F_move.
    rewrite !fapp_vars, !fapp_pos, !fapp_fapp.
    cbn [chain_rcode chain_vars chain_pos]. rewrite app_nil_r.
    unfold stmt_rcode, stmt_vars, stmt_pos, stmt_pos0. cbn [as_p1 as_p2 as_x as_v].
    rewrite <- ?app_assoc. reflexivity.
  - rewrite flat_stmt_eq. cbn [fs_body]. unfold fs_split. cbn [fsub].
    rewrite (F_assign _ _ _ _ _ _ _ _ v av HV Hl). rewrite (IH Hok). rewrite F_move.
    rewrite !fapp_vars, !fapp_pos, !fapp_fapp.
    cbn [chain_rcode chain_vars chain_pos].
    unfold stmt_rcode, stmt_vars, stmt_pos, stmt_pos0. cbn [as_p1 as_p2 as_x as_v].
    rewrite <- ?app_assoc. reflexivity.
Qed.
