(* VMModel.v — executable model of VM/src/vm.cpp and the parts of VM/src/program.cpp the VM uses.
   One Gallina function per C++ method, same control structure; every unchecked vector access,
   back(), end()-2 and signed overflow of the C++ is an explicit UB outcome.  No proofs here. *)
From Theo Require Import Base.
Local Open Scope Z_scope.

Inductive opcode :=
| POTENTIAL_BREAK | BREAK | HALT | ADD_CONST | JMP | JMPC | PREPARE_EXEC | ARG | EXEC | RET | CONST | TEST.

Definition opcode_eqb (x y : opcode) : bool :=
  match x, y with
  | POTENTIAL_BREAK, POTENTIAL_BREAK | BREAK, BREAK | HALT, HALT | ADD_CONST, ADD_CONST
  | JMP, JMP | JMPC, JMPC | PREPARE_EXEC, PREPARE_EXEC | ARG, ARG | EXEC, EXEC | RET, RET
  | CONST, CONST | TEST, TEST => true
  | _, _ => false
  end.

(* Instruction: an opcode and the three ints of the parameter union (instr.hpp):
   ia = test.target add.target constant.target jmp.offset jmpc.offset prepare.count arg.target exec.entry ret.source
   ib = test.op1 add.source constant.constant jmpc.source prepare.index arg.source
   ic = test.op2 add.constant prepare.target *)
Record instr := mkI { iop : opcode; ia : Z; ib : Z; ic : Z }.
Definition set_op (i : instr) (o : opcode) : instr := mkI o (ia i) (ib i) (ic i).

Record bp := mkBP { bfile : str; bline : Z }.
(* program.cpp operator< *)
Definition bp_ltb (x y : bp) : bool :=
  if str_ltb (bfile x) (bfile y) then true
  else if str_ltb (bfile y) (bfile x) then false
  else bline x <? bline y.
Definition bp_eqb (x y : bp) : bool := str_eqb (bfile x) (bfile y) && (bline x =? bline y).

Record stackmap := mkSM { func_name : str; smap : list (Z * str) }.   (* smap ordered by register *)

Record program := mkProg {
  code : list instr;
  stack_maps : list stackmap;
  potential_breaks : list (bp * list Z);   (* std::map<BreakPoint, vector<ProgramIndex>>, in key order *)
  line_info : list (Z * bp)                (* std::map<ProgramIndex, BreakPoint>, in key order *)
}.
Definition set_code (p : program) (c : list instr) : program :=
  mkProg c (stack_maps p) (potential_breaks p) (line_info p).

Record act := mkAct { data_start : Z; seg_size : Z; ret_target : Z; ret_addr : Z; debug_info : Z }.

(* the private state of class VM; [stack] has the newest activation FIRST (stack.back() = hd) *)
Record vm := mkVM {
  stepping : bool;
  ip : Z;
  prog : program;
  data : list Z;
  stack : list act;
  enabled : list bp          (* std::set<BreakPoint>, in order *)
}.

Definition set_ip (s : vm) (i : Z) : vm := mkVM (stepping s) i (prog s) (data s) (stack s) (enabled s).
Definition set_data_ip (s : vm) (d : list Z) (i : Z) : vm := mkVM (stepping s) i (prog s) d (stack s) (enabled s).

(* VM::VM *)
Definition init (p : program) : vm := mkVM false 0 p [] [] [].

Definition z_ltb (x y : Z) : bool := x <? y.

(* Program::getAvailableBreakpoints *)
Definition available (p : program) : list bp := map fst (potential_breaks p).

(* VM::getCurrentBreak; None stands for BreakPoint{"none", -1} *)
Definition getCurrentBreak (s : vm) : option bp := alookup z_ltb (line_info (prog s)) (ip s - 1).

(* VM::setSteppingMode *)
Definition setSteppingMode (s : vm) (m : bool) : vm := mkVM m (ip s) (prog s) (data s) (stack s) (enabled s).

(* for (auto ind : sites) code[ind].op = o;   unchecked operator[] *)
Fixpoint set_ops (c : list instr) (sites : list Z) (o : opcode) : result (list instr) :=
  match sites with
  | [] => Ok c
  | i :: rest =>
      do ins <- of_opt ub_index (znth c i);
      do c' <- of_opt ub_index (zupd c i (set_op ins o));
      set_ops c' rest o
  end.

(* VM::setBreakPoint *)
Definition setBreakPoint (s : vm) (file : str) (line : Z) (value : bool) : result (vm * bool) :=
  let b := mkBP file line in
  match alookup bp_ltb (potential_breaks (prog s)) b with
  | None => Ok (s, false)
  | Some sites =>
      if value then
        do c' <- set_ops (code (prog s)) sites BREAK;
        Ok (mkVM (stepping s) (ip s) (set_code (prog s) c') (data s) (stack s) (sinsert bp_ltb (enabled s) b), true)
      else
        do c' <- set_ops (code (prog s)) sites POTENTIAL_BREAK;
        Ok (mkVM (stepping s) (ip s) (set_code (prog s) c') (data s) (stack s) (sremove bp_ltb (enabled s) b), true)
  end.

(* VM::clearBreakpoints.  potential_breaks[bp] on a missing key would insert an empty vector; the
   enabled set only ever holds keys of the table (lemma enabled_sub_available), so the lookup with
   default [] is the same function on every reachable state. *)
Fixpoint clear_sites (p : program) (c : list instr) (en : list bp) : result (list instr) :=
  match en with
  | [] => Ok c
  | b :: rest =>
      let sites := match alookup bp_ltb (potential_breaks p) b with Some l => l | None => [] end in
      do c' <- set_ops c sites POTENTIAL_BREAK;
      clear_sites p c' rest
  end.

Definition clearBreakpoints (s : vm) : result vm :=
  do c' <- clear_sites (prog s) (code (prog s)) (enabled s);
  Ok (mkVM (stepping s) (ip s) (set_code (prog s) c') (data s) (stack s) []).

(* VM::reset *)
Definition reset (s : vm) : result vm :=
  do s1 <- clearBreakpoints (mkVM false 0 (prog s) (data s) (stack s) (enabled s));
  Ok (mkVM false 0 (prog s1) [] [] []).

(* VM::isDone *)
Definition isDone (s : vm) : result bool :=
  do i <- of_opt ub_index (znth (code (prog s)) (ip s));
  Ok (opcode_eqb (iop i) HALT).

Definition top (s : vm) : result act := of_opt ub_back (hd_error (stack s)).
Definition second (s : vm) : result act :=
  match stack s with _ :: a :: _ => Ok a | _ => UB ub_back end.
Definition rd (d : list Z) (i : Z) : result Z := of_opt ub_index (znth d i).
Definition wr (d : list Z) (i : Z) (v : Z) : result (list Z) := of_opt ub_index (zupd d i v).

(* two behaviours that were repaired in /repo (fix: commits D7, D8); the pinned behaviour stays
   available so that the refutation theorems can be stated *)
Record vmcfg := mkCfg { legacy_ret : bool; legacy_add : bool }.
Definition cfg_now : vmcfg := mkCfg false false.
Definition cfg_pinned : vmcfg := mkCfg true true.

(* ADD_CONST: now  clamp((long long)x + c, 0, INT_MAX);  pinned: std::max(x + c, 0) in int *)
Definition add_const (cfg : vmcfg) (x c : Z) : result Z :=
  if legacy_add cfg then
    (if in_int (x + c) then Ok (Z.max (x + c) 0) else UB ub_overflow)
  else Ok (Z.max 0 (Z.min (x + c) INT_MAX)).

(* data.resize(n) for 0 <= n; shrinking or growing with zeros *)
Definition resize (d : list Z) (n : Z) : result (list Z) :=
  if n <? 0 then UB ub_index
  else if n <=? zlen d then Ok (firstn (Z.to_nat n) d)
  else Ok (d ++ zrepeat 0 (Z.to_nat (n - zlen d))).

(* VM::executeSingle *)
Definition exec1_gen (cfg : vmcfg) (s : vm) : result (vm * bool) :=
  do i <- of_opt ub_index (znth (code (prog s)) (ip s));
  match iop i with
  | POTENTIAL_BREAK => Ok (set_ip s (ip s + 1), stepping s)
  | BREAK => Ok (set_ip s (ip s + 1), true)
  | HALT => Ok (s, true)
  | ADD_CONST =>
      do t <- top s;
      let base := data_start t in
      do x <- rd (data s) (base + ib i);
      do v <- add_const cfg x (ic i);
      do d' <- wr (data s) (base + ia i) v;
      Ok (set_data_ip s d' (ip s + 1), false)
  | TEST =>
      do t <- top s;
      let base := data_start t in
      do x <- rd (data s) (base + ib i);
      do y <- rd (data s) (base + ic i);
      do d' <- wr (data s) (base + ia i) (if x =? y then 0 else 1);
      Ok (set_data_ip s d' (ip s + 1), false)
  | CONST =>
      do t <- top s;
      do d' <- wr (data s) (data_start t + ia i) (ib i);
      Ok (set_data_ip s d' (ip s + 1), false)
  | JMP => Ok (set_ip s (ip s + ia i), false)
  | JMPC =>
      do t <- top s;
      do x <- rd (data s) (data_start t + ib i);
      Ok (set_ip s (if x =? 0 then ip s + ia i else ip s + 1), false)
  | PREPARE_EXEC =>
      let next_offset := zlen (data s) in
      let next_len := ia i in
      let d' := data s ++ zrepeat 0 (Z.to_nat next_len) in
      Ok (mkVM (stepping s) (ip s + 1) (prog s) d'
               (mkAct next_offset next_len (ic i) (-1) (ib i) :: stack s) (enabled s), false)
  | ARG =>
      do src <- second s;
      do t <- top s;
      do x <- rd (data s) (data_start src + ib i);
      do d' <- wr (data s) (data_start t + ia i) x;
      Ok (set_data_ip s d' (ip s + 1), false)
  | EXEC =>
      match stack s with
      | [] => UB ub_back
      | t :: rest =>
          Ok (mkVM (stepping s) (ia i) (prog s) (data s)
                   (mkAct (data_start t) (seg_size t) (ret_target t) (ip s + 1) (debug_info t) :: rest)
                   (enabled s), false)
      end
  | RET =>
      match stack s with
      | t :: (c :: _) as rest =>
          do x <- rd (data s) (data_start t + ia i);
          do d' <- wr (data s) (data_start c + ret_target t) x;
          do d'' <- (if legacy_ret cfg then Ok d' else resize d' (data_start t));
          Ok (mkVM (stepping s) (ret_addr t) (prog s) d'' rest (enabled s), false)
      | _ => UB ub_back
      end
  end.

Definition exec1 := exec1_gen cfg_now.

(* VM::execute : while (!executeSingle()); *)
Fixpoint execute_gen (cfg : vmcfg) (fuel : nat) (s : vm) : result vm :=
  match fuel with
  | O => Fuel
  | S f => do r <- exec1_gen cfg s; let '(s', b) := r in if b then Ok s' else execute_gen cfg f s'
  end.
Definition execute := execute_gen cfg_now.

(* VM::Activation::getActivationVariables; the result is a std::map keyed by name *)
Fixpoint read_vars (d : list Z) (base : Z) (m : list (Z * str)) (acc : list (str * Z)) : result (list (str * Z)) :=
  match m with
  | [] => Ok acc
  | (r, name) :: rest =>
      do v <- rd d (base + r);
      read_vars d base rest (ainsert str_ltb acc name v)
  end.

Definition getActivationVariables (s : vm) (a : act) : result (list (str * Z)) :=
  do sm <- of_opt ub_index (znth (stack_maps (prog s)) (debug_info a));
  if seg_size a <=? 0 then Ok [] else read_vars (data s) (data_start a) (smap sm) [].

(* what a client sees through getActivations(): oldest activation first, with the routine name *)
Fixpoint views_of (s : vm) (l : list act) : result (list (str * list (str * Z))) :=
  match l with
  | [] => Ok []
  | a :: rest =>
      do sm <- of_opt ub_index (znth (stack_maps (prog s)) (debug_info a));
      do vars <- getActivationVariables s a;
      do more <- views_of s rest;
      Ok ((func_name sm, vars) :: more)
  end.
Definition views (s : vm) : result (list (str * list (str * Z))) := views_of s (rev (stack s)).

(* ---- API histories ---------------------------------------------------------------------- *)
Inductive api :=
| ASetBP (file : str) (line : Z) (value : bool)
| AClear
| AStepping (m : bool)
| AReset
| AExecute            (* execute(), under the history's fuel *)
| ASingle.            (* executeSingle() *)

(* the reply of a call, as far as it carries information: the bool of setBreakPoint / executeSingle *)
Definition api_step (fuel : nat) (s : vm) (c : api) : result (vm * bool) :=
  match c with
  | ASetBP f l v => setBreakPoint s f l v
  | AClear => do s' <- clearBreakpoints s; Ok (s', true)
  | AStepping m => Ok (setSteppingMode s m, true)
  | AReset => do s' <- reset s; Ok (s', true)
  | AExecute => do s' <- execute fuel s; Ok (s', true)
  | ASingle => exec1 s
  end.

Fixpoint run_hist (fuel : nat) (h : list api) (s : vm) : result vm :=
  match h with
  | [] => Ok s
  | c :: rest => do r <- api_step fuel s c; run_hist fuel rest (fst r)
  end.

(* n instructions by executeSingle, ignoring its reply *)
Fixpoint vm_run (n : nat) (s : vm) : result vm :=
  match n with
  | O => Ok s
  | S k => do r <- exec1 s; vm_run k (fst r)
  end.
