(* Proofs_C07d.v — C07, part 4: stops never lie in the hidden standard-macro file.
   (1) move_to never emits a site for hidden_file, so in every routine the flattener builds — for ANY tree,
       definitions and calls included — every RSite carries a file <> hidden_file;
   (2) every entry of the trace of a (checked) reference run comes from an executed RSite of some routine. *)
From Coq Require Import List ZArith NArith Lia Bool.
From Theo Require Import Base Tokens Errors MacroExtract Parser VMModel VMSpec GenModel Compile RefSem RefSemChk C01Statements C01Stages Gen_Consts Proofs_VM_mem Proofs_VM_dbg Proofs_Gen0 Proofs_Gen Proofs_Sem Proofs_C01a Proofs_C01b Proofs_C01 Proofs_C01s2a.
From Theo Require Import C07Statements.
Import ListNotations.
Local Open Scope Z_scope.

(* ================================================================================================ *)
(* 1. the flattener                                                                                 *)
(* ================================================================================================ *)
Definition nh_instr (i : rinstr) : Prop := match i with RSite l => fst l <> hidden_file | _ => True end.
Definition nhc (c : list rinstr) : Prop := Forall nh_instr c.
Definition nh (s : fstate) : Prop := Forall (fun r => nhc (r_code r)) (f_done s) /\ nhc (b_code (f_cur s)).

Lemma nhc_emit c i : nhc c -> nh_instr i -> nhc (c ++ [i]).
Proof. intros H Hi. apply Forall_app. split; [exact H | constructor; [exact Hi | constructor]]. Qed.

Lemma nh_cur s b : nh s -> nhc (b_code b) -> nh (with_cur s b).
Proof. intros [Ha Hb] H. split; cbn; auto. Qed.

Lemma nh_move_to s f l : nh s -> nh (move_to s f l).
Proof.
  intros G. unfold move_to. destruct (str_eqb f hidden_file) eqn:E; [exact G|]. destruct (_ && _); [exact G|].
  destruct G as [Ha Hb]. split; cbn [f_done f_cur]; [exact Ha|]. apply nhc_emit; [exact Hb|].
  cbn [nh_instr fst]. intros ->. rewrite str_eqb_refl in E. discriminate.
Qed.

Definition FVh (n : node) : Prop := forall s s' v, nh s -> flat_value n s = Some (s', v) -> nh s'.
Definition FAh (a : node) : Prop := forall acc acc', nh (fst acc) -> fargs a acc = Some acc' -> nh (fst acc').

Lemma fargs_nh m : (forall n, (nsize n < m)%nat -> FVh n) -> forall a, (nsize a < m)%nat -> FAh a.
Proof.
  intros IHm. induction a as [t line file tok al ar IHl IHr] using Proofs_Sem.node_ind'.
  intros Hsz acc acc' G H. rewrite fargs_eq in H.
  assert (Hleaf : match flat_value (Node t line file tok al ar) (fst acc) with
                  | Some (s', v) => Some (s', snd acc ++ [v])
                  | None => None
                  end = Some acc' -> nh (fst acc')).
  { clear H. intros H.
    destruct (flat_value (Node t line file tok al ar) (fst acc)) as [[s' v]|] eqn:E; [|discriminate].
    inversion H; subst acc'. cbn [fst]. exact (IHm _ Hsz _ _ _ G E). }
  destruct t; try (apply Hleaf; exact H).
  clear Hleaf. cbn [nsize] in Hsz.
  destruct (fargs_opt al acc) as [acc1|] eqn:E1; [|discriminate].
  assert (G1 : nh (fst acc1)).
  { destruct al as [x|]; cbn [fargs_opt] in E1.
    - eapply IHl; eauto. lia.
    - inversion E1; subst; auto. }
  destruct ar as [x|]; cbn [fargs_opt] in H.
  - eapply (IHr ltac:(lia)); eauto.
  - inversion H; subst; auto.
Qed.

Lemma flat_value_nh : forall n, FVh n.
Proof.
  assert (HH : forall m n, (nsize n < m)%nat -> FVh n).
  { induction m as [|m IHm]; [intros n Hn; lia|].
    intros [t line file tok l r] Hsz s s' v G H.
    pose proof (nh_move_to s file line G) as G0.
    destruct t;
      try (rewrite flat_value_other in H by (congruence || discriminate); discriminate H).
    - (* NAME *)
      rewrite flat_value_name in H. cbv zeta in H. inversion H; subst.
      apply nh_cur; auto. rewrite b_code_mention. apply G0.
    - (* NUMBER *)
      rewrite flat_value_number in H. cbv zeta in H.
      destruct (INT_MAX <=? strtol tok); [discriminate|]. inversion H; subst. exact G0.
    - (* CALL *)
      destruct l as [ln|]; [|rewrite flat_value_other in H by (congruence || discriminate); discriminate H].
      rewrite flat_value_call in H. cbv zeta in H.
      set (s0 := move_to s file line) in *.
      destruct (match r with None => Some (s0, []) | Some rn0 => fargs rn0 (s0, []) end)
        as [[s1 vs]|] eqn:E; [|discriminate].
      assert (G1 : nh s1).
      { destruct r as [rn0|].
        - assert (Hr' : (nsize rn0 < m)%nat) by (cbn [nsize] in Hsz; lia).
          exact (fargs_nh m IHm rn0 Hr' (s0, []) (s1, vs) G0 E).
        - inversion E; subst. auto. }
      assert (HR : forall s' v, resolve_call s1 (n_tok ln) vs = Some (s', v) -> nh s').
      { intros s2 v2 HRc. apply resolve_call_inv in HRc. destruct HRc as (-> & _). exact G1. }
      destruct (builtin_of r vs) as [[v1 c]|] eqn:EB; [|eapply HR; exact H].
      destruct (str_eqb (n_tok ln) _).
      { inversion H; subst. exact G1. }
      destruct (str_eqb (n_tok ln) _).
      { inversion H; subst. exact G1. }
      eapply HR; exact H. }
  intros n. apply (HH (S (nsize n))). lia.
Qed.

Lemma opt_value_nh o s s' v : nh s -> opt_value o s = Some (s', v) -> nh s'.
Proof. destruct o as [n|]; cbn [opt_value]; [apply flat_value_nh | discriminate]. Qed.

Definition SPh (n : node) : Prop := forall s s', nh s -> flat_stmt n s = Some s' -> nh s'.

Lemma fsub_nh o s s' : opt_all SPh o -> nh s -> fsub o s = Some s' -> nh s'.
Proof.
  destruct o as [x|]; cbn [opt_all fsub]; intros IH G H.
  - eapply IH; eauto.
  - inversion H; subst. auto.
Qed.

Lemma fs_split_nh l r s s' : opt_all SPh l -> opt_all SPh r -> nh s -> fs_split l r s = Some s' -> nh s'.
Proof.
  intros IHl IHr G H. unfold fs_split in H.
  destruct (fsub l s) as [s1|] eqn:E1; [|discriminate].
  eapply fsub_nh; [exact IHr | eapply fsub_nh; [exact IHl | exact G | exact E1] | exact H].
Qed.

Lemma fs_program_nh name ports body s s' : opt_all SPh body -> nh s -> fs_program name ports body s = Some s' -> nh s'.
Proof.
  intros IHb G H. unfold fs_program in H.
  set (outer := if last_is_site (f_cur s) then _ else f_cur s) in H.
  set (params := match ports with Some (Node _ _ _ _ (Some a) _) => param_names a | _ => [] end) in H.
  set (out := match ports with Some (Node _ _ _ _ _ (Some o)) => n_tok o | _ => [120; 48]%N end) in H.
  cbv zeta in H.
  destruct (negb (no_dup params)); [discriminate|].
  set (s1 := mkF _ _ _ _ _) in H.
  assert (G1 : nh s1).
  { destruct G as [Ga Gb]. split; [exact Ga|]. subst s1. bcode. constructor. }
  destruct (fsub body s1) as [s2|] eqn:E; [|discriminate].
  pose proof (fsub_nh _ _ _ IHb G1 E) as [G2a G2b].
  inversion H; subst s'. clear H.
  destruct G as [Ga Gb].
  split; cbn [f_done f_cur].
  - apply Forall_app. split; [exact G2a|]. constructor; [|constructor].
    cbn [finish_routine r_code]. bcode. apply nhc_emit; [exact G2b | exact I].
  - subst outer. destruct (last_is_site (f_cur s)); cbn [b_code]; auto. apply Forall_removelast; exact Gb.
Qed.

Lemma fs_assign_nh ln r s s' : nh s -> fs_assign ln r s = Some s' -> nh s'.
Proof.
  intros G H. unfold fs_assign in H. cbv zeta in H.
  destruct (opt_value r _) as [[s1 v]|] eqn:E; [|discriminate].
  apply opt_value_nh in E.
  2:{ apply nh_cur; auto. bcode. apply G. }
  inversion H; subst s'.
  apply nh_cur; auto. bcode. apply nhc_emit; [apply E | exact I].
Qed.

Lemma fs_loop_nh l r s s' : opt_all SPh r -> nh s -> fs_loop l r s = Some s' -> nh s'.
Proof.
  intros IHr G H. unfold fs_loop in H. cbv zeta in H.
  destruct (opt_value l _) as [[s1 v]|] eqn:E; [|discriminate].
  apply opt_value_nh in E; [|exact G].
  unfold new_target in H. cbv beta iota in H.
  match type of H with match fsub r ?x with _ => _ end = _ => set (s1' := x) in H end.
  assert (G1' : nh s1').
  { subst s1'. apply nh_cur; auto. bcode.
    apply nhc_emit; [|exact I]. apply nhc_emit; [apply E | exact I]. }
  destruct (fsub r s1') as [s2|] eqn:E2; [|discriminate].
  pose proof (fsub_nh _ _ _ IHr G1' E2) as G2.
  inversion H; subst s'.
  apply nh_cur; auto. bcode. apply nhc_emit; [apply G2 | exact I].
Qed.

Lemma fs_while_nh l r s s' : opt_all SPh r -> nh s -> fs_while l r s = Some s' -> nh s'.
Proof.
  intros IHr G H. unfold fs_while in H. unfold new_target in H. cbv beta iota zeta in H.
  destruct (opt_value l _) as [[s1 v]|] eqn:E; [|discriminate].
  apply opt_value_nh in E.
  2:{ apply nh_cur; auto. bcode. apply G. }
  match type of H with match fsub r ?x with _ => _ end = _ => set (s1' := x) in H end.
  assert (G1' : nh s1').
  { subst s1'. apply nh_cur; auto. bcode. apply nhc_emit; [apply E | exact I]. }
  destruct (fsub r s1') as [s2|] eqn:E2; [|discriminate].
  pose proof (fsub_nh _ _ _ IHr G1' E2) as G2.
  inversion H; subst s'.
  apply nh_cur; auto. bcode. apply nhc_emit; [apply G2 | exact I].
Qed.

Lemma fs_if_nh a b target s s' : nh s -> fs_if a b target s = Some s' -> nh s'.
Proof.
  intros G H. unfold fs_if in H.
  destruct (opt_value a s) as [[s1 va]|] eqn:E1; [|discriminate].
  apply opt_value_nh in E1; [|exact G].
  destruct (opt_value b s1) as [[s2 vb]|] eqn:E2; [|discriminate].
  apply opt_value_nh in E2; [|exact E1].
  inversion H; subst s'.
  apply nh_cur; auto. bcode. apply nhc_emit; [apply E2 | exact I].
Qed.

Lemma flat_stmt_nh : forall n, SPh n.
Proof.
  induction n as [t line file tok l r IHl IHr] using Proofs_Sem.node_ind'.
  intros s s' G H. rewrite flat_stmt_eq in H.
  pose proof (nh_move_to s file line G) as G0.
  set (s0 := move_to s file line) in *. clearbody s0. clear G.
  destruct t; cbn [fs_body] in H; try discriminate H.
  - exact (fs_split_nh _ _ _ _ IHl IHr G0 H).
  - destruct l as [ln|]; [|discriminate]. exact (fs_assign_nh _ _ _ _ G0 H).
  - exact (fs_loop_nh _ _ _ _ IHr G0 H).
  - exact (fs_while_nh _ _ _ _ IHr G0 H).
  - destruct l as [ln|]; [|discriminate]. inversion H; subst s'.
    apply nh_cur; auto. bcode. apply nhc_emit; [apply G0 | exact I].
  - destruct l as [[t1 l1 f1 k1 a b]|]; [|discriminate].
    destruct r as [[t2 l2 f2 k2 [target|] b2]|]; try discriminate.
    exact (fs_if_nh _ _ _ _ _ G0 H).
  - destruct l as [[t1 l1 f1 k1 [name|] ports]|]; try discriminate.
    exact (fs_program_nh _ _ _ _ _ IHr G0 H).
  - destruct l as [ln|]; [|discriminate]. inversion H; subst s'.
    apply nh_cur; auto. bcode. apply G0.
  - inversion H; subst s'.
    apply nh_cur; auto. bcode. apply nhc_emit; [apply G0 | exact I].
Qed.

Lemma abstract_source_nh root rs : abstract_source root = Some rs -> Forall (fun r => nhc (r_code r)) rs.
Proof.
  intros H. unfold abstract_source in H. cbv zeta in H.
  match type of H with context [match root with None => Some ?x | _ => _ end] => set (s0 := x) in H end.
  assert (G0 : nh s0) by (split; constructor).
  change (match root with None => Some s0 | Some n => flat_stmt n s0 end) with (fsub root s0) in H.
  destruct (fsub root s0) as [s|] eqn:E; [|discriminate].
  assert (IH : opt_all SPh root) by (destruct root; cbn; [apply flat_stmt_nh | exact I]).
  pose proof (fsub_nh _ _ _ IH G0 E) as [Ga Gb].
  destruct (forallb labels_set _); [|discriminate]. inversion H; subst rs. clear H.
  apply Forall_app. split; [exact Ga|]. constructor; [|constructor].
  cbn [finish_routine r_code]. bcode. apply nhc_emit; [exact Gb | exact I].
Qed.

(* ================================================================================================ *)
(* 2. the reference run                                                                             *)
(* ================================================================================================ *)
Definition gtr (tr : rtrace) : Prop := Forall (fun e => fst (fst e) <> hidden_file) tr.
Definition og (o : outcome) : Prop :=
  match o with ODone _ _ tr => gtr tr | OStop _ _ tr => gtr tr | _ => True end.
Definition eg (e : evres_c) : Prop :=
  match e with EValc _ _ tr => gtr tr | EStopc _ _ tr => gtr tr | _ => True end.
Definition ag (x : option (list Z * nat * rtrace) + evres_c) : Prop :=
  match x with inl (Some (_, _, tr)) => gtr tr | inl None => True | inr e => eg e end.
Definition rec_g (rec : rec_t) : Prop := forall ctx k a pc st tr, gtr tr -> og (rec ctx k a pc st tr).

Section RunG.
  Variable rs : list routine.
  Hypothesis Hrs : Forall (fun r => nhc (r_code r)) rs.
  Variable rec : rec_t.
  Hypothesis HR : rec_g rec.

  Lemma call_of_g here j x : ag x -> eg (call_of_c rs rec here j x).
  Proof.
    destruct x as [[[[vals st] tr]|]|e]; cbn [ag call_of_c]; intros H; try exact H; try exact I.
    destruct (nth_error rs j) as [callee|]; [|exact I].
    destruct (negb _); [exact I|]. cbv zeta.
    set (a' := mkRAct _ _). pose proof (HR here j a' 0 st tr H) as Hg.
    destruct (rec here j a' 0 st tr); cbn [og eg] in *; auto.
  Qed.

  Lemma evargs_g a here args :
    Forall (fun v => forall st tr, gtr tr -> eg (eval_c rs rec a here v st tr)) args ->
    forall acc st tr, gtr tr -> ag (evargs_of_c (eval_c rs rec a here) args acc st tr).
  Proof.
    induction 1 as [|x rest Hx Hrest IH]; intros acc st tr Htr; [exact Htr|].
    rewrite evargs_c_cons. specialize (Hx st tr Htr).
    destruct (eval_c rs rec a here x st tr) as [z st1 tr1|vs st1 tr1| |]; cbn [eg ag] in *; auto.
  Qed.

  Lemma eval_g a here : forall v st tr, gtr tr -> eg (eval_c rs rec a here v st tr).
  Proof.
    induction v as [y|c|y c IH|y c IH|j args IH] using rvalue_ind'; intros st tr Htr.
    - exact Htr.
    - exact Htr.
    - cbn [eval_c]. specialize (IH st tr Htr).
      destruct (eval_c rs rec a here y st tr) as [x st1 tr1|vs st1 tr1| |]; cbn [eg] in *; auto.
      destruct (INT_MAX <=? x + c); [exact I | exact IH].
    - cbn [eval_c]. specialize (IH st tr Htr).
      destruct (eval_c rs rec a here y st tr) as [x st1 tr1|vs st1 tr1| |]; cbn [eg] in *; auto.
    - rewrite eval_c_call. apply call_of_g. apply evargs_g; assumption.
  Qed.

  Lemma goto_of_g ctx k t a st tr : gtr tr -> og (goto_of rec ctx k t a st tr).
  Proof. intros H. unfold goto_of. destruct (t <? 0); [exact I | apply HR; exact H]. Qed.

  Lemma exec_instr_g r ctx k a pc st tr i : nh_instr i -> gtr tr -> og (exec_instr_c rs rec r ctx k a pc st tr i).
  Proof.
    intros Hi Htr. unfold exec_instr_c. cbv zeta. set (here := ctx ++ [view_of r a]).
    destruct i as [l|x v|id v|id ex|id back|v ex|target|l|x y l| |out|].
    - apply HR. apply Forall_app. split; [exact Htr|]. constructor; [exact Hi | constructor].
    - pose proof (eval_g a here v (S st) tr Htr) as Ev.
      destruct (eval_c rs rec a here v (S st) tr); cbn [eg og] in *; auto.
    - pose proof (eval_g a here v (S st) tr Htr) as Ev.
      destruct (eval_c rs rec a here v (S st) tr); cbn [eg og] in *; auto.
    - destruct (getc (ra_cnt a) id =? 0).
      + destruct (znth (r_targets r) ex); [apply goto_of_g; exact Htr | exact I].
      + apply HR; exact Htr.
    - destruct (znth (r_targets r) back); [apply goto_of_g; exact Htr | exact I].
    - pose proof (eval_g a here v (S st) tr Htr) as Ev.
      destruct (eval_c rs rec a here v (S st) tr) as [z st1 tr1|vs st1 tr1| |]; cbn [eg og] in *; auto.
      destruct (z =? 0).
      + destruct (znth (r_targets r) ex); [apply goto_of_g; exact Ev | exact I].
      + apply HR; exact Ev.
    - destruct (znth (r_targets r) target); [apply goto_of_g; exact Htr | exact I].
    - apply goto_of_g; exact Htr.
    - pose proof (eval_g a here x (S st) tr Htr) as Ex.
      destruct (eval_c rs rec a here x (S st) tr) as [zx st1 tr1|vs st1 tr1| |]; cbn [eg og] in *; auto.
      pose proof (eval_g a here y st1 tr1 Ex) as Ey.
      destruct (eval_c rs rec a here y st1 tr1) as [zy st2 tr2|vs st2 tr2| |]; cbn [eg og] in *; auto.
      destruct (zx =? zy); [apply goto_of_g; exact Ey | apply HR; exact Ey].
    - exact Htr.
    - exact Htr.
    - exact Htr.
  Qed.

  Lemma body_g ctx k a pc st tr : gtr tr -> og (body_c rs rec ctx k a pc st tr).
  Proof.
    intros Htr. unfold body_c. destruct (nth_error rs k) as [r|] eqn:Er; [|exact I].
    destruct (znth (r_code r) pc) as [i|] eqn:Ei; [|exact I].
    apply exec_instr_g; [|exact Htr].
    apply nth_error_In in Er. rewrite Forall_forall in Hrs. specialize (Hrs _ Er).
    unfold nhc in Hrs. rewrite Forall_forall in Hrs. apply Hrs. eapply Proofs_VM_mem.znth_In; exact Ei.
  Qed.
End RunG.

Lemma run_chk_g rs : Forall (fun r => nhc (r_code r)) rs -> forall fuel, rec_g (run_chk rs fuel).
Proof.
  intros Hrs. induction fuel as [|f IH]; intros ctx k a pc st tr Htr.
  - exact I.
  - rewrite run_chk_S. apply body_g; assumption.
Qed.

Lemma C07_no_hidden_stops_aux : C07_no_hidden_stops_stmt.
Proof.
  intros root rs fuel rviews steps trace l vs Habs Hrun Hin.
  pose proof (abstract_source_nh _ _ Habs) as Hrs.
  unfold run_ref_chk in Hrun. destruct (length rs) as [|k]; [discriminate|].
  pose proof (run_chk_g rs Hrs fuel [] k (mkRAct [] []) 0 0%nat [] ltac:(constructor)) as Hg.
  rewrite Hrun in Hg. cbn [og] in Hg. unfold gtr in Hg. rewrite Forall_forall in Hg.
  exact (Hg _ Hin).
Qed.
