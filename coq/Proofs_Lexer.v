From Coq Require Import List ZArith NArith Lia Bool.
From Theo Require Import Base Regex Tokens Lexer Errors Scan SpecLex Gen_Lexer LexStatements.
(* Proofs_Lexer.v — proofs of the C14 statements about regular expressions, maximal munch and lexing
   (LexStatements.v).  No axioms. *)
Import ListNotations.
Local Open Scope nat_scope.

(* ================================================================================================ *)
(* 1. Brzozowski matcher                                                                            *)
(* ================================================================================================ *)

Lemma M_Empty_inv : forall s, ~ Matches Empty s.
Proof. intros s H; inversion H. Qed.

Lemma M_Eps_inv : forall s, Matches Eps s <-> s = [].
Proof.
  intros s; split; intro H.
  - inversion H; reflexivity.
  - subst; constructor.
Qed.

Lemma M_Chr_inv : forall c s, Matches (Chr c) s <-> s = [c].
Proof.
  intros c s; split; intro H.
  - inversion H; reflexivity.
  - subst; constructor.
Qed.

Lemma M_Rng_inv : forall neg rs s,
  Matches (Rng neg rs) s <-> exists c, s = [c] /\ cmatch neg rs c = true.
Proof.
  intros neg rs s; split; intro H.
  - inversion H; subst. eexists; split; [reflexivity | assumption].
  - destruct H as [c [-> Hc]]. constructor; assumption.
Qed.

Lemma M_Cat_inv : forall a b s,
  Matches (Cat a b) s <-> exists s1 s2, s = s1 ++ s2 /\ Matches a s1 /\ Matches b s2.
Proof.
  intros a b s; split; intro H.
  - inversion H; subst. eexists; eexists; split; [reflexivity | split; assumption].
  - destruct H as [s1 [s2 [-> [H1 H2]]]]. constructor; assumption.
Qed.

Lemma M_Alt_inv : forall a b s, Matches (Alt a b) s <-> Matches a s \/ Matches b s.
Proof.
  intros a b s; split; intro H.
  - inversion H; subst; [left | right]; assumption.
  - destruct H as [H | H]; [apply M_AltL | apply M_AltR]; assumption.
Qed.

Lemma M_Star_cons_fwd : forall r w, Matches r w -> forall a c s, r = Star a -> w = c :: s ->
  exists s1 s2, s = s1 ++ s2 /\ Matches a (c :: s1) /\ Matches (Star a) s2.
Proof.
  intros r w H.
  induction H as [ | c1 | neg rs c1 Hc | a1 b1 s1 t1 H1 IH1 H2 IH2 | a1 b1 s1 H1 IH1
                 | a1 b1 s1 H1 IH1 | a1 | a1 s1 t1 H1 IH1 H2 IH2 ];
    intros a0 c0 s0 Er Ew; try discriminate.
  injection Er as Er; subst a1.
  destruct s1 as [| x s1'].
  - cbn [app] in Ew. eapply IH2; [reflexivity | exact Ew].
  - cbn [app] in Ew. injection Ew as Ex Es; subst x s0.
    exists s1', t1. split; [reflexivity | split; assumption].
Qed.

Lemma M_Star_cons : forall a c s,
  Matches (Star a) (c :: s) <->
  exists s1 s2, s = s1 ++ s2 /\ Matches a (c :: s1) /\ Matches (Star a) s2.
Proof.
  intros a c s; split; intro H.
  - eapply M_Star_cons_fwd; [exact H | reflexivity | reflexivity].
  - destruct H as [s1 [s2 [-> [H1 H2]]]].
    change (c :: s1 ++ s2) with ((c :: s1) ++ s2). apply M_StarS; assumption.
Qed.

(* smart constructors *)
Lemma Cat_Empty_l : forall b s, Matches (Cat Empty b) s <-> Matches Empty s.
Proof.
  intros b s; rewrite M_Cat_inv; split.
  - intros [s1 [s2 [_ [H _]]]]. destruct (M_Empty_inv _ H).
  - intro H; destruct (M_Empty_inv _ H).
Qed.
Lemma Cat_Empty_r : forall a s, Matches (Cat a Empty) s <-> Matches Empty s.
Proof.
  intros a s; rewrite M_Cat_inv; split.
  - intros [s1 [s2 [_ [_ H]]]]. destruct (M_Empty_inv _ H).
  - intro H; destruct (M_Empty_inv _ H).
Qed.
Lemma Cat_Eps_l : forall b s, Matches (Cat Eps b) s <-> Matches b s.
Proof.
  intros b s; rewrite M_Cat_inv; split.
  - intros [s1 [s2 [-> [H1 H2]]]]. apply M_Eps_inv in H1; subst s1. exact H2.
  - intro H. exists [], s. split; [reflexivity | split; [constructor | exact H]].
Qed.
Lemma Cat_Eps_r : forall a s, Matches (Cat a Eps) s <-> Matches a s.
Proof.
  intros a s; rewrite M_Cat_inv; split.
  - intros [s1 [s2 [-> [H1 H2]]]]. apply M_Eps_inv in H2; subst s2.
    rewrite app_nil_r. exact H1.
  - intro H. exists s, []. split; [symmetry; apply app_nil_r | split; [exact H | constructor]].
Qed.

Lemma cat_correct : forall a b s, Matches (cat a b) s <-> Matches (Cat a b) s.
Proof.
  intros a b s.
  destruct a; destruct b; cbn [cat];
    first [ reflexivity
          | symmetry; apply Cat_Empty_l
          | symmetry; apply Cat_Empty_r
          | symmetry; apply Cat_Eps_l
          | symmetry; apply Cat_Eps_r ].
Qed.

Lemma Alt_Empty_l : forall b s, Matches (Alt Empty b) s <-> Matches b s.
Proof.
  intros b s; rewrite M_Alt_inv; split.
  - intros [H | H]; [destruct (M_Empty_inv _ H) | exact H].
  - intro H; right; exact H.
Qed.
Lemma Alt_Empty_r : forall a s, Matches (Alt a Empty) s <-> Matches a s.
Proof.
  intros a s; rewrite M_Alt_inv; split.
  - intros [H | H]; [exact H | destruct (M_Empty_inv _ H)].
  - intro H; left; exact H.
Qed.

Lemma alt_correct : forall a b s, Matches (alt a b) s <-> Matches (Alt a b) s.
Proof.
  intros a b s.
  destruct a; destruct b; cbn [alt];
    first [ reflexivity
          | symmetry; apply Alt_Empty_l
          | symmetry; apply Alt_Empty_r ].
Qed.

Lemma nullable_correct : forall r, nullable r = true <-> Matches r [].
Proof.
  induction r as [ | | c | neg rs | a IHa b IHb | a IHa b IHb | a IHa ]; cbn [nullable].
  - split; [discriminate | intro H; destruct (M_Empty_inv _ H)].
  - split; [intros _; constructor | reflexivity].
  - split; [discriminate | intro H; apply M_Chr_inv in H; discriminate].
  - split; [discriminate | intro H; apply M_Rng_inv in H; destruct H as [c [H _]]; discriminate].
  - rewrite andb_true_iff, IHa, IHb, M_Cat_inv. split.
    + intros [Ha Hb]. exists [], []. split; [reflexivity | split; assumption].
    + intros [s1 [s2 [E [Ha Hb]]]]. symmetry in E. apply app_eq_nil in E. destruct E; subst.
      split; assumption.
  - rewrite orb_true_iff, IHa, IHb, M_Alt_inv. reflexivity.
  - split; [intros _; constructor | reflexivity].
Qed.

Lemma deriv_correct : forall r c s, Matches (deriv c r) s <-> Matches r (c :: s).
Proof.
  induction r as [ | | d | neg rs | a IHa b IHb | a IHa b IHb | a IHa ]; intros c s; cbn [deriv].
  - split; intro H; destruct (M_Empty_inv _ H).
  - split; intro H; [destruct (M_Empty_inv _ H) | apply M_Eps_inv in H; discriminate].
  - rewrite M_Chr_inv. destruct (N.eqb_spec c d) as [E | E].
    + subst d. rewrite M_Eps_inv. split; intro H; [subst; reflexivity | injection H as H; exact H].
    + split; intro H; [destruct (M_Empty_inv _ H) | injection H as H1 H2; contradiction].
  - rewrite M_Rng_inv. destruct (cmatch neg rs c) eqn:Ec.
    + rewrite M_Eps_inv. split.
      * intros ->. exists c. split; [reflexivity | exact Ec].
      * intros [c' [E _]]. injection E as _ E. exact E.
    + split; [intro H; destruct (M_Empty_inv _ H) |].
      intros [c' [E Hc]]. injection E as E1 E2. subst c'. rewrite Ec in Hc. discriminate.
  - (* Cat *)
    assert (Hcat : Matches (cat (deriv c a) b) s <->
                   exists s1 s2, s = s1 ++ s2 /\ Matches a (c :: s1) /\ Matches b s2).
    { rewrite cat_correct, M_Cat_inv. split.
      - intros [s1 [s2 [E [H1 H2]]]]. exists s1, s2. rewrite <- IHa. auto.
      - intros [s1 [s2 [E [H1 H2]]]]. exists s1, s2. rewrite IHa. auto. }
    rewrite (M_Cat_inv a b (c :: s)).
    destruct (nullable a) eqn:En.
    + rewrite alt_correct, M_Alt_inv, Hcat, IHb. split.
      * intros [[s1 [s2 [E [H1 H2]]]] | H].
        -- exists (c :: s1), s2. subst s. split; [reflexivity | split; assumption].
        -- exists [], (c :: s). split; [reflexivity | split; [apply nullable_correct; exact En | exact H]].
      * intros [s1 [s2 [E [H1 H2]]]]. destruct s1 as [| x s1'].
        -- cbn [app] in E. subst s2. right; exact H2.
        -- cbn [app] in E. injection E as Ex Es. subst x s. left. exists s1', s2. auto.
    + rewrite Hcat. split.
      * intros [s1 [s2 [E [H1 H2]]]].
        exists (c :: s1), s2. subst s. split; [reflexivity | split; assumption].
      * intros [s1 [s2 [E [H1 H2]]]]. destruct s1 as [| x s1'].
        -- apply nullable_correct in H1. rewrite En in H1. discriminate.
        -- cbn [app] in E. injection E as Ex Es. subst x s. exists s1', s2. auto.
  - rewrite alt_correct, !M_Alt_inv, IHa, IHb. reflexivity.
  - rewrite cat_correct, M_Cat_inv, M_Star_cons. split.
    + intros [s1 [s2 [E [H1 H2]]]]. exists s1, s2. rewrite <- IHa. auto.
    + intros [s1 [s2 [E [H1 H2]]]]. exists s1, s2. rewrite IHa. auto.
Qed.

Lemma matches_b_correct : forall s r, matches_b r s = true <-> Matches r s.
Proof.
  unfold matches_b.
  induction s as [| c t IH]; intro r; cbn [derivs].
  - apply nullable_correct.
  - rewrite IH. apply deriv_correct.
Qed.

Lemma C14_matcher_proof : C14_matcher_stmt.
Proof. intros r s. apply matches_b_correct. Qed.
(* ================================================================================================ *)
(* 2. maximal munch                                                                                 *)
(* ================================================================================================ *)

Definition MatchAt (rs : list regex) (w : list N) (j : nat) : Prop :=
  exists r, nth_error rs j = Some r /\ Matches r w.

Lemma MatchAt_deriv : forall rs c x j,
  MatchAt rs (c :: x) j <-> MatchAt (map (deriv c) rs) x j.
Proof.
  intros rs c x j; unfold MatchAt; split.
  - intros [r [Hn Hm]]. exists (deriv c r). split.
    + rewrite nth_error_map, Hn. reflexivity.
    + apply deriv_correct. exact Hm.
  - intros [r' [Hn Hm]]. rewrite nth_error_map in Hn.
    destruct (nth_error rs j) as [r |] eqn:En; [| discriminate].
    cbn [option_map] in Hn. injection Hn as Hn; subst r'.
    exists r. split; [reflexivity | apply deriv_correct; exact Hm].
Qed.

Definition NoneMatch (rs : list regex) (s : list N) : Prop :=
  forall m j, 0 < m <= length s -> ~ MatchAt rs (firstn m s) j.

Definition BestAt (rs : list regex) (s : list N) (m i : nat) : Prop :=
  0 < m <= length s /\
  MatchAt rs (firstn m s) i /\
  (forall j, j < i -> ~ MatchAt rs (firstn m s) j) /\
  (forall m' j, m < m' <= length s -> ~ MatchAt rs (firstn m' s) j).

Lemma first_nullable_some : forall rs k i, first_nullable rs k = Some i ->
  exists i', i = k + i' /\
    (exists r, nth_error rs i' = Some r /\ nullable r = true) /\
    (forall j r, j < i' -> nth_error rs j = Some r -> nullable r = false).
Proof.
  induction rs as [| r t IH]; intros k i H; cbn [first_nullable] in H.
  - discriminate.
  - destruct (nullable r) eqn:En.
    + injection H as H; subst i. exists 0. split; [lia |]. split.
      * exists r. split; [reflexivity | exact En].
      * intros j r' Hj; lia.
    + apply IH in H. destruct H as [i' [Ei [[r' [Hn Hr']] Hlt]]].
      exists (S i'). split; [lia |]. split.
      * exists r'. split; [exact Hn | exact Hr'].
      * intros j r'' Hj Hnj. destruct j as [| j'].
        -- cbn [nth_error] in Hnj. injection Hnj as Hnj; subst r''. exact En.
        -- cbn [nth_error] in Hnj. eapply Hlt; [| exact Hnj]. lia.
Qed.

Lemma first_nullable_none : forall rs k, first_nullable rs k = None ->
  forall j r, nth_error rs j = Some r -> nullable r = false.
Proof.
  induction rs as [| r t IH]; intros k H j r' Hn; cbn [first_nullable] in H.
  - destruct j; discriminate.
  - destruct (nullable r) eqn:En; [discriminate |].
    destruct j as [| j']; cbn [nth_error] in Hn.
    + injection Hn as Hn; subst r'. exact En.
    + eapply IH; [exact H | exact Hn].
Qed.

Lemma forallb_is_empty_nth : forall rs, forallb is_empty rs = true ->
  forall j r, nth_error rs j = Some r -> r = Empty.
Proof.
  intros rs H j r Hn. rewrite forallb_forall in H.
  apply nth_error_In in Hn. apply H in Hn. destruct r; try discriminate. reflexivity.
Qed.

Lemma munch_cons : forall rs c t n best,
  munch rs (c :: t) n best =
  if forallb is_empty (map (deriv c) rs) then best
  else munch (map (deriv c) rs) t (S n)
         (match first_nullable (map (deriv c) rs) 0 with Some i => Some (S n, i) | None => best end).
Proof. reflexivity. Qed.

Lemma munch_spec : forall s rs n best,
  (munch rs s n best = best /\ NoneMatch rs s) \/
  (exists m i, munch rs s n best = Some (n + m, i) /\ BestAt rs s m i).
Proof.
  induction s as [| c t IH]; intros rs n best.
  - left. split; [reflexivity |]. intros m j Hm. cbn [length] in Hm. lia.
  - rewrite munch_cons. set (rs' := map (deriv c) rs).
    assert (Hstep : forall m j, MatchAt rs (firstn (S m) (c :: t)) j <-> MatchAt rs' (firstn m t) j).
    { intros m j. cbn [firstn]. apply MatchAt_deriv. }
    destruct (forallb is_empty rs') eqn:Eall.
    + left. split; [reflexivity |].
      intros m j Hm HM. destruct m as [| m']; [lia |].
      apply Hstep in HM. destruct HM as [r [Hn Hr]].
      apply (forallb_is_empty_nth _ Eall) in Hn. subst r. exact (M_Empty_inv _ Hr).
    + destruct (first_nullable rs' 0) as [i0 |] eqn:Efn.
      * (* a match of length 1 *)
        apply first_nullable_some in Efn.
        destruct Efn as [i' [Ei [[r0 [Hn0 Hnull0]] Hlt0]]]. cbn [Nat.add] in Ei. subst i'.
        assert (B1 : MatchAt rs (firstn 1 (c :: t)) i0).
        { apply Hstep. exists r0. split; [exact Hn0 |]. cbn [firstn]. apply nullable_correct; exact Hnull0. }
        assert (B2 : forall j, j < i0 -> ~ MatchAt rs (firstn 1 (c :: t)) j).
        { intros j Hj HM. apply Hstep in HM. destruct HM as [r [Hn Hr]]. cbn [firstn] in Hr.
          apply nullable_correct in Hr. rewrite (Hlt0 j r Hj Hn) in Hr. discriminate. }
        destruct (IH rs' (S n) (Some (S n, i0))) as [[Hres Hnone] | [m [i [Hres Hbest]]]].
        -- right. exists 1, i0. split; [rewrite Hres; f_equal; f_equal; lia |].
           split; [cbn [length]; lia |]. split; [exact B1 |]. split; [exact B2 |].
           intros m' j Hm' HM. destruct m' as [| m'']; [lia |].
           apply Hstep in HM. apply (Hnone m'' j); [cbn [length] in Hm'; lia | exact HM].
        -- right. exists (S m), i. split; [rewrite Hres; f_equal; f_equal; lia |].
           destruct Hbest as [Hm [HMi [Hearlier Hlonger]]].
           split; [cbn [length]; lia |]. split; [apply Hstep; exact HMi |].
           split.
           ++ intros j Hj HM. apply Hstep in HM. exact (Hearlier j Hj HM).
           ++ intros m' j Hm' HM. destruct m' as [| m'']; [lia |].
              apply Hstep in HM. apply (Hlonger m'' j); [cbn [length] in Hm'; lia | exact HM].
      * (* no match of length 1 *)
        assert (B0 : forall j, ~ MatchAt rs (firstn 1 (c :: t)) j).
        { intros j HM. apply Hstep in HM. destruct HM as [r [Hn Hr]]. cbn [firstn] in Hr.
          apply nullable_correct in Hr. rewrite (first_nullable_none _ _ Efn j r Hn) in Hr. discriminate. }
        destruct (IH rs' (S n) best) as [[Hres Hnone] | [m [i [Hres Hbest]]]].
        -- left. split; [exact Hres |].
           intros m j Hm HM. destruct m as [| m']; [lia |].
           destruct m' as [| m''].
           ++ exact (B0 j HM).
           ++ apply Hstep in HM. apply (Hnone (S m'') j); [cbn [length] in Hm; lia | exact HM].
        -- right. exists (S m), i. split; [rewrite Hres; f_equal; f_equal; lia |].
           destruct Hbest as [Hm [HMi [Hearlier Hlonger]]].
           split; [cbn [length]; lia |]. split; [apply Hstep; exact HMi |].
           split.
           ++ intros j Hj HM. apply Hstep in HM. exact (Hearlier j Hj HM).
           ++ intros m' j Hm' HM. destruct m' as [| m'']; [lia |].
              apply Hstep in HM. apply (Hlonger m'' j); [cbn [length] in Hm'; lia | exact HM].
Qed.

Lemma nth_error_map_fst : forall (rules : list rule) j r,
  nth_error (map fst rules) j = Some r <-> exists a, nth_error rules j = Some (r, a).
Proof.
  intros rules j r. rewrite nth_error_map. unfold rule in *. split.
  - destruct (nth_error rules j) as [[r' a] |]; cbn [option_map fst]; [| intro; discriminate].
    intro H; injection H as H; subst r'. exists a; reflexivity.
  - intros [a Ha]. rewrite Ha. reflexivity.
Qed.

Lemma MatchAt_rules : forall (rules : list rule) w j,
  MatchAt (map fst rules) w j <-> exists r a, nth_error rules j = Some (r, a) /\ Matches r w.
Proof.
  intros rules w j; unfold MatchAt; split.
  - intros [r [Hn Hm]]. apply nth_error_map_fst in Hn. destruct Hn as [a Ha]. exists r, a. auto.
  - intros [r [a [Hn Hm]]]. exists r. split; [apply nth_error_map_fst; exists a; exact Hn | exact Hm].
Qed.

Lemma BestAt_MaxMunch : forall rules s m i, BestAt (map fst rules) s m i -> MaxMunch rules s m i.
Proof.
  intros rules s m i [Hm [HMi [Hearlier Hlonger]]].
  split; [exact Hm |]. split; [apply MatchAt_rules; exact HMi |]. split.
  - intros j r a len' Hn Hlen HM.
    destruct (le_lt_dec len' m) as [Hle | Hgt]; [exact Hle |].
    exfalso. apply (Hlonger len' j); [lia |]. apply MatchAt_rules. exists r, a. auto.
  - intros j r a Hj Hn HM. apply (Hearlier j Hj). apply MatchAt_rules. exists r, a. auto.
Qed.

Lemma NoneMatch_NoMatch : forall rules s, NoneMatch (map fst rules) s -> NoMatch rules s.
Proof.
  intros rules s H j r a len Hn Hlen HM. apply (H len j Hlen). apply MatchAt_rules. exists r, a. auto.
Qed.

Lemma max_munch_sound : forall rules s len i,
  max_munch rules s = Some (len, i) -> MaxMunch rules s len i.
Proof.
  intros rules s len i H. unfold max_munch in H.
  destruct (munch_spec s (map fst rules) 0 None) as [[Hres _] | [m [i' [Hres Hbest]]]].
  - rewrite Hres in H. discriminate.
  - rewrite Hres in H. cbn [Nat.add] in H. injection H as H1 H2. subst m i'.
    apply BestAt_MaxMunch. exact Hbest.
Qed.

Lemma max_munch_none : forall rules s, max_munch rules s = None -> NoMatch rules s.
Proof.
  intros rules s H. unfold max_munch in H.
  destruct (munch_spec s (map fst rules) 0 None) as [[_ Hnone] | [m [i' [Hres _]]]].
  - apply NoneMatch_NoMatch. exact Hnone.
  - rewrite Hres in H. discriminate.
Qed.

Lemma MaxMunch_unique : forall rules s len i len' i',
  MaxMunch rules s len i -> MaxMunch rules s len' i' -> len = len' /\ i = i'.
Proof.
  intros rules s len i len' i' [Hl [[r [a [Hn HM]]] [Hlong Hearly]]] [Hl' [[r' [a' [Hn' HM']]] [Hlong' Hearly']]].
  assert (E : len = len').
  { assert (len' <= len) by (eapply Hlong; [exact Hn' | lia | exact HM']).
    assert (len <= len') by (eapply Hlong'; [exact Hn | lia | exact HM]).
    lia. }
  subst len'. split; [reflexivity |].
  destruct (lt_eq_lt_dec i i') as [[Hlt | Heq] | Hgt].
  - exfalso. exact (Hearly' i r a Hlt Hn HM).
  - exact Heq.
  - exfalso. exact (Hearly i' r' a' Hgt Hn' HM').
Qed.

Lemma C14_maxmunch_proof : C14_maxmunch_stmt.
Proof.
  intros rules s. split; [| split].
  - intros len i. apply max_munch_sound.
  - apply max_munch_none.
  - intros len i len' i'. apply MaxMunch_unique.
Qed.

Lemma MaxMunch_max_munch : forall rules s len i,
  MaxMunch rules s len i -> max_munch rules s = Some (len, i).
Proof.
  intros rules s len i H.
  destruct (max_munch rules s) as [[len' i'] |] eqn:E.
  - apply max_munch_sound in E. destruct (MaxMunch_unique _ _ _ _ _ _ E H) as [-> ->]. reflexivity.
  - apply max_munch_none in E. exfalso.
    destruct H as [Hl [[r [a [Hn HM]]] _]]. exact (E i r a len Hn Hl HM).
Qed.
(* ================================================================================================ *)
(* 3. next_token / lex_all                                                                          *)
(* ================================================================================================ *)

Lemma next_token_O : forall rules s line, next_token 0 rules s line = None.
Proof. reflexivity. Qed.

Lemma next_token_nil : forall f rules line, next_token f rules [] line = None.
Proof. intros f rules line; destruct f; reflexivity. Qed.

Lemma next_token_cons : forall f rules c t line,
  next_token (S f) rules (c :: t) line =
  match max_munch rules (c :: t) with
  | None => next_token f rules t line
  | Some (len, i) =>
      match nth_error rules i with
      | Some (_, Some k) =>
          Some (k, firstn len (c :: t), (line + count_nl (firstn len (c :: t)))%Z, skipn len (c :: t))
      | _ => next_token f rules (skipn len (c :: t)) (line + count_nl (firstn len (c :: t)))%Z
      end
  end.
Proof. reflexivity. Qed.

Lemma lex_all_O : forall rules s line, lex_all 0 rules s line = [].
Proof. reflexivity. Qed.

Lemma lex_all_S : forall f rules s line,
  lex_all (S f) rules s line =
  match next_token (S (length s)) rules s line with
  | None => []
  | Some (k, text, line', rest) => (k, text, line') :: lex_all f rules rest line'
  end.
Proof. reflexivity. Qed.

Lemma max_munch_bounds : forall rules s len i,
  max_munch rules s = Some (len, i) -> 0 < len <= length s.
Proof. intros rules s len i H. apply max_munch_sound in H. destruct H as [H _]. exact H. Qed.

Lemma skipn_shorter : forall (A : Type) len (s : list A), 0 < len <= length s -> length (skipn len s) < length s.
Proof. intros A len s H. rewrite skipn_length. lia. Qed.

(* the remaining input is strictly shorter after every token *)
Lemma next_token_rest_lt : forall f rules s line k text line' rest,
  next_token f rules s line = Some (k, text, line', rest) -> length rest < length s.
Proof.
  induction f as [| f IH]; intros rules s line k text line' rest H.
  - discriminate.
  - destruct s as [| c t]; [discriminate |].
    rewrite next_token_cons in H.
    destruct (max_munch rules (c :: t)) as [[len i] |] eqn:Emm.
    + pose proof (skipn_shorter _ _ _ (max_munch_bounds _ _ _ _ Emm)) as Hlt.
      destruct (nth_error rules i) as [[r [k0 |]] |].
      * injection H as _ _ _ H. subst rest. exact Hlt.
      * apply IH in H. lia.
      * apply IH in H. lia.
    + apply IH in H. cbn [length]. lia.
Qed.

(* the kind of a token is the action of some rule *)
Lemma next_token_kind : forall f rules s line k text line' rest,
  next_token f rules s line = Some (k, text, line', rest) -> exists r, In (r, Some k) rules.
Proof.
  induction f as [| f IH]; intros rules s line k text line' rest H.
  - discriminate.
  - destruct s as [| c t]; [discriminate |].
    rewrite next_token_cons in H.
    destruct (max_munch rules (c :: t)) as [[len i] |] eqn:Emm.
    + destruct (nth_error rules i) as [[r [k0 |]] |] eqn:En.
      * injection H as H _ _ _. subst k0. exists r. eapply nth_error_In; exact En.
      * eapply IH; exact H.
      * eapply IH; exact H.
    + eapply IH; exact H.
Qed.

(* any fuel above the length of the input gives the same answer *)
Lemma next_token_fuel : forall f1 f2 rules s line,
  length s < f1 -> length s < f2 -> next_token f1 rules s line = next_token f2 rules s line.
Proof.
  induction f1 as [| f1 IH]; intros f2 rules s line H1 H2; [lia |].
  destruct f2 as [| f2]; [lia |].
  destruct s as [| c t]; [reflexivity |].
  rewrite !next_token_cons.
  destruct (max_munch rules (c :: t)) as [[len i] |] eqn:Emm.
  - pose proof (skipn_shorter _ _ _ (max_munch_bounds _ _ _ _ Emm)) as Hlt.
    destruct (nth_error rules i) as [[r [k0 |]] |]; [reflexivity | |]; apply IH; lia.
  - apply IH; cbn [length] in *; lia.
Qed.

Lemma catch_all_some : forall rules c t, catch_all rules -> max_munch rules (c :: t) <> None.
Proof.
  intros rules c t Hca E. apply max_munch_none in E.
  destruct (Hca c) as [j [r [a [Hn HM]]]].
  apply (E j r a 1 Hn); [cbn [length]; lia | exact HM].
Qed.

Lemma next_token_tok : forall rules, catch_all rules -> forall f s line, length s < f ->
  match next_token f rules s line with
  | None => Tokenisation rules s line []
  | Some (k, text, line', rest) =>
      forall out, Tokenisation rules rest line' out -> Tokenisation rules s line ((k, text, line') :: out)
  end.
Proof.
  intros rules Hca. induction f as [| f IH]; intros s line Hf; [lia |].
  destruct s as [| c t].
  - rewrite next_token_nil. constructor.
  - rewrite next_token_cons.
    destruct (max_munch rules (c :: t)) as [[len i] |] eqn:Emm.
    + pose proof (max_munch_sound _ _ _ _ Emm) as HMM.
      pose proof (skipn_shorter _ _ _ (max_munch_bounds _ _ _ _ Emm)) as Hlt.
      assert (Hne : c :: t <> []) by discriminate.
      destruct (nth_error rules i) as [[r [k0 |]] |] eqn:En.
      * intros out Hout. eapply Tok_emit; eauto.
      * specialize (IH (skipn len (c :: t)) (line + count_nl (firstn len (c :: t)))%Z).
        assert (Hf' : length (skipn len (c :: t)) < f) by lia.
        specialize (IH Hf').
        destruct (next_token f rules (skipn len (c :: t)) (line + count_nl (firstn len (c :: t)))%Z)
          as [[[[k1 text1] line1] rest1] |].
        -- intros out Hout. eapply Tok_skip; eauto.
        -- eapply Tok_skip; eauto.
      * exfalso. destruct HMM as [_ [[r [a [Hn _]]] _]]. rewrite En in Hn. discriminate.
    + exfalso. exact (catch_all_some _ _ _ Hca Emm).
Qed.

Lemma lex_all_tok : forall rules, catch_all rules -> forall f s line, length s < f ->
  Tokenisation rules s line (lex_all f rules s line).
Proof.
  intros rules Hca. induction f as [| f IH]; intros s line Hf; [lia |].
  rewrite lex_all_S.
  pose proof (next_token_tok rules Hca (S (length s)) s line (Nat.lt_succ_diag_r _)) as Hnt.
  destruct (next_token (S (length s)) rules s line) as [[[[k text] line'] rest] |] eqn:E.
  - apply Hnt. apply IH. apply next_token_rest_lt in E. lia.
  - exact Hnt.
Qed.

Lemma lex_all_unique : forall rules s line out, Tokenisation rules s line out ->
  forall f, length s < f -> out = lex_all f rules s line.
Proof.
  intros rules s line out H.
  induction H as [ line | s line len i r out Hne HMM Hn HT IH | s line len i r k out Hne HMM Hn HT IH ];
    intros f Hf.
  - destruct f; [lia |]. rewrite lex_all_S, next_token_nil. reflexivity.
  - destruct f as [| f]; [lia |].
    destruct s as [| c t]; [contradiction |].
    pose proof (MaxMunch_max_munch _ _ _ _ HMM) as Emm.
    pose proof (skipn_shorter _ _ _ (max_munch_bounds _ _ _ _ Emm)) as Hlt.
    rewrite (IH (S f)) by lia.
    rewrite !lex_all_S. rewrite next_token_cons, Emm, Hn.
    rewrite (next_token_fuel (length (c :: t)) (S (length (skipn len (c :: t))))) by lia.
    reflexivity.
  - destruct f as [| f]; [lia |].
    destruct s as [| c t]; [contradiction |].
    pose proof (MaxMunch_max_munch _ _ _ _ HMM) as Emm.
    pose proof (skipn_shorter _ _ _ (max_munch_bounds _ _ _ _ Emm)) as Hlt.
    rewrite lex_all_S. rewrite next_token_cons, Emm, Hn.
    rewrite <- (IH f) by lia. reflexivity.
Qed.

Lemma C14_lex_proof : C14_lex_stmt.
Proof.
  intros rules s Hca. unfold lex. split.
  - apply lex_all_tok; [exact Hca | lia].
  - intros out H. apply lex_all_unique; [exact H | lia].
Qed.
(* ================================================================================================ *)
(* 4. meaning of rules_agree                                                                        *)
(* ================================================================================================ *)

Lemma str_eqb_eq : forall a b, str_eqb a b = true <-> a = b.
Proof.
  induction a as [| x a IH]; destruct b as [| y b]; cbn [str_eqb]; split; intro H;
    try reflexivity; try discriminate.
  - apply andb_true_iff in H. destruct H as [H1 H2]. apply N.eqb_eq in H1. apply IH in H2.
    subst; reflexivity.
  - injection H as H1 H2. subst y b. rewrite N.eqb_refl. cbn [andb]. apply IH. reflexivity.
Qed.

Lemma pairs_eqb_eq : forall (rs rs' : list (N * N)), length rs = length rs' ->
  forallb (fun p => N.eqb (fst (fst p)) (fst (snd p)) && N.eqb (snd (fst p)) (snd (snd p)))
          (combine rs rs') = true -> rs = rs'.
Proof.
  induction rs as [| [a b] rs IH]; destruct rs' as [| [a' b'] rs']; intros Hl H;
    cbn [length] in Hl; try discriminate; [reflexivity |].
  cbn [combine forallb fst snd] in H. apply andb_true_iff in H. destruct H as [H1 H2].
  apply andb_true_iff in H1. destruct H1 as [Ha Hb]. apply N.eqb_eq in Ha. apply N.eqb_eq in Hb.
  subst a' b'. f_equal. apply IH; [lia | exact H2].
Qed.

Lemma regex_eqb_eq : forall a b, regex_eqb a b = true -> a = b.
Proof.
  induction a as [ | | c | neg rs | a1 IH1 a2 IH2 | a1 IH1 a2 IH2 | a1 IH1 ]; intros b H;
    destruct b as [ | | d | neg' rs' | b1 b2 | b1 b2 | b1 ]; cbn [regex_eqb] in H; try discriminate.
  - reflexivity.
  - reflexivity.
  - apply N.eqb_eq in H. subst; reflexivity.
  - apply andb_true_iff in H. destruct H as [H H3]. apply andb_true_iff in H. destruct H as [H1 H2].
    apply eqb_prop in H1. apply Nat.eqb_eq in H2. subst neg'. f_equal. apply pairs_eqb_eq; assumption.
  - apply andb_true_iff in H. destruct H as [H1 H2]. f_equal; [apply IH1 | apply IH2]; assumption.
  - apply andb_true_iff in H. destruct H as [H1 H2]. f_equal; [apply IH1 | apply IH2]; assumption.
  - f_equal. apply IH1; assumption.
Qed.

Lemma lang_correct : forall r, star_free r = true -> forall w, Matches r w <-> In w (lang r).
Proof.
  induction r as [ | | c | neg rs | a IHa b IHb | a IHa b IHb | a IHa ]; intros Hsf w;
    cbn [star_free] in Hsf; cbn [lang]; try discriminate.
  - split; [intro H; destruct (M_Empty_inv _ H) | intros []].
  - rewrite M_Eps_inv. cbn [In]. split; [intros ->; left; reflexivity | intros [H | []]; symmetry; exact H].
  - rewrite M_Chr_inv. cbn [In]. split; [intros ->; left; reflexivity | intros [H | []]; symmetry; exact H].
  - apply andb_true_iff in Hsf. destruct Hsf as [Ha Hb].
    rewrite M_Cat_inv, in_flat_map. split.
    + intros [s1 [s2 [E [H1 H2]]]]. exists s1. split; [apply (IHa Ha); exact H1 |].
      apply in_map_iff. exists s2. split; [symmetry; exact E | apply (IHb Hb); exact H2].
    + intros [s1 [H1 H2]]. apply in_map_iff in H2. destruct H2 as [s2 [E H2]].
      exists s1, s2. split; [symmetry; exact E |]. split; [apply (IHa Ha) | apply (IHb Hb)]; assumption.
  - apply andb_true_iff in Hsf. destruct Hsf as [Ha Hb].
    rewrite M_Alt_inv, in_app_iff, (IHa Ha), (IHb Hb). reflexivity.
Qed.

Lemma word_in_iff : forall w l, word_in w l = true <-> In w l.
Proof.
  intros w l. unfold word_in. rewrite existsb_exists. split.
  - intros [x [Hx E]]. apply str_eqb_eq in E. subst. exact Hx.
  - intro H. exists w. split; [exact H | apply str_eqb_eq; reflexivity].
Qed.

Lemma same_words_iff : forall l1 l2, same_words l1 l2 = true -> forall w, In w l1 <-> In w l2.
Proof.
  intros l1 l2 H w. unfold same_words in H. apply andb_true_iff in H. destruct H as [H1 H2].
  rewrite forallb_forall in H1. rewrite forallb_forall in H2.
  split; intro Hw; [apply H1 in Hw | apply H2 in Hw]; apply word_in_iff in Hw; exact Hw.
Qed.

Definition tk_of_num (n : N) : tkind := nth (N.to_nat n) all_tkinds T_EOF.
Lemma tk_of_num_num : forall k, tk_of_num (tk_num k) = k.
Proof. destruct k; reflexivity. Qed.

Lemma tk_eqb_eq : forall x y, tk_eqb x y = true -> x = y.
Proof.
  intros x y H. unfold tk_eqb in H. apply N.eqb_eq in H.
  rewrite <- (tk_of_num_num x), <- (tk_of_num_num y), H. reflexivity.
Qed.
Lemma tk_eqb_refl : forall x, tk_eqb x x = true.
Proof. intro x. unfold tk_eqb. apply N.eqb_refl. Qed.

Lemma action_eqb_eq : forall a b, action_eqb a b = true -> a = b.
Proof.
  intros [x |] [y |] H; cbn [action_eqb] in H; try discriminate; [| reflexivity].
  f_equal. apply tk_eqb_eq. exact H.
Qed.
Lemma action_eqb_refl : forall a, action_eqb a a = true.
Proof. intros [x |]; cbn [action_eqb]; [apply tk_eqb_refl | reflexivity]. Qed.

Lemma rule_agree_sound : forall x y : rule, rule_agree x y = true ->
  snd x = snd y /\ forall w, Matches (fst x) w <-> Matches (fst y) w.
Proof.
  intros x y H. unfold rule_agree in H. apply andb_true_iff in H. destruct H as [Ha Hr].
  split; [apply action_eqb_eq; exact Ha |].
  apply orb_true_iff in Hr. destruct Hr as [Hr | Hr].
  - apply regex_eqb_eq in Hr. rewrite Hr. reflexivity.
  - apply andb_true_iff in Hr. destruct Hr as [Hr Hw]. apply andb_true_iff in Hr. destruct Hr as [Hx Hy].
    intro w. rewrite (lang_correct _ Hx), (lang_correct _ Hy). apply same_words_iff. exact Hw.
Qed.

Definition rules_equiv (l1 l2 : list rule) : Prop :=
  length l1 = length l2 /\
  forall i r1 a1 r2 a2, nth_error l1 i = Some (r1, a1) -> nth_error l2 i = Some (r2, a2) ->
    a1 = a2 /\ forall w, Matches r1 w <-> Matches r2 w.

Lemma rules_agree_equiv : forall l1 l2, rules_agree l1 l2 = true -> rules_equiv l1 l2.
Proof.
  induction l1 as [| x t1 IH]; destruct l2 as [| y t2]; intro H; cbn [rules_agree] in H; try discriminate.
  - split; [reflexivity |]. intros i r1 a1 r2 a2 H1. destruct i; discriminate.
  - apply andb_true_iff in H. destruct H as [Hxy Ht]. apply IH in Ht. destruct Ht as [Hl Hn].
    apply rule_agree_sound in Hxy. destruct Hxy as [Ha Hm].
    split; [cbn [length]; lia |].
    intros i r1 a1 r2 a2 H1 H2. destruct i as [| i'].
    + cbn [nth_error] in H1, H2. injection H1 as H1; injection H2 as H2. subst x y.
      cbn [fst snd] in *. split; assumption.
    + cbn [nth_error] in H1, H2. eapply Hn; eassumption.
Qed.

Lemma rules_equiv_sym : forall l1 l2, rules_equiv l1 l2 -> rules_equiv l2 l1.
Proof.
  intros l1 l2 [Hl Hn]. split; [symmetry; exact Hl |].
  intros i r1 a1 r2 a2 H1 H2. destruct (Hn i r2 a2 r1 a1 H2 H1) as [Ha Hm].
  split; [symmetry; exact Ha | intro w; symmetry; apply Hm].
Qed.

Lemma rules_equiv_nth : forall l1 l2 i r1 a, rules_equiv l1 l2 -> nth_error l1 i = Some (r1, a) ->
  exists r2, nth_error l2 i = Some (r2, a) /\ forall w, Matches r1 w <-> Matches r2 w.
Proof.
  intros l1 l2 i r1 a [Hl Hn] H1.
  destruct (nth_error l2 i) as [[r2 a2] |] eqn:E2.
  - destruct (Hn i r1 a r2 a2 H1 E2) as [Ha Hm]. subst a2. exists r2. split; [reflexivity | exact Hm].
  - exfalso. apply nth_error_None in E2.
    assert (Hlt : i < length l1) by (apply nth_error_Some; rewrite H1; discriminate). lia.
Qed.

Lemma rules_equiv_nth_none : forall l1 l2 i, rules_equiv l1 l2 -> nth_error l1 i = None -> nth_error l2 i = None.
Proof.
  intros l1 l2 i [Hl _] H. apply nth_error_None. apply nth_error_None in H. lia.
Qed.

Lemma MaxMunch_equiv : forall l1 l2 s len i, rules_equiv l1 l2 -> MaxMunch l1 s len i -> MaxMunch l2 s len i.
Proof.
  intros l1 l2 s len i Heq [Hl [[r [a [Hn HM]]] [Hlong Hearly]]].
  pose proof (rules_equiv_sym _ _ Heq) as Hqe.
  split; [exact Hl |]. split; [| split].
  - destruct (rules_equiv_nth _ _ _ _ _ Heq Hn) as [r2 [Hn2 Hm2]].
    exists r2, a. split; [exact Hn2 | apply Hm2; exact HM].
  - intros j r2 a2 len' Hn2 Hlen' HM2.
    destruct (rules_equiv_nth _ _ _ _ _ Hqe Hn2) as [r1 [Hn1 Hm1]].
    eapply Hlong; [exact Hn1 | exact Hlen' | apply Hm1; exact HM2].
  - intros j r2 a2 Hj Hn2 HM2.
    destruct (rules_equiv_nth _ _ _ _ _ Hqe Hn2) as [r1 [Hn1 Hm1]].
    eapply Hearly; [exact Hj | exact Hn1 | apply Hm1; exact HM2].
Qed.

Lemma NoMatch_equiv : forall l1 l2 s, rules_equiv l1 l2 -> NoMatch l1 s -> NoMatch l2 s.
Proof.
  intros l1 l2 s Heq H j r2 a2 len Hn2 Hlen HM2.
  destruct (rules_equiv_nth _ _ _ _ _ (rules_equiv_sym _ _ Heq) Hn2) as [r1 [Hn1 Hm1]].
  eapply H; [exact Hn1 | exact Hlen | apply Hm1; exact HM2].
Qed.

Lemma max_munch_equiv : forall l1 l2 s, rules_equiv l1 l2 -> max_munch l1 s = max_munch l2 s.
Proof.
  intros l1 l2 s Heq.
  destruct (max_munch l1 s) as [[len i] |] eqn:E1.
  - apply max_munch_sound in E1. apply (MaxMunch_equiv _ _ _ _ _ Heq) in E1.
    symmetry. apply MaxMunch_max_munch. exact E1.
  - apply max_munch_none in E1. apply (NoMatch_equiv _ _ _ Heq) in E1.
    destruct (max_munch l2 s) as [[len i] |] eqn:E2; [| reflexivity].
    exfalso. apply max_munch_sound in E2. destruct E2 as [Hl [[r [a [Hn HM]]] _]].
    exact (E1 i r a len Hn Hl HM).
Qed.

Lemma next_token_equiv : forall l1 l2, rules_equiv l1 l2 -> forall f s line,
  next_token f l1 s line = next_token f l2 s line.
Proof.
  intros l1 l2 Heq. induction f as [| f IH]; intros s line; [reflexivity |].
  destruct s as [| c t]; [reflexivity |].
  rewrite !next_token_cons. rewrite <- (max_munch_equiv _ _ (c :: t) Heq).
  destruct (max_munch l1 (c :: t)) as [[len i] |]; [| apply IH].
  destruct (nth_error l1 i) as [[r1 a1] |] eqn:E1.
  - destruct (rules_equiv_nth _ _ _ _ _ Heq E1) as [r2 [E2 _]]. rewrite E2.
    destruct a1 as [k |]; [reflexivity | apply IH].
  - rewrite (rules_equiv_nth_none _ _ _ Heq E1). apply IH.
Qed.

Lemma lex_all_equiv : forall l1 l2, rules_equiv l1 l2 -> forall f s line,
  lex_all f l1 s line = lex_all f l2 s line.
Proof.
  intros l1 l2 Heq. induction f as [| f IH]; intros s line; [reflexivity |].
  rewrite !lex_all_S. rewrite <- (next_token_equiv _ _ Heq).
  destruct (next_token (S (length s)) l1 s line) as [[[[k text] line'] rest] |]; [| reflexivity].
  f_equal. apply IH.
Qed.

Lemma C14_rules_agree_meaning_proof : C14_rules_agree_meaning_stmt.
Proof.
  intros l1 l2 H. pose proof (rules_agree_equiv _ _ H) as Heq.
  split; [exact (proj1 Heq) |]. split.
  - intros i r1 a1 r2 a2 H1 H2. destruct (proj2 Heq i r1 a1 r2 a2 H1 H2) as [Ha Hm].
    split; [exact Hm | subst a2; apply action_eqb_refl].
  - intro s. unfold lex. apply lex_all_equiv. exact Heq.
Qed.


Print Assumptions C14_matcher_proof.
Print Assumptions C14_maxmunch_proof.
Print Assumptions C14_lex_proof.
Print Assumptions C14_rules_agree_meaning_proof.
