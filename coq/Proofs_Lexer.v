(* Proofs_Lexer.v — proofs of the C14 statements about regular expressions, maximal munch and lexing
   (LexStatements.v).  No axioms. *)
From Coq Require Import List ZArith NArith Lia Bool.
From Theo Require Import Base Regex Tokens Lexer Errors Scan SpecLex Gen_Lexer LexStatements.
Import ListNotations.
Local Open Scope nat_scope.

(* ================================================================================================ *)
(* 1. Brzozowski matcher                                                                            *)
(* ================================================================================================ *)

Lemma M_Empty_inv : forall s, ~ Matches Empty s.
Proof. intros s H; inversion H. Qed.

Lemma M_Eps_inv : forall s, Matches Eps s <-> s = [].
Proof.
  intros s; split; intro H.
  - inversion H; reflexivity.
  - subst; constructor.
Qed.

Lemma M_Chr_inv : forall c s, Matches (Chr c) s <-> s = [c].
Proof.
  intros c s; split; intro H.
  - inversion H; reflexivity.
  - subst; constructor.
Qed.

Lemma M_Rng_inv : forall neg rs s,
  Matches (Rng neg rs) s <-> exists c, s = [c] /\ cmatch neg rs c = true.
Proof.
  intros neg rs s; split; intro H.
  - inversion H; subst. eexists; split; [reflexivity | assumption].
  - destruct H as [c [-> Hc]]. constructor; assumption.
Qed.

Lemma M_Cat_inv : forall a b s,
  Matches (Cat a b) s <-> exists s1 s2, s = s1 ++ s2 /\ Matches a s1 /\ Matches b s2.
Proof.
  intros a b s; split; intro H.
  - inversion H; subst. eexists; eexists; split; [reflexivity | split; assumption].
  - destruct H as [s1 [s2 [-> [H1 H2]]]]. constructor; assumption.
Qed.

Lemma M_Alt_inv : forall a b s, Matches (Alt a b) s <-> Matches a s \/ Matches b s.
Proof.
  intros a b s; split; intro H.
  - inversion H; subst; [left | right]; assumption.
  - destruct H as [H | H]; [apply M_AltL | apply M_AltR]; assumption.
Qed.

Lemma M_Star_cons_fwd : forall r w, Matches r w -> forall a c s, r = Star a -> w = c :: s ->
  exists s1 s2, s = s1 ++ s2 /\ Matches a (c :: s1) /\ Matches (Star a) s2.
Proof.
  intros r w H.
  induction H as [ | c1 | neg rs c1 Hc | a1 b1 s1 t1 H1 IH1 H2 IH2 | a1 b1 s1 H1 IH1
                 | a1 b1 s1 H1 IH1 | a1 | a1 s1 t1 H1 IH1 H2 IH2 ];
    intros a0 c0 s0 Er Ew; try discriminate.
  injection Er as Er; subst a1.
  destruct s1 as [| x s1'].
  - cbn [app] in Ew. eapply IH2; [reflexivity | exact Ew].
  - cbn [app] in Ew. injection Ew as Ex Es; subst x s0.
    exists s1', t1. split; [reflexivity | split; assumption].
Qed.

Lemma M_Star_cons : forall a c s,
  Matches (Star a) (c :: s) <->
  exists s1 s2, s = s1 ++ s2 /\ Matches a (c :: s1) /\ Matches (Star a) s2.
Proof.
  intros a c s; split; intro H.
  - eapply M_Star_cons_fwd; [exact H | reflexivity | reflexivity].
  - destruct H as [s1 [s2 [-> [H1 H2]]]].
    change (c :: s1 ++ s2) with ((c :: s1) ++ s2). apply M_StarS; assumption.
Qed.

(* smart constructors *)
Lemma Cat_Empty_l : forall b s, Matches (Cat Empty b) s <-> Matches Empty s.
Proof.
  intros b s; rewrite M_Cat_inv; split.
  - intros [s1 [s2 [_ [H _]]]]. destruct (M_Empty_inv _ H).
  - intro H; destruct (M_Empty_inv _ H).
Qed.
Lemma Cat_Empty_r : forall a s, Matches (Cat a Empty) s <-> Matches Empty s.
Proof.
  intros a s; rewrite M_Cat_inv; split.
  - intros [s1 [s2 [_ [_ H]]]]. destruct (M_Empty_inv _ H).
  - intro H; destruct (M_Empty_inv _ H).
Qed.
Lemma Cat_Eps_l : forall b s, Matches (Cat Eps b) s <-> Matches b s.
Proof.
  intros b s; rewrite M_Cat_inv; split.
  - intros [s1 [s2 [-> [H1 H2]]]]. apply M_Eps_inv in H1; subst s1. exact H2.
  - intro H. exists [], s. split; [reflexivity | split; [constructor | exact H]].
Qed.
Lemma Cat_Eps_r : forall a s, Matches (Cat a Eps) s <-> Matches a s.
Proof.
  intros a s; rewrite M_Cat_inv; split.
  - intros [s1 [s2 [-> [H1 H2]]]]. apply M_Eps_inv in H2; subst s2.
    rewrite app_nil_r. exact H1.
  - intro H. exists s, []. split; [symmetry; apply app_nil_r | split; [exact H | constructor]].
Qed.

Lemma cat_correct : forall a b s, Matches (cat a b) s <-> Matches (Cat a b) s.
Proof.
  intros a b s.
  destruct a; destruct b; cbn [cat];
    first [ reflexivity
          | symmetry; apply Cat_Empty_l
          | symmetry; apply Cat_Empty_r
          | symmetry; apply Cat_Eps_l
          | symmetry; apply Cat_Eps_r ].
Qed.

Lemma Alt_Empty_l : forall b s, Matches (Alt Empty b) s <-> Matches b s.
Proof.
  intros b s; rewrite M_Alt_inv; split.
  - intros [H | H]; [destruct (M_Empty_inv _ H) | exact H].
  - intro H; right; exact H.
Qed.
Lemma Alt_Empty_r : forall a s, Matches (Alt a Empty) s <-> Matches a s.
Proof.
  intros a s; rewrite M_Alt_inv; split.
  - intros [H | H]; [exact H | destruct (M_Empty_inv _ H)].
  - intro H; left; exact H.
Qed.

Lemma alt_correct : forall a b s, Matches (alt a b) s <-> Matches (Alt a b) s.
Proof.
  intros a b s.
  destruct a; destruct b; cbn [alt];
    first [ reflexivity
          | symmetry; apply Alt_Empty_l
          | symmetry; apply Alt_Empty_r ].
Qed.

Lemma nullable_correct : forall r, nullable r = true <-> Matches r [].
Proof.
  induction r as [ | | c | neg rs | a IHa b IHb | a IHa b IHb | a IHa ]; cbn [nullable].
  - split; [discriminate | intro H; destruct (M_Empty_inv _ H)].
  - split; [intros _; constructor | reflexivity].
  - split; [discriminate | intro H; apply M_Chr_inv in H; discriminate].
  - split; [discriminate | intro H; apply M_Rng_inv in H; destruct H as [c [H _]]; discriminate].
  - rewrite andb_true_iff, IHa, IHb, M_Cat_inv. split.
    + intros [Ha Hb]. exists [], []. split; [reflexivity | split; assumption].
    + intros [s1 [s2 [E [Ha Hb]]]]. symmetry in E. apply app_eq_nil in E. destruct E; subst.
      split; assumption.
  - rewrite orb_true_iff, IHa, IHb, M_Alt_inv. reflexivity.
  - split; [intros _; constructor | reflexivity].
Qed.

Lemma deriv_correct : forall r c s, Matches (deriv c r) s <-> Matches r (c :: s).
Proof.
  induction r as [ | | d | neg rs | a IHa b IHb | a IHa b IHb | a IHa ]; intros c s; cbn [deriv].
  - split; intro H; destruct (M_Empty_inv _ H).
  - split; intro H; [destruct (M_Empty_inv _ H) | apply M_Eps_inv in H; discriminate].
  - rewrite M_Chr_inv. destruct (N.eqb_spec c d) as [E | E].
    + subst d. rewrite M_Eps_inv. split; intro H; [subst; reflexivity | injection H as H; exact H].
    + split; intro H; [destruct (M_Empty_inv _ H) | injection H as H1 H2; contradiction].
  - rewrite M_Rng_inv. destruct (cmatch neg rs c) eqn:Ec.
    + rewrite M_Eps_inv. split.
      * intros ->. exists c. split; [reflexivity | exact Ec].
      * intros [c' [E _]]. injection E as _ E. exact E.
    + split; [intro H; destruct (M_Empty_inv _ H) |].
      intros [c' [E Hc]]. injection E as E1 E2. subst c'. rewrite Ec in Hc. discriminate.
  - (* Cat *)
    assert (Hcat : Matches (cat (deriv c a) b) s <->
                   exists s1 s2, s = s1 ++ s2 /\ Matches a (c :: s1) /\ Matches b s2).
    { rewrite cat_correct, M_Cat_inv. split.
      - intros [s1 [s2 [E [H1 H2]]]]. exists s1, s2. rewrite <- IHa. auto.
      - intros [s1 [s2 [E [H1 H2]]]]. exists s1, s2. rewrite IHa. auto. }
    rewrite (M_Cat_inv a b (c :: s)).
    destruct (nullable a) eqn:En.
    + rewrite alt_correct, M_Alt_inv, Hcat, IHb. split.
      * intros [[s1 [s2 [E [H1 H2]]]] | H].
        -- exists (c :: s1), s2. subst s. split; [reflexivity | split; assumption].
        -- exists [], (c :: s). split; [reflexivity | split; [apply nullable_correct; exact En | exact H]].
      * intros [s1 [s2 [E [H1 H2]]]]. destruct s1 as [| x s1'].
        -- cbn [app] in E. subst s2. right; exact H2.
        -- cbn [app] in E. injection E as Ex Es. subst x s. left. exists s1', s2. auto.
    + rewrite Hcat. split.
      * intros [s1 [s2 [E [H1 H2]]]].
        exists (c :: s1), s2. subst s. split; [reflexivity | split; assumption].
      * intros [s1 [s2 [E [H1 H2]]]]. destruct s1 as [| x s1'].
        -- apply nullable_correct in H1. rewrite En in H1. discriminate.
        -- cbn [app] in E. injection E as Ex Es. subst x s. exists s1', s2. auto.
  - rewrite alt_correct, !M_Alt_inv, IHa, IHb. reflexivity.
  - rewrite cat_correct, M_Cat_inv, M_Star_cons. split.
    + intros [s1 [s2 [E [H1 H2]]]]. exists s1, s2. rewrite <- IHa. auto.
    + intros [s1 [s2 [E [H1 H2]]]]. exists s1, s2. rewrite IHa. auto.
Qed.

Lemma matches_b_correct : forall s r, matches_b r s = true <-> Matches r s.
Proof.
  unfold matches_b.
  induction s as [| c t IH]; intro r; cbn [derivs].
  - apply nullable_correct.
  - rewrite IH. apply deriv_correct.
Qed.

Lemma C14_matcher_proof : C14_matcher_stmt.
Proof. intros r s. apply matches_b_correct. Qed.
