(* ApplyStatements.v — statements that connect the LR theorems (C13) to macro application (C02, C09). *)
From Theo Require Import Base Tokens Errors MacroExtract Grammar LR Gen_MacroGrammar Gen_Consts MacroApply SpecMacro CompileStatements.
Local Open Scope Z_scope.

(* macros as extract_macros delivers them: no pattern token is an end-of-file token; constraint and slot indices
   point into the pattern; every $n of the body names an existing slot *)
Definition macro_ok (m : macrodef) : Prop :=
  Forall (fun t => tk t <> T_EOF) (m_rule m) /\
  Forall (fun t => tk t <> T_EOF) (m_repl m) /\
  Forall (fun i => 0 <= i < zlen (m_rule m)) (m_cc m) /\
  Forall (fun i => 0 <= i < zlen (m_rule m)) (m_tt m) /\
  Forall (fun t => tk t = INSERTION -> 0 <= strToIntSilent (tl (ttext t)) < zlen (m_tt m)) (m_repl m).

(* extract_macros only produces such macros *)
Definition C02_extract_macros_ok_stmt : Prop :=
  forall toks errs out macros, extract_macros toks = Ok (errs, out, macros) -> Forall macro_ok macros.

(* a detection is a match in the declarative sense: the reported range is a part of the stream, split into one
   sub-range per pattern symbol, literal tokens equal by kind (and text where constrained), slots deriving
   from their non-terminal in the detector grammar *)
Definition C09_detect_sound_stmt : Prop :=
  forall m d input r, macro_ok m -> make_detector m = Ok d -> detect d input = Ok (Some r) ->
    0 <= r_location r /\ 0 <= r_length r /\ r_location r + r_length r <= zlen input /\
    concat (r_matched r) = firstn (Z.to_nat (r_length r)) (skipn (Z.to_nat (r_location r)) input) /\
    length (r_matched r) = length (m_rule m) /\
    (forall i p range, nth_error (m_rule m) i = Some p -> nth_error (r_matched r) i = Some range ->
        match slot_nonterminal (tk p) with
        | Some n => Derives base_grammar (Nt (N.of_nat n)) (kinds range)
        | None => exists t, range = [t] /\ tk t = tk p
        end) /\
    (forall c p, In c (m_cc m) -> znth (m_rule m) c = Some p ->
        exists t, znth (r_matched r) c = Some [t] /\ ttext t = ttext p).

(* macro application is total on end-of-file terminated streams, for every budget, and keeps the stream terminated *)
Definition C02_apply_total_stmt : Prop :=
  forall input defs passes, eof_terminated input -> Forall macro_ok defs ->
    apply_macros input defs passes = Fuel \/
    exists errs out, apply_macros input defs passes = Ok (errs, out) /\ eof_terminated out.
