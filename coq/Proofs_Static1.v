(* Proofs_Static1.v — helper lemmas for Proofs_Static.v (C04_static), part 2: what the generator does to the
   part of its state that decides errors (error list, function table, label table, the marks of the current
   symbol table).  Generator only; nothing about the reference semantics here. *)
From Coq Require Import List ZArith NArith Lia Bool.
From Theo Require Import Base Tokens Errors MacroExtract Parser VMModel GenModel RefSem SpecGrammar CompileStatements AcceptStatements Proofs_VM_dbg Proofs_Front Proofs_Gen0 Proofs_Gen Proofs_Sem Proofs_Static0.
Import ListNotations.
Local Open Scope Z_scope.

Definition marks_of (g : gstate) : list (str * Z) :=
  match g_syms g with f :: _ => f_marks f | [] => [] end.
Definition tops (g : gstate) : option (str * Z * list (str * Z) * list fgs) :=
  match g_syms g with f :: tl => Some (f_name f, f_argnum f, f_marks f, tl) | [] => None end.

Lemma tops_marks g g' : tops g' = tops g -> marks_of g' = marks_of g.
Proof.
  unfold tops, marks_of. destruct (g_syms g') as [|f' t']; destruct (g_syms g) as [|f t]; intros H; try discriminate; auto.
  inversion H; auto.
Qed.

Lemma tops_nonempty g g' : tops g' = tops g -> g_syms g <> [] -> g_syms g' <> [].
Proof.
  unfold tops. destruct (g_syms g') as [|f' t']; destruct (g_syms g) as [|f t]; intros H N; try discriminate; congruence.
Qed.

(* a step that changes nothing of what matters *)
Record quiet (g g' : gstate) : Prop := mkQuiet {
  qu_errs : g_errs g' = g_errs g;
  qu_funcs : g_funcs g' = g_funcs g;
  qu_labels : g_labels g' = g_labels g;
  qu_tops : tops g' = tops g
}.

(* a step that may only add errors *)
Record calm (g g' : gstate) : Prop := mkCalm {
  ca_errs : g_errs g' = [] -> g_errs g = [];
  ca_funcs : g_funcs g' = g_funcs g;
  ca_labels : g_labels g' = g_labels g;
  ca_tops : tops g' = tops g
}.

Lemma quiet_refl g : quiet g g.
Proof. constructor; reflexivity. Qed.
Lemma quiet_trans a b c : quiet a b -> quiet b c -> quiet a c.
Proof. intros [A1 A2 A3 A4] [B1 B2 B3 B4]. constructor; congruence. Qed.
Lemma quiet_calm g g' : quiet g g' -> calm g g'.
Proof. intros [A1 A2 A3 A4]. constructor; auto. congruence. Qed.
Lemma calm_refl g : calm g g.
Proof. constructor; auto. Qed.
Lemma calm_trans a b c : calm a b -> calm b c -> calm a c.
Proof. intros [A1 A2 A3 A4] [B1 B2 B3 B4]. constructor; try congruence. auto. Qed.

Lemma q_emit g i : quiet g (emit g i).
Proof. constructor; reflexivity. Qed.
Lemma q_emit_bp g i : quiet g (emit_backpatched g i).
Proof. constructor; reflexivity. Qed.
Lemma q_loops g : quiet g (loops_incr g).
Proof. constructor; reflexivity. Qed.
Lemma q_adv g line file : quiet g (advance_line g line file).
Proof.
  destruct (advance_spec g line file) as [->|[_ ->]]; [apply quiet_refl|]. constructor; reflexivity.
Qed.
Lemma c_err g t k : calm g (err g t k).
Proof.
  constructor; try reflexivity. cbn. intros H. destruct (g_errs g); discriminate.
Qed.
Lemma err_ne g t k : g_errs (err g t k) <> [].
Proof. cbn. destruct (g_errs g); discriminate. Qed.

Lemma q_set_symbols g f f' : hd_error (g_syms g) = Some f ->
  f_name f' = f_name f -> f_argnum f' = f_argnum f -> f_marks f' = f_marks f -> quiet g (set_symbols g f').
Proof.
  intros H N A M. constructor; try reflexivity.
  unfold tops, set_symbols; cbn. destruct (g_syms g) as [|f0 tl0]; [discriminate|].
  cbn in H. inversion H; subst f0. cbn. congruence.
Qed.

Lemma q_fetch_variable g n g' i : fetch_variable g n = Ok (g', i) -> quiet g g'.
Proof.
  unfold fetch_variable, get_symbols. intros H. binv H.
  destruct (find_reg (f_regs a) n 0); inversion H; subst; [apply quiet_refl|].
  eapply q_set_symbols; eauto.
Qed.

Lemma q_fetch_temporary g g' i : fetch_temporary g = Ok (g', i) -> quiet g g'.
Proof.
  unfold fetch_temporary, get_symbols. intros H. binv H.
  destruct (find_free_temp (f_regs a) 0).
  - binv H. inversion H; subst. eapply q_set_symbols; eauto.
  - inversion H; subst. eapply q_set_symbols; eauto.
Qed.

Lemma q_release g i g' : release_temporary g i = Ok g' -> quiet g g'.
Proof.
  unfold release_temporary, get_symbols. intros H. binv H. destruct (is_temp a0).
  - binv H. inversion H; subst. eapply q_set_symbols; eauto.
  - inversion H; subst. apply quiet_refl.
Qed.

Lemma q_emit_args arglocs : forall g i g', emit_args g arglocs i = Ok g' -> quiet g g'.
Proof.
  induction arglocs as [|a rest IH]; intros g i g' H; cbn [emit_args] in H.
  - inversion H; subst. apply quiet_refl.
  - binv H. eapply quiet_trans; [apply q_emit|]. eapply quiet_trans; [eapply q_release; eauto|]. eapply IH; eauto.
Qed.

Lemma q_remove g g' : remove_top_pot_break false g = Ok g' -> quiet g g'.
Proof.
  intros H. apply remove_spec in H. destruct H as [->|(i & pb & li & _ & _ & _ & ->)]; [apply quiet_refl|].
  constructor; reflexivity.
Qed.

Lemma c_const g tok : calm g (fst (gen_str_to_int g tok)).
Proof.
  unfold gen_str_to_int. cbn [fst]. destruct (INT_MAX <=? strtol tok); [apply c_err | apply calm_refl].
Qed.

Lemma c_call_plain g1 arglocs fn tgt g' : call_plain g1 arglocs fn tgt = Ok g' -> calm g1 g'.
Proof.
  unfold call_plain. intros H. destruct (alookup str_ltb (g_funcs g1) fn) as [p|].
  - destruct (negb (p_argnum p =? zlen arglocs)).
    + inversion H; subst. apply c_err.
    + binv H. inversion H; subst. apply quiet_calm.
      eapply quiet_trans; [apply q_emit|]. eapply quiet_trans; [eapply q_emit_args; eauto|]. apply q_emit.
  - inversion H; subst. apply c_err.
Qed.

Lemma c_call_tail l r tgt g1 arglocs g' : call_tail false l r tgt (g1, arglocs) = Ok g' -> calm g1 g'.
Proof.
  unfold call_tail. intros H. binv H.
  destruct a0 as [ctok|]; [|eapply c_call_plain; eauto].
  destruct (str_eqb (n_tok a) name_INC || str_eqb (n_tok a) name_DEC); [|eapply c_call_plain; eauto].
  binv H. destruct (str_eqb (n_tok a) name_INC).
  - inversion H; subst. apply quiet_calm, q_emit.
  - cbn [andb] in H. inversion H; subst. apply quiet_calm, q_emit.
Qed.

Definition Pcalm (n : node) : Prop :=
  forall tgt g g', dispatch_value false n tgt g = Ok g' -> calm g g'.

Lemma call_args_calm : forall a, all_sub Pcalm a ->
  forall acc res, call_args (dispatch_value false) a acc = Ok res -> calm (fst acc) (fst res).
Proof.
  induction a as [t line file tok l r IHl IHr] using Proofs_Gen0.node_ind'. intros HS acc res H.
  cbn [all_sub] in HS. destruct HS as [Hh [HSl HSr]].
  destruct (ntype_eq_dec_split t) as [->|Hn].
  - rewrite call_args_split in H. binv H.
    assert (S1 : calm (fst acc) (fst a)).
    { destruct l as [x|]; cbn in H0, IHl; [eapply IHl; eauto | inversion H0; subst; apply calm_refl]. }
    eapply calm_trans; [exact S1|].
    destruct r as [x|]; cbn in H, IHr; [eapply IHr; eauto | inversion H; subst; apply calm_refl].
  - rewrite call_args_leaf in H by (cbn; auto). binv H. inversion H; subst; cbn [fst].
    eapply calm_trans; [apply quiet_calm; eapply q_fetch_temporary; eauto|]. eapply Hh; eauto.
Qed.

Lemma dv_calm_all : forall n, all_sub Pcalm n.
Proof.
  apply all_sub_intro. intros t line file tok l r Hl Hr tgt g g' H.
  destruct (value_type t) eqn:Et.
  - destruct t; try discriminate.
    + rewrite dv_name in H. binv H. inversion H; subst.
      eapply calm_trans; [apply quiet_calm, q_adv|].
      eapply calm_trans; [apply quiet_calm; eapply q_fetch_variable; eauto|]. apply quiet_calm, q_emit.
    + rewrite dv_number in H. inversion H; subst.
      eapply calm_trans; [apply quiet_calm, q_adv|].
      eapply calm_trans; [apply c_const|]. apply quiet_calm, q_emit.
    + rewrite dv_call in H. binv H. destruct a as [g1 arglocs].
      eapply calm_trans; [apply quiet_calm, (q_adv g line file)|].
      eapply calm_trans; [|eapply c_call_tail; eauto].
      destruct r as [rn0|]; cbn [call_args_o] in H0.
      * cbn in Hr. exact (call_args_calm rn0 Hr _ _ H0).
      * inversion H0; subst. apply calm_refl.
  - rewrite dv_other in H by auto. inversion H; subst.
    eapply calm_trans; [apply quiet_calm, q_adv|]. apply c_err.
Qed.

Lemma dv_calm n tgt g g' : dispatch_value false n tgt g = Ok g' -> calm g g'.
Proof. apply (all_sub_here _ _ (dv_calm_all n)). Qed.

Lemma dvo_calm o tgt g g' : dispatch_value_opt false o tgt g = Ok g' -> calm g g'.
Proof. destruct o as [n|]; cbn; [apply dv_calm | intros H; inversion H; subst; apply calm_refl]. Qed.

(* ---- frames: what a statement may do to labels and marks ------------------------------------------ *)
Record Frame (g g' : gstate) : Prop := mkFrame {
  fr_errs : g_errs g' = [] -> g_errs g = [];
  fr_len : zlen (g_labels g) <= zlen (g_labels g');
  fr_top : exists f f' tl, g_syms g = f :: tl /\ g_syms g' = f' :: tl /\ f_name f' = f_name f /\ f_argnum f' = f_argnum f;
  fr_grow : forall n l, alookup str_ltb (marks_of g) n = Some l -> alookup str_ltb (marks_of g') n = Some l;
  fr_fresh : forall n l, alookup str_ltb (marks_of g') n = Some l ->
               alookup str_ltb (marks_of g) n = Some l \/ zlen (g_labels g) <= l;
  fr_keep : forall i p, (forall n, alookup str_ltb (marks_of g) n <> Some i) ->
               znth (g_labels g) i = Some p -> znth (g_labels g') i = Some p;
  fr_mono : forall i p, znth (g_labels g) i = Some p -> p <> -1 ->
               exists p', znth (g_labels g') i = Some p' /\ p' <> -1
}.

Lemma Frame_refl g : g_syms g <> [] -> Frame g g.
Proof.
  intros H. constructor; auto; try lia.
  - destruct (g_syms g) as [|f tl]; [congruence|]. exists f, f, tl. auto.
  - intros i p Hz Hp. eauto.
Qed.

Lemma Frame_syms g g' : Frame g g' -> g_syms g' <> [].
Proof. intros [_ _ (f & f' & tl & _ & E & _) _ _ _ _]. rewrite E. discriminate. Qed.

Lemma Frame_syms0 g g' : Frame g g' -> g_syms g <> [].
Proof. intros [_ _ (f & f' & tl & E & _) _ _ _ _]. rewrite E. discriminate. Qed.

Lemma Frame_trans a b c : Frame a b -> Frame b c -> Frame a c.
Proof.
  intros [A1 A2 (f1 & f2 & t1 & S1 & S2 & N1 & M1) A4 A5 A6 A7] [B1 B2 (f2' & f3 & t2 & S2' & S3 & N2 & M2) B4 B5 B6 B7].
  constructor; auto; try lia.
  - rewrite S2 in S2'. inversion S2'; subst f2' t2. exists f1, f3, t1. repeat split; auto; congruence.
  - intros n l H. destruct (B5 n l H) as [H1|H1]; [|right; lia]. destruct (A5 n l H1); auto.
  - intros i p Hn Hz. apply B6; [|apply A6; auto].
    intros n Hc. destruct (A5 n i Hc) as [H1|H1]; [apply (Hn n); auto|].
    apply znth_some_range in Hz. lia.
  - intros i p Hz Hp. destruct (A7 i p Hz Hp) as (p' & Hz' & Hp'). eauto.
Qed.

Lemma calm_Frame g g' : g_syms g <> [] -> calm g g' -> Frame g g'.
Proof.
  intros Hs [C1 C2 C3 C4]. pose proof (tops_marks _ _ C4) as Hm.
  constructor; auto; rewrite ?C3, ?Hm; auto; try lia.
  - unfold tops in C4. destruct (g_syms g) as [|f tl]; [congruence|].
    destruct (g_syms g') as [|f' tl']; [discriminate|]. inversion C4; subst. exists f, f', tl. auto.
  - intros i p Hz Hp. eauto.
Qed.

Definition touchable (g0 : gstate) (l : Z) : Prop :=
  (exists n, alookup str_ltb (marks_of g0) n = Some l) \/ zlen (g_labels g0) <= l.

Lemma Fc_calm g0 g g' : Frame g0 g -> calm g g' -> Frame g0 g'.
Proof. intros F C. eapply Frame_trans; [exact F|]. apply calm_Frame; auto. eapply Frame_syms; eauto. Qed.

Lemma Fc_quiet g0 g g' : Frame g0 g -> quiet g g' -> Frame g0 g'.
Proof. intros F C. eapply Fc_calm; eauto. apply quiet_calm; auto. Qed.

Lemma create_label_eq g g1 l : create_label g = (g1, l) ->
  l = zlen (g_labels g) /\ g1 = upd_labels g (g_labels g ++ [-1]).
Proof. unfold create_label. intros H. inversion H; auto. Qed.

Lemma F_create g g1 l : g_syms g <> [] -> create_label g = (g1, l) -> Frame g g1.
Proof.
  intros Hs E. apply create_label_eq in E. destruct E as [-> ->].
  constructor; cbn; auto.
  - rewrite zlen_app. cbn. lia.
  - destruct (g_syms g) as [|f tl]; [congruence|]. exists f, f, tl. auto.
  - intros i p _ Hz. rewrite znth_app_l; auto. apply znth_some_range in Hz. lia.
  - intros i p Hz Hp. exists p. split; auto. rewrite znth_app_l; auto. apply znth_some_range in Hz. lia.
Qed.

Lemma Fc_create g0 g g1 l : Frame g0 g -> create_label g = (g1, l) -> Frame g0 g1.
Proof. intros F E. eapply Frame_trans; [exact F|]. eapply F_create; eauto. eapply Frame_syms; eauto. Qed.

Lemma created_touchable g0 g g1 l : Frame g0 g -> create_label g = (g1, l) -> touchable g0 l.
Proof. intros F E. apply create_label_eq in E. destruct E as [-> _]. right. apply (fr_len _ _ F). Qed.

Lemma set_label_eq g l p g' : GenModel.set_label g l p = Ok g' ->
  exists ls, zupd (g_labels g) l p = Some ls /\ g' = upd_labels g ls.
Proof. unfold GenModel.set_label. intros H. binv H. inversion H; subst. eauto. Qed.

Lemma zupd_len {A} (l l' : list A) i x : zupd l i x = Some l' -> zlen l' = zlen l.
Proof.
  unfold zupd. destruct (_ && _); [|discriminate]. intros H; inversion H; subst.
  unfold zlen. rewrite upd_nat_length. reflexivity.
Qed.

Lemma F_set g0 g l p g' : Frame g0 g -> touchable g0 l -> p <> -1 -> GenModel.set_label g l p = Ok g' -> Frame g0 g'.
Proof.
  intros [A1 A2 A3 A4 A5 A6 A7] Ht Hp E. apply set_label_eq in E. destruct E as (ls & Hu & ->).
  pose proof (zupd_len _ _ _ _ Hu) as Hl. pose proof (znth_zupd _ _ _ _ Hu) as Hz.
  constructor; cbn; auto; try lia.
  - intros i q Hn Hq. rewrite Hz. destruct (Z.eqb_spec i l) as [->|Hne]; [|auto].
    exfalso. destruct Ht as [[n Hn']|Hge]; [apply (Hn n Hn')|]. apply znth_some_range in Hq. lia.
  - intros i q Hq Hq1. rewrite Hz. destruct (Z.eqb_spec i l) as [->|Hne]; [eauto|]. apply (A7 i q); auto.
Qed.

Lemma F_ensure g n g' l : ensure_mark g n = Ok (g', l) ->
  Frame g g' /\ alookup str_ltb (marks_of g') n = Some l /\
  (g' = g \/ (alookup str_ltb (marks_of g) n = None /\ l = zlen (g_labels g) /\
              g_labels g' = g_labels g ++ [-1] /\ marks_of g' = ainsert str_ltb (marks_of g) n l /\
              g_errs g' = g_errs g /\ g_funcs g' = g_funcs g)).
Proof.
  unfold ensure_mark, get_symbols. intros H. binv H.
  assert (Hs : g_syms g <> []) by (destruct (g_syms g); [discriminate | discriminate]).
  assert (Hm : marks_of g = f_marks a).
  { unfold marks_of. destruct (g_syms g); [discriminate|]. cbn in H0. inversion H0; auto. }
  destruct (alookup str_ltb (f_marks a) n) as [l0|] eqn:El.
  - inversion H; subst. split; [apply Frame_refl; auto|]. split; [rewrite Hm; auto | left; auto].
  - cbn [create_label] in H. binv H. inversion H; subst g' l; clear H.
    cbn in H1. rewrite H0 in H1. inversion H1; subst a0; clear H1.
    destruct (g_syms g) as [|f tl] eqn:Es; [discriminate|]. cbn in H0. inversion H0; subst f; clear H0.
    assert (Hm' : marks_of (set_symbols (upd_labels g (g_labels g ++ [-1]))
                     (mkFGS (f_name a) (f_regs a) (f_argnum a) (ainsert str_ltb (f_marks a) n (zlen (g_labels g)))))
                  = ainsert str_ltb (f_marks a) n (zlen (g_labels g))) by reflexivity.
    split; [|split; [|right]].
    + constructor; rewrite ?Hm', ?Hm; cbn; auto.
      * rewrite zlen_app. cbn. lia.
      * rewrite Es. exists a, (mkFGS (f_name a) (f_regs a) (f_argnum a) (ainsert str_ltb (f_marks a) n (zlen (g_labels g)))), tl. auto.
      * intros m l Hl. rewrite str_lookup_insert. destruct (keqb str_ltb m n) eqn:Ek; auto.
        apply str_keqb_eq in Ek. subst m. congruence.
      * intros m l. rewrite str_lookup_insert. destruct (keqb str_ltb m n) eqn:Ek; auto.
        intros Hx. inversion Hx; subst. right. lia.
      * intros i p _ Hz. rewrite znth_app_l; auto. apply znth_some_range in Hz. lia.
      * intros i p Hz Hp. exists p. split; auto. rewrite znth_app_l; auto. apply znth_some_range in Hz. lia.
    + rewrite Hm'. rewrite str_lookup_insert. rewrite (proj2 (str_keqb_eq n n) eq_refl). reflexivity.
    + rewrite Hm', Hm. repeat split; auto.
Qed.

Lemma Fc_ensure g0 g n g' l : Frame g0 g -> ensure_mark g n = Ok (g', l) -> Frame g0 g'.
Proof. intros F E. eapply Frame_trans; [exact F|]. apply (F_ensure _ _ _ _ E). Qed.

Lemma ensured_touchable g0 g n g' l : Frame g0 g -> ensure_mark g n = Ok (g', l) -> touchable g0 l.
Proof.
  intros F E. destruct (F_ensure _ _ _ _ E) as (F1 & Hl & _).
  destruct (fr_fresh _ _ (Frame_trans _ _ _ F F1) n l Hl) as [H|H]; [left; eauto | right; auto].
Qed.

Lemma next_pos_ne g : next_pos g <> -1.
Proof. unfold next_pos. pose proof (zlen_nonneg (g_code g)). lia. Qed.

Lemma mark_pos_ne g p : get_mark_pos g = Ok p -> p <> -1.
Proof.
  unfold get_mark_pos, code_back. intros H. binv H. inversion H; subst.
  apply hd_rev_inv in H0. unfold next_pos. rewrite H0. rewrite zlen_app. cbn.
  pose proof (zlen_nonneg (removelast (g_code g))). destruct (opcode_eqb _ _); lia.
Qed.

(* ---- leaving a symbol table ------------------------------------------------------------------------ *)
Lemma check_marks_spec marks : forall g g1, check_marks g marks = Ok g1 ->
  exists e, g1 = upd_errs g (g_errs g ++ e) /\
    (forall n l, In (n, l) marks -> exists p, znth (g_labels g) l = Some p) /\
    (e = [] <-> forall n l p, In (n, l) marks -> znth (g_labels g) l = Some p -> p <> -1).
Proof.
  induction marks as [|[nm l] rest IH]; intros g g1 H; cbn [check_marks] in H.
  - inversion H; subst. exists []. split; [symmetry; apply upd_errs_nil|]. split; [intros n l []|].
    split; auto.
  - binv H. destruct (Z.eqb_spec a (-1)) as [->|Hne].
    + apply IH in H. destruct H as (e & -> & Hex & Hiff). cbn [g_labels err upd_errs] in Hex, Hiff.
      eexists. split; [unfold err; rewrite upd_errs_app; reflexivity|]. split.
      * intros n l0 [Hi|Hi]; [inversion Hi; subst; eauto | eauto].
      * split; [discriminate|]. intros Hall. exfalso. apply (Hall nm l (-1)); auto. left; auto.
    + apply IH in H. destruct H as (e & -> & Hex & Hiff). exists e. split; auto. split.
      * intros n l0 [Hi|Hi]; [inversion Hi; subst; eauto | eauto].
      * rewrite Hiff. split.
        -- intros Hall n l0 p [Hi|Hi] Hz; [inversion Hi; subst; congruence | eauto].
        -- intros Hall n l0 p Hi Hz. apply (Hall n l0 p); auto. right; auto.
Qed.

Lemma pop_spec g addr g' : pop_symbols g addr = Ok g' ->
  exists f tl e p, g_syms g = f :: tl /\ g_syms g' = tl /\ g_labels g' = g_labels g /\
    g_errs g' = g_errs g ++ e /\ g_funcs g' = ainsert str_ltb (g_funcs g) (f_name f) p /\
    p_argnum p = f_argnum f /\ g_code g' = g_code g /\ g_todo g' = g_todo g /\
    (forall n l, In (n, l) (f_marks f) -> exists q, znth (g_labels g) l = Some q) /\
    (e = [] <-> forall n l q, In (n, l) (f_marks f) -> znth (g_labels g) l = Some q -> q <> -1).
Proof.
  unfold pop_symbols, get_symbols. intros H. binv H. inversion H; subst g'; clear H.
  apply check_marks_spec in H1. destruct H1 as (e & -> & Hex & Hiff).
  destruct (g_syms g) as [|f tl] eqn:Es; [discriminate|]. cbn in H0. inversion H0; subst f.
  exists a, tl, e. eexists. cbn. rewrite Es. cbn. repeat split; auto; apply Hiff.
Qed.

(* ---- parameters ------------------------------------------------------------------------------------- *)
Record calm_args (g g' : gstate) : Prop := mkCalmArgs {
  cg_errs : g_errs g' = [] -> g_errs g = [];
  cg_funcs : g_funcs g' = g_funcs g;
  cg_labels : g_labels g' = g_labels g;
  cg_top : exists f f' tl, g_syms g = f :: tl /\ g_syms g' = f' :: tl /\ f_name f' = f_name f /\ f_marks f' = f_marks f
}.

Lemma calm_args_refl g : g_syms g <> [] -> calm_args g g.
Proof. intros H. constructor; auto. destruct (g_syms g) as [|f tl]; [congruence|]. exists f, f, tl. auto. Qed.

Lemma calm_args_trans a b c : calm_args a b -> calm_args b c -> calm_args a c.
Proof.
  intros [A1 A2 A3 (f1 & f2 & t1 & S1 & S2 & N1 & M1)] [B1 B2 B3 (f2' & f3 & t2 & S2' & S3 & N2 & M2)].
  constructor; try congruence; auto.
  rewrite S2 in S2'. inversion S2'; subst f2' t2. exists f1, f3, t1. repeat split; auto; congruence.
Qed.

Lemma calm_args_syms g g' : calm_args g g' -> g_syms g' <> [].
Proof. intros [_ _ _ (f & f' & tl & _ & E & _)]. rewrite E. discriminate. Qed.

Lemma da_calm : forall n g g', g_syms g <> [] -> dispatch_args_n false n g = Ok g' -> calm_args g g'.
Proof.
  induction n as [t line file tok l r IHl IHr] using Proofs_Gen0.node_ind'. intros g g' Hs H.
  destruct (ntype_eq_dec_split t) as [->|Hn].
  - rewrite da_split in H. binv H.
    assert (S1 : calm_args g a).
    { destruct l as [x|]; cbn in H0, IHl; [eapply IHl; eauto | inversion H0; subst; apply calm_args_refl; auto]. }
    eapply calm_args_trans; [exact S1|]. pose proof (calm_args_syms _ _ S1) as Hs1.
    destruct r as [x|]; cbn in H, IHr; [eapply IHr; eauto | inversion H; subst; apply calm_args_refl; auto].
  - rewrite da_leaf in H by auto. unfold get_symbols in H. binv H.
    destruct (g_syms g) as [|f tl] eqn:Es; [discriminate|]. cbn in H0. inversion H0; subst f; clear H0.
    destruct (find_reg (f_regs a) tok 0).
    + inversion H; subst. constructor; cbn; auto.
      * intros Hx. destruct (g_errs g); discriminate.
      * rewrite Es. exists a, a, tl. auto.
    + binv H. inversion H; subst; clear H. destruct a0 as [g2 i]. cbn [fst].
      apply q_fetch_variable in H0. destruct H0 as [Q1 Q2 Q3 Q4].
      constructor; cbn in *; try congruence.
      unfold tops in Q4. cbn in Q4. destruct (g_syms g2) as [|f2 tl2]; [discriminate|].
      inversion Q4; subst. exists a, f2, tl. rewrite Es. cbn. auto.
Qed.

Lemma dargs_calm o g g' : g_syms g <> [] -> dispatch_args false o g = Ok g' -> calm_args g g'.
Proof.
  destruct o as [n|]; cbn; intros Hs H; [eapply da_calm; eauto | inversion H; subst; apply calm_args_refl; auto].
Qed.

(* ---- new labels are resolved when a statement ends ------------------------------------------------- *)
Definition NewSetX (X : Z -> Prop) (g g' : gstate) : Prop :=
  forall i, zlen (g_labels g) <= i < zlen (g_labels g') ->
    X i \/ (exists p, znth (g_labels g') i = Some p /\ p <> -1) \/ (exists n, alookup str_ltb (marks_of g') n = Some i).
Definition NewSet := NewSetX (fun _ => False).

Lemma NSX_weaken (X Y : Z -> Prop) g g' : (forall i, X i -> Y i) -> NewSetX X g g' -> NewSetX Y g g'.
Proof. intros H N i Hi. destruct (N i Hi) as [Hx|Hx]; auto. Qed.

Lemma NSX_same X g g' : zlen (g_labels g') <= zlen (g_labels g) -> NewSetX X g g'.
Proof. intros H i Hi. lia. Qed.

Lemma NSX_trans X g0 g1 g2 : Frame g1 g2 -> zlen (g_labels g0) <= zlen (g_labels g1) ->
  NewSetX X g0 g1 -> NewSet g1 g2 -> NewSetX X g0 g2.
Proof.
  intros F L N1 N2 i Hi. destruct (Z_lt_le_dec i (zlen (g_labels g1))) as [Hlt|Hge].
  - destruct (N1 i ltac:(lia)) as [Hx|[(p & Hz & Hp)|(n & Hn)]]; auto.
    + right; left. apply (fr_mono _ _ F i p Hz Hp).
    + right; right. exists n. apply (fr_grow _ _ F); auto.
  - destruct (N2 i ltac:(lia)) as [[]|Hx]; auto.
Qed.

Lemma NSX_calm X g0 g g' : NewSetX X g0 g -> calm g g' -> NewSetX X g0 g'.
Proof.
  intros N [_ _ C3 C4] i Hi. rewrite C3 in *. rewrite (tops_marks _ _ C4). auto.
Qed.

Lemma NSX_quiet X g0 g g' : NewSetX X g0 g -> quiet g g' -> NewSetX X g0 g'.
Proof. intros N Q. eapply NSX_calm; eauto. apply quiet_calm; auto. Qed.

Lemma NSX_left X g0 g0' g : g_labels g0' = g_labels g0 -> NewSetX X g0' g -> NewSetX X g0 g.
Proof. intros E N i Hi. apply N. rewrite E. auto. Qed.

Lemma NSX_create X g0 g g1 l : NewSetX X g0 g -> create_label g = (g1, l) -> NewSetX (fun i => X i \/ i = l) g0 g1.
Proof.
  intros N E. apply create_label_eq in E. destruct E as [-> ->]. intros i Hi. cbn in *.
  rewrite zlen_app in Hi. cbn in Hi.
  destruct (Z.eq_dec i (zlen (g_labels g))) as [->|Hne]; [auto|].
  destruct (N i ltac:(lia)) as [Hx|[(p & Hz & Hp)|Hn]]; auto.
  right; left. exists p. split; auto. rewrite znth_app_l; auto. lia.
Qed.

Lemma NSX_set X g0 g l p g' : NewSetX X g0 g -> p <> -1 -> GenModel.set_label g l p = Ok g' ->
  NewSetX (fun i => X i /\ i <> l) g0 g'.
Proof.
  intros N Hp E. apply set_label_eq in E. destruct E as (ls & Hu & ->).
  pose proof (zupd_len _ _ _ _ Hu) as Hl. pose proof (znth_zupd _ _ _ _ Hu) as Hz.
  intros i Hi. cbn in *. rewrite Hl in Hi. rewrite Hz.
  destruct (Z.eqb_spec i l) as [->|Hne]; [right; left; eauto|].
  destruct (N i Hi) as [Hx|[Hx|Hx]]; auto.
Qed.

Lemma NSX_ensure X g0 g n g' l : NewSetX X g0 g -> ensure_mark g n = Ok (g', l) -> NewSetX X g0 g'.
Proof.
  intros N E. destruct (F_ensure _ _ _ _ E) as (F & Hl & [->|(Hn & -> & Hls & Hm & _)]); [auto|].
  intros i Hi. rewrite Hls in *. rewrite zlen_app in Hi. cbn in Hi.
  destruct (Z.eq_dec i (zlen (g_labels g))) as [->|Hne]; [right; right; eauto|].
  destruct (N i ltac:(lia)) as [Hx|[(p & Hz & Hp)|(m & Hm')]]; auto.
  - right; left. exists p. split; auto. rewrite znth_app_l; auto. lia.
  - right; right. exists m. apply (fr_grow _ _ F); auto.
Qed.

(* ---- frame and resolution together, in chaining form ----------------------------------------------- *)
Definition FN (X : Z -> Prop) (g0 g : gstate) : Prop :=
  Frame g0 g /\ (g_errs g = [] -> NewSetX X g0 g).

Lemma FN_refl g : g_syms g <> [] -> FN (fun _ => False) g g.
Proof. intros H. split; [apply Frame_refl; auto|]. intros _. apply NSX_same. lia. Qed.

Lemma FN_calm X g0 g g' : FN X g0 g -> calm g g' -> FN X g0 g'.
Proof.
  intros [F N] C. split; [eapply Fc_calm; eauto|]. intros He. eapply NSX_calm; eauto. apply N. apply (ca_errs _ _ C He).
Qed.

Lemma FN_quiet X g0 g g' : FN X g0 g -> quiet g g' -> FN X g0 g'.
Proof. intros H Q. eapply FN_calm; eauto. apply quiet_calm; auto. Qed.

Lemma FN_create X g0 g g1 l : FN X g0 g -> create_label g = (g1, l) ->
  FN (fun i => X i \/ i = l) g0 g1 /\ touchable g0 l.
Proof.
  intros [F N] E. split; [|eapply created_touchable; eauto]. split; [eapply Fc_create; eauto|].
  intros He. eapply NSX_create; eauto. apply N. apply create_label_eq in E. destruct E as [_ ->]. exact He.
Qed.

Lemma FN_set X g0 g l p g' : FN X g0 g -> touchable g0 l -> p <> -1 -> GenModel.set_label g l p = Ok g' ->
  FN (fun i => X i /\ i <> l) g0 g'.
Proof.
  intros [F N] T Hp E. split; [eapply F_set; eauto|].
  intros He. eapply NSX_set; eauto. apply N. apply set_label_eq in E. destruct E as (ls & _ & ->). exact He.
Qed.

Lemma FN_ensure X g0 g n g' l : FN X g0 g -> ensure_mark g n = Ok (g', l) -> FN X g0 g' /\ touchable g0 l.
Proof.
  intros [F N] E. split; [|eapply ensured_touchable; eauto]. split; [eapply Fc_ensure; eauto|].
  intros He. eapply NSX_ensure; eauto. apply N.
  destruct (F_ensure _ _ _ _ E) as (_ & _ & [->|(_ & _ & _ & _ & Ee & _)]); congruence.
Qed.

Lemma FN_sub X g0 g g' : FN X g0 g -> (Frame g g' /\ (g_errs g' = [] -> NewSet g g')) -> FN X g0 g'.
Proof.
  intros [F N] [F' N']. split; [eapply Frame_trans; eauto|].
  intros He. eapply NSX_trans; eauto; [apply (fr_len _ _ F) | apply N; apply (fr_errs _ _ F' He)].
Qed.

Lemma FN_done X g0 g : FN X g0 g -> (forall i, X i -> False) -> Frame g0 g /\ (g_errs g = [] -> NewSet g0 g).
Proof. intros [F N] HX. split; auto. intros He. eapply NSX_weaken; [|apply N; auto]. exact HX. Qed.

Lemma FN_program X g0 g2 nm g4 g5 g7 addr g8 :
  FN X g0 g2 -> calm_args (push_symbols g2 nm) g4 ->
  (Frame g4 g5 /\ (g_errs g5 = [] -> NewSet g4 g5)) -> quiet g5 g7 ->
  pop_symbols g7 addr = Ok g8 -> FN X g0 g8.
Proof.
  intros [F N] [A1 A2 A3 (f3 & f4 & tl3 & S3 & S4 & N4 & M4)] [[B1 B2 (f4' & f5 & tl4 & S4' & S5 & _) B4 B5 B6 B7] NB]
         [Q1 Q2 Q3 Q4] HP.
  cbn in A1, A3, S3. inversion S3; subst f3 tl3; clear S3. cbn in M4.
  rewrite S4 in S4'. inversion S4'; subst f4' tl4; clear S4'.
  assert (Hm4 : marks_of g4 = []) by (unfold marks_of; rewrite S4; exact M4).
  apply pop_spec in HP. destruct HP as (f7 & tl7 & e & p & S7 & S8 & L8 & E8 & _ & _ & _ & _ & Hex & Hiff).
  assert (Ht7 : tl7 = g_syms g2 /\ f_marks f7 = f_marks f5).
  { unfold tops in Q4. rewrite S7, S5 in Q4. inversion Q4; auto. }
  destruct Ht7 as [-> Hm7].
  assert (Hkeep : forall i q, znth (g_labels g2) i = Some q -> znth (g_labels g8) i = Some q).
  { intros i q Hz. rewrite L8, Q3. apply B6; [rewrite Hm4; cbn; discriminate|]. rewrite A3. exact Hz. }
  assert (He : g_errs g8 = [] -> e = [] /\ g_errs g5 = [] /\ g_errs g2 = []).
  { intros Hx. rewrite E8 in Hx. apply app_eq_nil in Hx. destruct Hx as [Hx1 Hx2]. split; auto.
    rewrite Q1 in Hx1. split; auto. }
  assert (F28 : Frame g2 g8).
  { constructor.
    - intros Hx. apply He in Hx. tauto.
    - rewrite L8, Q3, <- A3. exact B2.
    - pose proof (Frame_syms _ _ F) as Hs2. destruct (g_syms g2) as [|f2 tl2] eqn:Es2; [congruence|].
      exists f2, f2, tl2. rewrite S8. auto.
    - unfold marks_of. rewrite S8. auto.
    - unfold marks_of. rewrite S8. auto.
    - intros i q _ Hz. apply Hkeep; auto.
    - intros i q Hz Hq. exists q. split; auto. }
  split; [eapply Frame_trans; eauto|].
  intros Hx. destruct (He Hx) as (He0 & He5 & He2). specialize (N He2). specialize (NB He5).
  intros i Hi. destruct (Z_lt_le_dec i (zlen (g_labels g2))) as [Hlt|Hge].
  - destruct (N i ltac:(lia)) as [Hxi|[(q & Hz & Hq)|(n & Hn)]]; auto.
    + right; left. exists q. split; auto.
    + right; right. exists n. apply (fr_grow _ _ F28). exact Hn.
  - right; left. rewrite L8, Q3 in Hi |- *. rewrite <- A3 in Hge.
    destruct (NB i ltac:(lia)) as [[]|[Hset|(n & Hn)]]; auto.
    unfold marks_of in Hn. rewrite S5, <- Hm7 in Hn. apply str_alookup_in in Hn.
    destruct (Hex _ _ Hn) as (q & Hq). rewrite Q3 in Hq. exists q. split; auto.
    apply (proj1 Hiff He0 n i q Hn). rewrite Q3. exact Hq.
Qed.

Lemma set_label_errs g l p g' : GenModel.set_label g l p = Ok g' -> g_errs g' = g_errs g.
Proof. intros E. apply set_label_eq in E. destruct E as (ls & _ & ->). reflexivity. Qed.

Definition PFr (n : node) : Prop :=
  forall g g', g_syms g <> [] -> dispatch_void false false false n g = Ok g' ->
    Frame g g' /\ (g_errs g' = [] -> NewSet g g').

Ltac fn_step Il Ir :=
  match goal with
  | HF : FN _ _ ?g, H : context [emit_backpatched ?g ?i] |- _ =>
      apply (fun h => FN_quiet _ _ _ _ h (q_emit_bp g i)) in HF
  | HF : FN _ _ ?g, H : context [emit ?g ?i] |- _ =>
      apply (fun h => FN_quiet _ _ _ _ h (q_emit g i)) in HF
  | HF : FN _ _ ?g, H : context [loops_incr ?g] |- _ =>
      apply (fun h => FN_quiet _ _ _ _ h (q_loops g)) in HF
  | HF : FN _ _ ?g, H : fetch_variable ?g _ = Ok (_, _) |- _ =>
      apply (fun h => FN_quiet _ _ _ _ h (q_fetch_variable _ _ _ _ H)) in HF
  | HF : FN _ _ ?g, H : fetch_temporary ?g = Ok (_, _) |- _ =>
      apply (fun h => FN_quiet _ _ _ _ h (q_fetch_temporary _ _ _ H)) in HF
  | HF : FN _ _ ?g, H : release_temporary ?g _ = Ok _ |- _ =>
      apply (fun h => FN_quiet _ _ _ _ h (q_release _ _ _ H)) in HF
  | HF : FN _ _ ?g, H : remove_top_pot_break false ?g = Ok _ |- _ =>
      apply (fun h => FN_quiet _ _ _ _ h (q_remove _ _ H)) in HF
  | HF : FN _ _ ?g, H : dispatch_value_opt false _ _ ?g = Ok _ |- _ =>
      apply (fun h => FN_calm _ _ _ _ h (dvo_calm _ _ _ _ H)) in HF
  | HF : FN _ _ ?g, H : create_label ?g = (_, _) |- _ =>
      let T := fresh "T" in
      apply (fun h => FN_create _ _ _ _ _ h H) in HF; destruct HF as [HF T]
  | HF : FN _ _ ?g, H : ensure_mark ?g _ = Ok (_, _) |- _ =>
      let T := fresh "T" in
      apply (fun h => FN_ensure _ _ _ _ _ _ h H) in HF; destruct HF as [HF T]
  | HF : FN _ _ ?g, H : GenModel.set_label ?g ?l ?p = Ok _, T : touchable _ ?l |- _ =>
      let Hp := fresh "Hp" in
      assert (Hp : p <> -1) by (first [apply next_pos_ne | eapply mark_pos_ne; eassumption]);
      apply (fun h => FN_set _ _ _ _ _ _ h T Hp H) in HF; clear Hp
  | HF : FN _ _ ?g, H : dvo false false false _ ?g = Ok _ |- _ =>
      let Hs := fresh "Hs" in
      pose proof (Frame_syms _ _ (proj1 HF)) as Hs;
      first [apply (Il _ _ Hs) in H | apply (Ir _ _ Hs) in H];
      apply (fun h => FN_sub _ _ _ _ h H) in HF; clear Hs
  end.

Lemma dvoid_frame : forall n, PFr n.
Proof.
  induction n as [t line file tok l r IHl IHr] using Proofs_Gen0.node_ind'. intros g g' Hs H.
  assert (Il : forall g g', g_syms g <> [] -> dvo false false false l g = Ok g' ->
                 Frame g g' /\ (g_errs g' = [] -> NewSet g g')).
  { intros x y Hx Hd. destruct l as [n|]; cbn in Hd, IHl; [apply IHl; auto|].
    inversion Hd; subst. apply (FN_done _ _ _ (FN_refl _ Hx)). auto. }
  assert (Ir : forall g g', g_syms g <> [] -> dvo false false false r g = Ok g' ->
                 Frame g g' /\ (g_errs g' = [] -> NewSet g g')).
  { intros x y Hx Hd. destruct r as [n|]; cbn in Hd, IHr; [apply IHr; auto|].
    inversion Hd; subst. apply (FN_done _ _ _ (FN_refl _ Hx)). auto. }
  clear IHl IHr.
  pose proof (FN_quiet _ _ _ _ (FN_refl g Hs) (q_adv g line file)) as HF.
  destruct (void_type t) eqn:Et.
  - destruct t; try discriminate.
    + (* SPLIT *) rewrite dvoid_split in H. binv H. repeat fn_step Il Ir.
      apply (FN_done _ _ _ HF). intros i HX; cbv beta in HX; lia.
    + (* ASSIGN *) rewrite dvoid_assign in H. binv H. repeat fn_step Il Ir.
      apply (FN_done _ _ _ HF). intros i HX; cbv beta in HX; lia.
    + (* LOOP *) rewrite dvoid_loop in H. cbv zeta in H. binv H. repeat fn_step Il Ir.
      apply (FN_done _ _ _ HF). intros i HX; cbv beta in HX; lia.
    + (* WHILE *) rewrite dvoid_while in H. cbv zeta in H. binv H. repeat fn_step Il Ir.
      apply (FN_done _ _ _ HF). intros i HX; cbv beta in HX; lia.
    + (* GOTO *) rewrite dvoid_goto in H. binv H. repeat fn_step Il Ir. inversion H; subst; clear H.
      apply (FN_done _ _ _ HF). intros i HX; cbv beta in HX; lia.
    + (* IF *) rewrite dvoid_if in H. cbv zeta in H. binv H. repeat fn_step Il Ir.
      apply (FN_done _ _ _ HF). intros i HX; cbv beta in HX; lia.
    + (* PROGRAM *) rewrite dvoid_program in H. cbv zeta in H. binv H. repeat fn_step Il Ir.
      assert (CA : calm_args (push_symbols (emit_backpatched g0 (IJmp z)) (n_tok a1)) a2).
      { eapply dargs_calm; [|exact H3]. cbn. discriminate. }
      pose proof (Ir _ _ (calm_args_syms _ _ CA) H4) as FB.
      assert (Q : quiet a3 (emit g1 (IRet z0))).
      { eapply quiet_trans; [eapply q_fetch_variable; eauto | apply q_emit]. }
      pose proof (FN_program _ _ _ _ _ _ _ _ _ HF CA FB Q H6) as HF2. clear HF.
      repeat fn_step Il Ir.
      apply (FN_done _ _ _ HF2). intros i HX; cbv beta in HX; lia.
    + (* MARK *) rewrite dvoid_mark in H. binv H. repeat fn_step Il Ir.
      apply (FN_done _ _ _ HF). intros i HX; cbv beta in HX; lia.
    + (* STOP *) rewrite dvoid_stop in H. inversion H; subst; clear H.
      apply (fun h => FN_quiet _ _ _ _ h (q_emit _ IHalt)) in HF.
      apply (FN_done _ _ _ HF). intros i HX; cbv beta in HX; lia.
  - rewrite dvoid_other in H by auto. inversion H; subst; clear H.
    apply (fun h => FN_calm _ _ _ _ h (c_err _ T_MALFORMED_AST e_malformed_ast)) in HF.
    apply (FN_done _ _ _ HF). intros i HX; cbv beta in HX; lia.
Qed.
