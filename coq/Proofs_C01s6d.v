(* Proofs_C01s6d.v — C01, stage 6 (any layout), part 8: the DYNAMIC part, values with calls and sites inside.
   Proofs_C01s4e.v for code that may contain POTENTIAL_BREAKs in front of the code of every value node (vmatch6):
   under the induction hypothesis for runs with fuel f, the code of a value computes what the checked evaluator
   computes.  No step accounting here (the reference machine executes the sites of a statement's values before the
   evaluation, the VM in between; the final views do not depend on that). *)
From Coq Require Import List ZArith NArith Lia Bool.
From Theo Require Import Base Tokens Errors MacroExtract Parser VMModel VMSpec GenModel Compile RefSem RefSemChk C01Statements C01Stages Gen_Consts Proofs_VM_mem Proofs_VM_dbg Proofs_Gen0 Proofs_Gen Proofs_Sem Proofs_C01a Proofs_C01b Proofs_C01 Proofs_C01s2a Proofs_C01s2b Proofs_C01s2 Proofs_C01s3a Proofs_C01s4a Proofs_C01s4b Proofs_C01s4c Proofs_C01s4d Proofs_C01s4e Proofs_C01s6a Proofs_C01s6c.
Import ListNotations.
Local Open Scope Z_scope.

Section Sim6.
  Variable rs : list routine.
  Variable RI : nat -> rinfo.
  Variable GB : nat -> Z -> Z.
  Variable C : list instr.
  Variable FT : ftab.
  Hypothesis FT_ok : forall j e sz mi, FT j = Some (e, sz, mi) ->
    e = ri_P0 (RI j) /\ sz = ri_N (RI j) /\ mi = ri_mi (RI j).
  Hypothesis ROK : forall k r, nth_error rs k = Some r -> routine_ok6 RI GB C FT k r.

  Notation FV := (FrameView rs RI).
  Notation LOK := (LowOK rs RI).
  Notation Top := (Top RI C).

  (* what the VM does along a run of routine k from the block at q *)
  Definition Res6 (k : nat) (s : vm) (base : Z) (d : list Z) (q : Z) (o : outcome) : Prop :=
    match o with
    | OStop views _ _ =>
        exists n s', vm_run n (vm_at s q d) = Ok s' /\ isDone s' = Ok true /\
          Forall2 (FV (data s')) (rev (stack s')) views
    | ODone ret _ _ =>
        exists n d' q' ro, vm_run n (vm_at s q d) = Ok (vm_at s q' d') /\ znth C q' = Some (IRet ro) /\
          0 <= ro < ri_N (RI k) /\ znth d' (base + ro) = Some ret /\ 0 <= ret < INT_MAX /\
          base + ri_N (RI k) <= zlen d' /\ (forall j, j < base -> znth d' j = znth d j)
    | OFuel => True
    | OBad => True
    end.

  Definition SimAt6 (fuel : nat) : Prop :=
    forall k r ctx a pc steps trace s d act rest,
      nth_error rs k = Some r -> Top k s act rest ->
      SR (ri_rm (RI k)) (data_start act) (ri_N (RI k)) a d -> LOK (data_start act) rest ctx d ->
      Res6 k s (data_start act) d (vp RI GB k r pc) (run_chk rs fuel ctx k a pc steps trace).

  Section Values6.
    Variable f : nat.
    Hypothesis IHf : SimAt6 f.
    Variables (k : nat) (r : routine) (ctx : rviews) (a : ract) (s : vm) (act : VMModel.act) (rest : list VMModel.act).
    Hypothesis Hk : nth_error rs k = Some r.
    Hypothesis HT : Top k s act rest.

    Let rm := ri_rm (RI k).
    Let N := ri_N (RI k).
    Let base := data_start act.
    Let here := ctx ++ [view_of r a].

    Let OKk : rm_ok rm N := ro6_rm _ _ _ _ _ _ (ROK _ _ Hk).

    Definition VRes6d (tgt : Z) (S : Z -> Prop) (q : Z) (v : rvalue) (n : Z) (d : list Z) (e : evres_c) : Prop :=
      match e with
      | EValc z _ _ =>
          exists m d', vm_run m (vm_at s q d) = Ok (vm_at s (q + vlen4 v + n) d') /\ zlen d' = zlen d /\
            znth d' (base + tgt) = Some z /\ 0 <= z < INT_MAX /\
            (forall j, j <> base + tgt -> (forall t, S t -> rm_tmp rm t -> j <> base + t) -> znth d' j = znth d j)
      | EStopc views _ _ =>
          exists m s', vm_run m (vm_at s q d) = Ok s' /\ isDone s' = Ok true /\
            Forall2 (FV (data s')) (rev (stack s')) views
      | EFuelc => True
      | EBadc => True
      end.

    Definition ARes6 (ts : list Z) (S : Z -> Prop) (prot : list Z) (q : Z) (args : list rvalue) (n : Z) (d : list Z)
               (x : option (list Z * nat * rtrace) + evres_c) : Prop :=
      match x with
      | inl (Some (vals, _, _)) =>
          exists m d', vm_run m (vm_at s q d) = Ok (vm_at s (q + alen4 args + n) d') /\ zlen d' = zlen d /\
            Forall2 (fun t z => znth d' (base + t) = Some z) (prot ++ ts) vals /\
            Forall (fun z => 0 <= z < INT_MAX) vals /\
            (forall j, (forall t, S t -> rm_tmp rm t -> j <> base + t) -> znth d' j = znth d j)
      | inl None => True
      | inr (EValc _ _ _) => False
      | inr (EStopc views _ _) =>
          exists m s', vm_run m (vm_at s q d) = Ok s' /\ isDone s' = Ok true /\
            Forall2 (FV (data s')) (rev (stack s')) views
      | inr EFuelc => True
      | inr EBadc => True
      end.

    (* writes to temporaries keep the store relation and the frames below *)
    Lemma SR_keep d d' : SR rm base N a d -> zlen d' = zlen d ->
      (forall j, (forall t, rm_tmp rm t -> j <> base + t) -> znth d' j = znth d j) -> SR rm base N a d'.
    Proof.
      intros HS Hl Hsame. pose proof (sr_fit _ _ _ _ _ HS) as Hf. eapply SR_stable; eauto; [lia|].
      intros i Hi Hnt. apply Hsame. intros t Ht E. assert (i = t) by lia. subst t. contradiction.
    Qed.

    Lemma LOK_keep d d' : SR rm base N a d -> LOK base rest ctx d -> zlen d' = zlen d ->
      (forall j, (forall t, rm_tmp rm t -> j <> base + t) -> znth d' j = znth d j) -> LOK base rest ctx d'.
    Proof.
      intros HS HL Hl Hsame. pose proof (sr_fit _ _ _ _ _ HS) as Hf. pose proof (ro6_N _ _ _ _ _ _ (ROK _ _ Hk)) as HN. fold N in HN.
      eapply LowOK_stable; eauto; [lia|]. intros j Hj. apply Hsame. intros t Ht E.
      pose proof (rmo_tmp_rng _ _ OKk _ Ht). lia.
    Qed.

    Lemma amatch6_tmps args ts q S prot n : amatch6 rm C FT args ts q S prot n -> Forall (rm_tmp rm) ts.
    Proof. induction 1; constructor; auto. Qed.

    Lemma prepare_not_halt6 q sz mi tgt : znth C q = Some (IPrepare sz mi tgt) -> not_halt C q.
    Proof. intros H. eexists; split; [exact H | reflexivity]. Qed.

    Lemma eval6_all :
      (forall v tgt q S n, vmatch6 rm C FT v tgt q S n ->
         forall st tr d, 0 <= tgt < N -> SR rm base N a d -> LOK base rest ctx d ->
           VRes6d tgt S q v n d (eval_c rs (run_chk rs f) a here v st tr)) /\
      (forall args ts q S prot n, amatch6 rm C FT args ts q S prot n ->
         forall acc st tr d, SR rm base N a d -> LOK base rest ctx d ->
           Forall2 (fun t z => znth d (base + t) = Some z) prot acc -> Forall (fun z => 0 <= z < INT_MAX) acc ->
           ARes6 ts S prot q args n d (evargs_of_c (eval_c rs (run_chk rs f) a here) args acc st tr)).
    Proof.
      destruct HT as (HC & Hst & Hsz & Hdi).
      apply (vamatch6_ind rm C FT
        (fun v tgt q S n _ => forall st tr d, 0 <= tgt < N -> SR rm base N a d -> LOK base rest ctx d ->
           VRes6d tgt S q v n d (eval_c rs (run_chk rs f) a here v st tr))
        (fun args ts q S prot n _ => forall acc st tr d, SR rm base N a d -> LOK base rest ctx d ->
           Forall2 (fun t z => znth d (base + t) = Some z) prot acc -> Forall (fun z => 0 <= z < INT_MAX) acc ->
           ARes6 ts S prot q args n d (evargs_of_c (eval_c rs (run_chk rs f) a here) args acc st tr))).
    - (* a site in front *)
      intros v tgt q S n Hz Hm IH st tr d Ht HS HL. specialize (IH st tr d Ht HS HL).
      pose proof (at_pb s q d ltac:(rewrite HC; exact Hz)) as Hpb.
      destruct (eval_c rs (run_chk rs f) a here v st tr) as [z st1 tr1|vw st1 tr1| |]; cbn [VRes6d] in *; auto.
      + destruct IH as (m & d' & R & L & Z1 & B1 & U1). exists (1 + m)%nat, d'.
        split; [eapply vm_run_trans; [exact Hpb|]; replace (q + vlen4 v + (n + 1)) with (q + 1 + vlen4 v + n) by lia; exact R|]. auto.
      + destruct IH as (m & s' & R & D & F). exists (1 + m)%nat, s'. split; [eapply vm_run_trans; eauto|]. auto.
    - (* a variable *)
      intros y tgt q S ry Hy Hz st tr d Ht HS HL. pose proof HS as [Hf Hvar Hcnt Hvb Hcb]. cbn [eval_c VRes6d vlen4 vlen].
      destruct (zupd_ex d (base + tgt) (clampz (get (ra_vars a) y + 0)) ltac:(lia)) as [d' Hu].
      assert (Ec : clampz (get (ra_vars a) y + 0) = get (ra_vars a) y) by (specialize (Hvb y); unfold clampz; lia).
      exists 1%nat, d'. rewrite Z.add_0_r. split; [eapply at_add; [rewrite HC; exact Hz | exact Hst | apply Hvar; exact Hy | exact Hu]|].
      split; [apply (zupd_length _ _ _ _ Hu)|]. split; [rewrite (znth_zupd _ _ _ _ Hu), Z.eqb_refl, Ec; reflexivity|].
      split; [apply Hvb|].
      intros j Hj _. rewrite (znth_zupd _ _ _ _ Hu). destruct (Z.eqb_spec j (base + tgt)); [contradiction | reflexivity].
    - (* a literal *)
      intros c tgt q S Hc Hz st tr d Ht HS HL. pose proof HS as [Hf Hvar Hcnt Hvb Hcb]. cbn [eval_c VRes6d vlen4 vlen].
      destruct (zupd_ex d (base + tgt) c ltac:(lia)) as [d' Hu].
      exists 1%nat, d'. rewrite Z.add_0_r. split; [eapply at_const; [rewrite HC; exact Hz | exact Hst | exact Hu]|].
      split; [apply (zupd_length _ _ _ _ Hu)|]. split; [rewrite (znth_zupd _ _ _ _ Hu), Z.eqb_refl; reflexivity|].
      split; [exact Hc|].
      intros j Hj _. rewrite (znth_zupd _ _ _ _ Hu). destruct (Z.eqb_spec j (base + tgt)); [contradiction | reflexivity].
    - (* y + c *)
      intros y c tgt q S t1 t2 n1 n2 T1 T2 S1 S2 Hne M1 IH1 M2 IH2 Z2 st tr d Ht HS HL. pose proof HS as [Hf Hvar Hcnt Hvb Hcb].
      pose proof (rmo_tmp_rng _ _ OKk _ T1) as R1. pose proof (rmo_tmp_rng _ _ OKk _ T2) as R2.
      specialize (IH1 st tr d R1 HS HL). cbn [eval_c] in IH1 |- *. cbn [VRes6d vlen4 vlen] in IH1.
      destruct IH1 as (m1 & d1 & Run1 & L1 & Zx & Bx & U1).
      destruct (Z.leb_spec INT_MAX (get (ra_vars a) y + c)) as [|Hlt]; [exact I|]. cbn [VRes6d vlen4 vlen].
      assert (HS1 : SR rm base N a d1).
      { eapply SR_keep; [exact HS | exact L1 |]. intros j0 Hj0. apply U1; [apply Hj0; exact T1 | intros t0 []]. }
      assert (HL1 : LOK base rest ctx d1).
      { eapply LOK_keep; [exact HS | exact HL | exact L1 |]. intros j0 Hj0. apply U1; [apply Hj0; exact T1 | intros t0 []]. }
      specialize (IH2 st tr d1 R2 HS1 HL1). cbn [eval_c VRes6d vlen4 vlen] in IH2.
      destruct IH2 as (m2 & d2 & Run2 & L2 & Zc & Bc & U2).
      set (x := get (ra_vars a) y) in *.
      assert (Rd : znth d2 (base + t1) = Some x).
      { rewrite U2; [exact Zx | lia | intros t0 []]. }
      destruct (zupd_ex d2 (base + tgt) (clampz (x + c)) ltac:(lia)) as [d3 U3].
      assert (E3 : clampz (x + c) = x + c) by (unfold clampz; lia).
      exists (m1 + (m2 + 1))%nat, d3. split.
      { eapply vm_run_trans; [exact Run1|]. eapply vm_run_trans; [exact Run2|].
        replace (q + 3 + (n1 + n2)) with (q + 1 + n1 + 1 + n2 + 1) by lia.
        eapply at_add; [rewrite HC; replace (q + 1 + n1 + 1 + n2) with (q + 2 + n1 + n2) by lia; exact Z2 | exact Hst | exact Rd | exact U3]. }
      split; [pose proof (zupd_length _ _ _ _ U3); lia|].
      split; [rewrite (znth_zupd _ _ _ _ U3), Z.eqb_refl, E3; reflexivity|]. split; [lia|].
      intros j Hj Hs. rewrite (znth_zupd _ _ _ _ U3). destruct (Z.eqb_spec j (base + tgt)); [contradiction|].
      rewrite U2; [|intros E; exact (Hs t2 S2 T2 E) | intros t0 []].
      apply U1; [intros E; exact (Hs t1 S1 T1 E) | intros t0 []].
    - (* y - c *)
      intros y c tgt q S t1 t2 n1 n2 T1 T2 S1 S2 Hne M1 IH1 M2 IH2 Z2 st tr d Ht HS HL. pose proof HS as [Hf Hvar Hcnt Hvb Hcb].
      pose proof (rmo_tmp_rng _ _ OKk _ T1) as R1. pose proof (rmo_tmp_rng _ _ OKk _ T2) as R2.
      specialize (IH1 st tr d R1 HS HL). cbn [eval_c] in IH1 |- *. cbn [VRes6d vlen4 vlen] in IH1 |- *.
      destruct IH1 as (m1 & d1 & Run1 & L1 & Zx & Bx & U1).
      assert (HS1 : SR rm base N a d1).
      { eapply SR_keep; [exact HS | exact L1 |]. intros j0 Hj0. apply U1; [apply Hj0; exact T1 | intros t0 []]. }
      assert (HL1 : LOK base rest ctx d1).
      { eapply LOK_keep; [exact HS | exact HL | exact L1 |]. intros j0 Hj0. apply U1; [apply Hj0; exact T1 | intros t0 []]. }
      specialize (IH2 st tr d1 R2 HS1 HL1). cbn [eval_c VRes6d vlen4 vlen] in IH2.
      destruct IH2 as (m2 & d2 & Run2 & L2 & Zc & Bc & U2).
      set (x := get (ra_vars a) y) in *.
      assert (Rd : znth d2 (base + t1) = Some x).
      { rewrite U2; [exact Zx | lia | intros t0 []]. }
      destruct (zupd_ex d2 (base + tgt) (clampz (x + - c)) ltac:(lia)) as [d3 U3].
      assert (E3 : clampz (x + - c) = Z.max (x - c) 0) by (unfold clampz; lia).
      exists (m1 + (m2 + 1))%nat, d3. split.
      { eapply vm_run_trans; [exact Run1|]. eapply vm_run_trans; [exact Run2|].
        replace (q + 3 + (n1 + n2)) with (q + 1 + n1 + 1 + n2 + 1) by lia.
        eapply at_add; [rewrite HC; replace (q + 1 + n1 + 1 + n2) with (q + 2 + n1 + n2) by lia; exact Z2 | exact Hst | exact Rd | exact U3]. }
      split; [pose proof (zupd_length _ _ _ _ U3); lia|].
      split; [rewrite (znth_zupd _ _ _ _ U3), Z.eqb_refl, E3; reflexivity|]. split; [lia|].
      intros j Hj Hs. rewrite (znth_zupd _ _ _ _ U3). destruct (Z.eqb_spec j (base + tgt)); [contradiction|].
      rewrite U2; [|intros E; exact (Hs t2 S2 T2 E) | intros t0 []].
      apply U1; [intros E; exact (Hs t1 S1 T1 E) | intros t0 []].
    - (* a call *)
      intros j args tgt q S ts entry size mi n HFj Ham IHa Zp Za Ze st tr d Ht HS HL. pose proof HS as [Hf Hvar Hcnt Hvb Hcb].
        rewrite eval_c_call.
        pose proof (IHa [] st tr d HS HL (Forall2_nil _) (Forall_nil _)) as HA.
        destruct (evargs_of_c (eval_c rs (run_chk rs f) a here) args [] st tr) as [[[[vals st1] tr1]|]|e] eqn:EA;
          cbn [ARes6 call_of_c] in *; [| exact I | destruct e; cbn [VRes6d]; auto; contradiction].
        destruct HA as (n1 & d1 & R1 & L1 & V1 & B1 & U1). cbn [app] in V1.
        destruct (nth_error rs j) as [callee|] eqn:Ej; [|exact I].
        destruct (Nat.eqb (length vals) (length (r_params callee))) eqn:El; cbn [negb]; [|exact I].
        apply Nat.eqb_eq in El. cbv zeta.
        destruct (FT_ok _ _ _ _ HFj) as (-> & -> & ->).
        pose proof (ROK _ _ Ej) as [OKj Gb0j _ CMj Parj NDj HNj].
        set (Nj := ri_N (RI j)) in *. set (rmj := ri_rm (RI j)) in *.
        pose proof (amatch6_length _ _ _ _ _ _ _ _ _ Ham) as Lts. pose proof (amatch6_nonneg _ _ _ _ _ _ _ _ _ Ham) as Hn0. pose proof (Forall2_len _ _ _ V1) as Lv.
        pose proof (amatch6_tmps _ _ _ _ _ _ Ham) as Tts.
        assert (HS1 : SR rm base N a d1).
        { eapply SR_keep; [exact HS | exact L1 |]. intros j0 Hj0. apply U1. intros t0 _ T0. apply Hj0; exact T0. }
        assert (HL1 : LOK base rest ctx d1).
        { eapply LOK_keep; [exact HS | exact HL | exact L1 |]. intros j0 Hj0. apply U1. intros t0 _ T0. apply Hj0; exact T0. }
        pose proof (sr_fit _ _ _ _ _ HS1) as Hf1.
        set (qa := q + alen4 args + n) in *.
        set (base' := zlen d1).
        set (a' := mkRAct (fold_left (fun s0 pv => put s0 (fst pv) (snd pv)) (combine (r_params callee) vals) []) []).
        (* PREPARE *)
        set (dP := d1 ++ zrepeat 0 (Z.to_nat Nj)).
        set (actj0 := mkAct base' Nj tgt (-1) (ri_mi (RI j))).
        assert (RP : vm_run 1 (vm_at s qa d1) = Ok (vm_st s (qa + 1) dP (actj0 :: act :: rest))).
        { rewrite vm_at_st, Hst. apply st_prepare. rewrite HC. exact Zp. }
        assert (LP : zlen dP = base' + Nj) by (unfold dP; rewrite zlen_app, zlen_zrepeat; unfold base'; lia).
        (* ARG *)
        assert (Hnp : zlen ts <= Nj).
        { unfold zlen. rewrite Lts. destruct args as [|a0 args']; [cbn; lia|].
          assert (Hlast : exists p, nth_error (r_params callee) (length (a0 :: args') - 1) = Some p).
          { destruct (nth_error (r_params callee) (length (a0 :: args') - 1)) eqn:E; [eauto|]. apply nth_error_None in E.
            cbn [length] in *. lia. }
          destruct Hlast as [p Hp]. pose proof (rmo_var_rng _ _ OKj _ _ (Parj _ _ Hp)). cbn [length] in *. lia. }
        destruct (run_args C s actj0 act rest base' ts vals (qa + 1) 0 dP HC eq_refl) as (dA & RA & LA & VA & UA).
        { intros i t Hi. replace (qa + 1 + Z.of_nat i) with (q + alen4 args + n + 1 + Z.of_nat i) by (unfold qa; lia). rewrite Z.add_0_l. apply Za. exact Hi. }
        { clear - V1 Tts OKk Hf1. fold base. revert Tts. induction V1 as [|t z l l' A V1 IHV]; intros Tts; constructor.
          - inversion Tts as [|? ? Tt Tts']; subst. pose proof (rmo_tmp_rng _ _ OKk _ Tt). split; [|unfold base'; lia].
            unfold dP. apply znth_app_some. exact A.
          - inversion Tts; subst. apply IHV; assumption. }
        { lia. }
        { unfold base'. apply zlen_nonneg. }
        { lia. }
        rewrite Z.add_0_r in *.
        (* EXEC *)
        set (actj := mkAct base' Nj tgt (qa + 1 + zlen ts + 1) (ri_mi (RI j))).
        assert (RE : vm_run 1 (vm_st s (qa + 1 + zlen ts) dA (actj0 :: act :: rest)) =
                     Ok (vm_st s (ri_P0 (RI j)) dA (actj :: act :: rest))).
        { apply st_exec. rewrite HC. replace (qa + 1 + zlen ts) with (q + alen4 args + n + 1 + zlen args) by (unfold qa, zlen; rewrite Lts; lia). exact Ze. }
        set (sc := vm_st s (ri_P0 (RI j)) dA (actj :: act :: rest)).
        assert (Rcall : vm_run (n1 + (1 + (length ts + 1))) (vm_at s q d) = Ok sc).
        { eapply vm_run_trans; [exact R1|]. eapply vm_run_trans; [exact RP|]. eapply vm_run_trans; [exact RA | exact RE]. }
        assert (Evp : vp RI GB j callee 0 = ri_P0 (RI j)).
        { unfold vp. rewrite Gb0j, Z.sub_0_r. unfold pm4, pm_of4. cbn [Z.to_nat boff4]. apply Z.add_0_r. }
        (* the callee's frame *)
        assert (HTj : Top j sc actj (act :: rest)) by (split; [exact HC|]; split; [reflexivity|]; split; reflexivity).
        assert (HSj : SR rmj (data_start actj) Nj a' dA).
        { apply SR_fresh with (params := r_params callee) (vals := vals);
            [exact OKj | exact Parj | exact NDj | exact El | exact B1 | | | |].
          - unfold base'. apply zlen_nonneg.
          - cbn [data_start actj]. lia.
          - intros i z Hi. cbn [data_start actj]. exact (VA i z Hi).
          - intros i Hi. cbn [data_start actj]. rewrite UA by (unfold zlen in *; lia).
            unfold dP. apply znth_app_zeros. fold base'. unfold zlen in *. lia. }
        assert (HLj : LOK (data_start actj) (act :: rest) here dA).
        { assert (Hpre : forall j0, j0 < base' -> znth dA j0 = znth d1 j0).
          { intros j0 Hj0. rewrite UA by lia. unfold dP. rewrite znth_app_l by (fold base'; lia). reflexivity. }
          split.
          - cbn [rev]. apply Forall2_app.
            + assert (HLA : LOK base rest ctx dA).
              { eapply LowOK_stable; [exact HL1 | unfold base' in *; lia |]. intros j0 Hj0. apply Hpre. unfold base'. lia. }
              exact (proj1 HLA).
            + constructor; [|constructor]. exists k, r, a. split; [exact Hk|]. split; [reflexivity|].
              split; [|split; [exact OKk | split; [exact Hsz | exact Hdi]]].
              eapply SR_stable; [exact OKk | exact HS1 | lia |]. intros i Hi _. apply Hpre. unfold base'. lia.
          - intros a0 [<-|Ha0]; cbn [data_start actj].
            + rewrite Hsz. fold N. unfold base'. lia.
            + destruct HL1 as [_ HLb]. specialize (HLb _ Ha0). unfold base'. lia. }
        pose proof (IHf j callee here a' 0 st1 tr1 sc dA actj (act :: rest) Ej HTj HSj HLj) as HR.
        rewrite Evp in HR.
        destruct (run_chk rs f here j a' 0 st1 tr1) as [ret st2 tr2|vw st2 tr2| |] eqn:Erun; cbn [Res6 VRes6d] in *.
        + (* the callee returns *)
          destruct HR as (n2 & d2 & q2 & ro & R2 & Zr & Rro & Zret & Bret & F2 & P2).
          cbn [data_start actj] in *.
          destruct (zupd_ex d2 (base + tgt) ret ltac:(lia)) as [d3 U3]. pose proof (zupd_length _ _ _ _ U3) as L3.
          assert (RR : vm_run 1 (vm_st s q2 d2 (actj :: act :: rest)) =
                       Ok (vm_st s (qa + 1 + zlen ts + 1) (firstn (Z.to_nat base') d3) (act :: rest))).
          { apply (st_ret s q2 d2 actj act rest ro ret d3); [rewrite HC; exact Zr | exact Zret | exact U3 |].
            cbn [data_start actj]. unfold base'. pose proof (zlen_nonneg d1). lia. }
          assert (Efin : vm_st s (qa + 1 + zlen ts + 1) (firstn (Z.to_nat base') d3) (act :: rest) =
                         vm_at s (q + vlen4 (RCall j args) + n) (firstn (Z.to_nat base') d3)).
          { unfold vm_st, vm_at. rewrite Hst, vlen4_call.
            replace (qa + 1 + zlen ts + 1) with (q + (alen4 args + zlen args + 2) + n) by (unfold qa, zlen; rewrite Lts; lia). reflexivity. }
          rewrite Efin in RR.
          exists (n1 + (1 + (length ts + 1)) + (n2 + 1))%nat, (firstn (Z.to_nat base') d3).
          split; [eapply vm_run_trans; [exact Rcall|]; eapply vm_run_trans; [exact R2 | exact RR]|].
          assert (Hb0 : 0 <= base') by (unfold base'; apply zlen_nonneg).
          split; [rewrite zlen_firstn by lia; unfold base'; lia|].
          split; [rewrite znth_firstn by lia; destruct (Z.ltb_spec (base + tgt) base'); [|unfold base' in *; lia];
                  rewrite (znth_zupd _ _ _ _ U3), Z.eqb_refl; reflexivity|].
          split; [exact Bret|].
          intros j0 Hj0 Hs0. rewrite znth_firstn by lia. destruct (Z.ltb_spec j0 base') as [Hlt|Hge].
          * rewrite (znth_zupd _ _ _ _ U3). destruct (Z.eqb_spec j0 (base + tgt)); [contradiction|].
            rewrite P2 by exact Hlt. rewrite UA by lia. unfold dP. rewrite znth_app_l by (fold base'; lia).
            apply U1. exact Hs0.
          * symmetry. apply znth_none_ge. unfold base' in Hge. lia.
        + (* the machine ends inside the callee *)
          destruct HR as (n2 & s' & R2 & D2 & F2).
          exists (n1 + (1 + (length ts + 1)) + n2)%nat, s'.
          split; [eapply vm_run_trans; [exact Rcall | exact R2]|]. split; [exact D2 | exact F2].
        + exact I.
        + exact I.
    - (* no argument *)
      intros q S prot acc st tr d HS HL Hacc Hb. cbn [evargs_of_c ARes6 alen4]. exists 0%nat, d. rewrite !Z.add_0_r, app_nil_r.
      split; [reflexivity|]. split; [reflexivity|]. split; [exact Hacc|]. split; [exact Hb | auto].
    - (* one more argument *)
      intros v vs t ts q S S1 prot n1 n2 Tt St Hn HS1 Hvm IHv Ham IHa acc st tr d HS HL Hacc Hb. rewrite evargs_c_cons.
      pose proof (rmo_tmp_rng _ _ OKk _ Tt) as Rt.
      pose proof (IHv st tr d Rt HS HL) as HV.
      destruct (eval_c rs (run_chk rs f) a here v st tr) as [z st1 tr1|vw st1 tr1| |] eqn:Ev; cbn [VRes6d ARes6] in *; auto.
      destruct HV as (m1 & d1 & R1 & L1 & Z1 & B1 & U1).
      assert (Hsame1 : forall j, (forall t0, rm_tmp rm t0 -> j <> base + t0) -> znth d1 j = znth d j).
      { intros j Hj. apply U1; [apply Hj; exact Tt|]. intros t0 _ T0. apply Hj; exact T0. }
      assert (HS1' : SR rm base N a d1) by exact (SR_keep d d1 HS L1 Hsame1).
      assert (HL1 : LOK base rest ctx d1) by exact (LOK_keep d d1 HS HL L1 Hsame1).
      assert (Hacc1 : Forall2 (fun t z => znth d1 (base + t) = Some z) (prot ++ [t]) (acc ++ [z])).
      { apply Forall2_snoc; [|exact Z1].
        apply (Forall2_keep_reads d d1 base prot acc Hacc). intros t' Hin'. apply U1.
        - intros E. assert (t' = t) by lia. subst t'. contradiction.
        - intros t0 S0 _ E. assert (t' = t0) by lia. subst t0. destruct (HS1 _ S0) as [_ Hnp]. contradiction. }
      assert (Hb1 : Forall (fun z => 0 <= z < INT_MAX) (acc ++ [z])) by (apply Forall_app; split; [exact Hb | constructor; [exact B1 | constructor]]).
      pose proof (IHa (acc ++ [z]) st1 tr1 d1 HS1' HL1 Hacc1 Hb1) as HR.
      destruct (evargs_of_c (eval_c rs (run_chk rs f) a here) vs (acc ++ [z]) st1 tr1) as [[[[vals st2] tr2]|]|e]; cbn [ARes6] in *.
      + destruct HR as (m2 & d2 & R2 & L2 & V2 & B2 & U2).
        exists (m1 + m2)%nat, d2. cbn [alen4]. replace (q + (vlen4 v + alen4 vs) + (n1 + n2)) with (q + vlen4 v + n1 + alen4 vs + n2) by lia.
        split; [eapply vm_run_trans; eauto|]. split; [lia|]. split; [rewrite <- app_assoc in V2; exact V2|]. split; [exact B2|].
        intros j Hj. rewrite U2 by exact Hj. apply U1.
        * apply Hj; [exact St | exact Tt].
        * intros t0 S0 T0. apply Hj; [apply HS1; exact S0 | exact T0].
      + exact I.
      + destruct e as [z2 st2 tr2|vw st2 tr2| |]; cbn [ARes6] in *; auto.
        destruct HR as (m2 & s' & R2 & D2 & F2). exists (m1 + m2)%nat, s'.
        split; [eapply vm_run_trans; eauto|]. split; [exact D2 | exact F2].
    Qed.

    Lemma eval6 v tgt q S n st tr d : vmatch6 rm C FT v tgt q S n -> 0 <= tgt < N ->
      SR rm base N a d -> LOK base rest ctx d ->
      VRes6d tgt S q v n d (eval_c rs (run_chk rs f) a here v st tr).
    Proof. intros HM Ht HS HL. exact (proj1 eval6_all v tgt q S n HM st tr d Ht HS HL). Qed.
  End Values6.
End Sim6.
