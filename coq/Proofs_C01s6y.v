(* Proofs_C01s6y.v — stage 6: the hypotheses are satisfiable (parsed sources whose values are spread over lines).
   The checks are stated over the parse result directly and proved for every parse result first (ex6_generic), so
   that no constant hides the evaluation from vm_compute at Qed. *)
From Coq Require Import List ZArith NArith Lia Bool.
From Theo Require Import Base Tokens Errors MacroExtract Parser VMModel VMSpec GenModel Compile RefSem RefSemChk C01Statements C01Stages.
From Theo Require Import C01Stages3 C01Stages4 NamesStatements Stage6Statements Proofs_C01s2 Proofs_C01s6q Proofs_Stage6.
Import ListNotations.
Local Open Scope Z_scope.

Definition vals_of (v : rviews) : list (list Z) := map (fun fr => map snd (snd fr)) v.
Definition vals_eqb (a b : list (list Z)) : bool := if list_eq_dec (list_eq_dec Z.eq_dec) a b then true else false.
Lemma vals_eqb_eq a b : vals_eqb a b = true -> a = b.
Proof. unfold vals_eqb. destruct (list_eq_dec (list_eq_dec Z.eq_dec) a b); [auto | discriminate]. Qed.

(* ================================================================================================ *)
(* 1. C01_anylayout: values (calls too) spread over lines                                           *)
(* ================================================================================================ *)
(* PROGRAM add IN a, b OUT r DO
     r := a;
     LOOP b DO r := r
       + 1 END
   END
   x :=
     3;
   y := RUN add WITH RUN add WITH x,
      1 END,
      4
    END;
   IF y
    = 8 THEN GOTO l;
   y := 0;
   l: z := y -
    2                                   ends with x = 3, y = 8, z = 6 after 48 reference steps *)
Definition ex6_src : str :=
  [80; 82; 79; 71; 82; 65; 77; 32; 97; 100; 100; 32; 73; 78; 32; 97; 44; 32; 98; 32; 79; 85; 84; 32; 114;
   32; 68; 79; 10; 32; 32; 114; 32; 58; 61; 32; 97; 59; 10; 32; 32; 76; 79; 79; 80; 32; 98; 32; 68; 79; 32;
   114; 32; 58; 61; 32; 114; 10; 32; 32; 32; 32; 43; 32; 49; 32; 69; 78; 68; 10; 69; 78; 68; 10; 120; 32;
   58; 61; 10; 32; 32; 51; 59; 10; 121; 32; 58; 61; 32; 82; 85; 78; 32; 97; 100; 100; 32; 87; 73; 84; 72;
   32; 82; 85; 78; 32; 97; 100; 100; 32; 87; 73; 84; 72; 32; 120; 44; 10; 32; 32; 32; 49; 32; 69; 78; 68;
   44; 10; 32; 32; 32; 52; 10; 32; 69; 78; 68; 59; 10; 73; 70; 32; 121; 10; 32; 61; 32; 56; 32; 84; 72; 69;
   78; 32; 71; 79; 84; 79; 32; 108; 59; 10; 121; 32; 58; 61; 32; 48; 59; 10; 108; 58; 32; 122; 32; 58; 61;
   32; 121; 32; 45; 10; 32; 50]%N.

Definition ex6_fun (pr : result parse_result) : bool :=
  match pr with
  | Ok p =>
      match pr_root p with
      | Some root =>
          match gen true [] (Some root), abstract_source (Some root) with
          | Ok r, Some rs =>
              match run_ref_chk 200 rs with
              | OStop rviews steps trace =>
                  pr_ok p && shape4 root && headers_ok root && lexable_names root && negb (canonical4 root) &&
                  gr_ok r && Nat.eqb steps 48 && vals_eqb (vals_of rviews) [[3; 8; 6]]
              | _ => false
              end
          | _, _ => false
          end
      | None => false
      end
  | _ => false
  end.

Definition ex6_prop (pr : result parse_result) : Prop :=
  match pr with
  | Ok p =>
      match pr_root p with
      | Some root =>
          match gen true [] (Some root), abstract_source (Some root) with
          | Ok r, Some rs =>
              match run_ref_chk 200 rs with
              | OStop rviews steps trace =>
                  pr_ok p = true /\ shape4 root = true /\ headers_ok root = true /\ lexable_names root = true /\
                  canonical4 root = false /\
                  steps = 48%nat /\ vals_of rviews = [[3; 8; 6]] /\
                  sim_conclusion r rviews steps
              | _ => False
              end
          | _, _ => False
          end
      | None => False
      end
  | _ => False
  end.

Lemma ex6_generic pr : ex6_fun pr = true -> ex6_prop pr.
Proof.
  intros H. unfold ex6_fun in H. unfold ex6_prop.
  destruct pr as [p| |]; [|exfalso; discriminate H..].
  destruct (pr_root p) as [root|]; [|exfalso; discriminate H].
  destruct (gen true [] (Some root)) as [r| |] eqn:Eg; [|exfalso; discriminate H..].
  destruct (abstract_source (Some root)) as [rs|] eqn:Ea; [|exfalso; discriminate H].
  destruct (run_ref_chk 200 rs) as [? ? ?|rviews steps trace| |] eqn:Hrun; [exfalso; discriminate H| |exfalso; discriminate H..].
  apply andb_prop in H; destruct H as [H H8].
  apply andb_prop in H; destruct H as [H H7].
  apply andb_prop in H; destruct H as [H H6].
  apply andb_prop in H; destruct H as [H H5].
  apply andb_prop in H; destruct H as [H H4].
  apply andb_prop in H; destruct H as [H H3].
  apply andb_prop in H; destruct H as [H1 H2].
  apply Nat.eqb_eq in H7. apply vals_eqb_eq in H8. apply negb_true_iff in H5.
  split; [exact H1|]. split; [exact H2|]. split; [exact H3|]. split; [exact H4|]. split; [exact H5|].
  split; [exact H7|]. split; [exact H8|].
  exact (C01_anylayout_proof root r rs 200%nat rviews steps trace H2 H3 H4 Eg H6 Ea Hrun).
Qed.

Lemma ex6_check_true : ex6_fun (Compile.parse [(ex_name, ex6_src)] ex_name) = true.
Proof. vm_compute. reflexivity. Qed.

(* ex_name is the file name "p.t" *)
Lemma C01_anylayout_instance : ex6_prop (Compile.parse [(ex_name, ex6_src)] ex_name).
Proof. exact (ex6_generic _ ex6_check_true). Qed.

(* ================================================================================================ *)
(* 2. the budget clause: the +/- sugar, the operands of IF and an assigned number spread over lines, *)
(*    the calls on the line of their assignment                                                     *)
(* ================================================================================================ *)
(* as above, with   y := RUN add WITH RUN add WITH x, 1 END, 4 END;   on one line *)
Definition ex6b_src : str :=
  [80; 82; 79; 71; 82; 65; 77; 32; 97; 100; 100; 32; 73; 78; 32; 97; 44; 32; 98; 32; 79; 85; 84; 32; 114;
   32; 68; 79; 10; 32; 32; 114; 32; 58; 61; 32; 97; 59; 10; 32; 32; 76; 79; 79; 80; 32; 98; 32; 68; 79; 32;
   114; 32; 58; 61; 32; 114; 10; 32; 32; 32; 32; 43; 32; 49; 32; 69; 78; 68; 10; 69; 78; 68; 10; 120; 32;
   58; 61; 10; 32; 32; 51; 59; 10; 121; 32; 58; 61; 32; 82; 85; 78; 32; 97; 100; 100; 32; 87; 73; 84; 72;
   32; 82; 85; 78; 32; 97; 100; 100; 32; 87; 73; 84; 72; 32; 120; 44; 32; 49; 32; 69; 78; 68; 44; 32; 52;
   32; 69; 78; 68; 59; 10; 73; 70; 32; 121; 10; 32; 61; 32; 56; 32; 84; 72; 69; 78; 32; 71; 79; 84; 79; 32;
   108; 59; 10; 121; 32; 58; 61; 32; 48; 59; 10; 108; 58; 32; 122; 32; 58; 61; 32; 121; 32; 45; 10; 32; 50]%N.

Definition ex6b_fun (pr : result parse_result) : bool :=
  match pr with
  | Ok p =>
      match pr_root p with
      | Some root =>
          match gen true [] (Some root), abstract_source (Some root) with
          | Ok r, Some rs =>
              match run_ref_chk 200 rs with
              | OStop rviews steps trace =>
                  pr_ok p && shape4 root && headers_ok root && lexable_names root && negb (canonical4 root) &&
                  calls_on_line root && gr_ok r && Nat.eqb steps 46 && vals_eqb (vals_of rviews) [[3; 8; 6]]
              | _ => false
              end
          | _, _ => false
          end
      | None => false
      end
  | _ => false
  end.

Definition ex6b_prop (pr : result parse_result) : Prop :=
  match pr with
  | Ok p =>
      match pr_root p with
      | Some root =>
          match gen true [] (Some root), abstract_source (Some root) with
          | Ok r, Some rs =>
              match run_ref_chk 200 rs with
              | OStop rviews steps trace =>
                  pr_ok p = true /\ shape4 root = true /\ headers_ok root = true /\ lexable_names root = true /\
                  canonical4 root = false /\ calls_on_line root = true /\
                  steps = 46%nat /\ vals_of rviews = [[3; 8; 6]] /\
                  sim_conclusion r rviews steps /\
                  (forall n s, run_ref_chk n rs = OFuel -> vm_run n (init (gr_prog r)) = Ok s -> isDone s = Ok false)
              | _ => False
              end
          | _, _ => False
          end
      | None => False
      end
  | _ => False
  end.

Lemma ex6b_generic pr : ex6b_fun pr = true -> ex6b_prop pr.
Proof.
  intros H. unfold ex6b_fun in H. unfold ex6b_prop.
  destruct pr as [p| |]; [|exfalso; discriminate H..].
  destruct (pr_root p) as [root|]; [|exfalso; discriminate H].
  destruct (gen true [] (Some root)) as [r| |] eqn:Eg; [|exfalso; discriminate H..].
  destruct (abstract_source (Some root)) as [rs|] eqn:Ea; [|exfalso; discriminate H].
  destruct (run_ref_chk 200 rs) as [? ? ?|rviews steps trace| |] eqn:Hrun; [exfalso; discriminate H| |exfalso; discriminate H..].
  apply andb_prop in H; destruct H as [H H9].
  apply andb_prop in H; destruct H as [H H8].
  apply andb_prop in H; destruct H as [H H7].
  apply andb_prop in H; destruct H as [H H6].
  apply andb_prop in H; destruct H as [H H5].
  apply andb_prop in H; destruct H as [H H4].
  apply andb_prop in H; destruct H as [H H3].
  apply andb_prop in H; destruct H as [H1 H2].
  apply Nat.eqb_eq in H8. apply vals_eqb_eq in H9. apply negb_true_iff in H5.
  split; [exact H1|]. split; [exact H2|]. split; [exact H3|]. split; [exact H4|]. split; [exact H5|]. split; [exact H6|].
  split; [exact H8|]. split; [exact H9|]. split.
  - exact (C01_anylayout_proof root r rs 200%nat rviews steps trace H2 H3 H4 Eg H7 Ea Hrun).
  - intros n s Hf Hv. exact (C01_anylayout_budget_partial root r rs n s H2 H3 H4 H6 Eg H7 Ea Hf Hv).
Qed.

Lemma ex6b_check_true : ex6b_fun (Compile.parse [(ex_name, ex6b_src)] ex_name) = true.
Proof. vm_compute. reflexivity. Qed.

Lemma C01_anylayout_budget_partial_instance : ex6b_prop (Compile.parse [(ex_name, ex6b_src)] ex_name).
Proof. exact (ex6b_generic _ ex6b_check_true). Qed.

Print Assumptions C01_anylayout_instance.
Print Assumptions C01_anylayout_budget_partial_instance.
