(* Proofs_GenWf0.v — the invariant behind C03_gen_wf: a ghost assignment of an owner (routine entry, 0 for the
   main program) and a pending-call state to every code position, and its preservation by every primitive
   step of the generator.  Nothing is assumed. *)
From Coq Require Import List ZArith NArith Lia Bool.
From Theo Require Import Base Tokens Errors MacroExtract Parser VMModel VMSpec VMStatements VMCheck VMCheckStatements GenModel CompileStatements Proofs_VM_mem Proofs_VM_dbg Proofs_VMCheck Proofs_Front Proofs_Gen0 Proofs_Gen Proofs_Static0 Proofs_Static1 GenWfStatements.
Import ListNotations.
Local Open Scope Z_scope.

(* ================================================================================================ *)
(* 1. small tools                                                                                   *)
(* ================================================================================================ *)
Definition upd {A} (f : Z -> A) (k : Z) (v : A) : Z -> A := fun x => if x =? k then v else f x.

Lemma upd_same {A} (f : Z -> A) k v : upd f k v k = v.
Proof. unfold upd. rewrite Z.eqb_refl. reflexivity. Qed.

Lemma upd_other {A} (f : Z -> A) k v x : x <> k -> upd f k v x = f x.
Proof. unfold upd. intros H. destruct (Z.eqb_spec x k); [contradiction | reflexivity]. Qed.

Definition pm (maps : list stackmap) : program := mkProg [] maps [] [].

Definition maps_le (p p' : program) : Prop :=
  forall idx c, map_ok p idx c = true -> map_ok p' idx c = true.

Lemma maps_le_refl p : maps_le p p.
Proof. intros idx c H. exact H. Qed.

Lemma maps_le_app maps x : maps_le (pm maps) (pm (maps ++ x)).
Proof.
  intros idx c. unfold map_ok, pm. cbn [stack_maps].
  destruct (znth maps idx) as [sm|] eqn:E; [|discriminate].
  rewrite znth_app_l by (apply znth_some_range in E; lia). rewrite E. auto.
Qed.

Lemma maps_le_same p p' : stack_maps p' = stack_maps p -> maps_le p p'.
Proof. intros E idx c. unfold map_ok. rewrite E. auto. Qed.

Lemma in_frame_mono r f f' : f <= f' -> in_frame r f = true -> in_frame r f' = true.
Proof.
  unfold in_frame. intros L H. apply andb_true_iff in H. destruct H as [H1 H2].
  apply Z.ltb_lt in H2. rewrite H1. cbn. apply Z.ltb_lt. lia.
Qed.

Lemma in_frame_intro r f : 0 <= r < f -> in_frame r f = true.
Proof. unfold in_frame. intros H. apply andb_true_iff. split; [apply Z.leb_le | apply Z.ltb_lt]; lia. Qed.

Lemma instr_ok_le p p' a a' i : maps_le p p' -> a_rid a' = a_rid a -> a_pending a' = a_pending a ->
  a_frame a <= a_frame a' -> instr_ok p a i = true -> instr_ok p' a' i = true.
Proof.
  intros HM Hr Hp Hf. unfold instr_ok. rewrite Hp, Hr.
  destruct (a_pending a); destruct (iop i); try discriminate; auto;
    rewrite ?andb_true_iff; intuition eauto using in_frame_mono.
Qed.

Lemma instr_ok_jmp p a i i' : iop i = JMP \/ iop i = JMPC -> iop i' = iop i -> ib i' = ib i ->
  instr_ok p a i = true -> instr_ok p a i' = true.
Proof.
  intros Hj Ho Hb. unfold instr_ok. rewrite Ho, Hb. destruct Hj as [Hj|Hj]; rewrite Hj; auto.
Qed.

(* the pending state of a position is None unless the instruction is ARG or EXEC *)
Lemma instr_ok_pending p a i : instr_ok p a i = true ->
  match iop i with ARG | EXEC => a_pending a <> None | _ => a_pending a = None end.
Proof.
  unfold instr_ok. destruct (a_pending a); destruct (iop i); try discriminate; auto; discriminate.
Qed.

Definition falls (o : opcode) : bool := match o with HALT | RET | JMP => false | _ => true end.
Definition pend_after (i : instr) (pd : option Z) : option Z :=
  match iop i with PREPARE_EXEC => Some (ia i) | ARG => pd | _ => None end.
Definition is_jmp (i : instr) : Prop := iop i = JMP \/ iop i = JMPC.

Lemma stack_map_of_range regs : forall k e, In e (stack_map_of regs k) -> k <= fst e < k + zlen regs.
Proof.
  induction regs as [|r t IH]; intros k e H; cbn [stack_map_of] in H; [destruct H|].
  unfold zlen; cbn [length]. destruct (is_temp r).
  - apply IH in H. unfold zlen in H. lia.
  - destruct H as [<-|H]; [cbn; lia|]. apply IH in H. unfold zlen in H. lia.
Qed.

Lemma map_ok_last maps nm regs : map_ok (pm (maps ++ [mkSM nm (stack_map_of regs 0)])) (zlen maps) (zlen regs) = true.
Proof.
  unfold map_ok, pm. cbn [stack_maps]. rewrite znth_app_last. cbn [smap].
  apply forallb_forall. intros e He. apply stack_map_of_range in He. apply in_frame_intro. lia.
Qed.

(* ================================================================================================ *)
(* 2. the ghost state and the invariant                                                             *)
(* ================================================================================================ *)
Record ghost := mkGh {
  own : Z -> Z;               (* owner of every code position; position [next_pos] holds the current owner *)
  pnd : Z -> option Z;        (* pending callee frame size at every position; position [next_pos] = what the next instruction sees *)
  lown : Z -> Z;              (* owner of every label *)
  ostk : list Z;              (* owners of the open symbol tables, top first *)
  closed : list (Z * Z)       (* finished routines: entry address, final frame size *)
}.

Definition cur (gh : ghost) : Z := hd 0 (ostk gh).
Definition fsize (f : fgs) : Z := zlen (f_regs f).
Definition topsz (g : gstate) : Z := match g_syms g with f :: _ => fsize f | [] => 0 end.
Definition sizes (g : gstate) (gh : ghost) : list (Z * Z) :=
  closed gh ++ combine (ostk gh) (map fsize (g_syms g)).

Definition tabok (g : gstate) (gh : ghost) (o : Z) (f : fgs) : Prop :=
  0 <= f_argnum f <= fsize f /\
  forall n l, In (n, l) (f_marks f) -> 0 <= l < zlen (g_labels g) /\ lown gh l = o.

Record Inv (cp : option Z) (g : gstate) (gh : ghost) : Prop := mkInv {
  iv_cur : own gh (next_pos g) = cur gh;
  iv_cp : pnd gh (next_pos g) = cp;
  iv_c0 : exists i0, znth (g_code g) 0 = Some i0 /\ iop i0 = PREPARE_EXEC;
  iv_one : own gh 1 = 0 /\ pnd gh 1 = None;
  iv_pos : forall pc i, 1 <= pc -> znth (g_code g) pc = Some i ->
      (forall s, In (own gh pc, s) (sizes g gh) ->
                 instr_ok (pm (g_maps g)) (mkAnn (own gh pc) s (pnd gh pc)) i = true) /\
      (exists s, In (own gh pc, s) (sizes g gh)) /\
      (falls (iop i) = true -> own gh (pc + 1) = own gh pc /\ pnd gh (pc + 1) = pend_after i (pnd gh pc)) /\
      (iop i = EXEC -> exists c, pnd gh pc = Some c /\ In (ia i, c) (closed gh) /\ (own gh pc = 0 \/ ia i < own gh pc)) /\
      (is_jmp i -> In pc (g_todo g));
  iv_closed : forall e s, In (e, s) (closed gh) ->
      1 <= e < next_pos g /\ own gh e = e /\ pnd gh e = None /\ 0 <= s /\
      forall o, In o (ostk gh) -> o <> 0 -> e < o;
  iv_cnd : NoDup (map fst (closed gh));
  iv_stk : ostk gh = [0] \/
           exists r, ostk gh = [r; 0] /\ 1 <= r <= next_pos g /\ own gh r = r /\ pnd gh r = None;
  iv_tabs : Forall2 (tabok g gh) (ostk gh) (g_syms g);
  iv_lab : forall l p, znth (g_labels g) l = Some p -> p <> -1 ->
      1 <= p <= next_pos g /\ pnd gh p = None /\ own gh p = lown gh l;
  iv_todo : NoDup (g_todo g) /\
      forall loc, In loc (g_todo g) -> exists i, znth (g_code g) loc = Some i /\ is_jmp i /\ 1 <= loc /\
        0 <= ia i < zlen (g_labels g) /\ own gh loc = lown gh (ia i);
  iv_funcs : forall nm p, alookup str_ltb (g_funcs g) nm = Some p ->
      In (p_ind p, p_stack_size p) (closed gh) /\
      map_ok (pm (g_maps g)) (p_mi p) (p_stack_size p) = true /\ 0 <= p_argnum p <= p_stack_size p
}.

Definition rok (g : gstate) (i : Z) : Prop := 0 <= i < topsz g.
Definition lok (g : gstate) (gh : ghost) (l : Z) : Prop := 0 <= l < zlen (g_labels g) /\ lown gh l = cur gh.

Record Ext (g : gstate) (gh : ghost) (g' : gstate) (gh' : ghost) : Prop := mkExt {
  ex_ostk : ostk gh' = ostk gh;
  ex_top : topsz g <= topsz g';
  ex_lab : zlen (g_labels g) <= zlen (g_labels g');
  ex_lown : forall l, 0 <= l < zlen (g_labels g) -> lown gh' l = lown gh l;
  ex_np : next_pos g <= next_pos g'
}.

Lemma Ext_refl g gh : Ext g gh g gh.
Proof. constructor; auto; lia. Qed.

Lemma Ext_trans g1 h1 g2 h2 g3 h3 : Ext g1 h1 g2 h2 -> Ext g2 h2 g3 h3 -> Ext g1 h1 g3 h3.
Proof.
  intros [A1 A2 A3 A4 A5] [B1 B2 B3 B4 B5]. constructor; try congruence; try lia.
  intros l Hl. rewrite B4 by lia. apply A4; auto.
Qed.

Lemma rok_ext g gh g' gh' i : Ext g gh g' gh' -> rok g i -> rok g' i.
Proof. intros [_ A _ _ _]. unfold rok. lia. Qed.

Lemma lok_ext g gh g' gh' l : Ext g gh g' gh' -> lok g gh l -> lok g' gh' l.
Proof.
  intros [A1 _ A3 A4 _] [H1 H2]. unfold lok, cur in *. rewrite A1. split; [lia|]. rewrite A4; auto.
Qed.

(* ---- the shape of the stack of owners ---------------------------------------------------------- *)
Lemma next_pos_ge1 cp g gh : Inv cp g gh -> 1 <= next_pos g.
Proof.
  intros H. destruct (iv_c0 _ _ _ H) as (i0 & Hz & _). apply znth_some_range in Hz. unfold next_pos. lia.
Qed.

Lemma inv_shape cp g gh : Inv cp g gh ->
  (ostk gh = [0] /\ exists f0, g_syms g = [f0] /\ tabok g gh 0 f0 /\ sizes g gh = closed gh ++ [(0, fsize f0)]) \/
  (exists r f f0, ostk gh = [r; 0] /\ g_syms g = [f; f0] /\ 1 <= r <= next_pos g /\ own gh r = r /\ pnd gh r = None /\
      tabok g gh r f /\ tabok g gh 0 f0 /\ sizes g gh = closed gh ++ [(r, fsize f); (0, fsize f0)]).
Proof.
  intros H. pose proof (iv_tabs _ _ _ H) as HT. unfold sizes.
  destruct (iv_stk _ _ _ H) as [E|(r & E & Hr & Ho & Hp)]; rewrite E in *.
  - left. split; auto. destruct (g_syms g) as [|f0 tl]; inversion HT as [|? ? ? ? A B]; subst.
    inversion B; subst. exists f0. split; [reflexivity|]. split; [exact A | reflexivity].
  - right. destruct (g_syms g) as [|f tl]; inversion HT as [|? ? ? ? A B]; subst.
    destruct tl as [|f0 tl]; inversion B as [|? ? ? ? A' B']; subst. inversion B'; subst.
    exists r, f, f0. split; [reflexivity|]. split; [reflexivity|]. split; [exact Hr|]. split; [exact Ho|].
    split; [exact Hp|]. split; [exact A|]. split; [exact A' | reflexivity].
Qed.

Lemma cur_sizes cp g gh s : Inv cp g gh -> (In (cur gh, s) (sizes g gh) <-> s = topsz g).
Proof.
  intros H. pose proof (iv_closed _ _ _ H) as HC.
  destruct (inv_shape _ _ _ H) as [(E & f0 & Es & _ & Ez)|(r & f & f0 & E & Es & Hr & _ & _ & _ & _ & Ez)];
    rewrite Ez; unfold cur, topsz; rewrite E, Es; cbn [hd]; split.
  - intros Hi. apply in_app_or in Hi. destruct Hi as [Hi|[Hi|[]]]; [|congruence].
    apply HC in Hi. lia.
  - intros ->. apply in_or_app. right. left. reflexivity.
  - intros Hi. apply in_app_or in Hi. destruct Hi as [Hi|[Hi|[Hi|[]]]]; [| congruence | inversion Hi; lia].
    apply HC in Hi. destruct Hi as (_ & _ & _ & _ & Hlt). specialize (Hlt r). rewrite E in Hlt. cbn in Hlt.
    specialize (Hlt (or_introl eq_refl)). lia.
  - intros ->. apply in_or_app. right. left. reflexivity.
Qed.

Lemma cur_in_ostk cp g gh : Inv cp g gh -> In (cur gh) (ostk gh).
Proof.
  intros H. unfold cur. destruct (iv_stk _ _ _ H) as [E|(r & E & _)]; rewrite E; left; reflexivity.
Qed.

Lemma syms_nonempty cp g gh : Inv cp g gh -> exists f tl, g_syms g = f :: tl.
Proof.
  intros H. destruct (inv_shape _ _ _ H) as [(_ & f0 & Es & _)|(r & f & f0 & _ & Es & _)]; rewrite Es; eauto.
Qed.

Lemma top_tabok cp g gh f tl : Inv cp g gh -> g_syms g = f :: tl -> tabok g gh (cur gh) f.
Proof.
  intros H E. unfold cur.
  destruct (inv_shape _ _ _ H) as [(Eo & f0 & Es & T0 & _)|(r & f1 & f0 & Eo & Es & _ & _ & _ & T1 & _)];
    rewrite Eo; rewrite Es in E; inversion E; subst; auto.
Qed.

(* ================================================================================================ *)
(* 3. steps that do not touch the code                                                              *)
(* ================================================================================================ *)
Ltac gsimp :=
  cbn [g_code g_maps g_pb g_li g_errs g_syms g_funcs g_labels g_todo g_loops g_fsname g_fsline
       upd_code upd_tables upd_errs upd_syms upd_labels upd_todo upd_fs emit set_symbols push_symbols err verr
       loops_incr own pnd lown ostk closed] in *.

Lemma inv_ext cp g g' gh : g_code g' = g_code g -> g_maps g' = g_maps g -> g_syms g' = g_syms g ->
  g_funcs g' = g_funcs g -> g_labels g' = g_labels g -> g_todo g' = g_todo g -> Inv cp g gh -> Inv cp g' gh.
Proof.
  intros E1 E2 E3 E4 E5 E6 [A1 A2 A3 A4 A5 A6 A7 A8 A9 A10 A11 A12].
  constructor; unfold next_pos, sizes, tabok in *; rewrite ?E1, ?E2, ?E3, ?E4, ?E5, ?E6; assumption.
Qed.

Lemma ext_same g g' gh : g_code g' = g_code g -> g_syms g' = g_syms g -> g_labels g' = g_labels g -> Ext g gh g' gh.
Proof. intros E1 E2 E3. constructor; unfold topsz, next_pos; rewrite ?E1, ?E2, ?E3; auto; lia. Qed.

Lemma sizes_settop g gh f tl0 f' : g_syms g = f :: tl0 -> fsize f <= fsize f' ->
  (forall o s', In (o, s') (sizes (set_symbols g f') gh) -> exists s, s <= s' /\ In (o, s) (sizes g gh)) /\
  (forall o s, In (o, s) (sizes g gh) -> exists s', In (o, s') (sizes (set_symbols g f') gh)).
Proof.
  intros E L. unfold sizes. gsimp. rewrite E. cbn [tl map].
  destruct (ostk gh) as [|o0 os]; cbn [combine].
  - split; intros o s Hi; exists s; [split; [lia | exact Hi] | exact Hi].
  - split; intros o s Hi; apply in_app_or in Hi; destruct Hi as [Hi|[Hi|Hi]].
    + exists s. split; [lia|]. apply in_or_app; auto.
    + inversion Hi; subst. exists (fsize f). split; [lia|]. apply in_or_app; right; left; reflexivity.
    + exists s. split; [lia|]. apply in_or_app; right; right; exact Hi.
    + exists s. apply in_or_app; auto.
    + inversion Hi; subst. exists (fsize f'). apply in_or_app; right; left; reflexivity.
    + exists s. apply in_or_app; right; right; exact Hi.
Qed.

Lemma inv_settop cp g gh f tl0 f' : Inv cp g gh -> g_syms g = f :: tl0 -> fsize f <= fsize f' ->
  tabok g gh (cur gh) f' -> Inv cp (set_symbols g f') gh.
Proof.
  intros H E L T. destruct (sizes_settop g gh f tl0 f' E L) as [S1 S2].
  pose proof (cur_in_ostk _ _ _ H) as Hcur.
  destruct H as [A1 A2 A3 A4 A5 A6 A7 A8 A9 A10 A11 A12].
  constructor; try assumption.
  - intros pc i Hpc Hz. destruct (A5 pc i Hpc Hz) as (B1 & B2 & B3 & B4 & B5).
    split; [|split; [|split; [|split]]]; auto.
    + intros s' Hs'. destruct (S1 _ _ Hs') as (s & Hle & Hs).
      eapply instr_ok_le; [apply maps_le_refl | | | | apply (B1 s Hs)]; cbn; auto.
    + destruct B2 as [s Hs]. apply (S2 _ _ Hs).
  - gsimp. rewrite E in *. cbn [tl]. unfold cur in T.
    inversion A9 as [|o0 f1 os fs T0 Tr Eo]; subst. rewrite <- Eo in T. cbn in T.
    constructor; [exact T | exact Tr].
Qed.

Lemma topsz_settop g f tl0 f' : g_syms g = f :: tl0 -> topsz (set_symbols g f') = fsize f'.
Proof. intros E. unfold topsz. gsimp. reflexivity. Qed.

Lemma ext_settop g gh f tl0 f' : g_syms g = f :: tl0 -> fsize f <= fsize f' -> Ext g gh (set_symbols g f') gh.
Proof.
  intros E L. constructor; auto; try (gsimp; lia).
  - rewrite (topsz_settop _ _ _ _ E). unfold topsz. rewrite E. exact L.
  - unfold next_pos. gsimp. lia.
Qed.

Lemma get_symbols_inv g f : hd_error (g_syms g) = Some f -> exists tl0, g_syms g = f :: tl0.
Proof.
  intros H. destruct (g_syms g) as [|f0 tl0]; [discriminate|]. cbn in H. inversion H; subst. eauto.
Qed.

Lemma fsize_app f x : zlen (f_regs f ++ [x]) = fsize f + 1.
Proof. unfold fsize. rewrite zlen_app. reflexivity. Qed.

Lemma fsize_nonneg f : 0 <= fsize f.
Proof. apply zlen_nonneg. Qed.

Lemma p_settop cp g gh f tl0 f' : Inv cp g gh -> g_syms g = f :: tl0 -> fsize f <= fsize f' ->
  f_argnum f' = f_argnum f -> f_marks f' = f_marks f ->
  Inv cp (set_symbols g f') gh /\ Ext g gh (set_symbols g f') gh /\ topsz (set_symbols g f') = fsize f'.
Proof.
  intros H E L Ea Em. pose proof (top_tabok _ _ _ _ _ H E) as [T1 T2].
  split; [|split].
  - eapply inv_settop; [exact H | exact E | exact L |]. split; [rewrite Ea; lia | rewrite Em; exact T2].
  - eapply ext_settop; eauto.
  - eapply topsz_settop; eauto.
Qed.

Lemma fsize_upd f k x rest a m : fsize (mkFGS rest (upd_nat (f_regs f) k x) a m) = fsize f.
Proof. unfold fsize, zlen. cbn [f_regs]. rewrite upd_nat_length. reflexivity. Qed.

Lemma fsize_snoc f x rest a m : fsize (mkFGS rest (f_regs f ++ [x]) a m) = fsize f + 1.
Proof. unfold fsize. cbn [f_regs]. rewrite zlen_app. reflexivity. Qed.

Lemma p_fetch_variable cp g gh n g' i : Inv cp g gh -> fetch_variable g n = Ok (g', i) ->
  Inv cp g' gh /\ Ext g gh g' gh /\ rok g' i.
Proof.
  intros H F. unfold fetch_variable in F. binv F. destruct (get_symbols_inv _ _ H0) as [tl0 E].
  pose proof (fsize_nonneg a) as Hn.
  destruct (find_reg (f_regs a) n 0) as [j|] eqn:Ef; inversion F; subst; clear F.
  - split; [exact H|]. split; [apply Ext_refl|]. apply find_reg_range in Ef. unfold rok, topsz. rewrite E.
    unfold fsize. lia.
  - match goal with |- Inv _ (set_symbols _ ?f') _ /\ _ =>
      destruct (p_settop cp g gh a tl0 f' H E) as (I1 & X1 & S1); [rewrite fsize_snoc; lia | reflexivity | reflexivity |] end.
    split; [exact I1|]. split; [exact X1|]. unfold rok. rewrite S1, fsize_snoc. unfold fsize in *. lia.
Qed.

Lemma p_fetch_temporary cp g gh g' i : Inv cp g gh -> fetch_temporary g = Ok (g', i) ->
  Inv cp g' gh /\ Ext g gh g' gh /\ rok g' i.
Proof.
  intros H F. unfold fetch_temporary in F. binv F. destruct (get_symbols_inv _ _ H0) as [tl0 E].
  pose proof (fsize_nonneg a) as Hn.
  destruct (find_free_temp (f_regs a) 0) as [j|] eqn:Ef.
  - binv F. inversion F; subst; clear F. apply find_free_temp_range in Ef.
    match goal with Hz : zupd _ _ _ = Some _ |- _ => apply zupd_inv in Hz; destruct Hz as [_ ->] end.
    match goal with |- Inv _ (set_symbols _ ?f') _ /\ _ =>
      destruct (p_settop cp g gh a tl0 f' H E) as (I1 & X1 & S1); [rewrite fsize_upd; lia | reflexivity | reflexivity |] end.
    split; [exact I1|]. split; [exact X1|]. unfold rok. rewrite S1, fsize_upd. unfold fsize. lia.
  - inversion F; subst; clear F.
    match goal with |- Inv _ (set_symbols _ ?f') _ /\ _ =>
      destruct (p_settop cp g gh a tl0 f' H E) as (I1 & X1 & S1); [rewrite fsize_snoc; lia | reflexivity | reflexivity |] end.
    split; [exact I1|]. split; [exact X1|]. unfold rok. rewrite S1, fsize_snoc. unfold fsize in *. lia.
Qed.

Lemma p_release cp g gh i g' : Inv cp g gh -> release_temporary g i = Ok g' -> Inv cp g' gh /\ Ext g gh g' gh.
Proof.
  intros H F. unfold release_temporary in F. binv F. destruct (get_symbols_inv _ _ H0) as [tl0 E].
  destruct (is_temp a0).
  - binv F. inversion F; subst; clear F.
    match goal with Hz : zupd _ _ _ = Some _ |- _ => apply zupd_inv in Hz; destruct Hz as [_ ->] end.
    match goal with |- Inv _ (set_symbols _ ?f') _ /\ _ =>
      destruct (p_settop cp g gh a tl0 f' H E) as (I1 & X1 & S1); [rewrite fsize_upd; lia | reflexivity | reflexivity |] end.
    split; [exact I1 | exact X1].
  - inversion F; subst. split; [exact H | apply Ext_refl].
Qed.

(* ================================================================================================ *)
(* 4. labels                                                                                        *)
(* ================================================================================================ *)
Lemma Forall2_imp {A B} (R1 R2 : A -> B -> Prop) l1 l2 :
  (forall a b, R1 a b -> R2 a b) -> Forall2 R1 l1 l2 -> Forall2 R2 l1 l2.
Proof. intros H. induction 1; constructor; auto. Qed.

Definition gh_label (gh : ghost) (l : Z) : ghost :=
  mkGh (own gh) (pnd gh) (upd (lown gh) l (cur gh)) (ostk gh) (closed gh).

Lemma p_create cp g gh g1 l : Inv cp g gh -> create_label g = (g1, l) ->
  Inv cp g1 (gh_label gh l) /\ Ext g gh g1 (gh_label gh l) /\ lok g1 (gh_label gh l) l.
Proof.
  intros H E. apply create_label_eq in E. destruct E as [-> ->].
  pose proof (zlen_nonneg (g_labels g)) as Hn.
  split; [|split].
  - destruct H as [A1 A2 A3 A4 A5 A6 A7 A8 A9 A10 A11 A12].
    constructor; unfold next_pos, sizes, tabok, gh_label, cur in *; gsimp; try assumption.
    + eapply Forall2_imp; [|exact A9]. cbv beta. intros o f [T1 T2]. split; [exact T1|].
      intros n l Hl. destruct (T2 n l Hl) as [T3 T4]. rewrite zlen_app. cbn. split; [lia|].
      rewrite upd_other by lia. exact T4.
    + intros l p Hz Hp. apply znth_snoc_inv in Hz. destruct Hz as [[Hl Hz]|[_ ->]]; [|congruence].
      rewrite upd_other by lia. apply A10; auto.
    + destruct A11 as [N1 N2]. split; [exact N1|]. intros loc Hl.
      destruct (N2 loc Hl) as (i & B1 & B2 & B3 & B4 & B5). exists i. rewrite zlen_app. cbn.
      repeat (split; try assumption); try lia. rewrite upd_other by lia. exact B5.
  - constructor; unfold gh_label, topsz, next_pos; gsimp; auto; try lia.
    + rewrite zlen_app. cbn. lia.
    + intros l Hl. rewrite upd_other by lia. reflexivity.
  - unfold lok, gh_label, cur; gsimp. rewrite zlen_app, upd_same. cbn. split; [lia | reflexivity].
Qed.

(* setting a label to a position the current owner holds, with nothing pending there *)
Lemma p_set_label cp g gh l p g' : Inv cp g gh -> lok g gh l ->
  1 <= p <= next_pos g -> pnd gh p = None -> own gh p = cur gh ->
  GenModel.set_label g l p = Ok g' -> Inv cp g' gh /\ Ext g gh g' gh.
Proof.
  intros H [L1 L2] Hp Hpd Ho E. apply set_label_eq in E. destruct E as (ls & Hu & ->).
  pose proof (zupd_len _ _ _ _ Hu) as Hl. pose proof (znth_zupd _ _ _ _ Hu) as Hz.
  split.
  - destruct H as [A1 A2 A3 A4 A5 A6 A7 A8 A9 A10 A11 A12].
    constructor; unfold next_pos, sizes, tabok in *; gsimp; rewrite ?Hl; try assumption.
    intros l0 p0 Hz0 Hp0. rewrite Hz in Hz0. destruct (Z.eqb_spec l0 l) as [->|Hne].
    + inversion Hz0; subst p0. split; [exact Hp|]. split; [exact Hpd|]. congruence.
    + apply A10; auto.
  - constructor; unfold topsz, next_pos; gsimp; auto; lia.
Qed.

Lemma p_set_label_np g gh l g' : Inv None g gh -> lok g gh l ->
  GenModel.set_label g l (next_pos g) = Ok g' -> Inv None g' gh /\ Ext g gh g' gh.
Proof.
  intros H L E. eapply p_set_label; eauto.
  - pose proof (next_pos_ge1 _ _ _ H). lia.
  - apply (iv_cp _ _ _ H).
  - apply (iv_cur _ _ _ H).
Qed.

(* the last instruction, when it is a potential break, belongs to the current owner *)
Lemma last_break cp g gh c i : Inv cp g gh -> g_code g = c ++ [i] -> iop i = POTENTIAL_BREAK ->
  1 <= zlen c /\ own gh (zlen c) = cur gh /\ pnd gh (zlen c) = None /\ cp = None.
Proof.
  intros H Ec Ho.
  assert (Hz : znth (g_code g) (zlen c) = Some i) by (rewrite Ec; apply znth_app_last).
  assert (Hn : next_pos g = zlen c + 1) by (unfold next_pos; rewrite Ec, zlen_app; reflexivity).
  assert (H1 : 1 <= zlen c).
  { destruct (iv_c0 _ _ _ H) as (i0 & Hz0 & Ho0). pose proof (zlen_nonneg c).
    destruct (Z.eq_dec (zlen c) 0) as [E0|]; [|lia]. rewrite E0 in Hz. congruence. }
  destruct (iv_pos _ _ _ H _ _ H1 Hz) as (B1 & [s Hs] & B3 & _ & _).
  rewrite Ho in B3. destruct (B3 eq_refl) as [B4 B5].
  pose proof (iv_cur _ _ _ H) as C1. pose proof (iv_cp _ _ _ H) as C2. rewrite Hn in C1, C2.
  pose proof (instr_ok_pending _ _ _ (B1 s Hs)) as Hp. rewrite Ho in Hp. cbn in Hp.
  split; [exact H1|]. split; [congruence|]. split; [exact Hp|].
  rewrite <- C2, B5, Hp. unfold pend_after. rewrite Ho. reflexivity.
Qed.

Lemma p_mark g gh l p g' : Inv None g gh -> lok g gh l -> get_mark_pos g = Ok p ->
  GenModel.set_label g l p = Ok g' -> Inv None g' gh /\ Ext g gh g' gh.
Proof.
  intros H L M E. unfold get_mark_pos in M. binv M. inversion M; subst p; clear M.
  match goal with Hb : hd_error (rev (g_code g)) = Some _ |- _ => apply hd_rev_inv in Hb; rename Hb into Hc end.
  destruct (opcode_eqb (iop a) POTENTIAL_BREAK) eqn:Eo.
  - apply opcode_eqb_eq in Eo. destruct (last_break _ _ _ _ _ H Hc Eo) as (K1 & K2 & K3 & _).
    assert (Hn : next_pos g - 1 = zlen (removelast (g_code g))).
    { unfold next_pos. rewrite Hc at 1. rewrite zlen_app. cbn. lia. }
    rewrite Hn in E. eapply p_set_label; eauto. lia.
  - eapply p_set_label_np; eauto.
Qed.

Lemma p_ensure cp g gh n g' l : Inv cp g gh -> ensure_mark g n = Ok (g', l) ->
  exists gh', Inv cp g' gh' /\ Ext g gh g' gh' /\ lok g' gh' l.
Proof.
  intros H E. unfold ensure_mark in E. binv E. destruct (get_symbols_inv _ _ H0) as [tl0 Es].
  pose proof (top_tabok _ _ _ _ _ H Es) as [T1 T2].
  destruct (alookup str_ltb (f_marks a) n) as [l0|] eqn:El.
  - inversion E; subst. exists gh. split; [exact H|]. split; [apply Ext_refl|].
    apply str_alookup_in in El. apply T2 in El. exact El.
  - destruct (create_label g) as [g1 l1] eqn:Ec. destruct (p_create _ _ _ _ _ H Ec) as (I1 & X1 & L1).
    binv E. inversion E; subst; clear E.
    assert (Es1 : g_syms g1 = a :: tl0).
    { apply create_label_eq in Ec. destruct Ec as [_ ->]. exact Es. }
    match goal with Hh : hd_error (g_syms g1) = Some ?x |- _ => rewrite Es1 in Hh; cbn in Hh; inversion Hh; subst x end.
    exists (gh_label gh l). split; [|split].
    + eapply inv_settop; [exact I1 | exact Es1 | unfold fsize; cbn; lia |].
      split; [exact T1|]. cbn [f_marks]. intros m l0 Hm. apply (in_ainsert str_ltb) in Hm. destruct Hm as [Hm|Hm].
      * inversion Hm; subst. exact L1.
      * destruct (T2 m l0 Hm) as [T3 T4]. destruct X1 as [X1 _ X3 X4 _]. split; [lia|].
        rewrite X4 by lia. unfold cur. rewrite X1. exact T4.
    + eapply Ext_trans; [exact X1|]. eapply ext_settop; [exact Es1|]. unfold fsize; cbn; lia.
    + destruct L1 as [L1 L2]. split; [gsimp; exact L1 | exact L2].
Qed.

(* ================================================================================================ *)
(* 5. emitting an instruction                                                                       *)
(* ================================================================================================ *)
Definition gh_emit (gh : ghost) (n : Z) (cp' : option Z) : ghost :=
  mkGh (upd (own gh) (n + 1) (cur gh)) (upd (pnd gh) (n + 1) cp') (lown gh) (ostk gh) (closed gh).

Lemma inv_emit_gen cp g gh i todo' : Inv cp g gh ->
  instr_ok (pm (g_maps g)) (mkAnn (cur gh) (topsz g) cp) i = true ->
  (iop i = EXEC -> exists c, cp = Some c /\ In (ia i, c) (closed gh) /\ (cur gh = 0 \/ ia i < cur gh)) ->
  (todo' = g_todo g /\ ~ is_jmp i) \/ (todo' = g_todo g ++ [next_pos g] /\ is_jmp i /\ lok g gh (ia i)) ->
  Inv (pend_after i cp) (upd_todo (emit g i) todo') (gh_emit gh (next_pos g) (pend_after i cp)).
Proof.
  intros H Hok Hex Htd.
  pose proof (next_pos_ge1 _ _ _ H) as Hn1.
  pose proof (cur_sizes _ _ _ (topsz g) H) as Hcs. pose proof (fun s => cur_sizes _ _ _ s H) as Hcs'.
  destruct H as [A1 A2 A3 A4 A5 A6 A7 A8 A9 A10 A11 A12].
  assert (Hnp : next_pos (upd_todo (emit g i) todo') = next_pos g + 1).
  { unfold next_pos. gsimp. rewrite zlen_app. reflexivity. }
  assert (Hsz : sizes (upd_todo (emit g i) todo') (gh_emit gh (next_pos g) (pend_after i cp)) = sizes g gh) by reflexivity.
  assert (Hin : forall x, In x (g_todo g) -> In x todo').
  { intros x Hx. destruct Htd as [[-> _]|[-> _]]; [exact Hx | apply in_or_app; left; exact Hx]. }
  constructor; rewrite ?Hnp, ?Hsz; unfold gh_emit; cbn [own pnd lown ostk closed cur].
  - apply upd_same.
  - apply upd_same.
  - destruct A3 as (i0 & Hz & Ho). exists i0. split; [|exact Ho]. gsimp. rewrite znth_app_l; [exact Hz|].
    apply znth_some_range in Hz. lia.
  - rewrite !upd_other by lia. exact A4.
  - intros pc j Hpc Hz. gsimp. apply znth_snoc_inv in Hz. fold (next_pos g) in Hz.
    destruct Hz as [[Hlt Hz]|[-> ->]].
    + rewrite !upd_other by lia. destruct (A5 pc j Hpc Hz) as (B1 & B2 & B3 & B4 & B5).
      split; [exact B1|]. split; [exact B2|]. split; [exact B3|]. split; [exact B4|]. intros Hj. apply Hin, B5, Hj.
    + rewrite !upd_same. rewrite !upd_other by lia. rewrite A1, A2.
      split; [|split; [|split; [|split]]].
      * intros s Hs. apply Hcs' in Hs. subst s. exact Hok.
      * exists (topsz g). apply Hcs. reflexivity.
      * intros _. split; reflexivity.
      * exact Hex.
      * intros Hj. destruct Htd as [[_ Hnj]|[-> _]]; [contradiction|]. apply in_or_app. right. left. reflexivity.
  - intros e s He. destruct (A6 e s He) as (B1 & B2 & B3 & B4 & B5).
    rewrite !upd_other by lia. repeat (split; try assumption); lia.
  - exact A7.
  - destruct A8 as [E|(r & E & Hr & Ho & Hp)]; [left; exact E|]. right. exists r.
    split; [exact E|]. split; [lia|]. rewrite !upd_other by lia. split; assumption.
  - unfold tabok in *. gsimp. exact A9.
  - gsimp. intros l p Hz Hp. destruct (A10 l p Hz Hp) as (B1 & B2 & B3). rewrite !upd_other by lia.
    split; [lia|]. split; assumption.
  - gsimp. split.
    + destruct A11 as [N1 N2]. destruct Htd as [[-> _]|[-> _]]; [exact N1|].
      apply NoDup_snoc; [exact N1|]. intros Hi. destruct (N2 _ Hi) as (j & Hz & _).
      apply znth_some_range in Hz. unfold next_pos in Hz. lia.
    + destruct A11 as [N1 N2].
      assert (Hold : forall loc, In loc (g_todo g) -> exists j, znth (g_code g ++ [i]) loc = Some j /\ is_jmp j /\ 1 <= loc /\
                0 <= ia j < zlen (g_labels g) /\ upd (own gh) (next_pos g + 1) (hd 0 (ostk gh)) loc = lown gh (ia j)).
      { intros loc Hl. destruct (N2 loc Hl) as (j & Hz & B2 & B3 & B4 & B5). exists j.
        pose proof (znth_some_range _ _ _ Hz) as Hr. fold (next_pos g) in Hr.
        rewrite znth_app_l by (apply Hr). rewrite upd_other by lia. repeat (split; try assumption). }
      intros loc Hl. destruct Htd as [[-> _]|[-> (Hj & L1 & L2)]]; [apply Hold; exact Hl|].
      apply in_app_or in Hl. destruct Hl as [Hl|[<-|[]]]; [apply Hold; exact Hl|].
      exists i. unfold next_pos. rewrite znth_app_last. fold (next_pos g). rewrite upd_other by lia.
      repeat (split; try assumption). rewrite A1. symmetry. exact L2.
  - gsimp. exact A12.
Qed.

Lemma ext_emit g gh i todo' cp' : 1 <= next_pos g ->
  Ext g gh (upd_todo (emit g i) todo') (gh_emit gh (next_pos g) cp').
Proof.
  intros Hn. constructor; unfold topsz, next_pos, gh_emit; gsimp; auto; try lia. rewrite zlen_app. cbn. lia.
Qed.

(* plain instructions *)
Lemma p_emit cp g gh i : Inv cp g gh ->
  instr_ok (pm (g_maps g)) (mkAnn (cur gh) (topsz g) cp) i = true ->
  iop i <> EXEC -> ~ is_jmp i ->
  exists gh', Inv (pend_after i cp) (emit g i) gh' /\ Ext g gh (emit g i) gh' /\ closed gh' = closed gh.
Proof.
  intros H Hok Hne Hnj. exists (gh_emit gh (next_pos g) (pend_after i cp)).
  pose proof (inv_emit_gen cp g gh i (g_todo g) H Hok) as HI.
  split; [|split; [|reflexivity]].
  - eapply inv_ext; [| | | | | | apply HI]; try reflexivity; [intros He; contradiction | left; auto].
  - pose proof (ext_emit g gh i (g_todo g) (pend_after i cp) (next_pos_ge1 _ _ _ H)) as [X1 X2 X3 X4 X5].
    constructor; auto.
Qed.

(* jumps, recorded for backpatching *)
Lemma p_emit_bp g gh i : Inv None g gh -> is_jmp i -> lok g gh (ia i) ->
  (iop i = JMPC -> rok g (ib i)) ->
  exists gh', Inv None (emit_backpatched g i) gh' /\ Ext g gh (emit_backpatched g i) gh' /\ closed gh' = closed gh.
Proof.
  intros H Hj L Hr. exists (gh_emit gh (next_pos g) None).
  assert (Hok : instr_ok (pm (g_maps g)) (mkAnn (cur gh) (topsz g) None) i = true).
  { unfold instr_ok. cbn [a_pending a_frame]. destruct Hj as [Hj|Hj]; rewrite Hj; [reflexivity|].
    apply in_frame_intro. apply Hr. exact Hj. }
  assert (Hpa : pend_after i None = None) by (unfold pend_after; destruct Hj as [Hj|Hj]; rewrite Hj; reflexivity).
  pose proof (inv_emit_gen None g gh i (g_todo g ++ [next_pos g]) H Hok) as HI. rewrite Hpa in HI.
  assert (Hnp : next_pos (emit g i) - 1 = next_pos g).
  { unfold next_pos. gsimp. rewrite zlen_app. cbn. lia. }
  split; [|split; [|reflexivity]].
  - eapply inv_ext; [| | | | | | apply HI]; try reflexivity.
    + unfold emit_backpatched. cbv zeta. cbn [g_todo upd_todo]. rewrite Hnp. reflexivity.
    + intros He. destruct Hj as [Hj|Hj]; rewrite Hj in He; discriminate.
    + right. auto.
  - pose proof (ext_emit g gh i (g_todo g) None (next_pos_ge1 _ _ _ H)) as [X1 X2 X3 X4 X5].
    constructor; auto.
Qed.

(* ---- the instructions the generator emits ------------------------------------------------------- *)
Lemma p_emit_plain g gh i : Inv None g gh ->
  instr_ok (pm (g_maps g)) (mkAnn (cur gh) (topsz g) None) i = true ->
  match iop i with POTENTIAL_BREAK | HALT | ADD_CONST | CONST | TEST | RET => True | _ => False end ->
  exists gh', Inv None (emit g i) gh' /\ Ext g gh (emit g i) gh' /\ closed gh' = closed gh.
Proof.
  intros H Hok Hop.
  assert (Hpa : pend_after i None = None) by (unfold pend_after; destruct (iop i); try contradiction; reflexivity).
  destruct (p_emit None g gh i H Hok) as (gh' & I1 & X1 & C1).
  - intros He. rewrite He in Hop. exact Hop.
  - intros [Hj|Hj]; rewrite Hj in Hop; exact Hop.
  - rewrite Hpa in I1. eauto.
Qed.

Lemma p_emit_add g gh t s c : Inv None g gh -> rok g t -> rok g s ->
  exists gh', Inv None (emit g (IAdd t s c)) gh' /\ Ext g gh (emit g (IAdd t s c)) gh' /\ closed gh' = closed gh.
Proof.
  intros H Ht Hs. apply p_emit_plain; [exact H | | exact I].
  unfold instr_ok, IAdd. cbn. rewrite !in_frame_intro by assumption. reflexivity.
Qed.

Lemma p_emit_const g gh t c : Inv None g gh -> rok g t ->
  exists gh', Inv None (emit g (IConst t c)) gh' /\ Ext g gh (emit g (IConst t c)) gh' /\ closed gh' = closed gh.
Proof.
  intros H Ht. apply p_emit_plain; [exact H | | exact I].
  unfold instr_ok, IConst. cbn. rewrite !in_frame_intro by assumption. reflexivity.
Qed.

Lemma p_emit_test g gh t a b : Inv None g gh -> rok g t -> rok g a -> rok g b ->
  exists gh', Inv None (emit g (ITest t a b)) gh' /\ Ext g gh (emit g (ITest t a b)) gh' /\ closed gh' = closed gh.
Proof.
  intros H Ht Ha Hb. apply p_emit_plain; [exact H | | exact I].
  unfold instr_ok, ITest. cbn. rewrite !in_frame_intro by assumption. reflexivity.
Qed.

Lemma p_emit_halt g gh : Inv None g gh ->
  exists gh', Inv None (emit g IHalt) gh' /\ Ext g gh (emit g IHalt) gh' /\ closed gh' = closed gh.
Proof. intros H. apply p_emit_plain; [exact H | reflexivity | exact I]. Qed.

Lemma p_emit_break g gh : Inv None g gh ->
  exists gh', Inv None (emit g IPotentialBreak) gh' /\ Ext g gh (emit g IPotentialBreak) gh' /\ closed gh' = closed gh.
Proof. intros H. apply p_emit_plain; [exact H | reflexivity | exact I]. Qed.

Lemma p_emit_ret g gh s : Inv None g gh -> rok g s -> cur gh <> 0 ->
  exists gh', Inv None (emit g (IRet s)) gh' /\ Ext g gh (emit g (IRet s)) gh' /\ closed gh' = closed gh.
Proof.
  intros H Hs Hc. apply p_emit_plain; [exact H | | exact I].
  unfold instr_ok, IRet. cbn. rewrite !in_frame_intro by assumption.
  destruct (Z.eqb_spec (cur gh) 0); [contradiction | reflexivity].
Qed.

Lemma p_emit_jmp g gh l : Inv None g gh -> lok g gh l ->
  exists gh', Inv None (emit_backpatched g (IJmp l)) gh' /\ Ext g gh (emit_backpatched g (IJmp l)) gh' /\ closed gh' = closed gh.
Proof. intros H L. apply p_emit_bp; [exact H | left; reflexivity | exact L | discriminate]. Qed.

Lemma p_emit_jmpc g gh l s : Inv None g gh -> lok g gh l -> rok g s ->
  exists gh', Inv None (emit_backpatched g (IJmpC l s)) gh' /\ Ext g gh (emit_backpatched g (IJmpC l s)) gh' /\ closed gh' = closed gh.
Proof. intros H L R. apply p_emit_bp; [exact H | right; reflexivity | exact L | intros _; exact R]. Qed.

(* ---- steps the invariant does not see ------------------------------------------------------------ *)
Lemma p_err cp g gh t k : Inv cp g gh -> Inv cp (err g t k) gh /\ Ext g gh (err g t k) gh.
Proof. intros H. split; [eapply inv_ext; [| | | | | | exact H]; reflexivity | apply ext_same; reflexivity]. Qed.

Lemma p_verr cp g gh t k f l : Inv cp g gh -> Inv cp (verr g t k f l) gh /\ Ext g gh (verr g t k f l) gh.
Proof. intros H. split; [eapply inv_ext; [| | | | | | exact H]; reflexivity | apply ext_same; reflexivity]. Qed.

Lemma p_loops cp g gh : Inv cp g gh -> Inv cp (loops_incr g) gh /\ Ext g gh (loops_incr g) gh.
Proof. intros H. split; [eapply inv_ext; [| | | | | | exact H]; reflexivity | apply ext_same; reflexivity]. Qed.

Lemma p_str_to_int cp g gh tok : Inv cp g gh ->
  Inv cp (fst (gen_str_to_int g tok)) gh /\ Ext g gh (fst (gen_str_to_int g tok)) gh.
Proof.
  intros H. unfold gen_str_to_int. cbn [fst]. destruct (INT_MAX <=? strtol tok); [apply p_err; exact H|].
  split; [exact H | apply Ext_refl].
Qed.

Lemma p_advance g gh line file : Inv None g gh ->
  exists gh', Inv None (advance_line g line file) gh' /\ Ext g gh (advance_line g line file) gh' /\ closed gh' = closed gh.
Proof.
  intros H. destruct (advance_spec g line file) as [->|[_ ->]].
  - exists gh. split; [exact H|]. split; [apply Ext_refl | reflexivity].
  - unfold breakpoint. cbv zeta.
    match goal with |- context [emit ?g1 IPotentialBreak] => set (gx := g1) end.
    assert (H1 : Inv None gx gh) by (eapply inv_ext; [| | | | | | exact H]; reflexivity).
    destruct (p_emit_break gx gh H1) as (gh' & I1 & X1 & C1). exists gh'. split; [exact I1|]. split; [|exact C1].
    eapply Ext_trans; [|exact X1]. apply ext_same; reflexivity.
Qed.

(* ================================================================================================ *)
(* 6. call sequences                                                                                *)
(* ================================================================================================ *)
Lemma p_emit_exec g gh c e : Inv (Some c) g gh -> In (e, c) (closed gh) ->
  exists gh', Inv None (emit g (IExec e)) gh' /\ Ext g gh (emit g (IExec e)) gh' /\ closed gh' = closed gh.
Proof.
  intros H Hc. exists (gh_emit gh (next_pos g) None).
  pose proof (inv_emit_gen (Some c) g gh (IExec e) (g_todo g) H eq_refl) as HI.
  split; [|split; [|reflexivity]].
  - eapply inv_ext; [| | | | | | apply HI]; try reflexivity.
    + intros _. exists c. split; [reflexivity|]. split; [exact Hc|]. cbn [ia IExec].
      destruct (Z.eq_dec (cur gh) 0) as [E0|Hne]; [left; exact E0 | right].
      apply (iv_closed _ _ _ H e c Hc). { apply (cur_in_ostk _ _ _ H). } exact Hne.
    + left. split; [reflexivity|]. intros [Hj|Hj]; discriminate Hj.
  - pose proof (ext_emit g gh (IExec e) (g_todo g) None (next_pos_ge1 _ _ _ H)) as [X1 X2 X3 X4 X5].
    constructor; auto.
Qed.

Lemma p_emit_args c arglocs : forall g gh k g', Inv (Some c) g gh -> (forall a, In a arglocs -> rok g a) ->
  0 <= k -> k + zlen arglocs <= c -> emit_args g arglocs k = Ok g' ->
  exists gh', Inv (Some c) g' gh' /\ Ext g gh g' gh' /\ closed gh' = closed gh.
Proof.
  induction arglocs as [|a rest IH]; intros g gh k g' H Ha Hk Hc E; cbn [emit_args] in E.
  - inversion E; subst. exists gh. split; [exact H|]. split; [apply Ext_refl | reflexivity].
  - binv E. assert (Hz : zlen (a :: rest) = zlen rest + 1) by (unfold zlen; cbn [length]; lia).
    rewrite Hz in Hc. pose proof (zlen_nonneg rest) as Hnn.
    destruct (p_emit (Some c) g gh (IArg k a) H) as (gh1 & I1 & X1 & C1).
    + unfold instr_ok, IArg. cbn. rewrite in_frame_intro by lia. rewrite in_frame_intro by (apply Ha; left; reflexivity).
      reflexivity.
    + discriminate.
    + intros [Hj|Hj]; discriminate Hj.
    + change (pend_after (IArg k a) (Some c)) with (Some c) in I1.
      match goal with Hr : release_temporary _ _ = Ok ?g2 |- _ => destruct (p_release _ _ _ _ _ I1 Hr) as (I2 & X2) end.
      assert (Ha' : forall x, In x rest -> rok a0 x).
      { intros x Hx. eapply rok_ext; [exact X2|]. eapply rok_ext; [exact X1|]. apply Ha. right. exact Hx. }
      destruct (IH _ gh1 (k + 1) g' I2 Ha' ltac:(lia) ltac:(lia) E) as (gh3 & I3 & X3 & C3).
      exists gh3. split; [exact I3|]. split; [|congruence].
        eapply Ext_trans; [exact X1|]. eapply Ext_trans; [exact X2 | exact X3].
Qed.

Lemma p_call_plain g gh arglocs fn tgt g' : Inv None g gh -> rok g tgt -> (forall a, In a arglocs -> rok g a) ->
  call_plain g arglocs fn tgt = Ok g' -> exists gh', Inv None g' gh' /\ Ext g gh g' gh'.
Proof.
  intros H Ht Ha E. unfold call_plain in E.
  destruct (alookup str_ltb (g_funcs g) fn) as [p|] eqn:El.
  2:{ inversion E; subst. exists gh. apply p_err. exact H. }
  destruct (p_argnum p =? zlen arglocs) eqn:En; cbn [negb] in E.
  2:{ inversion E; subst. exists gh. apply p_err. exact H. }
  apply Z.eqb_eq in En. binv E. inversion E; subst g'; clear E.
  destruct (iv_funcs _ _ _ H _ _ El) as (F1 & F2 & F3).
  destruct (iv_closed _ _ _ H _ _ F1) as (_ & _ & _ & F4 & _).
  destruct (p_emit None g gh (IPrepare (p_stack_size p) (p_mi p) tgt) H) as (gh1 & I1 & X1 & C1).
  - unfold instr_ok, IPrepare. cbn. rewrite F2. rewrite in_frame_intro by exact Ht.
    destruct (Z.leb_spec 0 (p_stack_size p)); [reflexivity | lia].
  - discriminate.
  - intros [Hj|Hj]; discriminate Hj.
  - change (pend_after (IPrepare (p_stack_size p) (p_mi p) tgt) None) with (Some (p_stack_size p)) in I1.
    match goal with He : emit_args _ _ _ = Ok ?g3 |- _ =>
      destruct (p_emit_args _ _ _ _ _ _ I1 (fun a Hin => rok_ext _ _ _ _ _ X1 (Ha a Hin)) (Z.le_refl 0) ltac:(lia) He)
        as (gh3 & I3 & X3 & C3) end.
    destruct (p_emit_exec _ gh3 _ (p_ind p) I3) as (gh4 & I4 & X4 & C4); [congruence|].
    exists gh4. split; [exact I4|]. eapply Ext_trans; [exact X1|]. eapply Ext_trans; [exact X3 | exact X4].
Qed.

(* ================================================================================================ *)
(* 7. removing a break, entering and leaving a routine                                              *)
(* ================================================================================================ *)
Lemma labels_le cp g gh l p : Inv cp g gh -> znth (g_labels g) l = Some p -> p <= next_pos g.
Proof.
  intros H Hz. destruct (Z.eq_dec p (-1)) as [->|Hne].
  - pose proof (next_pos_ge1 _ _ _ H). lia.
  - apply (iv_lab _ _ _ H l p Hz Hne).
Qed.

Definition Clean (g : gstate) : Prop :=
  (exists c i, g_code g = c ++ [i] /\ iop i <> POTENTIAL_BREAK) \/
  (forall l p, znth (g_labels g) l = Some p -> p < next_pos g).

Lemma clean_advance g gh line file : Inv None g gh -> Clean g -> Clean (advance_line g line file).
Proof.
  intros H C. destruct (advance_spec g line file) as [->|[_ ->]]; [exact C|]. right.
  unfold breakpoint, next_pos. gsimp. intros l p Hz. rewrite zlen_app. cbn.
  pose proof (labels_le _ _ _ _ _ H Hz). unfold next_pos in *. lia.
Qed.

Lemma p_remove g gh g' : Inv None g gh -> ostk gh = [0] -> Clean g -> remove_top_pot_break false g = Ok g' ->
  Inv None g' gh /\ g_labels g' = g_labels g /\ g_syms g' = g_syms g.
Proof.
  intros H Eo C E. apply remove_spec in E. destruct E as [->|(i & pb & li & Hi & Hc & _ & ->)]; [auto|].
  set (c := removelast (g_code g)) in *.
  destruct (last_break _ _ _ _ _ H Hc Hi) as (K1 & K2 & K3 & _).
  assert (Hn : next_pos g = zlen c + 1) by (unfold next_pos; rewrite Hc, zlen_app; reflexivity).
  assert (Hlab : forall l p, znth (g_labels g) l = Some p -> p < next_pos g).
  { destruct C as [(c' & i' & Hc' & Hi')|C]; [|exact C]. rewrite Hc in Hc'. apply app_inj_tail in Hc'.
    destruct Hc' as [_ <-]. contradiction. }
  assert (Hcur : cur gh = 0) by (unfold cur; rewrite Eo; reflexivity).
  split; [|split; reflexivity].
  destruct H as [A1 A2 A3 A4 A5 A6 A7 A8 A9 A10 A11 A12].
  assert (Hnp : next_pos (upd_code (upd_tables g pb li) c) = zlen c) by reflexivity.
  constructor; rewrite ?Hnp; unfold sizes, tabok in *; gsimp; try assumption.
  + destruct A3 as (i0 & Hz & Ho). exists i0. split; [|exact Ho]. rewrite Hc in Hz. rewrite znth_app_l in Hz; [exact Hz | lia].
  + intros pc j Hpc Hz. pose proof (znth_some_range _ _ _ Hz) as Hr.
    apply A5; [exact Hpc|]. rewrite Hc. rewrite znth_app_l; [exact Hz | lia].
  + intros e s He. destruct (A6 e s He) as (B1 & B2 & B3 & B4 & B5). rewrite Hn in B1.
    assert (e <> zlen c) by (intros ->; lia).
    repeat (split; try assumption); lia.
  + left. exact Eo.
  + intros l p Hz Hp. destruct (A10 l p Hz Hp) as (B1 & B2 & B3). specialize (Hlab l p Hz).
    repeat (split; try assumption); lia.
  + destruct A11 as [N1 N2]. split; [exact N1|]. intros loc Hl. destruct (N2 loc Hl) as (j & Hz & B2 & B3 & B4 & B5).
    exists j. rewrite Hc in Hz. apply znth_snoc_inv in Hz. destruct Hz as [[_ Hz]|[_ ->]].
    * repeat (split; try assumption).
    * destruct B2 as [B2|B2]; rewrite B2 in Hi; discriminate.
Qed.

Definition gh_push (gh : ghost) (n : Z) : ghost :=
  mkGh (upd (own gh) n n) (pnd gh) (lown gh) [n; 0] (closed gh).

Lemma last_not_first cp g gh c i : Inv cp g gh -> g_code g = c ++ [i] -> falls (iop i) = false -> 1 <= zlen c.
Proof.
  intros H Ec Hf. destruct (iv_c0 _ _ _ H) as (i0 & Hz0 & Ho0). pose proof (zlen_nonneg c).
  destruct (Z.eq_dec (zlen c) 0) as [E0|]; [|lia].
  assert (Hz : znth (g_code g) (zlen c) = Some i) by (rewrite Ec; apply znth_app_last).
  rewrite E0 in Hz. rewrite Hz0 in Hz. inversion Hz; subst. rewrite Ho0 in Hf. discriminate.
Qed.

Lemma p_push g gh nm : Inv None g gh -> ostk gh = [0] ->
  (exists c i, g_code g = c ++ [i] /\ falls (iop i) = false) ->
  (forall l p, znth (g_labels g) l = Some p -> p < next_pos g) ->
  Inv None (push_symbols g nm) (gh_push gh (next_pos g)).
Proof.
  intros H Eo (c & i & Ec & Hf) Hlab.
  pose proof (last_not_first _ _ _ _ _ H Ec Hf) as Hc1.
  assert (Hn : next_pos g = zlen c + 1) by (unfold next_pos; rewrite Ec, zlen_app; reflexivity).
  destruct (inv_shape _ _ _ H) as [(_ & f0 & Es & T0 & Ez)|(r & f & f0 & E & _)]; [|congruence].
  destruct H as [A1 A2 A3 A4 A5 A6 A7 A8 A9 A10 A11 A12].
  assert (Hnp : next_pos (push_symbols g nm) = next_pos g) by reflexivity.
  assert (Hsz : sizes (push_symbols g nm) (gh_push gh (next_pos g)) = closed gh ++ [(next_pos g, 0); (0, fsize f0)]).
  { unfold sizes, gh_push. gsimp. rewrite Es. reflexivity. }
  constructor; rewrite ?Hnp, ?Hsz; unfold gh_push, cur; cbn [own pnd lown ostk closed hd].
  - apply upd_same.
  - exact A2.
  - exact A3.
  - rewrite upd_other by lia. exact A4.
  - intros pc j Hpc Hz. pose proof (znth_some_range _ _ _ Hz) as Hr. gsimp. fold (next_pos g) in Hr.
    rewrite upd_other by lia. destruct (A5 pc j Hpc Hz) as (B1 & B2 & B3 & B4 & B5).
    assert (Hown : own gh pc <> next_pos g).
    { destruct B2 as [s Hs]. rewrite Ez in Hs. apply in_app_or in Hs. destruct Hs as [Hs|[Hs|[]]].
      - apply A6 in Hs. lia.
      - inversion Hs. lia. }
    split; [|split; [|split; [|split]]].
    + intros s Hs. apply B1. rewrite Ez. apply in_app_or in Hs. apply in_or_app.
      destruct Hs as [Hs|[Hs|Hs]]; [left; exact Hs | inversion Hs; congruence | right; exact Hs].
    + destruct B2 as [s Hs]. exists s. rewrite Ez in Hs. apply in_app_or in Hs. apply in_or_app.
      destruct Hs as [Hs|Hs]; [left; exact Hs | right; right; exact Hs].
    + intros Hfj. destruct (Z.eq_dec (pc + 1) (next_pos g)) as [Heq|Hne].
      * exfalso. assert (pc = zlen c) by lia. subst pc. rewrite Ec, znth_app_last in Hz. inversion Hz; subst j.
        rewrite Hf in Hfj. discriminate.
      * rewrite upd_other by exact Hne. apply B3. exact Hfj.
    + exact B4.
    + exact B5.
  - intros e s He. destruct (A6 e s He) as (B1 & B2 & B3 & B4 & B5). rewrite upd_other by lia.
    repeat (split; try assumption). intros o [<-|[<-|[]]] Ho; [lia | congruence].
  - exact A7.
  - right. exists (next_pos g). split; [reflexivity|]. split; [lia|]. split; [apply upd_same | exact A2].
  - gsimp. rewrite Es. constructor.
    + split; [cbn; unfold fsize; cbn; lia | intros n l []].
    + constructor; [|constructor]. exact T0.
  - gsimp. intros l p Hz Hp. destruct (A10 l p Hz Hp) as (B1 & B2 & B3). specialize (Hlab l p Hz).
    rewrite upd_other by lia. repeat (split; try assumption).
  - gsimp. destruct A11 as [N1 N2]. split; [exact N1|]. intros loc Hl. destruct (N2 loc Hl) as (j & Hz & B2 & B3 & B4 & B5).
    exists j. pose proof (znth_some_range _ _ _ Hz) as Hr. fold (next_pos g) in Hr. rewrite upd_other by lia.
    repeat (split; try assumption).
  - gsimp. exact A12.
Qed.

Definition gh_pop (gh : ghost) (n r s : Z) : ghost :=
  mkGh (upd (own gh) n 0) (pnd gh) (lown gh) [0] ((r, s) :: closed gh).

Lemma p_pop g gh r g' : Inv None g gh -> ostk gh = [r; 0] -> r < next_pos g ->
  (exists c i, g_code g = c ++ [i] /\ falls (iop i) = false) ->
  (forall l p, znth (g_labels g) l = Some p -> p < next_pos g) ->
  pop_symbols g r = Ok g' ->
  Inv None g' (gh_pop gh (next_pos g) r (topsz g)) /\ g_code g' = g_code g /\ g_labels g' = g_labels g /\
  length (g_syms g') = 1%nat.
Proof.
  intros H Eo Hrn (c & i & Ec & Hf) Hlab E.
  pose proof (last_not_first _ _ _ _ _ H Ec Hf) as Hc1.
  assert (Hn : next_pos g = zlen c + 1) by (unfold next_pos; rewrite Ec, zlen_app; reflexivity).
  destruct (inv_shape _ _ _ H) as [(Eo' & _)|(r' & f & f0 & Eo' & Es & Hr & Hor & Hpr & Tf & T0 & Ez)]; [congruence|].
  rewrite Eo in Eo'. inversion Eo'; subst r'; clear Eo'.
  unfold pop_symbols in E. binv E. inversion E; subst g'; clear E.
  match goal with Hh : hd_error (g_syms g) = Some _ |- _ => rewrite Es in Hh; cbn in Hh; inversion Hh; subst a; clear Hh end.
  match goal with Hm : check_marks _ _ = Ok _ |- _ => apply check_marks_errs in Hm; destruct Hm as [e ->] end.
  assert (Hts : topsz g = fsize f) by (unfold topsz; rewrite Es; reflexivity). rewrite Hts.
  split; [|gsimp; rewrite Es; auto].
  destruct H as [A1 A2 A3 A4 A5 A6 A7 A8 A9 A10 A11 A12].
  match goal with |- Inv None ?gx _ => set (g8 := gx) end.
  assert (Hnp : next_pos g8 = next_pos g) by reflexivity.
  assert (Hsz : sizes g8 (gh_pop gh (next_pos g) r (fsize f)) = (r, fsize f) :: closed gh ++ [(0, fsize f0)]).
  { unfold sizes, gh_pop, g8. gsimp. rewrite Es. reflexivity. }
  assert (Hml : maps_le (pm (g_maps g)) (pm (g_maps g8))) by (unfold g8; gsimp; apply maps_le_app).
  constructor; rewrite ?Hnp, ?Hsz; unfold gh_pop, cur; cbn [own pnd lown ostk closed hd].
  - apply upd_same.
  - exact A2.
  - exact A3.
  - rewrite upd_other by lia. exact A4.
  - intros pc j Hpc Hz. pose proof (znth_some_range _ _ _ Hz) as Hrg. unfold g8 in Hz, Hrg. gsimp. fold (next_pos g) in Hrg.
    rewrite upd_other by lia. destruct (A5 pc j Hpc Hz) as (B1 & B2 & B3 & B4 & B5).
    split; [|split; [|split; [|split]]].
    + intros s Hs. eapply instr_ok_le; [exact Hml | reflexivity | reflexivity | apply Z.le_refl |]. apply B1.
      rewrite Ez. apply in_or_app. destruct Hs as [Hs|Hs]; [right; left; exact Hs|].
      apply in_app_or in Hs. destruct Hs as [Hs|Hs]; [left; exact Hs | right; right; exact Hs].
    + destruct B2 as [s Hs]. exists s. rewrite Ez in Hs. apply in_app_or in Hs.
      destruct Hs as [Hs|[Hs|Hs]]; [right; apply in_or_app; left; exact Hs | left; exact Hs | right; apply in_or_app; right; exact Hs].
    + intros Hfj. destruct (Z.eq_dec (pc + 1) (next_pos g)) as [Heq|Hne].
      * exfalso. assert (pc = zlen c) by lia. subst pc. rewrite Ec, znth_app_last in Hz. inversion Hz; subst j.
        rewrite Hf in Hfj. discriminate.
      * rewrite upd_other by exact Hne. apply B3. exact Hfj.
    + intros He. destruct (B4 He) as (c0 & C1 & C2 & C3). exists c0. split; [exact C1|]. split; [right; exact C2 | exact C3].
    + exact B5.
  - intros e1 s [He|He].
    + inversion He; subst e1 s. rewrite upd_other by lia. split; [lia|]. split; [exact Hor|]. split; [exact Hpr|].
      split; [apply fsize_nonneg|]. intros o [<-|[]] Ho. congruence.
    + destruct (A6 e1 s He) as (B1 & B2 & B3 & B4 & B5). rewrite upd_other by lia.
      repeat (split; try assumption). intros o [<-|[]] Ho. congruence.
  - cbn [map fst]. constructor; [|exact A7]. intros Hi. apply in_map_iff in Hi. destruct Hi as ([e1 s] & He1 & He2).
    cbn in He1. subst e1. destruct (A6 r s He2) as (_ & _ & _ & _ & B5). specialize (B5 r). rewrite Eo in B5.
    specialize (B5 (or_introl eq_refl)). lia.
  - left. reflexivity.
  - unfold g8. gsimp. rewrite Es. cbn [tl]. constructor; [|constructor]. exact T0.
  - unfold g8. gsimp. intros l p Hz Hp. destruct (A10 l p Hz Hp) as (B1 & B2 & B3). specialize (Hlab l p Hz).
    rewrite upd_other by lia. repeat (split; try assumption).
  - unfold g8. gsimp. destruct A11 as [N1 N2]. split; [exact N1|]. intros loc Hl.
    destruct (N2 loc Hl) as (j & Hz & B2 & B3 & B4 & B5).
    exists j. pose proof (znth_some_range _ _ _ Hz) as Hrg. fold (next_pos g) in Hrg. rewrite upd_other by lia.
    repeat (split; try assumption).
  - unfold g8. gsimp. intros nm p. rewrite str_lookup_insert. destruct (keqb str_ltb nm (f_name f)).
    + intros Hp. inversion Hp; subst p; clear Hp. cbn [p_ind p_stack_size p_mi p_argnum].
      split; [left; reflexivity|]. split.
      * rewrite zlen_app. cbn. replace (zlen (g_maps g) + 1 - 1) with (zlen (g_maps g)) by lia. apply map_ok_last.
      * apply Tf.
    + intros Hp. destruct (A12 nm p Hp) as (B1 & B2 & B3). split; [right; exact B1|]. split; [|exact B3].
      apply (maps_le_app (g_maps g)). exact B2.
Qed.

(* ================================================================================================ *)
(* 8. parameters                                                                                    *)
(* ================================================================================================ *)
Lemma p_dargs_n : forall n cp g gh g', Inv cp g gh -> dispatch_args_n false n g = Ok g' ->
  Inv cp g' gh /\ Ext g gh g' gh /\ g_code g' = g_code g /\ g_labels g' = g_labels g.
Proof.
  induction n as [t line file tok l r IHl IHr] using node_ind'. intros cp g gh g' H E.
  destruct (ntype_eq_dec_split t) as [->|Hn].
  - rewrite da_split in E. binv E.
    assert (S1 : Inv cp a gh /\ Ext g gh a gh /\ g_code a = g_code g /\ g_labels a = g_labels g).
    { destruct l as [x|]; cbn in H0, IHl; [eapply IHl; eauto|]. inversion H0; subst.
      split; [exact H|]. split; [apply Ext_refl | auto]. }
    destruct S1 as (I1 & X1 & C1 & L1).
    assert (S2 : Inv cp g' gh /\ Ext a gh g' gh /\ g_code g' = g_code a /\ g_labels g' = g_labels a).
    { destruct r as [x|]; cbn in E, IHr; [eapply IHr; eauto|]. inversion E; subst.
      split; [exact I1|]. split; [apply Ext_refl | auto]. }
    destruct S2 as (I2 & X2 & C2 & L2). split; [exact I2|]. split; [eapply Ext_trans; eauto|]. split; congruence.
  - rewrite da_leaf in E by auto. binv E. destruct (get_symbols_inv _ _ H0) as [tl0 Es].
    destruct (find_reg (f_regs a) tok 0) eqn:Ef.
    + inversion E; subst. destruct (p_verr cp g gh T_PARSE_ERROR e_param_twice file line H) as [I1 X1].
      split; [exact I1|]. split; [exact X1|]. split; reflexivity.
    + cbv zeta in E. binv E. inversion E; subst g'; clear E. destruct a0 as [g2 i]. cbn [fst].
      match goal with Hf : fetch_variable _ _ = Ok _ |- _ => unfold fetch_variable, get_symbols in Hf; gsimp;
        cbn [hd_error of_opt bind f_regs] in Hf; rewrite Ef in Hf; inversion Hf; subst g2 i; clear Hf end.
      cbn [f_name f_argnum f_marks].
      pose proof (top_tabok _ _ _ _ _ H Es) as [T1 T2]. pose proof (fsize_nonneg a) as Hnn.
      set (f2 := mkFGS (f_name a) (f_regs a ++ [mkVReg true false tok]) (f_argnum a + 1) (f_marks a)).
      assert (I2 : Inv cp (set_symbols g f2) gh).
      { eapply inv_settop; [exact H | exact Es | unfold f2; rewrite fsize_snoc; lia |].
        split; [unfold f2; rewrite fsize_snoc; cbn [f_argnum]; lia | exact T2]. }
      split; [|split; [|split; reflexivity]].
      * eapply inv_ext; [| | | | | | exact I2]; reflexivity.
      * constructor; auto; try (gsimp; lia).
        -- unfold topsz. gsimp. rewrite Es. fold f2. unfold f2 at 1. rewrite fsize_snoc. lia.
        -- unfold next_pos. gsimp. lia.
Qed.

Lemma p_dargs o cp g gh g' : Inv cp g gh -> dispatch_args false o g = Ok g' ->
  Inv cp g' gh /\ Ext g gh g' gh /\ g_code g' = g_code g /\ g_labels g' = g_labels g.
Proof.
  destruct o as [n|]; cbn; intros H E; [eapply p_dargs_n; eauto|]. inversion E; subst.
  split; [exact H|]. split; [apply Ext_refl | auto].
Qed.
