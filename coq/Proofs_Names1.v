(* Proofs_Names1.v — helpers for Proofs_Names.v, part 1: a predicate on tokens that holds for the error identifier and is
   kept by the renaming of temporaries holds for every token of every later stream (extraction, macro application). *)
From Coq Require Import List ZArith NArith Lia Bool.
From Theo Require Import Base Regex Tokens Errors Lexer Scan MacroExtract Grammar LR MacroApply Parser VMModel GenModel Compile
                         Gen_Lexer Gen_Consts
                         Proofs_Lexer Proofs_Scan Proofs_Front Proofs_Macro Proofs_Apply0 Proofs_Apply Proofs_Loc.
Import ListNotations.
Local Open Scope Z_scope.

Ltac nbi H x Hx := apply bind_Ok_inv in H; destruct H as (x & Hx & H).

Section G.
  Variable G : token -> Prop.
  Hypothesis Gerr : forall f l, G (mkTok ID [101; 114; 114; 111; 114]%N f l).
  Hypothesis Gtemp : forall t l p, G t -> tk t = TEMP_VAL ->
    G (mkTok ID (temp_name (ttext t) (tfile t) l p) (tfile t) (tline t)).

  Definition allG (l : list token) : Prop := Forall G l.

  Lemma incl_allG (l whole : list token) : incl l whole -> allG whole -> allG l.
  Proof. intros HI A. unfold allG in *. rewrite Forall_forall in *. intros t Ht. apply A, HI, Ht. Qed.

  (* ---- extraction ------------------------------------------------------------------------------- *)
  Lemma validate_repl_G tokens ntt : forall repl x,
    allG repl -> rpost (validate_repl tokens x ntt repl) (fun r => allG (snd r)).
  Proof.
    induction repl as [|t rest IH]; intros x A.
    - cbn [validate_repl]. apply rpost_ok. constructor.
    - inversion A as [|t' r' At Ar]; subst. cbn [validate_repl].
      assert (DEF : forall y, rpost (do r2 <- validate_repl tokens y ntt rest; Ok (fst r2, t :: snd r2))
                      (fun r => allG (snd r))).
      { intros y. eapply rpost_bind; [apply IH; exact Ar|]. intros r2 B. apply rpost_ok. cbn [snd].
        constructor; assumption. }
      destruct (tk t) eqn:K; try apply DEF.
      apply rpost_bind_any. intros [x1 ind]. cbv beta iota.
      destruct ((ind <? 0) || (ntt <=? ind)); [|apply DEF].
      eapply rpost_bind; [apply IH; exact Ar|]. intros r2 B. apply rpost_ok. cbn [snd].
      constructor; [apply Gerr|exact B].
  Qed.

  Lemma validate_macros_G tokens : forall ms x,
    Forall (fun m => allG (m_repl m)) ms ->
    rpost (validate_macros tokens x ms) (fun r => Forall (fun m => allG (m_repl m)) (snd r)).
  Proof.
    induction ms as [|m rest IH]; intros x F.
    - cbn [validate_macros]. apply rpost_ok. constructor.
    - inversion F as [|m' r' M Fr]; subst. cbn [validate_macros].
      eapply rpost_bind; [apply validate_repl_G; exact M|]. intros [x1 repl'] A. cbn [snd] in A.
      eapply rpost_bind; [apply IH; exact Fr|]. intros r2 Hr2. apply rpost_ok. cbn [snd].
      constructor; [|exact Hr2]. cbn [m_repl]. exact A.
  Qed.

  Lemma extract_G toks errs out macros : allG toks -> extract_macros toks = Ok (errs, out, macros) ->
    allG out /\ Forall (fun m => allG (m_repl m)) macros.
  Proof.
    intros A H. unfold extract_macros in H. nbi H x Hx. nbi H r Hr. inversion H; subst.
    assert (L : linv toks x).
    { apply (xrun_linv toks (4 + length toks)%nat mS (mkX [] [] 0 [])); [|exact Hx].
      split; [intros y []|constructor]. }
    destruct L as [L1 L2]. split.
    - eapply incl_allG; [exact L1|exact A].
    - apply (validate_macros_G toks (x_macros x) x); [|exact Hr].
      eapply Forall_impl; [|exact L2]. intros m [M1 M2]. eapply incl_allG; eauto.
  Qed.

  (* ---- macro application ---------------------------------------------------------------------------- *)
  Lemma instantiate_G m fl matched pass : forall body repl, instantiate m fl matched pass body = Ok repl ->
    allG body -> Forall allG matched -> allG repl.
  Proof.
    induction body as [|c rest IH]; intros repl H AB AM.
    - cbn [instantiate] in H. inversion H; subst. constructor.
    - inversion AB as [|c' r' Ac Ar]; subst. rewrite instantiate_cons in H. nbi H more Hmore.
      pose proof (IH _ Hmore Ar AM) as AMore.
      assert (DEF : Ok (c :: more) = Ok repl -> allG repl).
      { intros E. inversion E; subst repl. constructor; assumption. }
      destruct (tk c) eqn:K; try (apply DEF; exact H).
      + nbi H slot Hslot. nbi H ins Hins. inversion H; subst repl.
        apply of_opt_ok in Hins. apply znth_in in Hins. rewrite Forall_forall in AM.
        apply Forall_app. split; [apply AM; exact Hins|exact AMore].
      + inversion H; subst repl. constructor; [apply Gtemp; assumption|exact AMore].
  Qed.

  Lemma get_replacement_G m r pass repl : get_replacement m r pass = Ok repl ->
    allG (m_repl m) -> Forall allG (r_matched r) -> allG repl.
  Proof.
    unfold get_replacement. intros H AB AM. destruct (m_repl m) as [|t0 body] eqn:E.
    - inversion H; subst. constructor.
    - eapply instantiate_G; eassumption.
  Qed.

  Section Defs.
    Variable defs : list macrodef.
    Hypothesis ADefs : Forall (fun m => allG (m_repl m)) defs.

    Lemma try_bin_G ds cur pass out : Forall (dok defs) ds -> allG cur ->
      try_bin false ds cur pass = Ok (Some out) -> allG out.
    Proof.
      intros FD AC H. apply try_bin_some in H.
      destruct H as (x & rest & d & r & repl & HA & HM & HR & HL & ->).
      destruct (min_element_spec x rest) as [HI _]. rewrite HM in HI.
      destruct (detect_all_sound _ _ _ HA d r HI) as [Hd HD].
      rewrite Forall_forall in FD. pose proof (FD d Hd) as DK. unfold dok in DK.
      unfold detect in HD. apply detect_from_in in HD.
      apply Forall_app. split; [eapply incl_allG; [|exact AC]; intros y Hy; eapply in_firstn; exact Hy|].
      apply Forall_app. split; [|eapply incl_allG; [|exact AC]; intros y Hy; eapply in_skipn; exact Hy].
      eapply get_replacement_G; [exact HR| |].
      - rewrite Forall_forall in ADefs. apply ADefs. exact DK.
      - eapply Forall_impl; [|exact HD]. intros l Hl. exact (incl_allG l cur Hl AC).
    Qed.

    Lemma try_bins_G : forall bins cur pass out, bins_dok defs bins -> allG cur ->
      try_bins false bins cur pass = Ok (Some out) -> allG out.
    Proof.
      induction bins as [|[k ds] bins IH]; intros cur pass out GB AC H.
      - cbn [try_bins] in H. discriminate.
      - rewrite try_bins_cons in H. nbi H r Hr. destruct r as [i|].
        + inversion H; subst i. eapply try_bin_G; [|exact AC|exact Hr]. apply (GB k ds). left; reflexivity.
        + eapply IH; [|exact AC|exact H]. intros p l Hp. apply (GB p l). right; exact Hp.
    Qed.

    Lemma pass_loop_G bins : bins_dok defs bins -> forall n cur pass out ch, allG cur ->
      pass_loop false n bins cur pass = Ok (out, ch) -> allG out.
    Proof.
      intros GB. induction n as [|k IH]; intros cur pass out ch AC H.
      - cbn [pass_loop] in H. inversion H; subst. exact AC.
      - rewrite pass_loop_S in H. nbi H r Hr. destruct r as [cur'|].
        + pose proof (try_bins_G _ _ _ _ GB AC Hr) as AC'.
          destruct k as [|k'].
          * inversion H; subst. exact AC'.
          * eapply IH; [exact AC'|exact H].
        + inversion H; subst. exact AC.
    Qed.
  End Defs.

  Lemma apply_G input defs passes errs out : allG input -> Forall (fun m => allG (m_repl m)) defs ->
    apply_macros input defs passes = Ok (errs, out) -> allG out.
  Proof.
    intros AI AD H.
    apply apply_macros_inv in H. destruct H as (ds & errs0 & us & changed & Hds & Hsu & Hpl & _).
    pose proof (make_detectors_dok _ _ Hds) as D1.
    pose proof (split_usable_dok defs _ _ _ Hsu D1) as D2.
    assert (GB : bins_dok defs (rev (fold_left add_bin us []))).
    { intros p l HI. apply in_rev in HI. revert p l HI. apply fold_add_bin_dok; [exact D2|]. intros p l []. }
    exact (pass_loop_G defs AD _ GB passes input 0 out changed AI Hpl).
  Qed.
End G.
