(* Proofs_LocErr2.v — helpers for C02 error locations, part 2: the generator.  For a predicate Q on positions that holds
   at the generator's initial file state, at every forwarded parse error and at every node of the tree, every error
   of gen is at a Q position: an error is reported at the current file state (the initial one or the position of a
   visited node) or at the position of a node (a repeated parameter). *)
From Coq Require Import List ZArith NArith Lia Bool.
From Theo Require Import Base Regex Tokens Errors Lexer Scan MacroExtract Grammar LR MacroApply Parser VMModel VMSpec VMCheck GenModel
                         Compile Gen_Lexer Gen_Consts CompileStatements Proofs_VM_dbg Proofs_Gen0 Proofs_Gen.
Import ListNotations.
Local Open Scope Z_scope.

Section GQ.
  Variable Q : str -> Z -> Prop.
  Definition gerrQ (e : gerr) : Prop := Q (ge_file e) (ge_line e).
  Definition J (g : gstate) : Prop := Q (g_fsname g) (g_fsline g) /\ Forall gerrQ (g_errs g).

  Definition allq (n : node) : Prop := forall f l, In (f, l) (positions n) -> Q f l.
  Definition allq_o (o : option node) : Prop := optP allq o.

  Lemma allq_inv t line file tok l r : allq (Node t line file tok l r) -> Q file line /\ allq_o l /\ allq_o r.
  Proof.
    unfold allq. cbn [positions]. intros H. split; [apply H; left; reflexivity|]. split.
    - destruct l as [x|]; cbn; auto. intros f l0 Hi. apply H. right. apply in_or_app. left; auto.
    - destruct r as [x|]; cbn; auto. intros f l0 Hi. apply H. right. apply in_or_app. right; auto.
  Qed.

  Lemma allq_o_left n : allq n -> allq_o (n_left n).
  Proof. destruct n. intros H. apply allq_inv in H. cbn. tauto. Qed.
  Lemma allq_o_right n : allq n -> allq_o (n_right n).
  Proof. destruct n. intros H. apply allq_inv in H. cbn. tauto. Qed.

  (* ---- primitive operations ------------------------------------------------------------------- *)
  Lemma J_ext g g' : g_fsname g' = g_fsname g -> g_fsline g' = g_fsline g -> g_errs g' = g_errs g -> J g -> J g'.
  Proof. unfold J. intros -> -> ->. auto. Qed.

  Lemma jj_emit g i : J g -> J (emit g i).
  Proof. apply J_ext; reflexivity. Qed.

  Lemma jj_emit_bp g i : J g -> J (emit_backpatched g i).
  Proof. apply J_ext; reflexivity. Qed.

  Lemma jj_breakpoint g : J g -> J (breakpoint g).
  Proof. apply J_ext; reflexivity. Qed.

  Lemma jj_adv g line file : Q file line -> J g -> J (advance_line g line file).
  Proof.
    intros HQ HJ. destruct (advance_spec g line file) as [->|[_ ->]]; [exact HJ|].
    apply jj_breakpoint. destruct HJ as [_ E]. split; [exact HQ|exact E].
  Qed.

  Lemma jj_err g t k : J g -> J (err g t k).
  Proof.
    intros [H1 H2]. split; [exact H1|]. unfold err. cbn [g_errs upd_errs]. apply Forall_app. split; [exact H2|].
    constructor; [exact H1|constructor].
  Qed.

  Lemma jj_verr g t k f l : Q f l -> J g -> J (verr g t k f l).
  Proof.
    intros HQ [H1 H2]. split; [exact H1|]. unfold verr. cbn [g_errs upd_errs]. apply Forall_app. split; [exact H2|].
    constructor; [exact HQ|constructor].
  Qed.

  Lemma jj_const g tok : J g -> J (fst (gen_str_to_int g tok)).
  Proof.
    intros H. unfold gen_str_to_int. cbn [fst]. destruct (INT_MAX <=? strtol tok); [apply jj_err|]; exact H.
  Qed.

  Lemma jj_set_symbols g f : J g -> J (set_symbols g f).
  Proof. apply J_ext; reflexivity. Qed.

  Lemma jj_push g n : J g -> J (push_symbols g n).
  Proof. apply J_ext; reflexivity. Qed.

  Lemma jj_loops g : J g -> J (loops_incr g).
  Proof. apply J_ext; reflexivity. Qed.

  Lemma jj_create_label g g1 l : create_label g = (g1, l) -> J g -> J g1.
  Proof. unfold create_label. intros H. inversion H; subst. apply J_ext; reflexivity. Qed.

  Lemma jj_set_label g l i g' : set_label g l i = Ok g' -> J g -> J g'.
  Proof. unfold set_label. intros H. binv H. inversion H; subst. apply J_ext; reflexivity. Qed.

  Lemma jj_fetch_variable g n g' i : fetch_variable g n = Ok (g', i) -> J g -> J g'.
  Proof.
    unfold fetch_variable. intros H S. binv H. destruct (find_reg (f_regs a) n 0); inversion H; subst; auto;
      apply jj_set_symbols; auto.
  Qed.

  Lemma jj_fetch_temporary g g' i : fetch_temporary g = Ok (g', i) -> J g -> J g'.
  Proof.
    unfold fetch_temporary. intros H S. binv H. destruct (find_free_temp (f_regs a) 0).
    - binv H. inversion H; subst. apply jj_set_symbols; auto.
    - inversion H; subst. apply jj_set_symbols; auto.
  Qed.

  Lemma jj_release g i g' : release_temporary g i = Ok g' -> J g -> J g'.
  Proof.
    unfold release_temporary. intros H S. binv H. destruct (is_temp a0).
    - binv H. inversion H; subst. apply jj_set_symbols; auto.
    - inversion H; subst; auto.
  Qed.

  Lemma jj_ensure_mark g n g' l : ensure_mark g n = Ok (g', l) -> J g -> J g'.
  Proof.
    unfold ensure_mark. intros H S. binv H. destruct (alookup str_ltb (f_marks a) n).
    - inversion H; subst; auto.
    - binv H. inversion H; subst. apply jj_set_symbols. eapply jj_create_label; eauto.
  Qed.

  Lemma jj_check_marks marks : forall g g1, check_marks g marks = Ok g1 -> J g -> J g1.
  Proof.
    induction marks as [|[nm l] rest IH]; intros g g1 H S; cbn [check_marks] in H.
    - inversion H; subst. exact S.
    - binv H. eapply IH; [exact H|]. destruct (a =? -1); [apply jj_err|]; exact S.
  Qed.

  Lemma jj_pop g addr g' : pop_symbols g addr = Ok g' -> J g -> J g'.
  Proof.
    unfold pop_symbols. intros H S. binv H. inversion H; subst; clear H.
    apply jj_check_marks in H1; [|exact S]. revert H1. apply J_ext; reflexivity.
  Qed.

  Lemma jj_rem lp g g' : remove_top_pot_break lp g = Ok g' -> J g -> J g'.
  Proof.
    intros H S. apply remove_spec in H. destruct H as [->|(i & pb & li & _ & _ & _ & ->)]; [exact S|].
    revert S. apply J_ext; reflexivity.
  Qed.

  Lemma jj_emit_args arglocs : forall g i g', emit_args g arglocs i = Ok g' -> J g -> J g'.
  Proof.
    induction arglocs as [|a rest IH]; intros g i g' H S; cbn [emit_args] in H.
    - inversion H; subst; auto.
    - binv H. eapply IH; [exact H|]. eapply jj_release; [exact H0|]. apply jj_emit; auto.
  Qed.

  Lemma jj_dispatch_args_n la : forall n g g', allq n -> dispatch_args_n la n g = Ok g' -> J g -> J g'.
  Proof.
    induction n as [t line file tok l r IHl IHr] using node_ind'. intros g g' HA H S.
    destruct (allq_inv _ _ _ _ _ _ HA) as [Hp [HAl HAr]].
    destruct (ntype_eq_dec_split t) as [->|Hn].
    - rewrite da_split in H. binv H.
      assert (S1 : J a).
      { destruct l as [x|]; cbn in H0, IHl, HAl; [eapply IHl; eauto | inversion H0; subst; auto]. }
      destruct r as [x|]; cbn in H, IHr, HAr; [eapply IHr; eauto | inversion H; subst; auto].
    - rewrite da_leaf in H by auto. binv H.
      assert (D : forall g1, (do r0 <- fetch_variable (set_symbols g (mkFGS (f_name a) (f_regs a) (f_argnum a + 1) (f_marks a))) tok; Ok (fst r0)) = Ok g1 -> J g1).
      { intros g1 H1. binv H1. inversion H1; subst. destruct a0 as [g2 i]. cbn [fst].
        eapply jj_fetch_variable; [exact H2|]. apply jj_set_symbols; auto. }
      destruct (find_reg (f_regs a) tok 0); [destruct la|]; auto.
      inversion H; subst. apply jj_verr; auto.
  Qed.

  Lemma jj_dargs la o g g' : allq_o o -> dispatch_args la o g = Ok g' -> J g -> J g'.
  Proof.
    destruct o as [n|]; cbn; intros HA H S; [eapply jj_dispatch_args_n; eauto | inversion H; subst; auto].
  Qed.

  Hint Resolve jj_emit jj_emit_bp jj_adv jj_err jj_verr jj_set_symbols jj_push jj_loops jj_create_label
       jj_set_label jj_fetch_variable jj_fetch_temporary jj_release jj_ensure_mark jj_pop jj_rem
       jj_emit_args jj_const : jj.

  (* ---- values ----------------------------------------------------------------------------------- *)
  Definition Qval (dv : node -> Z -> gstate -> result gstate) (n : node) : Prop :=
    forall tgt g g', allq n -> dv n tgt g = Ok g' -> J g -> J g'.

  Lemma call_args_J dv : forall a, all_sub (Qval dv) a -> allq a ->
    forall acc res, call_args dv a acc = Ok res -> J (fst acc) -> J (fst res).
  Proof.
    induction a as [t line file tok l r IHl IHr] using node_ind'. intros HS HA acc res H S.
    cbn [all_sub] in HS. destruct HS as [Hh [HSl HSr]].
    destruct (allq_inv _ _ _ _ _ _ HA) as [_ [HAl HAr]].
    destruct (ntype_eq_dec_split t) as [->|Hn].
    - rewrite call_args_split in H. binv H.
      assert (S1 : J (fst a)).
      { destruct l as [x|]; cbn in H0, IHl, HAl; [eapply IHl; eauto | inversion H0; subst; auto]. }
      destruct r as [x|]; cbn in H, IHr, HAr; [eapply IHr; eauto | inversion H; subst; auto].
    - rewrite call_args_leaf in H by (cbn; auto). binv H. inversion H; subst; cbn [fst].
      eapply Hh; eauto with jj.
  Qed.

  Lemma call_plain_J g1 arglocs fn tgt g' : call_plain g1 arglocs fn tgt = Ok g' -> J g1 -> J g'.
  Proof.
    unfold call_plain. intros H S. destruct (alookup str_ltb (g_funcs g1) fn) as [p|] eqn:E.
    - destruct (negb (p_argnum p =? zlen arglocs)).
      + inversion H; subst. auto with jj.
      + binv H. inversion H; subst. apply jj_emit. eapply jj_emit_args; [exact H0|]. apply jj_emit. exact S.
    - inversion H; subst. auto with jj.
  Qed.

  Lemma call_tail_J ln l r tgt g1 arglocs g' : call_tail ln l r tgt (g1, arglocs) = Ok g' -> J g1 -> J g'.
  Proof.
    unfold call_tail. intros H S. binv H.
    destruct a0 as [ctok|]; [|eapply call_plain_J; eauto].
    destruct (str_eqb (n_tok a) name_INC || str_eqb (n_tok a) name_DEC); [|eapply call_plain_J; eauto].
    binv H. destruct (str_eqb (n_tok a) name_INC).
    - inversion H; subst. apply jj_emit; auto.
    - destruct (ln && (strToIntSilent_gen ctok =? INT_MIN)); [discriminate|].
      inversion H; subst. apply jj_emit; auto.
  Qed.

  Lemma dv_J ln : forall n, all_sub (Qval (dispatch_value ln)) n.
  Proof.
    apply all_sub_intro. intros t line file tok l r Hl Hr tgt g g' HA H S.
    destruct (allq_inv _ _ _ _ _ _ HA) as [Hp [HAl HAr]].
    destruct (value_type t) eqn:Et.
    - destruct t; try discriminate.
      + rewrite dv_name in H. binv H. inversion H; subst. eauto 6 with jj.
      + rewrite dv_number in H. inversion H; subst. apply jj_emit. apply jj_const. apply jj_adv; assumption.
      + rewrite dv_call in H. binv H. destruct a as [g1 arglocs].
        eapply call_tail_J; [exact H|].
        destruct r as [rn0|]; cbn [call_args_o] in H0.
        * cbn in Hr, HAr. change g1 with (fst (g1, arglocs)).
          eapply call_args_J; [exact Hr | exact HAr | exact H0 |]. cbn [fst]. auto with jj.
        * inversion H0; subst. auto with jj.
    - rewrite dv_other in H by auto. inversion H; subst. auto with jj.
  Qed.

  Lemma dvalue_J ln n tgt g g' : allq n -> dispatch_value ln n tgt g = Ok g' -> J g -> J g'.
  Proof. intros. eapply (all_sub_here _ _ (dv_J ln n)); eauto. Qed.

  Lemma dvalue_opt_J ln o tgt g g' : allq_o o -> dispatch_value_opt ln o tgt g = Ok g' -> J g -> J g'.
  Proof.
    destruct o as [n|]; cbn; intros HA H S; [eapply dvalue_J; eauto | inversion H; subst; auto].
  Qed.

  Hint Resolve dvalue_opt_J jj_dargs : jj.

  (* ---- statements ------------------------------------------------------------------------------- *)
  Definition Qvoid ln lp la (n : node) : Prop :=
    forall g g', allq n -> dispatch_void ln lp la n g = Ok g' -> J g -> J g'.

  Lemma dvoid_J ln lp la : forall n, Qvoid ln lp la n.
  Proof.
    induction n as [t line file tok l r IHl IHr] using node_ind'. intros g g' HA H S.
    destruct (allq_inv _ _ _ _ _ _ HA) as [Hp [HAl HAr]].
    assert (Il : forall g g', dvo ln lp la l g = Ok g' -> J g -> J g').
    { intros y z Hd Hs. destruct l as [n|]; cbn in Hd, IHl, HAl; [eapply IHl; eauto | inversion Hd; subst; auto]. }
    assert (Ir : forall g g', dvo ln lp la r g = Ok g' -> J g -> J g').
    { intros y z Hd Hs. destruct r as [n|]; cbn in Hd, IHr, HAr; [eapply IHr; eauto | inversion Hd; subst; auto]. }
    clear IHl IHr.
    destruct (void_type t) eqn:Et.
    - destruct t; try discriminate.
      + (* SPLIT *) rewrite dvoid_split in H. binv H. eauto 10 with jj.
      + (* ASSIGN *) rewrite dvoid_assign in H. binv H. eauto 10 with jj.
      + (* LOOP *) rewrite dvoid_loop in H. cbv zeta in H. binv H. eauto 40 with jj.
      + (* WHILE *) rewrite dvoid_while in H. cbv zeta in H. binv H. eauto 40 with jj.
      + (* GOTO *) rewrite dvoid_goto in H. binv H. inversion H; subst. eauto 10 with jj.
      + (* IF *) rewrite dvoid_if in H. cbv zeta in H. binv H.
        assert (HAe : forall x, l = Some x -> allq x) by (intros x0 Ex0; rewrite Ex0 in HAl; exact HAl).
        match goal with Hx : l = Some ?x |- _ =>
          pose proof (allq_o_left _ (HAe _ Hx)); pose proof (allq_o_right _ (HAe _ Hx)) end.
        eauto 40 with jj.
      + (* PROGRAM *) rewrite dvoid_program in H. cbv zeta in H. binv H.
        assert (HAe : forall x, l = Some x -> allq x) by (intros x0 Ex0; rewrite Ex0 in HAl; exact HAl).
        match goal with Hx : l = Some ?x |- _ => pose proof (allq_o_right _ (HAe _ Hx)) as HPorts end.
        assert (HArgs : forall o, allq_o o -> allq_o (match o with Some p => n_left p | None => None end)).
        { intros [p|] Ho; cbn in *; [apply allq_o_left; exact Ho|exact I]. }
        pose proof (HArgs _ HPorts).
        eauto 40 with jj.
      + (* MARK *) rewrite dvoid_mark in H. binv H. eauto 10 with jj.
      + (* STOP *) rewrite dvoid_stop in H. inversion H; subst. eauto 10 with jj.
    - rewrite dvoid_other in H by auto. inversion H; subst. auto with jj.
  Qed.

  (* ---- backpatching ----------------------------------------------------------------------------- *)
  Lemma jj_upd_code g c : J g -> J (upd_code g c).
  Proof. apply J_ext; reflexivity. Qed.

  Lemma backpatch_list_J todo : forall g g', backpatch_list g todo = Ok g' -> J g -> J g'.
  Proof.
    induction todo as [|loc rest IH]; intros g g' H S; cbn [backpatch_list] in H.
    - inversion H; subst. exact S.
    - binv H.
      assert (D : backpatch_list (err g T_INTERNAL_ERROR e_backpatch_nonjmp) rest = Ok g' -> J g').
      { intros Hx. eapply IH; [exact Hx|]. apply jj_err. exact S. }
      assert (K : (do tgt <- of_opt ub_index (znth (g_labels g) (ia a));
                   let g1 := if tgt =? -1 then err g T_UNKNOWN_MARK e_backpatch_failed else g in
                   do c <- of_opt ub_index (zupd (g_code g1) loc (mkI (iop a) (tgt - loc) (ib a) (ic a)));
                   backpatch_list (upd_code g1 c) rest) = Ok g' -> J g').
      { intros Hx. cbv zeta in Hx. binv Hx. eapply IH; [exact Hx|]. apply jj_upd_code.
        destruct (a0 =? -1); [apply jj_err|]; exact S. }
      destruct (iop a); auto.
  Qed.

  Lemma backpatch_J g g' : backpatch g = Ok g' -> J g -> J g'.
  Proof.
    unfold backpatch. intros H S. binv H. inversion H; subst. apply backpatch_list_J in H0; [|exact S].
    revert H0. apply J_ext; reflexivity.
  Qed.

  (* ---- gen --------------------------------------------------------------------------------------- *)
  Hypothesis Qroot : Q root_ctx root_line.

  Lemma J_ginit : J ginit.
  Proof. split; [exact Qroot|constructor]. Qed.

  Lemma gen_errors ok perrs root r :
    Forall (fun e => Q (se_file e) (se_line e)) perrs -> allq_o root ->
    gen ok perrs root = Ok r -> Forall gerrQ (gr_errors r).
  Proof.
    intros HP HR H. unfold gen in H. apply gen_gen_inv in H.
    destruct H as (g3 & g4 & p & i0 & c0 & g6 & H1 & H2 & H3 & H4 & H5 & H6 & ->).
    assert (J3 : J g3).
    { unfold gen_body in H1. destruct (negb ok).
      - rewrite fold_verr in H1.
        match type of H1 with Ok (upd_errs _ (_ ++ ?m)) = _ =>
          assert (E3 : g3 = upd_errs ginit (g_errs ginit ++ m)) by congruence end.
        rewrite E3. destruct J_ginit as [A B]. split; [exact A|].
        match goal with |- Forall _ (g_errs (upd_errs _ ?x)) => change (Forall gerrQ x) end.
        apply Forall_app. split; [exact B|].
        apply Forall_forall. intros e He. apply in_map_iff in He. destruct He as (s & <- & Hs).
        rewrite Forall_forall in HP. apply (HP s Hs).
      - destruct root as [n|].
        + cbn in H1, HR. eapply dvoid_J; [exact HR|exact H1|exact J_ginit].
        + inversion H1; subst. exact J_ginit. }
    pose proof (jj_pop _ _ _ H2 J3) as J4.
    assert (J5 : J (emit (upd_code g4 c0) IHalt)) by (apply jj_emit, jj_upd_code; exact J4).
    pose proof (backpatch_J _ _ H6 J5) as [_ E6].
    unfold gen_result. cbn [gr_errors]. exact E6.
  Qed.
End GQ.
