(* Proofs_C07s5d.v — C07 with calls, part 4: the walk of Proofs_C01s4k.v (the statements of one routine body) over the
   invariant J4x.  The proofs are those of Proofs_C01s4k.v, with the primitive steps of Proofs_C07s5a.v. *)
From Coq Require Import List ZArith NArith Lia Bool.
From Theo Require Import Base Tokens Errors MacroExtract Parser VMModel VMSpec GenModel Compile RefSem RefSemChk C01Statements C01Stages C01Stages3 C01Stages4 Gen_Consts Proofs_VM_mem Proofs_VM_dbg Proofs_Gen0 Proofs_Gen Proofs_Sem Proofs_C01a Proofs_C01b Proofs_C01 Proofs_C01s2a Proofs_C01s2b Proofs_C01s2c Proofs_C01s2d Proofs_C01s2 Proofs_C01s3a Proofs_C01s3b Proofs_C01s3c Proofs_C01s3d Proofs_C01s4a Proofs_C01s4b Proofs_C01s4g Proofs_C01s4h Proofs_C01s4i Proofs_C01s4j Proofs_C01s4k Proofs_C07b Proofs_C07s5a Proofs_C07s5b Proofs_C07s5c.
Import ListNotations.
Local Open Scope Z_scope.

Section Walk4.
  Variable P0 : Z.
  Variable FT : ftab.
  Variable LS : list Z.
  Notation J4x := (J4x P0 FT LS).
  Notation GF := (GF FT).

  (* a variable as a value (LOOP bound, WHILE condition): the stage-2 shape of its code *)
  Record VResLx (g g' : gstate) (s s' : fstate) (lmap : list Z) (rv : rvalue) (tgt : Z) : Prop := mkVResLx {
    vrlx_J : J4x g' s' lmap (vlen rv);
    vrlx_ext : Ext g g';
    vrlx_fext : FExt s s';
    vrlx_pos : gpos g' = gpos g;
    vrlx_len : zlen (g_code g') = zlen (g_code g) + vlen rv;
    vrlx_match : vmatch (RMof (gks g')) (g_code g') rv tgt (zlen (g_code g)) }.

  Lemma Nx_lvalue v f0 l0 : leaf_name v = true -> lexable_names v = true -> on_line f0 l0 v = true ->
    forall g s lmap tgt g' s' rv, J4x g s lmap 0 -> at_loc (gpos g) f0 l0 ->
      dispatch_value false v tgt g = Ok g' -> flat_value v s = Some (s', rv) ->
      VResLx g g' s s' lmap rv tgt.
  Proof.
    intros Hlf Hlex Hon g s lmap tgt g' s' rv HJ Ha HD HF.
    destruct (leaf_name_inv _ Hlf) as (line & file & tok & ->).
    pose proof (Jx_pos _ _ _ _ _ _ _ HJ) as Hpos.
    assert (Has : at_loc (f_pos s) f0 l0) by (rewrite Hpos; exact Ha).
    pose proof (on_line_node _ _ _ _ _ _ _ _ Hon) as Hn.
    assert (Hx : lexable tok = true).
    { cbn [lexable_names] in Hlex. rewrite !andb_true_iff in Hlex. apply Hlex. }
    rewrite (flat_name_eq _ _ _ _ _ _ _ _ Has Hn) in HF. inversion HF; subst s' rv; clear HF.
    destruct (Nx_name P0 FT LS g s lmap 0 f0 l0 line file tok None None tgt Hx Hn HJ Ha) as (g1 & E1 & J1 & X1 & F1 & P1 & C1 & V1 & _).
    rewrite E1 in HD. inversion HD; subst g1; clear HD.
    constructor; auto.
    - rewrite C1, zlen_snoc. reflexivity.
    - cbn [vmatch]. exists (ks_ix (gks g) tok). split; [exact V1|]. rewrite C1. apply znth_app_last.
  Qed.


  (* ================================================================================================ *)
  (* 3. statements                                                                                    *)
  (* ================================================================================================ *)
  Definition SResx (g g' : gstate) (s s' : fstate) (lmap lmap' : list Z) : Prop :=
    J4x g' s' lmap' 0 /\ Ext g g' /\ FExt s s' /\ exists m, lmap' = lmap ++ m.

  Lemma SResx_trans g g1 g2 s s1 s2 l l1 l2 : SResx g g1 s s1 l l1 -> SResx g1 g2 s1 s2 l1 l2 -> SResx g g2 s s2 l l2.
  Proof.
    intros (_ & A2 & A3 & [m1 ->]) (B1 & B2 & B3 & [m2 ->]).
    split; [exact B1|]. split; [eapply Ext_trans; eauto|]. split; [eapply FExt_trans; eauto|].
    exists (m1 ++ m2). rewrite app_assoc. reflexivity.
  Qed.

  Definition Pjointx (n : node) : Prop :=
    body4 on_line n = true -> lexable_names n = true ->
    forall g s lmap g' s', J4x g s lmap 0 -> GF g s ->
      dispatch_void false false false n g = Ok g' -> flat_stmt n s = Some s' ->
      exists lmap', SResx g g' s s' lmap lmap'.

  (* x := value *)
  Lemma Nx_assign al af atok tt lt ft x ct1 ct2 v g s lmap g' s' :
    tt = N_NAME -> lexable x = true -> value4 v = true -> lexable_names v = true -> on_line af al v = true ->
    J4x g s lmap 0 -> GF g s ->
    dispatch_void false false false (Node N_ASSIGN al af atok (Some (Node tt lt ft x ct1 ct2)) (Some v)) g = Ok g' ->
    flat_stmt (Node N_ASSIGN al af atok (Some (Node tt lt ft x ct1 ct2)) (Some v)) s = Some s' ->
    SResx g g' s s' lmap lmap.
  Proof.
    intros -> Hx Hsv Hlex Hon HJ HG HD HF.
    rewrite dvoid_assign in HD. cbn [child of_opt bind n_tok] in HD.
    rewrite flat_stmt_eq in HF. cbn [fs_body] in HF. unfold fs_assign in HF. cbn [n_tok opt_value] in HF.
    destruct (Lx_site P0 FT LS g s lmap al af HJ) as (J0 & X0 & F0 & A0).
    set (g0 := advance_line g al af) in *. set (s0 := move_to s af al) in *.
    destruct (Lx_var P0 FT LS g0 s0 lmap 0 x Hx J0) as (g1 & E1 & J1 & X1 & S1 & F1 & V1 & _).
    rewrite E1 in HD. cbn [bind] in HD. cbv beta iota in HD. cbn [dispatch_value_opt] in HD.
    set (s1 := with_cur s0 (mention (f_cur s0) x)) in *.
    destruct (flat_value v s1) as [[s2 rv]|] eqn:EF; [|discriminate]. inversion HF; subst s'; clear HF.
    assert (A1 : at_loc (gpos g1) af al) by (rewrite (sm_pos _ _ S1); exact A0).
    assert (HG1 : GF g1 s1) by (eapply GF_ext; [exact HG | eapply Ext_trans; eauto | eapply FExt_trans; eauto]).
    pose proof (all_sub_here _ _ (Nx_value_all P0 FT LS v) Hsv Hlex af al Hon g1 s1 lmap 0 (ks_ix (gks g0) x) g' s2 rv J1 A1 HG1 HD EF)
      as [RJ RX RF RP RL RM _].
    destruct (Lx_bemit P0 FT LS g' s2 lmap (0 + vlen4 rv) (RAssign x rv) RJ ltac:(unfold bl4x; cbn [is_site blen4]; f_equal; lia)) as [J2 F2].
    { cbn [imatch4]. exists (ks_ix (gks g0) x). split; [apply (RV_ext _ _ _ _ RX); exact V1|].
      replace (zlen (g_code g') - (0 + vlen4 rv)) with (zlen (g_code g1)) by lia.
      destruct (vmatch4_move (RMof (gks g')) (RMof (gks g')) (g_code g') (g_code g') FT FT (rm_le_refl _) (fun j0 x0 H => H)) as [Mv _].
      eapply Mv; [exact RM | auto | auto]. }
    split; [exact J2|]. split; [eapply Ext_trans; [exact X0|]; eapply Ext_trans; eauto|].
    split; [|apply nil_ex]. eapply FExt_trans; [exact F0|]. eapply FExt_trans; [exact F1|]. eapply FExt_trans; eauto.
  Qed.

  Definition IHbodyx (body : node) : Prop :=
    forall g s lmap g' s', J4x g s lmap 0 -> GF g s ->
      dispatch_void false false false body g = Ok g' -> flat_stmt body s = Some s' ->
      exists lmap', SResx g g' s s' lmap lmap'.

  Ltac fext := repeat first [ eassumption | eapply FExt_trans; [eassumption|] ].
  Ltac gext := repeat first [ eassumption | eapply Ext_trans; [eassumption|] ].

  (* LOOP bound DO body *)
  Lemma Nx_loop ll lf ltok bound body g s lmap g' s' :
    leaf_name bound = true -> lexable_names bound = true -> on_line lf ll bound = true -> IHbodyx body ->
    J4x g s lmap 0 -> GF g s ->
    dispatch_void false false false (Node N_LOOP ll lf ltok (Some bound) (Some body)) g = Ok g' ->
    flat_stmt (Node N_LOOP ll lf ltok (Some bound) (Some body)) s = Some s' ->
    exists lmap', SResx g g' s s' lmap lmap'.
  Proof.
    intros Hnm Hlex Hon IHb HJ HG HD HF.
    pose proof Hnm as Hsv.
    apply dvoid_loop_inv in HD. cbv zeta in HD. destruct HD as (g1 & c & g2 & g5 & g7 & D1 & D2 & D5 & D7 & D9).
    rewrite flat_stmt_eq in HF. cbn [fs_body] in HF. apply fs_loop_inv in HF. cbv zeta in HF.
    destruct HF as (s1 & v & s2 & F1 & F2 & ->).
    destruct (Lx_site P0 FT LS g s lmap ll lf HJ) as (J0 & X0 & F0 & A0).
    set (ga := advance_line g ll lf) in *. set (sa := move_to s lf ll) in *.
    destruct (Lx_cnt P0 FT LS ga sa lmap 0 J0) as (g1' & c' & E1 & J1 & X1 & C1 & K1 & P1 & Lp1).
    rewrite D1 in E1. inversion E1; subst g1' c'; clear E1.
    assert (Hid : f_loops sa = g_loops ga) by (destruct J0 as ((_ & _ & _ & H) & _); exact H).
    set (id := f_loops sa + 1) in *.
    set (sb := mkF (f_done sa) (f_names sa) (f_cur sa) (f_pos sa) id) in *.
    assert (Fab : FExt sa sb) by (repeat split).
    assert (A1 : at_loc (gpos g1) lf ll) by (rewrite P1; exact A0).
    pose proof (Nx_lvalue bound lf ll Hsv Hlex Hon g1 sb lmap c g2 s1 v J1 A1 D2 F1) as [RJ RX RF RP RL RM].
    assert (C2 : RC g2 id c). { apply (RC_ext _ _ _ _ RX). unfold id. rewrite Hid. exact C1. }
    (* RLoopInit *)
    destruct (Lx_bemit P0 FT LS g2 s1 lmap (vlen v) (RLoopInit id v) RJ eq_refl) as [J2 F2'].
    { cbn [imatch4 imatch3 imatch]. exists c. split; [exact C2|]. replace (zlen (g_code g2) - vlen v) with (zlen (g_code g1)) by lia. exact RM. }
    fold (s_emit s1 (RLoopInit id v)) in J2, F2'. set (sc := s_emit s1 (RLoopInit id v)) in *.
    (* two labels, two targets *)
    destruct (Lx_newlab P0 FT LS g2 sc lmap 0 J2) as (Jh3 & X3 & F3 & M3).
    fold (g_newl g2) in Jh3, X3. fold (s_newt sc) in Jh3, F3.
    set (start := zlen (g_labels g2)) in *. set (t_start := zlen (b_targets (f_cur sc))) in *.
    destruct (Lx_newlab P0 FT LS (g_newl g2) (s_newt sc) _ 0 Jh3) as (J4x & X4 & F4 & M4).
    fold (g_newl (g_newl g2)) in J4x, X4. fold (s_newt (s_newt sc)) in J4x, F4.
    set (en := zlen (g_labels (g_newl g2))) in *. set (t_end := zlen (b_targets (f_cur (s_newt sc)))) in *.
    set (lmap2 := (lmap ++ [start]) ++ [en]) in *.
    assert (M3' : znth lmap2 t_start = Some start) by (apply znth_app_some; exact M3).
    (* start := here *)
    destruct (Lx_setlab P0 FT LS (g_newl (g_newl g2)) (s_newt (s_newt sc)) lmap2 t_start start J4x M3') as (ls & E5 & J5 & X5 & F5).
    rewrite D5 in E5. inversion E5; subst g5; clear E5.
    fold (s_sett (s_newt (s_newt sc)) t_start) in J5, F5.
    (* JMPC end / RLoopTest *)
    set (g5 := upd_labels (g_newl (g_newl g2)) ls) in *.
    destruct (Lx_emit_bp P0 FT LS g5 _ lmap2 0 (IJmpC en c) J5) as (J6 & X6 & T6).
    set (g6 := emit_backpatched g5 (IJmpC en c)) in *.
    assert (X26 : Ext g2 g6) by gext.
    assert (Ec6 : g_code g6 = g_code g5 ++ [IJmpC en c]) by reflexivity.
    destruct (Lx_bemit P0 FT LS g6 _ lmap2 (0 + 1) (RLoopTest id t_end) J6 eq_refl) as [J6' F6'].
    { cbn [imatch4 imatch3 imatch]. exists c, en. split; [apply (RC_ext _ _ _ _ X26); exact C2|].
      rewrite Ec6, zlen_snoc. replace (zlen (g_code g5) + 1 - (0 + 1)) with (zlen (g_code g5)) by lia.
      split; [apply znth_app_last|]. split; [exact T6 | exact M4]. }
    fold (s_emit (s_sett (s_newt (s_newt sc)) t_start) (RLoopTest id t_end)) in J6', F6'.
    (* the body *)
    assert (HG6 : GF g6 (s_emit (s_sett (s_newt (s_newt sc)) t_start) (RLoopTest id t_end))) by (eapply GF_ext; [exact HG | gext | fext]).
    destruct (IHb g6 _ lmap2 g7 s2 J6' HG6 D7 F2) as (lmap3 & J7 & X7 & F7 & [m3 Em3]).
    (* decrement and jump back *)
    destruct (Lx_emit P0 FT LS g7 s2 lmap3 0 (IAdd c c (-1)) J7) as [J8 X8].
    set (g8 := emit g7 (IAdd c c (-1))) in *.
    destruct (Lx_emit_bp P0 FT LS g8 s2 lmap3 (0 + 1) (IJmp start) J8) as (J9 & X9 & T9).
    set (g9 := emit_backpatched g8 (IJmp start)) in *.
    assert (X29 : Ext g2 g9) by gext.
    assert (Ec8 : g_code g8 = g_code g7 ++ [IAdd c c (-1)]) by reflexivity.
    assert (Ec9 : g_code g9 = (g_code g7 ++ [IAdd c c (-1)]) ++ [IJmp start]) by reflexivity.
    destruct (Lx_bemit P0 FT LS g9 s2 lmap3 (0 + 1 + 1) (RLoopDec id t_start) J9 eq_refl) as [J9' F9'].
    { cbn [imatch4 imatch3 imatch]. exists c, start. split; [apply (RC_ext _ _ _ _ X29); exact C2|].
      rewrite Ec8, zlen_snoc in T9.
      rewrite Ec9, !zlen_snoc. replace (zlen (g_code g7) + 1 + 1 - (0 + 1 + 1)) with (zlen (g_code g7)) by lia.
      split; [apply znth_app_some; apply znth_app_last|].
      split; [rewrite <- (zlen_snoc (g_code g7) (IAdd c c (-1))); apply znth_app_last|].
      split; [exact T9 | rewrite Em3; apply znth_app_some; exact M3']. }
    fold (s_emit s2 (RLoopDec id t_start)) in J9', F9'.
    (* end := here *)
    assert (M4' : znth lmap3 t_end = Some en) by (rewrite Em3; apply znth_app_some; exact M4).
    destruct (Lx_setlab P0 FT LS g9 _ lmap3 t_end en J9' M4') as (ls9 & E9 & J10 & X10 & F10).
    rewrite D9 in E9. inversion E9; subst g'; clear E9.
    fold (s_sett (s_emit s2 (RLoopDec id t_start)) t_end) in J10, F10.
    exists lmap3. split; [exact J10|]. split; [gext|]. split; [fext|].
    exists ([start] ++ [en] ++ m3). rewrite Em3. unfold lmap2. rewrite <- !app_assoc. reflexivity.
  Qed.

  (* WHILE cond != 0 DO body *)
  Lemma Nx_while wl wf wtok condn body g s lmap g' s' :
    leaf_name condn = true -> lexable_names condn = true -> on_line wf wl condn = true -> IHbodyx body ->
    J4x g s lmap 0 -> GF g s ->
    dispatch_void false false false (Node N_WHILE wl wf wtok (Some condn) (Some body)) g = Ok g' ->
    flat_stmt (Node N_WHILE wl wf wtok (Some condn) (Some body)) s = Some s' ->
    exists lmap', SResx g g' s s' lmap lmap'.
  Proof.
    intros Hnm Hlex Hon IHb HJ HG HD HF.
    pose proof Hnm as Hsv.
    apply dvoid_while_inv in HD. cbv zeta in HD. destruct HD as (g3 & t & g4 & g5 & g7 & g9 & D3 & D4 & D5 & D7 & D9 & D10).
    rewrite flat_stmt_eq in HF. cbn [fs_body] in HF. apply fs_while_inv in HF. cbv zeta in HF.
    destruct HF as (s1 & v & s2 & F1 & F2 & ->).
    destruct (Lx_site P0 FT LS g s lmap wl wf HJ) as (J0 & X0 & F0 & A0).
    set (ga := advance_line g wl wf) in *. set (sa := move_to s wf wl) in *.
    (* labels *)
    destruct (Lx_newlab P0 FT LS ga sa lmap 0 J0) as (J1 & X1 & F1' & M1).
    fold (g_newl ga) in J1, X1. fold (s_newt sa) in J1, F1'.
    set (start := zlen (g_labels ga)) in *. set (t_start := zlen (b_targets (f_cur sa))) in *.
    destruct (Lx_newlab P0 FT LS (g_newl ga) (s_newt sa) _ 0 J1) as (J2 & X2 & F2' & M2).
    fold (g_newl (g_newl ga)) in J2, X2. fold (s_newt (s_newt sa)) in J2, F2'.
    set (en := zlen (g_labels (g_newl ga))) in *. set (t_end := zlen (b_targets (f_cur (s_newt sa)))) in *.
    set (lmap2 := (lmap ++ [start]) ++ [en]) in *.
    assert (M1' : znth lmap2 t_start = Some start) by (apply znth_app_some; exact M1).
    (* the temporary of the condition *)
    destruct (Lx_tmp P0 FT LS (g_newl (g_newl ga)) (s_newt (s_newt sa)) lmap2 0 J2) as (g3' & t' & E3 & Jh3 & X3 & S3 & T3 & _ & _).
    rewrite D3 in E3. inversion E3; subst g3' t'; clear E3.
    (* start := here *)
    destruct (Lx_setlab P0 FT LS g3 (s_newt (s_newt sa)) lmap2 t_start start Jh3 M1') as (ls & E4 & J4x & X4 & F4).
    rewrite D4 in E4. inversion E4; subst g4; clear E4.
    fold (s_sett (s_newt (s_newt sa)) t_start) in J4x, F4.
    set (g4 := upd_labels g3 ls) in *.
    (* the condition *)
    assert (A4 : at_loc (gpos g4) wf wl).
    { change (gpos g4) with (gpos g3). rewrite (sm_pos _ _ S3). exact A0. }
    pose proof (Nx_lvalue condn wf wl Hsv Hlex Hon g4 _ lmap2 t g5 s1 v J4x A4 D5 F1) as [RJ RX RF RP RL RM].
    (* JMPC end / RWhileTest *)
    destruct (Lx_emit_bp P0 FT LS g5 s1 lmap2 (vlen v) (IJmpC en t) RJ) as (J6 & X6 & T6).
    set (g6 := emit_backpatched g5 (IJmpC en t)) in *.
    assert (T4 : RT g4 t) by (apply (RT_ext _ _ _ X4); exact T3).
    assert (X46 : Ext g4 g6) by gext.
    assert (Ec6 : g_code g6 = g_code g5 ++ [IJmpC en t]) by reflexivity.
    destruct (Lx_bemit P0 FT LS g6 s1 lmap2 (vlen v + 1) (RWhileTest v t_end) J6 eq_refl) as [J6' F6'].
    { cbn [imatch4 imatch3 imatch]. exists t, en. split; [apply (RT_ext _ _ _ X46); exact T4|].
      rewrite Ec6, zlen_snoc. replace (zlen (g_code g5) + 1 - (vlen v + 1)) with (zlen (g_code g4)) by lia.
      split; [apply (vmatch_ext _ _ _ _ _ X6); exact RM|].
      replace (zlen (g_code g4) + vlen v) with (zlen (g_code g5)) by lia.
      split; [apply znth_app_last|]. split; [exact T6 | exact M2]. }
    fold (s_emit s1 (RWhileTest v t_end)) in J6', F6'.
    (* the body *)
    assert (HG6 : GF g6 (s_emit s1 (RWhileTest v t_end))) by (eapply GF_ext; [exact HG | gext | fext]).
    destruct (IHb g6 _ lmap2 g7 s2 J6' HG6 D7 F2) as (lmap3 & J7 & X7 & F7 & [m3 Em3]).
    (* jump back *)
    destruct (Lx_emit_bp P0 FT LS g7 s2 lmap3 0 (IJmp start) J7) as (J8 & X8 & T8).
    set (g8 := emit_backpatched g7 (IJmp start)) in *.
    assert (Ec8 : g_code g8 = g_code g7 ++ [IJmp start]) by reflexivity.
    destruct (Lx_bemit P0 FT LS g8 s2 lmap3 (0 + 1) (RJump t_start) J8 eq_refl) as [J8' F8'].
    { cbn [imatch4 imatch3 imatch]. exists start. rewrite Ec8, zlen_snoc.
      replace (zlen (g_code g7) + 1 - (0 + 1)) with (zlen (g_code g7)) by lia.
      split; [apply znth_app_last|]. split; [exact T8 | rewrite Em3; apply znth_app_some; exact M1']. }
    fold (s_emit s2 (RJump t_start)) in J8', F8'.
    (* end := here *)
    assert (M2' : znth lmap3 t_end = Some en) by (rewrite Em3; apply znth_app_some; exact M2).
    destruct (Lx_setlab P0 FT LS g8 _ lmap3 t_end en J8' M2') as (ls9 & E9 & J9 & X9 & F9).
    rewrite D9 in E9. inversion E9; subst g9; clear E9.
    fold (s_sett (s_emit s2 (RJump t_start)) t_end) in J9, F9.
    (* release the temporary *)
    assert (X49 : Ext g4 (upd_labels g8 ls9)) by gext.
    assert (T9 : RT (upd_labels g8 ls9) t) by (apply (RT_ext _ _ _ X49); exact T4).
    destruct (Lx_rel P0 FT LS _ _ lmap3 0 t J9 T9) as (g10 & E10 & J10 & X10 & S10).
    rewrite D10 in E10. inversion E10; subst g10; clear E10.
    exists lmap3. split; [exact J10|]. split; [gext|]. split; [fext|].
    exists ([start] ++ [en] ++ m3). rewrite Em3. unfold lmap2. rewrite <- !app_assoc. reflexivity.
  Qed.

  (* ================================================================================================ *)
  (* 4. sequencing, marks, and the induction over structured trees                                    *)
  (* ================================================================================================ *)
  Lemma Nx_mark ml mf mtok el ef etok ec1 ec2 mr :
    IHbodyx (Node N_MARK ml mf mtok (Some (Node N_NAME el ef etok ec1 ec2)) mr).
  Proof.
    intros g s lmap g' s' HJ HG HD HF.
    rewrite dvoid_mark in HD. cbn [child of_opt bind n_tok] in HD.
    rewrite flat_stmt_eq in HF. cbn [fs_body n_tok] in HF. inversion HF; subst s'; clear HF.
    destruct (Lx_site P0 FT LS g s lmap ml mf HJ) as (J0 & X0 & F0 & A0).
    destruct (Lx_mark P0 FT LS _ _ lmap etok g' J0 HD) as (J1 & X1 & F1 & _).
    exists lmap. split; [exact J1|]. split; [eapply Ext_trans; eauto|]. split; [eapply FExt_trans; eauto | apply nil_ex].
  Qed.

  Lemma Nx_split line file tok a r :
    IHbodyx a -> (match r with Some x => IHbodyx x | None => True end) ->
    IHbodyx (Node N_SPLIT line file tok (Some a) r).
  Proof.
    intros IHa IHr g s lmap g' s' HJ HG HD HF.
    rewrite dvoid_split in HD. cbn [dvo] in HD.
    rewrite flat_stmt_eq in HF. cbn [fs_body] in HF. unfold fs_split in HF. cbn [fsub] in HF.
    destruct (Lx_site P0 FT LS g s lmap line file HJ) as (J0 & X0 & F0 & A0).
    destruct (dispatch_void false false false a (advance_line g line file)) as [g1| |] eqn:E1; cbn [bind] in HD; try discriminate.
    destruct (flat_stmt a (move_to s file line)) as [s1|] eqn:EF1; [|discriminate].
    destruct (IHa _ _ lmap g1 s1 J0 (GF_ext _ _ _ _ _ HG X0 F0) E1 EF1) as (lmap1 & J1 & X1 & F1 & [m1 Em1]).
    destruct r as [rest|].
    - cbn [dvo] in HD. cbn [fsub] in HF.
      destruct (IHr _ _ lmap1 g' s' J1 (GF_ext _ _ _ _ _ (GF_ext _ _ _ _ _ HG X0 F0) X1 F1) HD HF) as (lmap2 & J2 & X2 & F2 & [m2 Em2]).
      exists lmap2. split; [exact J2|]. split; [eapply Ext_trans; [exact X0|]; eapply Ext_trans; eauto|].
      split; [eapply FExt_trans; [exact F0|]; eapply FExt_trans; eauto|].
      exists (m1 ++ m2). rewrite Em2, Em1, app_assoc. reflexivity.
    - cbn [dvo] in HD. cbn [fsub] in HF. inversion HD; subst g'. inversion HF; subst s'.
      exists lmap1. split; [exact J1|]. split; [eapply Ext_trans; eauto|]. split; [eapply FExt_trans; eauto|].
      exists m1. exact Em1.
  Qed.

  (* ================================================================================================ *)
  (* 5. GOTO, IF, STOP                                                                                *)
  (* ================================================================================================ *)
  Lemma Nx_goto gl gf gtok el ef nm ec1 ec2 r0 :
    IHbodyx (Node N_GOTO gl gf gtok (Some (Node N_NAME el ef nm ec1 ec2)) r0).
  Proof.
    intros g s lmap g' s' HJ HG HD HF.
    rewrite dvoid_goto in HD. cbn [child of_opt bind n_tok] in HD.
    rewrite flat_stmt_eq in HF. cbn [fs_body n_tok] in HF. inversion HF; subst s'; clear HF.
    destruct (Lx_site P0 FT LS g s lmap gl gf HJ) as (J0 & X0 & F0 & A0).
    set (g0 := advance_line g gl gf) in *. set (s0 := move_to s gf gl) in *.
    destruct (Lx_ensure P0 FT LS g0 s0 lmap 0 nm J0) as (g1 & lab & E1 & J1 & X1 & F1 & M1 & C1 & T1 & P1 & K1).
    rewrite E1 in HD. cbn [bind] in HD. cbv beta iota in HD. inversion HD; subst g'; clear HD.
    destruct (Lx_emit_bp P0 FT LS g1 _ lmap 0 (IJmp lab) J1) as (J2 & X2 & T2).
    set (g2 := emit_backpatched g1 (IJmp lab)) in *.
    assert (Ec2 : g_code g2 = g_code g1 ++ [IJmp lab]) by reflexivity.
    destruct (Lx_bemit P0 FT LS g2 _ lmap (0 + 1) (RGoto nm) J2 eq_refl) as [Jh3' F3'].
    { cbn [imatch4 imatch3]. exists lab. rewrite Ec2, zlen_snoc. replace (zlen (g_code g1) + 1 - (0 + 1)) with (zlen (g_code g1)) by lia.
      split; [apply znth_app_last|]. split; [exact T2 | exact M1]. }
    exists lmap. split; [exact Jh3'|]. split; [eapply Ext_trans; [exact X0|]; eapply Ext_trans; eauto|].
    split; [|apply nil_ex]. eapply FExt_trans; [exact F0|]. eapply FExt_trans; [exact F1 | exact F3'].
  Qed.

  Lemma Nx_stop sl sf stok a b : IHbodyx (Node N_STOP sl sf stok a b).
  Proof.
    intros g s lmap g' s' HJ HG HD HF.
    rewrite dvoid_stop in HD. inversion HD; subst g'; clear HD.
    rewrite flat_stmt_eq in HF. cbn [fs_body] in HF. inversion HF; subst s'; clear HF.
    destruct (Lx_site P0 FT LS g s lmap sl sf HJ) as (J0 & X0 & F0 & A0).
    set (g0 := advance_line g sl sf) in *. set (s0 := move_to s sf sl) in *.
    destruct (Lx_emit P0 FT LS g0 s0 lmap 0 IHalt J0) as [J1 X1].
    destruct (Lx_bemit P0 FT LS (emit g0 IHalt) s0 lmap (0 + 1) RStop J1 eq_refl) as [J2 F2].
    { cbn [imatch4 imatch3 emit upd_code g_code]. rewrite zlen_snoc. replace (zlen (g_code g0) + 1 - (0 + 1)) with (zlen (g_code g0)) by lia.
      apply znth_app_last. }
    exists lmap. split; [exact J2|]. split; [eapply Ext_trans; eauto|]. split; [eapply FExt_trans; eauto | apply nil_ex].
  Qed.

  Lemma Nx_if il if_ itok ql qf qtok l3 f3 y c1 c2 tcn l4 f4 ctok c3 c4 gl gf gtok el ef nm ec1 ec2 r0 :
    tcn = N_NUMBER -> lexable y = true -> node_on if_ il f3 l3 = true -> node_on if_ il f4 l4 = true ->
    IHbodyx (Node N_IF il if_ itok
               (Some (Node N_EQ ql qf qtok (Some (Node N_NAME l3 f3 y c1 c2)) (Some (Node tcn l4 f4 ctok c3 c4))))
               (Some (Node N_GOTO gl gf gtok (Some (Node N_NAME el ef nm ec1 ec2)) r0))).
  Proof.
    intros -> Hy Hn1 Hn2 g s lmap g' s' HJ HG HD HF.
    rewrite dvoid_if in HD. rewrite flat_stmt_eq in HF. cbn [fs_body] in HF. unfold fs_if in HF. cbn [opt_value] in HF.
    destruct (Lx_site P0 FT LS g s lmap il if_ HJ) as (J0 & X0 & F0 & A0).
    set (g0 := advance_line g il if_) in *. set (s0 := move_to s if_ il) in *.
    pose proof (Jx_pos _ _ _ _ _ _ _ J0) as Hpos0.
    assert (As0 : at_loc (f_pos s0) if_ il) by (rewrite Hpos0; exact A0).
    (* the flattener *)
    rewrite (flat_name_eq _ _ _ _ _ _ _ _ As0 Hn1) in HF.
    set (s1 := with_cur s0 (mention (f_cur s0) y)) in *.
    assert (As1 : at_loc (f_pos s1) if_ il) by exact As0.
    rewrite (flat_number_eq _ _ _ _ _ _ _ _ As1 Hn2) in HF.
    destruct (Z.leb_spec INT_MAX (strtol ctok)) as [|Hlt]; [discriminate|]. cbn [n_tok] in HF. inversion HF; subst s'; clear HF.
    pose proof (strtol_nonneg ctok) as Hc0.
    (* the generator: three temporaries *)
    destruct (Lx_tmp P0 FT LS g0 s0 lmap 0 J0) as (g1 & cond & E1 & J1 & X1 & S1 & TC & _ & _).
    rewrite E1 in HD. cbn [bind] in HD. cbv beta iota in HD.
    destruct (Lx_tmp P0 FT LS g1 s0 lmap 0 J1) as (g2 & op1 & E2 & J2 & X2 & S2 & T1 & (r1 & Z1 & U1) & _).
    rewrite E2 in HD. cbn [bind] in HD. cbv beta iota in HD.
    destruct (Lx_tmp P0 FT LS g2 s0 lmap 0 J2) as (g3 & op2 & E3 & Jh3' & X3 & S3 & T2 & _ & K3).
    rewrite E3 in HD. cbn [bind] in HD. cbv beta iota in HD.
    assert (Hne : op1 <> op2) by (destruct (K3 op1 r1 Z1 U1) as [A _]; exact A).
    cbn [child of_opt bind n_left n_right dispatch_value_opt] in HD.
    assert (A3 : at_loc (gpos g3) if_ il).
    { rewrite (sm_pos _ _ S3), (sm_pos _ _ S2), (sm_pos _ _ S1). exact A0. }
    (* the two operands *)
    destruct (Nx_name P0 FT LS g3 s0 lmap 0 if_ il l3 f3 y c1 c2 op1 Hy Hn1 Jh3' A3) as (g4 & E4 & J4x & X4 & F4 & P4 & C4 & V4 & _).
    rewrite E4 in HD. cbn [bind] in HD. fold s1 in J4x, F4.
    assert (A4 : at_loc (gpos g4) if_ il) by (rewrite P4; exact A3).
    rewrite (N_number g4 if_ il l4 f4 ctok c3 c4 op2 Hlt Hn2 A4) in HD. cbn [bind] in HD. cbv zeta in HD.
    destruct (Lx_emit P0 FT LS g4 s1 lmap _ (IConst op2 (strtol ctok)) J4x) as [J5 X5].
    set (g5 := emit g4 (IConst op2 (strtol ctok))) in *.
    destruct (Lx_emit P0 FT LS g5 s1 lmap _ (ITest cond op1 op2) J5) as [J6 X6].
    set (g6 := emit g5 (ITest cond op1 op2)) in *.
    cbn [n_tok] in HD.
    destruct (Lx_ensure P0 FT LS g6 s1 lmap _ nm J6) as (g7 & lab & E7 & J7 & X7 & F7 & M7 & C7 & T7 & P7 & K7).
    rewrite E7 in HD. cbn [bind] in HD. cbv beta iota in HD.
    destruct (Lx_emit_bp P0 FT LS g7 _ lmap _ (IJmpC lab cond) J7) as (J8 & X8 & T8).
    set (g8 := emit_backpatched g7 (IJmpC lab cond)) in *.
    assert (Ec8 : g_code g8 = (((g_code g3 ++ [IAdd op1 (ks_ix (gks g3) y) 0]) ++ [IConst op2 (strtol ctok)]) ++ [ITest cond op1 op2]) ++ [IJmpC lab cond]).
    { change (g_code g8) with (g_code g7 ++ [IJmpC lab cond]). rewrite C7.
      change (g_code g6) with ((g_code g4 ++ [IConst op2 (strtol ctok)]) ++ [ITest cond op1 op2]). rewrite C4. reflexivity. }
    assert (X18 : Ext g1 g8) by gext. assert (X28 : Ext g2 g8) by gext. assert (X38 : Ext g3 g8) by gext. assert (X48 : Ext g4 g8) by gext.
    destruct (Lx_bemit P0 FT LS g8 _ lmap (0 + 1 + 1 + 1 + 1) (RIfGoto (RVar y) (RNum (strtol ctok)) nm) J8 eq_refl) as [J9 F9].
    { cbn [imatch4 imatch3]. exists (ks_ix (gks g3) y), op1, op2, cond, lab.
      rewrite C7 in T8. change (g_code g6) with ((g_code g4 ++ [IConst op2 (strtol ctok)]) ++ [ITest cond op1 op2]) in T8.
      rewrite C4, !zlen_snoc in T8.
      rewrite Ec8, !zlen_snoc. replace (zlen (g_code g3) + 1 + 1 + 1 + 1 - (0 + 1 + 1 + 1 + 1)) with (zlen (g_code g3)) by lia.
      split; [apply (RV_ext _ _ _ _ X48); exact V4|]. split; [apply (RT_ext _ _ _ X28); exact T1|].
      split; [apply (RT_ext _ _ _ X38); exact T2|]. split; [apply (RT_ext _ _ _ X18); exact TC|].
      split; [exact Hne|]. split; [lia|].
      split; [do 3 apply znth_app_some; apply znth_app_last|].
      split; [do 2 apply znth_app_some; rewrite <- (zlen_snoc (g_code g3) (IAdd op1 (ks_ix (gks g3) y) 0)); apply znth_app_last|].
      split; [apply znth_app_some;
              replace (zlen (g_code g3) + 2) with (zlen ((g_code g3 ++ [IAdd op1 (ks_ix (gks g3) y) 0]) ++ [IConst op2 (strtol ctok)]))
                by (rewrite !zlen_snoc; lia); apply znth_app_last|].
      split; [replace (zlen (g_code g3) + 3) with (zlen (((g_code g3 ++ [IAdd op1 (ks_ix (gks g3) y) 0]) ++ [IConst op2 (strtol ctok)]) ++ [ITest cond op1 op2]))
                by (rewrite !zlen_snoc; lia); apply znth_app_last|].
      split; [replace (zlen (g_code g3) + 3) with (zlen (g_code g3) + 1 + 1 + 1) by lia; exact T8 | exact M7]. }
    (* release the temporaries *)
    destruct (Lx_rel P0 FT LS g8 _ lmap 0 cond J9 (RT_ext _ _ _ X18 TC)) as (g9 & E9 & J10 & X9 & S9).
    rewrite E9 in HD. cbn [bind] in HD.
    destruct (Lx_rel P0 FT LS g9 _ lmap 0 op1 J10 (RT_ext _ _ _ X9 (RT_ext _ _ _ X28 T1))) as (g10 & E10 & J11 & X10 & S10).
    rewrite E10 in HD. cbn [bind] in HD.
    destruct (Lx_rel P0 FT LS g10 _ lmap 0 op2 J11 (RT_ext _ _ _ X10 (RT_ext _ _ _ X9 (RT_ext _ _ _ X38 T2)))) as (g11 & E11 & J12 & X11 & S11).
    rewrite E11 in HD. inversion HD; subst g'; clear HD.
    exists lmap. split; [exact J12|]. split; [gext|]. split; [|apply nil_ex].
    eapply FExt_trans; [exact F0|]. eapply FExt_trans; [exact F4|]. eapply FExt_trans; [exact F7 | exact F9].
  Qed.


  Lemma jointx : forall n, all_sub Pjointx n.
  Proof.
    apply all_sub_intro. intros t line file tok l r Hl Hr Hs Hlex.
    assert (Sh : t = N_SPLIT /\ exists st, l = Some st /\ BStmt st /\ ropt4 r).
    { pose proof (body4_inv _ Hs) as Sh. inversion Sh; subst. split; [reflexivity|]. eauto. }
    destruct Sh as (-> & st & -> & HSt & Hrest). rename r into rest.
    assert (IHr : match rest with Some x => IHbodyx x | None => True end).
    { destruct rest as [rest|]; [|exact I]. cbn [optP] in Hr. apply all_sub_here in Hr.
      assert (Hlr : lexable_names rest = true).
      { cbn [lexable_names] in Hlex. rewrite !andb_true_iff in Hlex. apply Hlex. }
      exact (Hr Hrest Hlr). }
    assert (Hlst : lexable_names st = true).
    { cbn [lexable_names] in Hlex. rewrite !andb_true_iff in Hlex. apply Hlex. }
    apply Nx_split; [|exact IHr]. clear IHr Hr Hs Hlex Hrest.
    cbn [optP] in Hl.
    inversion HSt as [al af atok tgt v Hn Hsv Hon E0
                     |l2 f2 t2 ll lf ltok bound body ml mf mtok e Hn Hon He Hsb E0
                     |l2 f2 t2 ll lf ltok bound body ml mf mtok e Hn Hon He Hsb E0
                     |l2 f2 t2 ml mf mtok lbl inner He Hsb E0
                     |gl gf gtok lbl He E0
                     |il if_ itok ql qf qtok id c gl gf gtok lbl Hid Hc Hon1 Hon2 He E0
                     |sl sf stok E0]; subst; clear HSt.
    - (* assignment *)
      intros g s lmap g' s' HJ HG HD HF. exists lmap.
      destruct (leaf_name_inv _ Hn) as (lt & ft & x & ->).
      cbn [lexable_names] in Hlst. rewrite !andb_true_iff in Hlst.
      destruct Hlst as [[_ [[Hx _] _]] Hlv].
      eapply Nx_assign; eauto.
    - (* LOOP *)
      destruct (leaf_name_inv _ He) as (el & ef & etok & ->).
      cbn [lexable_names] in Hlst. rewrite !andb_true_iff in Hlst.
      destruct Hlst as [[_ [[_ Hlb] Hlbody]] _].
      apply Nx_split; [|apply Nx_mark].
      intros g s lmap g' s' HJ HG HD HF.
      refine (Nx_loop ll lf ltok bound body g s lmap g' s' Hn Hlb Hon _ HJ HG HD HF).
      cbn [all_sub] in Hl. destruct Hl as (_ & (_ & _ & Hb) & _). apply all_sub_here in Hb.
      exact (Hb Hsb Hlbody).
    - (* WHILE *)
      destruct (leaf_name_inv _ He) as (el & ef & etok & ->).
      cbn [lexable_names] in Hlst. rewrite !andb_true_iff in Hlst.
      destruct Hlst as [[_ [[_ Hlb] Hlbody]] _].
      apply Nx_split; [|apply Nx_mark].
      intros g s lmap g' s' HJ HG HD HF.
      refine (Nx_while ll lf ltok bound body g s lmap g' s' Hn Hlb Hon _ HJ HG HD HF).
      cbn [all_sub] in Hl. destruct Hl as (_ & (_ & _ & Hb) & _). apply all_sub_here in Hb.
      exact (Hb Hsb Hlbody).
    - (* label : statement *)
      destruct (leaf_name_inv _ He) as (el & ef & etok & ->).
      cbn [lexable_names] in Hlst. rewrite !andb_true_iff in Hlst.
      destruct Hlst as [[_ _] Hli].
      apply Nx_split; [apply Nx_mark|].
      cbn [all_sub] in Hl. destruct Hl as (_ & _ & Hb). apply all_sub_here in Hb.
      exact (Hb Hsb Hli).
    - (* GOTO *)
      destruct (leaf_name_inv _ He) as (el & ef & etok & ->). apply Nx_goto.
    - (* IF *)
      destruct (leaf_name_inv _ He) as (el & ef & etok & ->).
      destruct (leaf_name_inv _ Hid) as (l3 & f3 & y & ->).
      destruct c as [tcn l4 f4 ctok c3 c4].
      assert (Etc : tcn = N_NUMBER) by (unfold is_number in Hc; cbn [n_type] in Hc; destruct tcn; try discriminate; reflexivity).
      cbn [lexable_names] in Hlst. rewrite !andb_true_iff in Hlst.
      destruct Hlst as [[_ [[_ [[Hy _] _]] _]] _].
      apply Nx_if; auto.
      + exact (on_line_node _ _ _ _ _ _ _ _ Hon1).
      + exact (on_line_node _ _ _ _ _ _ _ _ Hon2).
    - (* STOP *)
      apply Nx_stop.
  Qed.

  Theorem joint_walkx n : body4 on_line n = true -> lexable_names n = true -> IHbodyx n.
  Proof. intros Hs Hl. exact (all_sub_here _ _ (jointx n) Hs Hl). Qed.
End Walk4.
