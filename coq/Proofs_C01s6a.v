(* Proofs_C01s6a.v — C01, stage 6 (any layout), part 1: code of values and blocks with sites inside.
   A value node that stands on another line than what precedes it makes the generator emit a POTENTIAL_BREAK in the
   middle of the statement's code, in front of the code of that node.  vmatch6 / amatch6 are vmatch4 / amatch4
   (Proofs_C01s4b.v) with such instructions allowed in front of the code of every value node; the last index counts
   them.  imatch6 is the block of a statement's instruction with k such sites inside. *)
From Coq Require Import List ZArith NArith Lia Bool.
From Theo Require Import Base Tokens Errors MacroExtract Parser VMModel VMSpec GenModel Compile RefSem RefSemChk C01Statements C01Stages Gen_Consts Proofs_VM_mem Proofs_VM_dbg Proofs_Gen0 Proofs_Gen Proofs_Sem Proofs_C01a Proofs_C01b Proofs_C01 Proofs_C01s2a Proofs_C01s2b Proofs_C01s2 Proofs_C01s3a Proofs_C01s4a Proofs_C01s4b.
Import ListNotations.
Local Open Scope Z_scope.

Section VM6.
  Variables (rm : regmap) (C : list instr) (FT : ftab).

  Inductive vmatch6 : rvalue -> Z -> Z -> (Z -> Prop) -> Z -> Prop :=
  | VM6_pb v tgt q (S : Z -> Prop) n :
      znth C q = Some IPotentialBreak -> vmatch6 v tgt (q + 1) S n -> vmatch6 v tgt q S (n + 1)
  | VM6_var y tgt q (S : Z -> Prop) ry :
      rm_var rm y ry -> znth C q = Some (IAdd tgt ry 0) -> vmatch6 (RVar y) tgt q S 0
  | VM6_num c tgt q (S : Z -> Prop) :
      0 <= c < INT_MAX -> znth C q = Some (IConst tgt c) -> vmatch6 (RNum c) tgt q S 0
  | VM6_inc y c tgt q (S : Z -> Prop) t1 t2 n1 n2 :
      rm_tmp rm t1 -> rm_tmp rm t2 -> S t1 -> S t2 -> t1 <> t2 ->
      vmatch6 (RVar y) t1 q (fun _ => False) n1 -> vmatch6 (RNum c) t2 (q + 1 + n1) (fun _ => False) n2 ->
      znth C (q + 2 + n1 + n2) = Some (IAdd tgt t1 c) ->
      vmatch6 (RInc (RVar y) c) tgt q S (n1 + n2)
  | VM6_dec y c tgt q (S : Z -> Prop) t1 t2 n1 n2 :
      rm_tmp rm t1 -> rm_tmp rm t2 -> S t1 -> S t2 -> t1 <> t2 ->
      vmatch6 (RVar y) t1 q (fun _ => False) n1 -> vmatch6 (RNum c) t2 (q + 1 + n1) (fun _ => False) n2 ->
      znth C (q + 2 + n1 + n2) = Some (IAdd tgt t1 (- c)) ->
      vmatch6 (RDec (RVar y) c) tgt q S (n1 + n2)
  | VM6_call j args tgt q (S : Z -> Prop) ts entry size mi n :
      FT j = Some (entry, size, mi) ->
      amatch6 args ts q S [] n ->
      znth C (q + alen4 args + n) = Some (IPrepare size mi tgt) ->
      (forall i t, nth_error ts i = Some t -> znth C (q + alen4 args + n + 1 + Z.of_nat i) = Some (IArg (Z.of_nat i) t)) ->
      znth C (q + alen4 args + n + 1 + zlen args) = Some (IExec entry) ->
      vmatch6 (RCall j args) tgt q S n
  with amatch6 : list rvalue -> list Z -> Z -> (Z -> Prop) -> list Z -> Z -> Prop :=
  | AM6_nil q (S : Z -> Prop) prot : amatch6 [] [] q S prot 0
  | AM6_cons v vs t ts q (S S1 : Z -> Prop) prot n1 n2 :
      rm_tmp rm t -> S t -> ~ In t prot -> (forall x, S1 x -> S x /\ ~ In x prot) ->
      vmatch6 v t q S1 n1 -> amatch6 vs ts (q + vlen4 v + n1) S (prot ++ [t]) n2 ->
      amatch6 (v :: vs) (t :: ts) q S prot (n1 + n2).

  Scheme vmatch6_mind := Induction for vmatch6 Sort Prop
  with amatch6_mind := Induction for amatch6 Sort Prop.

  Lemma amatch6_length args ts q S prot n : amatch6 args ts q S prot n -> length ts = length args.
  Proof. induction 1; cbn [length]; auto. Qed.
End VM6.

Combined Scheme vamatch6_ind from vmatch6_mind, amatch6_mind.

Lemma vamatch6_nonneg rm C FT :
  (forall v tgt q S n, vmatch6 rm C FT v tgt q S n -> 0 <= n) /\
  (forall args ts q S prot n, amatch6 rm C FT args ts q S prot n -> 0 <= n).
Proof.
  apply (vamatch6_ind rm C FT (fun v tgt q S n _ => 0 <= n) (fun args ts q S prot n _ => 0 <= n)); intros; lia.
Qed.

Lemma vmatch6_nonneg rm C FT v tgt q S n : vmatch6 rm C FT v tgt q S n -> 0 <= n.
Proof. apply (proj1 (vamatch6_nonneg rm C FT)). Qed.
Lemma amatch6_nonneg rm C FT args ts q S prot n : amatch6 rm C FT args ts q S prot n -> 0 <= n.
Proof. apply (proj2 (vamatch6_nonneg rm C FT)). Qed.

(* moving a value's code: every instruction of it is kept (none is a jump), the tables only grow *)
Lemma vmatch6_move rm rm' C C' FT FT' :
  rm_le rm rm' -> ft_le FT FT' ->
  (forall v tgt q S n, vmatch6 rm C FT v tgt q S n ->
     forall S' : Z -> Prop, (forall x, S x -> S' x) ->
     (forall q' ins, q <= q' -> znth C q' = Some ins -> ~ is_jmp (iop ins) -> znth C' q' = Some ins) ->
     vmatch6 rm' C' FT' v tgt q S' n) /\
  (forall args ts q S prot n, amatch6 rm C FT args ts q S prot n ->
     forall S' : Z -> Prop, (forall x, S x -> S' x) ->
     (forall q' ins, q <= q' -> znth C q' = Some ins -> ~ is_jmp (iop ins) -> znth C' q' = Some ins) ->
     amatch6 rm' C' FT' args ts q S' prot n).
Proof.
  intros (Hv & Hc & Ht) HF.
  assert (NJ0 : ~ is_jmp (iop IPotentialBreak)) by (intros [E|E]; discriminate E).
  assert (NJ1 : forall a b c, ~ is_jmp (iop (IAdd a b c))) by (intros a b c [E|E]; discriminate E).
  assert (NJ2 : forall a b, ~ is_jmp (iop (IConst a b))) by (intros a b [E|E]; discriminate E).
  assert (NJ3 : forall a b c, ~ is_jmp (iop (IPrepare a b c))) by (intros a b c [E|E]; discriminate E).
  assert (NJ4 : forall a b, ~ is_jmp (iop (IArg a b))) by (intros a b [E|E]; discriminate E).
  assert (NJ5 : forall a, ~ is_jmp (iop (IExec a))) by (intros a [E|E]; discriminate E).
  apply (vamatch6_ind rm C FT
       (fun v tgt q S n _ => forall S' : Z -> Prop, (forall x, S x -> S' x) ->
          (forall q' ins, q <= q' -> znth C q' = Some ins -> ~ is_jmp (iop ins) -> znth C' q' = Some ins) ->
          vmatch6 rm' C' FT' v tgt q S' n)
       (fun args ts q S prot n _ => forall S' : Z -> Prop, (forall x, S x -> S' x) ->
          (forall q' ins, q <= q' -> znth C q' = Some ins -> ~ is_jmp (iop ins) -> znth C' q' = Some ins) ->
          amatch6 rm' C' FT' args ts q S' prot n)).
  - intros v tgt q S n Hz Hm IH S' HS HC. apply VM6_pb; [apply HC; auto; lia|]. apply IH; auto.
    intros q' ins Hq. apply HC. lia.
  - intros y tgt q S ry Hy Hz S' HS HC. eapply VM6_var; [apply Hv; exact Hy | apply HC; auto; lia].
  - intros c tgt q S Hc0 Hz S' HS HC. eapply VM6_num; [exact Hc0 | apply HC; auto; lia].
  - intros y c tgt q S t1 t2 n1 n2 T1 T2 S1 S2 Hne M1 IH1 M2 IH2 Z2 S' HS HC.
    pose proof (vmatch6_nonneg _ _ _ _ _ _ _ _ M1). pose proof (vmatch6_nonneg _ _ _ _ _ _ _ _ M2).
    eapply VM6_inc with (t1 := t1) (t2 := t2); eauto.
    + apply IH2; auto. intros q' ins Hq. apply HC. lia.
    + apply HC; auto; lia.
  - intros y c tgt q S t1 t2 n1 n2 T1 T2 S1 S2 Hne M1 IH1 M2 IH2 Z2 S' HS HC.
    pose proof (vmatch6_nonneg _ _ _ _ _ _ _ _ M1). pose proof (vmatch6_nonneg _ _ _ _ _ _ _ _ M2).
    eapply VM6_dec with (t1 := t1) (t2 := t2); eauto.
    + apply IH2; auto. intros q' ins Hq. apply HC. lia.
    + apply HC; auto; lia.
  - intros j args tgt q S ts entry size mi n HFj Ha IHa Zp Za Ze S' HS HC.
    pose proof (alen4_nonneg args). pose proof (zlen_nonneg args). pose proof (amatch6_nonneg _ _ _ _ _ _ _ _ _ Ha).
    eapply VM6_call with (ts := ts); [apply HF; exact HFj | apply IHa; auto | apply HC; auto; lia | | apply HC; auto; lia].
    intros i t Hi. apply HC; auto; lia.
  - intros q S prot S' HS HC. constructor.
  - intros v vs t ts q S S1 prot n1 n2 Tt St Hn HS1 Hvm IHv Ham IHa S' HS HC.
    pose proof (vlen4_nonneg v). pose proof (vmatch6_nonneg _ _ _ _ _ _ _ _ Hvm).
    eapply AM6_cons with (S1 := S1); auto.
    + intros x Hx. destruct (HS1 x Hx). auto.
    + apply IHa; auto. intros q' ins Hq. apply HC. lia.
Qed.

Lemma vmatch6_mono rm rm' C blk FT FT' v tgt q (S S' : Z -> Prop) n :
  rm_le rm rm' -> ft_le FT FT' -> (forall x, S x -> S' x) ->
  vmatch6 rm C FT v tgt q S n -> vmatch6 rm' (C ++ blk) FT' v tgt q S' n.
Proof.
  intros Hrm HF HS H. destruct (vmatch6_move rm rm' C (C ++ blk) FT FT' Hrm HF) as [A _].
  eapply A; eauto. intros q' ins _ Hz _. apply znth_app_some; exact Hz.
Qed.

(* the first instruction of a value's code is not HALT; its last one is not a potential break *)
Lemma vamatch6_first rm C FT :
  (forall v tgt q S n, vmatch6 rm C FT v tgt q S n -> not_halt C q) /\
  (forall args ts q S prot n, amatch6 rm C FT args ts q S prot n -> args <> [] -> not_halt C q).
Proof.
  apply (vamatch6_ind rm C FT (fun v tgt q S n _ => not_halt C q)
           (fun args ts q S prot n _ => args <> [] -> not_halt C q)).
  - intros. eexists; split; [eassumption | reflexivity].
  - intros. eexists; split; [eassumption | reflexivity].
  - intros. eexists; split; [eassumption | reflexivity].
  - intros. assumption.
  - intros. assumption.
  - intros j args tgt q S ts entry size mi n HF Ha IHa Zp Za Ze.
    destruct args as [|a0 args']; [|apply IHa; discriminate].
    inversion Ha; subst. cbn [alen4] in Zp. rewrite !Z.add_0_r in Zp. eexists; split; [exact Zp | reflexivity].
  - intros q S prot H. contradiction.
  - intros. assumption.
Qed.

Lemma vmatch6_first rm C FT v tgt q S n : vmatch6 rm C FT v tgt q S n -> not_halt C q.
Proof. apply (proj1 (vamatch6_first rm C FT)). Qed.

Lemma vmatch6_last rm C FT v tgt q S n : vmatch6 rm C FT v tgt q S n ->
  exists ins, znth C (q + vlen4 v + n - 1) = Some ins /\ opcode_eqb (iop ins) POTENTIAL_BREAK = false.
Proof.
  intros H. induction H as [v tgt q S n Hz _ IH|y tgt q S ry Hy Hz|c tgt q S Hc Hz
                  |y c tgt q S t1 t2 n1 n2 _ _ _ _ _ _ _ _ _ Z2|y c tgt q S t1 t2 n1 n2 _ _ _ _ _ _ _ _ _ Z2
                  |j args tgt q S ts entry size mi n _ Ha Zp _ Ze].
  - destruct IH as (ins & Hi & Ho). exists ins. split; [|exact Ho]. replace (q + vlen4 v + (n + 1) - 1) with (q + 1 + vlen4 v + n - 1) by lia. exact Hi.
  - eexists. cbn [vlen4 vlen]. replace (q + 1 + 0 - 1) with q by lia. split; [eassumption | reflexivity].
  - eexists. cbn [vlen4 vlen]. replace (q + 1 + 0 - 1) with q by lia. split; [eassumption | reflexivity].
  - eexists. cbn [vlen4 vlen]. replace (q + 3 + (n1 + n2) - 1) with (q + 2 + n1 + n2) by lia. split; [eassumption | reflexivity].
  - eexists. cbn [vlen4 vlen]. replace (q + 3 + (n1 + n2) - 1) with (q + 2 + n1 + n2) by lia. split; [eassumption | reflexivity].
  - eexists. rewrite vlen4_call. replace (q + (alen4 args + zlen args + 2) + n - 1) with (q + alen4 args + n + 1 + zlen args) by lia.
    split; [eassumption | reflexivity].
Qed.

Lemma vmatch6_len_pos rm C FT v tgt q S n : vmatch6 rm C FT v tgt q S n -> 1 <= vlen4 v.
Proof.
  intros H. induction H; try (cbn; lia); try assumption.
  rewrite vlen4_call. pose proof (alen4_nonneg args). pose proof (zlen_nonneg args). lia.
Qed.

(* ================================================================================================ *)
(* blocks: the instruction of a statement with k sites of its values inside                         *)
(* ================================================================================================ *)
Definition imatch6 (rm : regmap) (C : list instr) (FT : ftab) (J : jrel3) (q k : Z) (i : rinstr) : Prop :=
  match i with
  | RAssign x v => exists rx, rm_var rm x rx /\ vmatch6 rm C FT v rx q (fun _ => True) k
  | RLoopInit id (RVar b) => exists rc, rm_cnt rm id rc /\ vmatch6 rm C FT (RVar b) rc q (fun _ => False) k
  | RLoopInit _ _ => False
  | RWhileTest (RVar c) e =>
      exists t f, rm_tmp rm t /\ vmatch6 rm C FT (RVar c) t q (fun _ => False) k /\
        znth C (q + 1 + k) = Some (IJmpC f t) /\ J (q + 1 + k) f (JId e)
  | RWhileTest _ _ => False
  | RIfGoto (RVar y) (RNum c) l =>
      exists t1 t2 tc f n1 n2, k = n1 + n2 /\ rm_tmp rm t1 /\ rm_tmp rm t2 /\ rm_tmp rm tc /\ t1 <> t2 /\
        vmatch6 rm C FT (RVar y) t1 q (fun _ => False) n1 /\ vmatch6 rm C FT (RNum c) t2 (q + 1 + n1) (fun _ => False) n2 /\
        znth C (q + 2 + k) = Some (ITest tc t1 t2) /\ znth C (q + 3 + k) = Some (IJmpC f tc) /\ J (q + 3 + k) f (JLab l)
  | RIfGoto _ _ _ => False
  | _ => k = 0 /\ imatch4 rm C FT J q i
  end.

Lemma imatch6_move rm rm' C C' FT FT' (J J' : jrel3) q k i :
  rm_le rm rm' -> ft_le FT FT' ->
  (forall q' ins, q <= q' -> znth C q' = Some ins -> ~ is_jmp (iop ins) -> znth C' q' = Some ins) ->
  (forall q' ins e, q <= q' -> znth C q' = Some ins -> is_jmp (iop ins) -> J q' (ia ins) e ->
     exists f', znth C' q' = Some (mkI (iop ins) f' (ib ins) (ic ins)) /\ J' q' f' e) ->
  (imatch3 rm C J q i -> imatch3 rm' C' J' q i) ->
  imatch6 rm C FT J q k i -> imatch6 rm' C' FT' J' q k i.
Proof.
  intros Hrm HF HC HJ H3. pose proof Hrm as (Hv & Hc & Ht).
  destruct (vmatch6_move rm rm' C C' FT FT' Hrm HF) as [A _].
  assert (NJ3 : forall a b c, ~ is_jmp (iop (ITest a b c))) by (intros a b c [E|E]; discriminate E).
  destruct i as [l|x v|id v|id ex|id back|v ex|target|l|x y l| |out|]; cbn [imatch6];
    try (intros [-> H]; split; [reflexivity|]; eapply imatch4_move; eauto; fail).
  - intros (rx & Hx & HV). exists rx. split; [apply Hv; exact Hx|]. eapply A; eauto.
  - destruct v; auto. intros (rc & Hx & HV). exists rc. split; [apply Hc; exact Hx|]. eapply A; eauto.
  - destruct v; auto. intros (t & f & Tt & HV & Hz & Hj). pose proof (vmatch6_nonneg _ _ _ _ _ _ _ _ HV).
    destruct (HJ (q + 1 + k) (IJmpC f t) (JId ex) ltac:(lia) Hz ltac:(right; reflexivity) Hj) as (f' & Hz' & Hj').
    exists t, f'. split; [apply Ht; exact Tt|]. split; [eapply A; eauto|]. split; [exact Hz' | exact Hj'].
  - destruct x; auto. destruct y; auto.
    intros (t1 & t2 & tc & f & n1 & n2 & -> & T1 & T2 & Tc & Hne & M1 & M2 & Z2 & Z3 & Hj).
    pose proof (vmatch6_nonneg _ _ _ _ _ _ _ _ M1). pose proof (vmatch6_nonneg _ _ _ _ _ _ _ _ M2).
    destruct (HJ (q + 3 + (n1 + n2)) (IJmpC f tc) (JLab l) ltac:(lia) Z3 ltac:(right; reflexivity) Hj) as (f' & Hz' & Hj').
    exists t1, t2, tc, f', n1, n2. split; [reflexivity|]. split; [apply Ht; exact T1|]. split; [apply Ht; exact T2|].
    split; [apply Ht; exact Tc|]. split; [exact Hne|]. split; [eapply A; eauto|]. split.
    + eapply A; eauto. intros q' ins Hq. apply HC. lia.
    + split; [apply HC; auto; lia|]. split; [exact Hz' | exact Hj'].
Qed.

Lemma imatch6_mono rm rm' C blk FT FT' (J J' : jrel3) q k i :
  rm_le rm rm' -> ft_le FT FT' -> (forall q' f e, q <= q' -> J q' f e -> J' q' f e) ->
  imatch6 rm C FT J q k i -> imatch6 rm' (C ++ blk) FT' J' q k i.
Proof.
  intros Hrm HF HJ. apply imatch6_move; auto.
  - intros q' ins _ Hz _. apply znth_app_some; exact Hz.
  - intros q' ins e Hq Hz _ Hj. exists (ia ins). split; [|apply HJ; auto].
    destruct ins. exact (znth_app_some _ _ _ _ Hz).
  - apply imatch3_mono; auto. intros q' ins _ Hz. apply znth_app_some; exact Hz.
Qed.

Lemma imatch6_last rm C FT J q k i : imatch6 rm C FT J q k i ->
  exists ins, znth C (q + blen4 i + k - 1) = Some ins /\ opcode_eqb (iop ins) POTENTIAL_BREAK = is_site i.
Proof.
  destruct i as [l|x v|id v|id ex|id back|v ex|target|l|x y l| |out|]; cbn [imatch6];
    try (intros [-> H]; rewrite Z.add_0_r; eapply imatch4_last; eauto; fail).
  - intros (rx & _ & H). cbn [is_site blen4]. eapply vmatch6_last; eauto.
  - destruct v; try contradiction. intros (rc & _ & H). cbn [is_site blen4 blen3 blen vlen]. apply vmatch6_last in H. exact H.
  - destruct v; try contradiction. intros (t & f & _ & _ & H & _). cbn [is_site blen4 blen3 blen vlen].
    eexists. replace (q + (1 + 1) + k - 1) with (q + 1 + k) by lia. split; [exact H | reflexivity].
  - destruct x; try contradiction. destruct y; try contradiction.
    intros (t1 & t2 & tc & f & n1 & n2 & _ & _ & _ & _ & _ & _ & _ & _ & H & _). cbn [is_site blen4 blen3 blen vlen].
    eexists. replace (q + (1 + 1 + 2) + k - 1) with (q + 3 + k) by lia. split; [exact H | reflexivity].
Qed.

Lemma imatch6_k_nonneg rm C FT J q k i : imatch6 rm C FT J q k i -> 0 <= k.
Proof.
  destruct i as [l|x v|id v|id ex|id back|v ex|target|l|x y l| |out|]; cbn [imatch6]; try (intros [-> _]; lia).
  - intros (rx & _ & H). eapply vmatch6_nonneg; eauto.
  - destruct v; try contradiction. intros (rc & _ & H). eapply vmatch6_nonneg; eauto.
  - destruct v; try contradiction. intros (t & f & _ & H & _). eapply vmatch6_nonneg; eauto.
  - destruct x; try contradiction. destruct y; try contradiction.
    intros (t1 & t2 & tc & f & n1 & n2 & -> & _ & _ & _ & _ & M1 & M2 & _).
    pose proof (vmatch6_nonneg _ _ _ _ _ _ _ _ M1). pose proof (vmatch6_nonneg _ _ _ _ _ _ _ _ M2). lia.
Qed.

(* an instruction that is a site has no sites inside *)
Lemma imatch6_site rm C FT J q k l : imatch6 rm C FT J q k (RSite l) -> k = 0 /\ znth C q = Some IPotentialBreak.
Proof. cbn [imatch6 imatch4 imatch3 imatch]. auto. Qed.

(* the code of a variable or a number uses no scratch register: the set S does not matter *)
Lemma vmatch6_leaf rm C FT v tgt q (S S' : Z -> Prop) n :
  (exists y, v = RVar y) \/ (exists c, v = RNum c) ->
  vmatch6 rm C FT v tgt q S n -> vmatch6 rm C FT v tgt q S' n.
Proof.
  intros Hv H. induction H; try (destruct Hv as [[? E]|[? E]]; discriminate E).
  - apply VM6_pb; auto.
  - eapply VM6_var; eauto.
  - eapply VM6_num; eauto.
Qed.

(* a site in front of the code of a value, or none *)
Lemma vmatch6_lead rm C FT v tgt q (S : Z -> Prop) n dl :
  (dl = 0 \/ dl = 1) -> (dl = 1 -> znth C q = Some IPotentialBreak) ->
  vmatch6 rm C FT v tgt (q + dl) S n -> vmatch6 rm C FT v tgt q S (dl + n).
Proof.
  intros [-> | ->] Hpb H.
  - rewrite Z.add_0_r in H. exact H.
  - replace (1 + n) with (n + 1) by lia. apply VM6_pb; [apply Hpb; reflexivity | exact H].
Qed.
