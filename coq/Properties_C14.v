(* Properties_C14.v — the theorems that decide property C14 on the model, each stated in full and closed by
   `exact <lemma>`; the lemmas live in the Proofs_*.v files.  Nothing else belongs in this file. *)
From Theo Require Import Base Regex Tokens Lexer Errors Scan SpecLex Gen_Lexer LexStatements Proofs_Lexer Proofs_Scan Proofs_LexRules FlexStatements FlexModel Gen_Flex Proofs_Flex FlexSkelStatements FlexSkel Proofs_FlexSkel.
Local Open Scope nat_scope.


Theorem C14_matcher :
  forall r s, matches_b r s = true <-> Matches r s.
Proof. exact C14_matcher_proof. Qed.
Print Assumptions C14_matcher.

Theorem C14_maxmunch :
  forall rules s,
    (forall len i, max_munch rules s = Some (len, i) -> MaxMunch rules s len i) /\
    (max_munch rules s = None -> NoMatch rules s) /\
    (forall len i len' i', MaxMunch rules s len i -> MaxMunch rules s len' i' -> len = len' /\ i = i').
Proof. exact C14_maxmunch_proof. Qed.
Print Assumptions C14_maxmunch.

Theorem C14_lex :
  forall rules s, catch_all rules ->
    Tokenisation rules s 1%Z (lex rules s) /\
    (forall out, Tokenisation rules s 1%Z out -> out = lex rules s).
Proof. exact C14_lex_proof. Qed.
Print Assumptions C14_lex.

Theorem C14_rules_agree_meaning :
  forall l1 l2, rules_agree l1 l2 = true ->
    length l1 = length l2 /\
    (forall i r1 a1 r2 a2, nth_error l1 i = Some (r1, a1) -> nth_error l2 i = Some (r2, a2) ->
        (forall w, Matches r1 w <-> Matches r2 w) /\ action_eqb a1 a2 = true) /\
    (forall s, lex l1 s = lex l2 s).
Proof. exact C14_rules_agree_meaning_proof. Qed.
Print Assumptions C14_rules_agree_meaning.

Theorem C14_rules :
  rules_agree Gen_Lexer.rules spec_rules = true /\
  catch_all Gen_Lexer.rules /\
  forallb (fun r => negb (action_eqb (snd r) (Some UNKNOWN))) Gen_Lexer.rules = true /\
  Gen_Lexer.tok_text_cstring = false.
Proof. exact C14_rules_proof. Qed.
Print Assumptions C14_rules.

Theorem C14_spellings :
  forallb (fun p => match lex Gen_Lexer.rules (fst p) with
                    | [(k, text, 1%Z)] => tk_eqb k (snd p) && str_eqb text (fst p)
                    | _ => false end) all_spellings = true /\
  length all_spellings = 99.
Proof. exact C14_spellings_proof. Qed.
Print Assumptions C14_spellings.

Theorem C14_unknown_byte :
  forall c, let known := [32; 9; 10; 40; 41; 44; 59; 58; 61]%N in
    (* every byte that is not a letter, digit, underscore, blank or one of ( ) , ; : =  — including NUL,
       high bytes and a lone double quote, dollar, hash, slash, less-than or exclamation mark *)
    (c < 256)%N -> in_rng c SpecLex.alnum = false -> existsb (N.eqb c) known = false ->
    lex Gen_Lexer.rules [c] = [(NV_ID, [c], 1%Z)].
Proof. exact C14_unknown_byte_proof. Qed.
Print Assumptions C14_unknown_byte.

Theorem C14_scan :
  forall files main depth c, flookup files main = Some c ->
    scan_file Gen_Lexer.rules depth files [main] main c = splice Gen_Lexer.rules files depth [main] main.
Proof. exact C14_scan_proof. Qed.
Print Assumptions C14_scan.

Theorem C14_eof :
  forall files main toks errs, scan Gen_Lexer.rules files main = Ok (toks, errs) ->
    exists body f l, toks = body ++ [mkTok T_EOF EOF_text f l] /\
                     Forall (fun t => tk t <> T_EOF) body.
Proof. exact C14_eof_proof. Qed.
Print Assumptions C14_eof.

Theorem C14_dfa_generic :
  forall t rs m, check_dfa t rs m = true ->
  forall s, bytes_ok s -> flex_match t s = Some (option_map as_act (munch rs s 0 None)).
Proof. exact C14_dfa_generic_proof. Qed.
Print Assumptions C14_dfa_generic.

Theorem C14_dfa_equiv :
  forall s, bytes_ok s -> flex_match flex_tables s = Some (option_map as_act (max_munch rules s)).
Proof. exact C14_dfa_equiv_proof. Qed.
Print Assumptions C14_dfa_equiv.

Theorem C14_dfa_equiv_needs_bytes :
  ~ C14_dfa_equiv_unguarded_stmt.
Proof. exact C14_dfa_equiv_needs_bytes_proof. Qed.
Print Assumptions C14_dfa_equiv_needs_bytes.

Theorem C14_eol_generic :
  forall r s, no_newline r = true -> matches_b r s = true -> count_nl s = 0%Z.
Proof. exact C14_eol_generic_proof. Qed.
Print Assumptions C14_eol_generic.

Theorem C14_eol :
  forall i r k s, nth_error rules i = Some (r, k) -> eol_flag flex_tables (Z.of_nat i + 1)%Z = false ->
    matches_b r s = true -> count_nl s = 0%Z.
Proof. exact C14_eol_proof. Qed.
Print Assumptions C14_eol.

Theorem C14_actions :
  forall i r k, nth_error rules i = Some (r, k) -> nth_error flex_actions i = Some (Some k).
Proof. exact C14_actions_proof. Qed.
Print Assumptions C14_actions.

Theorem C14_flex_next_token :
  forall fuel s line, bytes_ok s -> flex_next_token fuel flex_tables flex_actions s line = Some (next_token fuel rules s line).
Proof. exact C14_flex_next_token_proof. Qed.
Print Assumptions C14_flex_next_token.

Theorem C14_skeleton :
  forall text pos line, bytes_ok text -> (0 <= pos <= zlen text)%Z ->
    let s := suffix_at text pos in
    yylex flex_tables flex_actions text (S (length s)) pos line =
    lex_expect text (flex_next_token (S (length s)) flex_tables flex_actions s line).
Proof. exact C14_skeleton_proof. Qed.
Print Assumptions C14_skeleton.

Theorem C14_yylex_is_next_token :
  forall text pos line, bytes_ok text -> (0 <= pos <= zlen text)%Z ->
    let s := suffix_at text pos in
    yylex flex_tables flex_actions text (S (length s)) pos line =
    lex_expect text (Some (next_token (S (length s)) rules s line)).
Proof. exact C14_yylex_is_next_token_proof. Qed.
Print Assumptions C14_yylex_is_next_token.
