(* Proofs_LRTerm.v — termination of the generated LR drivers (statements: LRTermStatements.v).
   Helper: Proofs_LRTerm0.v (the potential argument; conflicts play no role).
     C13_parse_terminates_proof       : fuel 2 * (R + 2) * |input| + 2 * R + 4 suffices, R the largest rank of a
                                        left-hand side of g under the ranking of unit_acyclic
     C09_detect_no_fuel_proof         : for the detector grammar R = 3, i.e. 10 * |input| + 10 <= 40 * |input| + 100
     C02_apply_fuel_only_tables_proof : apply_macros = Fuel only when make_detectors = Fuel *)
From Coq Require Import List ZArith NArith Lia Bool Sorting.Sorted.
From Theo Require Import Base Tokens Errors MacroExtract Grammar LR Gen_MacroGrammar Gen_Consts MacroApply SpecMacro SpecLR LRStatements CompileStatements ApplyStatements MacroStatements LRTermStatements Proofs_First Proofs_LRSound0 Proofs_LRSound Proofs_LRComplete0 Proofs_Macro Proofs_Apply0 Proofs_Apply.
From Theo Require Import Proofs_LRTerm0.
Import ListNotations.

(* ================================================================================================ *)
(* 1. C13_parse_terminates                                                                            *)
(* ================================================================================================ *)
Definition key_rank (rank : N -> nat) (p : sym * list alternative) : nat :=
  match fst p with Nt a => rank a | _ => 0%nat end.
Definition max_rank (rank : N -> nat) (g : grammar) : nat := list_max (map (key_rank rank) (right_sides g)).

Lemma max_rank_bound rank g a alts : In (Nt a, alts) (right_sides g) -> (rank a <= max_rank rank g)%nat.
Proof.
  intros HI. unfold max_rank.
  assert (HF : Forall (fun k => (k <= list_max (map (key_rank rank) (right_sides g)))%nat)
                      (map (key_rank rank) (right_sides g))).
  { apply list_max_le. apply Nat.le_refl. }
  rewrite Forall_forall in HF. apply (HF (key_rank rank (Nt a, alts))).
  apply in_map. exact HI.
Qed.

(* the general form: any ranking of the unit rules with a bound R on the ranks of the left-hand sides *)
Lemma parse_terminates_bound :
  forall (T V : Type) (translator : T -> N) (creator : T -> V) (semantic : sym -> N -> list V -> V)
         ms g prefix S eof g' tab confs states (rank : N -> nat) (R : nat) input fuel,
    wf_grammar g -> start_ok g S eof -> rhs_closed g ->
    eps_free g S ->
    (forall a alts b, In (Nt a, alts) (right_sides g) -> In [Nt b] alts -> (rank b < rank a)%nat) ->
    (forall a alts, In (Nt a, alts) (right_sides g) -> (rank a <= R)%nat) ->
    generate_tables ms g prefix S eof = Ok (g', tab, confs, states) ->
    (2 * (R + 2) * length input + (2 * R + 3) < fuel)%nat ->
    parse translator creator semantic tab fuel input <> Fuel.
Proof.
  intros T V translator creator semantic ms g prefix S eof g' tab confs states rank R input fuel
         WF SOK RC EPS RK RB HG HF.
  destruct (generate_inv _ _ _ _ _ _ _ _ _ WF SOK RC HG) as (H5 & HS & _ & rows & jrows & -> & HT).
  exact (parse_no_fuel translator creator semantic g S eof SOK g' H5 prefix states HS rows jrows HT
           EPS rank R RK RB input fuel HF).
Qed.

Lemma C13_parse_terminates_proof : C13_parse_terminates_stmt.
Proof.
  intros T V translator creator semantic ms g prefix S eof g' tab confs states input
         WF SOK RC EF EPS (rank & RK) HG.
  set (R := max_rank rank g).
  exists (2 * (R + 2) * length input + (2 * R + 4))%nat. intros k.
  apply (parse_terminates_bound T V translator creator semantic ms g prefix S eof g' tab confs states rank R);
    auto.
  - intros a alts HI. apply (max_rank_bound rank g a alts HI).
  - lia.
Qed.

(* ================================================================================================ *)
(* 2. the detector grammar: no empty rule but MACRO's, unit rules ranked                              *)
(* ================================================================================================ *)
Definition rankD (a : N) : nat :=
  match a with
  | 0%N => 0 | 1%N => 0 | 2%N => 1 | 3%N => 2 | 4%N => 2 | 5%N => 1 | 6%N => 0 | _ => 3
  end%nat.

Definition nonempty_b (rs : list (sym * list alternative)) : bool :=
  forallb (fun r => forallb (fun alt => match alt with [] => false | _ => true end) (snd r)) rs.
Definition unit_b (rs : list (sym * list alternative)) : bool :=
  forallb (fun r => forallb (fun alt => match alt with
                                        | [Nt b] => Nat.ltb (rankD b) (key_rank rankD r)
                                        | _ => true end) (snd r)) rs.

Lemma base_nonempty : nonempty_b base_rs = true.
Proof. vm_compute. reflexivity. Qed.
Lemma base_unit : unit_b base_rs = true.
Proof. vm_compute. reflexivity. Qed.

Lemma dg_in m X alts : In (X, alts) (right_sides (detector_grammar m)) ->
  In (X, alts) base_rs \/ (X = Nt 7%N /\ alts = [pat_rhs m]).
Proof.
  rewrite dg_eq. cbn [right_sides]. intros H. apply in_app_or in H. destruct H as [H|[H|[]]]; [left; exact H|].
  right. inversion H. split; reflexivity.
Qed.

Lemma dg_eps_free m : rule_ok m -> eps_free (detector_grammar m) (Nt (N.of_nat detector_start)).
Proof.
  intros RO. pose proof (rs_okb_spec _ (dg_okb m RO)) as SP. split.
  - intros X alts rhs HI Hr E. destruct (dg_in m X alts HI) as [HB|[-> _]]; [|reflexivity].
    exfalso. pose proof base_nonempty as NB. unfold nonempty_b in NB. rewrite forallb_forall in NB.
    specialize (NB _ HB). cbn [snd] in NB. rewrite forallb_forall in NB. specialize (NB _ Hr).
    subst rhs. discriminate.
  - intros X alts rhs HI Hr HS. destruct (SP _ _ HI) as [_ K]. specialize (K _ _ Hr HS). discriminate.
Qed.

Lemma rank_lt7 b : (b < 7)%N -> (rankD b < 3)%nat.
Proof.
  intros H.
  assert (C : b = 0%N \/ b = 1%N \/ b = 2%N \/ b = 3%N \/ b = 4%N \/ b = 5%N \/ b = 6%N) by lia.
  destruct C as [->|[->|[->|[->|[->|[->| ->]]]]]]; cbn; lia.
Qed.

Lemma rank_le3 a : (a < 8)%N -> (rankD a <= 3)%nat.
Proof.
  intros H.
  assert (C : a = 0%N \/ a = 1%N \/ a = 2%N \/ a = 3%N \/ a = 4%N \/ a = 5%N \/ a = 6%N \/ a = 7%N) by lia.
  destruct C as [->|[->|[->|[->|[->|[->|[->| ->]]]]]]]; cbn; lia.
Qed.

Lemma dg_unit_ranked m : rule_ok m ->
  forall a alts b, In (Nt a, alts) (right_sides (detector_grammar m)) -> In [Nt b] alts -> (rankD b < rankD a)%nat.
Proof.
  intros RO a alts b HI Hb. pose proof (rs_okb_spec _ (dg_okb m RO)) as SP.
  destruct (dg_in m _ alts HI) as [HB|[E _]].
  - pose proof base_unit as UB. unfold unit_b in UB. rewrite forallb_forall in UB.
    specialize (UB _ HB). cbn [snd] in UB. rewrite forallb_forall in UB. specialize (UB _ Hb).
    cbv beta iota in UB. unfold key_rank in UB. cbn [fst] in UB. apply Nat.ltb_lt in UB. exact UB.
  - inversion E; subst a. destruct (SP _ _ HI) as [_ K]. specialize (K _ _ Hb (or_introl eq_refl)).
    cbn [okb] in K. apply N.ltb_lt in K. apply rank_lt7. exact K.
Qed.

Lemma dg_rank_bound m : rule_ok m ->
  forall a alts, In (Nt a, alts) (right_sides (detector_grammar m)) -> (rankD a <= 3)%nat.
Proof.
  intros RO a alts HI. pose proof (rs_okb_spec _ (dg_okb m RO)) as SP.
  destruct (SP _ _ HI) as [(n & E & L) _]. inversion E; subst n. apply rank_le3. exact L.
Qed.

(* ================================================================================================ *)
(* 3. C09_detect_no_fuel                                                                              *)
(* ================================================================================================ *)
Lemma gen_of_unfold m : gen_of m = generate_tables max_states (detector_grammar m) detector_prefix_mode
                                     (Nt (N.of_nat detector_start)) (Tm (tk_num detector_eof)).
Proof. reflexivity. Qed.

(* the driver of a detector needs at most 10 * |input| + 10 steps *)
Lemma detector_parse_no_fuel m d input fuel : rule_ok m -> make_detector m = Ok d ->
  (10 * length input + 9 < fuel)%nat ->
  parse translator creator semantic (d_tab d) fuel input <> Fuel.
Proof.
  intros RO HM HF. destruct (make_detector_inv _ _ HM) as (g' & tab & confs & states & HG & ->).
  cbn [d_tab]. rewrite gen_of_unfold in HG.
  apply (parse_terminates_bound token accum translator creator semantic max_states (detector_grammar m)
           detector_prefix_mode (Nt (N.of_nat detector_start)) (Tm (tk_num detector_eof))
           g' tab confs states rankD 3%nat input fuel
           (dg_wf m RO) (dg_start_ok m RO) (dg_rhs_closed m RO) (dg_eps_free m RO)
           (dg_unit_ranked m RO) (dg_rank_bound m RO) HG).
  lia.
Qed.

Lemma check_constraint_no_fuel rule (matched : list (list token)) : forall cc,
  check_constraint rule matched cc <> Fuel.
Proof.
  induction cc as [|c cc IH]; cbn [check_constraint]; [discriminate|].
  destruct (znth rule c) as [req|]; cbn [of_opt bind]; [|discriminate].
  destruct (znth matched c) as [found|]; cbn [of_opt bind]; [|discriminate].
  destruct found as [|f [|f2 fr]]; try discriminate.
  destruct (str_eqb (ttext f) (ttext req)); [exact IH|discriminate].
Qed.

Lemma detect_from_no_fuel m d : rule_ok m -> make_detector m = Ok d -> forall input i,
  detect_from d input i <> Fuel.
Proof.
  intros RO HM. induction input as [|x rest IH]; intros i; [cbn [detect_from]; discriminate|].
  rewrite detect_from_cons.
  pose proof (detector_parse_no_fuel m d (x :: rest) (parse_fuel (x :: rest)) RO HM) as NF.
  destruct (parse translator creator semantic (d_tab d) (parse_fuel (x :: rest)) (x :: rest)) as [p|k|];
    cbn [bind]; [|discriminate|exfalso; apply NF; [unfold parse_fuel; lia|reflexivity]].
  destruct p as [[total split]|]; [|apply IH].
  pose proof (check_constraint_no_fuel (m_rule (d_macro d)) split (m_cc (d_macro d))) as NC.
  destruct (check_constraint (m_rule (d_macro d)) split (m_cc (d_macro d))) as [ok|k|]; cbn [bind];
    [|discriminate|congruence].
  destruct ok; [discriminate|apply IH].
Qed.

Lemma C09_detect_no_fuel_proof : C09_detect_no_fuel_stmt.
Proof.
  intros m d input MO HM. unfold detect. apply (detect_from_no_fuel m d (macro_ok_rule m MO) HM).
Qed.

(* ================================================================================================ *)
(* 4. C02_apply_fuel_only_tables                                                                      *)
(* ================================================================================================ *)
Local Open Scope Z_scope.

Lemma gdet_detect_no_fuel d input : gdet d -> detect d input <> Fuel.
Proof. intros (m & MO & HM). exact (C09_detect_no_fuel_proof m d input MO HM). Qed.

Lemma detect_all_no_fuel ds input : Forall gdet ds -> detect_all ds input <> Fuel.
Proof.
  induction 1 as [|d ds GD F IH]; [cbn [detect_all]; discriminate|].
  rewrite detect_all_cons. pose proof (gdet_detect_no_fuel d input GD) as ND.
  destruct (detect d input) as [r|k|]; cbn [bind]; [|discriminate|congruence].
  destruct (detect_all ds input) as [more|k|]; cbn [bind]; [|discriminate|congruence].
  destruct r; discriminate.
Qed.

Lemma instantiate_no_fuel m fl (matched : list (list token)) pass : forall body,
  instantiate m fl matched pass body <> Fuel.
Proof.
  induction body as [|cand rest IH]; [cbn [instantiate]; discriminate|].
  rewrite instantiate_cons.
  destruct (instantiate m fl matched pass rest) as [more|k|]; cbn [bind]; [|discriminate|congruence].
  destruct (tk cand); try discriminate.
  destruct (znth (m_tt m) (strToIntSilent (tl (ttext cand)))) as [slot|]; cbn [of_opt bind]; [|discriminate].
  destruct (znth matched slot) as [ins|]; cbn [of_opt bind]; discriminate.
Qed.

Lemma get_replacement_no_fuel m r pass : get_replacement m r pass <> Fuel.
Proof.
  unfold get_replacement. destruct (m_repl m) as [|t0 body] eqn:E; [discriminate|].
  rewrite <- E. apply instantiate_no_fuel.
Qed.

Lemma try_bin_no_fuel ds input pass : Forall gdet ds -> try_bin false ds input pass <> Fuel.
Proof.
  intros GD. unfold try_bin. pose proof (detect_all_no_fuel ds input GD) as ND.
  destruct (detect_all ds input) as [found|k|]; cbn [bind]; [|discriminate|congruence].
  destruct found as [|x rest]; [discriminate|].
  destruct (min_element false x rest) as [d r].
  pose proof (get_replacement_no_fuel (d_macro d) r pass) as NR.
  destruct (get_replacement (d_macro d) r pass) as [repl|k|]; cbn [bind]; [|discriminate|congruence].
  destruct (zlen input <? r_location r + r_length r); discriminate.
Qed.

Lemma try_bins_no_fuel bins input pass : bins_gd bins -> try_bins false bins input pass <> Fuel.
Proof.
  intros GB. induction bins as [|[k ds] bins IH]; [cbn [try_bins]; discriminate|].
  rewrite try_bins_cons. pose proof (try_bin_no_fuel ds input pass (GB k ds (or_introl eq_refl))) as NB.
  destruct (try_bin false ds input pass) as [r|kk|]; cbn [bind]; [|discriminate|congruence].
  destruct r; [discriminate|]. apply IH. intros p l Hp. apply (GB p l). right; exact Hp.
Qed.

Lemma pass_loop_no_fuel bins : bins_gd bins -> forall n input pass, pass_loop false n bins input pass <> Fuel.
Proof.
  intros GB. induction n as [|k IH]; intros input pass; [cbn [pass_loop]; discriminate|].
  rewrite pass_loop_S. pose proof (try_bins_no_fuel bins input pass GB) as NB.
  destruct (try_bins false bins input pass) as [r|kk|]; cbn [bind]; [|discriminate|congruence].
  destruct r as [input'|]; [|discriminate]. destruct k as [|k']; [discriminate|apply IH].
Qed.

Lemma C02_apply_fuel_only_tables_proof : C02_apply_fuel_only_tables_stmt.
Proof.
  intros input defs passes ET FD H. unfold apply_macros, apply_macros_gen in H.
  destruct (make_detectors_total defs FD) as [E|(ds & E & GD)]; [exact E|]. exfalso.
  rewrite E in H. cbn [bind] in H.
  destruct (split_usable_total ds GD) as (errs & us & E2 & GU). rewrite E2 in H. cbn [bind] in H.
  cbv beta iota in H.
  assert (GB : bins_gd (rev (fold_left add_bin us []))).
  { intros p l HI. apply in_rev in HI. revert p l HI. apply fold_add_bin_gd; [exact GU|]. intros p l []. }
  pose proof (pass_loop_no_fuel _ GB passes input 0) as NP.
  destruct (pass_loop false passes (rev (fold_left add_bin us [])) input 0) as [[out ch]|k|]; cbn [bind] in H;
    [discriminate|discriminate|congruence].
Qed.

Print Assumptions C13_parse_terminates_proof.
Print Assumptions C09_detect_no_fuel_proof.
Print Assumptions C02_apply_fuel_only_tables_proof.
