From Coq Require Import List ZArith NArith Lia Bool.
From Theo Require Import Base Regex Tokens Lexer Errors Scan SpecLex Gen_Lexer LexStatements.
(* Proofs_Scan.v — proofs of the C14/C15 statements about Theo::scan and the include splice
   (LexStatements.v).  No axioms. *)
From Theo Require Import Proofs_Lexer.
Import ListNotations.
Local Open Scope nat_scope.

(* ================================================================================================ *)
(* 0. small facts                                                                                   *)
(* ================================================================================================ *)

Lemma tk_eqb_neq : forall x y, x <> y -> tk_eqb x y = false.
Proof.
  intros x y H. destruct (tk_eqb x y) eqn:E; [| reflexivity].
  apply tk_eqb_eq in E. contradiction.
Qed.

Lemma str_in_iff : forall n l, str_in n l = true <-> In n l.
Proof.
  intros n l. induction l as [| x t IH]; cbn [str_in In].
  - split; [discriminate | intros []].
  - rewrite orb_true_iff, IH, str_eqb_eq. reflexivity.
Qed.

Lemma flookup_in : forall files n v, flookup files n = Some v -> In n (map fst files).
Proof.
  induction files as [| [k0 v0] t IH]; intros n v H; cbn [flookup] in H.
  - discriminate.
  - cbn [map fst In]. destruct (str_eqb k0 n) eqn:E.
    + left. apply str_eqb_eq. exact E.
    + right. eapply IH. exact H.
Qed.

Lemma active_bound : forall (files : files_t) (active : list str),
  NoDup active -> (forall x, In x active -> flookup files x <> None) -> length active <= length files.
Proof.
  intros files active Hnd Hin.
  rewrite <- (map_length fst files). apply NoDup_incl_length; [exact Hnd |].
  intros x Hx. specialize (Hin x Hx).
  destruct (flookup files x) as [v |] eqn:E; [| contradiction].
  eapply flookup_in. exact E.
Qed.

Lemma bind_Ok_inv : forall (A B : Type) (e : result A) (g : A -> result B) r,
  bind e g = Ok r -> exists a, e = Ok a /\ g a = Ok r.
Proof.
  intros A B e g r H. destruct e as [a | k | ]; cbn [bind] in H; try discriminate.
  exists a. split; [reflexivity | exact H].
Qed.

(* ================================================================================================ *)
(* 1. the inner loops of scan_file and splice as named functions                                    *)
(* ================================================================================================ *)

Section Loop.
  Variable rules : list rule.
  Variable files : files_t.
  Variable recur : list str -> str -> list N -> result (list token * list perr).
  Variable active : list str.
  Variable fn : str.

  Fixpoint sloop (fuel : nat) (s : list N) (line : Z) {struct fuel} : result (list token * list perr) :=
    match fuel with
    | O => Fuel
    | S fu =>
        match next_token (S (length s)) rules s line with
        | None => Ok ([], [])
        | Some (k, text, line1, rest) =>
            let t := mkTok k text fn line1 in
            let unk := match k with UNKNOWN => [mkPerr e_unknown_token fn line1 []] | _ => [] end in
            match k with
            | INCLUDE =>
                match next_token (S (length rest)) rules rest line1 with
                | None =>
                    do r <- sloop fu [] line1;
                    Ok (fst r, unk ++ mkPerr e_expected_filename fn line1 [] :: snd r)
                | Some (k2, text2, line2, rest2) =>
                    match k2 with
                    | FNAME =>
                        let nfn := strip_quotes text2 in
                        match flookup files nfn with
                        | None =>
                            do r <- sloop fu rest2 line2;
                            Ok (fst r, unk ++ mkPerr e_file_not_found fn line2 nfn :: snd r)
                        | Some c =>
                            if str_in nfn active then
                              do r <- sloop fu rest2 line2;
                              Ok (fst r, unk ++ mkPerr e_recursive_include fn line2 [] :: snd r)
                            else
                              do r1 <- recur (nfn :: active) nfn c;
                              do r2 <- sloop fu rest2 line2;
                              Ok (fst r1 ++ fst r2, unk ++ snd r1 ++ snd r2)
                        end
                    | _ =>
                        do r <- sloop fu rest2 line2;
                        Ok (fst r, unk ++ mkPerr e_expected_filename fn line2 [] :: snd r)
                    end
                end
            | _ =>
                do r <- sloop fu rest line1;
                Ok (t :: fst r, unk ++ snd r)
            end
        end
    end.

  (* one iteration, with the case analysis on token kinds done by tk_eqb *)
  Definition sstep (self : list N -> Z -> result (list token * list perr)) (s : list N) (line : Z)
    : result (list token * list perr) :=
    match next_token (S (length s)) rules s line with
    | None => Ok ([], [])
    | Some (k, text, line1, rest) =>
        if tk_eqb k INCLUDE then
          match next_token (S (length rest)) rules rest line1 with
          | None =>
              do r <- self [] line1;
              Ok (fst r, mkPerr e_expected_filename fn line1 [] :: snd r)
          | Some (k2, text2, line2, rest2) =>
              if tk_eqb k2 FNAME then
                match flookup files (strip_quotes text2) with
                | None =>
                    do r <- self rest2 line2;
                    Ok (fst r, mkPerr e_file_not_found fn line2 (strip_quotes text2) :: snd r)
                | Some c =>
                    if str_in (strip_quotes text2) active then
                      do r <- self rest2 line2;
                      Ok (fst r, mkPerr e_recursive_include fn line2 [] :: snd r)
                    else
                      do r1 <- recur (strip_quotes text2 :: active) (strip_quotes text2) c;
                      do r2 <- self rest2 line2;
                      Ok (fst r1 ++ fst r2, snd r1 ++ snd r2)
                end
              else
                do r <- self rest2 line2;
                Ok (fst r, mkPerr e_expected_filename fn line2 [] :: snd r)
          end
        else
          do r <- self rest line1;
          Ok (mkTok k text fn line1 :: fst r,
              (if tk_eqb k UNKNOWN then [mkPerr e_unknown_token fn line1 []] else []) ++ snd r)
    end.

  Lemma sloop_O : forall s line, sloop 0 s line = Fuel.
  Proof. reflexivity. Qed.

  Lemma sloop_S : forall fu s line, sloop (S fu) s line = sstep (sloop fu) s line.
  Proof.
    intros fu s line. cbn [sloop]. unfold sstep.
    destruct (next_token (S (length s)) rules s line) as [[[[k text] line1] rest] |]; [| reflexivity].
    destruct k; try reflexivity.
    destruct (next_token (S (length rest)) rules rest line1) as [[[[k2 text2] line2] rest2] |]; [| reflexivity].
    destruct k2; reflexivity.
  Qed.
End Loop.

Lemma scan_file_O : forall rules files active fn content,
  scan_file rules 0 files active fn content = Fuel.
Proof. reflexivity. Qed.

Lemma scan_file_S : forall rules d files active fn content,
  scan_file rules (S d) files active fn content =
  sloop rules files (scan_file rules d files) active fn (S (length content)) content 1%Z.
Proof.
  (* plain [reflexivity] works too but is much slower: the default conversion compares the inner
     fix at each of its ~80 call sites after unrolling it on [S (length content)] *)
  intros. vm_cast_no_check (@eq_refl _ (scan_file rules (S d) files active fn content)).
Qed.

Section Go.
  Variable files : files_t.
  Variable recur : list str -> str -> result (list token * list perr).
  Variable active : list str.
  Variable fn : str.

  Fixpoint sgo (ts : list (tkind * list N * Z)) : result (list token * list perr) :=
    match ts with
    | [] => Ok ([], [])
    | (INCLUDE, _, l) :: [] => Ok ([], [mkPerr e_expected_filename fn l []])
    | (INCLUDE, _, _) :: (FNAME, text, l2) :: rest =>
        let g := strip_quotes text in
        if negb (fcontains files g) then
          do r <- sgo rest; Ok (fst r, mkPerr e_file_not_found fn l2 g :: snd r)
        else if str_in g active then
          do r <- sgo rest; Ok (fst r, mkPerr e_recursive_include fn l2 [] :: snd r)
        else
          do r1 <- recur (g :: active) g;
          do r2 <- sgo rest;
          Ok (fst r1 ++ fst r2, snd r1 ++ snd r2)
    | (INCLUDE, _, _) :: (_, _, l2) :: rest =>
        do r <- sgo rest; Ok (fst r, mkPerr e_expected_filename fn l2 [] :: snd r)
    | (k, text, l) :: rest =>
        do r <- sgo rest; Ok (mkTok k text fn l :: fst r, snd r)
    end.

  Lemma sgo_nil : sgo [] = Ok ([], []).
  Proof. reflexivity. Qed.

  Lemma sgo_cons : forall k text l rest,
    sgo ((k, text, l) :: rest) =
    if tk_eqb k INCLUDE then
      match rest with
      | [] => Ok ([], [mkPerr e_expected_filename fn l []])
      | (k2, text2, l2) :: rest2 =>
          if tk_eqb k2 FNAME then
            if negb (fcontains files (strip_quotes text2)) then
              do r <- sgo rest2; Ok (fst r, mkPerr e_file_not_found fn l2 (strip_quotes text2) :: snd r)
            else if str_in (strip_quotes text2) active then
              do r <- sgo rest2; Ok (fst r, mkPerr e_recursive_include fn l2 [] :: snd r)
            else
              do r1 <- recur (strip_quotes text2 :: active) (strip_quotes text2);
              do r2 <- sgo rest2;
              Ok (fst r1 ++ fst r2, snd r1 ++ snd r2)
          else
            do r <- sgo rest2; Ok (fst r, mkPerr e_expected_filename fn l2 [] :: snd r)
      end
    else
      do r <- sgo rest; Ok (mkTok k text fn l :: fst r, snd r).
  Proof.
    intros k text l rest.
    destruct k; try reflexivity.
    destruct rest as [| [[k2 text2] l2] rest2]; [reflexivity |].
    destruct k2; reflexivity.
  Qed.
End Go.

Lemma splice_O : forall rules files active fn, splice rules files 0 active fn = Fuel.
Proof. reflexivity. Qed.

Lemma splice_S : forall rules files d active fn,
  splice rules files (S d) active fn =
  sgo files (splice rules files d) active fn (file_tokens rules files fn).
Proof. reflexivity. Qed.

(* ================================================================================================ *)
(* 2. facts about the loop of scan_file                                                             *)
(* ================================================================================================ *)

Section LoopFacts.
  Variable rules : list rule.
  Variable files : files_t.
  Variable recur : list str -> str -> list N -> result (list token * list perr).
  Variable active : list str.
  Variable fn : str.

  Lemma sloop_nil : forall fu line, 0 < fu -> sloop rules files recur active fn fu [] line = Ok ([], []).
  Proof.
    intros fu line H. destruct fu as [| fu]; [lia |].
    rewrite sloop_S. unfold sstep. rewrite next_token_nil. reflexivity.
  Qed.

  (* the loop never runs out of fuel, and succeeds if the recursive scans do *)
  Lemma sloop_ok :
    (forall g c, flookup files g = Some c -> str_in g active = false ->
                 exists r, recur (g :: active) g c = Ok r) ->
    forall fu s line, length s < fu -> exists r, sloop rules files recur active fn fu s line = Ok r.
  Proof.
    intros Hrec. induction fu as [| fu IH]; intros s line Hf; [lia |].
    rewrite sloop_S. unfold sstep.
    destruct (next_token (S (length s)) rules s line) as [[[[k text] line1] rest] |] eqn:E1;
      [| eexists; reflexivity].
    apply next_token_rest_lt in E1.
    destruct (tk_eqb k INCLUDE).
    - destruct (next_token (S (length rest)) rules rest line1) as [[[[k2 text2] line2] rest2] |] eqn:E2.
      + apply next_token_rest_lt in E2.
        assert (H2 : length rest2 < fu) by lia.
        destruct (IH rest2 line2 H2) as [r2 Hr2].
        destruct (tk_eqb k2 FNAME).
        * destruct (flookup files (strip_quotes text2)) as [c |] eqn:Ef.
          -- destruct (str_in (strip_quotes text2) active) eqn:Ea.
             ++ rewrite Hr2. cbn [bind]. eexists; reflexivity.
             ++ destruct (Hrec _ _ Ef Ea) as [r1 Hr1]. rewrite Hr1. cbn [bind]. rewrite Hr2. cbn [bind].
                eexists; reflexivity.
          -- rewrite Hr2. cbn [bind]. eexists; reflexivity.
        * rewrite Hr2. cbn [bind]. eexists; reflexivity.
      + rewrite sloop_nil by lia. cbn [bind]. eexists; reflexivity.
    - assert (H1 : length rest < fu) by lia.
      destruct (IH rest line1 H1) as [r Hr]. rewrite Hr. cbn [bind]. eexists; reflexivity.
  Qed.

  (* every token kind comes from next_token; every error is one of the four scan errors *)
  Lemma sloop_forall : forall (Pk : tkind -> Prop) (PE : perr -> Prop),
    (forall fuel s line k text l' rest,
        next_token fuel rules s line = Some (k, text, l', rest) -> Pk k) ->
    (forall l, PE (mkPerr e_unknown_token fn l [])) ->
    (forall l, PE (mkPerr e_expected_filename fn l [])) ->
    (forall l g, flookup files g = None -> PE (mkPerr e_file_not_found fn l g)) ->
    (forall l, PE (mkPerr e_recursive_include fn l [])) ->
    (forall g c r, flookup files g = Some c -> recur (g :: active) g c = Ok r ->
                   Forall (fun t => Pk (tk t)) (fst r) /\ Forall PE (snd r)) ->
    forall fu s line r, sloop rules files recur active fn fu s line = Ok r ->
      Forall (fun t => Pk (tk t)) (fst r) /\ Forall PE (snd r).
  Proof.
    intros Pk PE HPk HE1 HE2 HE3 HE4 Hrec.
    induction fu as [| fu IH]; intros s line r H; [rewrite sloop_O in H; discriminate |].
    rewrite sloop_S in H. unfold sstep in H.
    destruct (next_token (S (length s)) rules s line) as [[[[k text] line1] rest] |] eqn:E1.
    2:{ injection H as H; subst r. split; constructor. }
    destruct (tk_eqb k INCLUDE).
    - destruct (next_token (S (length rest)) rules rest line1) as [[[[k2 text2] line2] rest2] |] eqn:E2.
      + destruct (tk_eqb k2 FNAME).
        * destruct (flookup files (strip_quotes text2)) as [c |] eqn:Ef.
          -- destruct (str_in (strip_quotes text2) active) eqn:Ea.
             ++ apply bind_Ok_inv in H. destruct H as [r' [Hr' H]]. injection H as H; subst r.
                apply IH in Hr'. destruct Hr' as [Ht He]. cbn [fst snd].
                split; [exact Ht | constructor; [apply HE4 | exact He]].
             ++ apply bind_Ok_inv in H. destruct H as [r1 [Hr1 H]].
                apply bind_Ok_inv in H. destruct H as [r2 [Hr2 H]]. injection H as H; subst r.
                apply (Hrec _ _ _ Ef) in Hr1. destruct Hr1 as [Ht1 He1].
                apply IH in Hr2. destruct Hr2 as [Ht2 He2]. cbn [fst snd].
                split; apply Forall_app; split; assumption.
          -- apply bind_Ok_inv in H. destruct H as [r' [Hr' H]]. injection H as H; subst r.
             apply IH in Hr'. destruct Hr' as [Ht He]. cbn [fst snd].
             split; [exact Ht | constructor; [apply HE3; exact Ef | exact He]].
        * apply bind_Ok_inv in H. destruct H as [r' [Hr' H]]. injection H as H; subst r.
          apply IH in Hr'. destruct Hr' as [Ht He]. cbn [fst snd].
          split; [exact Ht | constructor; [apply HE2 | exact He]].
      + apply bind_Ok_inv in H. destruct H as [r' [Hr' H]]. injection H as H; subst r.
        apply IH in Hr'. destruct Hr' as [Ht He]. cbn [fst snd].
        split; [exact Ht | constructor; [apply HE2 | exact He]].
    - apply bind_Ok_inv in H. destruct H as [r' [Hr' H]]. injection H as H; subst r.
      apply IH in Hr'. destruct Hr' as [Ht He]. cbn [fst snd]. split.
      + constructor; [cbn [tk]; eapply HPk; exact E1 | exact Ht].
      + destruct (tk_eqb k UNKNOWN); cbn [app]; [constructor; [apply HE1 | exact He] | exact He].
  Qed.

  (* without include directives and unknown tokens the loop just labels the tokens of lex_all *)
  Lemma sloop_plain : forall fu f' s line, length s < fu -> length s < f' ->
    Forall (fun t => fst (fst t) <> INCLUDE /\ fst (fst t) <> UNKNOWN) (lex_all f' rules s line) ->
    exists toks, sloop rules files recur active fn fu s line = Ok (toks, []).
  Proof.
    induction fu as [| fu IH]; intros f' s line Hfu Hf' Hall; [lia |].
    destruct f' as [| f']; [lia |].
    rewrite sloop_S. unfold sstep. rewrite lex_all_S in Hall.
    destruct (next_token (S (length s)) rules s line) as [[[[k text] line1] rest] |] eqn:E1;
      [| eexists; reflexivity].
    apply next_token_rest_lt in E1.
    inversion Hall as [| x l Hx Hl]; subst x l. cbn [fst] in Hx. destruct Hx as [Hni Hnu].
    rewrite (tk_eqb_neq _ _ Hni), (tk_eqb_neq _ _ Hnu).
    assert (H1 : length rest < fu) by lia. assert (H2 : length rest < f') by lia.
    destruct (IH f' rest line1 H1 H2 Hl) as [toks Htoks]. rewrite Htoks. cbn [bind fst snd app].
    eexists; reflexivity.
  Qed.
End LoopFacts.

(* ================================================================================================ *)
(* 3. C14: scan = splice                                                                            *)
(* ================================================================================================ *)

Lemma sloop_sgo : forall rules files recur1 recur2 active fn,
  (forall fuel s line k text l' rest,
      next_token fuel rules s line = Some (k, text, l', rest) -> tk_eqb k UNKNOWN = false) ->
  (forall g c, flookup files g = Some c -> recur1 (g :: active) g c = recur2 (g :: active) g) ->
  forall fu f' s line, length s < fu -> length s < f' ->
    sloop rules files recur1 active fn fu s line = sgo files recur2 active fn (lex_all f' rules s line).
Proof.
  intros rules files recur1 recur2 active fn Hunk Hrec.
  induction fu as [| fu IH]; intros f' s line Hfu Hf'; [lia |].
  destruct f' as [| f']; [lia |].
  rewrite sloop_S, lex_all_S. unfold sstep.
  destruct (next_token (S (length s)) rules s line) as [[[[k text] line1] rest] |] eqn:E1;
    [| rewrite sgo_nil; reflexivity].
  pose proof (Hunk _ _ _ _ _ _ _ E1) as Hu.
  apply next_token_rest_lt in E1.
  rewrite sgo_cons.
  destruct (tk_eqb k INCLUDE).
  - destruct f' as [| f'']; [lia |].
    rewrite lex_all_S.
    destruct (next_token (S (length rest)) rules rest line1) as [[[[k2 text2] line2] rest2] |] eqn:E2.
    + apply next_token_rest_lt in E2.
      assert (H1 : length rest2 < fu) by lia. assert (H2 : length rest2 < f'') by lia.
      rewrite (IH f'' rest2 line2 H1 H2).
      destruct (tk_eqb k2 FNAME); [| reflexivity].
      unfold fcontains.
      destruct (flookup files (strip_quotes text2)) as [c |] eqn:Ef; cbn [negb]; [| reflexivity].
      destruct (str_in (strip_quotes text2) active); [reflexivity |].
      rewrite (Hrec _ _ Ef). reflexivity.
    + rewrite sloop_nil by lia. reflexivity.
  - rewrite Hu. assert (H1 : length rest < fu) by lia. assert (H2 : length rest < f') by lia.
    rewrite (IH f' rest line1 H1 H2). reflexivity.
Qed.

Lemma scan_file_splice : forall rules files,
  (forall fuel s line k text l' rest,
      next_token fuel rules s line = Some (k, text, l', rest) -> tk_eqb k UNKNOWN = false) ->
  forall d active fn c, flookup files fn = Some c ->
    scan_file rules d files active fn c = splice rules files d active fn.
Proof.
  intros rules files Hunk. induction d as [| d IH]; intros active fn c Hf.
  - reflexivity.
  - rewrite scan_file_S, splice_S. unfold file_tokens. rewrite Hf. unfold lex.
    apply sloop_sgo; [exact Hunk | | lia | lia].
    intros g c' Hg. apply IH. exact Hg.
Qed.

Lemma scan_file_forall : forall rules files (Pk : tkind -> Prop) (PE : perr -> Prop),
  (forall fuel s line k text l' rest,
      next_token fuel rules s line = Some (k, text, l', rest) -> Pk k) ->
  (forall fn l, PE (mkPerr e_unknown_token fn l [])) ->
  (forall fn l, PE (mkPerr e_expected_filename fn l [])) ->
  (forall fn l g, flookup files g = None -> PE (mkPerr e_file_not_found fn l g)) ->
  (forall fn l, PE (mkPerr e_recursive_include fn l [])) ->
  forall d active fn c r, scan_file rules d files active fn c = Ok r ->
    Forall (fun t => Pk (tk t)) (fst r) /\ Forall PE (snd r).
Proof.
  intros rules files Pk PE HPk HE1 HE2 HE3 HE4.
  induction d as [| d IH]; intros active fn c r H.
  - rewrite scan_file_O in H. discriminate.
  - rewrite scan_file_S in H.
    eapply (sloop_forall rules files (scan_file rules d files) active fn Pk PE); eauto.
Qed.

Lemma scan_file_ok : forall rules files d active fn c,
  NoDup active -> (forall x, In x active -> flookup files x <> None) ->
  length files < d + length active ->
  exists r, scan_file rules d files active fn c = Ok r.
Proof.
  intros rules files. induction d as [| d IH]; intros active fn c Hnd Hin Hlen.
  - pose proof (active_bound files active Hnd Hin). lia.
  - rewrite scan_file_S. apply sloop_ok; [| lia].
    intros g c' Hg Ha. apply IH.
    + constructor; [| exact Hnd]. intro Hi. apply str_in_iff in Hi. rewrite Hi in Ha. discriminate.
    + intros x [Hx | Hx]; [subst x; rewrite Hg; discriminate | apply Hin; exact Hx].
    + cbn [length]. lia.
Qed.

Lemma eof_token_shape : forall files main toks,
  exists fn l, eof_token files main toks = mkTok T_EOF EOF_text fn l.
Proof.
  intros files main toks. unfold eof_token.
  destruct (rev toks) as [| last tl]; [destruct (fcontains files main) |]; eexists; eexists; reflexivity.
Qed.


(* ================================================================================================ *)
(* 5. C15                                                                                           *)
(* ================================================================================================ *)

Lemma C15_terminates_proof : C15_terminates_stmt.
Proof.
  intros rules files main. unfold scan, scan_fuel.
  destruct (flookup files main) as [c |] eqn:Ef; [| eexists; reflexivity].
  destruct (scan_file_ok rules files (S (length files)) [main] main c) as [r Hr].
  - constructor; [intros [] | constructor].
  - intros x [Hx | []]. subst x. rewrite Ef. discriminate.
  - cbn [length]. lia.
  - rewrite Hr. cbn [bind]. eexists; reflexivity.
Qed.

Lemma C15_missing_sound_proof : C15_missing_sound_stmt.
Proof.
  intros rules files main toks errs H er He. unfold scan, scan_fuel in H.
  destruct (flookup files main) as [c |] eqn:Ef.
  - apply bind_Ok_inv in H. destruct H as [r [Hr H]]. injection H as Ht Hes. subst errs.
    eapply (scan_file_forall rules files (fun _ => True)
              (fun x => (pe_kind x = e_file_not_found -> fcontains files (pe_request x) = false) /\
                        pe_kind x <> e_main_not_found)) in Hr.
    + destruct Hr as [_ Hr]. rewrite Forall_forall in Hr. destruct (Hr _ He) as [H1 H2].
      split; [exact H1 | intro H3; contradiction].
    + intros; exact I.
    + intros fn l. cbn [pe_kind pe_request]. split; [discriminate | discriminate].
    + intros fn l. cbn [pe_kind pe_request]. split; [discriminate | discriminate].
    + intros fn l g Hg. cbn [pe_kind pe_request]. split; [| discriminate].
      intros _. unfold fcontains. rewrite Hg. reflexivity.
    + intros fn l. cbn [pe_kind pe_request]. split; [discriminate | discriminate].
  - injection H as Ht Hes. subst errs. destruct He as [He | []]. subst er.
    cbn [pe_kind pe_request]. split; [discriminate |].
    intros _. split; [reflexivity |]. unfold fcontains. rewrite Ef. reflexivity.
Qed.

Lemma C15_no_include_proof : C15_no_include_stmt.
Proof.
  intros rules files main c Hf Hall. unfold scan, scan_fuel. rewrite Hf.
  rewrite scan_file_S. unfold lex in Hall.
  destruct (sloop_plain rules files (scan_file rules (length files) files) [main] main
              (S (length c)) (S (length c)) c 1%Z) as [toks Htoks]; [lia | lia | exact Hall |].
  rewrite Htoks. cbn [bind fst snd]. eexists; reflexivity.
Qed.

(* ================================================================================================ *)


Print Assumptions scan_file_splice.
Print Assumptions C15_terminates_proof.
Print Assumptions C15_missing_sound_proof.
Print Assumptions C15_no_include_proof.
