(* SpecGrammar.v — the documented LL(1) grammar of the language (parse.cpp:36-65, with WHILE id != 0 as the
   parser and the property text have it) as derivation relations over token kinds.  C04 is stated against it. *)
From Theo Require Import Base Tokens.

(* VALUE / VARGS *)
Inductive DValue : list tkind -> Prop :=
| DV_id : DValue [ID]
| DV_int : DValue [INT]
| DV_run : forall args, DVargs args -> DValue ([RUN; ID; WITH] ++ args ++ [END])
with DVargs : list tkind -> Prop :=
| DA_none : DVargs []
| DA_some : forall v more, DValue v -> DMvargs more -> DVargs (v ++ more)
with DMvargs : list tkind -> Prop :=
| DM_none : DMvargs []
| DM_more : forall v more, DValue v -> DMvargs more -> DMvargs (ARGSEP :: v ++ more).

(* P / MOREP *)
Inductive DP : list tkind -> Prop :=
| DP_assign : forall v m, DValue v -> DMoreP m -> DP ([ID; ASSIGN] ++ v ++ m)
| DP_label : forall p m, DP p -> DMoreP m -> DP ([ID; LABELDEC] ++ p ++ m)
| DP_loop : forall b m, DP b -> DMoreP m -> DP ([LOOP; ID; DO] ++ b ++ [END] ++ m)
| DP_while : forall b m, DP b -> DMoreP m -> DP ([WHILE; ID; NEQ_ZERO; DO] ++ b ++ [END] ++ m)
| DP_goto : forall m, DMoreP m -> DP ([GOTO; ID] ++ m)
| DP_if : forall m, DMoreP m -> DP ([IF; ID; EQ; INT; THEN; GOTO; ID] ++ m)
| DP_stop : forall m, DMoreP m -> DP (STOP :: m)
with DMoreP : list tkind -> Prop :=
| DMP_none : DMoreP []
| DMP_more : forall p, DP p -> DMoreP (PROGSEP :: p).

(* ARGS / PORTS *)
Inductive DArgs : list tkind -> Prop :=
| DAr_one : DArgs [ID]
| DAr_more : forall r, DArgs r -> DArgs (ID :: ARGSEP :: r).
Inductive DPorts : list tkind -> Prop :=
| DPo_none : DPorts []
| DPo_in : forall a, DArgs a -> DPorts (IN :: a)
| DPo_inout : forall a, DArgs a -> DPorts (IN :: a ++ [OUT; ID]).

(* S *)
Inductive DS : list tkind -> Prop :=
| DS_main : forall p, DP p -> DS p
| DS_prog : forall ports body rest, DPorts ports -> DP body -> DS rest ->
    DS ([PROGRAM; ID] ++ ports ++ [DO] ++ body ++ [END] ++ rest).
