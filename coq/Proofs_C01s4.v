(* Proofs_C01s4.v — C01, stage 4: the whole language (C01Stages4.v): PROGRAM definitions with parameters and an OUT
   variable, RUN calls with values as arguments (nested calls included), and in every body the statement language of
   stage 3.
     C01_pipeline_proof        : C01_pipeline_stmt        (as stated: from source text, both clauses)
     C01_parser_shape4_proof   : C01_parser_shape4_stmt   (as stated; in Proofs_C01s4q.v)
     C01_calls_partial         C01_calls_unguarded_stmt        with the one extra hypothesis  headers4 root = true
     C01_calls_budget_partial  C01_calls_budget_unguarded_stmt with the one extra hypothesis  headers4 root = true
     C01_calls_instance        the hypotheses are satisfiable (the source of the task, 8393 reference steps, STOP in a
                               called program, two live activations)
   headers4 (Proofs_C01s4n.v): every top-level PROGRAM node stands on the line of the sequence node above it (or in
   the hidden macro file).  Every tree the parser builds has this property (parser_headers4, Proofs_C01s4q.v), hence
   the pipeline statement needs no extra hypothesis.  Without it C01_calls_budget_unguarded_stmt is FALSE
   (C01_calls_budget_counterexample, Proofs_C01s4x.v): a stop for the sequence node's line is left in front of the jump
   over the definition, a label at the start of the main program is bound to that stop by the flattener and to the
   main entry by the generator, and the reference run then takes more steps than the VM executes instructions.
   C01_calls_unguarded_stmt without headers4 is not covered here (the reference machine stutters on such stops; it is believed
   true because a halted VM stays halted).
   Assembly: the dynamic part (Proofs_C01s4a-f.v: sim_all), the static part (Proofs_C01s4g-n.v: one definition,
   the walk over all definitions and the main program), every jump on the to-do list (Proofs_C01s4r.v), the end of
   gen (Proofs_C01s4o/p.v), the parser (Proofs_C01s4q.v).  The initial position constants of generator and
   flattener (root_ctx, root_ctx_name and their line) are used by name only (the initial flattener state is taken
   from abstract_source as it unfolds, its position is compared with gpos ginit by conversion). *)
From Coq Require Import List ZArith NArith Lia Bool.
From Theo Require Import Base Tokens Errors MacroExtract Parser VMModel VMSpec GenModel Compile RefSem RefSemChk C01Statements C01Stages Gen_Consts Proofs_VM_mem Proofs_VM_dbg Proofs_Gen0 Proofs_Gen Proofs_Sem Proofs_C01a Proofs_C01b Proofs_C01.
From Theo Require Import C01Stages3 C01Stages4 Proofs_C01s2a Proofs_C01s2b Proofs_C01s2c Proofs_C01s2d Proofs_C01s2 Proofs_C01s3a Proofs_C01s3b Proofs_C01s3c Proofs_C01s3d Proofs_C01s3
                         Proofs_C01s4a Proofs_C01s4b Proofs_C01s4c Proofs_C01s4d Proofs_C01s4e Proofs_C01s4f Proofs_C01s4g Proofs_C01s4h Proofs_C01s4i Proofs_C01s4j Proofs_C01s4k Proofs_C01s4l Proofs_C01s4m Proofs_C01s4n Proofs_C01s4o Proofs_C01s4p Proofs_C01s4q.
From Theo Require Proofs_Front.
Import ListNotations.
Local Open Scope Z_scope.

(* ================================================================================================ *)
(* 1. the start of the VM                                                                           *)
(* ================================================================================================ *)
Lemma calls_start root r rs :
  canonical4 root = true -> headers4 root = true -> lexable_names root = true ->
  gen true [] (Some root) = Ok r -> abstract_source (Some root) = Some rs ->
  exists RI FT kroot rt (n0 : nat) s1 d0 act0,
    (forall j e sz mi, FT j = Some (e, sz, mi) -> e = ri_P0 (RI j) /\ sz = ri_N (RI j) /\ mi = ri_mi (RI j)) /\
    (forall k r', nth_error rs k = Some r' -> routine_ok RI (code (gr_prog r)) FT k r') /\
    MapsOK rs RI (stack_maps (gr_prog r)) /\
    length rs = S kroot /\ nth_error rs kroot = Some rt /\
    isDone (init (gr_prog r)) = Ok false /\
    vm_run (S n0) (init (gr_prog r)) = Ok (vm_at s1 (pm4 RI kroot rt 0) d0) /\
    Top RI (code (gr_prog r)) kroot s1 act0 [] /\ prog s1 = gr_prog r /\
    SR (ri_rm (RI kroot)) (data_start act0) (ri_N (RI kroot)) (mkRAct [] []) d0 /\
    LowOK rs RI (data_start act0) [] [] d0.
Proof.
  intros Hst Hh Hlex Hgen Habs.
  destruct (calls_setup root r rs Hst Hh Hlex Hgen Habs)
    as (RI & FT & kroot & rt & pre & FT_ok & ROK & HM & Hlen & Hk & Z0 & Hpre).
  set (prg := gr_prog r) in *. set (C6 := code prg) in *.
  set (N := ri_N (RI kroot)) in *. set (mi := ri_mi (RI kroot)) in *.
  pose proof (ROK _ _ Hk) as [OKk _ _ _ HN]. fold N in OKk, HN.
  set (d0 := zrepeat 0 (Z.to_nat N)). set (act0 := mkAct 0 N 0 (-1) mi).
  set (s1 := vm_st (init prg) 1 d0 [act0]).
  assert (E1 : vm_run 1 (init prg) = Ok s1) by exact (st_prepare (init prg) 0 [] [] N mi 0 Z0).
  pose proof (Hpre s1 d0 eq_refl) as E2. change (vm_at s1 1 d0) with s1 in E2.
  exists RI, FT, kroot, rt, (length pre), s1, d0, act0.
  split; [exact FT_ok|]. split; [exact ROK|]. split; [exact HM|]. split; [exact Hlen|]. split; [exact Hk|].
  split; [unfold isDone, init; cbn [prog ip]; fold prg; fold C6; rewrite Z0; reflexivity|].
  split.
  { change (S (length pre)) with (1 + length pre)%nat. eapply vm_run_trans; [exact E1|].
    unfold pm4, pm_of4. cbn [Z.to_nat boff4]. rewrite Z.add_0_r. exact E2. }
  split; [repeat split|]. split; [reflexivity|]. split.
  - exact (SR_start _ _ OKk HN).
  - split; [constructor | intros a []].
Qed.

(* ================================================================================================ *)
(* 2. the two statements, for trees whose definition headers stand on the line of their sequence    *)
(*    node (headers4); this holds of every parsed tree                                              *)
(* ================================================================================================ *)
Lemma C01_calls_partial root r rs fuel rviews steps trace :
  canonical4 root = true -> headers4 root = true -> lexable_names root = true ->
  gen true [] (Some root) = Ok r -> gr_ok r = true ->
  abstract_source (Some root) = Some rs ->
  run_ref_chk fuel rs = OStop rviews steps trace ->
  sim_conclusion r rviews steps.
Proof.
  intros Hst Hh Hlex Hgen _ Habs Hrun.
  destruct (calls_start root r rs Hst Hh Hlex Hgen Habs)
    as (RI & FT & kroot & rt & n0 & s1 & d0 & act0 & FT_ok & ROK & HM & Hlen & Hk & _ & E12 & HT & Hprog & HS & HL).
  unfold run_ref_chk in Hrun. rewrite Hlen in Hrun.
  pose proof (sim_all rs RI (code (gr_prog r)) FT FT_ok ROK fuel kroot rt [] (mkRAct [] []) 0 0%nat [] s1 d0 act0 [] Hk HT HS HL) as HR.
  rewrite Hrun in HR. cbn [Res] in HR. destruct HR as (n & s' & Hvm & Hdone & HFV & Hsteps).
  assert (Hp' : prog s' = gr_prog r).
  { destruct (vm_run_prog_en _ _ _ Hvm) as [A _]. rewrite A. exact Hprog. }
  destruct (frames_views rs RI s' ltac:(rewrite Hp'; exact HM) _ _ HFV) as (vmv & Hviews & Hagree).
  exists (S n0 + n)%nat, s', vmv.
  split; [eapply vm_run_trans; eauto|]. split; [exact Hdone|]. split; [exact Hviews|]. split; [exact Hagree | lia].
Qed.

Lemma C01_calls_budget_partial root r rs n s :
  canonical4 root = true -> headers4 root = true -> lexable_names root = true ->
  gen true [] (Some root) = Ok r -> gr_ok r = true ->
  abstract_source (Some root) = Some rs ->
  run_ref_chk n rs = OFuel ->
  vm_run n (init (gr_prog r)) = Ok s -> isDone s = Ok false.
Proof.
  intros Hst Hh Hlex Hgen _ Habs Hrun Hvm.
  destruct (calls_start root r rs Hst Hh Hlex Hgen Habs)
    as (RI & FT & kroot & rt & n0 & s1 & d0 & act0 & FT_ok & ROK & HM & Hlen & Hk & Hd0 & E12 & HT & Hprog & HS & HL).
  unfold run_ref_chk in Hrun. rewrite Hlen in Hrun.
  destruct n as [|f].
  - inversion Hvm; subst s. exact Hd0.
  - pose proof (sim_all rs RI (code (gr_prog r)) FT FT_ok ROK (S f) kroot rt [] (mkRAct [] []) 0 0%nat [] s1 d0 act0 [] Hk HT HS HL) as HR.
    rewrite Hrun in HR. cbn [Res] in HR. destruct (HR ltac:(lia)) as (m & s' & Hm & Hvm' & Hd).
    assert (Hall : vm_run (S n0 + m) (init (gr_prog r)) = Ok s') by (eapply vm_run_trans; eauto).
    exact (not_done_earlier (S f) (S n0 + m) _ s s' ltac:(lia) Hvm Hall Hd).
Qed.

(* ================================================================================================ *)
(* 3. the hypotheses are satisfiable: a parsed source with three definitions, nested calls, a call  *)
(*    in a loop, jumps, and a STOP inside a called program (two live activations at the end)        *)
(* ================================================================================================ *)
Definition ex4_src : str :=
  [80; 82; 79; 71; 82; 65; 77; 32; 97; 100; 100; 32; 73; 78; 32; 97; 44; 32; 98; 32; 79; 85; 84; 32; 114; 32;
   68; 79; 10; 32; 32; 114; 32; 58; 61; 32; 97; 59; 10; 32; 32; 76; 79; 79; 80; 32; 98; 32; 68; 79; 10; 32; 32;
   32; 32; 114; 32; 58; 61; 32; 114; 32; 43; 32; 49; 10; 32; 32; 69; 78; 68; 10; 69; 78; 68; 10; 80; 82; 79;
   71; 82; 65; 77; 32; 116; 119; 105; 99; 101; 32; 73; 78; 32; 97; 32; 68; 79; 10; 32; 32; 120; 48; 32; 58; 61;
   32; 82; 85; 78; 32; 97; 100; 100; 32; 87; 73; 84; 72; 32; 97; 44; 32; 97; 32; 69; 78; 68; 10; 69; 78; 68;
   10; 80; 82; 79; 71; 82; 65; 77; 32; 104; 97; 108; 116; 32; 68; 79; 10; 32; 32; 83; 84; 79; 80; 10; 69; 78;
   68; 10; 120; 32; 58; 61; 32; 51; 59; 10; 121; 32; 58; 61; 32; 82; 85; 78; 32; 97; 100; 100; 32; 87; 73; 84;
   72; 32; 82; 85; 78; 32; 116; 119; 105; 99; 101; 32; 87; 73; 84; 72; 32; 120; 32; 69; 78; 68; 44; 32; 52; 32;
   69; 78; 68; 59; 10; 108; 49; 58; 32; 122; 32; 58; 61; 32; 122; 32; 43; 32; 49; 59; 10; 73; 70; 32; 122; 32;
   61; 32; 50; 32; 84; 72; 69; 78; 32; 71; 79; 84; 79; 32; 108; 50; 59; 10; 71; 79; 84; 79; 32; 108; 49; 59;
   10; 108; 50; 58; 32; 87; 72; 73; 76; 69; 32; 121; 32; 33; 61; 32; 48; 32; 68; 79; 10; 32; 32; 121; 32; 58;
   61; 32; 121; 32; 45; 32; 49; 59; 10; 32; 32; 119; 32; 58; 61; 32; 82; 85; 78; 32; 116; 119; 105; 99; 101;
   32; 87; 73; 84; 72; 32; 119; 32; 43; 32; 49; 32; 69; 78; 68; 10; 69; 78; 68; 59; 10; 117; 32; 58; 61; 32;
   82; 85; 78; 32; 104; 97; 108; 116; 32; 87; 73; 84; 72; 32; 69; 78; 68; 59; 10; 118; 32; 58; 61; 32; 55]%N.

Definition ex4_check : bool :=
  match Compile.parse [(ex_name, ex4_src)] ex_name with
  | Ok p =>
      match pr_root p with
      | Some root =>
          match gen true [] (Some root), abstract_source (Some root) with
          | Ok r, Some rs =>
              match run_ref_chk 5000 rs with
              | OStop rviews steps trace =>
                  pr_ok p && canonical4 root && lexable_names root && headers4 root &&
                  gr_ok r && Nat.eqb steps 8393 && Nat.eqb (length rviews) 2
              | _ => false
              end
          | _, _ => false
          end
      | None => false
      end
  | _ => false
  end.

Lemma ex4_check_true : ex4_check = true.
Proof. vm_compute. reflexivity. Qed.

Lemma C01_calls_instance :
  match Compile.parse [(ex_name, ex4_src)] ex_name with
  | Ok p =>
      match pr_root p with
      | Some root =>
          match gen true [] (Some root), abstract_source (Some root) with
          | Ok r, Some rs =>
              match run_ref_chk 5000 rs with
              | OStop rviews steps trace =>
                  pr_ok p = true /\ canonical4 root = true /\ lexable_names root = true /\
                  headers4 root = true /\
                  steps = 8393%nat /\ length rviews = 2%nat /\
                  sim_conclusion r rviews steps /\
                  (forall n s, run_ref_chk n rs = OFuel -> vm_run n (init (gr_prog r)) = Ok s -> isDone s = Ok false)
              | _ => False
              end
          | _, _ => False
          end
      | None => False
      end
  | _ => False
  end.
Proof.
  pose proof ex4_check_true as H. unfold ex4_check in H.
  destruct (Compile.parse [(ex_name, ex4_src)] ex_name) as [p| |]; [|exfalso; discriminate H..].
  destruct (pr_root p) as [root|]; [|exfalso; discriminate H].
  destruct (gen true [] (Some root)) as [r| |] eqn:Eg; [|exfalso; discriminate H..].
  destruct (abstract_source (Some root)) as [rs|] eqn:Ea; [|exfalso; discriminate H].
  destruct (run_ref_chk 5000 rs) as [? ? ?|rviews steps trace| |] eqn:Hrun; [exfalso; discriminate H| |exfalso; discriminate H..].
  apply andb_prop in H; destruct H as [H H8].
  apply andb_prop in H; destruct H as [H H7].
  apply andb_prop in H; destruct H as [H H6].
  apply andb_prop in H; destruct H as [H H4].
  apply andb_prop in H; destruct H as [H H3].
  apply andb_prop in H; destruct H as [H1 H2].
  apply Nat.eqb_eq in H7. apply Nat.eqb_eq in H8.
  split; [exact H1|]. split; [exact H2|]. split; [exact H3|]. split; [exact H4|].
  (split; [exact H7|]). split; [exact H8|]. split.
  - eapply C01_calls_partial; eauto.
  - intros n s Hf Hv. eapply C01_calls_budget_partial; eauto.
Qed.

(* ================================================================================================ *)
(* 4. the pipeline: both extra conditions hold of every parsed tree                                 *)
(* ================================================================================================ *)
Lemma C01_pipeline_proof : C01_pipeline_stmt.
Proof.
  intros files main c p root rs Hc Hok Hp Hroot Hst Hlex Habs.
  unfold compile, compile_budget in Hc. unfold parse in Hp.
  apply Proofs_Front.pp_bind_inv in Hc. destruct Hc as (p' & Hp' & Hc). rewrite Hp in Hp'. inversion Hp'; subst p'; clear Hp'.
  apply Proofs_Front.pp_bind_inv in Hc. destruct Hc as (g & Hg & Hc). inversion Hc; subst c; clear Hc.
  cbn [cr_ok cr_prog] in *.
  destruct (C02_errors_forwarded_proof _ _ _ _ Hp) as [_ FW].
  assert (PO : pr_ok p = true).
  { destruct (pr_ok p) eqn:E; [reflexivity|]. destruct (FW g Hg eq_refl) as [Cc _]. congruence. }
  clear FW.
  pose proof (parse_budget_ok _ _ _ _ Hp) as PE. rewrite PO in PE, Hg.
  destruct (pr_errors p) as [|e es] eqn:EE; [|discriminate PE]. clear PE.
  rewrite Hroot in Hg.
  unfold parse_budget in Hp. cbv zeta in Hp.
  apply Proofs_Front.pp_bind_inv in Hp. destruct Hp as (sr & Hs & Hp). destruct sr as [toks serrs].
  apply Proofs_Front.pp_bind_inv in Hp. destruct Hp as (xr & Hx & Hp). destruct xr as [[xerrs out] macros].
  apply Proofs_Front.pp_bind_inv in Hp. destruct Hp as (ar & Ha & Hp). destruct ar as [aerrs toks2].
  apply Proofs_Front.pp_bind_inv in Hp. destruct Hp as (pr & Hpr & Hp). destruct pr as [root' perrs].
  inversion Hp; subst p; clear Hp. cbn [pr_root pr_errors pr_ok] in *. subst root'.
  apply app_eq_nil in EE. destruct EE as [-> _].
  pose proof (parser_headers4 _ _ _ Hpr) as Hh.
  split.
  - intros fuel rviews steps trace Hrun.
    exact (C01_calls_partial root g rs fuel rviews steps trace Hst Hh Hlex Hg Hok Habs Hrun).
  - intros n s Hrun Hvm.
    exact (C01_calls_budget_partial root g rs n s Hst Hh Hlex Hg Hok Habs Hrun Hvm).
Qed.

Print Assumptions C01_calls_partial.
Print Assumptions C01_calls_budget_partial.
Print Assumptions C01_calls_instance.
Print Assumptions C01_pipeline_proof.
Print Assumptions C01_parser_shape4_proof.
