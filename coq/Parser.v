(* Parser.v — model of the recursive-descent parser of Compiler/src/parse.cpp (10-327): ParseState
   (lookahead, match with panic-mode recovery, matchmk), the ten grammar functions and
   expected_end_or_semicolon.  Mutual recursion is rendered as one function on explicit fuel that
   dispatches on the name of the C++ function; `pos->` on the end iterator is UB ub_iter, a
   dereferenced NULL node is UB ub_null.  Error messages are abstracted to kinds (Errors.v). *)
From Theo Require Import Base Tokens Errors.
Local Open Scope Z_scope.

Inductive ntype :=
| N_SPLIT | N_NAME | N_NUMBER | N_CALL | N_ASSIGN | N_LABEL | N_LOOP | N_WHILE | N_GOTO | N_IF
| N_PROGRAM | N_MARK | N_EQ | N_STOP.

(* Node::Type numbering (ast.hpp) *)
Definition ntype_num (t : ntype) : Z :=
  match t with
  | N_SPLIT => 0 | N_NAME => 1 | N_NUMBER => 2 | N_CALL => 5 | N_ASSIGN => 6 | N_LABEL => 7
  | N_LOOP => 8 | N_WHILE => 9 | N_GOTO => 10 | N_IF => 11 | N_PROGRAM => 12 | N_MARK => 13
  | N_EQ => 14 | N_STOP => 15
  end.

Inductive node := Node (t : ntype) (line : Z) (file : str) (tok : str) (l r : option node).
Definition n_type (n : node) := match n with Node t _ _ _ _ _ => t end.
Definition n_line (n : node) := match n with Node _ l _ _ _ _ => l end.
Definition n_file (n : node) := match n with Node _ _ f _ _ _ => f end.
Definition n_tok (n : node) := match n with Node _ _ _ t _ _ => t end.
Definition n_left (n : node) := match n with Node _ _ _ _ l _ => l end.
Definition n_right (n : node) := match n with Node _ _ _ _ _ r => r end.

(* SyntaxError *)
Record serr := mkSerr { se_line : Z; se_file : str; se_kind : ekind }.

Record pst := mkP { p_rest : list token; p_errs : list serr }.

Definition cur (s : pst) : result token := of_opt ub_iter (hd_error (p_rest s)).
Definition la (s : pst) : result tkind := do t <- cur s; Ok (tk t).
Definition perror (s : pst) (k : ekind) : result pst :=
  do t <- cur s; Ok (mkP (p_rest s) (p_errs s ++ [mkSerr (tline t) (tfile t) k])).

Definition is_sync (k : tkind) : bool := match k with PROGSEP | T_EOF => true | _ => false end.
Fixpoint sync (l : list token) : list token :=
  match l with
  | [] => []
  | t :: r => if is_sync (tk t) then l else sync r
  end.

(* ParseState::match *)
Definition pmatch (s : pst) (k : tkind) : result pst :=
  do k0 <- la s;
  do s1 <- (if tk_eqb k0 k then Ok s
            else do s' <- perror s e_expected_token; Ok (mkP (sync (p_rest s')) (p_errs s')));
  do k1 <- la s1;
  match k1 with
  | T_EOF => Ok s1
  | _ => Ok (mkP (tl (p_rest s1)) (p_errs s1))
  end.

(* ParseState::matchmk *)
Definition matchmk (s : pst) (k : tkind) (n : ntype) : result (node * pst) :=
  do t <- cur s;
  do s' <- pmatch s k;
  Ok (Node n (tline t) (tfile t) (ttext t) None None, s').

Definition mk (t : ntype) (like : node) (l r : option node) : node :=
  Node t (n_line like) (n_file like) [] l r.

Inductive pfn := fS | fPORTS | fOPORTS | fARGS | fMARGS | fP | fMOREP | fVALUE | fVARGS | fMVARGS | fEEOS.

Definition is_value_start (k : tkind) : bool := match k with ID | INT | RUN => true | _ => false end.

Fixpoint pcall (fuel : nat) (f : pfn) (s : pst) : result (option node * pst) :=
  match fuel with
  | O => Fuel
  | S fu =>
      let call := pcall fu in
      do k <- la s;
      match f with
      | fS =>
          match k with
          | PROGRAM =>
              do s1 <- pmatch s PROGRAM;
              do r <- matchmk s1 ID N_NAME; let '(name, s2) := r in
              do r <- call fPORTS s2; let '(port, s3) := r in
              do s4 <- pmatch s3 DO;
              do r <- call fP s4; let '(body, s5) := r in
              do r <- matchmk s5 END N_NAME; let '(e, s6) := r in
              do r <- call fS s6; let '(more, s7) := r in
              Ok (Some (mk N_SPLIT name
                           (Some (mk N_PROGRAM name
                                     (Some (mk N_SPLIT name (Some name) port))
                                     (Some (mk N_SPLIT name body (Some (mk N_MARK e (Some e) None))))))
                           more), s7)
          | _ => call fP s
          end
      | fPORTS =>
          match k with
          | IN =>
              do s1 <- pmatch s IN;
              do r <- call fARGS s1; let '(args, s2) := r in
              do r <- call fOPORTS s2; let '(outs, s3) := r in
              do a <- of_opt ub_null args;
              Ok (Some (mk N_SPLIT a args outs), s3)
          | _ => Ok (None, s)
          end
      | fOPORTS =>
          match k with
          | OUT => do s1 <- pmatch s OUT; do r <- matchmk s1 ID N_NAME; Ok (Some (fst r), snd r)
          | _ => Ok (None, s)
          end
      | fARGS =>
          do r <- matchmk s ID N_NAME; let '(id, s1) := r in
          do r <- call fMARGS s1; let '(more, s2) := r in
          Ok (Some (mk N_SPLIT id (Some id) more), s2)
      | fMARGS =>
          match k with
          | ARGSEP => do s1 <- pmatch s ARGSEP; call fARGS s1
          | _ => Ok (None, s)
          end
      | fEEOS =>
          match k with
          | ID | LOOP | WHILE | GOTO | IF | STOP =>
              do s1 <- perror s e_missing_semi;
              do r <- call fP s1;
              call fEEOS (snd r)
          | PROGRAM =>
              do s1 <- perror s e_prog_not_allowed;
              do r <- call fS s1;
              call fEEOS (snd r)
          | PROGSEP =>
              do r <- call fMOREP s;
              call fEEOS (snd r)
          | _ => Ok (None, s)
          end
      | fP =>
          match k with
          | ID =>
              do r <- matchmk s ID N_NAME; let '(lft, s1) := r in
              do k1 <- la s1;
              do r <-
                match k1 with
                | ASSIGN =>
                    do s2 <- pmatch s1 ASSIGN;
                    do r <- call fVALUE s2;
                    Ok (Some (mk N_ASSIGN lft (Some lft) (fst r)), snd r)
                | LABELDEC =>
                    do s2 <- pmatch s1 LABELDEC;
                    do r <- call fP s2;
                    Ok (Some (mk N_SPLIT lft (Some (mk N_MARK lft (Some lft) None)) (fst r)), snd r)
                | _ =>
                    do s2 <- perror s1 e_expected_assign; Ok (None, s2)
                end;
              let '(comb, s3) := r in
              do r <- call fMOREP s3; let '(more, s4) := r in
              do r <- call fEEOS s4;
              Ok (Some (mk N_SPLIT lft comb more), snd r)
          | LOOP | WHILE =>
              do s1 <- pmatch s k;
              do r <- matchmk s1 ID N_NAME; let '(name, s2) := r in
              do s3 <- (match k with WHILE => pmatch s2 NEQ_ZERO | _ => Ok s2 end);
              do s4 <- pmatch s3 DO;
              do r <- call fP s4; let '(body, s5) := r in
              do r <- matchmk s5 END N_NAME; let '(e, s6) := r in
              let endm := mk N_MARK e (Some e) None in
              let lp := mk (match k with WHILE => N_WHILE | _ => N_LOOP end) name (Some name) body in
              let lp2 := mk N_SPLIT name (Some lp) (Some endm) in
              do r <- call fMOREP s6; let '(more, s7) := r in
              do r <- call fEEOS s7;
              Ok (Some (mk N_SPLIT name (Some lp2) more), snd r)
          | GOTO =>
              do s1 <- pmatch s GOTO;
              do r <- matchmk s1 ID N_NAME; let '(name, s2) := r in
              do r <- call fMOREP s2; let '(more, s3) := r in
              do r <- call fEEOS s3;
              Ok (Some (mk N_SPLIT name (Some (mk N_GOTO name (Some name) None)) more), snd r)
          | IF =>
              do s1 <- pmatch s IF;
              do r <- matchmk s1 ID N_NAME; let '(id, s2) := r in
              do s3 <- pmatch s2 EQ;
              do r <- matchmk s3 INT N_NUMBER; let '(c, s4) := r in
              do s5 <- pmatch s4 THEN;
              do s6 <- pmatch s5 GOTO;
              do r <- matchmk s6 ID N_NAME; let '(go, s7) := r in
              do r <- call fMOREP s7; let '(more, s8) := r in
              do r <- call fEEOS s8;
              let eq := mk N_EQ id (Some id) (Some c) in
              let go' := mk N_GOTO go (Some go) None in
              let t := mk N_IF id (Some eq) (Some go') in
              Ok (Some (mk N_SPLIT id (Some t) more), snd r)
          | STOP =>
              do r <- matchmk s STOP N_STOP; let '(stop, s1) := r in
              do r <- call fMOREP s1; let '(more, s2) := r in
              do r <- call fEEOS s2;
              Ok (Some (mk N_SPLIT stop (Some stop) more), snd r)
          | _ =>
              do s1 <- perror s e_expected_component;
              do r <- call fEEOS s1;
              Ok (None, snd r)
          end
      | fMOREP =>
          match k with
          | PROGSEP =>
              do s1 <- pmatch s PROGSEP;
              do k1 <- la s1;
              do s2 <- (match k1 with END | T_EOF => perror s1 e_excess_semi | _ => Ok s1 end);
              call fP s2
          | _ => Ok (None, s)
          end
      | fVALUE =>
          match k with
          | ID => do r <- matchmk s ID N_NAME; Ok (Some (fst r), snd r)
          | INT => do r <- matchmk s INT N_NUMBER; Ok (Some (fst r), snd r)
          | RUN =>
              do s1 <- pmatch s RUN;
              do r <- matchmk s1 ID N_NAME; let '(id, s2) := r in
              do s3 <- pmatch s2 WITH;
              do r <- call fVARGS s3; let '(vargs, s4) := r in
              do s5 <- pmatch s4 END;
              Ok (Some (mk N_CALL id (Some id) vargs), s5)
          | _ => do s1 <- perror s e_expected_value; Ok (None, s1)
          end
      | fVARGS =>
          if is_value_start k then
            do r <- call fVALUE s; let '(a1, s1) := r in
            do r <- call fMVARGS s1; let '(re, s2) := r in
            do a <- of_opt ub_null a1;
            Ok (Some (mk N_SPLIT a a1 re), s2)
          else Ok (None, s)
      | fMVARGS =>
          match k with
          | ARGSEP =>
              do s1 <- pmatch s ARGSEP;
              do r <- call fVALUE s1; let '(v, s2) := r in
              do r <- call fMVARGS s2; let '(m, s3) := r in
              match v with
              | None => Ok (m, s3)          (* repaired (D2): VALUE has already recorded the error *)
              | Some vn => Ok (Some (mk N_SPLIT vn v m), s3)
              end
          | _ => Ok (None, s)
          end
      end
  end.

(* the driver loop of Theo::parse after macro application (parse.cpp:364-375): S, then while input
   remains: error, skip one token, S again.  Returns root, errors, in order. *)
Fixpoint excess_loop (n : nat) (fuel : nat) (s : pst) : result pst :=
  match n with
  | O => Fuel
  | S n' =>
      match p_rest s with
      | [] => Ok s
      | t :: _ =>
          match tk t with
          | T_EOF => Ok s
          | k =>
              do s1 <- perror s e_excess_input;
              do s2 <- pmatch s1 k;
              do k2 <- la s2;
              match k2 with
              | T_EOF => Ok s2
              | _ => do r <- pcall fuel fS s2; excess_loop n' fuel (snd r)
              end
          end
      end
  end.

Definition parse_fuel (toks : list token) : nat := (8 * length toks + 40)%nat.

Definition parse_tokens (toks : list token) : result (option node * list serr) :=
  let fuel := parse_fuel toks in
  do r <- pcall fuel fS (mkP toks []);
  do s <- excess_loop (S (length toks)) fuel (snd r);
  Ok (fst r, p_errs s).
