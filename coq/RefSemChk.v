(* RefSemChk.v — the reference semantics with CHECKED addition: identical to RefSem.run except that an addition
   whose result reaches 2^31-1 ends the run with OBad.  C01 restricts itself to executions whose values stay below
   2^31-1; "run_chk ... = OStop ..." is how that restriction is stated.  Generated from RefSem.v (same text, one
   changed branch); Proofs show run_chk = run whenever run_chk does not return OBad. *)
From Theo Require Import Base Tokens MacroExtract Parser Gen_Consts RefSem.
Local Open Scope Z_scope.

Section RunChk.
  Variable rs : list routine.

  (* the result of evaluating something that may call: a value, or the end of the machine *)
  Inductive evres_c :=
  | EValc (v : Z) (steps : nat) (trace : rtrace)
  | EStopc (views : rviews) (steps : nat) (trace : rtrace)
  | EFuelc
  | EBadc.

  (* run_chk routine k from instruction pc; ctx = views of the callers, oldest first *)
  Fixpoint run_chk (fuel : nat) (ctx : rviews) (k : nat) (a : ract) (pc : Z) (steps : nat) (trace : rtrace) {struct fuel} : outcome :=
    match fuel with
    | O => OFuel
    | S f =>
        match nth_error rs k with
        | None => OBad
        | Some r =>
            let here := ctx ++ [view_of r a] in
            (* values: structural in the value, calls go through run_chk with less fuel *)
            let eval :=
              fix eval (v : rvalue) (steps : nat) (trace : rtrace) {struct v} : evres_c :=
                match v with
                | RVar y => EValc (get (ra_vars a) y) steps trace
                | RNum c => EValc c steps trace
                | RInc y c =>
                    match eval y steps trace with
                    | EValc x st tr => if INT_MAX <=? x + c then EBadc else EValc (x + c) st tr   (* the only change: checked addition *)
                    | other => other
                    end
                | RDec y c =>
                    match eval y steps trace with
                    | EValc x st tr => EValc (Z.max (x - c) 0) st tr
                    | other => other
                    end
                | RCall j args =>
                    let evargs :=
                      fix evargs (l : list rvalue) (acc : list Z) (steps : nat) (trace : rtrace) {struct l}
                        : option (list Z * nat * rtrace) + evres_c :=
                        match l with
                        | [] => inl (Some (acc, steps, trace))
                        | x :: rest =>
                            match eval x steps trace with
                            | EValc z st tr => evargs rest (acc ++ [z]) st tr
                            | other => inr other
                            end
                        end in
                    match evargs args [] steps trace with
                    | inr other => other
                    | inl None => EBadc
                    | inl (Some (vals, st, tr)) =>
                        match nth_error rs j with
                        | None => EBadc
                        | Some callee =>
                            if negb (Nat.eqb (length vals) (length (r_params callee))) then EBadc
                            else
                              let a' := mkRAct (fold_left (fun s pv => put s (fst pv) (snd pv))
                                                          (combine (r_params callee) vals) []) [] in
                              match run_chk f here j a' 0 st tr with
                              | ODone ret st' tr' => EValc ret st' tr'
                              | OStop vs st' tr' => EStopc vs st' tr'
                              | OFuel => EFuelc
                              | OBad => EBadc
                              end
                        end
                    end
                end in
            let goto := fun (target : Z) (a' : ract) (steps' : nat) (trace' : rtrace) =>
                          if target <? 0 then OBad else run_chk f ctx k a' target steps' trace' in
            match znth (r_code r) pc with
            | None => OBad
            | Some i =>
                let steps1 := S steps in
                match i with
                | RSite l => run_chk f ctx k a (pc + 1) steps1 (trace ++ [(l, here)])
                | RAssign x v =>
                    match eval v steps1 trace with
                    | EValc z st tr => run_chk f ctx k (mkRAct (put (ra_vars a) x z) (ra_cnt a)) (pc + 1) st tr
                    | EStopc vs st tr => OStop vs st tr
                    | EFuelc => OFuel
                    | EBadc => OBad
                    end
                | RLoopInit id v =>
                    match eval v steps1 trace with
                    | EValc z st tr => run_chk f ctx k (mkRAct (ra_vars a) (putc (ra_cnt a) id z)) (pc + 1) st tr
                    | EStopc vs st tr => OStop vs st tr
                    | EFuelc => OFuel
                    | EBadc => OBad
                    end
                | RLoopTest id exit =>
                    if getc (ra_cnt a) id =? 0
                    then match znth (r_targets r) exit with Some t => goto t a steps1 trace | None => OBad end
                    else run_chk f ctx k a (pc + 1) steps1 trace
                | RLoopDec id back =>
                    let a' := mkRAct (ra_vars a) (putc (ra_cnt a) id (Z.max (getc (ra_cnt a) id - 1) 0)) in
                    match znth (r_targets r) back with Some t => goto t a' steps1 trace | None => OBad end
                | RWhileTest v exit =>
                    match eval v steps1 trace with
                    | EValc z st tr =>
                        if z =? 0
                        then match znth (r_targets r) exit with Some t => goto t a st tr | None => OBad end
                        else run_chk f ctx k a (pc + 1) st tr
                    | EStopc vs st tr => OStop vs st tr
                    | EFuelc => OFuel
                    | EBadc => OBad
                    end
                | RJump target =>
                    match znth (r_targets r) target with Some t => goto t a steps1 trace | None => OBad end
                | RGoto l => goto (label_pos (r_labels r) l) a steps1 trace
                | RIfGoto x y l =>
                    match eval x steps1 trace with
                    | EValc zx st tr =>
                        match eval y st tr with
                        | EValc zy st' tr' =>
                            if zx =? zy then goto (label_pos (r_labels r) l) a st' tr'
                            else run_chk f ctx k a (pc + 1) st' tr'
                        | EStopc vs st' tr' => OStop vs st' tr'
                        | EFuelc => OFuel
                        | EBadc => OBad
                        end
                    | EStopc vs st tr => OStop vs st tr
                    | EFuelc => OFuel
                    | EBadc => OBad
                    end
                | RStop => OStop here steps1 trace
                | RHalt => OStop here steps1 trace
                | RReturn out => ODone (get (ra_vars a) out) steps1 trace
                end
            end
        end
    end.
End RunChk.

Definition run_ref_chk (fuel : nat) (rs : list routine) : outcome :=
  match length rs with
  | O => OBad
  | S k => run_chk rs fuel [] k (mkRAct [] []) 0 0 []
  end.
