(* LocErrStatements.v — C02, last sentence: every error of a compilation is located at the '-' placeholder or on a line
   of a file the scanner read: a supplied file or the hidden standard-macro file. *)
From Theo Require Import Base Regex Tokens Errors Lexer Scan MacroExtract Grammar LR MacroApply Parser VMModel GenModel Compile
                         Gen_Lexer Gen_Consts CompileStatements.
Local Open Scope Z_scope.

Definition in_file (files : files_t) (f : str) (l : Z) : Prop :=
  exists text, flookup files f = Some text /\ 1 <= l <= count_nl text + 1.
Definition placeholder (f : str) (l : Z) : Prop := f = dash /\ l = -1.
Definition loc_ok (files : files_t) (f : str) (l : Z) : Prop := placeholder f l \/ in_file files f l.

(* the file map the scanner is run on: the hidden file added, the include phrase prepended to the main file *)
Definition seen_files (files : files_t) (main : str) : files_t :=
  let files1 := with_standards files in
  if fcontains files1 main then prepend_to files1 main incl_phrase else files1.

(* scanner: every token and every error stands on a line of the file it names (or at the placeholder) *)
Definition C02_scan_positions_stmt : Prop :=
  forall rules files main toks errs, scan rules files main = Ok (toks, errs) ->
    Forall (fun t => loc_ok files (tfile t) (tline t)) toks /\
    Forall (fun e => loc_ok files (pe_file e) (pe_line e)) errs.

(* the whole pipeline *)
Definition C02_error_locations_stmt : Prop :=
  forall files main c e, compile files main = Ok c -> In e (cr_errors c) ->
    loc_ok (seen_files files main) (ge_file e) (ge_line e).

(* what a line of a seen file is, in terms of what the user supplied: the phrase is prepended without a newline, so
   line numbers of the main file are unchanged; the hidden file is the standard-macro text *)
Definition C02_seen_files_stmt : Prop :=
  standards_replace = true ->
  forall files main f l, in_file (seen_files files main) f l ->
    (f = standards_name /\ 1 <= l <= count_nl standard_macros + 1) \/
    (f <> standards_name /\ in_file files f l).
