(* LR.v — model of Compiler/src/ParserGenerator/lrdea.cpp (hull, jump, elements) and
   Compiler/include/ParserGenerator/lrparser.hpp (generateParseTables, parse).
   Item sets and maps are sorted lists under the C++ comparators, so the numbering of states,
   the order of conflicts and every other iteration-order effect is the implementation's. *)
From Theo Require Import Base Grammar.
Local Open Scope N_scope.

Record item := mkItem { i_left : sym; i_alt : N; i_dot : N; i_follow : sym }.
(* lrdea.cpp operator< on LRElement *)
Definition item_ltb (a b : item) : bool :=
  if sym_ltb (i_left a) (i_left b) then true
  else if sym_ltb (i_left b) (i_left a) then false
  else if i_alt a <? i_alt b then true
  else if i_alt b <? i_alt a then false
  else if i_dot a <? i_dot b then true
  else if i_dot b <? i_dot a then false
  else sym_ltb (i_follow a) (i_follow b).
Definition item_eqb (a b : item) : bool :=
  sym_eqb (i_left a) (i_left b) && (i_alt a =? i_alt b) && (i_dot a =? i_dot b) && sym_eqb (i_follow a) (i_follow b).
Fixpoint items_eqb (a b : list item) : bool :=
  match a, b with
  | [], [] => true
  | x :: a', y :: b' => item_eqb x y && items_eqb a' b'
  | _, _ => false
  end.

Definition nth_N {A} (l : list A) (n : N) : option A := nth_error l (N.to_nat n).

(* fetch_right: G.right_sides[e.left][e.alternative]  (unchecked vector index) *)
Definition fetch_right (g : grammar) (e : item) : result alternative :=
  of_opt ub_index (nth_N (rs_get g (i_left e)) (i_alt e)).
(* get_before *)
Definition expecting (a : alternative) (e : item) : sym :=
  match nth_N a (i_dot e) with Some s => s | None => Eps end.
(* get_follow_string *)
Definition follow_string (a : alternative) (e : item) : list sym :=
  skipn (N.to_nat (i_dot e) + 1) a ++ [i_follow e].

Fixpoint count_up (n : nat) (from : N) : list N :=
  match n with O => [] | S k => from :: count_up k (from + 1) end.

(* all items one closure step adds for e *)
Definition closure_of (g : grammar) (e : item) : result (list item) :=
  do a <- fetch_right g e;
  match expecting a e with
  | Nt n =>
      let las := first g (follow_string a e) in
      let alts := count_up (length (rs_get g (Nt n))) 0 in
      Ok (flat_map (fun ri => map (fun la => mkItem (Nt n) ri 0 la) las) alts)
  | _ => Ok []
  end.

Fixpoint closure_round (g : grammar) (todo : list item) (acc : list item) : result (list item) :=
  match todo with
  | [] => Ok acc
  | e :: rest =>
      do new <- closure_of g e;
      closure_round g rest (fold_left (sinsert item_ltb) new acc)
  end.

(* Theo::hull — the least set closed under closure_of (the C++ adds one item at a time and restarts;
   the resulting std::set is the same) *)
Fixpoint hull_fuel (fuel : nat) (g : grammar) (I : list item) : result (list item) :=
  match fuel with
  | O => Fuel
  | S f =>
      do I' <- closure_round g I I;
      if Nat.eqb (length I') (length I) then Ok I else hull_fuel f g I'
  end.

Definition n_alts (g : grammar) : nat :=
  fold_left (fun n r => (n + length (snd r))%nat) (right_sides g) 0%nat.
Definition hull_budget (g : grammar) : nat := (n_alts g * (N.to_nat (max_term g) + 3) + 2)%nat.
Definition hull (g : grammar) (I : list item) : result (list item) := hull_fuel (hull_budget g) g I.

(* Theo::jump *)
Fixpoint advance_items (g : grammar) (I : list item) (X : sym) (acc : list item) : result (list item) :=
  match I with
  | [] => Ok acc
  | e :: rest =>
      do a <- fetch_right g e;
      if sym_eqb (expecting a e) X
      then advance_items g rest X (sinsert item_ltb acc (mkItem (i_left e) (i_alt e) (i_dot e + 1) (i_follow e)))
      else advance_items g rest X acc
  end.
Definition jump (g : grammar) (I : list item) (X : sym) : result (list item) :=
  do J <- advance_items g I X []; hull g J.

(* get_befores *)
Fixpoint befores (g : grammar) (I : list item) (acc : list sym) : result (list sym) :=
  match I with
  | [] => Ok acc
  | e :: rest =>
      do a <- fetch_right g e;
      match expecting a e with
      | Eps => befores g rest acc
      | s => befores g rest (sinsert sym_ltb acc s)
      end
  end.

Record lrstate := mkSt { st_items : list item; st_jump : list (sym * Z) }.

Fixpoint find_state (states : list lrstate) (its : list item) (i : Z) : option Z :=
  match states with
  | [] => None
  | s :: rest => if items_eqb (st_items s) its then Some i else find_state rest its (i + 1)%Z
  end.

(* one transition of state number i on symbol t *)
Definition add_transition (g : grammar) (states : list lrstate) (i : nat) (t : sym) : result (list lrstate) :=
  do cur <- of_opt ub_index (nth_error states i);
  do r <- jump g (st_items cur) t;
  let '(states1, target) :=
    match find_state states r 0%Z with
    | Some k => (states, k)
    | None => (states ++ [mkSt r []], zlen states)
    end in
  do cur1 <- of_opt ub_index (nth_error states1 i);
  let j' := match alookup sym_ltb (st_jump cur1) t with
            | Some _ => st_jump cur1
            | None => ainsert sym_ltb (st_jump cur1) t target
            end in
  Ok (upd_nat states1 i (mkSt (st_items cur1) j')).

Fixpoint add_transitions (g : grammar) (states : list lrstate) (i : nat) (ts : list sym) : result (list lrstate) :=
  match ts with
  | [] => Ok states
  | t :: rest => do s' <- add_transition g states i t; add_transitions g s' i rest
  end.

Fixpoint elements_loop (fuel : nat) (g : grammar) (states : list lrstate) (i : nat) : result (list lrstate) :=
  match fuel with
  | O => Fuel
  | S f =>
      match nth_error states i with
      | None => Ok states
      | Some cur =>
          do ts <- befores g (st_items cur) [];
          do states' <- add_transitions g states i ts;
          elements_loop f g states' (S i)
      end
  end.

(* Theo::elements: extends the grammar by S' -> S and E -> eof, computes FIRST, builds the automaton.
   Returns the extended grammar too (generateParseTables reads total_non_terminals and max_used_terminal from it). *)
Definition elements (max_states : nat) (S eof : sym) (g : grammar) : result (grammar * list lrstate) :=
  let '(g1, S') := create_nt g in
  let g2 := push_alt g1 S' [S] in
  let '(g3, E) := create_nt g2 in
  let g4 := push_alt g3 E [eof] in
  do g5 <- calculate_first_sets g4;
  do h <- hull g5 [mkItem S' 0 0 eof];
  do states <- elements_loop max_states g5 [mkSt h []] 0;
  Ok (g5, states).

(* ---- tables ------------------------------------------------------------------------------------- *)
Inductive lr_action :=
| AShift (target : Z)
| AReduce (left : N) (beta : N) (lhs : sym) (alt : N)
| AAccept
| AErr.

(* GenerationResult: type (1 = shift/reduce, 2 = reduce/reduce), which message, state, terminal *)
Inductive conflict_tag := c_ps | c_prr | c_prs | c_ar | c_as.
Record conflict := mkConf { cf_type : Z; cf_tag : conflict_tag; cf_state : Z; cf_term : Z }.

Record tables := mkTab { t_action : list (list lr_action); t_jump : list (list Z) }.

Definition row_get (row : list lr_action) (t : Z) : result lr_action := of_opt ub_index (znth row t).
Definition row_set (row : list lr_action) (t : Z) (a : lr_action) : result (list lr_action) :=
  of_opt ub_index (zupd row t a).

Definition place_shift (st : Z) (row : list lr_action) (confs : list conflict) (t : Z) (target : Z)
  : result (list lr_action * list conflict) :=
  do cur <- row_get row t;
  match cur with
  | AReduce _ _ _ _ => Ok (row, confs ++ [mkConf 1 c_ps st t])
  | _ => do row' <- row_set row t (AShift target); Ok (row', confs)
  end.

Definition place_reduce (st : Z) (row : list lr_action) (confs : list conflict) (t : Z) (e : item) (size : N)
  : result (list lr_action * list conflict) :=
  do cur <- row_get row t;
  match cur with
  | AReduce _ _ _ _ => Ok (row, confs ++ [mkConf 2 c_prr st t])
  | AShift _ => Ok (row, confs ++ [mkConf 1 c_prs st t])
  | _ => do row' <- row_set row t (AReduce (sym_index (i_left e)) size (i_left e) (i_alt e)); Ok (row', confs)
  end.

Definition place_accept (st : Z) (row : list lr_action) (confs : list conflict) (t : Z)
  : result (list lr_action * list conflict) :=
  do cur <- row_get row t;
  match cur with
  | AReduce _ _ _ _ => Ok (row, confs ++ [mkConf 2 c_ar st t])
  | AShift _ => Ok (row, confs ++ [mkConf 1 c_as st t])
  | _ => do row' <- row_set row t AAccept; Ok (row', confs)
  end.

Section Tables.
  Variable g : grammar.          (* the extended grammar returned by elements *)
  Variable prefix : bool.
  Variable eof : sym.
  Definition width : nat := N.to_nat (max_term g + 1).
  Definition sprime_index : N := total_nt g - 2.

  Definition place_item (st : Z) (acc : list lr_action * list conflict) (e : item) (t : Z) (size : N)
    : result (list lr_action * list conflict) :=
    if sym_index (i_left e) =? sprime_index then place_accept st (fst acc) (snd acc) t
    else place_reduce st (fst acc) (snd acc) t e size.

  Fixpoint place_all (st : Z) (acc : list lr_action * list conflict) (e : item) (size : N) (ts : list Z)
    : result (list lr_action * list conflict) :=
    match ts with
    | [] => Ok acc
    | t :: rest => do acc' <- place_item st acc e t size; place_all st acc' e size rest
    end.

  Fixpoint fill_items (st : Z) (acc : list lr_action * list conflict) (its : list item)
    : result (list lr_action * list conflict) :=
    match its with
    | [] => Ok acc
    | e :: rest =>
        do a <- fetch_right g e;
        let size := N.of_nat (length a) in
        if negb (i_dot e =? size) then fill_items st acc rest
        else
          do acc' <-
            (if (sym_index (i_follow e) =? sym_index eof) && prefix
             then place_all st acc e size (map (fun n => Z.of_N n) (count_up width 0))
             else place_item st acc e (Z.of_N (sym_index (i_follow e))) size);
          fill_items st acc' rest
    end.

  Fixpoint fill_jumps (st : Z) (row : list lr_action) (jrow : list Z) (confs : list conflict) (js : list (sym * Z))
    : result (list lr_action * list Z * list conflict) :=
    match js with
    | [] => Ok (row, jrow, confs)
    | (s, target) :: rest =>
        match s with
        | Tm i =>
            do r <- place_shift st row confs (Z.of_N i) target;
            fill_jumps st (fst r) jrow (snd r) rest
        | Nt i =>
            do jrow' <- of_opt ub_index (zupd jrow (Z.of_N i) target);
            fill_jumps st row jrow' confs rest
        | Eps => fill_jumps st row jrow confs rest
        end
    end.

  Fixpoint fill_states (st : Z) (states : list lrstate) (confs : list conflict)
    : result (list (list lr_action) * list (list Z) * list conflict) :=
    match states with
    | [] => Ok ([], [], confs)
    | s :: rest =>
        let row0 := zrepeat AErr width in
        let jrow0 := zrepeat (-1)%Z (N.to_nat (total_nt g)) in
        do r1 <- fill_jumps st row0 jrow0 confs (st_jump s);
        let '(row1, jrow1, confs1) := r1 in
        do r2 <- fill_items st (row1, confs1) (st_items s);
        do r3 <- fill_states (st + 1)%Z rest (snd r2);
        let '(rows, jrows, confs3) := r3 in
        Ok (fst r2 :: rows, jrow1 :: jrows, confs3)
    end.
End Tables.

(* LRParser::generateParseTables *)
Definition generate_tables (max_states : nat) (g : grammar) (prefix : bool) (S eof : sym)
  : result (grammar * tables * list conflict * list lrstate) :=
  do r <- elements max_states S eof g;
  let '(g', states) := r in
  do t <- fill_states g' prefix eof 0%Z states [];
  let '(rows, jrows, confs) := t in
  Ok (g', mkTab rows jrows, confs, states).

(* ---- the driver (LRParser::parse) -------------------------------------------------------------------- *)
Section Parse.
  Context {T V : Type}.
  Variable translator : T -> N.                    (* index of the terminal of a token *)
  Variable creator : T -> V.
  Variable semantic : sym -> N -> list V -> V.     (* the action of rule (lhs, alternative) *)
  Variable tab : tables.

  (* pop beta entries from both stacks; popped values come out last symbol first *)
  Fixpoint pop_n (n : nat) (states : list Z) (values : list V) (popped : list V)
    : result (list Z * list V * list V) :=
    match n with
    | O => Ok (states, values, popped)
    | S k =>
        match values, states with
        | v :: values', _ :: states' => pop_n k states' values' (popped ++ [v])
        | _, _ => UB ub_back
        end
    end.

  (* stacks are lists with the top first *)
  Fixpoint lr_parse (fuel : nat) (input : list T) (states : list Z) (values : list V) : result (option V) :=
    match fuel with
    | O => Fuel
    | S f =>
        do s <- of_opt ub_back (hd_error states);
        do tok <- of_opt ub_iter (hd_error input);
        let a := Z.of_N (translator tok) in
        do row <- of_opt ub_index (znth (t_action tab) s);
        if (zlen row <=? a)%Z then Ok None
        else
          do act <- of_opt ub_index (znth row a);
          match act with
          | AShift s' => lr_parse f (tl input) (s' :: states) (creator tok :: values)
          | AReduce lft beta lhs alt =>
              do p <- pop_n (N.to_nat beta) states values [];
              let '(states', values', popped) := p in
              do s' <- of_opt ub_back (hd_error states');
              do jrow <- of_opt ub_index (znth (t_jump tab) s');
              do target <- of_opt ub_index (znth jrow (Z.of_N lft));
              lr_parse f input (target :: states') (semantic lhs alt popped :: values')
          | AAccept => do v <- of_opt ub_back (hd_error values); Ok (Some v)
          | AErr => Ok None
          end
    end.

  Definition parse (fuel : nat) (input : list T) : result (option V) := lr_parse fuel input [0%Z] [].
End Parse.
