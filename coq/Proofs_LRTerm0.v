(* Proofs_LRTerm0.v — termination of the LR driver (helper for Proofs_LRTerm.v).
   Whatever action sits in a cell (conflicts play no role), a shift consumes a token and a reduce by
   A -> alpha pops |alpha| states and pushes the goto target on A.  With the ghost stack of symbols
   (`stk` of Proofs_LRSound.v, whose trees only serve as carriers of their root symbol), the potential
       phi = C * |input| + K * height + w(top symbol)       (K = R + 2, C = 2 * K, R a bound on the ranks)
   strictly decreases at every step when the grammar has no empty right-hand side except for the start
   symbol (which then occurs in no right-hand side) and the unit rules are ranked. *)
From Coq Require Import List ZArith NArith Lia Bool Sorting.Sorted.
From Theo Require Import Base Grammar LR SpecMacro SpecLR LRStatements Proofs_First.
From Theo Require Import Proofs_LRSound0 Proofs_LRSound.
Import ListNotations.

(* the two grammar conditions, with the ranking made explicit (LRTermStatements.v states them with an
   existential ranking; Proofs_LRTerm.v connects the two) *)
Definition eps_free0 (g : grammar) (S : sym) : Prop :=
  (forall X alts rhs, In (X, alts) (right_sides g) -> In rhs alts -> rhs = [] -> X = S) /\
  (forall X alts rhs, In (X, alts) (right_sides g) -> In rhs alts -> ~ In S rhs).

Lemma pop_n_cases {V} : forall n (sts : list Z) (vs : list V) acc,
  pop_n n sts vs acc = UB ub_back \/
  ((n <= length sts)%nat /\ exists vs' popped, pop_n n sts vs acc = Ok (skipn n sts, vs', popped)).
Proof.
  induction n as [|n IH]; intros sts vs acc; cbn [pop_n].
  - right. split; [lia|]. eauto.
  - destruct vs as [|v vs]; [left; reflexivity|]. destruct sts as [|s sts]; [left; reflexivity|].
    destruct (IH sts vs (acc ++ [v])) as [E|(L & vs' & popped & E)]; [left; exact E|].
    right. split; [cbn [length]; lia|]. cbn [skipn]. eauto.
Qed.

Section Term.
  Context {T V : Type}.
  Variables (translator : T -> N) (creator : T -> V) (semantic : sym -> N -> list V -> V).
  Variables (g : grammar) (St eof : sym).
  Hypothesis SOK : start_ok g St eof.
  Hypothesis RC : rhs_closed g.
  Variable g5 : grammar.
  Hypothesis H5 : calculate_first_sets (ext_grammar g St eof) = Ok g5.
  Variable prefix : bool.
  Variable states : list lrstate.
  Hypothesis HS : SInv g eof g5 states.
  Variables (rows : list (list lr_action)) (jrows : list (list Z)).
  Hypothesis HT : tabs_ok g5 prefix states rows jrows.
  Hypothesis EPS : eps_free0 g St.
  Variable rank : N -> nat.
  Variable R : nat.
  Hypothesis RK : forall a alts b, In (Nt a, alts) (right_sides g) -> In [Nt b] alts -> (rank b < rank a)%nat.
  Hypothesis RB : forall a alts, In (Nt a, alts) (right_sides g) -> (rank a <= R)%nat.

  Let tab : tables := mkTab rows jrows.
  Notation rootT := (root translator).
  Notation run := (lr_parse translator creator semantic tab).
  Notation stkT := (stk translator states).

  Definition wsym (X : sym) : nat := match X with Nt a => R - rank a | _ => R + 1 end.
  Definition phi (n : nat) (syms : list sym) : nat :=
    match syms with
    | [] => 2 * (R + 2) * n + (2 * R + 3)
    | X :: r => 2 * (R + 2) * n + (R + 2) * (1 + length r) + wsym X
    end.

  Lemma phi_pos n syms : (1 <= phi n syms)%nat.
  Proof. destruct syms as [|X r]; cbn [phi]; lia. Qed.

  Lemma run_neg_nofuel f input qs vs : (1 <= f)%nat -> run f input ((-1)%Z :: qs) vs <> Fuel.
  Proof.
    intros Hf. destruct f as [|f]; [lia|]. unfold tab. rewrite run_S. cbn [hd_error of_opt bind].
    destruct input as [|tok input]; cbn [hd_error of_opt bind]; [discriminate|].
    rewrite znth_neg. cbn [of_opt bind]. discriminate.
  Qed.

  (* a reduction of an empty right-hand side is possible on the bare initial stack only *)
  Lemma no_empty_reduce q qs t ts sq e :
    stkT (q :: qs) (t :: ts) -> nth_error states (Z.to_nat q) = Some sq -> In e (st_items sq) ->
    fetch_right g5 e = Ok [] -> i_dot e = 0%N -> sym_index (i_left e) <> sprime_index g5 -> False.
  Proof.
    intros Hstk Hsq He HF HD HNe.
    inversion Hstk as [|q1 qs1 ts1 sq1 t1 q' Hstk1 Hq1 Hsq1 Hin1]; subst.
    destruct (si_trans _ _ _ _ HS _ _ _ _ Hsq1 Hin1) as (_ & _ & (sj & Hsj & Hor) & _).
    assert (sj = sq) by congruence. subst sj.
    pose proof (good_items _ _ _ _ HS _ _ _ Hsq He) as Hg.
    destruct Hg as (n & a' & HLn & Hn & _).
    assert (Hnlt : (n < total_nt g)%N).
    { apply (lhs_is_nt g St eof g5 H5 e [] n); auto. exact (good_items _ _ _ _ HS _ _ _ Hsq He). }
    pose proof (fetch_orig _ _ _ _ H5 e n [] HLn Hnlt HF) as HR. apply rule_in_g in HR. destruct HR as [R1 R2].
    destruct EPS as [E1 E2].
    assert (HS' : Nt n = St) by (eapply E1; eauto).
    destruct (si_items _ _ _ _ HS _ _ Hsq e He) as [_ Horig].
    destruct (Horig HD) as [HSp|(e1 & a1 & He1 & Ha1 & Hexp1)].
    - rewrite HLn in HSp. inversion HSp. lia.
    - rewrite HLn in Hexp1.
      pose proof (good_items _ _ _ _ HS _ _ _ Hsq He1) as (n1 & a1' & HL1 & Hn1 & _).
      pose proof Hexp1 as Hnth. apply expecting_nth in Hnth; [|discriminate].
      destruct Hn1 as [Hn1|[Hn1 _]].
      + pose proof (fetch_orig _ _ _ _ H5 e1 n1 a1 HL1 Hn1 Ha1) as HR1. apply rule_in_g in HR1.
        destruct HR1 as [R3 R4]. apply (E2 _ _ _ R3 R4). rewrite <- HS'. eapply nth_error_In; eauto.
      + subst n1. destruct (fetch_Sp _ _ _ SOK _ H5 e1 a1 HL1 Ha1) as [-> _].
        assert (Hd1 : i_dot e1 = 0%N).
        { destruct (N.to_nat (i_dot e1)) as [|k] eqn:Ek; [lia|]. cbn [nth_error] in Hnth.
          destruct k; discriminate. }
        destruct (Hor e1 He1) as [[_ Hne]|(e0 & a0 & _ & _ & _ & ->)].
        * apply Hne. exact HL1.
        * cbn [adv i_dot] in Hd1. lia.
  Qed.

  (* the main lemma: the potential bounds the number of steps *)
  Lemma lr_no_fuel : forall fuel input qs ts vals,
    stkT qs ts -> (phi (length input) (map rootT ts) < fuel)%nat ->
    run fuel input qs vals <> Fuel.
  Proof.
    induction fuel as [|f IH]; intros input qs ts vals Hstk Hphi; [lia|].
    unfold tab. rewrite run_S. fold tab.
    destruct qs as [|q qs]; [inversion Hstk|]. cbn [hd_error of_opt bind].
    destruct input as [|tok input]; cbn [hd_error of_opt bind]; [discriminate|].
    cbv zeta.
    destruct (znth (t_action tab) q) as [row|] eqn:Hrow; cbn [of_opt bind]; [|discriminate].
    apply znth_Some in Hrow. destruct Hrow as [Hq0 Hrow]. cbn [t_action tab] in Hrow.
    destruct (tabs_ok_rows _ _ _ _ _ _ _ HT Hrow) as (sq & jrow & Hsq & _ & (HRJ & _)).
    destruct (zlen row <=? Z.of_N (translator tok))%Z; [discriminate|].
    destruct (znth row (Z.of_N (translator tok))) as [act|] eqn:Hact; cbn [of_opt bind]; [|discriminate].
    pose proof (HRJ _ _ Hact) as HJ.
    destruct act as [s'|lft beta lhs alt| |]; cbn [justified] in HJ.
    - (* shift *)
      destruct HJ as (i & Hi & Hin). apply N2Z.inj in Hi. subst i. cbn [tl].
      apply (IH input (s' :: q :: qs) (Leaf tok :: ts)).
      + eapply stkS; eauto.
      + cbn [map root length] in *. destruct ts as [|t ts]; cbn [map phi wsym length] in *; lia.
    - (* reduce *)
      destruct HJ as (e & rhs & He & HL & HA & HF & HD & HB & HLf & HNe). subst beta.
      rewrite Nat2N.id. set (b := length rhs) in *.
      destruct (pop_n_cases b (q :: qs) vals []) as [E|(Lb & vs' & popped & E)]; rewrite E; cbn [bind];
        [discriminate|].
      destruct (skipn b (q :: qs)) as [|q0 qs0] eqn:Hsk; cbn [hd_error of_opt bind]; [discriminate|].
      assert (Lt : (b <= length ts)%nat).
      { pose proof (stk_len _ _ _ _ Hstk) as HL'.
        destruct (Nat.eq_dec b (length (q :: qs))) as [Eb|Eb]; [|lia].
        rewrite Eb, skipn_all in Hsk. discriminate. }
      pose proof (stk_skipn _ _ b _ _ Hstk Lt) as Hstk'. rewrite Hsk in Hstk'.
      destruct (znth (t_jump tab) q0) as [jrow0|] eqn:Hjr; cbn [of_opt bind]; [|discriminate].
      apply znth_Some in Hjr. destruct Hjr as [Hq00 Hjr]. cbn [t_jump tab] in Hjr.
      destruct (tabs_ok_jrows _ _ _ _ _ _ _ HT Hjr) as (s0 & row0 & Hs0 & _ & (_ & HJJ & _)).
      destruct (znth jrow0 (Z.of_N lft)) as [target|] eqn:Htg; cbn [of_opt bind]; [|discriminate].
      pose proof (phi_pos (length (tok :: input)) (map rootT ts)) as Hpos.
      destruct (HJJ _ _ Htg) as [->|(i & Hi & Hin)]; [apply run_neg_nofuel; lia|].
      apply N2Z.inj in Hi. subst i.
      pose proof (good_items _ _ _ _ HS _ _ _ Hsq He) as Hg.
      destruct Hg as (n & a' & HLn & Hn & _).
      assert (Hlhs : lhs = Nt lft).
      { rewrite HLf. rewrite <- HL. rewrite HLn. reflexivity. }
      assert (Hnlt : (n < total_nt g)%N).
      { apply (lhs_is_nt g St eof g5 H5 e rhs n);
          [exact (good_items _ _ _ _ HS _ _ _ Hsq He)|rewrite HL; exact HNe|exact HLn|exact HF]. }
      assert (Hlft : lft = n).
      { rewrite Hlhs in HL. rewrite HLn in HL. inversion HL. reflexivity. }
      pose proof (fetch_orig _ _ _ _ H5 e n rhs HLn Hnlt HF) as HR. apply rule_in_g in HR.
      destruct HR as [R1 R2].
      pose proof (RB _ _ R1) as Hrk.
      set (t' := @Inner T lhs alt []).
      apply (IH (tok :: input) (target :: q0 :: qs0) (t' :: skipn b ts)).
      + eapply stkS; eauto. cbn [root t']. rewrite Hlhs. exact Hin.
      + cbn [map root t']. rewrite Hlhs, Hlft. cbn [phi wsym]. rewrite map_length, skipn_length.
        destruct rhs as [|Y [|Y2 rhs2]]; cbn [length] in b; subst b.
        * (* empty right-hand side: only on the bare stack *)
          destruct ts as [|t ts].
          { cbn [map phi length] in *. lia. }
          exfalso. rewrite <- HL in HNe.
          eapply (no_empty_reduce q qs t ts sq e); eauto.
        * (* unit rule *)
          destruct ts as [|t ts]; [cbn [length] in Lt; lia|].
          destruct (item_prefix _ _ _ _ _ HS _ _ Hstk q qs sq e [Y] eq_refl Hsq He HF) as (_ & I2 & _).
          rewrite HD in I2. cbn [length N.of_nat] in I2.
          change (N.to_nat (N.of_nat 1)) with 1%nat in I2. cbn [firstn rev app map] in I2.
          inversion I2 as [HY].
          cbn [map phi length] in *. rewrite map_length in Hphi. rewrite <- HY in Hphi.
          assert (Hw : (R - rank n < wsym Y)%nat).
          { destruct Y as [|i|bb]; cbn [wsym]; try lia.
            pose proof (RK _ _ _ R1 R2) as Hlt. lia. }
          lia.
        * (* two or more symbols: the stack shrinks *)
          destruct ts as [|t ts]; [cbn [length] in Lt; lia|].
          cbn [map phi length] in *. rewrite map_length in Hphi.
          assert (Hm : ((R + 2) * (1 + (S (length ts) - S (S (length rhs2)))) + (R + 2)
                        <= (R + 2) * (1 + length ts))%nat).
          { rewrite <- Nat.mul_succ_r. apply Nat.mul_le_mono_l. lia. }
          lia.
    - (* accept *)
      destruct (hd_error vals); cbn [of_opt bind]; discriminate.
    - discriminate.
  Qed.

  Lemma parse_no_fuel input fuel :
    (2 * (R + 2) * length input + (2 * R + 3) < fuel)%nat ->
    parse translator creator semantic tab fuel input <> Fuel.
  Proof.
    intros H. unfold parse. apply (lr_no_fuel fuel input [0%Z] [] []); [constructor|exact H].
  Qed.
End Term.
