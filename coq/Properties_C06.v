(* Properties_C06.v — the theorems that decide property C06 on the model, each stated in full and closed by
   `exact <lemma>`; the lemmas live in the Proofs_*.v files.  Nothing else belongs in this file. *)
From Theo Require Import Base VMModel VMSpec VMStatements Proofs_VM_mem Proofs_VM_dbg CompiledStatements Regex Tokens Errors Lexer Scan MacroExtract Grammar LR MacroApply Parser VMCheck VMCheckStatements GenModel Compile Gen_Lexer Gen_Consts CompileStatements Proofs_Compiled.
Local Open Scope Z_scope.

Theorem C06_execute :
  (forall fuel s s', execute fuel s = Ok s' -> runs_to s s') /\
  (forall s s', runs_to s s' -> exists fuel, execute fuel s = Ok s').
Proof. exact C06_execute_proof. Qed.
Print Assumptions C06_execute.

Theorem C06_stop_iff :
  forall p s s' b, tables_ok p = true -> rel p s -> exec1 s = Ok (s', b) ->
    (b = true <-> (stop_site s (ip s) \/ halt_at s (ip s))).
Proof. exact C06_stop_iff_proof. Qed.
Print Assumptions C06_stop_iff.

Theorem C06_location :
  (forall p s s', tables_ok p = true -> rel p s -> exec1 s = Ok (s', true) -> ~ halt_at s (ip s) ->
     exists b, alookup z_ltb (line_info p) (ip s) = Some b /\ getCurrentBreak s' = Some b) /\
  (forall p, tables_ok p = true -> getCurrentBreak (init p) = None).
Proof. exact C06_location_proof. Qed.
Print Assumptions C06_location.

Theorem C06_enable :
  forall p s f l v, tables_ok p = true -> rel p s ->
    exists s' r, setBreakPoint s f l v = Ok (s', r) /\
      (r = true <-> alookup bp_ltb (potential_breaks p) (mkBP f l) <> None).
Proof. exact C06_enable_proof. Qed.
Print Assumptions C06_enable.

Theorem C06_enabled :
  forall p h fuel s, tables_ok p = true -> no_break p = true ->
    run_hist fuel h (init p) = Ok s ->
    forall b, smem bp_ltb (enabled s) b = req_fold p h b.
Proof. exact C06_enabled_proof. Qed.
Print Assumptions C06_enabled.

Theorem C06_compiled :
  forall files main c,
    compile files main = Ok c ->
    getCurrentBreak (init (cr_prog c)) = None /\
    forall h fuel s, run_hist fuel h (init (cr_prog c)) = Ok s ->
      (forall b, smem bp_ltb (enabled s) b = req_fold (cr_prog c) h b) /\
      (forall f l v, exists s' r, setBreakPoint s f l v = Ok (s', r) /\
                                  (r = true <-> alookup bp_ltb (potential_breaks (cr_prog c)) (mkBP f l) <> None)) /\
      (forall s' b, exec1 s = Ok (s', b) -> (b = true <-> (stop_site s (ip s) \/ halt_at s (ip s)))).
Proof. exact C06_compiled_proof. Qed.
Print Assumptions C06_compiled.
