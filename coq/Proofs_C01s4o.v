(* Proofs_C01s4o.v — C01, stage 4, part 15: between the STATIC and the DYNAMIC part.
   Backpatching re-targets the jumps of a block (imatch4), a finished routine of the static part is a good routine of
   the dynamic part once every jump has been patched (FRok_ROK), the jumps over the definitions are executed by the
   VM (prelude_run), and the frames of the VM stack show the reference views (frames_views). *)
From Coq Require Import List ZArith NArith Lia Bool.
From Theo Require Import Base Tokens Errors MacroExtract Parser VMModel VMSpec GenModel Compile RefSem RefSemChk C01Statements C01Stages C01Stages3 C01Stages4 Gen_Consts Proofs_VM_mem Proofs_VM_dbg Proofs_Gen0 Proofs_Gen Proofs_Sem Proofs_C01a Proofs_C01b Proofs_C01 Proofs_C01s2a Proofs_C01s2b Proofs_C01s2c Proofs_C01s2d Proofs_C01s2 Proofs_C01s3a Proofs_C01s3b Proofs_C01s3c Proofs_C01s3d Proofs_C01s3 Proofs_C01s4a Proofs_C01s4b Proofs_C01s4c Proofs_C01s4g Proofs_C01s4h Proofs_C01s4i Proofs_C01s4j Proofs_C01s4k Proofs_C01s4l Proofs_C01s4m.
Import ListNotations.
Local Open Scope Z_scope.

(* ================================================================================================ *)
(* 1. backpatching                                                                                  *)
(* ================================================================================================ *)
Lemma imatch4_patch rm C C' FT (J J' : jrel3) q i :
  (forall q' ins, q <= q' -> znth C q' = Some ins -> ~ is_jmp (iop ins) -> znth C' q' = Some ins) ->
  (forall q' ins e, q <= q' -> znth C q' = Some ins -> is_jmp (iop ins) -> J q' (ia ins) e ->
     exists f', znth C' q' = Some (mkI (iop ins) f' (ib ins) (ic ins)) /\ J' q' f' e) ->
  imatch4 rm C FT J q i -> imatch4 rm C' FT J' q i.
Proof.
  intros HC HJ. apply imatch4_move; [apply rm_le_refl | intros j x H; exact H | exact HC |].
  apply imatch3_patch; assumption.
Qed.

(* ================================================================================================ *)
(* 2. a finished routine after backpatching                                                         *)
(* ================================================================================================ *)
Lemma FRok_ROK code labels FT r P0 regs lo hi C6 (RI : nat -> rinfo) k :
  FRok code labels FT r P0 regs lo hi ->
  ri_rm (RI k) = RMof (map key regs) -> ri_N (RI k) = zlen regs -> ri_P0 (RI k) = P0 ->
  (forall q ins, 1 <= q -> znth code q = Some ins -> ~ is_jmp (iop ins) -> znth C6 q = Some ins) ->
  (forall q ins, 1 <= q -> znth code q = Some ins -> is_jmp (iop ins) ->
     exists tgt, znth labels (ia ins) = Some tgt /\ znth C6 q = Some (mkI (iop ins) (tgt - q) (ib ins) (ic ins))) ->
  routine_ok RI C6 FT k r.
Proof.
  intros (lmap & marks & L & [Hcm Hstr Hmark Hrw Hjv Hpar Hnd Hp0]) Erm EN EP BA BB.
  constructor.
  - rewrite Erm, EN. rewrite <- (zlen_map key regs). eapply RW_rm_ok; exact Hrw.
  - intros pc i Hz. unfold pm4. rewrite Erm, EP.
    assert (Hq1 : 1 <= pm_of4 P0 (r_code r) pc).
    { unfold pm_of4. pose proof (boff4_nonneg (r_code r) (Z.to_nat pc)). lia. }
    eapply (imatch4_patch _ code C6 FT (jpreL lmap marks)); [| |apply Hcm; exact Hz].
    + intros q' ins Hq' Hzq Hnj. apply BA; [lia | exact Hzq | exact Hnj].
    + intros q' ins e Hq' Hzq Hjm Hlm. destruct (BB q' ins ltac:(lia) Hzq Hjm) as (tgt & Htg & Hz6).
      exists (tgt - q'). split; [exact Hz6|]. destruct e as [e|l]; cbn [jpost4 jpreL] in *.
      * destruct (Hstr _ _ Hlm) as (_ & lv & t & A & B & Cc & D). rewrite A in Htg. inversion Htg; subst tgt.
        exists t. split; [exact B|]. intros Ht. unfold pm4. rewrite EP. rewrite (D Ht). lia.
      * destruct (Hmark _ _ Hlm) as (_ & lv & A & Cc & D). rewrite A in Htg. inversion Htg; subst tgt.
        intros Ht. unfold pm4. rewrite EP. rewrite (D Ht). lia.
  - intros i p Hi. rewrite Erm. destruct (Hpar _ _ Hi) as [A B]. split; assumption.
  - exact Hnd.
  - rewrite EN. apply zlen_nonneg.
Qed.

(* ================================================================================================ *)
(* 3. the jumps over the definitions                                                                *)
(* ================================================================================================ *)
Lemma prelude_run cd0 labels C6 s d : code (prog s) = C6 ->
  (forall q ins, 1 <= q -> znth cd0 q = Some ins -> is_jmp (iop ins) ->
     exists tgt, znth labels (ia ins) = Some tgt /\ znth C6 q = Some (mkI (iop ins) (tgt - q) (ib ins) (ic ins))) ->
  forall i0, znth cd0 0 = Some i0 -> ~ is_jmp (iop i0) ->
  forall pre q qend, PreOK cd0 labels q pre qend ->
    vm_run (length pre) (vm_at s q d) = Ok (vm_at s qend d).
Proof.
  intros HC BB i0 Hi0 Hnj. induction pre as [|[q0 lab] rest IH]; intros q qend HP; cbn [PreOK] in HP.
  - subst qend. reflexivity.
  - destruct HP as (-> & Hz & tgt & Hlab & Hrest).
    assert (Hq : 1 <= q).
    { pose proof (znth_some_range _ _ _ Hz) as R. destruct (Z.eq_dec q 0) as [->|Hne]; [|lia].
      rewrite Hi0 in Hz. inversion Hz; subst i0. exfalso. apply Hnj. left; reflexivity. }
    destruct (BB q (IJmp lab) Hq Hz ltac:(left; reflexivity)) as (tgt' & Htg & Hz6).
    cbn [ia IJmp] in Htg. rewrite Hlab in Htg. inversion Htg; subst tgt'.
    pose proof (IH tgt qend Hrest) as Hrun.
    change (length ((q, lab) :: rest)) with (1 + length rest)%nat.
    eapply vm_run_trans; [|exact Hrun].
    replace tgt with (q + (tgt - q)) at 1 by lia. apply at_jmp. rewrite HC. exact Hz6.
Qed.

(* ================================================================================================ *)
(* 4. the variables of a frame, as the debugger reads them                                          *)
(* ================================================================================================ *)
Section ViewsB.
  Variables (regs : list vreg) (L : Z) (vars : list str) (a : ract) (d : list Z) (base : Z).
  Hypothesis HRW : RW (map key regs) L.
  Hypothesis HJV : JV (map key regs) vars.
  Hypothesis HSR : SR (RMof (map key regs)) base (zlen regs) a d.

  Lemma final_views_b :
    exists vmvars, read_vars d base (stack_map_of regs 0) [] = Ok vmvars /\
      same_values (filter (fun e => user_name (fst e)) vmvars) (map (fun x => (x, get (ra_vars a) x)) vars).
  Proof.
    destruct (read_vars_spec d base (stack_map_of regs 0) []) as (res & E & Hres).
    - apply smap_names_NoDup. intros i j ri rj Hi Hj Hti Htj Hn.
      pose proof (nontemp_frk regs L HRW _ _ Hi Hti) as A. pose proof (nontemp_frk regs L HRW _ _ Hj Htj) as B. rewrite Hn in A. congruence.
    - intros; reflexivity.
    - intros r n Hin. apply smap_in in Hin. destruct Hin as (rg & Hz & _). apply znth_some_range in Hz.
      destruct (znth_in_range d (base + r)) as [v Hv]; [destruct HSR as [[Hb Hf] _]; lia | congruence].
    - exists res. split; [exact E|]. split.
      + intros x v Hin. apply in_map_iff in Hin. destruct Hin as (y & Hy & Hin). inversion Hy; subst y v; clear Hy.
        destruct HJV as (_ & H2 & _). destruct (H2 _ Hin) as (Hx & i & Hi).
        rewrite (alookup_filter user_name). unfold user_name. rewrite Hx. apply Hres. right.
        destruct (frk_lexable_nontemp regs L HRW _ _ Hx Hi) as (r & Hz & Ht & Hn).
        exists i. split; [apply smap_in; exists r; auto|].
        apply (sr_var _ _ _ _ _ HSR). split; [exact Hx | exact Hi].
      + intros x v H. rewrite (alookup_filter user_name) in H. unfold user_name in H.
        destruct (lexable x) eqn:Hx; [|discriminate]. apply Hres in H. destruct H as [H|(r & Hin & Hz)]; [discriminate|].
        apply smap_in in Hin. destruct Hin as (rg & Hzr & Ht & Hn). subst x.
        pose proof (nontemp_frk regs L HRW _ _ Hzr Ht) as Hf.
        rewrite (sr_var _ _ _ _ _ HSR (vname rg) r (conj Hx Hf)) in Hz. inversion Hz; subst v.
        apply in_map_iff. exists (vname rg). split; [reflexivity|].
        destruct HJV as (_ & _ & H3). eapply H3; eauto.
  Qed.
End ViewsB.

(* what is known about the stack map of every routine *)
Definition MapsOK (rs : list routine) (RI : nat -> rinfo) (maps : list stackmap) : Prop :=
  forall k r, nth_error rs k = Some r ->
    exists regs L, ri_rm (RI k) = RMof (map key regs) /\ ri_N (RI k) = zlen regs /\
      RW (map key regs) L /\ JV (map key regs) (r_vars r) /\
      znth maps (ri_mi (RI k)) = Some (mkSM (r_name r) (stack_map_of regs 0)).

Lemma frames_views rs RI s : MapsOK rs RI (stack_maps (prog s)) ->
  forall l vs, Forall2 (FrameView rs RI (data s)) l vs ->
    exists vmv, views_of s l = Ok vmv /\ Forall2 view_agrees vmv vs.
Proof.
  intros HM l vs HF. induction HF as [|a v l vs Hav HF IH].
  - exists []. split; [reflexivity | constructor].
  - destruct IH as (more & Emore & Hmore).
    destruct Hav as (k & r & ra & Hk & Hv & HS & OK & Hsz & Hdi).
    destruct (HM _ _ Hk) as (regs & L & Erm & EN & HRW & HJV & Hmap).
    rewrite Erm, EN in HS.
    assert (HVW : exists vmvars, getActivationVariables s a = Ok vmvars /\
              same_values (filter (fun e => user_name (fst e)) vmvars) (map (fun x => (x, get (ra_vars ra) x)) (r_vars r))).
    { unfold getActivationVariables. rewrite Hdi, Hmap. cbn [of_opt bind smap]. rewrite Hsz, EN.
      destruct (Z.leb_spec (zlen regs) 0) as [Hle|Hgt].
      - exists []. split; [reflexivity|].
        assert (Evars : r_vars r = []).
        { destruct (r_vars r) as [|x vs'] eqn:Ev; [reflexivity|]. exfalso.
          destruct HJV as (_ & H2 & _). destruct (H2 x (or_introl eq_refl)) as (_ & i & Hi).
          apply frk_range in Hi. rewrite zlen_map in Hi. lia. }
        rewrite Evars. split; [intros x v0 []|intros x v0 H; discriminate H].
      - exact (final_views_b regs L (r_vars r) ra (data s) (data_start a) HRW HJV HS). }
    destruct HVW as (vmvars & Eget & Hsame).
    exists ((r_name r, vmvars) :: more). split.
    + cbn [views_of]. rewrite Hdi, Hmap. cbn [of_opt bind]. rewrite Eget. cbn [bind]. rewrite Emore. reflexivity.
    + constructor; [|exact Hmore]. subst v. unfold view_agrees, view_of. cbn [fst snd]. split; [reflexivity | exact Hsame].
Qed.
