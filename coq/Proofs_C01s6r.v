(* Proofs_C01s6r.v — C01, stage 6 (any layout), part 16: the DYNAMIC part WITH step accounting (runs).
   Proofs_C01s6e.v with the counts of Proofs_C01s4f.v, for programs in which a group with sites inside belongs to an
   instruction whose value contains no call (HB).  Inside a group the reference machine is ahead by the sites it has
   executed (the debt GB k pc); the block repays it, because a value without calls is computed completely. *)
From Coq Require Import List ZArith NArith Lia Bool.
From Theo Require Import Base Tokens Errors MacroExtract Parser VMModel VMSpec GenModel Compile RefSem RefSemChk C01Statements C01Stages Gen_Consts Proofs_VM_mem Proofs_VM_dbg Proofs_Gen0 Proofs_Gen Proofs_Sem Proofs_C01a Proofs_C01b Proofs_C01 Proofs_C01s2a Proofs_C01s2b Proofs_C01s2 Proofs_C01s3a Proofs_C01s4a Proofs_C01s4b Proofs_C01s4c Proofs_C01s4d Proofs_C01s4e Proofs_C01s4f Proofs_C01s6a Proofs_C01s6c Proofs_C01s6d Proofs_C01s6e Proofs_C01s6f.
Import ListNotations.
Local Open Scope Z_scope.

(* ================================================================================================ *)
(* 1. straight-line code: the first instructions of the block of a value without calls              *)
(* ================================================================================================ *)
Definition nocall (v : rvalue) : Prop := forall j args, v <> RCall j args.

Definition simple_ok (N : Z) (ins : instr) : Prop :=
  ins = IPotentialBreak \/
  (exists t src c, ins = IAdd t src c /\ 0 <= t < N /\ 0 <= src < N) \/
  (exists t c, ins = IConst t c /\ 0 <= t < N).

Definition sl (C : list instr) (N q len : Z) : Prop :=
  forall j, 0 <= j < len -> exists ins, znth C (q + j) = Some ins /\ simple_ok N ins.

Lemma sl_app C N q l1 l2 : 0 <= l1 -> sl C N q l1 -> sl C N (q + l1) l2 -> sl C N q (l1 + l2).
Proof.
  intros H1 A B j Hj. destruct (Z.lt_ge_cases j l1) as [Hlt|Hge]; [apply A; lia|].
  destruct (B (j - l1) ltac:(lia)) as (ins & Hz & Ho). exists ins. split; [|exact Ho].
  replace (q + j) with (q + l1 + (j - l1)) by lia. exact Hz.
Qed.

Lemma sl_one C N q ins : znth C q = Some ins -> simple_ok N ins -> sl C N q 1.
Proof. intros Hz Ho j Hj. assert (j = 0) by lia. subst j. rewrite Z.add_0_r. eauto. Qed.

Lemma vmatch6_sl rm C FT N v tgt q S n : rm_ok rm N -> vmatch6 rm C FT v tgt q S n -> nocall v -> 0 <= tgt < N ->
  sl C N q (vlen4 v + n).
Proof.
  intros OK H. induction H as [v tgt q S n Hz Hm IH|y tgt q S ry Hy Hz|c tgt q S Hc Hz
                  |y c tgt q S t1 t2 n1 n2 T1 T2 _ _ _ M1 IH1 M2 IH2 Z2|y c tgt q S t1 t2 n1 n2 T1 T2 _ _ _ M1 IH1 M2 IH2 Z2
                  |j args tgt q S ts entry size mi n _ _ _ _ _]; intros Hnc Ht.
  - pose proof (vlen4_nonneg v). pose proof (vmatch6_nonneg _ _ _ _ _ _ _ _ Hm).
    replace (vlen4 v + (n + 1)) with (1 + (vlen4 v + n)) by lia. apply sl_app; [lia | | apply IH; assumption].
    eapply sl_one; [exact Hz | left; reflexivity].
  - cbn [vlen4 vlen]. rewrite Z.add_0_r. eapply sl_one; [exact Hz|]. right; left. exists tgt, ry, 0.
    split; [reflexivity|]. split; [exact Ht | exact (rmo_var_rng _ _ OK _ _ Hy)].
  - cbn [vlen4 vlen]. rewrite Z.add_0_r. eapply sl_one; [exact Hz|]. right; right. exists tgt, c. auto.
  - pose proof (rmo_tmp_rng _ _ OK _ T1) as R1. pose proof (rmo_tmp_rng _ _ OK _ T2) as R2.
    pose proof (vmatch6_nonneg _ _ _ _ _ _ _ _ M1). pose proof (vmatch6_nonneg _ _ _ _ _ _ _ _ M2).
    cbn [vlen4 vlen] in *. replace (3 + (n1 + n2)) with ((1 + n1) + ((1 + n2) + 1)) by lia.
    apply sl_app; [lia | apply IH1; [intros j0 a0 E; discriminate E | exact R1]|].
    apply sl_app; [lia | replace (q + (1 + n1)) with (q + 1 + n1) by lia; apply IH2; [intros j0 a0 E; discriminate E | exact R2]|].
    eapply sl_one; [replace (q + (1 + n1) + (1 + n2)) with (q + 2 + n1 + n2) by lia; exact Z2|].
    right; left. exists tgt, t1, c. auto.
  - pose proof (rmo_tmp_rng _ _ OK _ T1) as R1. pose proof (rmo_tmp_rng _ _ OK _ T2) as R2.
    pose proof (vmatch6_nonneg _ _ _ _ _ _ _ _ M1). pose proof (vmatch6_nonneg _ _ _ _ _ _ _ _ M2).
    cbn [vlen4 vlen] in *. replace (3 + (n1 + n2)) with ((1 + n1) + ((1 + n2) + 1)) by lia.
    apply sl_app; [lia | apply IH1; [intros j0 a0 E; discriminate E | exact R1]|].
    apply sl_app; [lia | replace (q + (1 + n1)) with (q + 1 + n1) by lia; apply IH2; [intros j0 a0 E; discriminate E | exact R2]|].
    eapply sl_one; [replace (q + (1 + n1) + (1 + n2)) with (q + 2 + n1 + n2) by lia; exact Z2|].
    right; left. exists tgt, t1, (- c). auto.
  - exfalso. exact (Hnc _ _ eq_refl).
Qed.

(* the VM executes straight-line code instruction by instruction *)
Lemma sl_run C N s act rest q len : code (prog s) = C -> stack s = act :: rest -> 0 <= data_start act ->
  sl C N q len ->
  forall j d, Z.of_nat j <= len -> data_start act + N <= zlen d ->
    exists d', vm_run j (vm_at s q d) = Ok (vm_at s (q + Z.of_nat j) d') /\ zlen d' = zlen d.
Proof.
  intros HC Hst Hb Hsl. induction j as [|j IH]; intros d Hj Hd.
  - exists d. cbn [vm_run Z.of_nat]. rewrite Z.add_0_r. auto.
  - destruct (IH d ltac:(lia) Hd) as (d1 & R1 & L1).
    destruct (Hsl (Z.of_nat j) ltac:(lia)) as (ins & Hz & Ho).
    assert (Hone : exists d2, vm_run 1 (vm_at s (q + Z.of_nat j) d1) = Ok (vm_at s (q + Z.of_nat j + 1) d2) /\ zlen d2 = zlen d1).
    { destruct Ho as [->|[(t & src & c & -> & Rt & Rs)|(t & c & -> & Rt)]].
      - exists d1. split; [apply at_pb; rewrite HC; exact Hz | reflexivity].
      - destruct (znth_in_range d1 (data_start act + src)) as [x Hx]; [lia|].
        destruct (zupd_ex d1 (data_start act + t) (clampz (x + c)) ltac:(lia)) as [d2 U].
        exists d2. split; [eapply at_add; [rewrite HC; exact Hz | exact Hst | exact Hx | exact U] | exact (zupd_length _ _ _ _ U)].
      - destruct (zupd_ex d1 (data_start act + t) c ltac:(lia)) as [d2 U].
        exists d2. split; [eapply at_const; [rewrite HC; exact Hz | exact Hst | exact U] | exact (zupd_length _ _ _ _ U)]. }
    destruct Hone as (d2 & R2 & L2). exists d2. split; [|lia].
    replace (S j) with (j + 1)%nat by lia. rewrite Nat2Z.inj_add. change (Z.of_nat 1) with 1.
    replace (q + (Z.of_nat j + 1)) with (q + Z.of_nat j + 1) by lia. eapply vm_run_trans; eauto.
Qed.

(* g instructions of straight-line code of more than g instructions: the VM is not done *)
Lemma sl_prefix C N s act rest q len g d : code (prog s) = C -> stack s = act :: rest -> 0 <= data_start act ->
  sl C N q len -> 0 <= g < len -> data_start act + N <= zlen d ->
  exists s', vm_run (Z.to_nat g) (vm_at s q d) = Ok s' /\ isDone s' = Ok false.
Proof.
  intros HC Hst Hb Hsl Hg Hd.
  destruct (sl_run C N s act rest q len HC Hst Hb Hsl (Z.to_nat g) d ltac:(lia) Hd) as (d' & R & _).
  rewrite Z2Nat.id in R by lia. eexists. split; [exact R|].
  destruct (Hsl g Hg) as (ins & Hz & Ho). unfold isDone, vm_at. cbn [prog ip]. rewrite HC, Hz. cbn [of_opt bind].
  destruct Ho as [->|[(t & src & c & -> & _)|(t & c & -> & _)]]; reflexivity.
Qed.

(* a value without calls is evaluated by the checked evaluator on the spot *)
Lemma eval_c_nocall rs rec a here rm C FT v tgt q S n st tr : vmatch6 rm C FT v tgt q S n -> nocall v ->
  (exists z, eval_c rs rec a here v st tr = EValc z st tr) \/ eval_c rs rec a here v st tr = EBadc.
Proof.
  intros H. induction H; intros Hnc; try (left; eexists; reflexivity); auto.
  - cbn [eval_c]. destruct (INT_MAX <=? get (ra_vars a) y + c); [right; reflexivity | left; eexists; reflexivity].
  - exfalso. exact (Hnc _ _ eq_refl).
Qed.

(* ================================================================================================ *)
(* 2. runs, with step accounting                                                                    *)
(* ================================================================================================ *)
Section Run6b.
  Variable rs : list routine.
  Variable RI : nat -> rinfo.
  Variable GB : nat -> Z -> Z.
  Variable C : list instr.
  Variable FT : ftab.
  Hypothesis FT_ok : forall j e sz mi, FT j = Some (e, sz, mi) ->
    e = ri_P0 (RI j) /\ sz = ri_N (RI j) /\ mi = ri_mi (RI j).
  Hypothesis ROK : forall k r, nth_error rs k = Some r -> routine_ok6 RI GB C FT k r.
  (* a group with sites inside belongs to an assignment of a value without calls (or to LOOP / WHILE / IF) *)
  Hypothesis HB : forall k r pc x v, nth_error rs k = Some r -> znth (r_code r) pc = Some (RAssign x v) ->
    0 < GB k pc -> nocall v.

  Notation FV := (FrameView rs RI).
  Notation LOK := (LowOK rs RI).
  Notation Res6b := (Res6b rs RI C).
  Notation SimAt6b := (SimAt6b rs RI GB C).
  Notation Top := (Top RI C).
  Notation vp := (vp RI GB).

  Lemma Res6b_compose k s base d d1 steps st1 f dbt q q1 n o :
    code (prog s) = C ->
    vm_run n (vm_at s q d) = Ok (vm_at s q1 d1) -> 1 + dbt <= Z.of_nat n -> Z.of_nat st1 + dbt <= Z.of_nat steps + Z.of_nat n ->
    (forall j, j < base -> znth d1 j = znth d j) ->
    (exists m s', dbt <= Z.of_nat m /\ vm_run m (vm_at s q d) = Ok s' /\ isDone s' = Ok false) ->
    Res6b k s base d1 st1 f 0 q1 o -> Res6b k s base d steps (S f) dbt q o.
  Proof.
    intros HC Hrun Hn Hst Hpre Hpf HR. destruct o as [ret st' tr'|vw st' tr'| |]; cbn [Proofs_C01s6f.Res6b] in *.
    - destruct HR as (n2 & d2 & q2 & ro & R2 & Zr & Rro & Zret & Bret & F2 & P2 & St2).
      exists (n + n2)%nat, d2, q2, ro. split; [eapply vm_run_trans; eauto|]. split; [exact Zr|]. split; [exact Rro|].
      split; [exact Zret|]. split; [exact Bret|]. split; [exact F2|]. split; [|lia].
      intros j Hj. rewrite P2 by exact Hj. apply Hpre; exact Hj.
    - destruct HR as (n2 & s' & R2 & D2 & F2 & St2). exists (n + n2)%nat, s'.
      split; [eapply vm_run_trans; eauto|]. split; [exact D2|]. split; [exact F2 | lia].
    - intros _. destruct f as [|f'].
      + destruct Hpf as (m & s' & Hm & R & D). exists m, s'. split; [lia|]. auto.
      + destruct (HR ltac:(lia)) as (m & s' & Hm & R2 & D2). exists (n + m)%nat, s'.
        split; [lia|]. split; [eapply vm_run_trans; eauto | exact D2].
    - exact I.
  Qed.

  (* the block of a group: the VM can execute as many instructions as the group has sites and is not done *)
  Lemma block_prefix k r pc i s act rest d :
    nth_error rs k = Some r -> znth (r_code r) pc = Some i -> Top k s act rest ->
    0 <= data_start act -> data_start act + ri_N (RI k) <= zlen d ->
    imatch6 (ri_rm (RI k)) C FT (jpost6 RI GB k r) (pm4 RI k r (pc - GB k pc)) (GB k pc) i ->
    (match i with RAssign _ _ | RLoopInit _ _ | RWhileTest _ _ | RIfGoto _ _ _ => True | _ => False end) ->
    exists m s', GB k pc <= Z.of_nat m /\ vm_run m (vm_at s (pm4 RI k r (pc - GB k pc)) d) = Ok s' /\ isDone s' = Ok false.
  Proof.
    intros Hk Hi (HC & Hst & Hsz & Hdi) Hb Hd HM Hkind.
    pose proof (ro6_rm _ _ _ _ _ _ (ROK _ _ Hk)) as OKk.
    set (rm := ri_rm (RI k)) in *. set (N := ri_N (RI k)) in *. set (g := GB k pc) in *. set (q := pm4 RI k r (pc - g)) in *.
    pose proof (imatch6_k_nonneg _ _ _ _ _ _ _ HM) as Hg.
    assert (Hsl : forall len, sl C N q len -> g < len ->
              exists m s', g <= Z.of_nat m /\ vm_run m (vm_at s q d) = Ok s' /\ isDone s' = Ok false).
    { intros len Hs Hlt. destruct (sl_prefix C N s act rest q len g d HC Hst Hb Hs ltac:(lia) Hd) as (s' & R & D).
      exists (Z.to_nat g), s'. split; [lia | auto]. }
    destruct i as [l|x v|id v|id ex|id back|v ex|target|l|x y l| |out|]; try contradiction; cbn [imatch6] in HM.
    - destruct HM as (rx & Hx & HV). pose proof (rmo_var_rng _ _ OKk _ _ Hx) as Rx.
      destruct (Z.eq_dec g 0) as [E0|Hne].
      + exists 0%nat, (vm_at s q d). split; [lia|]. split; [reflexivity|]. apply not_halt_done6 with (C := C); [exact HC|].
        eapply vmatch6_first; exact HV.
      + assert (Hnc : nocall v) by (eapply (HB k r pc x v Hk Hi); fold g; lia).
        apply (Hsl (vlen4 v + g)); [eapply vmatch6_sl; eauto|]. pose proof (vmatch6_len_pos _ _ _ _ _ _ _ _ HV). lia.
    - destruct v as [b| | | |]; try contradiction. destruct HM as (rc & Hx & HV). pose proof (rmo_cnt_rng _ _ OKk _ _ Hx) as Rx.
      apply (Hsl (vlen4 (RVar b) + g)); [eapply vmatch6_sl; eauto; intros j0 a0 E; discriminate E | cbn [vlen4 vlen]; lia].
    - destruct v as [c| | | |]; try contradiction. destruct HM as (t & f0 & Tt & HV & _). pose proof (rmo_tmp_rng _ _ OKk _ Tt) as Rt.
      apply (Hsl (vlen4 (RVar c) + g)); [eapply vmatch6_sl; eauto; intros j0 a0 E; discriminate E | cbn [vlen4 vlen]; lia].
    - destruct x as [y0| | | |]; try contradiction. destruct y as [|c| | |]; try contradiction.
      destruct HM as (t1 & t2 & tc & f0 & n1 & n2 & Ek & T1 & T2 & Tc & Hne & M1 & M2 & _).
      pose proof (rmo_tmp_rng _ _ OKk _ T1) as R1. pose proof (rmo_tmp_rng _ _ OKk _ T2) as R2.
      pose proof (vmatch6_nonneg _ _ _ _ _ _ _ _ M1). pose proof (vmatch6_nonneg _ _ _ _ _ _ _ _ M2).
      apply (Hsl ((1 + n1) + (1 + n2))); [|lia].
      apply sl_app; [lia | apply (vmatch6_sl rm C FT N _ _ _ _ _ OKk M1); [intros j0 a0 E; discriminate E | exact R1]|].
      replace (q + (1 + n1)) with (q + 1 + n1) by lia.
      apply (vmatch6_sl rm C FT N _ _ _ _ _ OKk M2); [intros j0 a0 E; discriminate E | exact R2].
  Qed.

  (* the closing instruction of the group of a ghost site *)
  Lemma group_end k r : nth_error rs k = Some r -> forall m pc0 i0, Z.of_nat m = zlen (r_code r) - pc0 -> 0 <= pc0 ->
    znth (r_code r) pc0 = Some i0 ->
    exists pcI iI, pc0 <= pcI /\ znth (r_code r) pcI = Some iI /\ GB k pcI = GB k pc0 + (pcI - pc0) /\
      GB k (pcI + 1) = 0 /\ pm4 RI k r (pcI - GB k pcI) = pm4 RI k r (pc0 - GB k pc0) /\
      imatch6 (ri_rm (RI k)) C FT (jpost6 RI GB k r) (pm4 RI k r (pc0 - GB k pc0)) (GB k pcI) iI.
  Proof.
    intros Hk. pose proof (ROK _ _ Hk) as [OKk Gb0 Gbe CMk Park NDk HNk].
    induction m as [|m IHm]; intros pc0 i0 Hm Hp0 Hi0; pose proof (znth_some_range _ _ _ Hi0) as R0; [lia|].
    destruct (CMk _ _ Hi0) as (G0 & _ & [(Eg1 & l & ->)|(Eg1 & HM0)]).
    - destruct (znth_in_range (r_code r) (pc0 + 1)) as [i1 Hi1].
      { split; [lia|]. destruct (Z.lt_ge_cases (pc0 + 1) (zlen (r_code r))) as [|Hge]; [assumption|]. exfalso.
        assert (E : pc0 + 1 = zlen (r_code r)) by lia. rewrite E, Gbe in Eg1. lia. }
      destruct (IHm (pc0 + 1) i1 ltac:(lia) ltac:(lia) Hi1) as (pcI & iI & A1 & A2 & A3 & A4 & A5 & A6).
      exists pcI, iI. split; [lia|]. split; [exact A2|]. split; [lia|]. split; [exact A4|].
      replace (pc0 + 1 - GB k (pc0 + 1)) with (pc0 - GB k pc0) in A5, A6 by lia. auto.
    - exists pc0, i0. split; [lia|]. split; [exact Hi0|]. split; [lia|]. auto.
  Qed.

  Theorem sim_all6b : forall fuel, SimAt6b fuel.
  Proof.
    induction fuel as [|f IHf]; intros k r ctx a pc steps trace s d act rest Hk HT HS HL.
    - cbn [run_chk Proofs_C01s6f.Res6b]. intros H; lia.
    - rewrite run_chk_S. unfold body_c. rewrite Hk.
      destruct (znth (r_code r) pc) as [i|] eqn:Hi; [|exact I].
      pose proof (ROK _ _ Hk) as [OKk Gb0 Gbe CMk Park NDk HNk]. destruct (CMk _ _ Hi) as (Hg0 & Epm & HM).
      pose proof (pm_of4_next (ri_P0 (RI k)) _ _ _ Hi) as Hnext. fold (pm4 RI k r (pc + 1)) in Hnext. fold (pm4 RI k r pc) in Hnext.
      pose proof HT as (HC & Hst & Hsz & Hdi). pose proof (sr_fit _ _ _ _ _ HS) as Hfit.
      pose proof (znth_some_range _ _ _ Hi) as Rpc.
      set (rm := ri_rm (RI k)) in *. set (N := ri_N (RI k)) in *. set (base := data_start act) in *.
      set (g := GB k pc) in *. set (q := pm4 RI k r (pc - g)) in *.
      destruct HM as [(Eg1 & l & ->)|(Eg1 & HM)].
      { (* a site inside a group: a step of the reference machine only; the debt grows *)
        unfold exec_instr_c. cbv zeta.
        pose proof (IHf k r ctx a (pc + 1) (S steps) (trace ++ [(l, ctx ++ [view_of r a])]) s d act rest Hk HT HS HL) as HR.
        replace (vp k r (pc + 1)) with q in HR by (unfold Proofs_C01s6c.vp; rewrite Eg1; fold g; unfold q; f_equal; lia).
        rewrite Eg1 in HR. fold g in HR.
        destruct (run_chk rs f ctx k a (pc + 1) (S steps) (trace ++ [(l, ctx ++ [view_of r a])])) as [ret st' tr'|vw st' tr'| |] eqn:Eo;
          cbn [Proofs_C01s6f.Res6b] in *.
        - destruct HR as (n & d' & q' & ro & R & Zr & Rro & Zret & Bret & F2 & P2 & St). exists n, d', q', ro. repeat (split; [assumption|]). lia.
        - destruct HR as (n & s' & R & D & F & St). exists n, s'. repeat (split; [assumption|]). lia.
        - intros _. destruct f as [|f'].
          + destruct (group_end k r Hk (Z.to_nat (zlen (r_code r) - pc)) pc (RSite l) ltac:(lia) ltac:(lia) Hi)
              as (pcI & iI & A1 & A2 & A3 & A4 & A5 & A6). fold g in A3, A5, A6. fold q in A5, A6.
            assert (HpcI : pc < pcI).
            { destruct (Z.eq_dec pcI pc) as [->|]; [|lia]. rewrite Eg1 in A4. lia. }
            destruct (block_prefix k r pcI iI s act rest d Hk A2 HT ltac:(lia) ltac:(lia)) as (m & s' & Hm & R & D).
            * rewrite A5. exact A6.
            * destruct iI; cbn [imatch6] in A6; try exact I; destruct A6 as [E0 _]; lia.
            * rewrite A5 in R. exists m, s'. split; [lia | auto].
          + destruct (HR ltac:(lia)) as (m & s' & Hm & R & D). exists m, s'. split; [lia | auto].
        - exact I. }
      assert (Evp1 : vp k r (pc + 1) = q + g + blen4 i).
      { unfold Proofs_C01s6c.vp. rewrite Eg1, Z.sub_0_r. unfold q. lia. }
      (* the block can be started: g instructions at least *)
      assert (Hpf : is_site i = false -> i <> RStop -> i <> RHalt -> (forall o, i <> RReturn o) ->
                exists m s', g <= Z.of_nat m /\ vm_run m (vm_at s q d) = Ok s' /\ isDone s' = Ok false).
      { intros Hns Hn1 Hn2 Hn3.
        destruct i as [l|x v|id v|id ex|id back|v ex|target|l|x y l| |out|]; try discriminate Hns; try congruence;
          try (apply (block_prefix k r pc _ s act rest d Hk Hi HT); [lia | lia | exact HM | exact I]);
          try (exfalso; eapply Hn3; reflexivity);
          cbn [imatch6] in HM; destruct HM as [E0 HM]; exists 0%nat, (vm_at s q d); (split; [lia|]); (split; [reflexivity|]);
          apply not_halt_done6 with (C := C); try exact HC; cbn [imatch4 imatch3 imatch] in HM.
        - destruct HM as (rc & f0 & _ & Hz & _). eexists; split; [exact Hz | reflexivity].
        - destruct HM as (rc & f0 & _ & Hz & _). eexists; split; [exact Hz | reflexivity].
        - destruct HM as (f0 & Hz & _). eexists; split; [exact Hz | reflexivity].
        - destruct HM as (f0 & Hz & _). eexists; split; [exact Hz | reflexivity]. }
      assert (Hstep : forall a' d' n pc' st1 tr1, vm_run n (vm_at s q d) = Ok (vm_at s (vp k r pc') d') ->
                SR rm base N a' d' -> (forall j, j < base -> znth d' j = znth d j) -> zlen d' = zlen d ->
                1 + g <= Z.of_nat n -> Z.of_nat st1 + g <= Z.of_nat steps + Z.of_nat n ->
                (exists m s', g <= Z.of_nat m /\ vm_run m (vm_at s q d) = Ok s' /\ isDone s' = Ok false) ->
                Res6b k s base d steps (S f) g q (run_chk rs f ctx k a' pc' st1 tr1)).
      { intros a' d' n pc' st1 tr1 Hvm HS' Hpre Ld Hn Hst1 Hp.
        assert (HL' : LOK base rest ctx d').
        { eapply LowOK_stable; [exact HL | rewrite Ld; lia | exact Hpre]. }
        pose proof (IHf k r ctx a' pc' st1 tr1 s d' act rest Hk HT HS' HL') as HR.
        assert (HR0 : Res6b k s base d' st1 f 0 (vp k r pc') (run_chk rs f ctx k a' pc' st1 tr1)).
        { destruct (znth (r_code r) pc') as [i'|] eqn:Ei'.
          - destruct (CMk _ _ Ei') as (G0 & _). revert HR. generalize (GB k pc') G0. intros dbt Hd0.
            destruct (run_chk rs f ctx k a' pc' st1 tr1) as [ret st' tr'|vw st' tr'| |]; cbn [Proofs_C01s6f.Res6b]; auto.
            + intros (n2 & d2 & q2 & ro & R2 & Zr & Rro & Zret & Bret & F2 & P2 & St2). exists n2, d2, q2, ro. repeat (split; [assumption|]). lia.
            + intros (n2 & s' & R2 & D2 & F2 & St2). exists n2, s'. repeat (split; [assumption|]). lia.
            + intros H H1. destruct (H H1) as (m & s' & Hm & R & D). exists m, s'. split; [lia | auto].
          - destruct f as [|f']; [cbn [run_chk Proofs_C01s6f.Res6b]; intros H; lia|].
            rewrite run_chk_S. unfold body_c. rewrite Hk, Ei'. exact I. }
        exact (Res6b_compose k s base d d' steps st1 f g q _ n _ HC Hvm Hn Hst1 Hpre Hp HR0). }
      assert (Hold : forall (i0 : rinstr), i0 = i -> g = 0 -> is_site i0 = false \/ True -> imatch3 rm C (jpost6 RI GB k r) q i0 -> blen4 i0 = blen3 i0 ->
                Res6b k s base d steps (S f) g q (exec_instr_c rs (run_chk rs f) r ctx k a pc steps trace i0)).
      { intros i0 -> Hgz _ HM3 Hb.
        assert (HM3' : imatch3 rm C (jpostG r (vp k r)) (vp k r pc) i).
        { change (vp k r pc) with q. eapply imatch3_mono; [apply rm_le_refl | intros q' ins _ Hz; exact Hz | | exact HM3].
          intros q' f0 e _ Hj. eapply vp_jump; exact Hj. }
        assert (Hnx : vp k r (pc + 1) = vp k r pc + blen3 i) by (rewrite Evp1; change (vp k r pc) with q; rewrite Hgz, <- Hb; lia).
        destruct (exec_instr_c rs (run_chk rs f) r ctx k a pc steps trace i) as [ret st' tr'|vw st' tr'| |] eqn:HX; [| | |exact I].
        - destruct (step3_generic rs k r rm base N C (vp k r) OKk (run_chk rs f) ctx a pc steps trace i s d _ HM3' Hnx
                      (conj HC (ex_intro _ act (ex_intro _ rest (conj Hst eq_refl)))) HS HX ltac:(discriminate))
            as [(_ & Ho)|(NH & a' & pc' & tr1 & n & d' & Hn & Hvm & HS' & Hch & Hrec)]; [discriminate|].
          change (vp k r pc) with q in Hvm, NH. rewrite <- Hrec. apply (Hstep a' d' n pc' (S steps) tr1 Hvm HS').
          + intros j Hj. eapply chg_outside; eauto. unfold in_frame. lia.
          + apply Hch.
          + lia.
          + lia.
          + exists 0%nat, (vm_at s q d). split; [lia|]. split; [reflexivity|]. apply not_halt_done6 with (C := C); assumption.
        - destruct (step3_generic rs k r rm base N C (vp k r) OKk (run_chk rs f) ctx a pc steps trace i s d _ HM3' Hnx
                      (conj HC (ex_intro _ act (ex_intro _ rest (conj Hst eq_refl)))) HS HX ltac:(discriminate))
            as [(Hhalt & Ho)|(NH & a' & pc' & tr1 & n & d' & Hn & Hvm & HS' & Hch & Hrec)].
          + injection Ho as -> -> ->. cbn [Proofs_C01s6f.Res6b].
            exists 0%nat, (vm_at s q d). split; [reflexivity|]. split.
            * apply (halted_at C); [exact HC|]. destruct Hhalt as [-> | ->]; exact HM3.
            * split; [|lia]. cbn [vm_at data stack]. rewrite Hst. eapply (top_views6 rs RI GB C FT ROK); eauto.
          + change (vp k r pc) with q in Hvm, NH. rewrite <- Hrec. apply (Hstep a' d' n pc' (S steps) tr1 Hvm HS').
            * intros j Hj. eapply chg_outside; eauto. unfold in_frame. lia.
            * apply Hch.
            * lia.
            * lia.
            * exists 0%nat, (vm_at s q d). split; [lia|]. split; [reflexivity|]. apply not_halt_done6 with (C := C); assumption.
        - destruct (step3_generic rs k r rm base N C (vp k r) OKk (run_chk rs f) ctx a pc steps trace i s d _ HM3' Hnx
                      (conj HC (ex_intro _ act (ex_intro _ rest (conj Hst eq_refl)))) HS HX ltac:(discriminate))
            as [(_ & Ho)|(NH & a' & pc' & tr1 & n & d' & Hn & Hvm & HS' & Hch & Hrec)]; [discriminate|].
          change (vp k r pc) with q in Hvm, NH. rewrite <- Hrec. apply (Hstep a' d' n pc' (S steps) tr1 Hvm HS').
          + intros j Hj. eapply chg_outside; eauto. unfold in_frame. lia.
          + apply Hch.
          + lia.
          + lia.
          + exists 0%nat, (vm_at s q d). split; [lia|]. split; [reflexivity|]. apply not_halt_done6 with (C := C); assumption. }
      assert (Hg0' : 0 <= g) by exact Hg0.
      destruct i as [l|x v|id v|id ex|id back|v ex|target|l|x y l| |out|]; cbn [imatch6] in HM;
        try (destruct HM as [Hgz HM]; apply Hold; [reflexivity | exact Hgz | right; exact I | exact HM | reflexivity]).
      + (* RAssign *)
        pose proof (Hpf eq_refl ltac:(discriminate) ltac:(discriminate) ltac:(discriminate)) as Hp.
        destruct HM as (rx & Hx & HV). cbn [blen4] in Evp1.
        unfold exec_instr_c. cbv zeta.
        pose proof (rmo_var_rng _ _ OKk _ _ Hx) as Rx.
        pose proof (eval6b rs RI GB C FT FT_ok ROK f IHf k r ctx a s act rest Hk HT v rx q (fun _ => True) g (S steps) trace d HV Rx HS HL) as HE.
        assert (Hcall : 0 < g -> (exists z, eval_c rs (run_chk rs f) a (ctx ++ [view_of r a]) v (S steps) trace = EValc z (S steps) trace) \/
                                 eval_c rs (run_chk rs f) a (ctx ++ [view_of r a]) v (S steps) trace = EBadc).
        { intros Hgp. eapply eval_c_nocall; [exact HV|]. eapply (HB k r pc x v Hk Hi). exact Hgp. }
        destruct (eval_c rs (run_chk rs f) a (ctx ++ [view_of r a]) v (S steps) trace) as [z st1 tr1|vw st1 tr1| |] eqn:EE; cbn [VRes6b] in HE.
        * destruct HE as (n & d' & Hvm & Ld & Hz & Hzb & Hun & Hacc & Hn).
          replace (q + vlen4 v + g) with (vp k r (pc + 1)) in Hvm by (rewrite Evp1; lia).
          apply (Hstep _ d' n (pc + 1) st1 tr1 Hvm); [| |exact Ld|lia|lia|exact Hp].
          -- eapply SR_var; [exact OKk | exact HS | exact Hx | | exact Hz | exact Hzb]. split; [exact Ld|].
             intros j Hj Hjt. apply Hun; [exact Hj|]. intros t _ Ht. apply Hjt; exact Ht.
          -- intros j Hj. apply Hun; [lia|]. intros t _ Ht E. pose proof (rmo_tmp_rng _ _ OKk _ Ht). lia.
        * assert (Hgz : g = 0).
          { destruct (Z.eq_dec g 0) as [|Hne]; [assumption|]. destruct (Hcall ltac:(lia)) as [(z & E)|E]; discriminate E. }
          destruct HE as (m & s' & R & D & F & St). cbn [Proofs_C01s6f.Res6b]. exists m, s'. repeat (split; [assumption|]). lia.
        * assert (Hgz : g = 0).
          { destruct (Z.eq_dec g 0) as [|Hne]; [assumption|]. destruct (Hcall ltac:(lia)) as [(z & E)|E]; discriminate E. }
          destruct HE as (m & s' & Hm & R & D). cbn [Proofs_C01s6f.Res6b]. intros _. exists m, s'. split; [lia | auto].
        * exact I.
      + (* RLoopInit *)
        pose proof (Hpf eq_refl ltac:(discriminate) ltac:(discriminate) ltac:(discriminate)) as Hp.
        destruct v as [b| | | |]; try contradiction. destruct HM as (rc & Hx & HV). cbn [blen4 blen3 blen vlen] in Evp1.
        unfold exec_instr_c. cbv zeta.
        pose proof (rmo_cnt_rng _ _ OKk _ _ Hx) as Rx.
        pose proof (eval6b rs RI GB C FT FT_ok ROK f IHf k r ctx a s act rest Hk HT (RVar b) rc q (fun _ => False) g (S steps) trace d HV Rx HS HL) as HE.
        cbn [eval_c] in HE |- *. cbn [VRes6b vlen4 vlen] in HE.
        destruct HE as (n & d' & Hvm & Ld & Hz & Hzb & Hun & Hacc & Hn).
        replace (q + 1 + g) with (vp k r (pc + 1)) in Hvm by (rewrite Evp1; lia).
        apply (Hstep _ d' n (pc + 1) (S steps) trace Hvm); [| |exact Ld|lia|lia|exact Hp].
        * eapply SR_cnt; [exact OKk | exact HS | exact Hx | | exact Hz | exact Hzb]. split; [exact Ld|].
          intros j Hj Hjt. apply Hun; [exact Hj|]. intros t Hf. contradiction.
        * intros j Hj. apply Hun; [lia|]. intros t Hf. contradiction.
      + (* RWhileTest *)
        pose proof (Hpf eq_refl ltac:(discriminate) ltac:(discriminate) ltac:(discriminate)) as Hp.
        destruct v as [c| | | |]; try contradiction. destruct HM as (t & f0 & Tt & HV & Hz & Hj). cbn [blen4 blen3 blen vlen] in Evp1.
        unfold exec_instr_c. cbv zeta.
        pose proof (rmo_tmp_rng _ _ OKk _ Tt) as Rt.
        pose proof (eval6b rs RI GB C FT FT_ok ROK f IHf k r ctx a s act rest Hk HT (RVar c) t q (fun _ => False) g (S steps) trace d HV Rt HS HL) as HE.
        cbn [eval_c] in HE |- *. cbn [VRes6b vlen4 vlen] in HE.
        destruct HE as (n & d' & Hvm & Ld & Hzz & Hzb & Hun & Hacc & Hn).
        set (z := get (ra_vars a) c) in *.
        assert (HS' : SR rm base N a d').
        { eapply SR_tmp; [exact OKk | exact HS |]. split; [exact Ld|]. intros j _ Hjt. apply Hun; [|intros t0 Hf; contradiction].
          intros ->. exact (Hjt t Tt eq_refl). }
        assert (Hpre : forall j, j < base -> znth d' j = znth d j).
        { intros j Hj0. apply Hun; [lia|]. intros t0 Hf. contradiction. }
        pose proof (at_jmpc s act rest (q + 1 + g) d' f0 t z ltac:(rewrite HC; exact Hz) Hst Hzz) as Hrun2.
        cbn [jpost6] in Hj. destruct Hj as (tt & Htt & Hjj).
        destruct (z =? 0).
        * rewrite Htt. unfold goto_of. destruct (Z.ltb_spec tt 0) as [|Hge]; [exact I|].
          destruct (Hjj Hge) as [Ej Eg].
          assert (Hvm2 : vm_run (n + 1) (vm_at s q d) = Ok (vm_at s (vp k r tt) d')).
          { eapply vm_run_trans; [exact Hvm|]. unfold Proofs_C01s6c.vp. rewrite Eg, Z.sub_0_r, <- Ej. exact Hrun2. }
          apply (Hstep a d' _ tt (S steps) trace Hvm2 HS' Hpre Ld); [lia|lia|exact Hp].
        * assert (Hvm2 : vm_run (n + 1) (vm_at s q d) = Ok (vm_at s (vp k r (pc + 1)) d')).
          { eapply vm_run_trans; [exact Hvm|]. rewrite Evp1. replace (q + g + (1 + 1)) with (q + 1 + g + 1) by lia. exact Hrun2. }
          apply (Hstep a d' _ (pc + 1) (S steps) trace Hvm2 HS' Hpre Ld); [lia|lia|exact Hp].
      + (* RIfGoto *)
        pose proof (Hpf eq_refl ltac:(discriminate) ltac:(discriminate) ltac:(discriminate)) as Hp.
        destruct x as [y0| | | |]; try contradiction. destruct y as [|c| | |]; try contradiction.
        destruct HM as (t1 & t2 & tc & f0 & n1 & n2 & Ek & T1 & T2 & Tc & Hne & M1 & M2 & Z2 & Z3 & Hj).
        cbn [blen4 blen3 blen vlen] in Evp1. unfold exec_instr_c. cbv zeta.
        pose proof (rmo_tmp_rng _ _ OKk _ T1) as R1. pose proof (rmo_tmp_rng _ _ OKk _ T2) as R2. pose proof (rmo_tmp_rng _ _ OKk _ Tc) as Rc.
        pose proof (eval6b rs RI GB C FT FT_ok ROK f IHf k r ctx a s act rest Hk HT (RVar y0) t1 q (fun _ => False) n1 (S steps) trace d M1 R1 HS HL) as HE1.
        cbn [eval_c] in HE1 |- *. cbn [VRes6b vlen4 vlen] in HE1.
        destruct HE1 as (m1 & d1 & Run1 & L1 & Zx & Bx & U1 & Ac1 & Hm1).
        assert (HS1 : SR rm base N a d1).
        { eapply SR_tmp; [exact OKk | exact HS |]. split; [exact L1|]. intros j _ Hjt. apply U1; [|intros t0 Hf; contradiction].
          intros ->. exact (Hjt t1 T1 eq_refl). }
        assert (HL1 : LOK base rest ctx d1).
        { eapply LowOK_stable; [exact HL | rewrite L1; lia |].
          intros j Hj0. apply U1; [lia|]. intros t0 Hf. contradiction. }
        pose proof (eval6b rs RI GB C FT FT_ok ROK f IHf k r ctx a s act rest Hk HT (RNum c) t2 (q + 1 + n1) (fun _ => False) n2 (S steps) trace d1 M2 R2 HS1 HL1) as HE2.
        cbn [eval_c VRes6b vlen4 vlen] in HE2.
        destruct HE2 as (m2 & d2 & Run2 & L2 & Zc & Bc & U2 & Ac2 & Hm2).
        set (x := get (ra_vars a) y0) in *.
        assert (Rd1 : znth d2 (base + t1) = Some x) by (rewrite U2; [exact Zx | lia | intros t0 Hf; contradiction]).
        destruct (zupd_ex d2 (base + tc) (if x =? c then 0 else 1) ltac:(lia)) as [d3 U3].
        assert (Rd3 : znth d3 (base + tc) = Some (if x =? c then 0 else 1)) by (rewrite (znth_zupd _ _ _ _ U3), Z.eqb_refl; reflexivity).
        pose proof (zupd_length _ _ _ _ U3) as L3.
        assert (Hsame : forall j, (forall t0, rm_tmp rm t0 -> j <> base + t0) -> znth d3 j = znth d j).
        { intros j Hjt. rewrite (znth_zupd _ _ _ _ U3). destruct (Z.eqb_spec j (base + tc)) as [E|]; [exfalso; exact (Hjt tc Tc E)|].
          rewrite U2; [|intros E; exact (Hjt t2 T2 E) | intros t0 Hf; contradiction].
          apply U1; [intros E; exact (Hjt t1 T1 E) | intros t0 Hf; contradiction]. }
        assert (HS3 : SR rm base N a d3).
        { eapply SR_tmp; [exact OKk | exact HS |]. split; [lia|]. intros j _ Hjt. apply Hsame; exact Hjt. }
        assert (Hpre : forall j, j < base -> znth d3 j = znth d j).
        { intros j Hj0. apply Hsame. intros t0 Ht0 E. pose proof (rmo_tmp_rng _ _ OKk _ Ht0). lia. }
        assert (Hrun : vm_run (m1 + (m2 + (1 + 1))) (vm_at s q d) =
                       Ok (vm_at s (if (if x =? c then 0 else 1) =? 0 then q + 3 + g + f0 else q + 3 + g + 1) d3)).
        { eapply vm_run_trans; [exact Run1|]. eapply vm_run_trans; [exact Run2|].
          eapply vm_run_trans; [eapply at_test; [rewrite HC; replace (q + 1 + n1 + 1 + n2) with (q + 2 + g) by lia; exact Z2
                                                 | exact Hst | exact Rd1 | exact Zc | exact U3]|].
          replace (q + 1 + n1 + 1 + n2 + 1) with (q + 3 + g) by lia.
          eapply at_jmpc; [rewrite HC; exact Z3 | exact Hst | exact Rd3]. }
        cbn [jpost6] in Hj.
        destruct (x =? c).
        * unfold goto_of. destruct (Z.ltb_spec (label_pos (r_labels r) l) 0) as [|Hge]; [exact I|].
          destruct (Hj Hge) as [Ej Eg]. cbn [Z.eqb] in Hrun.
          assert (Hvm2 : vm_run (m1 + (m2 + (1 + 1))) (vm_at s q d) = Ok (vm_at s (vp k r (label_pos (r_labels r) l)) d3)).
          { unfold Proofs_C01s6c.vp. rewrite Eg, Z.sub_0_r, <- Ej. exact Hrun. }
          apply (Hstep a d3 _ _ (S steps) trace Hvm2 HS3 Hpre ltac:(lia)); [lia|lia|exact Hp].
        * cbn [Z.eqb] in Hrun.
          assert (Hvm2 : vm_run (m1 + (m2 + (1 + 1))) (vm_at s q d) = Ok (vm_at s (vp k r (pc + 1)) d3)).
          { rewrite Evp1. replace (q + g + (1 + 1 + 2)) with (q + 3 + g + 1) by lia. exact Hrun. }
          apply (Hstep a d3 _ _ (S steps) trace Hvm2 HS3 Hpre ltac:(lia)); [lia|lia|exact Hp].
      + (* RReturn *)
        destruct HM as [Hgz HM]. cbn [imatch4] in HM. destruct HM as (ro & Hx & Hz).
        unfold exec_instr_c. cbv zeta. cbn [Proofs_C01s6f.Res6b].
        exists 0%nat, d, q, ro. split; [reflexivity|]. split; [exact Hz|].
        split; [exact (rmo_var_rng _ _ OKk _ _ Hx)|]. split; [exact (sr_var _ _ _ _ _ HS _ _ Hx)|].
        split; [apply (sr_vb _ _ _ _ _ HS)|]. split; [apply (sr_fit _ _ _ _ _ HS)|]. split; [auto | lia].
  Qed.
End Run6b.
