(* LocStatements.v — C08_locations: in every compilation result, every available breakpoint location is the position
   (file, line) of a token of the scanned program text, and never lies in the hidden standard-macro file.
   The chain: scanner tokens -> extraction keeps/collects tokens -> macro application only rearranges tokens of the
   stream and of macro bodies (a renamed temporary keeps its position) -> every tree node stands at a token
   (C08_parser_positions) -> every available location is a node position outside the hidden file (C08_locations_ast). *)
From Theo Require Import Base Regex Tokens Errors Lexer Scan MacroExtract Grammar LR MacroApply Parser VMModel VMSpec GenModel Compile Gen_Lexer Gen_Consts CompileStatements.
Local Open Scope Z_scope.

Definition pos_of (t : token) : str * Z := (tfile t, tline t).

(* extraction: output tokens, pattern tokens and body tokens are all tokens of the input *)
Definition C08_extract_positions_stmt : Prop :=
  forall toks errs out macros, extract_macros toks = Ok (errs, out, macros) ->
    (forall t, In t out -> In t toks) /\
    (forall m t, In m macros -> In t (m_rule m) \/ In t (m_repl m) -> In (pos_of t) (map pos_of toks)).

(* macro application: every token of the result stands at the position of a token of the input stream or of a macro body *)
Definition C08_apply_positions_stmt : Prop :=
  forall input defs passes errs out, apply_macros input defs passes = Ok (errs, out) ->
    forall t, In t out ->
      In (pos_of t) (map pos_of input) \/ exists m b, In m defs /\ In b (m_repl m) /\ pos_of t = pos_of b.

(* the whole pipeline *)
Definition C08_locations_stmt : Prop :=
  forall files main r b, compile files main = Ok r -> cr_ok r = true -> In b (available (cr_prog r)) ->
    bfile b <> hidden_file /\
    exists toks serrs t,
      scan Gen_Lexer.rules (let f1 := with_standards files in
                            if fcontains f1 main then prepend_to f1 main incl_phrase else f1) main = Ok (toks, serrs) /\
      In t toks /\ tfile t = bfile b /\ tline t = bline b.
