(* CompileStatements.v — statements about the front end as a whole (C02, C08, C20_consts, C16_calls).
   "Total" = the model returns Ok: no undefined operation (UB) and no exhausted budget (Fuel). *)
From Theo Require Import Base Regex Tokens Errors Lexer Scan MacroExtract Grammar LR MacroApply Parser VMModel VMSpec VMCheck GenModel Compile Gen_Lexer Gen_Consts.
Local Open Scope Z_scope.

(* a token stream as the scanner delivers it: exactly one end-of-file token, at the end *)
Definition eof_terminated (toks : list token) : Prop :=
  exists body e, toks = body ++ [e] /\ tk e = T_EOF /\ Forall (fun t => tk t <> T_EOF) body.

(* ===== C02: the stages are total ================================================================ *)
Definition C02_extract_total_stmt : Prop :=
  forall toks, toks <> [] -> exists r, extract_macros toks = Ok r.

(* extraction keeps the stream end-of-file terminated *)
Definition C02_extract_eof_stmt : Prop :=
  forall toks errs out macros, eof_terminated toks ->
    extract_macros toks = Ok (errs, out, macros) -> eof_terminated out.

(* the parser never runs off the stream and its recursion budget always suffices *)
Definition C02_parse_total_stmt : Prop :=
  forall toks, eof_terminated toks -> exists root errs, parse_tokens toks = Ok (root, errs).

(* the shape the generator relies on *)
Fixpoint shape_ok (n : node) : bool :=
  let sub := fun o => match o with None => true | Some x => shape_ok x end in
  match n with
  | Node N_PROGRAM _ _ _ (Some (Node _ _ _ _ (Some name) ports)) body =>
      sub ports && sub body
  | Node N_PROGRAM _ _ _ _ _ => false
  | Node N_ASSIGN _ _ _ (Some _) r => sub r
  | Node N_ASSIGN _ _ _ None _ => false
  | Node N_MARK _ _ _ (Some _) _ => true
  | Node N_MARK _ _ _ None _ => false
  | Node N_GOTO _ _ _ (Some _) _ => true
  | Node N_GOTO _ _ _ None _ => false
  | Node N_IF _ _ _ (Some (Node _ _ _ _ a b)) (Some (Node _ _ _ _ (Some _) _)) => sub a && sub b
  | Node N_IF _ _ _ _ _ => false
  | Node N_CALL _ _ _ (Some _) args =>
      sub args &&
      match args with
      | Some (Node N_SPLIT _ _ _ (Some _) None) => true
      | Some (Node N_SPLIT _ _ _ (Some _) (Some (Node N_SPLIT _ _ _ (Some _) _))) => true
      | None => true
      | _ => false
      end
  | Node N_CALL _ _ _ None _ => false
  | Node _ _ _ _ l r => sub l && sub r
  end.

Definition C02_parser_shape_stmt : Prop :=
  forall toks root, parse_tokens toks = Ok (Some root, []) -> shape_ok root = true.

(* code generation is total on every tree the parser delivers without an error, and on every failed parse *)
Definition C02_gen_total_stmt : Prop :=
  (forall root, shape_ok root = true -> exists r, gen true [] (Some root) = Ok r) /\
  (forall perrs root, exists r, gen false perrs root = Ok r).

(* never both, never neither *)
Definition C02_shape_stmt : Prop :=
  forall files main r, compile files main = Ok r ->
    (cr_ok r = true /\ cr_errors r = []) \/ (cr_ok r = false /\ cr_errors r <> []).

(* an error of any earlier stage makes the result incorrect (C11_front: also the too-many-substitutions error) *)
Definition C02_errors_forwarded_stmt : Prop :=
  forall passes files main p, parse_budget passes files main = Ok p ->
    (pr_errors p <> [] -> pr_ok p = false) /\
    forall g, gen (pr_ok p) (pr_errors p) (pr_root p) = Ok g -> pr_ok p = false ->
      gr_ok g = false /\ length (gr_errors g) = length (pr_errors p).

(* ===== C08: breakpoint tables of every generated program ======================================== *)
Definition C08_gen_tables_stmt : Prop :=
  forall parsed_ok perrs root r, gen parsed_ok perrs root = Ok r ->
    tables_ok (gr_prog r) = true /\ no_break (gr_prog r) = true.

(* no available location belongs to the hidden standard-macro file, and each is the position of a node of the tree *)
Fixpoint positions (n : node) : list (str * Z) :=
  match n with
  | Node _ line file _ l r =>
      (file, line) :: (match l with Some x => positions x | None => [] end)
                   ++ (match r with Some x => positions x | None => [] end)
  end.
Definition C08_locations_ast_stmt : Prop :=
  forall root r b, gen true [] (Some root) = Ok r -> In b (available (gr_prog r)) ->
    bfile b <> hidden_file /\ In (bfile b, bline b) (positions root).

(* every node of the tree stands at the position of a token of the parsed stream *)
Definition C08_parser_positions_stmt : Prop :=
  forall toks root errs, parse_tokens toks = Ok (Some root, errs) ->
    forall f l, In (f, l) (positions root) -> exists t, In t toks /\ tfile t = f /\ tline t = l.

(* what tables_ok means, spelled out (C08_tables_ok_meaning) *)
Definition C08_tables_ok_meaning_stmt : Prop :=
  forall p, tables_ok p = true ->
    (forall b i, In i (sites p b) -> alookup z_ltb (line_info p) i = Some b /\
                                     exists ins, znth (code p) i = Some ins /\ is_break_op (iop ins) = true) /\
    (forall i b, alookup z_ltb (line_info p) i = Some b -> In i (sites p b)) /\
    (forall i ins, znth (code p) i = Some ins -> is_break_op (iop ins) = true ->
                   exists b, alookup z_ltb (line_info p) i = Some b).

(* ===== C20: constants of generated code ============================================================ *)
Definition C20_consts_stmt : Prop :=
  forall root r, gen true [] (Some root) = Ok r -> gr_ok r = true ->
    consts_in_range (gr_prog r) = true /\ counts_ok (gr_prog r) = true.
