(* Proofs_C01s6c.v — C01, stage 6 (any layout), part 7: the DYNAMIC part, preparations.
   What makes the compiled code of a routine good when sites may stand inside the blocks of statements
   (routine_ok6): GB k pc is the number of sites of the current group that immediately precede position pc of
   routine k; the VM position that belongs to pc is that of the start of the group (vp). *)
From Coq Require Import List ZArith NArith Lia Bool.
From Theo Require Import Base Tokens Errors MacroExtract Parser VMModel VMSpec GenModel Compile RefSem RefSemChk C01Statements C01Stages Gen_Consts Proofs_VM_mem Proofs_VM_dbg Proofs_Gen0 Proofs_Gen Proofs_Sem Proofs_C01a Proofs_C01b Proofs_C01 Proofs_C01s2a Proofs_C01s2b Proofs_C01s2 Proofs_C01s3a Proofs_C01s4a Proofs_C01s4b Proofs_C01s4c Proofs_C01s4d Proofs_C01s6a.
Import ListNotations.
Local Open Scope Z_scope.

Section Frames6.
  Variable rs : list routine.
  Variable RI : nat -> rinfo.
  Variable GB : nat -> Z -> Z.
  Variable C : list instr.
  Variable FT : ftab.

  Definition vp (k : nat) (r : routine) (pc : Z) : Z := pm4 RI k r (pc - GB k pc).

  (* jumps go to the start of a group *)
  Definition jpost6 (k : nat) (r : routine) : jrel3 := fun q f tg =>
    match tg with
    | JId e => exists t, znth (r_targets r) e = Some t /\ (0 <= t -> q + f = pm4 RI k r t /\ GB k t = 0)
    | JLab l => 0 <= label_pos (r_labels r) l ->
                q + f = pm4 RI k r (label_pos (r_labels r) l) /\ GB k (label_pos (r_labels r) l) = 0
    end.

  Record routine_ok6 (k : nat) (r : routine) : Prop := mkROK6 {
    ro6_rm : rm_ok (ri_rm (RI k)) (ri_N (RI k));
    ro6_gb0 : GB k 0 = 0;
    ro6_end : GB k (zlen (r_code r)) = 0;
    ro6_cm : forall pc i, znth (r_code r) pc = Some i ->
               0 <= GB k pc /\ pm4 RI k r (pc - GB k pc) + GB k pc = pm4 RI k r pc /\
               ((GB k (pc + 1) = GB k pc + 1 /\ exists l, i = RSite l) \/
                (GB k (pc + 1) = 0 /\
                 imatch6 (ri_rm (RI k)) C FT (jpost6 k r) (pm4 RI k r (pc - GB k pc)) (GB k pc) i));
    ro6_params : forall i p, nth_error (r_params r) i = Some p -> rm_var (ri_rm (RI k)) p (Z.of_nat i);
    ro6_nodup : NoDup (r_params r);
    ro6_N : 0 <= ri_N (RI k) }.

  Lemma vp_jump k r q f tg : jpost6 k r q f tg -> jpostG r (vp k r) q f tg.
  Proof.
    destruct tg as [e|l]; cbn [jpost6 jpostG].
    - intros (t & Ht & H). exists t. split; [exact Ht|]. intros H0. destruct (H H0) as [A B]. unfold vp. rewrite B, Z.sub_0_r. exact A.
    - intros H H0. destruct (H H0) as [A B]. unfold vp. rewrite B, Z.sub_0_r. exact A.
  Qed.
End Frames6.
