(* Proofs_Prio.v — C20, macro priorities.
   (1) C20_priority_word: the priorities of the delivered macros are 32-bit words.
   (2) C20_priority_range: as stated it is FALSE (two counterexamples below, evaluated by vm_compute); the
       partial variants C20_priority_range_partial* are proved with the extra hypotheses that are needed. *)
From Coq Require Import List ZArith NArith Lia Bool.
From Theo Require Import Base Tokens Errors MacroExtract PrioStatements Proofs_Front Proofs_Apply0 Proofs_Apply Proofs_Loc Proofs_LocErr1.
From Theo Require Import CompileStatements.
Import ListNotations.
Local Open Scope Z_scope.

(* ================================================================================================ *)
(* 0. small helpers                                                                                  *)
(* ================================================================================================ *)
Lemma pr_bind_inv {A B} (r : result A) (f : A -> result B) b :
  bind r f = Ok b -> exists a, r = Ok a /\ f a = Ok b.
Proof. destruct r as [a| |]; cbn [bind]; intros H; try discriminate. exists a. split; [reflexivity|exact H]. Qed.

Lemma pr_znth_bound {A} (l : list A) i x : znth l i = Some x -> 0 <= i < zlen l.
Proof.
  unfold znth, zlen. destruct (i <? 0) eqn:E; [discriminate|]. apply Z.ltb_ge in E. intros H.
  assert (N : nth_error l (Z.to_nat i) <> None) by congruence.
  apply nth_error_Some in N. lia.
Qed.

Lemma pr_wrap_int_range v : - INT_MAX - 1 <= wrap_int v <= INT_MAX.
Proof.
  unfold wrap_int, INT_MAX. pose proof (Z.mod_pos_bound (v + 2147483648) 4294967296). lia.
Qed.

(* ================================================================================================ *)
(* 1. C20_priority_word                                                                              *)
(* ================================================================================================ *)
Definition wordm (m : macrodef) : Prop := - INT_MAX - 1 <= m_priority m <= INT_MAX.
Definition winv (x : xstate) : Prop := Forall wordm (x_macros x).

Section XWord.
  Variable tokens : list token.

  Lemma err_here_winv x k : winv x -> rpost (err_here tokens x k) winv.
  Proof. intros H. unfold err_here. apply rpost_bind_any. intros t. apply rpost_ok. exact H. Qed.

  Lemma xmatch_winv x k : winv x -> rpost (xmatch tokens x k) (fun r => winv (fst r)).
  Proof.
    intros H. unfold xmatch. apply rpost_bind_any. intros la. destruct (tk_eqb la k).
    - apply rpost_ok. exact H.
    - eapply rpost_bind; [apply err_here_winv; exact H|]. intros x1 H1. apply rpost_ok. exact H1.
  Qed.

  Lemma advance_winv x : winv x -> rpost (MacroExtract.advance tokens x) winv.
  Proof.
    intros H. unfold MacroExtract.advance. apply rpost_bind_any. intros la.
    eapply rpost_bind; [apply xmatch_winv; exact H|]. intros r Hr. apply rpost_ok. exact Hr.
  Qed.

  Lemma copy_winv x : winv x -> rpost (copy tokens x) winv.
  Proof. intros H. unfold copy. apply rpost_bind_any. intros t. apply rpost_ok. exact H. Qed.

  Lemma strToInt_winv x s : winv x ->
    rpost (strToInt tokens x s) (fun r => winv (fst r) /\ snd r = wrap_int (strtol s)).
  Proof.
    intros H. unfold strToInt. apply rpost_bind_any. intros t. apply rpost_ok. cbn [fst snd].
    split; [|reflexivity]. destruct (INT_MAX <=? strtol s); exact H.
  Qed.

  Lemma push_macro_winv x : winv x -> winv (push_macro x).
  Proof.
    intros H. unfold winv, push_macro. cbn [x_macros]. apply Forall_app. split; [exact H|].
    constructor; [|constructor]. unfold wordm, INT_MAX. cbn [m_priority]. lia.
  Qed.

  Lemma pop_macro_winv x : winv x -> rpost (pop_macro x) winv.
  Proof.
    intros H. unfold pop_macro. unfold winv in H. rewrite <- Forall_rev_iff in H.
    destruct (rev (x_macros x)) as [|m r]; [intros a E; discriminate|].
    apply rpost_ok. unfold winv. cbn [x_macros]. apply Forall_rev_iff. inversion H; assumption.
  Qed.

  Lemma upd_back_winv x f : winv x -> (forall m, wordm m -> wordm (f m)) -> rpost (upd_back x f) winv.
  Proof.
    intros H Hf. unfold upd_back. unfold winv in H. rewrite <- Forall_rev_iff in H.
    destruct (rev (x_macros x)) as [|m r]; [intros a E; discriminate|].
    apply rpost_ok. unfold winv. cbn [x_macros]. apply Forall_rev_iff. inversion H; subst.
    constructor; auto.
  Qed.

  Lemma push_rule_winv x : winv x -> rpost (push_rule tokens x) winv.
  Proof.
    intros H. unfold push_rule. apply rpost_bind_any. intros l.
    apply upd_back_winv; [exact H|]. intros m M. destruct (tk l); exact M.
  Qed.

  Lemma push_replacement_winv x : winv x -> rpost (push_replacement tokens x) winv.
  Proof.
    intros H. unfold push_replacement. apply rpost_bind_any. intros l.
    apply upd_back_winv; [exact H|]. intros m M. exact M.
  Qed.

  Ltac wp_side := cbn [fst snd] in *; assumption.

  Ltac wp1 :=
    match goal with
    | |- rpost (Ok _) _ => apply rpost_ok; cbn [fst snd]; try assumption
    | |- rpost (bind (MacroExtract.advance _ _) _) _ => eapply rpost_bind; [apply advance_winv; wp_side|intros ? ?]
    | |- rpost (bind (err_here _ _ _) _) _ => eapply rpost_bind; [apply err_here_winv; wp_side|intros ? ?]
    | |- rpost (bind (copy _ _) _) _ => eapply rpost_bind; [apply copy_winv; wp_side|intros ? ?]
    | |- rpost (bind (xmatch _ _ _) _) _ => eapply rpost_bind; [apply xmatch_winv; wp_side|intros [? ?] ?]
    | |- rpost (bind (pop_macro _) _) _ => eapply rpost_bind; [apply pop_macro_winv; wp_side|intros ? ?]
    | |- rpost (bind (push_rule _ _) _) _ => eapply rpost_bind; [apply push_rule_winv; wp_side|intros ? ?]
    | |- rpost (bind (push_replacement _ _) _) _ =>
        eapply rpost_bind; [apply push_replacement_winv; wp_side|intros ? ?]
    | |- rpost (bind (if ?p then _ else _) _) _ => destruct p
    | |- rpost (bind (Ok _) _) _ => cbn [bind]
    end.

  Lemma xstep_winv mode x : winv x -> rpost (xstep tokens mode x) (fun r => winv (snd r)).
  Proof.
    intros H. unfold xstep. apply rpost_bind_any. intros la.
    destruct mode as [| | |pop|].
    - destruct la; cbv beta iota; try solve [repeat wp1].
      eapply rpost_bind; [apply advance_winv; exact H|]. intros x1 H1.
      pose proof (push_macro_winv x1 H1) as H2. cbv zeta.
      apply rpost_bind_any. intros la2.
      destruct la2; cbv beta iota; try (apply rpost_ok; exact H2).
      eapply rpost_bind; [apply advance_winv; exact H2|]. intros x3 H3.
      eapply rpost_bind; [apply xmatch_winv; exact H3|]. intros [x4 ok] H4. cbn [fst] in H4.
      destruct ok; [|apply rpost_ok; exact H4].
      apply rpost_bind_any. intros t.
      eapply rpost_bind; [apply strToInt_winv; exact H4|]. intros [x5 v] [H5 Hv]. cbn [fst snd] in H5, Hv.
      eapply rpost_bind; [apply upd_back_winv; [exact H5|]|].
      { intros m M. unfold wordm. cbn [m_priority]. rewrite Hv. apply pr_wrap_int_range. }
      intros x6 H6. apply rpost_ok. exact H6.
    - destruct la; cbv beta iota; repeat wp1.
    - destruct la; cbv beta iota; repeat wp1.
    - destruct la; cbv beta iota; repeat wp1.
    - apply rpost_ok. exact H.
  Qed.

  Lemma xrun_winv : forall fuel mode x, winv x -> rpost (xrun tokens fuel mode x) winv.
  Proof.
    induction fuel as [|f IH]; intros mode x H.
    - destruct mode; cbn [xrun]; try (intros a E; discriminate). apply rpost_ok; exact H.
    - destruct mode; cbn [xrun]; try (apply rpost_ok; exact H);
        (eapply rpost_bind; [apply xstep_winv; exact H|]; intros r Hr; apply IH; exact Hr).
  Qed.

  Lemma validate_macros_word : forall ms x, Forall wordm ms ->
    rpost (validate_macros tokens x ms) (fun r => Forall wordm (snd r)).
  Proof.
    induction ms as [|m rest IH]; intros x F.
    - cbn [validate_macros]. apply rpost_ok. constructor.
    - inversion F as [|m' r' M Fr]; subst. cbn [validate_macros].
      apply rpost_bind_any. intros [x1 repl'].
      eapply rpost_bind; [apply IH; exact Fr|]. intros r2 Hr2. apply rpost_ok. cbn [snd].
      constructor; [|exact Hr2]. exact M.
  Qed.
End XWord.

Lemma C20_priority_word_proof : C20_priority_word_stmt.
Proof.
  intros toks errs out macros H. unfold extract_macros in H.
  apply pr_bind_inv in H. destruct H as (x & Hx & H).
  apply pr_bind_inv in H. destruct H as (r & Hr & H). inversion H; subst.
  assert (W : winv x).
  { apply (xrun_winv toks (4 + length toks)%nat mS (mkX [] [] 0 [])); [|exact Hx]. constructor. }
  exact (validate_macros_word toks (x_macros x) x W r Hr).
Qed.

(* ================================================================================================ *)
(* 2. C20_priority_range                                                                             *)
(* ================================================================================================ *)

(* ---- 2.0 the statement as written is false ------------------------------------------------------ *)
Module Counterexamples.
  Definition big : str := [57;57;57;57;57;57;57;57;57;57;57;57]%N.      (* "999999999999" *)
  Definition T (k : tkind) : token := mkTok k [] [] 1.
  Definition TI : token := mkTok INT big [] 1.
  Definition show (r : result (list perr * list token * list macrodef)) :=
    match r with Ok (e, o, m) => Some (map pe_kind e, map tk o, map m_priority m) | _ => None end.

  (* CE1: DEFINE PRIORITY DEFINE PRIORITY 999999999999 x AS y END_DEFINE <eof>
     the second DEFINE is swallowed by the failed match(INT) of the first definition: it is reported as a
     "macro_expect" error, not as a nested define; the numeral then is an ordinary pattern token. *)
  Definition ce1 : list token :=
    [T DEFINE; T PRIORITY; T DEFINE; T PRIORITY; TI; T ID; T AS; T ID; T END_DEFINE; T T_EOF].
  Lemma ce1_eval : show (extract_macros ce1) = Some ([e_macro_expect], [T_EOF], [0]).
  Proof. vm_compute. reflexivity. Qed.

  (* CE2: a token of kind T_EOF in the middle of the stream stops the extraction silently *)
  Definition ce2 : list token :=
    [T T_EOF; T DEFINE; T PRIORITY; TI; T ID; T AS; T ID; T END_DEFINE; T T_EOF].
  Lemma ce2_eval : show (extract_macros ce2) = Some ([], [T_EOF], []).
  Proof. vm_compute. reflexivity. Qed.

  Lemma C20_priority_range_false_1 : ~ C20_priority_range_unguarded_stmt.
  Proof.
    intros S.
    destruct (extract_macros ce1) as [[[errs out] macros]| |] eqn:E; [|vm_compute in E; discriminate ..].
    destruct (S ce1 errs out macros E 2 (T DEFINE) (T PRIORITY) TI) as (e & He & Ke);
      try reflexivity.
    - vm_compute. discriminate.
    - intros e He. vm_compute in E. inversion E; subst. destruct He as [<-|[]]. cbn. split; discriminate.
    - vm_compute in E. inversion E; subst. destruct He as [<-|[]]. discriminate Ke.
  Qed.

  Lemma C20_priority_range_false_2 : ~ C20_priority_range_unguarded_stmt.
  Proof.
    intros S.
    destruct (extract_macros ce2) as [[[errs out] macros]| |] eqn:E; [|vm_compute in E; discriminate ..].
    destruct (S ce2 errs out macros E 1 (T DEFINE) (T PRIORITY) TI) as (e & He & Ke);
      try reflexivity.
    - vm_compute. discriminate.
    - intros e He. vm_compute in E. inversion E; subst. destruct He.
    - vm_compute in E. inversion E; subst. destruct He.
  Qed.
End Counterexamples.

(* ---- 2.1 monotone facts about one call ---------------------------------------------------------- *)
Definition has (x : xstate) (k : ekind) : Prop := exists e, In e (x_errs x) /\ pe_kind e = k.

Lemma has_mono x x' k : incl (x_errs x) (x_errs x') -> has x k -> has x' k.
Proof. intros I (e & He & Ke). exists e. split; [apply I; exact He|exact Ke]. Qed.

Section XRange.
  Variable tokens : list token.

  Lemma lookahead_znth q t : znth tokens q = Some t -> lookahead tokens q = Ok (tk t).
  Proof.
    intros H. pose proof (pr_znth_bound _ _ _ H) as B. unfold lookahead, MacroExtract.size.
    destruct (zlen tokens <=? q) eqn:E; [apply Z.leb_le in E; lia|]. rewrite H. reflexivity.
  Qed.

  Lemma lookahead_inv q k : lookahead tokens q = Ok k -> k <> T_EOF ->
    exists t, znth tokens q = Some t /\ tk t = k.
  Proof.
    unfold lookahead. intros H NE. destruct (MacroExtract.size tokens <=? q).
    - inversion H; congruence.
    - destruct (znth tokens q) as [t|]; cbn [of_opt bind] in H; [|discriminate].
      exists t. split; [reflexivity|]. inversion H; reflexivity.
  Qed.

  (* step relation: position offset and errors only grow *)
  Definition stp (d : Z) (x x' : xstate) : Prop := x_pos x' = x_pos x + d /\ incl (x_errs x) (x_errs x').

  Lemma incl_snoc_l {A} (l : list A) e : incl l (l ++ [e]).
  Proof. apply incl_appl. apply incl_refl. Qed.

  Lemma err_here_S x k : rpost (err_here tokens x k) (fun x' => stp 0 x x' /\ has x' k).
  Proof.
    unfold err_here. apply rpost_bind_any. intros t. apply rpost_ok. split.
    - split; [cbn [add_err x_pos]; lia|]. cbn [add_err x_errs]. apply incl_snoc_l.
    - eexists. split; [cbn [add_err x_errs]; apply in_or_app; right; left; reflexivity|reflexivity].
  Qed.

  Lemma xmatch_S x k : rpost (xmatch tokens x k) (fun r =>
      stp 1 x (fst r) /\
      (if snd r then lookahead tokens (x_pos x) = Ok k
       else lookahead tokens (x_pos x) <> Ok k /\ has (fst r) e_macro_expect)).
  Proof.
    unfold xmatch. eapply rpost_bind; [apply rpost_self|]. intros la HLA. destruct (tk_eqb la k) eqn:T.
    - apply rpost_ok. cbn [fst snd]. split.
      + split; [reflexivity|apply incl_refl].
      + apply xe_tk_eqb_eq in T. subst la. exact HLA.
    - eapply rpost_bind; [apply err_here_S|]. intros x1 [[P1 I1] H1]. apply rpost_ok. cbn [fst snd]. split.
      + split; [cbn [set_pos x_pos]; lia|]. exact I1.
      + split.
        * intros C. rewrite HLA in C. inversion C; subst. rewrite xe_tk_eqb_refl in T. discriminate.
        * exact H1.
  Qed.

  Lemma advance_S x : rpost (MacroExtract.advance tokens x) (stp 1 x).
  Proof.
    unfold MacroExtract.advance. apply rpost_bind_any. intros la.
    eapply rpost_bind; [apply xmatch_S|]. intros r [Hr _]. apply rpost_ok. exact Hr.
  Qed.

  Lemma copy_S x : rpost (copy tokens x) (stp 0 x).
  Proof.
    unfold copy. apply rpost_bind_any. intros t. apply rpost_ok. split; [cbn [x_pos]; lia|apply incl_refl].
  Qed.

  Lemma pop_macro_S x : rpost (pop_macro x) (stp 0 x).
  Proof.
    unfold pop_macro. destruct (rev (x_macros x)) as [|m r]; [intros a E; discriminate|].
    apply rpost_ok. split; [cbn [x_pos]; lia|apply incl_refl].
  Qed.

  Lemma upd_back_S x f : rpost (upd_back x f) (stp 0 x).
  Proof.
    unfold upd_back. destruct (rev (x_macros x)) as [|m r]; [intros a E; discriminate|].
    apply rpost_ok. split; [cbn [x_pos]; lia|apply incl_refl].
  Qed.

  Lemma push_rule_S x : rpost (push_rule tokens x) (stp 0 x).
  Proof. unfold push_rule. apply rpost_bind_any. intros l. apply upd_back_S. Qed.

  Lemma push_replacement_S x : rpost (push_replacement tokens x) (stp 0 x).
  Proof. unfold push_replacement. apply rpost_bind_any. intros l. apply upd_back_S. Qed.

  Lemma strToInt_S x s : rpost (strToInt tokens x s) (fun r =>
      stp 0 x (fst r) /\ (INT_MAX <= strtol s -> has (fst r) e_range)).
  Proof.
    unfold strToInt. apply rpost_bind_any. intros t. apply rpost_ok. cbn [fst].
    destruct (INT_MAX <=? strtol s) eqn:E.
    - split.
      + split; [cbn [add_err x_pos]; lia|cbn [add_err x_errs]; apply incl_snoc_l].
      + intros _. eexists. split; [cbn [add_err x_errs]; apply in_or_app; right; left; reflexivity|reflexivity].
    - split.
      + split; [lia|apply incl_refl].
      + intros C. apply Z.leb_gt in E. lia.
  Qed.

  (* ---- 2.1b errors only accumulate through a step ------------------------------------------------- *)
  Section Sub.
    Variable E : list perr.
    Definition esub (y : xstate) : Prop := incl E (x_errs y).

    Lemma esub_stp d y y' : esub y -> stp d y y' -> esub y'.
    Proof. intros H [_ I]. unfold esub in *. eapply incl_tran; eassumption. Qed.

    Lemma advance_sub y : esub y -> rpost (MacroExtract.advance tokens y) esub.
    Proof. intros H y' Q. exact (esub_stp _ _ _ H (advance_S y y' Q)). Qed.
    Lemma copy_sub y : esub y -> rpost (copy tokens y) esub.
    Proof. intros H y' Q. exact (esub_stp _ _ _ H (copy_S y y' Q)). Qed.
    Lemma pop_macro_sub y : esub y -> rpost (pop_macro y) esub.
    Proof. intros H y' Q. exact (esub_stp _ _ _ H (pop_macro_S y y' Q)). Qed.
    Lemma upd_back_sub y f : esub y -> rpost (upd_back y f) esub.
    Proof. intros H y' Q. exact (esub_stp _ _ _ H (upd_back_S y f y' Q)). Qed.
    Lemma push_rule_sub y : esub y -> rpost (push_rule tokens y) esub.
    Proof. intros H y' Q. exact (esub_stp _ _ _ H (push_rule_S y y' Q)). Qed.
    Lemma push_replacement_sub y : esub y -> rpost (push_replacement tokens y) esub.
    Proof. intros H y' Q. exact (esub_stp _ _ _ H (push_replacement_S y y' Q)). Qed.
    Lemma xmatch_sub y k : esub y -> rpost (xmatch tokens y k) (fun r => esub (fst r)).
    Proof. intros H r Q. exact (esub_stp _ _ _ H (proj1 (xmatch_S y k r Q))). Qed.
    Lemma err_here_sub y k : esub y -> rpost (err_here tokens y k) esub.
    Proof. intros H y' Q. exact (esub_stp _ _ _ H (proj1 (err_here_S y k y' Q))). Qed.
    Lemma strToInt_sub y s : esub y -> rpost (strToInt tokens y s) (fun r => esub (fst r)).
    Proof. intros H r Q. exact (esub_stp _ _ _ H (proj1 (strToInt_S y s r Q))). Qed.

    Ltac sp_side := cbn [fst snd] in *; assumption.

    Ltac sp1 :=
      match goal with
      | |- rpost (Ok _) _ => apply rpost_ok; cbn [fst snd]; try assumption
      | |- rpost (bind (MacroExtract.advance _ _) _) _ => eapply rpost_bind; [apply advance_sub; sp_side|intros ? ?]
      | |- rpost (bind (err_here _ _ _) _) _ => eapply rpost_bind; [apply err_here_sub; sp_side|intros ? ?]
      | |- rpost (bind (copy _ _) _) _ => eapply rpost_bind; [apply copy_sub; sp_side|intros ? ?]
      | |- rpost (bind (xmatch _ _ _) _) _ => eapply rpost_bind; [apply xmatch_sub; sp_side|intros [? ?] ?]
      | |- rpost (bind (pop_macro _) _) _ => eapply rpost_bind; [apply pop_macro_sub; sp_side|intros ? ?]
      | |- rpost (bind (push_rule _ _) _) _ => eapply rpost_bind; [apply push_rule_sub; sp_side|intros ? ?]
      | |- rpost (bind (push_replacement _ _) _) _ =>
          eapply rpost_bind; [apply push_replacement_sub; sp_side|intros ? ?]
      | |- rpost (bind (if ?p then _ else _) _) _ => destruct p
      | |- rpost (bind (Ok _) _) _ => cbn [bind]
      end.

    Lemma xstep_sub mode y : esub y -> rpost (xstep tokens mode y) (fun r => esub (snd r)).
    Proof.
      intros H. unfold xstep. apply rpost_bind_any. intros la.
      destruct mode as [| | |pop|].
      - destruct la; cbv beta iota; try solve [repeat sp1].
        eapply rpost_bind; [apply advance_sub; exact H|]. intros x1 H1.
        assert (H2 : esub (push_macro x1)) by exact H1. cbv zeta.
        apply rpost_bind_any. intros la2.
        destruct la2; cbv beta iota; try (apply rpost_ok; exact H2).
        eapply rpost_bind; [apply advance_sub; exact H2|]. intros x3 H3.
        eapply rpost_bind; [apply xmatch_sub; exact H3|]. intros [x4 ok] H4. cbn [fst] in H4.
        destruct ok; [|apply rpost_ok; exact H4].
        apply rpost_bind_any. intros t.
        eapply rpost_bind; [apply strToInt_sub; exact H4|]. intros [x5 v] H5. cbn [fst] in H5.
        eapply rpost_bind; [apply upd_back_sub; exact H5|].
        intros x6 H6. apply rpost_ok. exact H6.
      - destruct la; cbv beta iota; repeat sp1.
      - destruct la; cbv beta iota; repeat sp1.
      - destruct la; cbv beta iota; repeat sp1.
      - apply rpost_ok. exact H.
    Qed.
  End Sub.

  Lemma xstep_incl m x : rpost (xstep tokens m x) (fun r => incl (x_errs x) (x_errs (snd r))).
  Proof. apply (xstep_sub (x_errs x)). apply incl_refl. Qed.

  (* ---- 2.2 one step at a position that holds a real (non end-of-file) token ----------------------- *)
  Section Step.
    Variable x : xstate.
    Variable t : token.
    Hypothesis ZT : znth tokens (x_pos x) = Some t.
    Hypothesis NE : tk t <> T_EOF.

    (* accumulated relation to the state before the step; the flag records a nested-define report *)
    Definition J (f : bool) (d : Z) (y : xstate) : Prop :=
      stp d x y /\ (f = true -> has y e_macro_nested_define).

    Lemma J_stp f d y y' d' : J f d y -> stp d' y y' -> J f (d + d') y'.
    Proof.
      intros [[P I] F] [P' I']. split.
      - split; [lia|]. eapply incl_tran; eassumption.
      - intros E. eapply has_mono; [exact I'|]. apply F; exact E.
    Qed.

    Lemma J0 : J false 0 x.
    Proof. split; [split; [lia|apply incl_refl]|discriminate]. Qed.

    Lemma advance_J f d y : J f d y -> rpost (MacroExtract.advance tokens y) (J f (d + 1)).
    Proof. intros H y' E. eapply J_stp; [exact H|]. exact (advance_S y y' E). Qed.
    Lemma copy_J f d y : J f d y -> rpost (copy tokens y) (J f (d + 0)).
    Proof. intros H y' E. eapply J_stp; [exact H|]. exact (copy_S y y' E). Qed.
    Lemma pop_macro_J f d y : J f d y -> rpost (pop_macro y) (J f (d + 0)).
    Proof. intros H y' E. eapply J_stp; [exact H|]. exact (pop_macro_S y y' E). Qed.
    Lemma push_rule_J f d y : J f d y -> rpost (push_rule tokens y) (J f (d + 0)).
    Proof. intros H y' E. eapply J_stp; [exact H|]. exact (push_rule_S y y' E). Qed.
    Lemma push_replacement_J f d y : J f d y -> rpost (push_replacement tokens y) (J f (d + 0)).
    Proof. intros H y' E. eapply J_stp; [exact H|]. exact (push_replacement_S y y' E). Qed.
    Lemma xmatch_J f d y k : J f d y -> rpost (xmatch tokens y k) (fun r => J f (d + 1) (fst r)).
    Proof. intros H r E. eapply J_stp; [exact H|]. exact (proj1 (xmatch_S y k r E)). Qed.
    Lemma err_here_J f d y k : J f d y -> rpost (err_here tokens y k) (J f (d + 0)).
    Proof. intros H y' E. eapply J_stp; [exact H|]. exact (proj1 (err_here_S y k y' E)). Qed.
    Lemma err_here_nd_J f d y : J f d y -> rpost (err_here tokens y e_macro_nested_define) (J true (d + 0)).
    Proof.
      intros [H _] y' E. destruct (err_here_S y _ y' E) as [S1 S2]. split.
      - destruct H as [P I]. destruct S1 as [P' I']. split; [lia|eapply incl_tran; eassumption].
      - intros _. exact S2.
    Qed.

    Definition Psimple (m : xmode) (r : xmode * xstate) : Prop :=
      fst r <> mDone /\ stp 1 x (snd r) /\ (tk t = DEFINE -> m <> mS -> has (snd r) e_macro_nested_define).

    Lemma J_fin f d y m m' : J f d y -> d = 1 -> m' <> mDone -> (tk t = DEFINE -> m <> mS -> f = true) ->
      Psimple m (m', y).
    Proof.
      intros [S F] -> ND FL. split; [exact ND|]. split; [exact S|]. intros K M. apply F. apply FL; assumption.
    Qed.

    Ltac jp_side := cbn [fst snd] in *; eassumption.

    Ltac jp1 :=
      match goal with
      | |- rpost (Ok _) _ => apply rpost_ok
      | |- rpost (bind (MacroExtract.advance _ _) _) _ => eapply rpost_bind; [eapply advance_J; jp_side|intros ? ?]
      | |- rpost (bind (err_here _ _ e_macro_nested_define) _) _ =>
          eapply rpost_bind; [eapply err_here_nd_J; jp_side|intros ? ?]
      | |- rpost (bind (err_here _ _ _) _) _ => eapply rpost_bind; [eapply err_here_J; jp_side|intros ? ?]
      | |- rpost (bind (copy _ _) _) _ => eapply rpost_bind; [eapply copy_J; jp_side|intros ? ?]
      | |- rpost (bind (xmatch _ _ _) _) _ => eapply rpost_bind; [eapply xmatch_J; jp_side|intros [? ?] ?]
      | |- rpost (bind (pop_macro _) _) _ => eapply rpost_bind; [eapply pop_macro_J; jp_side|intros ? ?]
      | |- rpost (bind (push_rule _ _) _) _ => eapply rpost_bind; [eapply push_rule_J; jp_side|intros ? ?]
      | |- rpost (bind (push_replacement _ _) _) _ =>
          eapply rpost_bind; [eapply push_replacement_J; jp_side|intros ? ?]
      | |- rpost (bind (if ?p then _ else _) _) _ => destruct p
      | |- rpost (bind (Ok _) _) _ => cbn [bind]
      end.

    Ltac jfin K :=
      eapply J_fin; [jp_side|reflexivity|discriminate|first [intros _ _; reflexivity|intros C; rewrite K in C; discriminate C|intros _ C; exfalso; apply C; reflexivity]].

    Lemma xstep_simple m : m <> mDone -> (m = mS -> tk t <> DEFINE) ->
      rpost (xstep tokens m x) (Psimple m).
    Proof.
      intros ND NS. unfold xstep. rewrite (lookahead_znth _ _ ZT). cbn [bind].
      pose proof J0 as H0.
      destruct m as [| | |pop|]; [| | | |congruence].
      - destruct (tk t) eqn:K; cbv beta iota; try congruence; try (exfalso; apply NS; reflexivity);
          (repeat jp1; jfin K).
      - destruct (tk t) eqn:K; cbv beta iota; try congruence; (repeat jp1; jfin K).
      - destruct (tk t) eqn:K; cbv beta iota; try congruence; (repeat jp1; jfin K).
      - destruct (tk t) eqn:K; cbv beta iota; try congruence; (repeat jp1; jfin K).
    Qed.

    (* the DEFINE case of S *)
    Definition Pdef (r : xmode * xstate) : Prop :=
      let q := x_pos x in
      fst r <> mDone /\ incl (x_errs x) (x_errs (snd r)) /\
      ((x_pos (snd r) = q + 1 /\ lookahead tokens (q + 1) <> Ok PRIORITY) \/
       (x_pos (snd r) = q + 3 /\ lookahead tokens (q + 1) = Ok PRIORITY /\
        ((lookahead tokens (q + 2) = Ok INT /\
          forall t2, znth tokens (q + 2) = Some t2 -> INT_MAX <= strtol (ttext t2) -> has (snd r) e_range) \/
         (lookahead tokens (q + 2) <> Ok INT /\ has (snd r) e_macro_expect)))).

    Lemma xstep_def : tk t = DEFINE -> rpost (xstep tokens mS x) Pdef.
    Proof.
      intros K. unfold xstep. rewrite (lookahead_znth _ _ ZT). cbn [bind]. rewrite K. cbv beta iota.
      eapply rpost_bind; [apply advance_S|]. intros x1 [P1 I1]. cbv zeta.
      assert (P2 : x_pos (push_macro x1) = x_pos x + 1) by (cbn [push_macro x_pos]; exact P1).
      assert (I2 : incl (x_errs x) (x_errs (push_macro x1))) by (cbn [push_macro x_errs]; exact I1).
      remember (push_macro x1) as x2 eqn:EQ2. clear EQ2.
      eapply rpost_bind; [apply rpost_self|]. intros la2 HL2. rewrite P2 in HL2.
      assert (NP : la2 <> PRIORITY -> Pdef (mD, x2)).
      { intros C. split; [discriminate|]. split; [exact I2|]. left. cbn [snd]. split; [exact P2|].
        intros D. rewrite HL2 in D. inversion D. contradiction. }
      destruct la2; cbv beta iota; try (apply rpost_ok; apply NP; discriminate).
      eapply rpost_bind; [apply advance_S|]. intros x3 [P3 I3].
      eapply rpost_bind; [apply xmatch_S|]. intros [x4 ok] [[P4 I4] M4]. cbn [fst snd] in P4, I4, M4.
      assert (Q3 : x_pos x3 = x_pos x + 2) by lia. rewrite Q3 in M4.
      destruct ok.
      - eapply rpost_bind; [apply rpost_self|]. intros t2 HT2.
        replace (x_pos x4 - 1) with (x_pos x + 2) in HT2 by lia.
        assert (Z2 : znth tokens (x_pos x + 2) = Some t2).
        { destruct (znth tokens (x_pos x + 2)); cbn [of_opt] in HT2; inversion HT2; reflexivity. }
        eapply rpost_bind; [apply strToInt_S|]. intros [x5 v] [[P5 I5] R5]. cbn [fst] in P5, I5, R5.
        eapply rpost_bind; [apply upd_back_S|]. intros x6 [P6 I6]. apply rpost_ok.
        split; [discriminate|]. cbn [snd]. split.
        + repeat (eapply incl_tran; [eassumption|]). apply incl_refl.
        + right. split; [lia|]. split; [exact HL2|]. left. split; [exact M4|].
          intros t2' Z2' B. rewrite Z2 in Z2'. inversion Z2'; subst t2'.
          eapply has_mono; [exact I6|]. apply R5. exact B.
      - apply rpost_ok. destruct M4 as [M4 E4]. split; [discriminate|]. cbn [snd]. split.
        + repeat (eapply incl_tran; [eassumption|]). apply incl_refl.
        + right. split; [lia|]. split; [exact HL2|]. right. split; assumption.
    Qed.
  End Step.

  (* ---- 2.3 the invariant for a fixed occurrence DEFINE PRIORITY <numeral out of range> at i -------- *)
  Section At.
    Variable i : Z.
    Variables d p n : token.
    Hypothesis Zd : znth tokens i = Some d.
    Hypothesis Zp : znth tokens (i + 1) = Some p.
    Hypothesis Zn : znth tokens (i + 2) = Some n.
    Hypothesis Kd : tk d = DEFINE.
    Hypothesis Kp : tk p = PRIORITY.
    Hypothesis Kn : tk n = INT.
    Hypothesis BIG : INT_MAX <= strtol (ttext n).
    (* no end-of-file token before position i *)
    Hypothesis NOEOF : forall j t, 0 <= j < i -> znth tokens j = Some t -> tk t <> T_EOF.

    (* the two tokens before i are DEFINE PRIORITY *)
    Definition DPbefore : Prop :=
      exists d' p', znth tokens (i - 2) = Some d' /\ znth tokens (i - 1) = Some p' /\
                    tk d' = DEFINE /\ tk p' = PRIORITY.

    Definition bad (k : ekind) : Prop :=
      k = e_range \/ k = e_macro_nested_define \/ (k = e_macro_expect /\ DPbefore).
    Definition hit (x : xstate) : Prop := exists e, In e (x_errs x) /\ bad (pe_kind e).
    Definition pinv (m : xmode) (x : xstate) : Prop := (0 <= x_pos x <= i /\ m <> mDone) \/ hit x.

    Lemma hit_mono x x' : incl (x_errs x) (x_errs x') -> hit x -> hit x'.
    Proof. intros I (e & He & Be). exists e. split; [apply I; exact He|exact Be]. Qed.

    Lemma has_hit x k : has x k -> bad k -> hit x.
    Proof. intros (e & He & Ke) B. exists e. split; [exact He|rewrite Ke; exact B]. Qed.

    Lemma xstep_pinv m x : pinv m x -> rpost (xstep tokens m x) (fun r => pinv (fst r) (snd r)).
    Proof.
      intros [[[P0 P1] ND]|H].
      2:{ intros r E. right. eapply hit_mono; [|exact H]. exact (xstep_incl m x r E). }
      pose proof (pr_znth_bound _ _ _ Zd) as Bi.
      destruct (xe_znth_some tokens (x_pos x)) as (t & ZT & _); [lia|].
      assert (NE : tk t <> T_EOF).
      { destruct (Z.eq_dec (x_pos x) i) as [EQ|NEQ].
        - rewrite EQ in ZT. rewrite Zd in ZT. inversion ZT; subst t. rewrite Kd. discriminate.
        - apply (NOEOF (x_pos x)); [lia|exact ZT]. }
      assert (LAi : lookahead tokens i = Ok DEFINE) by (rewrite (lookahead_znth _ _ Zd), Kd; reflexivity).
      assert (LAp : lookahead tokens (i + 1) = Ok PRIORITY) by (rewrite (lookahead_znth _ _ Zp), Kp; reflexivity).
      assert (LAn : lookahead tokens (i + 2) = Ok INT) by (rewrite (lookahead_znth _ _ Zn), Kn; reflexivity).
      assert (DEC : (m = mS /\ tk t = DEFINE) \/ (m = mS -> tk t <> DEFINE)).
      { destruct m; try (right; discriminate). destruct (tk t); try (right; discriminate). left; auto. }
      destruct DEC as [[-> K]|NS].
      - (* a definition starts here *)
        intros r E. destruct (xstep_def x t ZT K r E) as (ND' & I' & [[Q1 L1]|(Q3 & L1 & C)]).
        + (* not followed by PRIORITY: so this is not position i *)
          left. split; [|exact ND']. assert (x_pos x <> i); [|lia].
          intros C. rewrite C in L1. contradiction.
        + destruct (Z_le_gt_dec (x_pos x + 3) i) as [LE|GT]; [left; split; [lia|exact ND']|].
          right.
          assert (CASES : x_pos x = i \/ x_pos x = i - 1 \/ x_pos x = i - 2) by lia.
          destruct CASES as [C0|[C1|C2]].
          * (* the definition at i itself *)
            rewrite C0 in C. destruct C as [[_ R]|[NI _]]; [|contradiction].
            apply (has_hit _ e_range); [|left; reflexivity]. apply (R n Zn BIG).
          * (* DEFINE at i-1 followed by PRIORITY at i: impossible *)
            rewrite C1 in L1. replace (i - 1 + 1) with i in L1 by lia. rewrite LAi in L1. discriminate L1.
          * (* DEFINE PRIORITY at i-2, i-1: the DEFINE at i is consumed by the failed match(INT) *)
            rewrite C2 in C, L1. replace (i - 2 + 2) with i in C by lia. replace (i - 2 + 1) with (i - 1) in L1 by lia.
            destruct C as [[LI _]|[_ HE]]; [rewrite LAi in LI; discriminate LI|].
            apply (has_hit _ e_macro_expect); [exact HE|]. right; right. split; [reflexivity|].
            destruct (lookahead_inv _ _ L1) as (p' & Zp' & Kp'); [discriminate|].
            exists t, p'. rewrite C2 in ZT. auto.
      - intros r E. destruct (xstep_simple x t ZT NE m ND NS r E) as (ND' & [Q1 I1] & F).
        destruct (Z.eq_dec (x_pos x) i) as [EQ|NEQ].
        + right. rewrite EQ in ZT. rewrite Zd in ZT. inversion ZT; subst t.
          apply (has_hit _ e_macro_nested_define); [|right; left; reflexivity].
          apply F; [exact Kd|]. intros C. apply (NS C). exact Kd.
        + left. split; [lia|exact ND'].
    Qed.

    Lemma xrun_pinv : forall fuel m x, pinv m x -> rpost (xrun tokens fuel m x) hit.
    Proof.
      assert (DONE : forall x, pinv mDone x -> hit x).
      { intros x [[_ C]|H]; [congruence|exact H]. }
      induction fuel as [|f IH]; intros m x H.
      - destruct m; cbn [xrun]; try (intros a E; discriminate). apply rpost_ok. apply DONE; exact H.
      - destruct m; cbn [xrun]; try (apply rpost_ok; apply DONE; exact H);
          (eapply rpost_bind; [apply xstep_pinv; exact H|]; intros r Hr; apply IH; exact Hr).
    Qed.
  End At.

  (* ---- 2.4 validation only adds errors ----------------------------------------------------------- *)
  Lemma validate_repl_incl ntt : forall repl x,
    rpost (validate_repl tokens x ntt repl) (fun r => incl (x_errs x) (x_errs (fst r))).
  Proof.
    induction repl as [|t rest IH]; intros x.
    - cbn [validate_repl]. apply rpost_ok. apply incl_refl.
    - cbn [validate_repl].
      assert (DEF : forall y, incl (x_errs x) (x_errs y) ->
                rpost (do r2 <- validate_repl tokens y ntt rest; Ok (fst r2, t :: snd r2))
                      (fun r => incl (x_errs x) (x_errs (fst r)))).
      { intros y Hy. eapply rpost_bind; [apply IH|]. intros r2 A. apply rpost_ok. cbn [fst].
        eapply incl_tran; eassumption. }
      destruct (tk t) eqn:K; try (apply DEF; apply incl_refl).
      eapply rpost_bind; [apply strToInt_S|]. intros [x1 ind] [[_ I1] _]. cbn [fst] in I1. cbv beta iota.
      destruct ((ind <? 0) || (ntt <=? ind)); [|apply DEF; exact I1].
      cbv zeta. eapply rpost_bind; [apply IH|]. intros r2 A. apply rpost_ok. cbn [fst].
      eapply incl_tran; [exact I1|]. eapply incl_tran; [|exact A]. cbn [add_err x_errs]. apply incl_snoc_l.
  Qed.

  Lemma validate_macros_incl : forall ms x,
    rpost (validate_macros tokens x ms) (fun r => incl (x_errs x) (x_errs (fst r))).
  Proof.
    induction ms as [|m rest IH]; intros x.
    - cbn [validate_macros]. apply rpost_ok. apply incl_refl.
    - cbn [validate_macros].
      eapply rpost_bind; [apply validate_repl_incl|]. intros [x1 repl'] A. cbn [fst] in A. cbv beta iota.
      eapply rpost_bind; [apply IH|]. intros r2 B. apply rpost_ok. cbn [fst]. eapply incl_tran; eassumption.
  Qed.
End XRange.

(* ---- 2.5 the general result ---------------------------------------------------------------------- *)
(* some error is reported: a range error, or a nested define, or — only when the two tokens before the
   DEFINE are DEFINE PRIORITY — a "macro_expect" error *)
Theorem C20_priority_range_general :
  forall toks errs out macros, extract_macros toks = Ok (errs, out, macros) ->
    forall i d p n,
      znth toks i = Some d -> znth toks (i + 1) = Some p -> znth toks (i + 2) = Some n ->
      tk d = DEFINE -> tk p = PRIORITY -> tk n = INT -> INT_MAX <= strtol (ttext n) ->
      (forall j t, 0 <= j < i -> znth toks j = Some t -> tk t <> T_EOF) ->
      exists e, In e errs /\
        (pe_kind e = e_range \/ pe_kind e = e_macro_nested_define \/
         (pe_kind e = e_macro_expect /\ DPbefore toks i)).
Proof.
  intros toks errs out macros H i d p n Zd Zp Zn Kd Kp Kn BIG NOEOF. unfold extract_macros in H.
  apply pr_bind_inv in H. destruct H as (x & Hx & H).
  apply pr_bind_inv in H. destruct H as (r & Hr & H). inversion H; subst.
  assert (HX : hit toks i x).
  { apply (xrun_pinv toks i d p n Zd Zp Zn Kd Kp Kn BIG NOEOF (4 + length toks)%nat mS (mkX [] [] 0 [])); [|exact Hx].
    left. cbn [x_pos]. pose proof (pr_znth_bound _ _ _ Zd). split; [lia|discriminate]. }
  destruct (hit_mono toks i x (fst r) (validate_macros_incl toks (x_macros x) x r Hr) HX) as (e & He & Be).
  exists e. split; [exact He|exact Be].
Qed.

(* ---- 2.6 the partial variants --------------------------------------------------------------------- *)
(* (a) two extra hypotheses: no end-of-file token before i; no "macro_expect" error either *)
Definition C20_priority_range_partial_stmt : Prop :=
  forall toks errs out macros, extract_macros toks = Ok (errs, out, macros) ->
    forall i d p n,
      znth toks i = Some d -> znth toks (i + 1) = Some p -> znth toks (i + 2) = Some n ->
      tk d = DEFINE -> tk p = PRIORITY -> tk n = INT -> INT_MAX <= strtol (ttext n) ->
      (forall j t, 0 <= j < i -> znth toks j = Some t -> tk t <> T_EOF) ->
      (forall e, In e errs -> pe_kind e <> e_macro_nested_define /\ pe_kind e <> e_macro_nested_as /\
                              pe_kind e <> e_macro_expect) ->
      exists e, In e errs /\ pe_kind e = e_range.

Lemma C20_priority_range_partial : C20_priority_range_partial_stmt.
Proof.
  intros toks errs out macros H i d p n Zd Zp Zn Kd Kp Kn BIG NOEOF NOERR.
  destruct (C20_priority_range_general toks errs out macros H i d p n Zd Zp Zn Kd Kp Kn BIG NOEOF)
    as (e & He & [K|[K|[K _]]]).
  - exists e. auto.
  - exfalso. apply (proj1 (NOERR e He)). exact K.
  - exfalso. apply (proj2 (proj2 (NOERR e He))). exact K.
Qed.

(* (b) syntactic variant: the original hypothesis on the errors is kept; extra hypotheses: no end-of-file token
   before i, and the two tokens before i are not DEFINE PRIORITY *)
Definition C20_priority_range_partial2_stmt : Prop :=
  forall toks errs out macros, extract_macros toks = Ok (errs, out, macros) ->
    forall i d p n,
      znth toks i = Some d -> znth toks (i + 1) = Some p -> znth toks (i + 2) = Some n ->
      tk d = DEFINE -> tk p = PRIORITY -> tk n = INT -> INT_MAX <= strtol (ttext n) ->
      (forall j t, 0 <= j < i -> znth toks j = Some t -> tk t <> T_EOF) ->
      ~ (exists d' p', znth toks (i - 2) = Some d' /\ znth toks (i - 1) = Some p' /\
                       tk d' = DEFINE /\ tk p' = PRIORITY) ->
      (forall e, In e errs -> pe_kind e <> e_macro_nested_define /\ pe_kind e <> e_macro_nested_as) ->
      exists e, In e errs /\ pe_kind e = e_range.

Lemma C20_priority_range_partial2 : C20_priority_range_partial2_stmt.
Proof.
  intros toks errs out macros H i d p n Zd Zp Zn Kd Kp Kn BIG NOEOF NDP NOERR.
  destruct (C20_priority_range_general toks errs out macros H i d p n Zd Zp Zn Kd Kp Kn BIG NOEOF)
    as (e & He & [K|[K|[_ K]]]).
  - exists e. auto.
  - exfalso. apply (proj1 (NOERR e He)). exact K.
  - exfalso. apply NDP. exact K.
Qed.

(* (c) for scanner streams (exactly one end-of-file token, the last one) the hypothesis on T_EOF is automatic *)
Lemma eof_terminated_noeof_before toks i d : eof_terminated toks -> znth toks i = Some d -> tk d <> T_EOF ->
  forall j t, 0 <= j < i -> znth toks j = Some t -> tk t <> T_EOF.
Proof.
  intros (body & e & -> & Ke & Fb) Zd Kd j t Hj Zt.
  pose proof (pr_znth_bound _ _ _ Zd) as B. unfold zlen in B. rewrite app_length in B. cbn [length] in B.
  assert (IN : In t body).
  { apply (xe_znth_app1 body e j t Zt). unfold zlen. lia. }
  rewrite Forall_forall in Fb. apply Fb. exact IN.
Qed.

Definition C20_priority_range_scanned_stmt : Prop :=
  forall toks errs out macros, eof_terminated toks -> extract_macros toks = Ok (errs, out, macros) ->
    forall i d p n,
      znth toks i = Some d -> znth toks (i + 1) = Some p -> znth toks (i + 2) = Some n ->
      tk d = DEFINE -> tk p = PRIORITY -> tk n = INT -> INT_MAX <= strtol (ttext n) ->
      (forall e, In e errs -> pe_kind e <> e_macro_nested_define /\ pe_kind e <> e_macro_nested_as /\
                              pe_kind e <> e_macro_expect) ->
      exists e, In e errs /\ pe_kind e = e_range.

Lemma C20_priority_range_scanned : C20_priority_range_scanned_stmt.
Proof.
  intros toks errs out macros ET H i d p n Zd Zp Zn Kd Kp Kn BIG NOERR.
  apply (C20_priority_range_partial toks errs out macros H i d p n Zd Zp Zn Kd Kp Kn BIG); [|exact NOERR].
  apply (eof_terminated_noeof_before toks i d ET Zd). rewrite Kd. discriminate.
Qed.

Lemma C20_priority_range_proof : C20_priority_range_stmt.
Proof. exact C20_priority_range_scanned. Qed.
Lemma C20_priority_range_needs_guards_proof : C20_priority_range_needs_guards_stmt.
Proof. exact Counterexamples.C20_priority_range_false_1. Qed.

Print Assumptions C20_priority_word_proof.
Print Assumptions C20_priority_range_proof.
Print Assumptions C20_priority_range_needs_guards_proof.
