(* Extract.v — extraction of the executable model to OCaml.  ExtrOcamlBasic only:
   bool, option, unit, list, prod, sumbool, sumor and andb/orb are mapped to OCaml's; N, Z,
   positive and nat stay Coq datatypes.  No Extract Constant / Extract Inductive of our own. *)
From Coq Require Import ExtrOcamlBasic.
From Theo Require Import Base VMModel.
Extraction Language OCaml.
Set Extraction KeepSingleton.
Cd "extracted".
Separate Extraction
  Base.dec Base.dec_z Base.str_ltb Base.str_eqb
  VMModel.init VMModel.api_step VMModel.run_hist VMModel.views VMModel.isDone VMModel.getCurrentBreak
  VMModel.exec1 VMModel.execute VMModel.available VMModel.bp_ltb VMModel.z_ltb.
Cd "..".
