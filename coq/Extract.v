(* Extract.v — extraction of the executable model to OCaml.  ExtrOcamlBasic and ExtrOcamlString only:
   bool, option, unit, list, prod, sumbool, sumor, andb/orb (and ascii/string -> char / char list,
   used only for the names of error kinds in driver output) are mapped to OCaml's; N, Z, positive
   and nat stay Coq datatypes.  No Extract Constant / Extract Inductive of our own. *)
From Coq Require Import ExtrOcamlBasic ExtrOcamlString.
From Theo Require Import Base VMModel VMSpec VMCheck Tokens Errors Regex Lexer Scan SpecLex Gen_Lexer MacroExtract Grammar LR MacroApply Parser GenModel Compile RefSem.
Extraction Language OCaml.
Set Extraction KeepSingleton.
Cd "extracted".
Separate Extraction
  Base.dec Base.dec_z Base.str_ltb Base.str_eqb Base.ainsert
  VMModel.init VMModel.api_step VMModel.run_hist VMModel.views VMModel.isDone VMModel.getCurrentBreak
  VMModel.exec1 VMModel.execute VMModel.available VMModel.bp_ltb VMModel.z_ltb
  VMCheck.wf_program VMCheck.acyclic_calls VMCheck.ends_in_halt VMCheck.exec_targets VMSpec.tables_ok VMSpec.no_break VMSpec.consts_in_range VMSpec.counts_ok
  Tokens.tk_num Tokens.all_tkinds Errors.ekind_name Errors.perr_type
  Scan.scan Gen_Lexer.rules Lexer.lex SpecLex.lang SpecLex.star_free SpecLex.splice SpecLex.spec_rules
  MacroExtract.extract_macros
  Grammar.calculate_first_sets Grammar.add_rule Grammar.create_nt Grammar.empty_grammar Grammar.first
  MacroApply.apply_macros MacroApply.apply_macros_gen MacroApply.make_detector
  Parser.parse_tokens Parser.ntype_num GenModel.gen GenModel.gen_gen Compile.parse Compile.compile Compile.compile_budget
  RefSem.run_ref RefSem.abstract_source
  LR.generate_tables LR.parse LR.hull LR.jump LR.elements.
Cd "..".
