(* Proofs_C01s6e.v — C01, stage 6 (any layout), part 9: the DYNAMIC part, runs.
   The induction on the fuel of run_chk (Proofs_C01s4f.v) for code with sites inside the blocks of statements: a
   "ghost" RSite of the reference code is a step of the reference machine only (the VM stays at the start of the
   group); the instruction that closes the group is simulated by its block, which contains the POTENTIAL_BREAKs.
   Finished runs and returns only: no step accounting (see Proofs_C01s6d.v). *)
From Coq Require Import List ZArith NArith Lia Bool.
From Theo Require Import Base Tokens Errors MacroExtract Parser VMModel VMSpec GenModel Compile RefSem RefSemChk C01Statements C01Stages Gen_Consts Proofs_VM_mem Proofs_VM_dbg Proofs_Gen0 Proofs_Gen Proofs_Sem Proofs_C01a Proofs_C01b Proofs_C01 Proofs_C01s2a Proofs_C01s2b Proofs_C01s2 Proofs_C01s3a Proofs_C01s4a Proofs_C01s4b Proofs_C01s4c Proofs_C01s4d Proofs_C01s4e Proofs_C01s4f Proofs_C01s6a Proofs_C01s6c Proofs_C01s6d.
Import ListNotations.
Local Open Scope Z_scope.

Section Run6.
  Variable rs : list routine.
  Variable RI : nat -> rinfo.
  Variable GB : nat -> Z -> Z.
  Variable C : list instr.
  Variable FT : ftab.
  Hypothesis FT_ok : forall j e sz mi, FT j = Some (e, sz, mi) ->
    e = ri_P0 (RI j) /\ sz = ri_N (RI j) /\ mi = ri_mi (RI j).
  Hypothesis ROK : forall k r, nth_error rs k = Some r -> routine_ok6 RI GB C FT k r.

  Notation FV := (FrameView rs RI).
  Notation LOK := (LowOK rs RI).
  Notation Res6 := (Res6 rs RI C).
  Notation SimAt6 := (SimAt6 rs RI GB C).
  Notation Top := (Top RI C).
  Notation vp := (vp RI GB).

  Lemma Res6_compose k s base d d1 q q1 n o :
    vm_run n (vm_at s q d) = Ok (vm_at s q1 d1) ->
    (forall j, j < base -> znth d1 j = znth d j) ->
    Res6 k s base d1 q1 o -> Res6 k s base d q o.
  Proof.
    intros Hrun Hpre HR. destruct o as [ret st' tr'|vw st' tr'| |]; cbn [Proofs_C01s6d.Res6] in *; auto.
    - destruct HR as (n2 & d2 & q2 & ro & R2 & Zr & Rro & Zret & Bret & F2 & P2).
      exists (n + n2)%nat, d2, q2, ro. split; [eapply vm_run_trans; eauto|]. split; [exact Zr|]. split; [exact Rro|].
      split; [exact Zret|]. split; [exact Bret|]. split; [exact F2|].
      intros j Hj. rewrite P2 by exact Hj. apply Hpre; exact Hj.
    - destruct HR as (n2 & s' & R2 & D2 & F2). exists (n + n2)%nat, s'.
      split; [eapply vm_run_trans; eauto|]. split; [exact D2 | exact F2].
  Qed.

  Lemma top_views6 k r a s act rest ctx d :
    nth_error rs k = Some r -> Top k s act rest ->
    SR (ri_rm (RI k)) (data_start act) (ri_N (RI k)) a d -> LOK (data_start act) rest ctx d ->
    Forall2 (FV d) (rev (act :: rest)) (ctx ++ [view_of r a]).
  Proof.
    intros Hk (HC & Hst & Hsz & Hdi) HS [HL _]. cbn [rev]. apply Forall2_app; [exact HL|].
    constructor; [|constructor]. exists k, r, a. split; [exact Hk|]. split; [reflexivity|]. split; [exact HS|].
    split; [exact (ro6_rm _ _ _ _ _ _ (ROK _ _ Hk))|]. auto.
  Qed.

  Theorem sim_all6 : forall fuel, SimAt6 fuel.
  Proof.
    induction fuel as [|f IHf]; intros k r ctx a pc steps trace s d act rest Hk HT HS HL.
    - cbn [run_chk Proofs_C01s6d.Res6]. exact I.
    - rewrite run_chk_S. unfold body_c. rewrite Hk.
      destruct (znth (r_code r) pc) as [i|] eqn:Hi; [|exact I].
      pose proof (ROK _ _ Hk) as [OKk Gb0 Gbe CMk Park NDk HNk]. destruct (CMk _ _ Hi) as (Hg0 & Epm & HM).
      pose proof (pm_of4_next (ri_P0 (RI k)) _ _ _ Hi) as Hnext. fold (pm4 RI k r (pc + 1)) in Hnext. fold (pm4 RI k r pc) in Hnext.
      pose proof HT as (HC & Hst & Hsz & Hdi).
      set (rm := ri_rm (RI k)) in *. set (N := ri_N (RI k)) in *. set (base := data_start act) in *.
      set (g := GB k pc) in *. set (q := pm4 RI k r (pc - g)) in *.
      assert (Evp : vp k r pc = q) by reflexivity.
      destruct HM as [(Eg1 & l & ->)|(Eg1 & HM)].
      { (* a site inside a group: a step of the reference machine only *)
        unfold exec_instr_c. cbv zeta.
        pose proof (IHf k r ctx a (pc + 1) (S steps) (trace ++ [(l, ctx ++ [view_of r a])]) s d act rest Hk HT HS HL) as HR.
        replace (vp k r (pc + 1)) with q in HR; [exact HR|].
        unfold vp. rewrite Eg1. fold g. unfold q. f_equal. lia. }
      assert (Evp1 : vp k r (pc + 1) = q + g + blen4 i).
      { unfold vp. rewrite Eg1, Z.sub_0_r. unfold q. lia. }
      assert (Hstep : forall a' d' n pc', vm_run n (vm_at s q d) = Ok (vm_at s (vp k r pc') d') ->
                SR rm base N a' d' -> (forall j, j < base -> znth d' j = znth d j) -> zlen d' = zlen d ->
                forall st tr, Res6 k s base d q (run_chk rs f ctx k a' pc' st tr)).
      { intros a' d' n pc' Hvm HS' Hpre Ld st tr.
        assert (HL' : LOK base rest ctx d').
        { eapply LowOK_stable; [exact HL | rewrite Ld; pose proof (sr_fit _ _ _ _ _ HS); lia | exact Hpre]. }
        pose proof (IHf k r ctx a' pc' st tr s d' act rest Hk HT HS' HL') as HR.
        exact (Res6_compose k s base d d' q _ n _ Hvm Hpre HR). }
      assert (Hold : forall (i0 : rinstr), i0 = i -> g = 0 -> imatch3 rm C (jpost6 RI GB k r) q i0 -> blen4 i0 = blen3 i0 ->
                Res6 k s base d q (exec_instr_c rs (run_chk rs f) r ctx k a pc steps trace i0)).
      { intros i0 -> Hgz HM3 Hb.
        assert (HM3' : imatch3 rm C (jpostG r (vp k r)) (vp k r pc) i).
        { rewrite Evp. eapply imatch3_mono; [apply rm_le_refl | intros q' ins _ Hz; exact Hz | | exact HM3].
          intros q' f0 e _ Hj. eapply vp_jump; exact Hj. }
        assert (Hnx : vp k r (pc + 1) = vp k r pc + blen3 i) by (rewrite Evp1, Evp, Hgz, <- Hb; lia).
        destruct (exec_instr_c rs (run_chk rs f) r ctx k a pc steps trace i) as [ret st' tr'|vw st' tr'| |] eqn:HX; [| |exact I|exact I].
        - destruct (step3_generic rs k r rm base N C (vp k r) OKk (run_chk rs f) ctx a pc steps trace i s d _ HM3' Hnx
                      (conj HC (ex_intro _ act (ex_intro _ rest (conj Hst eq_refl)))) HS HX ltac:(discriminate))
            as [(_ & Ho)|(NH & a' & pc' & tr1 & n & d' & Hn & Hvm & HS' & Hch & Hrec)]; [discriminate|].
          rewrite Evp in Hvm. rewrite <- Hrec. apply (Hstep a' d' n pc' Hvm HS').
          + intros j Hj. eapply chg_outside; eauto. unfold in_frame. lia.
          + apply Hch.
        - destruct (step3_generic rs k r rm base N C (vp k r) OKk (run_chk rs f) ctx a pc steps trace i s d _ HM3' Hnx
                      (conj HC (ex_intro _ act (ex_intro _ rest (conj Hst eq_refl)))) HS HX ltac:(discriminate))
            as [(Hhalt & Ho)|(NH & a' & pc' & tr1 & n & d' & Hn & Hvm & HS' & Hch & Hrec)].
          + injection Ho as -> -> ->. cbn [Proofs_C01s6d.Res6].
            exists 0%nat, (vm_at s q d). split; [reflexivity|]. split.
            * apply (halted_at C); [exact HC|]. destruct Hhalt as [-> | ->]; exact HM3.
            * cbn [vm_at data stack]. rewrite Hst. eapply top_views6; eauto.
          + rewrite Evp in Hvm. rewrite <- Hrec. apply (Hstep a' d' n pc' Hvm HS').
            * intros j Hj. eapply chg_outside; eauto. unfold in_frame. lia.
            * apply Hch. }
      destruct i as [l|x v|id v|id ex|id back|v ex|target|l|x y l| |out|]; cbn [imatch6] in HM;
        try (destruct HM as [Hgz HM]; apply Hold; [reflexivity | exact Hgz | exact HM | reflexivity]).
      + (* RAssign *)
        destruct HM as (rx & Hx & HV). cbn [blen4] in Evp1.
        unfold exec_instr_c. cbv zeta.
        pose proof (rmo_var_rng _ _ OKk _ _ Hx) as Rx.
        pose proof (eval6 rs RI GB C FT FT_ok ROK f IHf k r ctx a s act rest Hk HT v rx q (fun _ => True) g (S steps) trace d HV Rx HS HL) as HE.
        destruct (eval_c rs (run_chk rs f) a (ctx ++ [view_of r a]) v (S steps) trace) as [z st1 tr1|vw st1 tr1| |]; cbn [VRes6d] in HE; auto.
        destruct HE as (n & d' & Hvm & Ld & Hz & Hzb & Hun).
        replace (q + vlen4 v + g) with (vp k r (pc + 1)) in Hvm by (rewrite Evp1; lia).
        apply (Hstep _ d' n (pc + 1) Hvm); [| |exact Ld].
        * eapply SR_var; [exact OKk | exact HS | exact Hx | | exact Hz | exact Hzb]. split; [exact Ld|].
          intros j Hj Hjt. apply Hun; [exact Hj|]. intros t _ Ht. apply Hjt; exact Ht.
        * intros j Hj. apply Hun; [lia|]. intros t _ Ht E. pose proof (rmo_tmp_rng _ _ OKk _ Ht). lia.
      + (* RLoopInit *)
        destruct v as [b| | | |]; try contradiction. destruct HM as (rc & Hx & HV). cbn [blen4 blen3 blen vlen] in Evp1.
        unfold exec_instr_c. cbv zeta.
        pose proof (rmo_cnt_rng _ _ OKk _ _ Hx) as Rx.
        pose proof (eval6 rs RI GB C FT FT_ok ROK f IHf k r ctx a s act rest Hk HT (RVar b) rc q (fun _ => False) g (S steps) trace d HV Rx HS HL) as HE.
        destruct (eval_c rs (run_chk rs f) a (ctx ++ [view_of r a]) (RVar b) (S steps) trace) as [z st1 tr1|vw st1 tr1| |]; cbn [VRes6d vlen4 vlen] in HE; auto.
        destruct HE as (n & d' & Hvm & Ld & Hz & Hzb & Hun).
        replace (q + 1 + g) with (vp k r (pc + 1)) in Hvm by (rewrite Evp1; lia).
        apply (Hstep _ d' n (pc + 1) Hvm); [| |exact Ld].
        * eapply SR_cnt; [exact OKk | exact HS | exact Hx | | exact Hz | exact Hzb]. split; [exact Ld|].
          intros j Hj Hjt. apply Hun; [exact Hj|]. intros t Hf. contradiction.
        * intros j Hj. apply Hun; [lia|]. intros t Hf. contradiction.
      + (* RWhileTest *)
        destruct v as [c| | | |]; try contradiction. destruct HM as (t & f0 & Tt & HV & Hz & Hj). cbn [blen4 blen3 blen vlen] in Evp1.
        unfold exec_instr_c. cbv zeta.
        pose proof (rmo_tmp_rng _ _ OKk _ Tt) as Rt.
        pose proof (eval6 rs RI GB C FT FT_ok ROK f IHf k r ctx a s act rest Hk HT (RVar c) t q (fun _ => False) g (S steps) trace d HV Rt HS HL) as HE.
        destruct (eval_c rs (run_chk rs f) a (ctx ++ [view_of r a]) (RVar c) (S steps) trace) as [z st1 tr1|vw st1 tr1| |]; cbn [VRes6d vlen4 vlen] in HE; auto.
        destruct HE as (n & d' & Hvm & Ld & Hzz & Hzb & Hun).
        assert (HS' : SR rm base N a d').
        { eapply SR_tmp; [exact OKk | exact HS |]. split; [exact Ld|]. intros j _ Hjt. apply Hun; [|intros t0 Hf; contradiction].
          intros ->. exact (Hjt t Tt eq_refl). }
        assert (Hpre : forall j, j < base -> znth d' j = znth d j).
        { intros j Hj0. apply Hun; [lia|]. intros t0 Hf. contradiction. }
        pose proof (at_jmpc s act rest (q + 1 + g) d' f0 t z ltac:(rewrite HC; exact Hz) Hst Hzz) as Hrun2.
        cbn [jpost6] in Hj. destruct Hj as (tt & Htt & Hjj).
        destruct (z =? 0).
        * rewrite Htt. unfold goto_of. destruct (Z.ltb_spec tt 0) as [|Hge]; [exact I|].
          destruct (Hjj Hge) as [Ej Eg]. 
          assert (Hvm2 : vm_run (n + 1) (vm_at s q d) = Ok (vm_at s (vp k r tt) d')).
          { eapply vm_run_trans; [exact Hvm|]. unfold Proofs_C01s6c.vp. rewrite Eg, Z.sub_0_r, <- Ej. exact Hrun2. }
          exact (Hstep a d' _ tt Hvm2 HS' Hpre Ld st1 tr1).
        * assert (Hvm2 : vm_run (n + 1) (vm_at s q d) = Ok (vm_at s (vp k r (pc + 1)) d')).
          { eapply vm_run_trans; [exact Hvm|]. rewrite Evp1. replace (q + g + (1 + 1)) with (q + 1 + g + 1) by lia. exact Hrun2. }
          exact (Hstep a d' _ (pc + 1) Hvm2 HS' Hpre Ld st1 tr1).
      + (* RIfGoto *)
        destruct x as [y0| | | |]; try contradiction. destruct y as [|c| | |]; try contradiction.
        destruct HM as (t1 & t2 & tc & f0 & n1 & n2 & Ek & T1 & T2 & Tc & Hne & M1 & M2 & Z2 & Z3 & Hj).
        cbn [blen4 blen3 blen vlen] in Evp1. unfold exec_instr_c. cbv zeta.
        pose proof (rmo_tmp_rng _ _ OKk _ T1) as R1. pose proof (rmo_tmp_rng _ _ OKk _ T2) as R2. pose proof (rmo_tmp_rng _ _ OKk _ Tc) as Rc.
        pose proof (eval6 rs RI GB C FT FT_ok ROK f IHf k r ctx a s act rest Hk HT (RVar y0) t1 q (fun _ => False) n1 (S steps) trace d M1 R1 HS HL) as HE1.
        cbn [eval_c] in HE1 |- *. cbn [VRes6d vlen4 vlen] in HE1.
        destruct HE1 as (m1 & d1 & Run1 & L1 & Zx & Bx & U1).
        assert (HS1 : SR rm base N a d1).
        { eapply SR_tmp; [exact OKk | exact HS |]. split; [exact L1|]. intros j _ Hjt. apply U1; [|intros t0 Hf; contradiction].
          intros ->. exact (Hjt t1 T1 eq_refl). }
        assert (HL1 : LOK base rest ctx d1).
        { eapply LowOK_stable; [exact HL | rewrite L1; pose proof (sr_fit _ _ _ _ _ HS); lia |].
          intros j Hj0. apply U1; [lia|]. intros t0 Hf. contradiction. }
        pose proof (eval6 rs RI GB C FT FT_ok ROK f IHf k r ctx a s act rest Hk HT (RNum c) t2 (q + 1 + n1) (fun _ => False) n2 (S steps) trace d1 M2 R2 HS1 HL1) as HE2.
        cbn [eval_c VRes6d vlen4 vlen] in HE2.
        destruct HE2 as (m2 & d2 & Run2 & L2 & Zc & Bc & U2).
        pose proof (sr_fit _ _ _ _ _ HS) as Hfit. set (x := get (ra_vars a) y0) in *.
        assert (Rd1 : znth d2 (base + t1) = Some x) by (rewrite U2; [exact Zx | lia | intros t0 Hf; contradiction]).
        destruct (zupd_ex d2 (base + tc) (if x =? c then 0 else 1) ltac:(lia)) as [d3 U3].
        assert (Rd3 : znth d3 (base + tc) = Some (if x =? c then 0 else 1)) by (rewrite (znth_zupd _ _ _ _ U3), Z.eqb_refl; reflexivity).
        pose proof (zupd_length _ _ _ _ U3) as L3.
        assert (Hsame : forall j, (forall t0, rm_tmp rm t0 -> j <> base + t0) -> znth d3 j = znth d j).
        { intros j Hjt. rewrite (znth_zupd _ _ _ _ U3). destruct (Z.eqb_spec j (base + tc)) as [E|]; [exfalso; exact (Hjt tc Tc E)|].
          rewrite U2; [|intros E; exact (Hjt t2 T2 E) | intros t0 Hf; contradiction].
          apply U1; [intros E; exact (Hjt t1 T1 E) | intros t0 Hf; contradiction]. }
        assert (HS3 : SR rm base N a d3).
        { eapply SR_tmp; [exact OKk | exact HS |]. split; [lia|]. intros j _ Hjt. apply Hsame; exact Hjt. }
        assert (Hpre : forall j, j < base -> znth d3 j = znth d j).
        { intros j Hj0. apply Hsame. intros t0 Ht0 E. pose proof (rmo_tmp_rng _ _ OKk _ Ht0). lia. }
        assert (Hrun : vm_run (m1 + (m2 + (1 + 1))) (vm_at s q d) =
                       Ok (vm_at s (if (if x =? c then 0 else 1) =? 0 then q + 3 + g + f0 else q + 3 + g + 1) d3)).
        { eapply vm_run_trans; [exact Run1|]. eapply vm_run_trans; [exact Run2|].
          eapply vm_run_trans; [eapply at_test; [rewrite HC; replace (q + 1 + n1 + 1 + n2) with (q + 2 + g) by lia; exact Z2
                                                 | exact Hst | exact Rd1 | exact Zc | exact U3]|].
          replace (q + 1 + n1 + 1 + n2 + 1) with (q + 3 + g) by lia.
          eapply at_jmpc; [rewrite HC; exact Z3 | exact Hst | exact Rd3]. }
        cbn [jpost6] in Hj.
        destruct (x =? c).
        * unfold goto_of. destruct (Z.ltb_spec (label_pos (r_labels r) l) 0) as [|Hge]; [exact I|].
          destruct (Hj Hge) as [Ej Eg]. cbn [Z.eqb] in Hrun.
          assert (Hvm2 : vm_run (m1 + (m2 + (1 + 1))) (vm_at s q d) = Ok (vm_at s (vp k r (label_pos (r_labels r) l)) d3)).
          { unfold Proofs_C01s6c.vp. rewrite Eg, Z.sub_0_r, <- Ej. exact Hrun. }
          exact (Hstep a d3 _ _ Hvm2 HS3 Hpre ltac:(lia) (S steps) trace).
        * cbn [Z.eqb] in Hrun.
          assert (Hvm2 : vm_run (m1 + (m2 + (1 + 1))) (vm_at s q d) = Ok (vm_at s (vp k r (pc + 1)) d3)).
          { rewrite Evp1. replace (q + g + (1 + 1 + 2)) with (q + 3 + g + 1) by lia. exact Hrun. }
          exact (Hstep a d3 _ _ Hvm2 HS3 Hpre ltac:(lia) (S steps) trace).
      + (* RReturn *)
        destruct HM as [Hgz HM]. cbn [imatch4] in HM. destruct HM as (ro & Hx & Hz).
        unfold exec_instr_c. cbv zeta. cbn [Proofs_C01s6d.Res6].
        exists 0%nat, d, q, ro. split; [reflexivity|]. split; [exact Hz|].
        split; [exact (rmo_var_rng _ _ OKk _ _ Hx)|]. split; [exact (sr_var _ _ _ _ _ HS _ _ Hx)|].
        split; [apply (sr_vb _ _ _ _ _ HS)|]. split; [apply (sr_fit _ _ _ _ _ HS) | auto].
  Qed.
End Run6.
