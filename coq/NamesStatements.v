(* NamesStatements.v — the side condition "identifiers contain no blank" (lexable_names) of the C01/C07 theorems holds
   for every tree the pipeline parses, provided the supplied file names contain no blank (a renamed macro temporary
   carries the name of its file); and without any condition the names are never the generator's own register names. *)
From Theo Require Import Base Regex Tokens Errors Lexer Scan MacroExtract Grammar LR MacroApply Parser VMModel GenModel Compile
                         RefSem RefSemChk VMSpec C01Statements C01Stages C01Stages3 C01Stages4 Gen_Lexer Gen_Consts.
Local Open Scope Z_scope.

Fixpoint has_prefix (p s : str) : bool :=
  match p, s with
  | [], _ => true
  | a :: p', b :: s' => (a =? b)%N && has_prefix p' s'
  | _ :: _, [] => false
  end.

(* not "Temporary Variable", not "Loop Variable ..." *)
Definition safe_name (tok : str) : bool :=
  negb (str_eqb tok temp_name_str) && negb (has_prefix loopvar_p1 tok).

Fixpoint safe_names (n : node) : bool :=
  match n with
  | Node t _ _ tok l r =>
      (match t with N_NAME => safe_name tok | _ => true end)
      && (match l with Some x => safe_names x | None => true end)
      && (match r with Some x => safe_names x | None => true end)
  end.

Definition C01_lexable_safe_stmt : Prop := forall tok, lexable tok = true -> safe_name tok = true.

(* whatever the files: no name of a parsed tree is one of the generator's internal names *)
Definition C01_pipeline_safe_names_stmt : Prop :=
  forall files main p root, parse files main = Ok p -> pr_root p = Some root -> safe_names root = true.

(* with blank-free file names: no name of a parsed tree contains a blank *)
Definition C01_pipeline_lexable_stmt : Prop :=
  forall files main p root,
    Forall (fun kv => lexable (fst kv) = true) files ->
    parse files main = Ok p -> pr_ok p = true -> pr_root p = Some root -> lexable_names root = true.

(* without pr_ok the statement is false: after a syntax error a NAME node can carry the text of any token, e.g. `!= 0`
   (the file map [("m", "GOTO != 0")]) *)
Definition C01_pipeline_lexable_unguarded_stmt : Prop :=
  forall files main p root,
    Forall (fun kv => lexable (fst kv) = true) files ->
    parse files main = Ok p -> pr_root p = Some root -> lexable_names root = true.
Definition C01_pipeline_lexable_needs_ok_stmt : Prop := ~ C01_pipeline_lexable_unguarded_stmt.

(* C01 from source text with conditions on the INPUT only where possible: blank-free file names instead of blank-free
   identifiers.  What remains is the layout of the expanded program (canonical4) and the definedness of the
   flattening, which C04_static gives for every successful compilation. *)
Definition C01_source_stmt : Prop :=
  forall files main c p root rs,
    Forall (fun kv => lexable (fst kv) = true) files ->
    compile files main = Ok c -> cr_ok c = true ->
    parse files main = Ok p -> pr_root p = Some root ->
    canonical4 root = true ->
    abstract_source (Some root) = Some rs ->
    (forall fuel rviews steps trace, run_ref_chk fuel rs = OStop rviews steps trace ->
       exists k s vmviews,
         vm_run k (init (cr_prog c)) = Ok s /\ isDone s = Ok true /\
         views s = Ok vmviews /\ Forall2 view_agrees vmviews rviews /\ (steps <= k)%nat) /\
    (forall n s, run_ref_chk n rs = OFuel -> vm_run n (init (cr_prog c)) = Ok s -> isDone s = Ok false).
