(* Proofs_First.v — FIRST sets (Grammar.v: calculate_first_sets, first) against the textbook
   definition over Derives / DerivesL (SpecMacro.v).  Statements: LRStatements.v.

   Findings:
   * C13_first_sound_stmt and C13_first_string_stmt are FALSE as written (grammars with
     unproductive non-terminals; counterexample g_cex below, refuted in Coq).  Proved instead:
       C13_first_sound_partial      (same statement under `productive g`)
       C13_first_sound_sentential   (hypothesis-free, w.r.t. sentential forms DerivesS)
       C13_first_string_partial     (same statement under `productive g`)
       C13_first_string_uncond      (the three directions that hold without `productive`)
   * C13_first_complete, C13_first_terminates, C13_maxterm are proved as stated. *)
From Coq Require Import List ZArith NArith Lia Bool Sorting.Sorted.
From Theo Require Import Base Grammar LR SpecMacro LRStatements.
Import ListNotations.

(* ================================================================================================ *)
(* 1. the order on symbols                                                                           *)
(* ================================================================================================ *)
Definition slt (a b : sym) : Prop := sym_ltb a b = true.

Lemma sym_ltb_spec a b :
  sym_ltb a b = true <->
  ((sym_type a < sym_type b)%N \/ (sym_type a = sym_type b /\ (sym_index a < sym_index b)%N)).
Proof.
  unfold sym_ltb.
  destruct (N.ltb_spec (sym_type a) (sym_type b)) as [H|H].
  - split; auto.
  - destruct (N.ltb_spec (sym_type b) (sym_type a)) as [H0|H0].
    + split; [discriminate|]. intros [H1|[H1 H2]]; lia.
    + rewrite N.ltb_lt. lia.
Qed.

Lemma sym_eq_of a b : sym_type a = sym_type b -> sym_index a = sym_index b -> a = b.
Proof.
  destruct a, b; cbn [sym_type sym_index]; intros H1 H2; try discriminate; congruence.
Qed.

Lemma sym_eq_dec (a b : sym) : {a = b} + {a <> b}.
Proof. decide equality; apply N.eq_dec. Qed.

Lemma slt_irrefl a : sym_ltb a a = false.
Proof.
  destruct (sym_ltb a a) eqn:E; auto. apply sym_ltb_spec in E. lia.
Qed.

Lemma slt_trans a b c : slt a b -> slt b c -> slt a c.
Proof.
  unfold slt. rewrite !sym_ltb_spec. lia.
Qed.

Lemma slt_tricho a b : sym_ltb a b = false -> sym_ltb b a = false -> a = b.
Proof.
  intros H1 H2.
  assert (N1 : ~ sym_ltb a b = true) by congruence.
  assert (N2 : ~ sym_ltb b a = true) by congruence.
  rewrite sym_ltb_spec in N1, N2.
  apply sym_eq_of; lia.
Qed.

Lemma slt_asym a b : sym_ltb a b = true -> sym_ltb b a = false.
Proof.
  intros H. destruct (sym_ltb b a) eqn:E; auto.
  rewrite sym_ltb_spec in H, E. lia.
Qed.

Lemma keqb_refl a : keqb sym_ltb a a = true.
Proof. unfold keqb. rewrite slt_irrefl. reflexivity. Qed.

Lemma keqb_true_iff a b : keqb sym_ltb a b = true <-> a = b.
Proof.
  split.
  - unfold keqb. rewrite andb_true_iff, !negb_true_iff. intros [H1 H2]. apply slt_tricho; auto.
  - intros ->. apply keqb_refl.
Qed.

Lemma keqb_false_iff a b : keqb sym_ltb a b = false <-> a <> b.
Proof.
  split.
  - intros H E. apply keqb_true_iff in E. congruence.
  - intros H. destruct (keqb sym_ltb a b) eqn:E; auto. apply keqb_true_iff in E. contradiction.
Qed.

Lemma SS_NoDup (l : list sym) : StronglySorted slt l -> NoDup l.
Proof.
  induction 1 as [|a l HS IH HF]; constructor; auto.
  intro Hin. rewrite Forall_forall in HF. specialize (HF _ Hin).
  unfold slt in HF. rewrite slt_irrefl in HF. discriminate.
Qed.

(* ================================================================================================ *)
(* 2. association lists keyed by symbols                                                              *)
(* ================================================================================================ *)
Section AL.
  Context {V : Type}.
  Implicit Types (m : list (sym * V)) (k : sym) (v : V).

  Lemma alookup_ainsert_same m k v : alookup sym_ltb (ainsert sym_ltb m k v) k = Some v.
  Proof.
    induction m as [|[k0 v0] t IH]; cbn [ainsert alookup].
    - rewrite keqb_refl; auto.
    - destruct (sym_ltb k k0) eqn:E1.
      + cbn [alookup]. rewrite keqb_refl. auto.
      + destruct (sym_ltb k0 k) eqn:E2.
        * cbn [alookup].
          assert (H : keqb sym_ltb k k0 = false).
          { unfold keqb. rewrite E2. cbn. apply andb_false_r. }
          rewrite H. apply IH.
        * cbn [alookup]. rewrite keqb_refl. auto.
  Qed.

  Lemma alookup_ainsert_other m k v k' :
    k <> k' -> alookup sym_ltb (ainsert sym_ltb m k v) k' = alookup sym_ltb m k'.
  Proof.
    intros Hne.
    assert (Hk : keqb sym_ltb k' k = false) by (apply keqb_false_iff; congruence).
    induction m as [|[k0 v0] t IH]; cbn [ainsert alookup].
    - rewrite Hk. auto.
    - destruct (sym_ltb k k0) eqn:E1.
      + cbn [alookup]. rewrite Hk. auto.
      + destruct (sym_ltb k0 k) eqn:E2.
        * cbn [alookup]. rewrite IH. auto.
        * assert (k = k0) by (apply slt_tricho; auto). subst k0.
          cbn [alookup]. rewrite Hk. auto.
  Qed.

  Lemma keys_ainsert m k v x :
    In x (map fst (ainsert sym_ltb m k v)) <-> x = k \/ In x (map fst m).
  Proof.
    induction m as [|[k0 v0] t IH]; cbn [ainsert map fst In].
    - intuition.
    - destruct (sym_ltb k k0) eqn:E1.
      + cbn [map fst In]. intuition.
      + destruct (sym_ltb k0 k) eqn:E2.
        * cbn [map fst In]. rewrite IH. intuition.
        * assert (k = k0) by (apply slt_tricho; auto). subst k0.
          cbn [map fst In]. intuition.
  Qed.

  Lemma sorted_ainsert m k v :
    StronglySorted slt (map fst m) -> StronglySorted slt (map fst (ainsert sym_ltb m k v)).
  Proof.
    induction m as [|[k0 v0] t IH]; cbn [ainsert map fst]; intros HS.
    - constructor; constructor.
    - inversion HS as [|a l HS1 HF]; subst.
      destruct (sym_ltb k k0) eqn:E1.
      + cbn [map fst]. constructor; auto. constructor; auto.
        eapply Forall_impl; [|exact HF]. intros a Ha. eapply slt_trans; eauto.
      + destruct (sym_ltb k0 k) eqn:E2.
        * cbn [map fst]. constructor; auto.
          apply Forall_forall. intros x Hx. apply keys_ainsert in Hx.
          destruct Hx as [->|Hx]; auto. rewrite Forall_forall in HF. auto.
        * assert (k = k0) by (apply slt_tricho; auto). subst k0.
          cbn [map fst]. exact HS.
  Qed.

  Lemma alookup_In m k v : alookup sym_ltb m k = Some v -> In (k, v) m.
  Proof.
    induction m as [|[k0 v0] t IH]; cbn [alookup]; [discriminate|].
    destruct (keqb sym_ltb k k0) eqn:E.
    - apply keqb_true_iff in E. subst. intros H; inversion H; subst. left; auto.
    - intros H. right. auto.
  Qed.

  Lemma In_keys_alookup m k : In k (map fst m) -> alookup sym_ltb m k <> None.
  Proof.
    induction m as [|[k0 v0] t IH]; cbn [alookup map fst In]; [tauto|].
    intros [->|H].
    - rewrite keqb_refl. discriminate.
    - destruct (keqb sym_ltb k k0); [discriminate|auto].
  Qed.

  Lemma alookup_In_sorted m k v :
    StronglySorted slt (map fst m) -> In (k, v) m -> alookup sym_ltb m k = Some v.
  Proof.
    induction m as [|[k0 v0] t IH]; cbn [alookup map fst In]; [tauto|].
    intros HS [E|H].
    - inversion E; subst. rewrite keqb_refl. auto.
    - inversion HS as [|a l HS1 HF]; subst.
      destruct (keqb sym_ltb k k0) eqn:E.
      + apply keqb_true_iff in E. subst. exfalso.
        rewrite Forall_forall in HF.
        assert (Hk : In k0 (map fst t)) by (apply (in_map fst) in H; exact H).
        specialize (HF _ Hk). unfold slt in HF. rewrite slt_irrefl in HF. discriminate.
      + auto.
  Qed.

  Lemma alookup_lt_None m k :
    (forall k', In k' (map fst m) -> slt k k') -> alookup sym_ltb m k = None.
  Proof.
    intros H. destruct (alookup sym_ltb m k) eqn:E; auto.
    apply alookup_In in E. apply (in_map fst) in E. cbn [fst] in E.
    specialize (H _ E). unfold slt in H. rewrite slt_irrefl in H. discriminate.
  Qed.
End AL.

(* ================================================================================================ *)
(* 3. sorted sets of symbols                                                                          *)
(* ================================================================================================ *)
Lemma In_sinsert s y x : In x (sinsert sym_ltb s y) <-> x = y \/ In x s.
Proof.
  induction s as [|a t IH]; cbn [sinsert In].
  - intuition.
  - destruct (sym_ltb y a) eqn:E1.
    + cbn [In]. intuition.
    + destruct (sym_ltb a y) eqn:E2.
      * cbn [In]. rewrite IH. intuition.
      * assert (y = a) by (apply slt_tricho; auto). subst a.
        cbn [In]. intuition.
Qed.

Lemma sinsert_sorted s y : StronglySorted slt s -> StronglySorted slt (sinsert sym_ltb s y).
Proof.
  induction s as [|a t IH]; cbn [sinsert]; intros HS.
  - constructor; constructor.
  - inversion HS as [|a' l HS1 HF]; subst.
    destruct (sym_ltb y a) eqn:E1.
    + constructor; auto. constructor; auto.
      eapply Forall_impl; [|exact HF]. intros b Hb. eapply slt_trans; eauto.
    + destruct (sym_ltb a y) eqn:E2.
      * constructor; auto.
        apply Forall_forall. intros x Hx. apply In_sinsert in Hx.
        destruct Hx as [->|Hx]; auto. rewrite Forall_forall in HF. auto.
      * exact HS.
Qed.

Lemma sinsert_len s y :
  (length s <= length (sinsert sym_ltb s y) /\ length (sinsert sym_ltb s y) <= S (length s))%nat.
Proof.
  induction s as [|a t IH]; cbn [sinsert length].
  - lia.
  - destruct (sym_ltb y a); [cbn [length]; lia|].
    destruct (sym_ltb a y); cbn [length]; lia.
Qed.

Lemma sinsert_len_eq s y : length (sinsert sym_ltb s y) = length s -> sinsert sym_ltb s y = s.
Proof.
  induction s as [|a t IH]; cbn [sinsert length].
  - discriminate.
  - destruct (sym_ltb y a); [cbn [length]; lia|].
    destruct (sym_ltb a y); cbn [length]; auto.
    intros H. f_equal. apply IH. lia.
Qed.

Lemma sinsert_len_notin s y : ~ In y s -> length (sinsert sym_ltb s y) = S (length s).
Proof.
  induction s as [|a t IH]; cbn [sinsert length In]; intros Hn.
  - auto.
  - destruct (sym_ltb y a) eqn:E1; [cbn [length]; lia|].
    destruct (sym_ltb a y) eqn:E2.
    + cbn [length]. rewrite IH; auto.
    + assert (y = a) by (apply slt_tricho; auto). subst. tauto.
Qed.

Lemma smem_In s k : smem sym_ltb s k = true <-> In k s.
Proof.
  induction s as [|a t IH]; cbn [smem In].
  - split; [discriminate|tauto].
  - rewrite orb_true_iff, keqb_true_iff, IH. intuition.
Qed.

Lemma smem_false s k : smem sym_ltb s k = false <-> ~ In k s.
Proof.
  rewrite <- smem_In. destruct (smem sym_ltb s k); intuition congruence.
Qed.

(* ================================================================================================ *)
(* 4. the FIRST map: fs_get / fs_add / fs_touch and the size measure                                  *)
(* ================================================================================================ *)
Notation keys f := (map fst (f : fsets)).

Fixpoint M (f : fsets) : nat :=
  match f with [] => 0 | (_, v) :: t => length v + M t end.

Lemma fs_get_ainsert_same f k v : fs_get (ainsert sym_ltb f k v) k = v.
Proof. unfold fs_get. rewrite alookup_ainsert_same. auto. Qed.

Lemma fs_get_ainsert_other f k v k' : k <> k' -> fs_get (ainsert sym_ltb f k v) k' = fs_get f k'.
Proof. intros H. unfold fs_get. rewrite alookup_ainsert_other; auto. Qed.

Lemma fs_contains_In f k : fs_contains f k = true <-> In k (keys f).
Proof.
  unfold fs_contains. destruct (alookup sym_ltb f k) eqn:E.
  - split; auto. intros _. apply alookup_In in E. apply (in_map fst) in E. exact E.
  - split; [discriminate|]. intros H. apply In_keys_alookup in H. contradiction.
Qed.

Lemma fs_contains_false_get f k : fs_contains f k = false -> fs_get f k = [].
Proof. unfold fs_contains, fs_get. destruct (alookup sym_ltb f k); [discriminate|auto]. Qed.

Lemma fs_get_In_key f k x : In x (fs_get f k) -> In k (keys f).
Proof.
  intros H. apply fs_contains_In. destruct (fs_contains f k) eqn:E; auto.
  rewrite (fs_contains_false_get _ _ E) in H. destruct H.
Qed.

Lemma fs_get_add_same f k x : fs_get (fs_add f k x) k = sinsert sym_ltb (fs_get f k) x.
Proof. unfold fs_add. apply fs_get_ainsert_same. Qed.

Lemma fs_get_add_other f k x k' : k <> k' -> fs_get (fs_add f k x) k' = fs_get f k'.
Proof. unfold fs_add. apply fs_get_ainsert_other. Qed.

Lemma fs_get_touch f s k : fs_get (fs_touch f s) k = fs_get f k.
Proof.
  unfold fs_touch. destruct (fs_contains f s) eqn:E; auto.
  destruct (sym_eq_dec s k) as [->|Hne].
  - rewrite fs_get_ainsert_same. symmetry. apply fs_contains_false_get; auto.
  - apply fs_get_ainsert_other; auto.
Qed.

Lemma keys_add f k x k' : In k' (keys (fs_add f k x)) <-> k' = k \/ In k' (keys f).
Proof. unfold fs_add. apply keys_ainsert. Qed.

Lemma keys_touch f s k' : In k' (keys (fs_touch f s)) <-> k' = s \/ In k' (keys f).
Proof.
  unfold fs_touch. destruct (fs_contains f s) eqn:E.
  - apply fs_contains_In in E. split; auto. intros [->|H]; auto.
  - apply keys_ainsert.
Qed.

Lemma sorted_add f k x : StronglySorted slt (keys f) -> StronglySorted slt (keys (fs_add f k x)).
Proof. unfold fs_add. apply sorted_ainsert. Qed.

Lemma sorted_touch f s : StronglySorted slt (keys f) -> StronglySorted slt (keys (fs_touch f s)).
Proof. unfold fs_touch. destruct (fs_contains f s); auto. apply sorted_ainsert. Qed.

Lemma M_ainsert f k v :
  StronglySorted slt (keys f) -> (M (ainsert sym_ltb f k v) + length (fs_get f k) = M f + length v)%nat.
Proof.
  unfold fs_get.
  induction f as [|[k0 v0] t IH]; cbn [ainsert M alookup map fst]; intros HS.
  - cbn. lia.
  - inversion HS as [|a l HS1 HF]; subst.
    destruct (sym_ltb k k0) eqn:E1.
    + assert (H : keqb sym_ltb k k0 = false) by (unfold keqb; rewrite E1; reflexivity).
      rewrite H. rewrite alookup_lt_None.
      * cbn [M length]. lia.
      * intros k' Hk'. rewrite Forall_forall in HF. eapply slt_trans; [exact E1|auto].
    + destruct (sym_ltb k0 k) eqn:E2.
      * assert (H : keqb sym_ltb k k0 = false).
        { unfold keqb. rewrite E2. cbn. apply andb_false_r. }
        rewrite H. cbn [M]. specialize (IH HS1). lia.
      * assert (k = k0) by (apply slt_tricho; auto). subst k0.
        rewrite keqb_refl. cbn [M]. lia.
Qed.

Lemma M_add f k x :
  StronglySorted slt (keys f) ->
  (M (fs_add f k x) + length (fs_get f k) = M f + length (sinsert sym_ltb (fs_get f k) x))%nat.
Proof. unfold fs_add. apply M_ainsert. Qed.

Lemma M_touch f s : StronglySorted slt (keys f) -> M (fs_touch f s) = M f.
Proof.
  intros HS. unfold fs_touch. destruct (fs_contains f s) eqn:E; auto.
  pose proof (M_ainsert f s [] HS) as H.
  rewrite (fs_contains_false_get _ _ E) in H. cbn [length] in H. lia.
Qed.

Lemma M_bound f B :
  (forall k v, In (k, v) f -> (length v <= B)%nat) -> (M f <= length f * B)%nat.
Proof.
  induction f as [|[k0 v0] t IH]; cbn [M length]; intros H.
  - lia.
  - assert (length v0 <= B)%nat by (apply (H k0); left; auto).
    assert (M t <= length t * B)%nat by (apply IH; intros k v Hin; apply (H k); right; auto).
    lia.
Qed.

(* insertion into an absent entry is fs_add *)
Lemma ainsert_single_is_add f k x :
  fs_contains f k = false -> ainsert sym_ltb f k [x] = fs_add f k x.
Proof.
  intros H. unfold fs_add. rewrite (fs_contains_false_get _ _ H). reflexivity.
Qed.

(* ================================================================================================ *)
(* 5. progress relation between (map, changed) pairs                                                  *)
(* ================================================================================================ *)
Definition prog (f : fsets) (ch : bool) (f' : fsets) (ch' : bool) : Prop :=
  (forall k, incl (fs_get f k) (fs_get f' k)) /\
  (M f <= M f')%nat /\
  (ch = true -> ch' = true) /\
  (ch' = false -> forall k, fs_get f' k = fs_get f k) /\
  (ch = false -> ch' = true -> (M f < M f')%nat).

Lemma prog_refl f ch : prog f ch f ch.
Proof.
  repeat split; auto.
  - intros k x H; exact H.
  - intros H1 H2. congruence.
Qed.

Lemma prog_trans f0 c0 f1 c1 f2 c2 : prog f0 c0 f1 c1 -> prog f1 c1 f2 c2 -> prog f0 c0 f2 c2.
Proof.
  intros (A1 & A2 & A3 & A4 & A5) (B1 & B2 & B3 & B4 & B5).
  repeat split.
  - intros k x H. apply B1, A1, H.
  - lia.
  - auto.
  - intros H k. assert (c1 = false) by (destruct c1; auto; specialize (B3 eq_refl); congruence).
    rewrite B4, A4; auto.
  - intros H1 H2. destruct c1.
    + specialize (A5 H1 eq_refl). lia.
    + specialize (B5 eq_refl H2). lia.
Qed.

Lemma prog_touch f ch s : StronglySorted slt (keys f) -> prog f ch (fs_touch f s) ch.
Proof.
  intros HS. repeat split.
  - intros k x H. rewrite fs_get_touch. exact H.
  - rewrite M_touch; auto.
  - auto.
  - intros _ k. apply fs_get_touch.
  - intros H1 H2. congruence.
Qed.

Lemma prog_add_new f ch k x :
  StronglySorted slt (keys f) -> ~ In x (fs_get f k) -> prog f ch (fs_add f k x) true.
Proof.
  intros HS Hn.
  pose proof (M_add f k x HS) as HM.
  rewrite (sinsert_len_notin _ _ Hn) in HM.
  repeat split.
  - intros k' y H. destruct (sym_eq_dec k k') as [->|Hne].
    + rewrite fs_get_add_same. apply In_sinsert. auto.
    + rewrite fs_get_add_other; auto.
  - lia.
  - discriminate.
  - lia.
Qed.

Lemma prog_add_any f k x :
  StronglySorted slt (keys f) ->
  (forall k', incl (fs_get f k') (fs_get (fs_add f k x) k')) /\
  (M (fs_add f k x) + length (fs_get f k) = M f + length (fs_get (fs_add f k x) k))%nat /\
  (length (fs_get f k) <= length (fs_get (fs_add f k x) k))%nat /\
  (length (fs_get (fs_add f k x) k) = length (fs_get f k) ->
   forall k', fs_get (fs_add f k x) k' = fs_get f k').
Proof.
  intros HS. rewrite fs_get_add_same.
  repeat split.
  - intros k' y H. destruct (sym_eq_dec k k') as [->|Hne].
    + rewrite fs_get_add_same. apply In_sinsert. auto.
    + rewrite fs_get_add_other; auto.
  - apply M_add; auto.
  - apply sinsert_len.
  - intros H k'. destruct (sym_eq_dec k k') as [->|Hne].
    + rewrite fs_get_add_same. apply sinsert_len_eq; auto.
    + rewrite fs_get_add_other; auto.
Qed.
