(* Proofs_First.v — FIRST sets (Grammar.v: calculate_first_sets, first) against the textbook
   definition over Derives / DerivesL (SpecMacro.v).  Statements: LRStatements.v.

   Findings:
   * C13_first_sound_stmt and C13_first_string_stmt are FALSE as written (grammars with
     unproductive non-terminals; counterexample g_cex below, refuted in Coq).  Proved instead:
       C13_first_sound_partial      (same statement under `productive g`)
       C13_first_sound_sentential   (hypothesis-free, w.r.t. sentential forms DerivesS)
       C13_first_string_partial     (same statement under `productive g`)
       C13_first_string_uncond      (the three directions that hold without `productive`)
   * C13_first_complete, C13_first_terminates, C13_maxterm are proved as stated. *)
From Coq Require Import List ZArith NArith Lia Bool Sorting.Sorted.
From Theo Require Import Base Grammar LR SpecMacro LRStatements.
Import ListNotations.

(* ================================================================================================ *)
(* 1. the order on symbols                                                                           *)
(* ================================================================================================ *)
Definition slt (a b : sym) : Prop := sym_ltb a b = true.

Lemma sym_ltb_spec a b :
  sym_ltb a b = true <->
  ((sym_type a < sym_type b)%N \/ (sym_type a = sym_type b /\ (sym_index a < sym_index b)%N)).
Proof.
  unfold sym_ltb.
  destruct (N.ltb_spec (sym_type a) (sym_type b)) as [H|H].
  - split; auto.
  - destruct (N.ltb_spec (sym_type b) (sym_type a)) as [H0|H0].
    + split; [discriminate|]. intros [H1|[H1 H2]]; lia.
    + rewrite N.ltb_lt. lia.
Qed.

Lemma sym_eq_of a b : sym_type a = sym_type b -> sym_index a = sym_index b -> a = b.
Proof.
  destruct a, b; cbn [sym_type sym_index]; intros H1 H2; try discriminate; congruence.
Qed.

Lemma sym_eq_dec (a b : sym) : {a = b} + {a <> b}.
Proof. decide equality; apply N.eq_dec. Qed.

Lemma slt_irrefl a : sym_ltb a a = false.
Proof.
  destruct (sym_ltb a a) eqn:E; auto. apply sym_ltb_spec in E. lia.
Qed.

Lemma slt_trans a b c : slt a b -> slt b c -> slt a c.
Proof.
  unfold slt. rewrite !sym_ltb_spec. lia.
Qed.

Lemma slt_tricho a b : sym_ltb a b = false -> sym_ltb b a = false -> a = b.
Proof.
  intros H1 H2.
  assert (N1 : ~ sym_ltb a b = true) by congruence.
  assert (N2 : ~ sym_ltb b a = true) by congruence.
  rewrite sym_ltb_spec in N1, N2.
  apply sym_eq_of; lia.
Qed.

Lemma slt_asym a b : sym_ltb a b = true -> sym_ltb b a = false.
Proof.
  intros H. destruct (sym_ltb b a) eqn:E; auto.
  rewrite sym_ltb_spec in H, E. lia.
Qed.

Lemma keqb_refl a : keqb sym_ltb a a = true.
Proof. unfold keqb. rewrite slt_irrefl. reflexivity. Qed.

Lemma keqb_true_iff a b : keqb sym_ltb a b = true <-> a = b.
Proof.
  split.
  - unfold keqb. rewrite andb_true_iff, !negb_true_iff. intros [H1 H2]. apply slt_tricho; auto.
  - intros ->. apply keqb_refl.
Qed.

Lemma keqb_false_iff a b : keqb sym_ltb a b = false <-> a <> b.
Proof.
  split.
  - intros H E. apply keqb_true_iff in E. congruence.
  - intros H. destruct (keqb sym_ltb a b) eqn:E; auto. apply keqb_true_iff in E. contradiction.
Qed.

Lemma SS_NoDup (l : list sym) : StronglySorted slt l -> NoDup l.
Proof.
  induction 1 as [|a l HS IH HF]; constructor; auto.
  intro Hin. rewrite Forall_forall in HF. specialize (HF _ Hin).
  unfold slt in HF. rewrite slt_irrefl in HF. discriminate.
Qed.

(* ================================================================================================ *)
(* 2. association lists keyed by symbols                                                              *)
(* ================================================================================================ *)
Section AL.
  Context {V : Type}.
  Implicit Types (m : list (sym * V)) (k : sym) (v : V).

  Lemma alookup_ainsert_same m k v : alookup sym_ltb (ainsert sym_ltb m k v) k = Some v.
  Proof.
    induction m as [|[k0 v0] t IH]; cbn [ainsert alookup].
    - rewrite keqb_refl; auto.
    - destruct (sym_ltb k k0) eqn:E1.
      + cbn [alookup]. rewrite keqb_refl. auto.
      + destruct (sym_ltb k0 k) eqn:E2.
        * cbn [alookup].
          assert (H : keqb sym_ltb k k0 = false).
          { unfold keqb. rewrite E2. cbn. apply andb_false_r. }
          rewrite H. apply IH.
        * cbn [alookup]. rewrite keqb_refl. auto.
  Qed.

  Lemma alookup_ainsert_other m k v k' :
    k <> k' -> alookup sym_ltb (ainsert sym_ltb m k v) k' = alookup sym_ltb m k'.
  Proof.
    intros Hne.
    assert (Hk : keqb sym_ltb k' k = false) by (apply keqb_false_iff; congruence).
    induction m as [|[k0 v0] t IH]; cbn [ainsert alookup].
    - rewrite Hk. auto.
    - destruct (sym_ltb k k0) eqn:E1.
      + cbn [alookup]. rewrite Hk. auto.
      + destruct (sym_ltb k0 k) eqn:E2.
        * cbn [alookup]. rewrite IH. auto.
        * assert (k = k0) by (apply slt_tricho; auto). subst k0.
          cbn [alookup]. rewrite Hk. auto.
  Qed.

  Lemma keys_ainsert m k v x :
    In x (map fst (ainsert sym_ltb m k v)) <-> x = k \/ In x (map fst m).
  Proof.
    induction m as [|[k0 v0] t IH]; cbn [ainsert map fst In].
    - intuition.
    - destruct (sym_ltb k k0) eqn:E1.
      + cbn [map fst In]. intuition.
      + destruct (sym_ltb k0 k) eqn:E2.
        * cbn [map fst In]. rewrite IH. intuition.
        * assert (k = k0) by (apply slt_tricho; auto). subst k0.
          cbn [map fst In]. intuition.
  Qed.

  Lemma sorted_ainsert m k v :
    StronglySorted slt (map fst m) -> StronglySorted slt (map fst (ainsert sym_ltb m k v)).
  Proof.
    induction m as [|[k0 v0] t IH]; cbn [ainsert map fst]; intros HS.
    - constructor; constructor.
    - inversion HS as [|a l HS1 HF]; subst.
      destruct (sym_ltb k k0) eqn:E1.
      + cbn [map fst]. constructor; auto. constructor; auto.
        eapply Forall_impl; [|exact HF]. intros a Ha. eapply slt_trans; eauto.
      + destruct (sym_ltb k0 k) eqn:E2.
        * cbn [map fst]. constructor; auto.
          apply Forall_forall. intros x Hx. apply keys_ainsert in Hx.
          destruct Hx as [->|Hx]; auto. rewrite Forall_forall in HF. auto.
        * assert (k = k0) by (apply slt_tricho; auto). subst k0.
          cbn [map fst]. exact HS.
  Qed.

  Lemma alookup_In m k v : alookup sym_ltb m k = Some v -> In (k, v) m.
  Proof.
    induction m as [|[k0 v0] t IH]; cbn [alookup]; [discriminate|].
    destruct (keqb sym_ltb k k0) eqn:E.
    - apply keqb_true_iff in E. subst. intros H; inversion H; subst. left; auto.
    - intros H. right. auto.
  Qed.

  Lemma In_keys_alookup m k : In k (map fst m) -> alookup sym_ltb m k <> None.
  Proof.
    induction m as [|[k0 v0] t IH]; cbn [alookup map fst In]; [tauto|].
    intros [->|H].
    - rewrite keqb_refl. discriminate.
    - destruct (keqb sym_ltb k k0); [discriminate|auto].
  Qed.

  Lemma alookup_In_sorted m k v :
    StronglySorted slt (map fst m) -> In (k, v) m -> alookup sym_ltb m k = Some v.
  Proof.
    induction m as [|[k0 v0] t IH]; cbn [alookup map fst In]; [tauto|].
    intros HS [E|H].
    - inversion E; subst. rewrite keqb_refl. auto.
    - inversion HS as [|a l HS1 HF]; subst.
      destruct (keqb sym_ltb k k0) eqn:E.
      + apply keqb_true_iff in E. subst. exfalso.
        rewrite Forall_forall in HF.
        assert (Hk : In k0 (map fst t)) by (apply (in_map fst) in H; exact H).
        specialize (HF _ Hk). unfold slt in HF. rewrite slt_irrefl in HF. discriminate.
      + auto.
  Qed.

  Lemma alookup_lt_None m k :
    (forall k', In k' (map fst m) -> slt k k') -> alookup sym_ltb m k = None.
  Proof.
    intros H. destruct (alookup sym_ltb m k) eqn:E; auto.
    apply alookup_In in E. apply (in_map fst) in E. cbn [fst] in E.
    specialize (H _ E). unfold slt in H. rewrite slt_irrefl in H. discriminate.
  Qed.
End AL.

(* ================================================================================================ *)
(* 3. sorted sets of symbols                                                                          *)
(* ================================================================================================ *)
Lemma In_sinsert s y x : In x (sinsert sym_ltb s y) <-> x = y \/ In x s.
Proof.
  induction s as [|a t IH]; cbn [sinsert In].
  - intuition.
  - destruct (sym_ltb y a) eqn:E1.
    + cbn [In]. intuition.
    + destruct (sym_ltb a y) eqn:E2.
      * cbn [In]. rewrite IH. intuition.
      * assert (y = a) by (apply slt_tricho; auto). subst a.
        cbn [In]. intuition.
Qed.

Lemma sinsert_sorted s y : StronglySorted slt s -> StronglySorted slt (sinsert sym_ltb s y).
Proof.
  induction s as [|a t IH]; cbn [sinsert]; intros HS.
  - constructor; constructor.
  - inversion HS as [|a' l HS1 HF]; subst.
    destruct (sym_ltb y a) eqn:E1.
    + constructor; auto. constructor; auto.
      eapply Forall_impl; [|exact HF]. intros b Hb. eapply slt_trans; eauto.
    + destruct (sym_ltb a y) eqn:E2.
      * constructor; auto.
        apply Forall_forall. intros x Hx. apply In_sinsert in Hx.
        destruct Hx as [->|Hx]; auto. rewrite Forall_forall in HF. auto.
      * exact HS.
Qed.

Lemma sinsert_len s y :
  (length s <= length (sinsert sym_ltb s y) /\ length (sinsert sym_ltb s y) <= S (length s))%nat.
Proof.
  induction s as [|a t IH]; cbn [sinsert length].
  - lia.
  - destruct (sym_ltb y a); [cbn [length]; lia|].
    destruct (sym_ltb a y); cbn [length]; lia.
Qed.

Lemma sinsert_len_eq s y : length (sinsert sym_ltb s y) = length s -> sinsert sym_ltb s y = s.
Proof.
  induction s as [|a t IH]; cbn [sinsert length].
  - discriminate.
  - destruct (sym_ltb y a); [cbn [length]; lia|].
    destruct (sym_ltb a y); cbn [length]; auto.
    intros H. f_equal. apply IH. lia.
Qed.

Lemma sinsert_len_notin s y : ~ In y s -> length (sinsert sym_ltb s y) = S (length s).
Proof.
  induction s as [|a t IH]; cbn [sinsert length In]; intros Hn.
  - auto.
  - destruct (sym_ltb y a) eqn:E1; [cbn [length]; lia|].
    destruct (sym_ltb a y) eqn:E2.
    + cbn [length]. rewrite IH; auto.
    + assert (y = a) by (apply slt_tricho; auto). subst. tauto.
Qed.

Lemma smem_In s k : smem sym_ltb s k = true <-> In k s.
Proof.
  induction s as [|a t IH]; cbn [smem In].
  - split; [discriminate|tauto].
  - rewrite orb_true_iff, keqb_true_iff, IH. intuition.
Qed.

Lemma smem_false s k : smem sym_ltb s k = false <-> ~ In k s.
Proof.
  rewrite <- smem_In. destruct (smem sym_ltb s k); intuition congruence.
Qed.

(* ================================================================================================ *)
(* 4. the FIRST map: fs_get / fs_add / fs_touch and the size measure                                  *)
(* ================================================================================================ *)
Notation keys f := (map fst (f : fsets)).

Fixpoint M (f : fsets) : nat :=
  match f with [] => 0 | (_, v) :: t => length v + M t end.

Lemma fs_get_ainsert_same f k v : fs_get (ainsert sym_ltb f k v) k = v.
Proof. unfold fs_get. rewrite alookup_ainsert_same. auto. Qed.

Lemma fs_get_ainsert_other f k v k' : k <> k' -> fs_get (ainsert sym_ltb f k v) k' = fs_get f k'.
Proof. intros H. unfold fs_get. rewrite alookup_ainsert_other; auto. Qed.

Lemma fs_contains_In f k : fs_contains f k = true <-> In k (keys f).
Proof.
  unfold fs_contains. destruct (alookup sym_ltb f k) eqn:E.
  - split; auto. intros _. apply alookup_In in E. apply (in_map fst) in E. exact E.
  - split; [discriminate|]. intros H. apply In_keys_alookup in H. contradiction.
Qed.

Lemma fs_contains_false_get f k : fs_contains f k = false -> fs_get f k = [].
Proof. unfold fs_contains, fs_get. destruct (alookup sym_ltb f k); [discriminate|auto]. Qed.

Lemma fs_get_In_key f k x : In x (fs_get f k) -> In k (keys f).
Proof.
  intros H. apply fs_contains_In. destruct (fs_contains f k) eqn:E; auto.
  rewrite (fs_contains_false_get _ _ E) in H. destruct H.
Qed.

Lemma fs_get_add_same f k x : fs_get (fs_add f k x) k = sinsert sym_ltb (fs_get f k) x.
Proof. unfold fs_add. apply fs_get_ainsert_same. Qed.

Lemma fs_get_add_other f k x k' : k <> k' -> fs_get (fs_add f k x) k' = fs_get f k'.
Proof. unfold fs_add. apply fs_get_ainsert_other. Qed.

Lemma fs_get_touch f s k : fs_get (fs_touch f s) k = fs_get f k.
Proof.
  unfold fs_touch. destruct (fs_contains f s) eqn:E; auto.
  destruct (sym_eq_dec s k) as [->|Hne].
  - rewrite fs_get_ainsert_same. symmetry. apply fs_contains_false_get; auto.
  - apply fs_get_ainsert_other; auto.
Qed.

Lemma keys_add f k x k' : In k' (keys (fs_add f k x)) <-> k' = k \/ In k' (keys f).
Proof. unfold fs_add. apply keys_ainsert. Qed.

Lemma keys_touch f s k' : In k' (keys (fs_touch f s)) <-> k' = s \/ In k' (keys f).
Proof.
  unfold fs_touch. destruct (fs_contains f s) eqn:E.
  - apply fs_contains_In in E. split; auto. intros [->|H]; auto.
  - apply keys_ainsert.
Qed.

Lemma sorted_add f k x : StronglySorted slt (keys f) -> StronglySorted slt (keys (fs_add f k x)).
Proof. unfold fs_add. apply sorted_ainsert. Qed.

Lemma sorted_touch f s : StronglySorted slt (keys f) -> StronglySorted slt (keys (fs_touch f s)).
Proof. unfold fs_touch. destruct (fs_contains f s); auto. apply sorted_ainsert. Qed.

Lemma M_ainsert f k v :
  StronglySorted slt (keys f) -> (M (ainsert sym_ltb f k v) + length (fs_get f k) = M f + length v)%nat.
Proof.
  unfold fs_get.
  induction f as [|[k0 v0] t IH]; cbn [ainsert M alookup map fst]; intros HS.
  - cbn. lia.
  - inversion HS as [|a l HS1 HF]; subst.
    destruct (sym_ltb k k0) eqn:E1.
    + assert (H : keqb sym_ltb k k0 = false) by (unfold keqb; rewrite E1; reflexivity).
      rewrite H. rewrite alookup_lt_None.
      * cbn [M length]. lia.
      * intros k' Hk'. rewrite Forall_forall in HF. eapply slt_trans; [exact E1|auto].
    + destruct (sym_ltb k0 k) eqn:E2.
      * assert (H : keqb sym_ltb k k0 = false).
        { unfold keqb. rewrite E2. cbn. apply andb_false_r. }
        rewrite H. cbn [M]. specialize (IH HS1). lia.
      * assert (k = k0) by (apply slt_tricho; auto). subst k0.
        rewrite keqb_refl. cbn [M]. lia.
Qed.

Lemma M_add f k x :
  StronglySorted slt (keys f) ->
  (M (fs_add f k x) + length (fs_get f k) = M f + length (sinsert sym_ltb (fs_get f k) x))%nat.
Proof. unfold fs_add. apply M_ainsert. Qed.

Lemma M_touch f s : StronglySorted slt (keys f) -> M (fs_touch f s) = M f.
Proof.
  intros HS. unfold fs_touch. destruct (fs_contains f s) eqn:E; auto.
  pose proof (M_ainsert f s [] HS) as H.
  rewrite (fs_contains_false_get _ _ E) in H. cbn [length] in H. lia.
Qed.

Lemma M_bound f B :
  (forall k v, In (k, v) f -> (length v <= B)%nat) -> (M f <= length f * B)%nat.
Proof.
  induction f as [|[k0 v0] t IH]; cbn [M length]; intros H.
  - lia.
  - assert (length v0 <= B)%nat by (apply (H k0); left; auto).
    assert (M t <= length t * B)%nat by (apply IH; intros k v Hin; apply (H k); right; auto).
    lia.
Qed.

(* insertion into an absent entry is fs_add *)
Lemma ainsert_single_is_add f k x :
  fs_contains f k = false -> ainsert sym_ltb f k [x] = fs_add f k x.
Proof.
  intros H. unfold fs_add. rewrite (fs_contains_false_get _ _ H). reflexivity.
Qed.

(* ================================================================================================ *)
(* 5. progress relation between (map, changed) pairs                                                  *)
(* ================================================================================================ *)
Definition prog (f : fsets) (ch : bool) (f' : fsets) (ch' : bool) : Prop :=
  (forall k, incl (fs_get f k) (fs_get f' k)) /\
  (M f <= M f')%nat /\
  (ch = true -> ch' = true) /\
  (ch' = false -> forall k, fs_get f' k = fs_get f k) /\
  (ch = false -> ch' = true -> (M f < M f')%nat).

Lemma prog_refl f ch : prog f ch f ch.
Proof.
  repeat split; auto.
  - intros k x H; exact H.
  - intros H1 H2. congruence.
Qed.

Lemma prog_trans f0 c0 f1 c1 f2 c2 : prog f0 c0 f1 c1 -> prog f1 c1 f2 c2 -> prog f0 c0 f2 c2.
Proof.
  intros (A1 & A2 & A3 & A4 & A5) (B1 & B2 & B3 & B4 & B5).
  repeat split.
  - intros k x H. apply B1, A1, H.
  - lia.
  - auto.
  - intros H k. assert (c1 = false) by (destruct c1; auto; specialize (B3 eq_refl); congruence).
    rewrite B4, A4; auto.
  - intros H1 H2. destruct c1.
    + specialize (A5 H1 eq_refl). lia.
    + specialize (B5 eq_refl H2). lia.
Qed.

Lemma prog_touch f ch s : StronglySorted slt (keys f) -> prog f ch (fs_touch f s) ch.
Proof.
  intros HS. repeat split.
  - intros k x H. rewrite fs_get_touch. exact H.
  - rewrite M_touch; auto.
  - auto.
  - intros _ k. apply fs_get_touch.
  - intros H1 H2. congruence.
Qed.

Lemma prog_add_new f ch k x :
  StronglySorted slt (keys f) -> ~ In x (fs_get f k) -> prog f ch (fs_add f k x) true.
Proof.
  intros HS Hn.
  pose proof (M_add f k x HS) as HM.
  rewrite (sinsert_len_notin _ _ Hn) in HM.
  repeat split.
  - intros k' y H. destruct (sym_eq_dec k k') as [->|Hne].
    + rewrite fs_get_add_same. apply In_sinsert. auto.
    + rewrite fs_get_add_other; auto.
  - lia.
  - discriminate.
  - lia.
Qed.

Lemma prog_add_any f k x :
  StronglySorted slt (keys f) ->
  (forall k', incl (fs_get f k') (fs_get (fs_add f k x) k')) /\
  (M (fs_add f k x) + length (fs_get f k) = M f + length (fs_get (fs_add f k x) k))%nat /\
  (length (fs_get f k) <= length (fs_get (fs_add f k x) k))%nat /\
  (length (fs_get (fs_add f k x) k) = length (fs_get f k) ->
   forall k', fs_get (fs_add f k x) k' = fs_get f k').
Proof.
  intros HS. rewrite fs_get_add_same.
  repeat split.
  - intros k' y H. destruct (sym_eq_dec k k') as [->|Hne].
    + rewrite fs_get_add_same. apply In_sinsert. auto.
    + rewrite fs_get_add_other; auto.
  - apply M_add; auto.
  - apply sinsert_len.
  - intros H k'. destruct (sym_eq_dec k k') as [->|Hne].
    + rewrite fs_get_add_same. apply sinsert_len_eq; auto.
    + rewrite fs_get_add_other; auto.
Qed.

Scheme Derives_min := Minimality for Derives Sort Prop
  with DerivesL_min := Minimality for DerivesL Sort Prop.
Combined Scheme Derives_DerivesL_mut from Derives_min, DerivesL_min.

(* ================================================================================================ *)
(* 6. symbols of a grammar, unfolding of the two phases                                               *)
(* ================================================================================================ *)
Definition allsyms (rs : list (sym * list alternative)) : list sym :=
  concat (map (fun r => concat (snd r)) rs).

Lemma In_allsyms rs x :
  In x (allsyms rs) <-> exists left alts alt, In (left, alts) rs /\ In alt alts /\ In x alt.
Proof.
  unfold allsyms. rewrite in_concat. split.
  - intros (l & Hl & Hx). apply in_map_iff in Hl. destruct Hl as ([left alts] & <- & Hr).
    cbn [snd] in Hx. apply in_concat in Hx. destruct Hx as (alt & Ha & Hx). eauto 6.
  - intros (left & alts & alt & H1 & H2 & H3). exists (concat alts). split.
    + apply in_map_iff. exists (left, alts); auto.
    + apply in_concat. eauto.
Qed.

Lemma count_alts_ge alts n0 :
  (n0 + length (concat alts) <= fold_left (fun n (alt : alternative) => n + length alt + 1) alts n0)%nat.
Proof.
  revert n0. induction alts as [|a l IH]; intros n0; cbn [fold_left concat].
  - cbn. lia.
  - rewrite app_length. specialize (IH (n0 + length a + 1)%nat). lia.
Qed.

Lemma allsyms_cons r l : allsyms (r :: l) = concat (snd r) ++ allsyms l.
Proof. reflexivity. Qed.

Lemma count_rules_ge (rs : list (sym * list alternative)) n0 :
  (n0 + length rs + length (allsyms rs) <=
   fold_left (fun n (rule : sym * list alternative) =>
                fold_left (fun n (alt : alternative) => n + length alt + 1) (snd rule) (n + 1)) rs n0)%nat.
Proof.
  revert n0. induction rs as [|r l IH]; intros n0; cbn [fold_left].
  - cbn. lia.
  - rewrite allsyms_cons, app_length. cbn [length].
    pose proof (count_alts_ge (snd r) (n0 + 1)) as H1.
    remember (fold_left (fun n (alt : alternative) => n + length alt + 1) (snd r) (n0 + 1))%nat as n1.
    specialize (IH n1).
    remember (fold_left _ l n1) as n2.
    lia.
Qed.

Lemma count_syms_ge rs : (2 + length rs + length (allsyms rs) <= count_syms rs)%nat.
Proof. unfold count_syms. apply count_rules_ge. Qed.

Definition p1_step (st : fstate) (s : sym) : fstate :=
  match s with
  | Tm i =>
      let mx := N.max i (fs_max st) in
      if fs_contains (fs_sets st) s then mkFS (fs_sets st) mx (fs_changed st)
      else mkFS (ainsert sym_ltb (fs_sets st) s [s]) mx true
  | Nt _ => mkFS (fs_touch (fs_sets st) s) (fs_max st) (fs_changed st)
  | Eps => st
  end.

Definition p1_init (left : sym) (st : fstate) (alt : alternative) : fstate :=
  match alt with
  | [] =>
      if negb (fs_contains (fs_sets st) left) then
        mkFS (ainsert sym_ltb (fs_sets st) left [Eps]) (fs_max st) true
      else if negb (smem sym_ltb (fs_get (fs_sets st) left) Eps) then
        mkFS (fs_add (fs_sets st) left Eps) (fs_max st) true
      else st
  | _ => st
  end.

Lemma phase1_alt_eq left st alt : phase1_alt left st alt = fold_left p1_step alt (p1_init left st alt).
Proof. reflexivity. Qed.

Definition p1_rule (st : fstate) (rule : sym * list alternative) : fstate :=
  fold_left (phase1_alt (fst rule)) (snd rule) st.

Definition p2_rule (st : fstate) (rule : sym * list alternative) : fstate :=
  fold_left (phase2_alt (fst rule)) (snd rule)
            (mkFS (fs_touch (fs_sets st) (fst rule)) (fs_max st) (fs_changed st)).

Lemma first_round_eq rs st : first_round rs st = fold_left p2_rule rs (fold_left p1_rule rs st).
Proof. reflexivity. Qed.

Lemma add_terminals_cons f left x from :
  add_terminals f left (x :: from) = add_terminals (if is_tm x then fs_add f left x else f) left from.
Proof. reflexivity. Qed.

Lemma is_tm_true x : is_tm x = true <-> exists a, x = Tm a.
Proof.
  destruct x; cbn [is_tm]; split; try discriminate; eauto; intros [a H]; discriminate.
Qed.

(* state-level progress *)
Definition progS (st st' : fstate) : Prop :=
  prog (fs_sets st) (fs_changed st) (fs_sets st') (fs_changed st') /\ (fs_max st <= fs_max st')%N.

Lemma progS_refl st : progS st st.
Proof. split; [apply prog_refl|lia]. Qed.

Lemma progS_trans a b c : progS a b -> progS b c -> progS a c.
Proof. intros [A1 A2] [B1 B2]. split; [eapply prog_trans; eauto|lia]. Qed.

Lemma fold_spec {A} (step : fstate -> A -> fstate) (I : fstate -> Prop) (Q : A -> Prop)
      (Post : fstate -> A -> Prop) :
  (forall st st' a, progS st st' -> Post st a -> Post st' a) ->
  (forall st a, Q a -> I st -> I (step st a) /\ progS st (step st a) /\ Post (step st a) a) ->
  forall l st, (forall a, In a l -> Q a) -> I st ->
    I (fold_left step l st) /\ progS st (fold_left step l st) /\
    (forall a, In a l -> Post (fold_left step l st) a).
Proof.
  intros Hmono Hstep. induction l as [|a l IH]; intros st HQ HI; cbn [fold_left].
  - split; auto. split; [apply progS_refl|]. intros a [].
  - destruct (Hstep st a) as (I1 & P1 & Po1); auto. { apply HQ; left; auto. }
    destruct (IH (step st a)) as (I2 & P2 & Po2); auto. { intros b Hb; apply HQ; right; auto. }
    split; auto. split. { eapply progS_trans; eauto. }
    intros b [<-|Hb]; auto. eapply Hmono; eauto.
Qed.

(* closure of one alternative (suffix form, mirrors phase2_syms) *)
Fixpoint closed_from (F : sym -> list sym) (left : sym) (rest : list sym) : Prop :=
  match rest with
  | [] => In Eps (F left)
  | s :: rest' =>
      (forall a, In (Tm a) (F s) -> In (Tm a) (F left)) /\
      (In Eps (F s) -> closed_from F left rest')
  end.

Lemma closed_from_ext F F' left rest :
  (forall k, F k = F' k) -> closed_from F left rest -> closed_from F' left rest.
Proof.
  intros HE. induction rest as [|s rest IH]; cbn [closed_from].
  - rewrite <- HE. auto.
  - intros [A B]. split.
    + intros a. rewrite <- !HE. auto.
    + rewrite <- HE. auto.
Qed.

(* ================================================================================================ *)
(* 7. invariants of the loop, for a fixed well-formed grammar and a fixed reading P of             *)
(*    "terminal a may begin what X derives"                                                        *)
(* ================================================================================================ *)
Section Fix.
  Variable g : grammar.
  Hypothesis WF : wf_grammar g.
  Notation rs := (right_sides g).
  Notation U := (allsyms (right_sides g)).

  Variable P : sym -> N -> Prop.
  Hypothesis P_tm : forall a, P (Tm a) a.
  Hypothesis P_rule : forall left alts pre s post a,
      In (left, alts) rs -> In (pre ++ s :: post) alts ->
      (forall y, In y pre -> Derives g y []) -> P s a -> P left a.

  Lemma rs_get_In left alts : In (left, alts) rs -> rs_get g left = alts.
  Proof.
    intros H. unfold rs_get.
    rewrite (alookup_In_sorted _ _ _ (wf_sorted g WF) H). auto.
  Qed.

  Lemma rs_get_nth X k rhs :
    nth_error (rs_get g X) k = Some rhs -> In (X, rs_get g X) rs /\ In rhs (rs_get g X).
  Proof.
    unfold rs_get. destruct (alookup sym_ltb rs X) eqn:E.
    - intros H. apply alookup_In in E. split; auto. eapply nth_error_In; eauto.
    - destruct k; discriminate.
  Qed.

  Lemma derives_alt left alts alt w :
    In (left, alts) rs -> In alt alts -> DerivesL g alt w -> Derives g left w.
  Proof.
    intros H H0 H1. destruct (wf_keys_nt g WF _ _ H) as [n ->].
    apply In_nth_error in H0. destruct H0 as [k Hk].
    eapply D_nt; eauto. rewrite (rs_get_In _ _ H). eauto.
  Qed.

  Lemma derivesL_nil l : (forall y, In y l -> Derives g y []) -> DerivesL g l [].
  Proof.
    induction l as [|a l IH]; intros H.
    - constructor.
    - apply (DL_cons g a l [] []).
      + apply H; left; auto.
      + apply IH. intros y Hy. apply H; right; auto.
  Qed.

  Lemma left_not_tm left alts i : In (left, alts) rs -> left <> Tm i.
  Proof. intros H E. destruct (wf_keys_nt g WF _ _ H) as [n Hn]. congruence. Qed.

  Definition keyok (k : sym) : Prop := k = Eps \/ In k (map fst rs) \/ In k U.

  Definition just (k x : sym) : Prop :=
    (x = Eps /\ Derives g k []) \/ (exists a, x = Tm a /\ In (Tm a) U /\ P k a).

  Record INV (f : fsets) : Prop := mkINV {
    inv_sorted : StronglySorted slt (keys f);
    inv_sets : forall k, StronglySorted slt (fs_get f k);
    inv_mem : forall k x, In x (fs_get f k) -> x = Eps \/ exists a, x = Tm a /\ In (Tm a) U;
    inv_keys : forall k, In k (keys f) -> keyok k;
    inv_eps : forall k, In Eps (fs_get f k) -> Derives g k [];
    inv_tm : forall k a, In (Tm a) (fs_get f k) -> P k a;
    inv_J : forall i, In (Tm i) (keys f) -> In (Tm i) (fs_get f (Tm i))
  }.

  Lemma fs_get_init k : fs_get [(Eps, [])] k = [].
  Proof. unfold fs_get. cbn [alookup]. destruct (keqb sym_ltb k Eps); auto. Qed.

  Lemma INV_init : INV [(Eps, [])].
  Proof.
    constructor.
    - cbn. constructor; constructor.
    - intros k. rewrite fs_get_init. constructor.
    - intros k x. rewrite fs_get_init. intros [].
    - intros k. cbn. intros [<-|[]]. left; auto.
    - intros k. rewrite fs_get_init. intros [].
    - intros k a. rewrite fs_get_init. intros [].
    - intros i. cbn. intros [H|[]]. discriminate.
  Qed.

  Lemma INV_touch f s :
    INV f -> keyok s -> (forall i, s = Tm i -> In s (keys f)) -> INV (fs_touch f s).
  Proof.
    intros HI Hk HJ. constructor.
    - apply sorted_touch, HI.
    - intros k. rewrite fs_get_touch. apply HI.
    - intros k x. rewrite fs_get_touch. apply HI.
    - intros k Hin. apply keys_touch in Hin. destruct Hin as [->|Hin]; auto. apply HI; auto.
    - intros k. rewrite fs_get_touch. apply HI.
    - intros k a. rewrite fs_get_touch. apply HI.
    - intros i Hin. rewrite fs_get_touch. apply HI.
      apply keys_touch in Hin. destruct Hin as [E|Hin]; auto.
      rewrite E. apply (HJ i). auto.
  Qed.

  Lemma INV_add f k x :
    INV f -> keyok k -> just k x -> (forall i, k = Tm i -> x = Tm i \/ In k (keys f)) ->
    INV (fs_add f k x).
  Proof.
    intros HI Hk Hj HJ. constructor.
    - apply sorted_add, HI.
    - intros k'. destruct (sym_eq_dec k k') as [<-|Hne].
      + rewrite fs_get_add_same. apply sinsert_sorted, HI.
      + rewrite fs_get_add_other; auto. apply HI.
    - intros k' y. destruct (sym_eq_dec k k') as [<-|Hne].
      + rewrite fs_get_add_same, In_sinsert. intros [->|Hy].
        * destruct Hj as [[-> _]|(a & -> & Ha & _)]; eauto.
        * eapply inv_mem; eauto.
      + rewrite fs_get_add_other; auto. apply HI.
    - intros k' Hin. apply keys_add in Hin. destruct Hin as [->|Hin]; auto. apply HI; auto.
    - intros k'. destruct (sym_eq_dec k k') as [<-|Hne].
      + rewrite fs_get_add_same, In_sinsert. intros [E|Hy].
        * destruct Hj as [[_ Hd]|(a & -> & _)]; auto. discriminate.
        * apply HI; auto.
      + rewrite fs_get_add_other; auto. apply HI.
    - intros k' a. destruct (sym_eq_dec k k') as [<-|Hne].
      + rewrite fs_get_add_same, In_sinsert. intros [E|Hy].
        * destruct Hj as [[-> _]|(a' & -> & _ & Hp)]; [discriminate|].
          inversion E; subst; auto.
        * eapply inv_tm; eauto.
      + rewrite fs_get_add_other; auto. apply HI.
    - intros i Hin. destruct (sym_eq_dec k (Tm i)) as [E|Hne].
      + subst k. rewrite fs_get_add_same, In_sinsert.
        destruct (HJ i eq_refl) as [->|Hin']; auto.
        right. apply HI; auto.
      + rewrite fs_get_add_other; auto. apply HI.
        apply keys_add in Hin. destruct Hin as [E|Hin]; auto. congruence.
  Qed.

  Definition Bnd : nat := ((1 + length rs + length U) * (1 + length U))%nat.

  Lemma INV_M_bound f : INV f -> (M f <= Bnd)%nat.
  Proof.
    intros HI. unfold Bnd.
    assert (HB : (M f <= length f * (1 + length U))%nat).
    { apply M_bound. intros k v Hin.
      assert (Hv : fs_get f k = v).
      { unfold fs_get. rewrite (alookup_In_sorted _ _ _ (inv_sorted f HI) Hin). auto. }
      change (1 + length U)%nat with (length (Eps :: U)).
      apply NoDup_incl_length.
      - apply SS_NoDup. rewrite <- Hv. apply HI.
      - intros x Hx. rewrite <- Hv in Hx. destruct (inv_mem f HI _ _ Hx) as [->|(a & -> & Ha)].
        + left; auto.
        + right; auto. }
    assert (HL : (length f <= 1 + length rs + length U)%nat).
    { rewrite <- (map_length fst f).
      replace (1 + length rs + length U)%nat with (length (Eps :: map fst rs ++ U)).
      2:{ cbn [length]. rewrite app_length, map_length. lia. }
      apply NoDup_incl_length.
      - apply SS_NoDup, HI.
      - intros k Hk. destruct (inv_keys f HI _ Hk) as [->|[H|H]].
        + left; auto.
        + right. apply in_or_app; auto.
        + right. apply in_or_app; auto. }
    eapply Nat.le_trans; [exact HB|]. apply Nat.mul_le_mono_r. exact HL.
  Qed.

  (* ---------------------------------------------------------------------------------------------- *)
  (* phase 1                                                                                         *)
  (* ---------------------------------------------------------------------------------------------- *)
  Definition MX (m : N) : Prop := m = 0%N \/ In (Tm m) U.
  Definition I1 (st : fstate) : Prop := INV (fs_sets st) /\ MX (fs_max st).
  Definition PostS (st : fstate) (s : sym) : Prop :=
    forall i, s = Tm i -> In (Tm i) (fs_get (fs_sets st) (Tm i)) /\ (i <= fs_max st)%N.
  Definition K1 (st : fstate) : Prop :=
    forall i, In (Tm i) U -> In (Tm i) (fs_get (fs_sets st) (Tm i)) /\ (i <= fs_max st)%N.

  Lemma PostS_mono st st' s : progS st st' -> PostS st s -> PostS st' s.
  Proof.
    intros [(Hincl & _) Hmax] H i E. destruct (H i E) as [H1 H2]. split.
    - apply Hincl; auto.
    - lia.
  Qed.

  Lemma K1_mono st st' : progS st st' -> K1 st -> K1 st'.
  Proof.
    intros [(Hincl & _) Hmax] H i E. destruct (H i E) as [H1 H2]. split.
    - apply Hincl; auto.
    - lia.
  Qed.

  Lemma p1_step_spec st s :
    In s U -> I1 st -> I1 (p1_step st s) /\ progS st (p1_step st s) /\ PostS (p1_step st s) s.
  Proof.
    intros HU [HI HM]. destruct s as [|i|n]; cbn [p1_step].
    - split; [split; auto|]. split; [apply progS_refl|]. intros i E; discriminate.
    - destruct (fs_contains (fs_sets st) (Tm i)) eqn:E.
      + split; [|split].
        * split; cbn [fs_sets fs_max]; auto.
          destruct (N.max_spec i (fs_max st)) as [[_ ->]|[_ ->]]; auto. right; auto.
        * split; cbn [fs_sets fs_max fs_changed]; [apply prog_refl|]. apply N.le_max_r.
        * intros j Ej. inversion Ej; subst j. cbn [fs_sets fs_max]. split.
          -- apply HI. apply fs_contains_In; auto.
          -- apply N.le_max_l.
      + rewrite ainsert_single_is_add; auto. split; [|split].
        * split; cbn [fs_sets fs_max].
          -- apply INV_add; auto.
             ++ right; right; auto.
             ++ right. exists i. auto.
          -- destruct (N.max_spec i (fs_max st)) as [[_ ->]|[_ ->]]; auto. right; auto.
        * split; cbn [fs_sets fs_max fs_changed].
          -- apply prog_add_new. apply HI. rewrite fs_contains_false_get; auto.
          -- apply N.le_max_r.
        * intros j Ej. inversion Ej; subst j. cbn [fs_sets fs_max]. split.
          -- rewrite fs_get_add_same. apply In_sinsert; auto.
          -- apply N.le_max_l.
    - split; [|split].
      + split; cbn [fs_sets fs_max]; auto. apply INV_touch; auto.
        * right; right; auto.
        * intros i E; discriminate.
      + split; cbn [fs_sets fs_max fs_changed]; [|lia]. apply prog_touch, HI.
      + intros i E; discriminate.
  Qed.

  Lemma p1_init_spec left alts alt st :
    In (left, alts) rs -> In alt alts -> I1 st ->
    I1 (p1_init left st alt) /\ progS st (p1_init left st alt).
  Proof.
    intros Hr Ha [HI HM]. destruct alt as [|s alt]; cbn [p1_init].
    2:{ split; [split; auto|apply progS_refl]. }
    assert (Hk : keyok left). { right; left. apply (in_map fst) in Hr. exact Hr. }
    assert (Hj : just left Eps).
    { left. split; auto. eapply derives_alt; eauto. constructor. }
    destruct (fs_contains (fs_sets st) left) eqn:E; cbn [negb].
    - destruct (smem sym_ltb (fs_get (fs_sets st) left) Eps) eqn:E2; cbn [negb].
      + split; [split; auto|apply progS_refl].
      + split.
        * split; cbn [fs_sets fs_max]; auto. apply INV_add; auto.
          intros i Ei. right. apply fs_contains_In; auto.
        * split; cbn [fs_sets fs_max fs_changed]; [|lia].
          apply prog_add_new. apply HI. apply smem_false; auto.
    - rewrite ainsert_single_is_add; auto. split.
      + split; cbn [fs_sets fs_max]; auto. apply INV_add; auto.
        intros i Ei. exfalso. eapply left_not_tm; eauto.
      + split; cbn [fs_sets fs_max fs_changed]; [|lia].
        apply prog_add_new. apply HI. rewrite fs_contains_false_get; auto.
  Qed.

  Definition PostA (st : fstate) (alt : alternative) : Prop := forall s, In s alt -> PostS st s.
  Definition PostR (st : fstate) (rule : sym * list alternative) : Prop :=
    forall alt, In alt (snd rule) -> PostA st alt.

  Lemma phase1_alt_spec left alts alt st :
    In (left, alts) rs -> In alt alts -> I1 st ->
    I1 (phase1_alt left st alt) /\ progS st (phase1_alt left st alt) /\
    PostA (phase1_alt left st alt) alt.
  Proof.
    intros Hr Ha HI. rewrite phase1_alt_eq.
    destruct (p1_init_spec left alts alt st Hr Ha HI) as [HI0 HP0].
    destruct (fold_spec p1_step I1 (fun s => In s U) PostS PostS_mono p1_step_spec alt
                        (p1_init left st alt)) as (A & B & C); auto.
    { intros s Hs. apply In_allsyms. eauto 6. }
    split; auto. split; auto. eapply progS_trans; eauto.
  Qed.

  Lemma p1_rule_spec st rule :
    In rule rs -> I1 st -> I1 (p1_rule st rule) /\ progS st (p1_rule st rule) /\ PostR (p1_rule st rule) rule.
  Proof.
    intros Hr HI. destruct rule as [left alts]. unfold p1_rule, PostR. cbn [fst snd].
    apply (fold_spec (phase1_alt left) I1 (fun alt => In alt alts) PostA); auto.
    - intros s s' a Hp H x Hx. eapply PostS_mono; eauto.
    - intros s a Ha Hs. eapply phase1_alt_spec; eauto.
  Qed.

  Lemma p1_all_spec st :
    I1 st -> I1 (fold_left p1_rule rs st) /\ progS st (fold_left p1_rule rs st) /\
             K1 (fold_left p1_rule rs st).
  Proof.
    intros HI.
    destruct (fold_spec p1_rule I1 (fun r => In r rs) PostR) with (l := rs) (st := st)
      as (A & B & C); auto.
    - intros s s' a Hp H alt Halt x Hx. eapply PostS_mono; [exact Hp|]. apply (H alt Halt x Hx).
    - intros s a Ha Hs. apply p1_rule_spec; auto.
    - split; auto. split; auto.
      intros i Hi. apply In_allsyms in Hi. destruct Hi as (left & alts & alt & H1 & H2 & H3).
      apply (C (left, alts) H1 alt H2 (Tm i) H3 i eq_refl).
  Qed.

  (* ---------------------------------------------------------------------------------------------- *)
  (* phase 2                                                                                         *)
  (* ---------------------------------------------------------------------------------------------- *)
  Lemma add_terminals_spec left from :
    keyok left -> (forall i, left <> Tm i) ->
    forall f, INV f -> (forall a, In (Tm a) from -> In (Tm a) U /\ P left a) ->
      INV (add_terminals f left from) /\
      (forall k, incl (fs_get f k) (fs_get (add_terminals f left from) k)) /\
      (M (add_terminals f left from) + length (fs_get f left) =
       M f + length (fs_get (add_terminals f left from) left))%nat /\
      (length (fs_get f left) <= length (fs_get (add_terminals f left from) left))%nat /\
      (length (fs_get (add_terminals f left from) left) = length (fs_get f left) ->
       forall k, fs_get (add_terminals f left from) k = fs_get f k) /\
      (forall x, In x from -> is_tm x = true -> In x (fs_get (add_terminals f left from) left)).
  Proof.
    intros Hk Hnt. induction from as [|x from IH]; intros f HI Hfrom.
    - unfold add_terminals. cbn [fold_left].
      split; auto. split; [intros k y Hy; exact Hy|]. split; auto. split; auto. split; auto.
      intros x [].
    - rewrite add_terminals_cons. destruct (is_tm x) eqn:Ex.
      + apply is_tm_true in Ex. destruct Ex as [a ->].
        destruct (Hfrom a) as [HaU HaP]. { left; auto. }
        assert (HI1 : INV (fs_add f left (Tm a))).
        { apply INV_add; auto.
          - right. exists a. auto.
          - intros i Ei. exfalso. apply (Hnt i); auto. }
        destruct (prog_add_any f left (Tm a) (inv_sorted f HI)) as (A1 & A2 & A3 & A4).
        destruct (IH (fs_add f left (Tm a)) HI1) as (B0 & B1 & B2 & B3 & B4 & B5).
        { intros a' Ha'. apply Hfrom. right; auto. }
        split; auto. split; [|split; [|split; [|split]]].
        * intros k y Hy. apply B1, A1, Hy.
        * lia.
        * lia.
        * intros HL k. rewrite B4 by lia. apply A4. lia.
        * intros y [<-|Hy] Ey.
          -- apply B1. rewrite fs_get_add_same. apply In_sinsert; auto.
          -- apply B5; auto.
      + destruct (IH f HI) as (B0 & B1 & B2 & B3 & B4 & B5).
        { intros a' Ha'. apply Hfrom. right; auto. }
        split; auto. split; [|split; [|split; [|split]]]; auto.
        intros y [<-|Hy] Ey; [congruence|]. apply B5; auto.
  Qed.

  Definition Kf (f : fsets) : Prop := forall i, In (Tm i) U -> In (Tm i) (fs_get f (Tm i)).

  Lemma phase2_syms_spec left alts :
    In (left, alts) rs ->
    forall rest pre f ch f' ch' all,
      In (pre ++ rest) alts -> (forall y, In y pre -> Derives g y []) -> INV f -> Kf f ->
      phase2_syms left f ch rest = (f', ch', all) ->
      INV f' /\ prog f ch f' ch' /\
      (all = true -> forall y, In y rest -> Derives g y []) /\
      (ch' = false -> (all = true -> In Eps (fs_get f' left)) -> closed_from (fs_get f') left rest).
  Proof.
    intros Hr.
    assert (Hkl : keyok left). { right; left. apply (in_map fst) in Hr. exact Hr. }
    assert (Hnt : forall i, left <> Tm i). { intros i. eapply left_not_tm; eauto. }
    induction rest as [|s rest IH]; intros pre f ch f' ch' all Halt Hpre HI HK Heq.
    - cbn [phase2_syms] in Heq. inversion Heq; subst. split; auto. split; [apply prog_refl|].
      split.
      + intros _ y [].
      + intros _ H. cbn [closed_from]. auto.
    - cbn [phase2_syms] in Heq.
      assert (HsU : In s U). { apply In_allsyms. exists left, alts, (pre ++ s :: rest). repeat split; auto. apply in_or_app; right; left; auto. }
      set (f1 := fs_touch f s) in *.
      assert (HI1 : INV f1).
      { apply INV_touch; auto.
        - right; right; auto.
        - intros i Ei. subst s. eapply fs_get_In_key. apply HK; auto. }
      assert (Hp1 : prog f ch f1 ch) by (apply prog_touch, HI).
      assert (Hfrom : forall a, In (Tm a) (fs_get f1 s) -> In (Tm a) U /\ P left a).
      { intros a Ha. split.
        - destruct (inv_mem f1 HI1 _ _ Ha) as [E|(a' & E & Ha')]; [discriminate|].
          rewrite E. auto.
        - eapply P_rule; eauto. eapply inv_tm; eauto. }
      destruct (add_terminals_spec left (fs_get f1 s) Hkl Hnt f1 HI1 Hfrom)
        as (HI2 & A1 & A2 & A3 & A4 & A5).
      set (f2 := add_terminals f1 left (fs_get f1 s)) in *.
      assert (Hbefore : fs_get f left = fs_get f1 left) by (unfold f1; rewrite fs_get_touch; auto).
      rewrite Hbefore in Heq.
      set (ch1 := if Nat.ltb (length (fs_get f1 left)) (length (fs_get f2 left)) then true else ch) in *.
      assert (Hp2 : prog f1 ch f2 ch1).
      { unfold ch1. repeat split; auto.
        - lia.
        - intros ->. destruct (Nat.ltb _ _); auto.
        - destruct (Nat.ltb_spec (length (fs_get f1 left)) (length (fs_get f2 left))) as [HL|HL];
            [discriminate|]. intros _. apply A4. lia.
        - intros ->. destruct (Nat.ltb_spec (length (fs_get f1 left)) (length (fs_get f2 left))) as [HL|HL];
            [|discriminate]. intros _. lia. }
      assert (Hp02 : prog f ch f2 ch1) by (eapply prog_trans; eauto).
      (* the closure fact for the head symbol, valid whenever nothing changed afterwards *)
      assert (Hhead : forall F, (forall k, F k = fs_get f2 k) -> ch1 = false ->
                                forall a, In (Tm a) (F s) -> In (Tm a) (F left)).
      { intros F HF Hc a Ha. rewrite HF in *. 
        destruct Hp2 as (_ & _ & _ & Heq2 & _). rewrite (Heq2 Hc) in Ha.
        apply A5; auto. }
      destruct (smem sym_ltb (fs_get f2 s) Eps) eqn:Es.
      + apply smem_In in Es.
        assert (Hds : Derives g s []) by (eapply inv_eps; eauto).
        destruct (IH (pre ++ [s]) f2 ch1 f' ch' all) as (B0 & B1 & B2 & B3); auto.
        { rewrite <- app_assoc. cbn [app]. exact Halt. }
        { intros y Hy. apply in_app_or in Hy. destruct Hy as [Hy|[<-|[]]]; auto. }
        { intros i Hi. destruct Hp02 as (Hincl & _). apply Hincl. apply HK; auto. }
        split; auto. split; [eapply prog_trans; eauto|]. split.
        * intros Hall y [<-|Hy]; auto.
        * intros Hc Hall. cbn [closed_from].
          destruct B1 as (_ & _ & Bm & Beq & _).
          assert (Hc1 : ch1 = false). { destruct ch1; auto. specialize (Bm eq_refl). congruence. }
          split.
          -- apply Hhead; auto.
          -- intros _. apply B3; auto.
      + inversion Heq; subst f' ch' all. split; auto. split; auto. split; [discriminate|].
        intros Hc _. cbn [closed_from]. split.
        * apply Hhead; auto.
        * intros He. apply smem_false in Es. contradiction.
  Qed.

  Definition I2 (st : fstate) : Prop := INV (fs_sets st) /\ MX (fs_max st) /\ K1 st.

  Definition Post2A (left : sym) (st : fstate) (alt : alternative) : Prop :=
    fs_changed st = false -> closed_from (fs_get (fs_sets st)) left alt.

  Lemma Post2A_mono left st st' alt : progS st st' -> Post2A left st alt -> Post2A left st' alt.
  Proof.
    intros [(_ & _ & Hm & Heq & _) _] H Hc.
    assert (Hc0 : fs_changed st = false).
    { destruct (fs_changed st); auto. specialize (Hm eq_refl). congruence. }
    eapply closed_from_ext; [|apply H; auto].
    intros k. symmetry. apply Heq; auto.
  Qed.

  Lemma phase2_alt_spec left alts alt st :
    In (left, alts) rs -> In alt alts -> I2 st ->
    I2 (phase2_alt left st alt) /\ progS st (phase2_alt left st alt) /\
    Post2A left (phase2_alt left st alt) alt.
  Proof.
    intros Hr Ha (HI & HM & HK). unfold phase2_alt.
    destruct (phase2_syms left (fs_sets st) (fs_changed st) alt) as [[f ch] all] eqn:Heq.
    destruct (phase2_syms_spec left alts Hr alt [] (fs_sets st) (fs_changed st) f ch all)
      as (B0 & B1 & B2 & B3); auto.
    { intros y []. }
    { intros i Hi. apply HK; auto. }
    assert (Hkl : keyok left). { right; left. apply (in_map fst) in Hr. exact Hr. }
    destruct (all && negb (smem sym_ltb (fs_get f left) Eps)) eqn:Eb.
    - apply andb_true_iff in Eb. destruct Eb as [-> Eb]. apply negb_true_iff, smem_false in Eb.
      assert (Hps : progS st (mkFS (fs_add f left Eps) (fs_max st) true)).
      { split; cbn [fs_sets fs_max fs_changed]; [|lia].
        eapply prog_trans; [exact B1|]. apply prog_add_new; auto. apply B0. }
      split; [|split; auto].
      + split; [|split]; cbn [fs_sets fs_max]; auto.
        * apply INV_add; auto.
          -- left. split; auto. eapply derives_alt; eauto. apply derivesL_nil. auto.
          -- intros i Ei. exfalso. eapply left_not_tm; eauto.
        * eapply K1_mono; eauto.
      + intros Hc. cbn [fs_changed] in Hc. discriminate.
    - assert (Hps : progS st (mkFS f (fs_max st) ch)).
      { split; cbn [fs_sets fs_max fs_changed]; auto. lia. }
      split; [|split; auto].
      + split; [|split]; cbn [fs_sets fs_max]; auto. eapply K1_mono; eauto.
      + intros Hc. cbn [fs_changed fs_sets] in *. apply B3; auto.
        intros ->. cbn [andb] in Eb. apply negb_false_iff in Eb. apply smem_In; auto.
  Qed.

  Definition Post2R (st : fstate) (rule : sym * list alternative) : Prop :=
    forall alt, In alt (snd rule) -> Post2A (fst rule) st alt.

  Lemma p2_rule_spec st rule :
    In rule rs -> I2 st -> I2 (p2_rule st rule) /\ progS st (p2_rule st rule) /\ Post2R (p2_rule st rule) rule.
  Proof.
    intros Hr (HI & HM & HK). destruct rule as [left alts]. unfold p2_rule, Post2R. cbn [fst snd].
    set (st0 := mkFS (fs_touch (fs_sets st) left) (fs_max st) (fs_changed st)).
    assert (Hp0 : progS st st0).
    { split; cbn [st0 fs_sets fs_max fs_changed]; [|lia]. apply prog_touch, HI. }
    assert (HI0 : I2 st0).
    { split; [|split]; cbn [st0 fs_sets fs_max]; auto.
      - apply INV_touch; auto.
        + right; left. apply (in_map fst) in Hr. exact Hr.
        + intros i Ei. exfalso. eapply left_not_tm; eauto.
      - eapply K1_mono; eauto. }
    destruct (fold_spec (phase2_alt left) I2 (fun alt => In alt alts) (Post2A left)) with (l := alts) (st := st0)
      as (A & B & C); auto.
    - intros s s' a Hp H. eapply Post2A_mono; eauto.
    - intros s a Ha Hs. eapply phase2_alt_spec; eauto.
    - split; auto. split; auto. eapply progS_trans; eauto.
  Qed.

  Definition closed (F : sym -> list sym) : Prop :=
    forall left alts alt, In (left, alts) rs -> In alt alts -> closed_from F left alt.

  Lemma first_round_spec st :
    I1 st ->
    I2 (first_round rs st) /\ progS st (first_round rs st) /\
    (fs_changed (first_round rs st) = false -> closed (fs_get (fs_sets (first_round rs st)))).
  Proof.
    intros HI. rewrite first_round_eq.
    destruct (p1_all_spec st HI) as ([A1 A1'] & A2 & A3).
    set (st1 := fold_left p1_rule rs st) in *.
    destruct (fold_spec p2_rule I2 (fun r => In r rs) Post2R) with (l := rs) (st := st1)
      as (B1 & B2 & B3); auto.
    - intros s s' a Hp H alt Halt. eapply Post2A_mono; [exact Hp|]. apply H; auto.
    - intros s a Ha Hs. apply p2_rule_spec; auto.
    - split; [|split]; auto.
    - split; auto. split; [eapply progS_trans; eauto|].
      intros Hc left alts alt H1 H2. apply (B3 (left, alts) H1 alt H2 Hc).
  Qed.

  (* ---------------------------------------------------------------------------------------------- *)
  (* the loop                                                                                        *)
  (* ---------------------------------------------------------------------------------------------- *)
  Lemma first_loop_spec fuel :
    forall st st', I1 st -> first_loop fuel rs st = Ok st' ->
                   I2 st' /\ closed (fs_get (fs_sets st')).
  Proof.
    induction fuel as [|fuel IH]; intros st st' HI; cbn [first_loop]; [discriminate|].
    destruct (first_round_spec (mkFS (fs_sets st) (fs_max st) false)) as (A & B & C).
    { destruct HI; split; auto. }
    destruct (fs_changed (first_round rs (mkFS (fs_sets st) (fs_max st) false))) eqn:E.
    - intros H. apply IH in H; auto. destruct A as (A1 & A2 & _). split; auto.
    - intros H. inversion H; subst st'. auto.
  Qed.

  Lemma first_loop_term fuel :
    forall st, I1 st -> (Bnd < M (fs_sets st) + fuel)%nat -> exists st', first_loop fuel rs st = Ok st'.
  Proof.
    induction fuel as [|fuel IH]; intros st HI HB.
    - destruct HI as [HI _]. apply INV_M_bound in HI. lia.
    - cbn [first_loop].
      destruct (first_round_spec (mkFS (fs_sets st) (fs_max st) false)) as (A & B & C).
      { destruct HI; split; auto. }
      destruct (fs_changed (first_round rs (mkFS (fs_sets st) (fs_max st) false))) eqn:E.
      + apply IH.
        * destruct A as (A1 & A2 & _). split; auto.
        * destruct B as [(_ & _ & _ & _ & Hlt) _]. cbn [fs_sets fs_changed] in Hlt.
          specialize (Hlt eq_refl E). lia.
      + eexists; eauto.
  Qed.

  Lemma fuel_enough : (Bnd < count_syms rs * count_syms rs + 2)%nat.
  Proof.
    pose proof (count_syms_ge rs) as H. unfold Bnd.
    assert ((1 + length rs + length U) * (1 + length U) <= count_syms rs * count_syms rs)%nat.
    { apply Nat.mul_le_mono; lia. }
    lia.
  Qed.

  (* ---------------------------------------------------------------------------------------------- *)
  (* completeness from closedness                                                                    *)
  (* ---------------------------------------------------------------------------------------------- *)
  Lemma closed_complete F :
    closed F -> (forall i, In (Tm i) U -> In (Tm i) (F (Tm i))) ->
    (forall X w, Derives g X w -> (forall i, X = Tm i -> In X U) ->
                 (w = [] -> In Eps (F X)) /\ (forall a w', w = a :: w' -> In (Tm a) (F X))) /\
    (forall rhs w, DerivesL g rhs w -> forall left, (forall y, In y rhs -> In y U) ->
                 closed_from F left rhs ->
                 (w = [] -> In Eps (F left)) /\ (forall a w', w = a :: w' -> In (Tm a) (F left))).
  Proof.
    intros HC HK.
    apply (Derives_DerivesL_mut g
      (fun X w => (forall i, X = Tm i -> In X U) ->
                 (w = [] -> In Eps (F X)) /\ (forall a w', w = a :: w' -> In (Tm a) (F X)))
      (fun rhs w => forall left, (forall y, In y rhs -> In y U) ->
                 closed_from F left rhs ->
                 (w = [] -> In Eps (F left)) /\ (forall a w', w = a :: w' -> In (Tm a) (F left)))).
    - intros i HU. split; [discriminate|]. intros a w' E. inversion E; subst. apply HK. apply (HU a); auto.
    - intros n k rhs w Hnth HD IH _.
      apply rs_get_nth in Hnth. destruct Hnth as [H1 H2].
      apply IH.
      + intros y Hy. apply In_allsyms. eauto 6.
      + eapply HC; eauto.
    - intros left _ Hcl. cbn [closed_from] in Hcl. split; auto. discriminate.
    - intros X rest w1 w2 HX IHX Hrest IHrest left HU Hcl.
      cbn [closed_from] in Hcl. destruct Hcl as [CA CB].
      destruct IHX as [IX1 IX2]. { intros i _. apply HU; left; auto. }
      destruct w1 as [|a w1].
      + cbn [app]. apply IHrest.
        * intros y Hy. apply HU; right; auto.
        * apply CB. apply IX1; auto.
      + split; [discriminate|]. intros a' w' E. cbn [app] in E. inversion E; subst.
        apply CA. eapply IX2; eauto.
  Qed.
End Fix.

(* ================================================================================================ *)
(* 8. derivations: productive grammars, sentential forms                                             *)
(* ================================================================================================ *)
Definition productive (g : grammar) : Prop :=
  forall X, mentioned g X -> X <> Eps -> exists w, Derives g X w.

(* X derives the sentential form beta: reflexive-transitive closure of replacing one occurrence of a
   non-terminal by one of its alternatives *)
Inductive DerivesS (g : grammar) (X : sym) : list sym -> Prop :=
| DS_refl : DerivesS g X [X]
| DS_step : forall pre n k rhs post,
    DerivesS g X (pre ++ Nt n :: post) -> nth_error (rs_get g (Nt n)) k = Some rhs ->
    DerivesS g X (pre ++ rhs ++ post).

Lemma DerivesS_ctx g X pre Y post gamma :
  DerivesS g X (pre ++ Y :: post) -> DerivesS g Y gamma -> DerivesS g X (pre ++ gamma ++ post).
Proof.
  intros H HY. induction HY as [|p n k rhs q HY IH Hn].
  - exact H.
  - replace (pre ++ (p ++ rhs ++ q) ++ post) with ((pre ++ p) ++ rhs ++ (q ++ post))
      by (repeat rewrite <- app_assoc; reflexivity).
    eapply DS_step; eauto.
    replace ((pre ++ p) ++ Nt n :: q ++ post) with (pre ++ (p ++ Nt n :: q) ++ post)
      by (repeat rewrite <- app_assoc; reflexivity).
    exact IH.
Qed.

Lemma Derives_S g :
  (forall X w, Derives g X w -> DerivesS g X (map Tm w)) /\
  (forall rhs w, DerivesL g rhs w -> forall Z pre post,
        DerivesS g Z (pre ++ rhs ++ post) -> DerivesS g Z (pre ++ map Tm w ++ post)).
Proof.
  apply (Derives_DerivesL_mut g
    (fun X w => DerivesS g X (map Tm w))
    (fun rhs w => forall Z pre post,
        DerivesS g Z (pre ++ rhs ++ post) -> DerivesS g Z (pre ++ map Tm w ++ post))).
  - intros i. cbn [map]. constructor.
  - intros n k rhs w Hn HD IH.
    specialize (IH (Nt n) [] []). cbn [app] in IH. rewrite !app_nil_r in IH. apply IH.
    pose proof (DS_step g (Nt n) [] n k rhs [] (DS_refl g (Nt n)) Hn) as H.
    cbn [app] in H. rewrite app_nil_r in H. exact H.
  - intros Z pre post H. exact H.
  - intros X rest w1 w2 HX IHX Hr IHr Z pre post H.
    rewrite map_app.
    replace (pre ++ (map Tm w1 ++ map Tm w2) ++ post) with ((pre ++ map Tm w1) ++ map Tm w2 ++ post)
      by (repeat rewrite <- app_assoc; reflexivity).
    apply IHr.
    replace ((pre ++ map Tm w1) ++ rest ++ post) with (pre ++ map Tm w1 ++ (rest ++ post))
      by (repeat rewrite <- app_assoc; reflexivity).
    apply DerivesS_ctx with (Y := X); auto.
Qed.

Lemma DerivesL_app g l1 w1 l2 w2 :
  DerivesL g l1 w1 -> DerivesL g l2 w2 -> DerivesL g (l1 ++ l2) (w1 ++ w2).
Proof.
  intros H1 H2. induction H1 as [|X rest v1 v2 HX Hrest IH].
  - exact H2.
  - rewrite <- app_assoc. cbn [app]. constructor; auto.
Qed.

Lemma productive_list g l :
  productive g -> (forall y, In y l -> mentioned g y /\ y <> Eps) -> exists w, DerivesL g l w.
Proof.
  intros Hp. induction l as [|a l IH]; intros H.
  - exists []. constructor.
  - destruct (H a) as [Hm Hne]. { left; auto. }
    destruct (Hp a Hm Hne) as [w1 H1].
    destruct IH as [w2 H2]. { intros y Hy. apply H; right; auto. }
    exists (w1 ++ w2). constructor; auto.
Qed.

(* the two readings of "a may begin what X derives" *)
Definition PT (g : grammar) (X : sym) (a : N) : Prop := exists w, Derives g X (a :: w).
Definition PS (g : grammar) (X : sym) (a : N) : Prop := exists beta, DerivesS g X (Tm a :: beta).

Lemma PT_tm g a : PT g (Tm a) a.
Proof. exists []. constructor. Qed.

Lemma PS_tm g a : PS g (Tm a) a.
Proof. exists []. constructor. Qed.

Lemma PT_rule g : wf_grammar g -> productive g ->
  forall left alts pre s post a,
    In (left, alts) (right_sides g) -> In (pre ++ s :: post) alts ->
    (forall y, In y pre -> Derives g y []) -> PT g s a -> PT g left a.
Proof.
  intros WF Hp left alts pre s post a Hr Ha Hpre [w Hw].
  destruct (productive_list g post Hp) as [w' Hw'].
  { intros y Hy. split.
    - right. exists left, alts, (pre ++ s :: post). repeat split; auto.
      apply in_or_app; right; right; auto.
    - intros ->. eapply (wf_no_eps g WF); eauto. apply in_or_app; right; right; auto. }
  exists (w ++ w').
  eapply derives_alt; eauto.
  change (a :: w ++ w') with ([] ++ ((a :: w) ++ w')).
  apply DerivesL_app.
  - apply derivesL_nil; auto.
  - constructor; auto.
Qed.

Lemma PS_rule g : wf_grammar g ->
  forall left alts pre s post a,
    In (left, alts) (right_sides g) -> In (pre ++ s :: post) alts ->
    (forall y, In y pre -> Derives g y []) -> PS g s a -> PS g left a.
Proof.
  intros WF left alts pre s post a Hr Ha Hpre [beta Hb].
  destruct (wf_keys_nt g WF _ _ Hr) as [n ->].
  pose proof (rs_get_In g WF _ _ Hr) as Hget.
  apply In_nth_error in Ha. destruct Ha as [k Hk]. rewrite <- Hget in Hk.
  pose proof (DS_step g (Nt n) [] n k _ [] (DS_refl g (Nt n)) Hk) as H0.
  cbn [app] in H0. rewrite app_nil_r in H0.
  assert (H1 : DerivesS g (Nt n) (s :: post)).
  { destruct (Derives_S g) as [_ HL].
    apply (HL pre [] (derivesL_nil g pre Hpre) (Nt n) [] (s :: post)). exact H0. }
  exists (beta ++ post).
  apply (DerivesS_ctx g (Nt n) [] s post (Tm a :: beta)); auto.
Qed.

(* ================================================================================================ *)
(* 9. first(string)                                                                                   *)
(* ================================================================================================ *)
Lemma addT_In l : forall acc y,
  In y (fold_left (fun a x => if is_tm x then sinsert sym_ltb a x else a) l acc) <->
  In y acc \/ (is_tm y = true /\ In y l).
Proof.
  induction l as [|x l IH]; intros acc y; cbn [fold_left In].
  - tauto.
  - rewrite IH. destruct (is_tm x) eqn:E.
    + rewrite In_sinsert. split.
      * intros [[->|H]|[H1 H2]]; auto.
      * intros [H|[H1 [->|H2]]]; auto.
    + split.
      * intros [H|[H1 H2]]; auto.
      * intros [H|[H1 [->|H2]]]; auto. congruence.
Qed.

Fixpoint fo_spec (F : sym -> list sym) (str : list sym) (y : sym) : Prop :=
  match str with
  | [] => y = Eps
  | s :: rest => (is_tm y = true /\ In y (F s)) \/ (In Eps (F s) /\ fo_spec F rest y)
  end.

Lemma first_of_In f str : forall acc y,
  In y (first_of f str acc) <-> In y acc \/ fo_spec (fs_get f) str y.
Proof.
  induction str as [|s rest IH]; intros acc y; cbn [first_of fo_spec].
  - rewrite In_sinsert. tauto.
  - destruct (smem sym_ltb (fs_get f s) Eps) eqn:E.
    + rewrite IH, addT_In. apply smem_In in E. tauto.
    + rewrite addT_In. apply smem_false in E. tauto.
Qed.

Lemma first_In g str y : In y (first g str) <-> fo_spec (fs_get (first_sets g)) str y.
Proof. unfold first. rewrite first_of_In. cbn [In]. tauto. Qed.

(* ================================================================================================ *)
(* 10. what calculate_first_sets returns                                                              *)
(* ================================================================================================ *)
Lemma mentioned_tm_U g i : wf_grammar g -> mentioned g (Tm i) -> In (Tm i) (allsyms (right_sides g)).
Proof.
  intros WF [[alts H]|(Y & alts & alt & H1 & H2 & H3)].
  - destruct (wf_keys_nt g WF _ _ H) as [n Hn]. discriminate.
  - apply In_allsyms. eauto 6.
Qed.

Lemma calc_unfold g :
  calculate_first_sets g =
  (do st <- first_loop (count_syms (right_sides g) * count_syms (right_sides g) + 2) (right_sides g)
              (mkFS (if fs_contains (first_sets g) Eps then first_sets g
                     else ainsert sym_ltb (first_sets g) Eps []) 0 true);
   Ok (mkG (total_nt g) (right_sides g) (fs_sets st) (fs_max st))).
Proof. reflexivity. Qed.

Lemma calc_loop g g' :
  wf_grammar g -> calculate_first_sets g = Ok g' ->
  exists st,
    first_loop (count_syms (right_sides g) * count_syms (right_sides g) + 2) (right_sides g)
               (mkFS [(Eps, [])] 0 true) = Ok st /\
    g' = mkG (total_nt g) (right_sides g) (fs_sets st) (fs_max st).
Proof.
  intros WF. rewrite calc_unfold. rewrite (wf_fresh g WF).
  cbn [fs_contains alookup ainsert].
  destruct (first_loop _ _ _) as [st| |] eqn:E; cbn [bind]; intros H; inversion H.
  exists st. auto.
Qed.

Lemma I1_init g P : I1 g P (mkFS [(Eps, [])] 0 true).
Proof. split; cbn [fs_sets fs_max]. apply INV_init. left; auto. Qed.

Lemma calc_main g g' (P : sym -> N -> Prop) :
  wf_grammar g ->
  (forall a, P (Tm a) a) ->
  (forall left alts pre s post a,
      In (left, alts) (right_sides g) -> In (pre ++ s :: post) alts ->
      (forall y, In y pre -> Derives g y []) -> P s a -> P left a) ->
  calculate_first_sets g = Ok g' ->
  INV g P (first_sets g') /\
  closed g (fs_get (first_sets g')) /\
  (forall i, In (Tm i) (allsyms (right_sides g)) ->
             In (Tm i) (fs_get (first_sets g') (Tm i)) /\ (i <= max_term g')%N) /\
  (max_term g' = 0%N \/ In (Tm (max_term g')) (allsyms (right_sides g))).
Proof.
  intros WF P1 P2 HC. destruct (calc_loop g g' WF HC) as (st & Hl & ->).
  cbn [first_sets max_term].
  destruct (first_loop_spec g WF P P1 P2 _ _ _ (I1_init g P) Hl) as ((A & B & C) & D).
  auto.
Qed.

Lemma sym_complete g F :
  wf_grammar g -> closed g F ->
  (forall i, In (Tm i) (allsyms (right_sides g)) -> In (Tm i) (F (Tm i))) ->
  forall X w, mentioned g X -> Derives g X w ->
    (w = [] -> In Eps (F X)) /\ (forall a w', w = a :: w' -> In (Tm a) (F X)).
Proof.
  intros WF HC HK X w Hm HD.
  destruct (closed_complete g F HC HK) as [H _].
  apply H; auto. intros i ->. apply mentioned_tm_U; auto.
Qed.

(* ================================================================================================ *)
(* 11. the theorems                                                                                   *)
(* ================================================================================================ *)

(* ---- soundness ---------------------------------------------------------------------------------- *)
Definition g_cex : grammar := mkG 2 [(Nt 0, [[Tm 1; Nt 1]])] [] 0.

Lemma g_cex_wf : wf_grammar g_cex.
Proof.
  constructor; cbn [g_cex right_sides first_sets map fst].
  - constructor; constructor.
  - intros X alts [H|[]]. inversion H; eauto.
  - intros X alts alt [H|[]]. inversion H; subst. intros [<-|[]].
    intros [H1|[H1|[]]]; discriminate.
  - reflexivity.
Qed.

Lemma g_cex_first :
  calculate_first_sets g_cex =
  Ok (mkG 2 [(Nt 0, [[Tm 1; Nt 1]])] [(Eps, []); (Tm 1, [Tm 1]); (Nt 0, [Tm 1]); (Nt 1, [])] 1).
Proof. vm_compute. reflexivity. Qed.

Lemma g_cex_Nt1 w : ~ Derives g_cex (Nt 1) w.
Proof.
  intros H. inversion H as [|n alt rhs w' Hn HL]; subst.
  assert (E : rs_get g_cex (Nt 1) = []) by reflexivity.
  rewrite E in Hn. destruct alt; discriminate.
Qed.

Lemma g_cex_Nt0 w : ~ Derives g_cex (Nt 0) w.
Proof.
  intros H. inversion H as [|n alt rhs w' Hn HL]; subst.
  assert (E : rs_get g_cex (Nt 0) = [[Tm 1; Nt 1]]) by reflexivity.
  rewrite E in Hn. destruct alt as [|[|alt]]; cbn [nth_error] in Hn; try discriminate.
  inversion Hn; subst rhs.
  inversion HL as [|X rest w1 w2 H1 H2]; subst.
  inversion H2 as [|X' rest' w3 w4 H3 H4]; subst.
  eapply g_cex_Nt1; eauto.
Qed.

(* the statements as written are false: Nt 0 -> Tm 1 Nt 1 with Nt 1 without rules gives
   FIRST(Nt 0) = {Tm 1} although Nt 0 derives no terminal string *)
Lemma C13_first_sound_stmt_false : ~ C13_first_sound_stmt.
Proof.
  intros H.
  destruct (H g_cex _ g_cex_wf g_cex_first (Nt 0)) as (H1 & _); [discriminate|].
  destruct (H1 1%N) as [w Hw].
  - vm_compute. left; auto.
  - eapply g_cex_Nt0; eauto.
Qed.

Lemma C13_first_string_stmt_false : ~ C13_first_string_stmt.
Proof.
  intros H.
  destruct (H g_cex _ [Nt 0] g_cex_wf g_cex_first) as (H1 & _).
  - constructor; [|constructor]. split; [|discriminate].
    left. exists [[Tm 1; Nt 1]]. left; auto.
  - destruct (proj1 (H1 1%N)) as [w Hw].
    + vm_compute. left; auto.
    + inversion Hw as [|X rest w1 w2 HX Hrest]; subst. eapply g_cex_Nt0; eauto.
Qed.

Definition C13_first_sound_partial_stmt : Prop :=
  forall g g', wf_grammar g -> productive g -> calculate_first_sets g = Ok g' ->
    forall X, X <> Eps ->
      (forall a, In (Tm a) (fs_get (first_sets g') X) -> exists w, Derives g X (a :: w)) /\
      (In Eps (fs_get (first_sets g') X) -> Derives g X []) /\
      (forall Y, In Y (fs_get (first_sets g') X) -> Y = Eps \/ exists a, Y = Tm a).

Lemma C13_first_sound_partial : C13_first_sound_partial_stmt.
Proof.
  intros g g' WF Hp HC X _.
  destruct (calc_main g g' (PT g) WF (PT_tm g) (PT_rule g WF Hp) HC) as (HI & _).
  split; [|split].
  - intros a Ha. apply (inv_tm g (PT g) _ HI X a Ha).
  - apply (inv_eps g (PT g) _ HI X).
  - intros Y HY. destruct (inv_mem g (PT g) _ HI X Y HY) as [->|(a & -> & _)]; eauto.
Qed.

Definition C13_first_sound_sentential_stmt : Prop :=
  forall g g', wf_grammar g -> calculate_first_sets g = Ok g' ->
    forall X,
      (forall a, In (Tm a) (fs_get (first_sets g') X) -> exists beta, DerivesS g X (Tm a :: beta)) /\
      (In Eps (fs_get (first_sets g') X) -> DerivesS g X [] /\ Derives g X []) /\
      (forall Y, In Y (fs_get (first_sets g') X) -> Y = Eps \/ exists a, Y = Tm a).

Lemma C13_first_sound_sentential : C13_first_sound_sentential_stmt.
Proof.
  intros g g' WF HC X.
  destruct (calc_main g g' (PS g) WF (PS_tm g) (PS_rule g WF) HC) as (HI & _).
  split; [|split].
  - intros a Ha. apply (inv_tm g (PS g) _ HI X a Ha).
  - intros He. pose proof (inv_eps g (PS g) _ HI X He) as Hd. split; auto.
    destruct (Derives_S g) as [HS _]. apply (HS X [] Hd).
  - intros Y HY. destruct (inv_mem g (PS g) _ HI X Y HY) as [->|(a & -> & _)]; eauto.
Qed.

(* ---- completeness ------------------------------------------------------------------------------- *)
Lemma C13_first_complete_proof : C13_first_complete_stmt.
Proof.
  intros g g' WF HC X Hm _.
  destruct (calc_main g g' (PS g) WF (PS_tm g) (PS_rule g WF) HC) as (_ & Hcl & HK & _).
  assert (HK' : forall i, In (Tm i) (allsyms (right_sides g)) ->
                          In (Tm i) (fs_get (first_sets g') (Tm i))).
  { intros i Hi. apply HK; auto. }
  split.
  - intros a w HD.
    destruct (sym_complete g _ WF Hcl HK' X (a :: w) Hm HD) as [_ H]. eapply H; eauto.
  - intros HD.
    destruct (sym_complete g _ WF Hcl HK' X [] Hm HD) as [H _]. auto.
Qed.

(* ---- termination -------------------------------------------------------------------------------- *)
Lemma C13_first_terminates_proof : C13_first_terminates_stmt.
Proof.
  intros g WF.
  destruct (first_loop_term g WF (PS g) (PS_tm g) (PS_rule g WF)
              (count_syms (right_sides g) * count_syms (right_sides g) + 2)
              (mkFS [(Eps, [])] 0 true) (I1_init g (PS g))) as [st Hst].
  { cbn [fs_sets M length]. pose proof (fuel_enough g). lia. }
  exists (mkG (total_nt g) (right_sides g) (fs_sets st) (fs_max st)).
  split; [|split; reflexivity].
  rewrite calc_unfold. rewrite (wf_fresh g WF).
  cbn [fs_contains alookup ainsert].
  rewrite Hst. reflexivity.
Qed.

(* ---- max_used_terminal -------------------------------------------------------------------------- *)
Lemma C13_maxterm_proof : C13_maxterm_stmt.
Proof.
  intros g g' WF HC.
  destruct (calc_main g g' (PS g) WF (PS_tm g) (PS_rule g WF) HC) as (_ & _ & HK & HM).
  split.
  - intros i Hi. apply HK. apply mentioned_tm_U; auto.
  - destruct HM as [HM|HM]; auto. right.
    apply In_allsyms in HM. destruct HM as (left & alts & alt & H1 & H2 & H3).
    right. eauto 6.
Qed.

(* ---- first(string) ------------------------------------------------------------------------------ *)
Lemma fo_complete g F :
  wf_grammar g -> closed g F ->
  (forall i, In (Tm i) (allsyms (right_sides g)) -> In (Tm i) (F (Tm i))) ->
  forall str, Forall (fun X => mentioned g X /\ X <> Eps) str ->
  forall w, DerivesL g str w ->
    (w = [] -> fo_spec F str Eps) /\ (forall a w', w = a :: w' -> fo_spec F str (Tm a)).
Proof.
  intros WF Hcl HK. induction str as [|X rest IH]; intros HF w HD.
  - inversion HD; subst. cbn [fo_spec]. split; auto. discriminate.
  - inversion HF as [|X' rest' [Hm Hne] HF']; subst.
    inversion HD as [|X' rest' w1 w2 HX Hrest]; subst.
    destruct (sym_complete g F WF Hcl HK X w1 Hm HX) as [S1 S2].
    destruct (IH HF' w2 Hrest) as [I1' I2'].
    cbn [fo_spec]. destruct w1 as [|a1 w1]; cbn [app].
    + split.
      * intros ->. right. split; auto.
      * intros a w' ->. right. split; auto. eapply I2'; eauto.
    + split; [discriminate|]. intros a w' E. inversion E; subst. left. split; auto.
      eapply S2; eauto.
Qed.

Lemma fo_sound_eps g P f :
  INV g P f -> forall str, fo_spec (fs_get f) str Eps -> DerivesL g str [].
Proof.
  intros HI. induction str as [|s rest IH]; cbn [fo_spec].
  - intros _. constructor.
  - intros [[H _]|[H1 H2]]; [discriminate|].
    apply (DL_cons g s rest [] []); auto. eapply inv_eps; eauto.
Qed.

Lemma fo_sound_tm g f :
  productive g -> INV g (PT g) f ->
  forall str, Forall (fun X => mentioned g X /\ X <> Eps) str ->
  forall a, fo_spec (fs_get f) str (Tm a) -> exists w, DerivesL g str (a :: w).
Proof.
  intros Hp HI. induction str as [|s rest IH]; intros HF a; cbn [fo_spec].
  - discriminate.
  - inversion HF as [|X' rest' [Hm Hne] HF']; subst.
    intros [[_ H]|[H1 H2]].
    + destruct (inv_tm g (PT g) f HI s a H) as [w Hw].
      destruct (productive_list g rest Hp) as [w' Hw'].
      { intros y Hy. rewrite Forall_forall in HF'. apply HF'; auto. }
      exists (w ++ w'). apply (DL_cons g s rest (a :: w) w'); auto.
    + destruct (IH HF' a H2) as [w Hw]. exists w.
      apply (DL_cons g s rest [] (a :: w)); auto. eapply inv_eps; eauto.
Qed.

(* sentential reading, hypothesis-free: the terminal comes from a symbol reached through an
   erasable prefix *)
Lemma fo_sound_tm_sentential g f :
  INV g (PS g) f ->
  forall str a, fo_spec (fs_get f) str (Tm a) ->
    exists pre s post beta, str = pre ++ s :: post /\ DerivesL g pre [] /\ DerivesS g s (Tm a :: beta).
Proof.
  intros HI. induction str as [|s rest IH]; intros a; cbn [fo_spec].
  - discriminate.
  - intros [[_ H]|[H1 H2]].
    + destruct (inv_tm g (PS g) f HI s a H) as [beta Hb].
      exists [], s, rest, beta. repeat split; auto. constructor.
    + destruct (IH a H2) as (pre & s' & post & beta & -> & Hpre & Hb).
      exists (s :: pre), s', post, beta. repeat split; auto.
      apply (DL_cons g s pre [] []); auto. eapply inv_eps; eauto.
Qed.

Definition C13_first_string_partial_stmt : Prop :=
  forall g g' str, wf_grammar g -> productive g -> calculate_first_sets g = Ok g' ->
    Forall (fun X => mentioned g X /\ X <> Eps) str ->
    (forall a, In (Tm a) (first g' str) <-> exists w, DerivesL g str (a :: w)) /\
    (In Eps (first g' str) <-> DerivesL g str []).

Lemma C13_first_string_partial : C13_first_string_partial_stmt.
Proof.
  intros g g' str WF Hp HC HF.
  destruct (calc_main g g' (PT g) WF (PT_tm g) (PT_rule g WF Hp) HC) as (HI & Hcl & HK & _).
  assert (HK' : forall i, In (Tm i) (allsyms (right_sides g)) ->
                          In (Tm i) (fs_get (first_sets g') (Tm i))).
  { intros i Hi. apply HK; auto. }
  split.
  - intros a. rewrite first_In. split.
    + apply fo_sound_tm; auto.
    + intros [w Hw].
      destruct (fo_complete g _ WF Hcl HK' str HF _ Hw) as [_ H]. eapply H; eauto.
  - rewrite first_In. split.
    + eapply fo_sound_eps; eauto.
    + intros Hw. destruct (fo_complete g _ WF Hcl HK' str HF _ Hw) as [H _]. auto.
Qed.

(* what holds of first(string) without `productive` *)
Definition C13_first_string_uncond_stmt : Prop :=
  forall g g' str, wf_grammar g -> calculate_first_sets g = Ok g' ->
    Forall (fun X => mentioned g X /\ X <> Eps) str ->
    (forall a, (exists w, DerivesL g str (a :: w)) -> In (Tm a) (first g' str)) /\
    (forall a, In (Tm a) (first g' str) ->
       exists pre s post beta, str = pre ++ s :: post /\ DerivesL g pre [] /\ DerivesS g s (Tm a :: beta)) /\
    (In Eps (first g' str) <-> DerivesL g str []).

Lemma C13_first_string_uncond : C13_first_string_uncond_stmt.
Proof.
  intros g g' str WF HC HF.
  destruct (calc_main g g' (PS g) WF (PS_tm g) (PS_rule g WF) HC) as (HI & Hcl & HK & _).
  assert (HK' : forall i, In (Tm i) (allsyms (right_sides g)) ->
                          In (Tm i) (fs_get (first_sets g') (Tm i))).
  { intros i Hi. apply HK; auto. }
  split; [|split].
  - intros a [w Hw]. rewrite first_In.
    destruct (fo_complete g _ WF Hcl HK' str HF _ Hw) as [_ H]. eapply H; eauto.
  - intros a. rewrite first_In. apply fo_sound_tm_sentential; auto.
  - rewrite first_In. split.
    + eapply fo_sound_eps; eauto.
    + intros Hw. destruct (fo_complete g _ WF Hcl HK' str HF _ Hw) as [H _]. auto.
Qed.

Print Assumptions C13_first_sound_stmt_false.
Print Assumptions C13_first_string_stmt_false.
Print Assumptions C13_first_sound_partial.
Print Assumptions C13_first_sound_sentential.
Print Assumptions C13_first_complete_proof.
Print Assumptions C13_first_terminates_proof.
Print Assumptions C13_maxterm_proof.
Print Assumptions C13_first_string_partial.
Print Assumptions C13_first_string_uncond.
