(* Proofs_C07s5h.v — C07 with calls, part 8: the DYNAMIC part, preparations.
   step_trace keeps the program and the stepping flag; the call instructions (PREPARE, ARG, EXEC, RET) as quiet
   runs on states with an explicit stack; the ARG loop; and the step lemma of Proofs_C01s4d.v for an instruction that
   is not a site, as a quiet run (for an abstract position map, as there). *)
From Coq Require Import List ZArith NArith Lia Bool.
From Theo Require Import Base Tokens Errors MacroExtract Parser VMModel VMSpec GenModel Compile RefSem RefSemChk C01Statements C01Stages Gen_Consts Proofs_VM_mem Proofs_VM_dbg Proofs_Gen0 Proofs_Gen Proofs_Sem Proofs_C01a Proofs_C01b Proofs_C01 Proofs_C01s2a Proofs_C01s2b Proofs_C01s2 Proofs_C01s3a Proofs_C01s4a Proofs_C01s4b Proofs_C01s4c Proofs_C01s4d.
From Theo Require Import C07Statements Proofs_C07a.
Import ListNotations.
Local Open Scope Z_scope.

(* ================================================================================================ *)
(* 1. step_trace                                                                                    *)
(* ================================================================================================ *)
Lemma st_keeps : forall n s tr s' e, step_trace n s = Ok (tr, s', e) -> prog s' = prog s /\ stepping s' = stepping s.
Proof.
  induction n as [|n IH]; intros s tr s' e H.
  - cbn [step_trace] in H. inversion H; subst. auto.
  - rewrite step_trace_S in H. destruct (exec1 s) as [[s1 st]| |] eqn:E1; cbn [bind] in H; try discriminate.
    assert (K1 : prog s1 = prog s /\ stepping s1 = stepping s).
    { split; [exact (exec1_prog _ _ _ E1)|].
      destruct (Proofs_VM_dbg.vm_run_prog_en 1 s s1 ltac:(rewrite vm_run_S, E1; reflexivity)) as [_ _].
      unfold exec1, exec1_gen in E1. destruct (znth (code (prog s)) (ip s)) as [i|]; cbn [of_opt bind] in E1; [|discriminate].
      destruct (iop i);
        repeat match type of E1 with
               | bind ?x _ = Ok _ => destruct x; cbn [bind] in E1; try discriminate E1
               | match ?x with _ => _ end = Ok _ => destruct x; try discriminate E1
               end;
        inversion E1; reflexivity. }
    destruct K1 as [Kp Ks]. destruct (at_halt s).
    + inversion H; subst. auto.
    + destruct st.
      * destruct (of_opt ub_index (getCurrentBreak s1)) as [l| |]; cbn [bind] in H; try discriminate.
        destruct (views s1) as [v| |]; cbn [bind] in H; try discriminate.
        destruct (step_trace n s1) as [[[tr1 sx] ex]| |] eqn:E; cbn [bind] in H; try discriminate.
        inversion H; subst. destruct (IH _ _ _ _ E) as [A B]. split; congruence.
      * destruct (IH _ _ _ _ H) as [A B]. split; congruence.
Qed.

(* ================================================================================================ *)
(* 2. the call instructions, quietly                                                                *)
(* ================================================================================================ *)
Lemma at_halt_st s q d stk ins : znth (code (prog s)) q = Some ins -> opcode_eqb (iop ins) HALT = false ->
  at_halt (vm_st s q d stk) = false.
Proof.
  intros Hz Hh. unfold at_halt, op_at, vm_st. cbn [prog ip]. rewrite Hz. cbn [option_map].
  destruct (iop ins); try reflexivity. discriminate Hh.
Qed.

Lemma q_prepare s q d stk n mi tgt :
  znth (code (prog s)) q = Some (IPrepare n mi tgt) ->
  qrun 1 (vm_st s q d stk) (vm_st s (q + 1) (d ++ zrepeat 0 (Z.to_nat n)) (mkAct (zlen d) n tgt (-1) mi :: stk)).
Proof.
  intros Hz. apply qrun_1; [|eapply at_halt_st; [exact Hz | reflexivity]].
  unfold exec1, exec1_gen, vm_st. cbn [prog ip]. rewrite Hz.
  cbn [of_opt bind iop IPrepare ia ib ic data stepping stack enabled]. reflexivity.
Qed.

Lemma q_arg s q d tp sn rest t src x d' :
  znth (code (prog s)) q = Some (IArg t src) ->
  znth d (data_start sn + src) = Some x -> zupd d (data_start tp + t) x = Some d' ->
  qrun 1 (vm_st s q d (tp :: sn :: rest)) (vm_st s (q + 1) d' (tp :: sn :: rest)).
Proof.
  intros Hz Hx Hu. apply qrun_1; [|eapply at_halt_st; [exact Hz | reflexivity]].
  unfold exec1, exec1_gen, vm_st. cbn [prog ip]. rewrite Hz.
  cbn [of_opt bind iop IArg ia ib ic]. unfold second, top. cbn [stack hd_error of_opt bind data].
  unfold rd. rewrite Hx. cbn [of_opt bind]. unfold wr. rewrite Hu. reflexivity.
Qed.

Lemma q_exec s q d t rest e :
  znth (code (prog s)) q = Some (IExec e) ->
  qrun 1 (vm_st s q d (t :: rest))
         (vm_st s e d (mkAct (data_start t) (seg_size t) (ret_target t) (q + 1) (debug_info t) :: rest)).
Proof.
  intros Hz. apply qrun_1; [|eapply at_halt_st; [exact Hz | reflexivity]].
  unfold exec1, exec1_gen, vm_st. cbn [prog ip]. rewrite Hz.
  cbn [of_opt bind iop IExec ia ib ic stack]. reflexivity.
Qed.

Lemma q_ret s q d t c rest src x d' :
  znth (code (prog s)) q = Some (IRet src) ->
  znth d (data_start t + src) = Some x -> zupd d (data_start c + ret_target t) x = Some d' ->
  0 <= data_start t <= zlen d ->
  qrun 1 (vm_st s q d (t :: c :: rest)) (vm_st s (ret_addr t) (firstn (Z.to_nat (data_start t)) d') (c :: rest)).
Proof.
  intros Hz Hx Hu Hr. apply qrun_1; [|eapply at_halt_st; [exact Hz | reflexivity]].
  unfold exec1, exec1_gen, vm_st. cbn [prog ip]. rewrite Hz.
  cbn [of_opt bind iop IRet ia ib ic stack data]. unfold rd. rewrite Hx. cbn [of_opt bind]. unfold wr. rewrite Hu.
  cbn [of_opt bind cfg_now legacy_ret]. unfold resize. pose proof (zupd_length _ _ _ _ Hu) as Hl.
  destruct (Z.ltb_spec (data_start t) 0); [lia|]. destruct (Z.leb_spec (data_start t) (zlen d')); [|lia].
  reflexivity.
Qed.

(* ---- the ARG instructions of a call ---- *)
Lemma q_args C s stkt stks rest base' : forall ts vals q i0 d,
  code (prog s) = C ->
  data_start stkt = base' ->
  (forall i t, nth_error ts i = Some t -> znth C (q + Z.of_nat i) = Some (IArg (i0 + Z.of_nat i) t)) ->
  Forall2 (fun t z => znth d (data_start stks + t) = Some z /\ data_start stks + t < base') ts vals ->
  0 <= i0 -> 0 <= base' -> base' + i0 + zlen ts <= zlen d ->
  exists d', qrun (length ts) (vm_st s q d (stkt :: stks :: rest)) (vm_st s (q + zlen ts) d' (stkt :: stks :: rest)) /\
    zlen d' = zlen d /\
    (forall i z, nth_error vals i = Some z -> znth d' (base' + i0 + Z.of_nat i) = Some z) /\
    (forall j, ~ (base' + i0 <= j < base' + i0 + zlen ts) -> znth d' j = znth d j).
Proof.
  induction ts as [|t ts IH]; intros vals q i0 d HC Hb HA HV Hi0 Hb0 Hl.
  - destruct vals; [|inversion HV]. exists d. unfold zlen at 1. cbn [length vm_run]. rewrite Z.add_0_r.
    split; [reflexivity|]. split; [reflexivity|]. split; [intros i z H; destruct i; discriminate | auto].
  - destruct vals as [|z vs]; [inversion HV|].
    assert (Hh : (znth d (data_start stks + t) = Some z /\ data_start stks + t < base') /\
                 Forall2 (fun t z => znth d (data_start stks + t) = Some z /\ data_start stks + t < base') ts vs)
      by (inversion HV; auto).
    destruct Hh as [[Hz Hlt] HV']. rewrite zlen_cons in *. pose proof (zlen_nonneg ts) as Hts.
    destruct (zupd_ex d (data_start stkt + i0) z ltac:(lia)) as [d1 U1].
    pose proof (zupd_length _ _ _ _ U1) as L1.
    assert (Hstep : qrun 1 (vm_st s q d (stkt :: stks :: rest)) (vm_st s (q + 1) d1 (stkt :: stks :: rest))).
    { eapply q_arg; [rewrite HC; specialize (HA 0%nat t eq_refl); cbn in HA; rewrite !Z.add_0_r in HA; exact HA | exact Hz | exact U1]. }
    destruct (IH vs (q + 1) (i0 + 1) d1 HC Hb) as (d' & Hrun & Ld' & Hv' & Hsame).
    + intros i t' Hi. specialize (HA (S i) t' Hi). rewrite Nat2Z.inj_succ in HA.
      replace (q + 1 + Z.of_nat i) with (q + Z.succ (Z.of_nat i)) by lia.
      replace (i0 + 1 + Z.of_nat i) with (i0 + Z.succ (Z.of_nat i)) by lia. exact HA.
    + clear - HV' U1 Hi0 Hb. induction HV' as [|t' z' l l' [A B] HV' IHV]; constructor; auto.
      split; [|exact B]. rewrite (znth_zupd _ _ _ _ U1). destruct (Z.eqb_spec (data_start stks + t') (data_start stkt + i0)); [lia | exact A].
    + lia.
    + lia.
    + lia.
    + exists d'. split.
      * change (length (t :: ts)) with (1 + length ts)%nat. eapply qrun_trans; [exact Hstep|].
        replace (q + (zlen ts + 1)) with (q + 1 + zlen ts) by lia. exact Hrun.
      * split; [lia|]. split.
        -- intros i z' Hi. destruct i as [|i]; cbn [nth_error] in Hi.
           ++ inversion Hi; subst z'. replace (base' + i0 + Z.of_nat 0) with (data_start stkt + i0) by (cbn; lia).
              rewrite Hsame by lia. rewrite (znth_zupd _ _ _ _ U1), Z.eqb_refl. reflexivity.
           ++ rewrite Nat2Z.inj_succ. replace (base' + i0 + Z.succ (Z.of_nat i)) with (base' + (i0 + 1) + Z.of_nat i) by lia.
              apply Hv'. exact Hi.
        -- intros j Hj. rewrite Hsame by lia. rewrite (znth_zupd _ _ _ _ U1).
           destruct (Z.eqb_spec j (data_start stkt + i0)); [lia | reflexivity].
Qed.

(* ================================================================================================ *)
(* 3. one instruction of stage 3 that is not a site                                                 *)
(* ================================================================================================ *)
Section Step7G.
  Variables (rs : list routine) (k : nat) (r : routine).
  Variables (rm : regmap) (base N : Z) (C : list instr) (PM : Z -> Z).
  Hypothesis OK : rm_ok rm N.
  Notation jpostG := (jpostG r PM).

  Lemma step7_generic rec ctx a pc steps trace i s d o :
    imatch3 rm C jpostG (PM pc) i -> PM (pc + 1) = PM pc + blen3 i -> is_site i = false ->
    frame_of base C s -> SR rm base N a d ->
    exec_instr_c rs rec r ctx k a pc steps trace i = o -> o <> OBad ->
    ((i = RHalt \/ i = RStop) /\ o = OStop (ctx ++ [view_of r a]) (S steps) trace) \/
    (exists a' pc' n d',
        qrun n (vm_at s (PM pc) d) (vm_at s (PM pc') d') /\
        SR rm base N a' d' /\ chg rm base d d' (in_frame base N) /\
        rec ctx k a' pc' (S steps) trace = o).
  Proof.
    intros HM Hnext Hns (HC & act & rest & Hst & Hb) HS HX Hne.
    pose proof HS as [Hf Hvar Hcnt Hvb Hcb].
    unfold exec_instr_c in HX. cbv zeta in HX.
    destruct i as [l|x v|id v|id ex|id back|v ex|target|l|x y l| |out|]; cbn [imatch3 imatch blen3 blen] in HM, Hnext; try contradiction.
    - (* RSite *) discriminate Hns.
    - (* RAssign *)
      destruct HM as (rx & Hx & HV).
      rewrite (eval_c_simple _ _ _ _ _ _ _ (vmatch_shape _ _ _ _ _ HV)) in HX.
      destruct (sval (ra_vars a) v) as [z|] eqn:Ev; [|congruence].
      pose proof (rmo_var_rng _ _ OK _ _ Hx) as Rx.
      destruct (run_val7 rm base N C OK v rx (PM pc) s d act rest a z HS HC Hst Hb HV Rx Ev) as (d' & Hrun & Hch & Hz & Hzb).
      right.
      exists (mkRAct (put (ra_vars a) x z) (ra_cnt a)), (pc + 1), (Z.to_nat (vlen v)), d'.
      split; [rewrite Hnext; exact Hrun|].
      split; [eapply SR_var; eauto|]. split; [eapply chg_in_frame; eauto | exact HX].
    - (* RLoopInit *)
      destruct HM as (rc & Hx & HV).
      rewrite (eval_c_simple _ _ _ _ _ _ _ (vmatch_shape _ _ _ _ _ HV)) in HX.
      destruct (sval (ra_vars a) v) as [z|] eqn:Ev; [|congruence].
      pose proof (rmo_cnt_rng _ _ OK _ _ Hx) as Rx.
      destruct (run_val7 rm base N C OK v rc (PM pc) s d act rest a z HS HC Hst Hb HV Rx Ev) as (d' & Hrun & Hch & Hz & Hzb).
      right.
      exists (mkRAct (ra_vars a) (putc (ra_cnt a) id z)), (pc + 1), (Z.to_nat (vlen v)), d'.
      split; [rewrite Hnext; exact Hrun|].
      split; [eapply SR_cnt; eauto|]. split; [eapply chg_in_frame; eauto | exact HX].
    - (* RLoopTest *)
      destruct HM as (rc & f & Hx & Hz & (t & Ht & Hj)).
      pose proof (Hcnt _ _ Hx) as Hrd. rewrite <- Hb in Hrd.
      pose proof (q_jmpc s act rest (PM pc) d f rc _ ltac:(rewrite HC; exact Hz) Hst Hrd) as Hrun.
      right. destruct (getc (ra_cnt a) id =? 0).
      + rewrite Ht in HX. unfold goto_of in HX. destruct (Z.ltb_spec t 0) as [|Hge]; [congruence|].
        exists a, t, 1%nat, d. rewrite <- (Hj Hge).
        split; [exact Hrun|]. split; [exact HS|]. split; [apply chg_refl | exact HX].
      + exists a, (pc + 1), 1%nat, d. rewrite Hnext.
        split; [exact Hrun|]. split; [exact HS|]. split; [apply chg_refl | exact HX].
    - (* RLoopDec *)
      destruct HM as (rc & f & Hx & Hz & Hz1 & (t & Ht & Hj)).
      rewrite Ht in HX. unfold goto_of in HX. destruct (Z.ltb_spec t 0) as [|Hge]; [congruence|].
      pose proof (Hcnt _ _ Hx) as Hrd. rewrite <- Hb in Hrd.
      pose proof (rmo_cnt_rng _ _ OK _ _ Hx) as Rx. pose proof (Hcb id) as Bc.
      set (x := getc (ra_cnt a) id) in *.
      destruct (zupd_ex d (data_start act + rc) (clampz (x + -1)) ltac:(lia)) as [d' Hu].
      assert (Ec : clampz (x + -1) = Z.max (x - 1) 0) by (unfold clampz; lia).
      right.
      exists (mkRAct (ra_vars a) (putc (ra_cnt a) id (Z.max (x - 1) 0))), t, (1 + 1)%nat, d'.
      split.
      + rewrite <- (Hj Hge).
        eapply qrun_trans; [eapply q_add; [rewrite HC; exact Hz | exact Hst | exact Hrd | exact Hu]|].
        apply q_jmp. rewrite HC. exact Hz1.
      + rewrite Hb in Hu. split.
        * eapply SR_cnt; eauto; [eapply chg_zupd; exact Hu | | lia].
          rewrite (znth_zupd _ _ _ _ Hu), Z.eqb_refl, Ec. reflexivity.
        * split; [|exact HX]. eapply chg_in_frame; [exact Rx|]. eapply chg_zupd; exact Hu.
    - (* RWhileTest *)
      destruct HM as (tt & f & Htt & HV & Hz & (t & Ht & Hj)).
      rewrite (eval_c_simple _ _ _ _ _ _ _ (vmatch_shape _ _ _ _ _ HV)) in HX.
      destruct (sval (ra_vars a) v) as [z|] eqn:Ev; [|congruence].
      pose proof (rmo_tmp_rng _ _ OK _ Htt) as Rt.
      destruct (run_val7 rm base N C OK v tt (PM pc) s d act rest a z HS HC Hst Hb HV Rt Ev) as (d' & Hrun & Hch & Hzz & Hzb).
      assert (HS' : SR rm base N a d').
      { eapply SR_tmp; eauto. destruct Hch as [Hl Hc']. split; [exact Hl|]. intros j _ Hj'. apply Hc'; [|exact Hj'].
        intros ->. apply (Hj' tt Htt). reflexivity. }
      assert (Hch' : chg rm base d d' (in_frame base N)) by (eapply chg_in_frame; eauto).
      rewrite <- Hb in Hzz.
      pose proof (q_jmpc s act rest (PM pc + vlen v) d' f tt z ltac:(rewrite HC; exact Hz) Hst Hzz) as Hrun2.
      right. destruct (z =? 0).
      + rewrite Ht in HX. unfold goto_of in HX. destruct (Z.ltb_spec t 0) as [|Hge]; [congruence|].
        exists a, t, (Z.to_nat (vlen v) + 1)%nat, d'. rewrite <- (Hj Hge).
        split; [eapply qrun_trans; [exact Hrun | exact Hrun2]|]. split; [exact HS'|]. split; [exact Hch' | exact HX].
      + exists a, (pc + 1), (Z.to_nat (vlen v) + 1)%nat, d'. rewrite Hnext.
        replace (PM pc + (vlen v + 1)) with (PM pc + vlen v + 1) by lia.
        split; [eapply qrun_trans; [exact Hrun | exact Hrun2]|]. split; [exact HS'|]. split; [exact Hch' | exact HX].
    - (* RJump *)
      destruct HM as (f & Hz & (t & Ht & Hj)).
      rewrite Ht in HX. unfold goto_of in HX. destruct (Z.ltb_spec t 0) as [|Hge]; [congruence|].
      right.
      exists a, t, 1%nat, d. rewrite <- (Hj Hge).
      split; [apply q_jmp; rewrite HC; exact Hz|]. split; [exact HS|]. split; [apply chg_refl | exact HX].
    - (* RGoto *)
      destruct HM as (f & Hz & Hj). cbn [jpostG] in Hj.
      unfold goto_of in HX. destruct (Z.ltb_spec (label_pos (r_labels r) l) 0) as [|Hge]; [congruence|].
      right.
      exists a, (label_pos (r_labels r) l), 1%nat, d. rewrite <- (Hj Hge).
      split; [apply q_jmp; rewrite HC; exact Hz|]. split; [exact HS|]. split; [apply chg_refl | exact HX].
    - (* RIfGoto *)
      destruct x as [y0| | | |]; try contradiction. destruct y as [|c| | |]; try contradiction.
      destruct HM as (ry & t1 & t2 & tc & f & Hy & T1 & T2 & Tc & Hne12 & Hc & Z0 & Z1 & Z2 & Z3 & Hj). cbn [jpostG] in Hj.
      cbn [eval_c] in HX. cbn [vlen] in Hnext.
      pose proof (rmo_tmp_rng _ _ OK _ T1) as R1. pose proof (rmo_tmp_rng _ _ OK _ T2) as R2. pose proof (rmo_tmp_rng _ _ OK _ Tc) as Rc.
      pose proof (Hvb y0) as By. set (x := get (ra_vars a) y0) in *.
      destruct (zupd_ex d (data_start act + t1) (clampz (x + 0)) ltac:(lia)) as [d1 U1].
      assert (E1 : clampz (x + 0) = x) by (unfold clampz; lia).
      pose proof (zupd_length _ _ _ _ U1) as L1.
      destruct (zupd_ex d1 (data_start act + t2) c ltac:(lia)) as [d2 U2].
      pose proof (zupd_length _ _ _ _ U2) as L2.
      destruct (zupd_ex d2 (data_start act + tc) (if x =? c then 0 else 1) ltac:(lia)) as [d3 U3].
      assert (Rd1 : znth d2 (data_start act + t1) = Some x).
      { rewrite (znth_zupd _ _ _ _ U2). destruct (Z.eqb_spec (data_start act + t1) (data_start act + t2)); [lia|].
        rewrite (znth_zupd _ _ _ _ U1), Z.eqb_refl, E1. reflexivity. }
      assert (Rd2 : znth d2 (data_start act + t2) = Some c) by (rewrite (znth_zupd _ _ _ _ U2), Z.eqb_refl; reflexivity).
      assert (Rd3 : znth d3 (data_start act + tc) = Some (if x =? c then 0 else 1)) by (rewrite (znth_zupd _ _ _ _ U3), Z.eqb_refl; reflexivity).
      assert (Hch : chg rm base d d3 (fun _ => False)).
      { rewrite <- Hb.
        eapply chg_trans with (W1 := fun _ => False) (W2 := fun _ => False); [tauto | tauto | | exact (chg_zupd_tmp _ _ _ _ _ _ Tc U3)].
        eapply chg_trans with (W1 := fun _ => False) (W2 := fun _ => False);
          [tauto | tauto | exact (chg_zupd_tmp _ _ _ _ _ _ T1 U1) | exact (chg_zupd_tmp _ _ _ _ _ _ T2 U2)]. }
      assert (HS' : SR rm base N a d3) by (eapply SR_tmp; eauto).
      assert (Hch' : chg rm base d d3 (in_frame base N)) by (eapply chg_weaken; [|exact Hch]; tauto).
      assert (Hrun : qrun (1 + (1 + (1 + 1))) (vm_at s (PM pc) d)
                     (vm_at s (if (if x =? c then 0 else 1) =? 0 then PM pc + 1 + 1 + 1 + f else PM pc + 1 + 1 + 1 + 1) d3)).
      { eapply qrun_trans; [eapply q_add; [rewrite HC; exact Z0 | exact Hst | rewrite Hb; apply Hvar; exact Hy | exact U1]|].
        eapply qrun_trans; [eapply q_const; [rewrite HC; exact Z1 | exact Hst | exact U2]|].
        eapply qrun_trans; [eapply q_test; [rewrite HC; replace (PM pc + 1 + 1) with (PM pc + 2) by lia; exact Z2
                                               | exact Hst | exact Rd1 | exact Rd2 | exact U3]|].
        eapply q_jmpc; [rewrite HC; replace (PM pc + 1 + 1 + 1) with (PM pc + 3) by lia; exact Z3 | exact Hst | exact Rd3]. }
      right.
      destruct (x =? c).
      + unfold goto_of in HX. destruct (Z.ltb_spec (label_pos (r_labels r) l) 0) as [|Hge]; [congruence|].
        exists a, (label_pos (r_labels r) l), (1 + (1 + (1 + 1)))%nat, d3.
        rewrite <- (Hj Hge). cbn [Z.eqb] in Hrun. replace (PM pc + 3 + f) with (PM pc + 1 + 1 + 1 + f) by lia.
        split; [exact Hrun|]. split; [exact HS'|]. split; [exact Hch' | exact HX].
      + exists a, (pc + 1), (1 + (1 + (1 + 1)))%nat, d3. rewrite Hnext.
        cbn [Z.eqb] in Hrun. replace (PM pc + (1 + 1 + 2)) with (PM pc + 1 + 1 + 1 + 1) by lia.
        split; [exact Hrun|]. split; [exact HS'|]. split; [exact Hch' | exact HX].
    - (* RStop *)
      left. split; [right; reflexivity | congruence].
    - (* RHalt *)
      left. split; [left; reflexivity | congruence].
  Qed.
End Step7G.
