(* Proofs_C01s6k.v — C01, stage 6 (any layout), part 6: the STATIC part, the statements of one routine body.
   Proofs_C01s4k.v over the invariant J6, without a layout condition: the values of assignments, LOOP bounds, WHILE
   conditions and IF operands may stand on other lines; the sites placed for them are inside the block of the
   statement's instruction (imatch6). *)
From Coq Require Import List ZArith NArith Lia Bool.
From Theo Require Import Base Tokens Errors MacroExtract Parser VMModel VMSpec GenModel Compile RefSem RefSemChk C01Statements C01Stages C01Stages3 C01Stages4 Gen_Consts Proofs_VM_mem Proofs_VM_dbg Proofs_Gen0 Proofs_Gen Proofs_Sem Proofs_C01a Proofs_C01b Proofs_C01 Proofs_C01s2a Proofs_C01s2b Proofs_C01s2c Proofs_C01s2d Proofs_C01s2 Proofs_C01s3a Proofs_C01s3b Proofs_C01s3c Proofs_C01s3d Proofs_C01s4a Proofs_C01s4b Proofs_C01s4g Proofs_C01s4h Proofs_C01s4i Proofs_C01s4j Proofs_C01s6a Proofs_C01s6g Proofs_C01s6h Proofs_C01s6i Proofs_C01s6j.
Import ListNotations.
Local Open Scope Z_scope.

Section Walk6.
  Variable P0 : Z.
  Variable FT : ftab.
  Variable LS : list Z.
  Variable W : rvalue -> Prop.
  (* the layout predicate of assigned values: such a value stands on the line of its statement, or it is flattened
     to one of the values W (no condition at all when W is everything) *)
  Variable ol : str -> Z -> node -> bool.
  Hypothesis Hol : forall f l v, ol f l v = true ->
    on_line f l v = true \/ (forall s s' rv, flat_value v s = Some (s', rv) -> W rv).
  Notation J4 := (Proofs_C01s6h.J6 P0 FT LS W 0).
  Notation VRes6 := (VRes6 P0 FT LS W).
  Notation GF := (GF FT).

  (* a variable or a number as a value (LOOP bound, WHILE condition, the operands of IF): whatever hangs below the
     node is ignored by both traversals *)
  Lemma N6_leaf t line file tok l r : (t = N_NAME /\ lexable tok = true) \/ t = N_NUMBER ->
    forall gh g s lmap p tgt g' s' rv, Proofs_C01s6h.J6 P0 FT LS W gh g s lmap p -> GF g s ->
      dispatch_value false (Node t line file tok l r) tgt g = Ok g' -> flat_value (Node t line file tok l r) s = Some (s', rv) ->
      exists n, VRes6 g g' s s' lmap p gh rv tgt n /\
        ((t = N_NAME /\ rv = RVar tok) \/ (t = N_NUMBER /\ rv = RNum (strtol tok) /\ strtol tok < INT_MAX)).
  Proof.
    intros Ht gh g s lmap p tgt g' s' rv HJ HG HD HF.
    assert (HD' : dispatch_value false (Node t line file tok None None) tgt g = Ok g').
    { destruct Ht as [[-> _]| ->]; [rewrite dv_name in *|rewrite dv_number in *]; exact HD. }
    assert (HF' : flat_value (Node t line file tok None None) s = Some (s', rv)).
    { destruct Ht as [[-> _]| ->]; [rewrite flat_value_name in *|rewrite flat_value_number in *]; exact HF. }
    assert (Hv4 : value4 (Node t line file tok None None) = true) by (destruct Ht as [[-> _]| ->]; reflexivity).
    assert (Hlex : lexable_names (Node t line file tok None None) = true).
    { destruct Ht as [[-> Hx]| ->]; cbn [lexable_names]; [rewrite Hx|]; reflexivity. }
    destruct (all_sub_here _ _ (N6_value_all P0 FT LS W _) Hv4 Hlex gh g s lmap p tgt g' s' rv HJ HG HD' HF') as (n & HV & _).
    exists n. split; [exact HV|].
    destruct Ht as [[-> _]| ->]; [left|right].
    - rewrite flat_value_name in HF. cbv zeta in HF. inversion HF. auto.
    - rewrite flat_value_number in HF. cbv zeta in HF. destruct (Z.leb_spec INT_MAX (strtol tok)); [discriminate|]. inversion HF. auto.
  Qed.

  (* ================================================================================================ *)
  (* 3. statements                                                                                    *)
  (* ================================================================================================ *)
  Definition SRes6 (g g' : gstate) (s s' : fstate) (lmap lmap' : list Z) : Prop :=
    J4 g' s' lmap' 0 /\ Ext g g' /\ FExt s s' /\ exists m, lmap' = lmap ++ m.

  Lemma SRes6_trans g g1 g2 s s1 s2 l l1 l2 : SRes6 g g1 s s1 l l1 -> SRes6 g1 g2 s1 s2 l1 l2 -> SRes6 g g2 s s2 l l2.
  Proof.
    intros (_ & A2 & A3 & [m1 ->]) (B1 & B2 & B3 & [m2 ->]).
    split; [exact B1|]. split; [eapply Ext_trans; eauto|]. split; [eapply FExt_trans; eauto|].
    exists (m1 ++ m2). rewrite app_assoc. reflexivity.
  Qed.

  Definition Pjoint6 (n : node) : Prop :=
    body4 ol n = true -> lexable_names n = true ->
    forall g s lmap g' s', J4 g s lmap 0 -> GF g s ->
      dispatch_void false false false n g = Ok g' -> flat_stmt n s = Some s' ->
      exists lmap', SRes6 g g' s s' lmap lmap'.

  (* x := value *)
  Lemma N6_assign al af atok tt lt ft x ct1 ct2 v g s lmap g' s' :
    tt = N_NAME -> lexable x = true -> value4 v = true -> lexable_names v = true -> ol af al v = true ->
    J4 g s lmap 0 -> GF g s ->
    dispatch_void false false false (Node N_ASSIGN al af atok (Some (Node tt lt ft x ct1 ct2)) (Some v)) g = Ok g' ->
    flat_stmt (Node N_ASSIGN al af atok (Some (Node tt lt ft x ct1 ct2)) (Some v)) s = Some s' ->
    SRes6 g g' s s' lmap lmap.
  Proof.
    intros -> Hx Hsv Hlex Hov HJ HG HD HF.
    rewrite dvoid_assign in HD. cbn [child of_opt bind n_tok] in HD.
    rewrite flat_stmt_eq in HF. cbn [fs_body] in HF. unfold fs_assign in HF. cbn [n_tok opt_value] in HF.
    destruct (L6_site P0 FT LS W g s lmap al af HJ) as (J0 & X0 & F0 & A0).
    set (g0 := advance_line g al af) in *. set (s0 := move_to s af al) in *.
    destruct (L6_var P0 FT LS W g0 s0 lmap 0 x Hx J0) as (g1 & E1 & J1 & X1 & S1 & F1 & V1 & _).
    rewrite E1 in HD. cbn [bind] in HD. cbv beta iota in HD. cbn [dispatch_value_opt] in HD.
    set (s1 := with_cur s0 (mention (f_cur s0) x)) in *.
    destruct (flat_value v s1) as [[s2 rv]|] eqn:EF; [|discriminate]. inversion HF; subst s'; clear HF.
    assert (HG1 : GF g1 s1) by (eapply GF_ext; [exact HG | eapply Ext_trans; eauto | eapply FExt_trans; eauto]).
    destruct (all_sub_here _ _ (N6_value_all P0 FT LS W v) Hsv Hlex 0 g1 s1 lmap 0 (ks_ix (gks g0) x) g' s2 rv J1 HG1 HD EF)
      as (n & [RJ RX RF RL RM _] & RLn).
    assert (Hside : side6 W (0 + n) (RAssign x rv)).
    { cbn [side6]. intros Hn. destruct (Hol _ _ _ Hov) as [Hon|HW]; [|eapply HW; exact EF].
      destruct (RLn af al Hon ltac:(rewrite (sm_pos _ _ S1); exact A0)) as [E _]. lia. }
    destruct (L6_bemit P0 FT LS W g' s2 lmap (0 + vlen4 rv) (RAssign x rv) RJ ltac:(cbn [blen4]; lia) Hside) as [J2 F2].
    { cbn [imatch6]. exists (ks_ix (gks g0) x). split; [apply (RV_ext _ _ _ _ RX); exact V1|].
      replace (zlen (g_code g') - (0 + vlen4 rv) - (0 + n)) with (zlen (g_code g1)) by lia. rewrite Z.add_0_l.
      destruct (vmatch6_move (RMof (gks g')) (RMof (gks g')) (g_code g') (g_code g') FT FT (rm_le_refl _) (fun j0 x0 H => H)) as [Mv _].
      eapply Mv; [exact RM | auto | auto]. }
    split; [exact J2|]. split; [eapply Ext_trans; [exact X0|]; eapply Ext_trans; eauto|].
    split; [|apply nil_ex]. eapply FExt_trans; [exact F0|]. eapply FExt_trans; [exact F1|]. eapply FExt_trans; eauto.
  Qed.

  Definition IHbody6 (body : node) : Prop :=
    forall g s lmap g' s', J4 g s lmap 0 -> GF g s ->
      dispatch_void false false false body g = Ok g' -> flat_stmt body s = Some s' ->
      exists lmap', SRes6 g g' s s' lmap lmap'.

  Ltac fext := repeat first [ eassumption | eapply FExt_trans; [eassumption|] ].
  Ltac gext := repeat first [ eassumption | eapply Ext_trans; [eassumption|] ].

  (* LOOP bound DO body *)
  Lemma N6_loop ll lf ltok bound body g s lmap g' s' :
    leaf_name bound = true -> lexable_names bound = true -> IHbody6 body ->
    J4 g s lmap 0 -> GF g s ->
    dispatch_void false false false (Node N_LOOP ll lf ltok (Some bound) (Some body)) g = Ok g' ->
    flat_stmt (Node N_LOOP ll lf ltok (Some bound) (Some body)) s = Some s' ->
    exists lmap', SRes6 g g' s s' lmap lmap'.
  Proof.
    intros Hnm Hlex IHb HJ HG HD HF.
    destruct (leaf_name_inv _ Hnm) as (bl & bf & btok & ->).
    assert (Hbx : lexable btok = true) by (cbn [lexable_names] in Hlex; rewrite !andb_true_iff in Hlex; apply Hlex).
    apply dvoid_loop_inv in HD. cbv zeta in HD. destruct HD as (g1 & c & g2 & g5 & g7 & D1 & D2 & D5 & D7 & D9).
    rewrite flat_stmt_eq in HF. cbn [fs_body] in HF. apply fs_loop_inv in HF. cbv zeta in HF.
    destruct HF as (s1 & v & s2 & F1 & F2 & ->).
    destruct (L6_site P0 FT LS W g s lmap ll lf HJ) as (J0 & X0 & F0 & A0).
    set (ga := advance_line g ll lf) in *. set (sa := move_to s lf ll) in *.
    destruct (L6_cnt P0 FT LS W ga sa lmap 0 J0) as (g1' & c' & E1 & J1 & X1 & C1 & K1 & P1 & Lp1).
    rewrite D1 in E1. inversion E1; subst g1' c'; clear E1.
    assert (Hid : f_loops sa = g_loops ga) by (destruct J0 as (_ & _ & _ & H); exact H).
    set (id := f_loops sa + 1) in *.
    set (sb := mkF (f_done sa) (f_names sa) (f_cur sa) (f_pos sa) id) in *.
    assert (Fab : FExt sa sb) by (repeat split).
    assert (HG1 : GF g1 sb) by (eapply GF_ext; [exact HG | eapply Ext_trans; eauto | eapply FExt_trans; eauto]).
    destruct (N6_leaf N_NAME bl bf btok None None (or_introl (conj eq_refl Hbx)) 0 g1 sb lmap 0 c g2 s1 v J1 HG1 D2 F1)
      as (n & [RJ RX RF RL RM _] & [[_ ->]|[E _]]); [|discriminate E].
    assert (C2 : RC g2 id c). { apply (RC_ext _ _ _ _ RX). unfold id. rewrite Hid. exact C1. }
    (* RLoopInit *)
    destruct (L6_bemit P0 FT LS W g2 s1 lmap (0 + vlen4 (RVar btok)) (RLoopInit id (RVar btok)) RJ eq_refl I) as [J2 F2'].
    { cbn [imatch6]. exists c. split; [exact C2|]. cbn [vlen4 vlen] in RL |- *.
      replace (zlen (g_code g2) - (0 + 1) - (0 + n)) with (zlen (g_code g1)) by lia. rewrite Z.add_0_l.
      eapply vmatch6_leaf; [left; eauto | exact RM]. }
    set (v := RVar btok) in *.
    fold (s_emit s1 (RLoopInit id v)) in J2, F2'. set (sc := s_emit s1 (RLoopInit id v)) in *.
    (* two labels, two targets *)
    destruct (L6_newlab P0 FT LS W g2 sc lmap 0 J2) as (Jh3 & X3 & F3 & M3).
    fold (g_newl g2) in Jh3, X3. fold (s_newt sc) in Jh3, F3.
    set (start := zlen (g_labels g2)) in *. set (t_start := zlen (b_targets (f_cur sc))) in *.
    destruct (L6_newlab P0 FT LS W (g_newl g2) (s_newt sc) _ 0 Jh3) as (J4 & X4 & F4 & M4).
    fold (g_newl (g_newl g2)) in J4, X4. fold (s_newt (s_newt sc)) in J4, F4.
    set (en := zlen (g_labels (g_newl g2))) in *. set (t_end := zlen (b_targets (f_cur (s_newt sc)))) in *.
    set (lmap2 := (lmap ++ [start]) ++ [en]) in *.
    assert (M3' : znth lmap2 t_start = Some start) by (apply znth_app_some; exact M3).
    (* start := here *)
    destruct (L6_setlab P0 FT LS W (g_newl (g_newl g2)) (s_newt (s_newt sc)) lmap2 t_start start J4 M3') as (ls & E5 & J5 & X5 & F5).
    rewrite D5 in E5. inversion E5; subst g5; clear E5.
    fold (s_sett (s_newt (s_newt sc)) t_start) in J5, F5.
    (* JMPC end / RLoopTest *)
    set (g5 := upd_labels (g_newl (g_newl g2)) ls) in *.
    destruct (L6_emit_bp P0 FT LS W g5 _ lmap2 0 (IJmpC en c) J5) as (J6 & X6 & T6).
    set (g6 := emit_backpatched g5 (IJmpC en c)) in *.
    assert (X26 : Ext g2 g6) by gext.
    assert (Ec6 : g_code g6 = g_code g5 ++ [IJmpC en c]) by reflexivity.
    destruct (L6_bemit P0 FT LS W g6 _ lmap2 (0 + 1) (RLoopTest id t_end) J6 eq_refl I) as [J6' F6'].
    { cbn [imatch6 imatch4 imatch3 imatch]. split; [reflexivity|]. rewrite Z.sub_0_r. exists c, en. split; [apply (RC_ext _ _ _ _ X26); exact C2|].
      rewrite Ec6, zlen_snoc. replace (zlen (g_code g5) + 1 - (0 + 1)) with (zlen (g_code g5)) by lia.
      split; [apply znth_app_last|]. split; [exact T6 | exact M4]. }
    fold (s_emit (s_sett (s_newt (s_newt sc)) t_start) (RLoopTest id t_end)) in J6', F6'.
    (* the body *)
    assert (HG6 : GF g6 (s_emit (s_sett (s_newt (s_newt sc)) t_start) (RLoopTest id t_end))) by (eapply GF_ext; [exact HG | gext | fext]).
    destruct (IHb g6 _ lmap2 g7 s2 J6' HG6 D7 F2) as (lmap3 & J7 & X7 & F7 & [m3 Em3]).
    (* decrement and jump back *)
    destruct (L6_emit P0 FT LS W g7 s2 lmap3 0 (IAdd c c (-1)) J7) as [J8 X8].
    set (g8 := emit g7 (IAdd c c (-1))) in *.
    destruct (L6_emit_bp P0 FT LS W g8 s2 lmap3 (0 + 1) (IJmp start) J8) as (J9 & X9 & T9).
    set (g9 := emit_backpatched g8 (IJmp start)) in *.
    assert (X29 : Ext g2 g9) by gext.
    assert (Ec8 : g_code g8 = g_code g7 ++ [IAdd c c (-1)]) by reflexivity.
    assert (Ec9 : g_code g9 = (g_code g7 ++ [IAdd c c (-1)]) ++ [IJmp start]) by reflexivity.
    destruct (L6_bemit P0 FT LS W g9 s2 lmap3 (0 + 1 + 1) (RLoopDec id t_start) J9 eq_refl I) as [J9' F9'].
    { cbn [imatch6 imatch4 imatch3 imatch]. split; [reflexivity|]. rewrite Z.sub_0_r. exists c, start. split; [apply (RC_ext _ _ _ _ X29); exact C2|].
      rewrite Ec8, zlen_snoc in T9.
      rewrite Ec9, !zlen_snoc. replace (zlen (g_code g7) + 1 + 1 - (0 + 1 + 1)) with (zlen (g_code g7)) by lia.
      split; [apply znth_app_some; apply znth_app_last|].
      split; [rewrite <- (zlen_snoc (g_code g7) (IAdd c c (-1))); apply znth_app_last|].
      split; [exact T9 | rewrite Em3; apply znth_app_some; exact M3']. }
    fold (s_emit s2 (RLoopDec id t_start)) in J9', F9'.
    (* end := here *)
    assert (M4' : znth lmap3 t_end = Some en) by (rewrite Em3; apply znth_app_some; exact M4).
    destruct (L6_setlab P0 FT LS W g9 _ lmap3 t_end en J9' M4') as (ls9 & E9 & J10 & X10 & F10).
    rewrite D9 in E9. inversion E9; subst g'; clear E9.
    fold (s_sett (s_emit s2 (RLoopDec id t_start)) t_end) in J10, F10.
    exists lmap3. split; [exact J10|]. split; [gext|]. split; [fext|].
    exists ([start] ++ [en] ++ m3). rewrite Em3. unfold lmap2. rewrite <- !app_assoc. reflexivity.
  Qed.

  (* WHILE cond != 0 DO body *)
  Lemma N6_while wl wf wtok condn body g s lmap g' s' :
    leaf_name condn = true -> lexable_names condn = true -> IHbody6 body ->
    J4 g s lmap 0 -> GF g s ->
    dispatch_void false false false (Node N_WHILE wl wf wtok (Some condn) (Some body)) g = Ok g' ->
    flat_stmt (Node N_WHILE wl wf wtok (Some condn) (Some body)) s = Some s' ->
    exists lmap', SRes6 g g' s s' lmap lmap'.
  Proof.
    intros Hnm Hlex IHb HJ HG HD HF.
    destruct (leaf_name_inv _ Hnm) as (bl & bf & btok & ->).
    assert (Hbx : lexable btok = true) by (cbn [lexable_names] in Hlex; rewrite !andb_true_iff in Hlex; apply Hlex).
    apply dvoid_while_inv in HD. cbv zeta in HD. destruct HD as (g3 & t & g4 & g5 & g7 & g9 & D3 & D4 & D5 & D7 & D9 & D10).
    rewrite flat_stmt_eq in HF. cbn [fs_body] in HF. apply fs_while_inv in HF. cbv zeta in HF.
    destruct HF as (s1 & v & s2 & F1 & F2 & ->).
    destruct (L6_site P0 FT LS W g s lmap wl wf HJ) as (J0 & X0 & F0 & A0).
    set (ga := advance_line g wl wf) in *. set (sa := move_to s wf wl) in *.
    (* labels *)
    destruct (L6_newlab P0 FT LS W ga sa lmap 0 J0) as (J1 & X1 & F1' & M1).
    fold (g_newl ga) in J1, X1. fold (s_newt sa) in J1, F1'.
    set (start := zlen (g_labels ga)) in *. set (t_start := zlen (b_targets (f_cur sa))) in *.
    destruct (L6_newlab P0 FT LS W (g_newl ga) (s_newt sa) _ 0 J1) as (J2 & X2 & F2' & M2).
    fold (g_newl (g_newl ga)) in J2, X2. fold (s_newt (s_newt sa)) in J2, F2'.
    set (en := zlen (g_labels (g_newl ga))) in *. set (t_end := zlen (b_targets (f_cur (s_newt sa)))) in *.
    set (lmap2 := (lmap ++ [start]) ++ [en]) in *.
    assert (M1' : znth lmap2 t_start = Some start) by (apply znth_app_some; exact M1).
    (* the temporary of the condition *)
    destruct (L6_tmp P0 FT LS W (g_newl (g_newl ga)) (s_newt (s_newt sa)) lmap2 0 J2) as (g3' & t' & E3 & Jh3 & X3 & S3 & T3 & _ & _).
    rewrite D3 in E3. inversion E3; subst g3' t'; clear E3.
    (* start := here *)
    destruct (L6_setlab P0 FT LS W g3 (s_newt (s_newt sa)) lmap2 t_start start Jh3 M1') as (ls & E4 & J4 & X4 & F4).
    rewrite D4 in E4. inversion E4; subst g4; clear E4.
    fold (s_sett (s_newt (s_newt sa)) t_start) in J4, F4.
    set (g4 := upd_labels g3 ls) in *.
    (* the condition *)
    assert (HG4 : GF g4 (s_sett (s_newt (s_newt sa)) t_start)) by (eapply GF_ext; [exact HG | gext | fext]).
    destruct (N6_leaf N_NAME bl bf btok None None (or_introl (conj eq_refl Hbx)) 0 g4 _ lmap2 0 t g5 s1 v J4 HG4 D5 F1)
      as (n & [RJ RX RF RL RM _] & [[_ ->]|[E _]]); [|discriminate E].
    cbn [vlen4 vlen] in RJ, RL.
    (* JMPC end / RWhileTest *)
    destruct (L6_emit_bp P0 FT LS W g5 s1 lmap2 (0 + 1) (IJmpC en t) RJ) as (J6 & X6 & T6).
    set (g6 := emit_backpatched g5 (IJmpC en t)) in *.
    assert (T4 : RT g4 t) by (apply (RT_ext _ _ _ X4); exact T3).
    assert (X46 : Ext g4 g6) by gext.
    assert (Ec6 : g_code g6 = g_code g5 ++ [IJmpC en t]) by reflexivity.
    destruct (L6_bemit P0 FT LS W g6 s1 lmap2 (0 + 1 + 1) (RWhileTest (RVar btok) t_end) J6 eq_refl I) as [J6' F6'].
    { cbn [imatch6]. exists t, en. split; [apply (RT_ext _ _ _ X46); exact T4|].
      rewrite Ec6, zlen_snoc. replace (zlen (g_code g5) + 1 - (0 + 1 + 1) - (0 + n)) with (zlen (g_code g4)) by lia. rewrite Z.add_0_l.
      split; [eapply vmatch6_leaf; [left; eauto|]; rewrite <- Ec6;
              apply (vmatch6_mono _ _ _ _ FT FT _ _ _ _ _ _ (Ext_rm _ _ X6) (fun j0 x0 H => H) (fun x0 Hx0 => Hx0) RM)|].
      replace (zlen (g_code g4) + 1 + n) with (zlen (g_code g5)) by lia.
      split; [apply znth_app_last|]. split; [exact T6 | exact M2]. }
    set (v := RVar btok) in *.
    fold (s_emit s1 (RWhileTest v t_end)) in J6', F6'.
    (* the body *)
    assert (HG6 : GF g6 (s_emit s1 (RWhileTest v t_end))) by (eapply GF_ext; [exact HG | gext | fext]).
    destruct (IHb g6 _ lmap2 g7 s2 J6' HG6 D7 F2) as (lmap3 & J7 & X7 & F7 & [m3 Em3]).
    (* jump back *)
    destruct (L6_emit_bp P0 FT LS W g7 s2 lmap3 0 (IJmp start) J7) as (J8 & X8 & T8).
    set (g8 := emit_backpatched g7 (IJmp start)) in *.
    assert (Ec8 : g_code g8 = g_code g7 ++ [IJmp start]) by reflexivity.
    destruct (L6_bemit P0 FT LS W g8 s2 lmap3 (0 + 1) (RJump t_start) J8 eq_refl I) as [J8' F8'].
    { cbn [imatch6 imatch4 imatch3 imatch]. split; [reflexivity|]. rewrite Z.sub_0_r. exists start. rewrite Ec8, zlen_snoc.
      replace (zlen (g_code g7) + 1 - (0 + 1)) with (zlen (g_code g7)) by lia.
      split; [apply znth_app_last|]. split; [exact T8 | rewrite Em3; apply znth_app_some; exact M1']. }
    fold (s_emit s2 (RJump t_start)) in J8', F8'.
    (* end := here *)
    assert (M2' : znth lmap3 t_end = Some en) by (rewrite Em3; apply znth_app_some; exact M2).
    destruct (L6_setlab P0 FT LS W g8 _ lmap3 t_end en J8' M2') as (ls9 & E9 & J9 & X9 & F9).
    rewrite D9 in E9. inversion E9; subst g9; clear E9.
    fold (s_sett (s_emit s2 (RJump t_start)) t_end) in J9, F9.
    (* release the temporary *)
    assert (X49 : Ext g4 (upd_labels g8 ls9)) by gext.
    assert (T9 : RT (upd_labels g8 ls9) t) by (apply (RT_ext _ _ _ X49); exact T4).
    destruct (L6_rel P0 FT LS W _ _ lmap3 0 t J9 T9) as (g10 & E10 & J10 & X10 & S10).
    rewrite D10 in E10. inversion E10; subst g10; clear E10.
    exists lmap3. split; [exact J10|]. split; [gext|]. split; [fext|].
    exists ([start] ++ [en] ++ m3). rewrite Em3. unfold lmap2. rewrite <- !app_assoc. reflexivity.
  Qed.

  (* ================================================================================================ *)
  (* 4. sequencing, marks, and the induction over structured trees                                    *)
  (* ================================================================================================ *)
  Lemma N6_mark ml mf mtok el ef etok ec1 ec2 mr :
    IHbody6 (Node N_MARK ml mf mtok (Some (Node N_NAME el ef etok ec1 ec2)) mr).
  Proof.
    intros g s lmap g' s' HJ HG HD HF.
    rewrite dvoid_mark in HD. cbn [child of_opt bind n_tok] in HD.
    rewrite flat_stmt_eq in HF. cbn [fs_body n_tok] in HF. inversion HF; subst s'; clear HF.
    destruct (L6_site P0 FT LS W g s lmap ml mf HJ) as (J0 & X0 & F0 & A0).
    destruct (L6_mark P0 FT LS W _ _ lmap etok g' J0 HD) as (J1 & X1 & F1 & _).
    exists lmap. split; [exact J1|]. split; [eapply Ext_trans; eauto|]. split; [eapply FExt_trans; eauto | apply nil_ex].
  Qed.

  Lemma N6_split line file tok a r :
    IHbody6 a -> (match r with Some x => IHbody6 x | None => True end) ->
    IHbody6 (Node N_SPLIT line file tok (Some a) r).
  Proof.
    intros IHa IHr g s lmap g' s' HJ HG HD HF.
    rewrite dvoid_split in HD. cbn [dvo] in HD.
    rewrite flat_stmt_eq in HF. cbn [fs_body] in HF. unfold fs_split in HF. cbn [fsub] in HF.
    destruct (L6_site P0 FT LS W g s lmap line file HJ) as (J0 & X0 & F0 & A0).
    destruct (dispatch_void false false false a (advance_line g line file)) as [g1| |] eqn:E1; cbn [bind] in HD; try discriminate.
    destruct (flat_stmt a (move_to s file line)) as [s1|] eqn:EF1; [|discriminate].
    destruct (IHa _ _ lmap g1 s1 J0 (GF_ext _ _ _ _ _ HG X0 F0) E1 EF1) as (lmap1 & J1 & X1 & F1 & [m1 Em1]).
    destruct r as [rest|].
    - cbn [dvo] in HD. cbn [fsub] in HF.
      destruct (IHr _ _ lmap1 g' s' J1 (GF_ext _ _ _ _ _ (GF_ext _ _ _ _ _ HG X0 F0) X1 F1) HD HF) as (lmap2 & J2 & X2 & F2 & [m2 Em2]).
      exists lmap2. split; [exact J2|]. split; [eapply Ext_trans; [exact X0|]; eapply Ext_trans; eauto|].
      split; [eapply FExt_trans; [exact F0|]; eapply FExt_trans; eauto|].
      exists (m1 ++ m2). rewrite Em2, Em1, app_assoc. reflexivity.
    - cbn [dvo] in HD. cbn [fsub] in HF. inversion HD; subst g'. inversion HF; subst s'.
      exists lmap1. split; [exact J1|]. split; [eapply Ext_trans; eauto|]. split; [eapply FExt_trans; eauto|].
      exists m1. exact Em1.
  Qed.

  (* ================================================================================================ *)
  (* 5. GOTO, IF, STOP                                                                                *)
  (* ================================================================================================ *)
  Lemma N6_goto gl gf gtok el ef nm ec1 ec2 r0 :
    IHbody6 (Node N_GOTO gl gf gtok (Some (Node N_NAME el ef nm ec1 ec2)) r0).
  Proof.
    intros g s lmap g' s' HJ HG HD HF.
    rewrite dvoid_goto in HD. cbn [child of_opt bind n_tok] in HD.
    rewrite flat_stmt_eq in HF. cbn [fs_body n_tok] in HF. inversion HF; subst s'; clear HF.
    destruct (L6_site P0 FT LS W g s lmap gl gf HJ) as (J0 & X0 & F0 & A0).
    set (g0 := advance_line g gl gf) in *. set (s0 := move_to s gf gl) in *.
    destruct (L6_ensure P0 FT LS W g0 s0 lmap 0 nm J0) as (g1 & lab & E1 & J1 & X1 & F1 & M1 & C1 & T1 & P1 & K1).
    rewrite E1 in HD. cbn [bind] in HD. cbv beta iota in HD. inversion HD; subst g'; clear HD.
    destruct (L6_emit_bp P0 FT LS W g1 _ lmap 0 (IJmp lab) J1) as (J2 & X2 & T2).
    set (g2 := emit_backpatched g1 (IJmp lab)) in *.
    assert (Ec2 : g_code g2 = g_code g1 ++ [IJmp lab]) by reflexivity.
    destruct (L6_bemit P0 FT LS W g2 _ lmap (0 + 1) (RGoto nm) J2 eq_refl I) as [Jh3' F3'].
    { cbn [imatch6 imatch4 imatch3]. split; [reflexivity|]. rewrite Z.sub_0_r. exists lab. rewrite Ec2, zlen_snoc. replace (zlen (g_code g1) + 1 - (0 + 1)) with (zlen (g_code g1)) by lia.
      split; [apply znth_app_last|]. split; [exact T2 | exact M1]. }
    exists lmap. split; [exact Jh3'|]. split; [eapply Ext_trans; [exact X0|]; eapply Ext_trans; eauto|].
    split; [|apply nil_ex]. eapply FExt_trans; [exact F0|]. eapply FExt_trans; [exact F1 | exact F3'].
  Qed.

  Lemma N6_stop sl sf stok a b : IHbody6 (Node N_STOP sl sf stok a b).
  Proof.
    intros g s lmap g' s' HJ HG HD HF.
    rewrite dvoid_stop in HD. inversion HD; subst g'; clear HD.
    rewrite flat_stmt_eq in HF. cbn [fs_body] in HF. inversion HF; subst s'; clear HF.
    destruct (L6_site P0 FT LS W g s lmap sl sf HJ) as (J0 & X0 & F0 & A0).
    set (g0 := advance_line g sl sf) in *. set (s0 := move_to s sf sl) in *.
    destruct (L6_emit P0 FT LS W g0 s0 lmap 0 IHalt J0) as [J1 X1].
    destruct (L6_bemit P0 FT LS W (emit g0 IHalt) s0 lmap (0 + 1) RStop J1 eq_refl I) as [J2 F2].
    { cbn [imatch6 imatch4 imatch3 emit upd_code g_code]. split; [reflexivity|]. rewrite Z.sub_0_r. rewrite zlen_snoc. replace (zlen (g_code g0) + 1 - (0 + 1)) with (zlen (g_code g0)) by lia.
      apply znth_app_last. }
    exists lmap. split; [exact J2|]. split; [eapply Ext_trans; eauto|]. split; [eapply FExt_trans; eauto | apply nil_ex].
  Qed.

  Lemma vmatch6_ext g g2 v tgt q S n : Ext g g2 ->
    vmatch6 (RMof (gks g)) (g_code g) FT v tgt q S n -> vmatch6 (RMof (gks g2)) (g_code g2) FT v tgt q S n.
  Proof.
    intros X H. pose proof X as (_ & [blk Eb] & _). rewrite Eb.
    exact (vmatch6_mono _ _ _ _ FT FT _ _ _ _ _ _ (Ext_rm _ _ X) (fun j0 x0 H0 => H0) (fun x0 Hx0 => Hx0) H).
  Qed.

  Lemma N6_if il if_ itok ql qf qtok l3 f3 y c1 c2 tcn l4 f4 ctok c3 c4 gl gf gtok el ef nm ec1 ec2 r0 :
    tcn = N_NUMBER -> lexable y = true ->
    IHbody6 (Node N_IF il if_ itok
               (Some (Node N_EQ ql qf qtok (Some (Node N_NAME l3 f3 y c1 c2)) (Some (Node tcn l4 f4 ctok c3 c4))))
               (Some (Node N_GOTO gl gf gtok (Some (Node N_NAME el ef nm ec1 ec2)) r0))).
  Proof.
    intros -> Hy g s lmap g' s' HJ HG HD HF.
    rewrite dvoid_if in HD. rewrite flat_stmt_eq in HF. cbn [fs_body] in HF. unfold fs_if in HF. cbn [opt_value] in HF.
    destruct (L6_site P0 FT LS W g s lmap il if_ HJ) as (J0 & X0 & F0 & A0).
    set (g0 := advance_line g il if_) in *. set (s0 := move_to s if_ il) in *.
    (* the generator: three temporaries *)
    destruct (L6_tmp P0 FT LS W g0 s0 lmap 0 J0) as (g1 & cond & E1 & J1 & X1 & S1 & TC & _ & _).
    rewrite E1 in HD. cbn [bind] in HD. cbv beta iota in HD.
    destruct (L6_tmp P0 FT LS W g1 s0 lmap 0 J1) as (g2 & op1 & E2 & J2 & X2 & S2 & T1 & (r1 & Z1 & U1) & _).
    rewrite E2 in HD. cbn [bind] in HD. cbv beta iota in HD.
    destruct (L6_tmp P0 FT LS W g2 s0 lmap 0 J2) as (g3 & op2 & E3 & Jh3' & X3 & S3 & T2 & _ & K3).
    rewrite E3 in HD. cbn [bind] in HD. cbv beta iota in HD.
    assert (Hne : op1 <> op2) by (destruct (K3 op1 r1 Z1 U1) as [A _]; exact A).
    cbn [child of_opt bind n_left n_right dispatch_value_opt] in HD.
    (* the two operands *)
    destruct (dispatch_value false (Node N_NAME l3 f3 y c1 c2) op1 g3) as [g4| |] eqn:D4; cbn [bind] in HD; try discriminate.
    destruct (dispatch_value false (Node N_NUMBER l4 f4 ctok c3 c4) op2 g4) as [g5| |] eqn:D5; cbn [bind] in HD; try discriminate.
    cbv zeta in HD.
    destruct (flat_value (Node N_NAME l3 f3 y c1 c2) s0) as [[s1 va]|] eqn:EF1; [|discriminate].
    destruct (flat_value (Node N_NUMBER l4 f4 ctok c3 c4) s1) as [[s2 vb]|] eqn:EF2; [|discriminate].
    cbn [n_tok] in HF. inversion HF; subst s'; clear HF.
    assert (HG3 : GF g3 s0) by (eapply GF_ext; [exact HG | gext | fext]).
    destruct (N6_leaf N_NAME l3 f3 y c1 c2 (or_introl (conj eq_refl Hy)) 0 g3 s0 lmap 0 op1 g4 s1 va Jh3' HG3 D4 EF1)
      as (n1 & [RJ1 RX1 RF1 RL1 RM1 _] & [[_ ->]|[E _]]); [|discriminate E].
    assert (HG4 : GF g4 s1) by (eapply GF_ext; eauto).
    destruct (N6_leaf N_NUMBER l4 f4 ctok c3 c4 (or_intror eq_refl) (0 + n1) g4 s1 lmap (0 + vlen4 (RVar y)) op2 g5 s2 vb RJ1 HG4 D5 EF2)
      as (n2 & [RJ2 RX2 RF2 RL2 RM2 _] & [[E _]|(_ & -> & Hlt)]); [discriminate E|].
    pose proof (strtol_nonneg ctok) as Hc0.
    cbn [vlen4 vlen] in RJ1, RL1, RJ2, RL2.
    pose proof (vmatch6_nonneg _ _ _ _ _ _ _ _ RM1) as Hn1. pose proof (vmatch6_nonneg _ _ _ _ _ _ _ _ RM2) as Hn2.
    destruct (L6_emit P0 FT LS W g5 s2 lmap _ (ITest cond op1 op2) RJ2) as [J6' X6].
    set (g6 := emit g5 (ITest cond op1 op2)) in *.
    cbn [n_tok] in HD.
    destruct (L6_ensure P0 FT LS W g6 s2 lmap _ nm J6') as (g7 & lab & E7 & J7 & X7 & F7 & M7 & C7 & T7 & P7 & K7).
    rewrite E7 in HD. cbn [bind] in HD. cbv beta iota in HD.
    destruct (L6_emit_bp P0 FT LS W g7 _ lmap _ (IJmpC lab cond) J7) as (J8 & X8 & T8).
    set (g8 := emit_backpatched g7 (IJmpC lab cond)) in *.
    assert (Ec8 : g_code g8 = (g_code g5 ++ [ITest cond op1 op2]) ++ [IJmpC lab cond]).
    { change (g_code g8) with (g_code g7 ++ [IJmpC lab cond]). rewrite C7. reflexivity. }
    assert (X18 : Ext g1 g8) by gext. assert (X28 : Ext g2 g8) by gext. assert (X38 : Ext g3 g8) by gext.
    assert (X48 : Ext g4 g8) by gext. assert (X58 : Ext g5 g8) by gext.
    destruct (L6_bemit P0 FT LS W g8 _ lmap (0 + 1 + 1 + 1 + 1) (RIfGoto (RVar y) (RNum (strtol ctok)) nm) J8 eq_refl I) as [J9 F9].
    { cbn [imatch6]. exists op1, op2, cond, lab, n1, n2.
      rewrite C7 in T8. change (g_code g6) with (g_code g5 ++ [ITest cond op1 op2]) in T8. rewrite zlen_snoc in T8.
      rewrite Ec8, !zlen_snoc.
      replace (zlen (g_code g5) + 1 + 1 - (0 + 1 + 1 + 1 + 1) - (0 + n1 + n2)) with (zlen (g_code g3)) by lia.
      split; [lia|]. split; [apply (RT_ext _ _ _ X28); exact T1|].
      split; [apply (RT_ext _ _ _ X38); exact T2|]. split; [apply (RT_ext _ _ _ X18); exact TC|].
      split; [exact Hne|].
      split; [eapply vmatch6_leaf; [left; eauto|]; rewrite <- Ec8; apply (vmatch6_ext _ _ _ _ _ _ _ X48); exact RM1|].
      split; [eapply vmatch6_leaf; [right; eauto|]; rewrite <- Ec8;
              replace (zlen (g_code g3) + 1 + n1) with (zlen (g_code g4)) by lia; apply (vmatch6_ext _ _ _ _ _ _ _ X58); exact RM2|].
      split; [apply znth_app_some; replace (zlen (g_code g3) + 2 + (0 + n1 + n2)) with (zlen (g_code g5)) by lia; apply znth_app_last|].
      split; [replace (zlen (g_code g3) + 3 + (0 + n1 + n2)) with (zlen (g_code g5 ++ [ITest cond op1 op2])) by (rewrite zlen_snoc; lia); apply znth_app_last|].
      split; [replace (zlen (g_code g3) + 3 + (0 + n1 + n2)) with (zlen (g_code g5) + 1) by lia; exact T8 | exact M7]. }
    (* release the temporaries *)
    destruct (L6_rel P0 FT LS W g8 _ lmap 0 cond J9 (RT_ext _ _ _ X18 TC)) as (g9 & E9 & J10 & X9 & S9).
    rewrite E9 in HD. cbn [bind] in HD.
    destruct (L6_rel P0 FT LS W g9 _ lmap 0 op1 J10 (RT_ext _ _ _ X9 (RT_ext _ _ _ X28 T1))) as (g10 & E10 & J11 & X10 & S10).
    rewrite E10 in HD. cbn [bind] in HD.
    destruct (L6_rel P0 FT LS W g10 _ lmap 0 op2 J11 (RT_ext _ _ _ X10 (RT_ext _ _ _ X9 (RT_ext _ _ _ X38 T2)))) as (g11 & E11 & J12 & X11 & S11).
    rewrite E11 in HD. inversion HD; subst g'; clear HD.
    exists lmap. split; [exact J12|]. split; [gext|]. split; [|apply nil_ex].
    eapply FExt_trans; [exact F0|]. eapply FExt_trans; [exact RF1|]. eapply FExt_trans; [exact RF2|]. eapply FExt_trans; [exact F7 | exact F9].
  Qed.


  (* ================================================================================================ *)
  (* the trees of body4 (whatever the layout predicate) and the induction                             *)
  (* ================================================================================================ *)
  Definition ropt6 (r : option node) : Prop := match r with None => True | Some x => body4 ol x = true end.

  Inductive BStmt6 : node -> Prop :=
  | BS6_assign al af atok tgt v :
      leaf_name tgt = true -> value4 v = true -> ol af al v = true ->
      BStmt6 (Node N_ASSIGN al af atok (Some tgt) (Some v))
  | BS6_loop l2 f2 t2 ll lf ltok bound body ml mf mtok e :
      leaf_name bound = true -> leaf_name e = true -> body4 ol body = true ->
      BStmt6 (Node N_SPLIT l2 f2 t2 (Some (Node N_LOOP ll lf ltok (Some bound) (Some body)))
                                   (Some (Node N_MARK ml mf mtok (Some e) None)))
  | BS6_while l2 f2 t2 ll lf ltok bound body ml mf mtok e :
      leaf_name bound = true -> leaf_name e = true -> body4 ol body = true ->
      BStmt6 (Node N_SPLIT l2 f2 t2 (Some (Node N_WHILE ll lf ltok (Some bound) (Some body)))
                                   (Some (Node N_MARK ml mf mtok (Some e) None)))
  | BS6_label l2 f2 t2 ml mf mtok lbl inner :
      leaf_name lbl = true -> body4 ol inner = true ->
      BStmt6 (Node N_SPLIT l2 f2 t2 (Some (Node N_MARK ml mf mtok (Some lbl) None)) (Some inner))
  | BS6_goto gl gf gtok lbl : leaf_name lbl = true -> BStmt6 (Node N_GOTO gl gf gtok (Some lbl) None)
  | BS6_if il if_ itok ql qf qtok id c gl gf gtok lbl :
      leaf_name id = true -> is_number c = true -> leaf_name lbl = true ->
      BStmt6 (Node N_IF il if_ itok (Some (Node N_EQ ql qf qtok (Some id) (Some c))) (Some (Node N_GOTO gl gf gtok (Some lbl) None)))
  | BS6_stop sl sf stok : BStmt6 (Node N_STOP sl sf stok None None).

  Inductive BShape6 : node -> Prop :=
  | BSh6 line file tok st rest : BStmt6 st -> ropt6 rest -> BShape6 (Node N_SPLIT line file tok (Some st) rest).

  Lemma body6_inv n : body4 ol n = true -> BShape6 n.
  Proof.
    intros H. destruct n as [t line file tok l r]. cbn [body4] in H.
    repeat match type of H with
           | context [match ?x with _ => _ end] => is_var x; destruct x; try discriminate H
           end;
      rewrite ?andb_true_iff in H; decompose [and] H;
      (apply BSh6; [|cbn [ropt6]; auto]);
      first [ eapply BS6_assign | eapply BS6_loop | eapply BS6_while | eapply BS6_label | eapply BS6_goto | eapply BS6_if | eapply BS6_stop ];
      auto.
  Qed.

  Lemma joint6 : forall n, all_sub Pjoint6 n.
  Proof.
    apply all_sub_intro. intros t line file tok l r Hl Hr Hs Hlex.
    assert (Sh : t = N_SPLIT /\ exists st, l = Some st /\ BStmt6 st /\ ropt6 r).
    { pose proof (body6_inv _ Hs) as Sh. inversion Sh; subst. split; [reflexivity|]. eauto. }
    destruct Sh as (-> & st & -> & HSt & Hrest). rename r into rest.
    assert (IHr : match rest with Some x => IHbody6 x | None => True end).
    { destruct rest as [rest|]; [|exact I]. cbn [optP] in Hr. apply all_sub_here in Hr.
      assert (Hlr : lexable_names rest = true).
      { cbn [lexable_names] in Hlex. rewrite !andb_true_iff in Hlex. apply Hlex. }
      exact (Hr Hrest Hlr). }
    assert (Hlst : lexable_names st = true).
    { cbn [lexable_names] in Hlex. rewrite !andb_true_iff in Hlex. apply Hlex. }
    apply N6_split; [|exact IHr]. clear IHr Hr Hs Hlex Hrest.
    cbn [optP] in Hl.
    inversion HSt as [al af atok tgt v Hn Hsv Hov E0
                     |l2 f2 t2 ll lf ltok bound body ml mf mtok e Hn He Hsb E0
                     |l2 f2 t2 ll lf ltok bound body ml mf mtok e Hn He Hsb E0
                     |l2 f2 t2 ml mf mtok lbl inner He Hsb E0
                     |gl gf gtok lbl He E0
                     |il if_ itok ql qf qtok id c gl gf gtok lbl Hid Hc He E0
                     |sl sf stok E0]; subst; clear HSt.
    - (* assignment *)
      intros g s lmap g' s' HJ HG HD HF. exists lmap.
      destruct (leaf_name_inv _ Hn) as (lt & ft & x & ->).
      cbn [lexable_names] in Hlst. rewrite !andb_true_iff in Hlst.
      destruct Hlst as [[_ [[Hx _] _]] Hlv].
      eapply N6_assign; eauto.
    - (* LOOP *)
      destruct (leaf_name_inv _ He) as (el & ef & etok & ->).
      cbn [lexable_names] in Hlst. rewrite !andb_true_iff in Hlst.
      destruct Hlst as [[_ [[_ Hlb] Hlbody]] _].
      apply N6_split; [|apply N6_mark].
      intros g s lmap g' s' HJ HG HD HF.
      refine (N6_loop ll lf ltok bound body g s lmap g' s' Hn Hlb _ HJ HG HD HF).
      cbn [all_sub] in Hl. destruct Hl as (_ & (_ & _ & Hb) & _). apply all_sub_here in Hb.
      exact (Hb Hsb Hlbody).
    - (* WHILE *)
      destruct (leaf_name_inv _ He) as (el & ef & etok & ->).
      cbn [lexable_names] in Hlst. rewrite !andb_true_iff in Hlst.
      destruct Hlst as [[_ [[_ Hlb] Hlbody]] _].
      apply N6_split; [|apply N6_mark].
      intros g s lmap g' s' HJ HG HD HF.
      refine (N6_while ll lf ltok bound body g s lmap g' s' Hn Hlb _ HJ HG HD HF).
      cbn [all_sub] in Hl. destruct Hl as (_ & (_ & _ & Hb) & _). apply all_sub_here in Hb.
      exact (Hb Hsb Hlbody).
    - (* label : statement *)
      destruct (leaf_name_inv _ He) as (el & ef & etok & ->).
      cbn [lexable_names] in Hlst. rewrite !andb_true_iff in Hlst.
      destruct Hlst as [[_ _] Hli].
      apply N6_split; [apply N6_mark|].
      cbn [all_sub] in Hl. destruct Hl as (_ & _ & Hb). apply all_sub_here in Hb.
      exact (Hb Hsb Hli).
    - (* GOTO *)
      destruct (leaf_name_inv _ He) as (el & ef & etok & ->). apply N6_goto.
    - (* IF *)
      destruct (leaf_name_inv _ He) as (el & ef & etok & ->).
      destruct (leaf_name_inv _ Hid) as (l3 & f3 & y & ->).
      destruct c as [tcn l4 f4 ctok c3 c4].
      assert (Etc : tcn = N_NUMBER) by (unfold is_number in Hc; cbn [n_type] in Hc; destruct tcn; try discriminate; reflexivity).
      cbn [lexable_names] in Hlst. rewrite !andb_true_iff in Hlst.
      destruct Hlst as [[_ [[_ [[Hy _] _]] _]] _].
      apply N6_if; auto.
    - (* STOP *)
      apply N6_stop.
  Qed.

  Theorem joint_walk6 n : body4 ol n = true -> lexable_names n = true -> IHbody6 n.
  Proof. intros Hs Hl. exact (all_sub_here _ _ (joint6 n) Hs Hl). Qed.
End Walk6.
