(* Properties_C19.v — the theorems that decide property C19 on the model, each stated in full and closed by
   `exact <lemma>`; the lemmas live in the Proofs_*.v files.  Nothing else belongs in this file. *)
From Theo Require Import Base VMModel VMSpec VMStatements Proofs_VM_mem CompiledStatements Regex Tokens Errors Lexer Scan MacroExtract Grammar LR MacroApply Parser VMCheck VMCheckStatements GenModel Compile Gen_Lexer Gen_Consts CompileStatements Proofs_Compiled.
Local Open Scope Z_scope.

Theorem C19_step :
  forall s s' b, counts_ok (prog s) = true ->
    tiled (stack s) (zlen (data s)) -> exec1 s = Ok (s', b) -> tiled (stack s') (zlen (data s')).
Proof. exact C19_step_proof. Qed.
Print Assumptions C19_step.

Theorem C19 :
  forall p h fuel s, counts_ok p = true -> run_hist fuel h (init p) = Ok s ->
    tiled (stack s) (zlen (data s)) /\
    zlen (data s) = sum_sizes (stack s) /\
    zlen (data s) <= zlen (stack s) * max_frame p.
Proof. exact C19_proof. Qed.
Print Assumptions C19.

Theorem C19_refuted_at_pinned :
  exists p n s, counts_ok p = true /\ vm_run_gen cfg_pinned n (init p) = Ok s /\
    zlen (data s) <> sum_sizes (stack s).
Proof. exact C19_refuted_at_pinned_proof. Qed.
Print Assumptions C19_refuted_at_pinned.

Theorem C19_compiled :
  forall files main c h fuel s,
    compile files main = Ok c -> cr_ok c = true -> run_hist fuel h (init (cr_prog c)) = Ok s ->
    tiled (stack s) (zlen (data s)) /\
    zlen (data s) = sum_sizes (stack s) /\
    zlen (data s) <= zlen (stack s) * max_frame (cr_prog c).
Proof. exact C19_compiled_proof. Qed.
Print Assumptions C19_compiled.
