(* Proofs_Sugar0.v — helpers for Proofs_Sugar.v:
   (1) no stream of the pipeline contains a token of kind UNKNOWN (scanner, extraction, macro application);
   (2) list lemmas about desugar / count_sugar (no reference to detectors). *)
From Coq Require Import List ZArith NArith Lia Bool Sorting.Sorted.
From Theo Require Import Base Regex Tokens Errors Lexer Scan MacroExtract Grammar LR MacroApply Parser VMModel GenModel Compile RefSem
                         Gen_Lexer Gen_Consts SpecMacro CompileStatements ApplyStatements MacroStatements
                         ApplyCompleteStatements LocErrStatements AcceptStatements SugarStatements
                         Proofs_Lexer Proofs_Scan Proofs_LexRules Proofs_Front
                         Proofs_Macro Proofs_Apply0 Proofs_Apply Proofs_Loc.
Import ListNotations.
Local Open Scope Z_scope.

Ltac sbi H x Hx := apply bind_ok in H; destruct H as (x & Hx & H).

(* ================================================================================================ *)
(* 1. the scanner never delivers UNKNOWN                                                              *)
(* ================================================================================================ *)
Lemma no_unknown_scan : C14_no_unknown_scan_stmt.
Proof.
  intros files main toks errs H. unfold scan, scan_fuel in H. unfold no_unknown.
  destruct (flookup files main) as [c|] eqn:Ef.
  - apply bind_Ok_inv in H. destruct H as [r [Hr H]]. injection H as Ht He. subst toks.
    destruct (eof_token_shape files main (fst r)) as [fn [l Heof]]. rewrite Heof.
    apply Forall_app. split; [|constructor; [cbn [tk]; discriminate|constructor]].
    eapply (scan_file_forall Gen_Lexer.rules files (fun k => k <> UNKNOWN) (fun _ => True)) in Hr;
      [exact (proj1 Hr) | | | | | ]; try (intros; exact I).
    intros fuel s line k text l' rest HN E. subst k.
    pose proof (gen_no_unknown _ _ _ _ _ _ _ HN) as F. rewrite tk_eqb_refl in F. discriminate.
  - injection H as Ht He. subst toks.
    destruct (eof_token_shape files main []) as [fn [l Heof]]. rewrite Heof.
    constructor; [cbn [tk]; discriminate|constructor].
Qed.

(* ================================================================================================ *)
(* 2. extraction                                                                                      *)
(* ================================================================================================ *)
Lemma incl_no_unknown (l whole : list token) : incl l whole -> no_unknown whole -> no_unknown l.
Proof.
  intros HI NU. unfold no_unknown in *. rewrite Forall_forall in *. intros t Ht. apply NU, HI, Ht.
Qed.

Lemma validate_repl_nu tokens ntt : forall repl x,
  no_unknown repl -> rpost (validate_repl tokens x ntt repl) (fun r => no_unknown (snd r)).
Proof.
  induction repl as [|t rest IH]; intros x NU.
  - cbn [validate_repl]. apply rpost_ok. constructor.
  - inversion NU as [|t' r' Nt Nr]; subst. cbn [validate_repl].
    assert (DEF : forall y, rpost (do r2 <- validate_repl tokens y ntt rest; Ok (fst r2, t :: snd r2))
                    (fun r => no_unknown (snd r))).
    { intros y. eapply rpost_bind; [apply IH; exact Nr|]. intros r2 A. apply rpost_ok. cbn [snd].
      constructor; assumption. }
    destruct (tk t) eqn:K; try apply DEF.
    apply rpost_bind_any. intros [x1 ind]. cbv beta iota.
    destruct ((ind <? 0) || (ntt <=? ind)); [|apply DEF].
    eapply rpost_bind; [apply IH; exact Nr|]. intros r2 A. apply rpost_ok. cbn [snd].
    constructor; [cbn [tk]; discriminate|exact A].
Qed.

Lemma validate_macros_nu tokens : forall ms x,
  Forall (fun m => no_unknown (m_rule m) /\ no_unknown (m_repl m)) ms ->
  rpost (validate_macros tokens x ms)
        (fun r => Forall (fun m => no_unknown (m_rule m) /\ no_unknown (m_repl m)) (snd r)).
Proof.
  induction ms as [|m rest IH]; intros x F.
  - cbn [validate_macros]. apply rpost_ok. constructor.
  - inversion F as [|m' r' [M1 M2] Fr]; subst. cbn [validate_macros].
    eapply rpost_bind; [apply validate_repl_nu; exact M2|]. intros [x1 repl'] A. cbn [snd] in A.
    eapply rpost_bind; [apply IH; exact Fr|]. intros r2 Hr2. apply rpost_ok. cbn [snd].
    constructor; [|exact Hr2]. split; cbn [m_rule m_repl]; assumption.
Qed.

Lemma no_unknown_extract : C09_no_unknown_extract_stmt.
Proof.
  intros toks errs out macros NU H. unfold extract_macros in H.
  sbi H x Hx. sbi H r Hr. inversion H; subst.
  assert (L : linv toks x).
  { apply (xrun_linv toks (4 + length toks)%nat mS (mkX [] [] 0 [])); [|exact Hx].
    split; [intros y []|constructor]. }
  destruct L as [L1 L2]. split.
  - eapply incl_no_unknown; [exact L1|exact NU].
  - apply (validate_macros_nu toks (x_macros x) x); [|exact Hr].
    eapply Forall_impl; [|exact L2]. intros m [M1 M2].
    split; eapply incl_no_unknown; eauto.
Qed.

(* ================================================================================================ *)
(* 3. macro application                                                                               *)
(* ================================================================================================ *)
Lemma instantiate_nu m fl matched pass : forall body repl, instantiate m fl matched pass body = Ok repl ->
  no_unknown body -> Forall no_unknown matched -> no_unknown repl.
Proof.
  induction body as [|c rest IH]; intros repl H NB NM.
  - cbn [instantiate] in H. inversion H; subst. constructor.
  - inversion NB as [|c' r' Nc Nr]; subst. rewrite instantiate_cons in H. sbi H more Hmore.
    pose proof (IH _ Hmore Nr NM) as NMore.
    assert (DEF : Ok (c :: more) = Ok repl -> no_unknown repl).
    { intros E. inversion E; subst repl. constructor; assumption. }
    destruct (tk c); try (apply DEF; exact H).
    + sbi H slot Hslot. sbi H ins Hins. inversion H; subst repl.
      apply of_opt_ok in Hins. apply znth_in in Hins. rewrite Forall_forall in NM.
      apply Forall_app. split; [apply NM; exact Hins|exact NMore].
    + inversion H; subst repl. constructor; [cbn [tk]; discriminate|exact NMore].
Qed.

Lemma get_replacement_nu m r pass repl : get_replacement m r pass = Ok repl ->
  no_unknown (m_repl m) -> Forall no_unknown (r_matched r) -> no_unknown repl.
Proof.
  unfold get_replacement. intros H NB NM. destruct (m_repl m) as [|t0 body] eqn:E.
  - inversion H; subst. constructor.
  - eapply instantiate_nu; eassumption.
Qed.

Lemma no_unknown_firstn n l : no_unknown l -> no_unknown (firstn n l).
Proof. intros H. eapply incl_no_unknown; [|exact H]. intros x Hx. eapply in_firstn; exact Hx. Qed.
Lemma no_unknown_skipn n l : no_unknown l -> no_unknown (skipn n l).
Proof. intros H. eapply incl_no_unknown; [|exact H]. intros x Hx. eapply in_skipn; exact Hx. Qed.

Section NU.
  Variable defs : list macrodef.
  Hypothesis NDefs : Forall (fun m => no_unknown (m_repl m)) defs.

  Lemma try_bin_nu ds cur pass out : Forall (dok defs) ds -> no_unknown cur ->
    try_bin false ds cur pass = Ok (Some out) -> no_unknown out.
  Proof.
    intros FD NC H. apply try_bin_some in H.
    destruct H as (x & rest & d & r & repl & HA & HM & HR & HL & ->).
    destruct (min_element_spec x rest) as [HI _]. rewrite HM in HI.
    destruct (detect_all_sound _ _ _ HA d r HI) as [Hd HD].
    rewrite Forall_forall in FD. pose proof (FD d Hd) as DK. unfold dok in DK.
    unfold detect in HD. apply detect_from_in in HD.
    apply Forall_app. split; [apply no_unknown_firstn; exact NC|].
    apply Forall_app. split; [|apply no_unknown_skipn; exact NC].
    eapply get_replacement_nu; [exact HR| |].
    - rewrite Forall_forall in NDefs. apply NDefs. exact DK.
    - eapply Forall_impl; [|exact HD]. intros l Hl. exact (incl_no_unknown l cur Hl NC).
  Qed.

  Lemma try_bins_nu : forall bins cur pass out, bins_dok defs bins -> no_unknown cur ->
    try_bins false bins cur pass = Ok (Some out) -> no_unknown out.
  Proof.
    induction bins as [|[k ds] bins IH]; intros cur pass out GB NC H.
    - cbn [try_bins] in H. discriminate.
    - rewrite try_bins_cons in H. sbi H r Hr. destruct r as [i|].
      + inversion H; subst i. eapply try_bin_nu; [|exact NC|exact Hr]. apply (GB k ds). left; reflexivity.
      + eapply IH; [|exact NC|exact H]. intros p l Hp. apply (GB p l). right; exact Hp.
  Qed.

  Lemma pass_loop_nu bins : bins_dok defs bins -> forall n cur pass out ch, no_unknown cur ->
    pass_loop false n bins cur pass = Ok (out, ch) -> no_unknown out.
  Proof.
    intros GB. induction n as [|k IH]; intros cur pass out ch NC H.
    - cbn [pass_loop] in H. inversion H; subst. exact NC.
    - rewrite pass_loop_S in H. sbi H r Hr. destruct r as [cur'|].
      + pose proof (try_bins_nu _ _ _ _ GB NC Hr) as NC'.
        destruct k as [|k'].
        * inversion H; subst. exact NC'.
        * eapply IH; [exact NC'|exact H].
      + inversion H; subst. exact NC.
  Qed.
End NU.

Lemma no_unknown_apply : C09_no_unknown_apply_stmt.
Proof.
  intros input defs passes errs out NI ND H.
  apply apply_macros_inv in H. destruct H as (ds & errs0 & us & changed & Hds & Hsu & Hpl & _).
  pose proof (make_detectors_dok _ _ Hds) as D1.
  pose proof (split_usable_dok defs _ _ _ Hsu D1) as D2.
  assert (GB : bins_dok defs (rev (fold_left add_bin us []))).
  { intros p l HI. apply in_rev in HI. revert p l HI. apply fold_add_bin_dok; [exact D2|]. intros p l []. }
  exact (pass_loop_nu defs ND _ GB passes input 0 out changed NI Hpl).
Qed.

(* ================================================================================================ *)
(* 4. desugar and count_sugar on lists                                                                *)
(* ================================================================================================ *)
(* the macro whose use starts the list, if any *)
Definition sug (l : list token) : option macrodef :=
  match l with a :: b :: c :: _ => is_sugar a b c | _ => None end.

Lemma desugar_cons3 a b c rest :
  desugar (a :: b :: c :: rest) =
  match is_sugar a b c with Some m => sugar_body m a c ++ desugar rest | None => a :: desugar (b :: c :: rest) end.
Proof. reflexivity. Qed.

Lemma count_cons3 a b c rest :
  count_sugar (a :: b :: c :: rest) =
  match is_sugar a b c with Some _ => S (count_sugar rest) | None => count_sugar (b :: c :: rest) end.
Proof. reflexivity. Qed.

Lemma desugar_miss a l : sug (a :: l) = None -> desugar (a :: l) = a :: desugar l.
Proof.
  destruct l as [|b [|c rest]]; try reflexivity. cbn [sug]. intros H. rewrite desugar_cons3, H. reflexivity.
Qed.

Lemma count_miss a l : sug (a :: l) = None -> count_sugar (a :: l) = count_sugar l.
Proof.
  destruct l as [|b [|c rest]]; try reflexivity. cbn [sug]. intros H. rewrite count_cons3, H. reflexivity.
Qed.

Lemma desugar_hit a b c rest m : is_sugar a b c = Some m ->
  desugar (a :: b :: c :: rest) = sugar_body m a c ++ desugar rest.
Proof. intros H. rewrite desugar_cons3, H. reflexivity. Qed.

Lemma count_hit a b c rest m : is_sugar a b c = Some m ->
  count_sugar (a :: b :: c :: rest) = S (count_sugar rest).
Proof. intros H. rewrite count_cons3, H. reflexivity. Qed.

(* no use of a sugar macro starts inside the prefix pre of pre ++ l *)
Fixpoint nosug_prefix (pre l : list token) : Prop :=
  match pre with
  | [] => True
  | x :: pre' => sug (x :: pre' ++ l) = None /\ nosug_prefix pre' l
  end.

Lemma desugar_prefix : forall pre l, nosug_prefix pre l -> desugar (pre ++ l) = pre ++ desugar l.
Proof.
  induction pre as [|x pre IH]; intros l H; [reflexivity|]. destruct H as [H0 H1].
  cbn [app]. rewrite desugar_miss by exact H0. rewrite IH by exact H1. reflexivity.
Qed.

Lemma count_prefix : forall pre l, nosug_prefix pre l -> count_sugar (pre ++ l) = count_sugar l.
Proof.
  induction pre as [|x pre IH]; intros l H; [reflexivity|]. destruct H as [H0 H1].
  cbn [app]. rewrite count_miss by exact H0. apply IH. exact H1.
Qed.

Lemma nosug_prefix_index : forall pre l,
  (forall i, (i < length pre)%nat -> sug (skipn i (pre ++ l)) = None) -> nosug_prefix pre l.
Proof.
  induction pre as [|x pre IH]; intros l H; [exact I|]. split.
  - apply (H 0%nat). cbn [length]. lia.
  - apply IH. intros i Hi. apply (H (S i)). cbn [length]. lia.
Qed.

(* replacing what follows the prefix by something that starts with two inert tokens *)
Lemma is_sugar_b_not a b c : tk b <> NV_ID -> is_sugar a b c = None.
Proof.
  intros H. unfold is_sugar. generalize (macro_for (ttext b)). intros o.
  destruct (tk a); try reflexivity. destruct (tk b); try reflexivity. congruence.
Qed.

Lemma is_sugar_c_not a b c : tk c <> INT -> is_sugar a b c = None.
Proof.
  intros H. unfold is_sugar. generalize (macro_for (ttext b)). intros o.
  destruct (tk a); try reflexivity. destruct (tk b); try reflexivity.
  destruct (tk c); try reflexivity. congruence.
Qed.

Lemma is_sugar_a_not a b c : tk a <> ID -> is_sugar a b c = None.
Proof.
  intros H. unfold is_sugar. generalize (macro_for (ttext b)). intros o.
  destruct (tk a); try reflexivity. congruence.
Qed.

Lemma nosug_prefix_change : forall pre l1 t1 t2 l2,
  nosug_prefix pre l1 -> tk t1 <> NV_ID -> tk t1 <> INT -> tk t2 <> INT ->
  nosug_prefix pre (t1 :: t2 :: l2).
Proof.
  induction pre as [|x pre IH]; intros l1 t1 t2 l2 H N1 N2 N3; [exact I|]. destruct H as [H0 H1].
  split; [|eapply IH; eassumption].
  destruct pre as [|y [|z pre]]; cbn [app sug] in *.
  - apply is_sugar_b_not. exact N1.
  - apply is_sugar_c_not. exact N2.
  - exact H0.
Qed.

(* the whole stream contains no use *)
Lemma desugar_none l : nosug_prefix l [] -> desugar l = l /\ count_sugar l = 0%nat.
Proof.
  intros H. pose proof (desugar_prefix l [] H) as A. pose proof (count_prefix l [] H) as B.
  rewrite app_nil_r in A, B. cbn [desugar count_sugar] in A, B. rewrite app_nil_r in A. split; assumption.
Qed.

(* streams that end with the end-of-file token: an INT token is never the last one *)
Lemma ends_eof_skipn : forall n l, ends_eof l -> ends_eof (skipn n l).
Proof.
  induction n as [|n IH]; intros l H; [exact H|]. destruct l as [|x l]; [exact H|].
  cbn [skipn]. apply IH. eapply ends_eof_tl; exact H.
Qed.

Lemma ends_eof_follow a b c rest : ends_eof (a :: b :: c :: rest) -> tk c <> T_EOF -> rest <> [].
Proof.
  intros H N E. subst rest. apply ends_eof_tl, ends_eof_tl in H.
  destruct H as [H|(pre & e & E & K)]; [discriminate|].
  destruct pre as [|y pre]; cbn in E; inversion E; subst; [contradiction|].
  destruct pre; discriminate.
Qed.

Lemma is_sugar_kinds a b c m : is_sugar a b c = Some m -> tk a = ID /\ tk b = NV_ID /\ tk c = INT.
Proof.
  unfold is_sugar. generalize (macro_for (ttext b)). intros o.
  destruct (tk a); try discriminate. destruct (tk b); try discriminate.
  destruct (tk c); try discriminate. auto.
Qed.
