(* Proofs_Gen0.v — helper lemmas for Proofs_Gen.v: ordered association lists with insertion and
   removal, vectors, unfolding lemmas of the generator, and the decomposition of every run of the
   dispatch functions into primitive steps.  Nothing is assumed. *)
From Coq Require Import List ZArith NArith Lia Bool Sorting.Sorted.
From Theo Require Import Base Regex Tokens Errors Lexer Scan MacroExtract Grammar LR MacroApply Parser VMModel VMSpec VMCheck GenModel Compile Gen_Lexer Gen_Consts CompileStatements Proofs_VM_dbg.
Import ListNotations.
Local Open Scope Z_scope.

(* ================================================================================================ *)
(* 1. ordered association lists                                                                     *)
(* ================================================================================================ *)
Section Assoc2.
  Context {K : Type} (ltb : K -> K -> bool).
  Hypothesis keqb_eq : forall a b, keqb ltb a b = true <-> a = b.
  Hypothesis ltb_trans : forall a b c, ltb a b = true -> ltb b c = true -> ltb a c = true.

  Definition ksorted {V} (m : list (K * V)) : Prop :=
    StronglySorted (fun x y => ltb (fst x) (fst y) = true) m.

  Lemma keqb_refl a : keqb ltb a a = true.
  Proof. apply keqb_eq; reflexivity. Qed.

  Lemma lt_irrefl a : ltb a a = false.
  Proof. exact (ltb_irrefl ltb keqb_eq a). Qed.

  Lemma alookup_ainsert {V} (m : list (K * V)) k v k' :
    alookup ltb (ainsert ltb m k v) k' = if keqb ltb k' k then Some v else alookup ltb m k'.
  Proof.
    induction m as [|[k0 v0] t IH]; cbn [ainsert alookup]; [reflexivity|].
    destruct (ltb k k0) eqn:E1; [reflexivity|].
    destruct (ltb k0 k) eqn:E2; cbn [alookup].
    - rewrite IH. destruct (keqb ltb k' k0) eqn:E3; destruct (keqb ltb k' k) eqn:E4; auto.
      apply keqb_eq in E3, E4. subst. rewrite lt_irrefl in E2. discriminate.
    - assert (k = k0) by (apply keqb_eq; unfold keqb; rewrite E1, E2; reflexivity). subst k0.
      destruct (keqb ltb k' k); reflexivity.
  Qed.

  Lemma in_ainsert {V} (m : list (K * V)) k v x : In x (ainsert ltb m k v) -> x = (k, v) \/ In x m.
  Proof.
    induction m as [|[k0 v0] t IH]; cbn [ainsert In]; [intros [H|[]]; auto|].
    destruct (ltb k k0); cbn [In]; [intros [H|[H|H]]; auto|].
    destruct (ltb k0 k); cbn [In].
    - intros [H|H]; auto. apply IH in H. tauto.
    - intros [H|H]; auto.
  Qed.

  Lemma sorted_ainsert {V} (m : list (K * V)) k v : ksorted m -> ksorted (ainsert ltb m k v).
  Proof.
    unfold ksorted. induction 1 as [|[k0 v0] t HS IH HF]; cbn [ainsert].
    - constructor; constructor.
    - destruct (ltb k k0) eqn:E1.
      + constructor; [constructor; auto|]. constructor; [exact E1|].
        rewrite Forall_forall in *. intros y Hy. cbn [fst]. eapply ltb_trans; [exact E1|].
        apply (HF y Hy).
      + destruct (ltb k0 k) eqn:E2.
        * constructor; auto. rewrite Forall_forall in *. intros y Hy.
          apply in_ainsert in Hy. destruct Hy as [->|Hy]; [exact E2 | apply HF; auto].
        * assert (k = k0) by (apply keqb_eq; unfold keqb; rewrite E1, E2; reflexivity). subst k0.
          constructor; auto.
  Qed.

  Lemma alookup_above {V} (t : list (K * V)) k :
    Forall (fun y => ltb k (fst y) = true) t -> alookup ltb t k = None.
  Proof.
    induction 1 as [|[k0 v0] t H HF IH]; cbn [alookup]; [reflexivity|].
    cbn [fst] in H. unfold keqb. rewrite H. cbn. exact IH.
  Qed.

  Lemma alookup_aremove {V} (m : list (K * V)) k k' : ksorted m ->
    alookup ltb (aremove ltb m k) k' = if keqb ltb k' k then None else alookup ltb m k'.
  Proof.
    unfold ksorted. induction 1 as [|[k0 v0] t HS IH HF]; cbn [aremove alookup].
    - destruct (keqb ltb k' k); reflexivity.
    - destruct (keqb ltb k k0) eqn:E.
      + apply keqb_eq in E. subst k0. destruct (keqb ltb k' k) eqn:E2; [|reflexivity].
        apply keqb_eq in E2. subst k'. apply alookup_above. exact HF.
      + cbn [alookup]. rewrite IH. destruct (keqb ltb k' k0) eqn:E3; destruct (keqb ltb k' k) eqn:E4; auto.
        apply keqb_eq in E3, E4. subst. rewrite keqb_refl in E. discriminate.
  Qed.

  Lemma in_aremove {V} (m : list (K * V)) k x : In x (aremove ltb m k) -> In x m.
  Proof.
    induction m as [|[k0 v0] t IH]; cbn [aremove In]; [tauto|].
    destruct (keqb ltb k k0); cbn [In]; [auto|]. intros [H|H]; auto.
  Qed.

  Lemma sorted_aremove {V} (m : list (K * V)) k : ksorted m -> ksorted (aremove ltb m k).
  Proof.
    unfold ksorted. induction 1 as [|[k0 v0] t HS IH HF]; cbn [aremove]; [constructor|].
    destruct (keqb ltb k k0); auto. constructor; auto.
    rewrite Forall_forall in *. intros y Hy. apply in_aremove in Hy. auto.
  Qed.

  Lemma in_sorted_alookup {V} (m : list (K * V)) k v : ksorted m -> In (k, v) m -> alookup ltb m k = Some v.
  Proof.
    unfold ksorted. induction 1 as [|[k0 v0] t HS IH HF]; cbn [In alookup]; [tauto|].
    intros [H|H].
    - inversion H; subst. rewrite keqb_refl. reflexivity.
    - destruct (keqb ltb k k0) eqn:E; [|auto].
      apply keqb_eq in E. subst k0. rewrite Forall_forall in HF. specialize (HF _ H). cbn [fst] in HF.
      rewrite lt_irrefl in HF. discriminate.
  Qed.

  Lemma in_keys_ainsert {V} (m : list (K * V)) k v x :
    In x (map fst (ainsert ltb m k v)) -> x = k \/ In x (map fst m).
  Proof.
    rewrite !in_map_iff. intros [e [E H]]. apply in_ainsert in H. destruct H as [->|H]; [left; auto|].
    right. exists e; auto.
  Qed.

  Lemma in_keys_aremove {V} (m : list (K * V)) k x :
    In x (map fst (aremove ltb m k)) -> In x (map fst m).
  Proof.
    rewrite !in_map_iff. intros [e [E H]]. apply in_aremove in H. exists e; auto.
  Qed.
End Assoc2.

Lemma str_keqb_eq a b : keqb str_ltb a b = true <-> a = b.
Proof.
  unfold keqb. split.
  - rewrite andb_true_iff, !negb_true_iff. intros [H1 H2]. apply str_ltb_tri; auto.
  - intros ->. rewrite str_ltb_irrefl. reflexivity.
Qed.

Lemma z_ltb_trans a b c : z_ltb a b = true -> z_ltb b c = true -> z_ltb a c = true.
Proof. unfold z_ltb. rewrite !Z.ltb_lt. lia. Qed.

(* ================================================================================================ *)
(* 2. vectors                                                                                       *)
(* ================================================================================================ *)
Lemma znth_some_range {A} (l : list A) i x : znth l i = Some x -> 0 <= i < zlen l.
Proof.
  unfold znth, zlen. destruct (Z.ltb_spec i 0) as [Hi|Hi]; [discriminate|]. intros Hn.
  assert (Hs : nth_error l (Z.to_nat i) <> None) by congruence. apply nth_error_Some in Hs. lia.
Qed.

Lemma znth_in_range {A} (l : list A) i : 0 <= i < zlen l -> exists x, znth l i = Some x.
Proof.
  unfold znth, zlen. intros H. destruct (Z.ltb_spec i 0); [lia|].
  destruct (nth_error l (Z.to_nat i)) eqn:E; [eauto|]. apply nth_error_None in E. lia.
Qed.

Lemma zlen_app {A} (l l' : list A) : zlen (l ++ l') = zlen l + zlen l'.
Proof. unfold zlen. rewrite app_length. lia. Qed.

Lemma zlen_nonneg {A} (l : list A) : 0 <= zlen l.
Proof. unfold zlen. lia. Qed.

Lemma znth_app_l {A} (l l' : list A) i : i < zlen l -> znth (l ++ l') i = znth l i.
Proof.
  unfold znth, zlen. intros H. destruct (Z.ltb_spec i 0); [reflexivity|].
  apply nth_error_app1. lia.
Qed.

Lemma znth_app_last {A} (l : list A) x : znth (l ++ [x]) (zlen l) = Some x.
Proof.
  unfold znth, zlen. destruct (Z.ltb_spec (Z.of_nat (length l)) 0); [lia|].
  rewrite Nat2Z.id. rewrite nth_error_app2 by lia. rewrite Nat.sub_diag. reflexivity.
Qed.

Lemma znth_snoc_inv {A} (l : list A) x i y : znth (l ++ [x]) i = Some y ->
  (i < zlen l /\ znth l i = Some y) \/ (i = zlen l /\ y = x).
Proof.
  intros H. pose proof (znth_some_range _ _ _ H) as R. rewrite zlen_app in R. cbn in R.
  destruct (Z.eq_dec i (zlen l)) as [->|Hn].
  - rewrite znth_app_last in H. right; split; congruence.
  - left. assert (i < zlen l) by (unfold zlen in *; cbn in R; lia). split; auto.
    rewrite znth_app_l in H; auto.
Qed.

Lemma rev_cons_inv {A} (l : list A) x r : rev l = x :: r -> l = rev r ++ [x].
Proof. intros H. rewrite <- (rev_involutive l), H. reflexivity. Qed.

Lemma zlen_map {A B} (f : A -> B) l : zlen (map f l) = zlen l.
Proof. unfold zlen. rewrite map_length. reflexivity. Qed.

Lemma map_upd_nat {A B} (f : A -> B) (l : list A) : forall n x,
  map f (upd_nat l n x) = upd_nat (map f l) n (f x).
Proof. induction l as [|h t IH]; intros [|n] x; cbn; auto. rewrite IH. reflexivity. Qed.

Lemma upd_nat_same {A} (l : list A) : forall n x, nth_error l n = Some x -> upd_nat l n x = l.
Proof.
  induction l as [|h t IH]; intros [|n] x; cbn; auto; try discriminate.
  - congruence.
  - intros H. rewrite IH; auto.
Qed.

Lemma zupd_inv {A} (l l' : list A) i x : zupd l i x = Some l' ->
  0 <= i < zlen l /\ l' = upd_nat l (Z.to_nat i) x.
Proof.
  unfold zupd, zlen. destruct ((0 <=? i) && (i <? Z.of_nat (length l))) eqn:E; [|discriminate].
  apply andb_true_iff in E. destruct E as [E1 E2]. apply Z.leb_le in E1. apply Z.ltb_lt in E2.
  intros H. inversion H. split; [lia | reflexivity].
Qed.

Lemma zupd_some {A} (l : list A) i x : 0 <= i < zlen l -> zupd l i x = Some (upd_nat l (Z.to_nat i) x).
Proof.
  unfold zupd, zlen. intros H. destruct (Z.leb_spec 0 i); [|lia].
  destruct (Z.ltb_spec i (Z.of_nat (length l))); [|lia]. reflexivity.
Qed.

Lemma upd_nat_length {A} (l : list A) : forall n x, length (upd_nat l n x) = length l.
Proof. induction l as [|h t IH]; intros [|n] x; cbn; auto. Qed.

Lemma Forall2_upd_nat {A} (R : A -> A -> Prop) (l : list A) : (forall z, R z z) ->
  forall n x y, nth_error l n = Some x -> R x y -> Forall2 R l (upd_nat l n y).
Proof.
  intros Hr. induction l as [|h t IH]; intros [|n] x y H HR; cbn in *; try discriminate.
  - inversion H; subst. constructor; auto. clear - Hr. induction t; constructor; auto.
  - constructor; auto. eapply IH; eauto.
Qed.

Lemma Forall_upd_nat {A} (P : A -> Prop) (l : list A) : forall n y, Forall P l -> P y -> Forall P (upd_nat l n y).
Proof.
  induction l as [|h t IH]; intros [|n] y H Hy; cbn; auto; inversion H; subst; constructor; auto.
Qed.

Lemma Forall_removelast {A} (P : A -> Prop) (l : list A) : Forall P l -> Forall P (removelast l).
Proof.
  induction 1 as [|h t H HF IH]; cbn; [constructor|]. destruct t; [constructor|]. constructor; auto.
Qed.

(* ================================================================================================ *)
(* 3. inversion tactics for the monad                                                               *)
(* ================================================================================================ *)
Lemma bind_ok {A B} (r : result A) (f : A -> result B) a : r = Ok a -> bind r f = f a.
Proof. intros ->. reflexivity. Qed.

Ltac binv H :=
  repeat (cbv beta iota in H;
    match type of H with
    | bind ?r ?f = Ok _ =>
        let a := fresh "a" in let H1 := fresh "H" in
        apply bind_inv in H; destruct H as [a [H1 H]];
        try (apply of_opt_inv in H1)
    | (let '(x, y) := ?e in _) = Ok _ =>
        first [ is_var e; destruct e as [? ?]
              | let E := fresh "E" in destruct e as [? ?] eqn:E ]
    end).

(* ================================================================================================ *)
(* 4. the top level of gen                                                                          *)
(* ================================================================================================ *)
Definition ginit : gstate :=
  push_symbols (emit (mkGS [] [] [] [] [] [] [] [] [] 0 root_ctx root_line) (IPrepare (-1) (-1) 0)) name_root.

Definition gen_body (cfg : cfgen) (parsed_ok : bool) (perrs : list serr) (root : option node) : result gstate :=
  if negb parsed_ok then
    Ok (fold_left (fun g e => verr g T_PARSE_ERROR (se_kind e) (se_file e) (se_line e)) perrs ginit)
  else match root with
       | None => Ok ginit
       | Some n => dispatch_void (cg_neg cfg) (cg_pb cfg) (cg_args cfg) n ginit
       end.

Definition gen_result (g6 : gstate) : genresult :=
  mkGenRes (match g_errs g6 with [] => true | _ => false end) (g_errs g6)
           (mkProg (g_code g6) (g_maps g6) (g_pb g6) (g_li g6)).

Lemma gen_gen_inv cfg ok perrs root r : gen_gen cfg ok perrs root = Ok r ->
  exists g3 g4 p i0 c0 g6,
    gen_body cfg ok perrs root = Ok g3 /\
    pop_symbols g3 0 = Ok g4 /\
    alookup str_ltb (g_funcs g4) name_root = Some p /\
    znth (g_code g4) 0 = Some i0 /\
    zupd (g_code g4) 0 (mkI (iop i0) (p_stack_size p) (p_mi p) (ic i0)) = Some c0 /\
    backpatch (emit (upd_code g4 c0) IHalt) = Ok g6 /\
    r = gen_result g6.
Proof.
  unfold gen_gen. intros H. fold ginit in H.
  change (bind (gen_body cfg ok perrs root) (fun g3 =>
            do g4 <- pop_symbols g3 0;
            do p <- of_opt ub_index (alookup str_ltb (g_funcs g4) name_root);
            do i0 <- of_opt ub_index (znth (g_code g4) 0);
            do c0 <- of_opt ub_index (zupd (g_code g4) 0 (mkI (iop i0) (p_stack_size p) (p_mi p) (ic i0)));
            do g6 <- backpatch (emit (upd_code g4 c0) IHalt);
            Ok (gen_result g6)) = Ok r) in H.
  binv H. inversion H; subst. do 6 eexists. repeat split; eauto.
Qed.

Lemma gen_gen_ok cfg ok perrs root g3 g4 p i0 c0 g6 :
    gen_body cfg ok perrs root = Ok g3 ->
    pop_symbols g3 0 = Ok g4 ->
    alookup str_ltb (g_funcs g4) name_root = Some p ->
    znth (g_code g4) 0 = Some i0 ->
    zupd (g_code g4) 0 (mkI (iop i0) (p_stack_size p) (p_mi p) (ic i0)) = Some c0 ->
    backpatch (emit (upd_code g4 c0) IHalt) = Ok g6 ->
    gen_gen cfg ok perrs root = Ok (gen_result g6).
Proof.
  intros H1 H2 H3 H4 H5 H6. unfold gen_gen. fold ginit.
  change (bind (gen_body cfg ok perrs root) (fun g3 =>
            do g4 <- pop_symbols g3 0;
            do p <- of_opt ub_index (alookup str_ltb (g_funcs g4) name_root);
            do i0 <- of_opt ub_index (znth (g_code g4) 0);
            do c0 <- of_opt ub_index (zupd (g_code g4) 0 (mkI (iop i0) (p_stack_size p) (p_mi p) (ic i0)));
            do g6 <- backpatch (emit (upd_code g4 c0) IHalt);
            Ok (gen_result g6)) = Ok (gen_result g6)).
  rewrite H1. cbn [bind]. rewrite H2. cbn [bind]. rewrite H3. cbn [bind of_opt].
  rewrite H4. cbn [bind of_opt]. rewrite H5. cbn [bind of_opt]. rewrite H6. reflexivity.
Qed.

(* ================================================================================================ *)
(* 5. unfolding lemmas for the dispatch functions                                                   *)
(* ================================================================================================ *)
Definition call_args (dv : node -> Z -> gstate -> result gstate) :=
  fix call_args (a : node) (acc : gstate * list Z) {struct a} : result (gstate * list Z) :=
    match a with
    | Node N_SPLIT _ _ _ al ar =>
        do acc1 <- match al with None => Ok acc | Some x => call_args x acc end;
        match ar with None => Ok acc1 | Some x => call_args x acc1 end
    | leaf =>
        do rt <- fetch_temporary (fst acc); let '(g1, tmp) := rt in
        do g2 <- dv leaf tmp g1;
        Ok (g2, snd acc ++ [tmp])
    end.

Definition call_args_o dv (o : option node) (acc : gstate * list Z) :=
  match o with None => Ok acc | Some x => call_args dv x acc end.

Definition call_const (l r : option node) (arglocs : list Z) : result (option str) :=
  if Nat.eqb (length arglocs) 2 then
    do rn <- child r;
    do rl <- child (n_left rn);
    match n_type rl with
    | N_NAME =>
        do rr <- child (n_right rn);
        do rrl <- child (n_left rr);
        Ok (match n_type rrl with N_NUMBER => Some (n_tok rrl) | _ => None end)
    | _ => Ok None
    end
  else Ok None.

Definition call_plain (g1 : gstate) (arglocs : list Z) (funcname : str) (tgt : Z) : result gstate :=
  match alookup str_ltb (g_funcs g1) funcname with
  | None => Ok (err g1 T_UNKNOWN_PROGRAM_NAME e_unknown_name)
  | Some p =>
      if negb (p_argnum p =? zlen arglocs) then Ok (err g1 T_ARGSIZE_MISMATCH e_argsize)
      else
        let g2 := emit g1 (IPrepare (p_stack_size p) (p_mi p) tgt) in
        do g3 <- emit_args g2 arglocs 0;
        Ok (emit g3 (IExec (p_ind p)))
  end.

Definition call_tail (legacy_neg : bool) (l r : option node) (tgt : Z) (ra : gstate * list Z) : result gstate :=
  let '(g1, arglocs) := ra in
  do ln <- child l;
  let funcname := n_tok ln in
  do rco <- call_const l r arglocs;
  match rco, str_eqb funcname name_INC || str_eqb funcname name_DEC with
  | Some ctok, true =>
      let cs := strToIntSilent_gen ctok in
      do a0 <- of_opt ub_index (znth arglocs 0);
      if str_eqb funcname name_INC then Ok (emit g1 (IAdd tgt a0 cs))
      else
        if legacy_neg && (cs =? INT_MIN) then UB ub_overflow
        else Ok (emit g1 (IAdd tgt a0 (wrap_int (- cs))))
  | _, _ => call_plain g1 arglocs funcname tgt
  end.

Lemma dv_call ln line file tok l r tgt g :
  dispatch_value ln (Node N_CALL line file tok l r) tgt g =
  do ra <- call_args_o (dispatch_value ln) r (advance_line g line file, []);
  call_tail ln l r tgt ra.
Proof. destruct r; reflexivity. Qed.

Lemma call_args_split dv line file tok al ar acc :
  call_args dv (Node N_SPLIT line file tok al ar) acc =
  do acc1 <- call_args_o dv al acc; call_args_o dv ar acc1.
Proof. reflexivity. Qed.

Lemma call_args_leaf dv a acc : n_type a <> N_SPLIT ->
  call_args dv a acc =
  do rt <- fetch_temporary (fst acc); let '(g1, tmp) := rt in
  do g2 <- dv a tmp g1;
  Ok (g2, snd acc ++ [tmp]).
Proof. destruct a as [t line file tok l r]. destruct t; cbn [n_type]; intros H; try reflexivity. congruence. Qed.

Lemma dv_name ln line file tok l r tgt g :
  dispatch_value ln (Node N_NAME line file tok l r) tgt g =
  do rv <- fetch_variable (advance_line g line file) tok; let '(g1, src) := rv in
  Ok (emit g1 (IAdd tgt src 0)).
Proof. reflexivity. Qed.

Lemma dv_number ln line file tok l r tgt g :
  dispatch_value ln (Node N_NUMBER line file tok l r) tgt g =
  Ok (emit (fst (gen_str_to_int (advance_line g line file) tok))
           (IConst tgt (snd (gen_str_to_int (advance_line g line file) tok)))).
Proof. reflexivity. Qed.

Definition value_type (t : ntype) : bool :=
  match t with N_NAME | N_NUMBER | N_CALL => true | _ => false end.

Lemma dv_other ln t line file tok l r tgt g : value_type t = false ->
  dispatch_value ln (Node t line file tok l r) tgt g =
  Ok (err (advance_line g line file) T_MALFORMED_AST e_malformed_ast).
Proof. destruct t; cbn [value_type]; intros H; try discriminate; reflexivity. Qed.

Lemma da_split la line file tok l r g :
  dispatch_args_n la (Node N_SPLIT line file tok l r) g =
  do g1 <- dispatch_args la l g; dispatch_args la r g1.
Proof. reflexivity. Qed.

Lemma da_leaf la t line file tok l r g : t <> N_SPLIT ->
  dispatch_args_n la (Node t line file tok l r) g =
  do f <- get_symbols g;
  match find_reg (f_regs f) tok 0, la with
  | Some _, false => Ok (verr g T_PARSE_ERROR e_param_twice file line)
  | _, _ =>
      let g1 := set_symbols g (mkFGS (f_name f) (f_regs f) (f_argnum f + 1) (f_marks f)) in
      do r <- fetch_variable g1 tok; Ok (fst r)
  end.
Proof. destruct t; intros H; try reflexivity. congruence. Qed.

Section VoidUnfold.
  Variables ln lp la : bool.
  Definition dvo (o : option node) (g : gstate) : result gstate :=
    match o with None => Ok g | Some n => dispatch_void ln lp la n g end.

  Lemma dvoid_split line file tok l r g :
    dispatch_void ln lp la (Node N_SPLIT line file tok l r) g =
    do g1 <- dvo l (advance_line g line file); dvo r g1.
  Proof. reflexivity. Qed.

  Definition loops_incr (g : gstate) : gstate :=
    mkGS (g_code g) (g_maps g) (g_pb g) (g_li g) (g_errs g) (g_syms g) (g_funcs g) (g_labels g)
         (g_todo g) (g_loops g + 1) (g_fsname g) (g_fsline g).

  Lemma dvoid_program line file tok l r g :
    dispatch_void ln lp la (Node N_PROGRAM line file tok l r) g =
    do g0 <- remove_top_pot_break lp (advance_line g line file);
    let '(g1, after_label) := create_label g0 in
    let g2 := emit_backpatched g1 (IJmp after_label) in
    do lnn <- child l;
    do name_node <- child (n_left lnn);
    let ports := n_right lnn in
    let args_node := match ports with Some p => n_left p | None => None end in
    let out_node := match ports with Some p => n_right p | None => None end in
    let g3 := push_symbols g2 (n_tok name_node) in
    do g4 <- dispatch_args la args_node g3;
    let out_name := match out_node with Some o => n_tok o | None => name_x0 end in
    let entry := next_pos g4 in
    do g5 <- dvo r g4;
    do rv <- fetch_variable g5 out_name; let '(g6, ret_val) := rv in
    let g7 := emit g6 (IRet ret_val) in
    do g8 <- pop_symbols g7 entry;
    set_label g8 after_label (next_pos g8).
  Proof. reflexivity. Qed.

  Lemma dvoid_assign line file tok l r g :
    dispatch_void ln lp la (Node N_ASSIGN line file tok l r) g =
    do lnn <- child l;
    do rv <- fetch_variable (advance_line g line file) (n_tok lnn); let '(g1, tind) := rv in
    dispatch_value_opt ln r tind g1.
  Proof. reflexivity. Qed.

  Lemma dvoid_loop line file tok l r g :
    dispatch_void ln lp la (Node N_LOOP line file tok l r) g =
    let g0 := loops_incr (advance_line g line file) in
    do rv <- fetch_variable g0 (loop_counter_name g0); let '(g1, counter) := rv in
    do g2 <- dispatch_value_opt ln l counter g1;
    let '(g3, start_label) := create_label g2 in
    let '(g4, end_label) := create_label g3 in
    do g5 <- set_label g4 start_label (next_pos g4);
    let g6 := emit_backpatched g5 (IJmpC end_label counter) in
    do g7 <- dvo r g6;
    let g8 := emit g7 (IAdd counter counter (-1)) in
    let g9 := emit_backpatched g8 (IJmp start_label) in
    set_label g9 end_label (next_pos g9).
  Proof. reflexivity. Qed.

  Lemma dvoid_while line file tok l r g :
    dispatch_void ln lp la (Node N_WHILE line file tok l r) g =
    let '(g1, start_label) := create_label (advance_line g line file) in
    let '(g2, end_label) := create_label g1 in
    do rt <- fetch_temporary g2; let '(g3, cond) := rt in
    do g4 <- set_label g3 start_label (next_pos g3);
    do g5 <- dispatch_value_opt ln l cond g4;
    let g6 := emit_backpatched g5 (IJmpC end_label cond) in
    do g7 <- dvo r g6;
    let g8 := emit_backpatched g7 (IJmp start_label) in
    do g9 <- set_label g8 end_label (next_pos g8);
    release_temporary g9 cond.
  Proof. reflexivity. Qed.

  Lemma dvoid_mark line file tok l r g :
    dispatch_void ln lp la (Node N_MARK line file tok l r) g =
    do lnn <- child l;
    do rm <- ensure_mark (advance_line g line file) (n_tok lnn); let '(g1, lab) := rm in
    do pos <- get_mark_pos g1;
    set_label g1 lab pos.
  Proof. reflexivity. Qed.

  Lemma dvoid_goto line file tok l r g :
    dispatch_void ln lp la (Node N_GOTO line file tok l r) g =
    do lnn <- child l;
    do rm <- ensure_mark (advance_line g line file) (n_tok lnn); let '(g1, lab) := rm in
    Ok (emit_backpatched g1 (IJmp lab)).
  Proof. reflexivity. Qed.

  Lemma dvoid_if line file tok l r g :
    dispatch_void ln lp la (Node N_IF line file tok l r) g =
    do rt <- fetch_temporary (advance_line g line file); let '(g1, cond) := rt in
    do rt <- fetch_temporary g1; let '(g2, op1) := rt in
    do rt <- fetch_temporary g2; let '(g3, op2) := rt in
    do eqn <- child l;
    do g4 <- dispatch_value_opt ln (n_left eqn) op1 g3;
    do g5 <- dispatch_value_opt ln (n_right eqn) op2 g4;
    let g6 := emit g5 (ITest cond op1 op2) in
    do gon <- child r;
    do nm <- child (n_left gon);
    do rm <- ensure_mark g6 (n_tok nm); let '(g7, lab) := rm in
    let g8 := emit_backpatched g7 (IJmpC lab cond) in
    do g9 <- release_temporary g8 cond;
    do g10 <- release_temporary g9 op1;
    release_temporary g10 op2.
  Proof. reflexivity. Qed.

  Lemma dvoid_stop line file tok l r g :
    dispatch_void ln lp la (Node N_STOP line file tok l r) g = Ok (emit (advance_line g line file) IHalt).
  Proof. reflexivity. Qed.

  Definition void_type (t : ntype) : bool :=
    match t with
    | N_SPLIT | N_PROGRAM | N_ASSIGN | N_LOOP | N_WHILE | N_MARK | N_GOTO | N_IF | N_STOP => true
    | _ => false
    end.

  Lemma dvoid_other t line file tok l r g : void_type t = false ->
    dispatch_void ln lp la (Node t line file tok l r) g =
    Ok (err (advance_line g line file) T_MALFORMED_AST e_malformed_ast).
  Proof. destruct t; cbn [void_type]; intros H; try discriminate; reflexivity. Qed.
End VoidUnfold.

(* induction over the tree that also gives the predicate on all inner nodes *)
Definition optP (P : node -> Prop) (o : option node) : Prop :=
  match o with None => True | Some x => P x end.

Lemma node_ind' (P : node -> Prop) :
  (forall t line file tok l r, optP P l -> optP P r -> P (Node t line file tok l r)) -> forall n, P n.
Proof.
  intros H. fix IH 1. intros [t line file tok l r]. apply H.
  - destruct l as [x|]; cbn; [apply IH | exact I].
  - destruct r as [x|]; cbn; [apply IH | exact I].
Qed.

Fixpoint all_sub (P : node -> Prop) (n : node) {struct n} : Prop :=
  match n with
  | Node _ _ _ _ l r =>
      P n /\ (match l with Some x => all_sub P x | None => True end)
          /\ (match r with Some x => all_sub P x | None => True end)
  end.

Lemma all_sub_here P n : all_sub P n -> P n.
Proof. destruct n; cbn. tauto. Qed.

Lemma all_sub_intro (P : node -> Prop) :
  (forall t line file tok l r, optP (all_sub P) l -> optP (all_sub P) r -> P (Node t line file tok l r)) ->
  forall n, all_sub P n.
Proof.
  intros H. apply node_ind'. intros t line file tok l r Hl Hr.
  cbn [all_sub]. split; [apply H; auto|]. split; [destruct l | destruct r]; auto.
Qed.

Lemma ntype_eq_dec_split (t : ntype) : {t = N_SPLIT} + {t <> N_SPLIT}.
Proof. destruct t; (left; reflexivity) || (right; discriminate). Qed.

(* ================================================================================================ *)
(* 6. primitive steps of the generator                                                              *)
(* ================================================================================================ *)
Definition plain_op (o : opcode) : bool :=
  match o with POTENTIAL_BREAK | BREAK | CONST | PREPARE_EXEC => false | _ => true end.

Lemma upd_errs_nil g : upd_errs g (g_errs g ++ []) = g.
Proof. destruct g; unfold upd_errs; cbn. rewrite app_nil_r. reflexivity. Qed.

Lemma upd_errs_app g e1 e2 :
  upd_errs (upd_errs g (g_errs g ++ e1)) (g_errs (upd_errs g (g_errs g ++ e1)) ++ e2) = upd_errs g (g_errs g ++ e1 ++ e2).
Proof. unfold upd_errs; cbn. rewrite app_assoc. reflexivity. Qed.

Lemma check_marks_errs marks : forall g g1, check_marks g marks = Ok g1 ->
  exists e, g1 = upd_errs g (g_errs g ++ e).
Proof.
  induction marks as [|[nm l] rest IH]; intros g g1 H; cbn [check_marks] in H.
  - inversion H; subst. exists []. symmetry; apply upd_errs_nil.
  - binv H. destruct (a =? -1).
    + apply IH in H. destruct H as [e ->]. unfold err. rewrite upd_errs_app. eauto.
    + apply IH in H. exact H.
Qed.

Section Steps.
  Variable Pos : str -> Z -> Prop.
  Definition okpos (f : str) (l : Z) : Prop := f <> hidden_file -> Pos f l.

  Inductive step : gstate -> gstate -> Prop :=
  | st_emit g i : plain_op (iop i) = true -> step g (emit g i)
  | st_const g tok tgt :
      step g (emit (fst (gen_str_to_int g tok)) (IConst tgt (snd (gen_str_to_int g tok))))
  | st_prep g f p tgt : alookup str_ltb (g_funcs g) f = Some p ->
      step g (emit g (IPrepare (p_stack_size p) (p_mi p) tgt))
  | st_adv g line file : okpos file line -> step g (advance_line g line file)
  | st_rem g g' : remove_top_pot_break false g = Ok g' -> step g g'
  | st_syms g s : step g (upd_syms g s)
  | st_labels g l : step g (upd_labels g l)
  | st_todo g t : step g (upd_todo g t)
  | st_errs g e : step g (upd_errs g (g_errs g ++ e))
  | st_loops g : step g (loops_incr g)
  | st_pop g maps e s name p : 0 <= p_stack_size p ->
      step g (mkGS (g_code g) maps (g_pb g) (g_li g) (g_errs g ++ e) s
                   (ainsert str_ltb (g_funcs g) name p) (g_labels g) (g_todo g) (g_loops g)
                   (g_fsname g) (g_fsline g)).

  Inductive steps : gstate -> gstate -> Prop :=
  | steps_refl g : steps g g
  | steps_snoc g1 g2 g3 : steps g1 g2 -> step g2 g3 -> steps g1 g3.

  Lemma steps_preserve (I : gstate -> Prop) :
    (forall g g', step g g' -> I g -> I g') -> forall g g', steps g g' -> I g -> I g'.
  Proof. intros H g g' S. induction S; eauto. Qed.

  Lemma ss_emit g0 g i : plain_op (iop i) = true -> steps g0 g -> steps g0 (emit g i).
  Proof. intros H S. eapply steps_snoc; [exact S|]. apply st_emit; auto. Qed.

  Lemma ss_emit_bp g0 g i : plain_op (iop i) = true -> steps g0 g -> steps g0 (emit_backpatched g i).
  Proof.
    intros H S. unfold emit_backpatched. cbv zeta. eapply steps_snoc; [eapply ss_emit; eauto|]. apply st_todo.
  Qed.

  Lemma ss_adv g0 g line file : okpos file line -> steps g0 g -> steps g0 (advance_line g line file).
  Proof. intros H S. eapply steps_snoc; [exact S|]. apply st_adv; auto. Qed.

  Lemma ss_err g0 g t k : steps g0 g -> steps g0 (err g t k).
  Proof. intros S. eapply steps_snoc; [exact S|]. unfold err. apply st_errs. Qed.

  Lemma ss_verr g0 g t k f l : steps g0 g -> steps g0 (verr g t k f l).
  Proof. intros S. eapply steps_snoc; [exact S|]. unfold verr. apply st_errs. Qed.

  Lemma ss_set_symbols g0 g f : steps g0 g -> steps g0 (set_symbols g f).
  Proof. intros S. eapply steps_snoc; [exact S|]. unfold set_symbols. apply st_syms. Qed.

  Lemma ss_push g0 g n : steps g0 g -> steps g0 (push_symbols g n).
  Proof. intros S. eapply steps_snoc; [exact S|]. unfold push_symbols. apply st_syms. Qed.

  Lemma ss_loops g0 g : steps g0 g -> steps g0 (loops_incr g).
  Proof. intros S. eapply steps_snoc; [exact S|]. apply st_loops. Qed.

  Lemma ss_create_label g0 g g1 l : create_label g = (g1, l) -> steps g0 g -> steps g0 g1.
  Proof.
    unfold create_label. intros H S. inversion H; subst. eapply steps_snoc; [exact S|]. apply st_labels.
  Qed.

  Lemma ss_set_label g0 g l i g' : set_label g l i = Ok g' -> steps g0 g -> steps g0 g'.
  Proof.
    unfold set_label. intros H S. binv H. inversion H; subst. eapply steps_snoc; [exact S|]. apply st_labels.
  Qed.

  Lemma ss_fetch_variable g0 g n g' i : fetch_variable g n = Ok (g', i) -> steps g0 g -> steps g0 g'.
  Proof.
    unfold fetch_variable. intros H S. binv H. destruct (find_reg (f_regs a) n 0); inversion H; subst; auto.
    apply ss_set_symbols; auto.
  Qed.

  Lemma ss_fetch_temporary g0 g g' i : fetch_temporary g = Ok (g', i) -> steps g0 g -> steps g0 g'.
  Proof.
    unfold fetch_temporary. intros H S. binv H. destruct (find_free_temp (f_regs a) 0).
    - binv H. inversion H; subst. apply ss_set_symbols; auto.
    - inversion H; subst. apply ss_set_symbols; auto.
  Qed.

  Lemma ss_release g0 g i g' : release_temporary g i = Ok g' -> steps g0 g -> steps g0 g'.
  Proof.
    unfold release_temporary. intros H S. binv H. destruct (is_temp a0).
    - binv H. inversion H; subst. apply ss_set_symbols; auto.
    - inversion H; subst; auto.
  Qed.

  Lemma ss_ensure_mark g0 g n g' l : ensure_mark g n = Ok (g', l) -> steps g0 g -> steps g0 g'.
  Proof.
    unfold ensure_mark. intros H S. binv H. destruct (alookup str_ltb (f_marks a) n).
    - inversion H; subst; auto.
    - binv H. inversion H; subst. apply ss_set_symbols. eapply ss_create_label; eauto.
  Qed.

  Lemma ss_pop g0 g addr g' : pop_symbols g addr = Ok g' -> steps g0 g -> steps g0 g'.
  Proof.
    unfold pop_symbols. intros H S. binv H. inversion H; subst; clear H.
    apply check_marks_errs in H1. destruct H1 as [e ->].
    eapply steps_snoc; [exact S|].
    apply (st_pop g (g_maps g ++ [mkSM (f_name a) (stack_map_of (f_regs a) 0)]) e (tl (g_syms g)) (f_name a)
             (mkProgRec addr (zlen (g_maps g ++ [mkSM (f_name a) (stack_map_of (f_regs a) 0)]) - 1)
                        (f_argnum a) (zlen (f_regs a)))).
    cbn. apply zlen_nonneg.
  Qed.

  Lemma ss_rem g0 g g' : remove_top_pot_break false g = Ok g' -> steps g0 g -> steps g0 g'.
  Proof. intros H S. eapply steps_snoc; [exact S|]. apply st_rem; auto. Qed.

  Lemma ss_emit_args arglocs : forall g0 g i g', emit_args g arglocs i = Ok g' -> steps g0 g -> steps g0 g'.
  Proof.
    induction arglocs as [|a rest IH]; intros g0 g i g' H S; cbn [emit_args] in H.
    - inversion H; subst; auto.
    - binv H. eapply IH; [exact H|]. eapply ss_release; [exact H0|]. apply ss_emit; auto.
  Qed.

  Lemma ss_dispatch_args_n la : forall n g0 g g', dispatch_args_n la n g = Ok g' -> steps g0 g -> steps g0 g'.
  Proof.
    induction n as [t line file tok l r IHl IHr] using node_ind'. intros g0 g g' H S.
    destruct (ntype_eq_dec_split t) as [->|Hn].
    - rewrite da_split in H. binv H.
      assert (S1 : steps g0 a).
      { destruct l as [x|]; cbn in H0, IHl; [eapply IHl; eauto | inversion H0; subst; auto]. }
      destruct r as [x|]; cbn in H, IHr; [eapply IHr; eauto | inversion H; subst; auto].
    - rewrite da_leaf in H by auto. binv H.
      assert (D : forall g1, (do r0 <- fetch_variable (set_symbols g (mkFGS (f_name a) (f_regs a) (f_argnum a + 1) (f_marks a))) tok; Ok (fst r0)) = Ok g1 -> steps g0 g1).
      { intros g1 H1. binv H1. inversion H1; subst. destruct a0 as [g2 i]. cbn [fst].
        eapply ss_fetch_variable; [exact H2|]. apply ss_set_symbols; auto. }
      destruct (find_reg (f_regs a) tok 0); [destruct la|]; auto.
      inversion H; subst. apply ss_verr; auto.
  Qed.
End Steps.

(* ================================================================================================ *)
(* 7. every run of the dispatch functions is a sequence of primitive steps                          *)
(* ================================================================================================ *)
Section Decomp.
  Variable Pos : str -> Z -> Prop.
  Definition allpos (n : node) : Prop := forall f l, In (f, l) (positions n) -> okpos Pos f l.
  Definition allpos_o (o : option node) : Prop := optP allpos o.

  Lemma allpos_inv t line file tok l r : allpos (Node t line file tok l r) ->
    okpos Pos file line /\ allpos_o l /\ allpos_o r.
  Proof.
    unfold allpos. cbn [positions]. intros H. split; [apply H; left; reflexivity|]. split.
    - destruct l as [x|]; cbn; auto. intros f l0 Hi. apply H. right. apply in_or_app. left; auto.
    - destruct r as [x|]; cbn; auto. intros f l0 Hi. apply H. right. apply in_or_app. right; auto.
  Qed.

  Lemma allpos_o_left n : allpos n -> allpos_o (n_left n).
  Proof. destruct n. intros H. apply allpos_inv in H. cbn. tauto. Qed.
  Lemma allpos_o_right n : allpos n -> allpos_o (n_right n).
  Proof. destruct n. intros H. apply allpos_inv in H. cbn. tauto. Qed.

  Notation stp := (steps Pos).
  Hint Resolve ss_emit ss_emit_bp ss_adv ss_err ss_verr ss_set_symbols ss_push ss_loops ss_create_label
       ss_set_label ss_fetch_variable ss_fetch_temporary ss_release ss_ensure_mark ss_pop ss_rem
       ss_emit_args ss_dispatch_args_n steps_refl : ss.

  Definition Pval (dv : node -> Z -> gstate -> result gstate) (n : node) : Prop :=
    forall tgt g0 g g', allpos n -> dv n tgt g = Ok g' -> stp g0 g -> stp g0 g'.

  Lemma call_args_steps dv : forall a, all_sub (Pval dv) a -> allpos a ->
    forall acc res g0, call_args dv a acc = Ok res -> stp g0 (fst acc) -> stp g0 (fst res).
  Proof.
    induction a as [t line file tok l r IHl IHr] using node_ind'. intros HS HA acc res g0 H S.
    cbn [all_sub] in HS. destruct HS as [Hh [HSl HSr]].
    destruct (allpos_inv _ _ _ _ _ _ HA) as [_ [HAl HAr]].
    destruct (ntype_eq_dec_split t) as [->|Hn].
    - rewrite call_args_split in H. binv H.
      assert (S1 : stp g0 (fst a)).
      { destruct l as [x|]; cbn in H0, IHl, HAl; [eapply IHl; eauto | inversion H0; subst; auto]. }
      destruct r as [x|]; cbn in H, IHr, HAr; [eapply IHr; eauto | inversion H; subst; auto].
    - rewrite call_args_leaf in H by (cbn; auto). binv H. inversion H; subst; cbn [fst].
      eapply Hh; eauto with ss.
  Qed.

  Lemma call_plain_steps g0 g1 arglocs fn tgt g' :
    call_plain g1 arglocs fn tgt = Ok g' -> stp g0 g1 -> stp g0 g'.
  Proof.
    unfold call_plain. intros H S. destruct (alookup str_ltb (g_funcs g1) fn) as [p|] eqn:E.
    - destruct (negb (p_argnum p =? zlen arglocs)).
      + inversion H; subst. auto with ss.
      + binv H. inversion H; subst. apply ss_emit; [reflexivity|]. eapply ss_emit_args; [exact H0|].
        eapply steps_snoc; [exact S|]. eapply st_prep; eauto.
    - inversion H; subst. auto with ss.
  Qed.

  Lemma call_tail_steps ln l r tgt g0 g1 arglocs g' :
    call_tail ln l r tgt (g1, arglocs) = Ok g' -> stp g0 g1 -> stp g0 g'.
  Proof.
    unfold call_tail. intros H S. binv H.
    destruct a0 as [ctok|]; [|eapply call_plain_steps; eauto].
    destruct (str_eqb (n_tok a) name_INC || str_eqb (n_tok a) name_DEC); [|eapply call_plain_steps; eauto].
    binv H. destruct (str_eqb (n_tok a) name_INC).
    - inversion H; subst. apply ss_emit; auto.
    - destruct (ln && (strToIntSilent_gen ctok =? INT_MIN)); [discriminate|].
      inversion H; subst. apply ss_emit; auto.
  Qed.

  Lemma dv_steps ln : forall n, all_sub (Pval (dispatch_value ln)) n.
  Proof.
    apply all_sub_intro. intros t line file tok l r Hl Hr tgt g0 g g' HA H S.
    destruct (allpos_inv _ _ _ _ _ _ HA) as [Hp [HAl HAr]].
    destruct (value_type t) eqn:Et.
    - destruct t; try discriminate.
      + rewrite dv_name in H. binv H. inversion H; subst. eauto 6 with ss.
      + rewrite dv_number in H. inversion H; subst. eapply steps_snoc; [apply ss_adv; eauto|]. apply st_const.
      + rewrite dv_call in H. binv H. destruct a as [g1 arglocs].
        eapply call_tail_steps; [exact H|].
        destruct r as [rn0|]; cbn [call_args_o] in H0.
        * cbn in Hr, HAr. change g1 with (fst (g1, arglocs)).
          eapply call_args_steps; [exact Hr | exact HAr | exact H0 |]. cbn [fst]. auto with ss.
        * inversion H0; subst. auto with ss.
    - rewrite dv_other in H by auto. inversion H; subst. auto with ss.
  Qed.

  Lemma dvalue_steps ln n tgt g0 g g' :
    allpos n -> dispatch_value ln n tgt g = Ok g' -> stp g0 g -> stp g0 g'.
  Proof. intros. eapply (all_sub_here _ _ (dv_steps ln n)); eauto. Qed.

  Lemma dvalue_opt_steps ln o tgt g0 g g' :
    allpos_o o -> dispatch_value_opt ln o tgt g = Ok g' -> stp g0 g -> stp g0 g'.
  Proof.
    destruct o as [n|]; cbn; intros HA H S; [eapply dvalue_steps; eauto | inversion H; subst; auto].
  Qed.

  Lemma dargs_steps la o g0 g g' : dispatch_args la o g = Ok g' -> stp g0 g -> stp g0 g'.
  Proof.
    destruct o as [n|]; cbn; intros H S; [eapply ss_dispatch_args_n; eauto | inversion H; subst; auto].
  Qed.

  Hint Resolve dvalue_opt_steps dargs_steps : ss.

  Definition Pvoid ln la (n : node) : Prop :=
    forall g0 g g', allpos n -> dispatch_void ln false la n g = Ok g' -> stp g0 g -> stp g0 g'.

  Lemma dvoid_steps ln la : forall n, Pvoid ln la n.
  Proof.
    induction n as [t line file tok l r IHl IHr] using node_ind'. intros g0 g g' HA H S.
    destruct (allpos_inv _ _ _ _ _ _ HA) as [Hp [HAl HAr]].
    assert (Il : forall g0 g g', dvo ln false la l g = Ok g' -> stp g0 g -> stp g0 g').
    { intros x y z Hd Hs. destruct l as [n|]; cbn in Hd, IHl, HAl; [eapply IHl; eauto | inversion Hd; subst; auto]. }
    assert (Ir : forall g0 g g', dvo ln false la r g = Ok g' -> stp g0 g -> stp g0 g').
    { intros x y z Hd Hs. destruct r as [n|]; cbn in Hd, IHr, HAr; [eapply IHr; eauto | inversion Hd; subst; auto]. }
    clear IHl IHr.
    destruct (void_type t) eqn:Et.
    - destruct t; try discriminate.
      + (* SPLIT *) rewrite dvoid_split in H. binv H. eauto 10 with ss.
      + (* ASSIGN *) rewrite dvoid_assign in H. binv H. eauto 10 with ss.
      + (* LOOP *) rewrite dvoid_loop in H. cbv zeta in H. binv H. eauto 40 with ss.
      + (* WHILE *) rewrite dvoid_while in H. cbv zeta in H. binv H. eauto 40 with ss.
      + (* GOTO *) rewrite dvoid_goto in H. binv H. inversion H; subst. eauto 10 with ss.
      + (* IF *) rewrite dvoid_if in H. cbv zeta in H. binv H.
        assert (HAe : forall x, l = Some x -> allpos x) by (intros x E; rewrite E in HAl; exact HAl).
        match goal with Hx : l = Some ?x |- _ =>
          pose proof (allpos_o_left _ (HAe _ Hx)); pose proof (allpos_o_right _ (HAe _ Hx)) end.
        eauto 40 with ss.
      + (* PROGRAM *) rewrite dvoid_program in H. cbv zeta in H. binv H. eauto 40 with ss.
      + (* MARK *) rewrite dvoid_mark in H. binv H. eauto 10 with ss.
      + (* STOP *) rewrite dvoid_stop in H. inversion H; subst. eauto 10 with ss.
    - rewrite dvoid_other in H by auto. inversion H; subst. auto with ss.
  Qed.
End Decomp.

(* ================================================================================================ *)
(* 8. backpatching rewrites offsets of jumps only                                                   *)
(* ================================================================================================ *)
Definition jok (x y : instr) : Prop := y = x \/ (iop y = iop x /\ (iop x = JMP \/ iop x = JMPC)).

Lemma jok_refl x : jok x x.
Proof. left; reflexivity. Qed.

Lemma jok_trans x y z : jok x y -> jok y z -> jok x z.
Proof.
  unfold jok. intros [->|[H1 H2]] [->|[H3 H4]]; auto.
  right. rewrite H3, H1. auto.
Qed.

Lemma Forall2_refl {A} (R : A -> A -> Prop) : (forall x, R x x) -> forall l, Forall2 R l l.
Proof. intros H. induction l; constructor; auto. Qed.

Lemma Forall2_trans {A} (R : A -> A -> Prop) : (forall x y z, R x y -> R y z -> R x z) ->
  forall l1 l2 l3, Forall2 R l1 l2 -> Forall2 R l2 l3 -> Forall2 R l1 l3.
Proof.
  intros HT l1 l2 l3 H. revert l3. induction H; intros l3 H3; inversion H3; subst; constructor; eauto.
Qed.

Lemma jok_map_iop c c' : Forall2 jok c c' -> map iop c' = map iop c.
Proof.
  induction 1 as [|x y l l' H HF IH]; cbn; [reflexivity|]. rewrite IH. f_equal.
  destruct H as [->|[H _]]; auto.
Qed.

Lemma jok_Forall (P : instr -> Prop) c c' :
  (forall i, iop i = JMP \/ iop i = JMPC -> P i) -> Forall2 jok c c' -> Forall P c -> Forall P c'.
Proof.
  intros HP. induction 1 as [|x y l l' H HF IH]; intros HA; [constructor|].
  inversion HA; subst. constructor; auto.
  destruct H as [->|[Hj1 Hj2]]; auto. apply HP. rewrite Hj1. exact Hj2.
Qed.

Lemma znth_nth_error {A} (l : list A) i x : znth l i = Some x -> nth_error l (Z.to_nat i) = Some x.
Proof. unfold znth. destruct (i <? 0); [discriminate | auto]. Qed.

Definition bp_post (g g' : gstate) : Prop :=
  Forall2 jok (g_code g) (g_code g') /\ g_pb g' = g_pb g /\ g_li g' = g_li g /\ g_maps g' = g_maps g /\
  (g_errs g' = [] -> g_errs g = []).

Lemma backpatch_list_spec todo : forall g g', backpatch_list g todo = Ok g' -> bp_post g g'.
Proof.
  induction todo as [|loc rest IH]; intros g g' H; cbn [backpatch_list] in H.
  - inversion H; subst. unfold bp_post. repeat split; auto. apply Forall2_refl. apply jok_refl.
  - binv H.
    assert (D : backpatch_list (err g T_INTERNAL_ERROR e_backpatch_nonjmp) rest = Ok g' -> bp_post g g').
    { intros Hx. apply IH in Hx. destruct Hx as (A & B & C & D & E). cbn in A, B, C, D, E.
      unfold bp_post. repeat split; auto. intros X; apply E in X. destruct (g_errs g); discriminate. }
    assert (J : (iop a = JMP \/ iop a = JMPC) ->
      (do tgt <- of_opt ub_index (znth (g_labels g) (ia a));
       let g1 := if tgt =? -1 then err g T_UNKNOWN_MARK e_backpatch_failed else g in
       do c <- of_opt ub_index (zupd (g_code g1) loc (mkI (iop a) (tgt - loc) (ib a) (ic a)));
       backpatch_list (upd_code g1 c) rest) = Ok g' -> bp_post g g').
    { intros Hj Hx. cbv zeta in Hx. binv Hx. apply IH in Hx. destruct Hx as (A & B & C & D' & E).
      set (g1 := if a0 =? -1 then err g T_UNKNOWN_MARK e_backpatch_failed else g) in *.
      assert (Hc : g_code g1 = g_code g) by (subst g1; destruct (a0 =? -1); reflexivity).
      assert (Hpb : g_pb g1 = g_pb g) by (subst g1; destruct (a0 =? -1); reflexivity).
      assert (Hli : g_li g1 = g_li g) by (subst g1; destruct (a0 =? -1); reflexivity).
      assert (Hm : g_maps g1 = g_maps g) by (subst g1; destruct (a0 =? -1); reflexivity).
      assert (He : g_errs g1 = [] -> g_errs g = []).
      { subst g1; destruct (a0 =? -1); auto. cbn. destruct (g_errs g); discriminate. }
      cbn in A, B, C, D', E. rewrite Hc in H2. apply zupd_inv in H2. destruct H2 as [_ ->].
      unfold bp_post. repeat split; try congruence; auto.
      eapply Forall2_trans; [apply jok_trans | | exact A].
      eapply Forall2_upd_nat; [apply jok_refl | apply znth_nth_error; exact H0 |].
      right. cbn. auto. }
    destruct (iop a) eqn:Eop; auto.
Qed.

Lemma backpatch_spec g g' : backpatch g = Ok g' -> bp_post g g'.
Proof.
  unfold backpatch. intros H. binv H. inversion H; subst. apply backpatch_list_spec in H0.
  exact H0.
Qed.

(* ================================================================================================ *)
(* 9. the breakpoint tables                                                                         *)
(* ================================================================================================ *)
Record tabinv (ops : list opcode) (pb : list (bp * list Z)) (li : list (Z * bp)) : Prop := mkTabinv {
  ti_pbS : ksorted bp_ltb pb;
  ti_liS : ksorted z_ltb li;
  ti_pb : forall b s, alookup bp_ltb pb b = Some s ->
            s <> [] /\ StronglySorted Z.lt s /\ forall i, In i s -> alookup z_ltb li i = Some b;
  ti_li : forall i b, alookup z_ltb li i = Some b ->
            znth ops i = Some POTENTIAL_BREAK /\ exists s, alookup bp_ltb pb b = Some s /\ In i s;
  ti_code : forall i o, znth ops i = Some o ->
            o <> BREAK /\ (o = POTENTIAL_BREAK -> alookup z_ltb li i <> None)
}.

Lemma bp_lookup_insert {V} (m : list (bp * V)) k v k' :
  alookup bp_ltb (ainsert bp_ltb m k v) k' = if keqb bp_ltb k' k then Some v else alookup bp_ltb m k'.
Proof. apply alookup_ainsert. apply bp_keqb_eq. Qed.
Lemma z_lookup_insert {V} (m : list (Z * V)) k v k' :
  alookup z_ltb (ainsert z_ltb m k v) k' = if keqb z_ltb k' k then Some v else alookup z_ltb m k'.
Proof. apply alookup_ainsert. apply z_keqb_eq. Qed.
Lemma str_lookup_insert {V} (m : list (str * V)) k v k' :
  alookup str_ltb (ainsert str_ltb m k v) k' = if keqb str_ltb k' k then Some v else alookup str_ltb m k'.
Proof. apply alookup_ainsert. apply str_keqb_eq. Qed.
Lemma bp_lookup_remove {V} (m : list (bp * V)) k k' : ksorted bp_ltb m ->
  alookup bp_ltb (aremove bp_ltb m k) k' = if keqb bp_ltb k' k then None else alookup bp_ltb m k'.
Proof. apply alookup_aremove. apply bp_keqb_eq. Qed.
Lemma z_lookup_remove {V} (m : list (Z * V)) k k' : ksorted z_ltb m ->
  alookup z_ltb (aremove z_ltb m k) k' = if keqb z_ltb k' k then None else alookup z_ltb m k'.
Proof. apply alookup_aremove. apply z_keqb_eq. Qed.

Lemma keqb_bp_dec k k' : (keqb bp_ltb k' k = true /\ k' = k) \/ (keqb bp_ltb k' k = false /\ k' <> k).
Proof.
  destruct (keqb bp_ltb k' k) eqn:E; [left | right]; split; auto.
  - apply bp_keqb_eq; auto.
  - intros ->. rewrite (proj2 (bp_keqb_eq k k)) in E; [discriminate | reflexivity].
Qed.
Lemma keqb_z_dec k k' : (keqb z_ltb k' k = true /\ k' = k) \/ (keqb z_ltb k' k = false /\ k' <> k).
Proof.
  destruct (keqb z_ltb k' k) eqn:E; [left | right]; split; auto.
  - apply z_keqb_eq; auto.
  - intros ->. rewrite (proj2 (z_keqb_eq k k)) in E; [discriminate | reflexivity].
Qed.

Lemma sorted_snoc (l : list Z) x : StronglySorted Z.lt l -> Forall (fun y => y < x) l -> StronglySorted Z.lt (l ++ [x]).
Proof.
  induction 1 as [|h t HS IH HF]; intros HA; cbn.
  - constructor; constructor.
  - inversion HA; subst. constructor; auto. apply Forall_app. split; auto.
Qed.

Lemma sorted_snoc_inv (l : list Z) x : StronglySorted Z.lt (l ++ [x]) ->
  StronglySorted Z.lt l /\ Forall (fun y => y < x) l.
Proof.
  induction l as [|h t IH]; cbn; intros H.
  - split; constructor.
  - inversion H; subst. apply IH in H2. destruct H2 as [A B]. apply Forall_app in H3. destruct H3 as [C D].
    split; constructor; auto. inversion D; auto.
Qed.

Lemma tabinv_init o : o <> BREAK -> o <> POTENTIAL_BREAK -> tabinv [o] [] [].
Proof.
  intros H1 H2. constructor; try (constructor; fail); try discriminate.
  intros i o' H. apply (znth_snoc_inv []) in H. destruct H as [[_ H]|[_ ->]].
  { apply znth_some_range in H. cbn in H. lia. }
  split; auto.
Qed.

Lemma tabinv_app ops pb li o : o <> BREAK -> o <> POTENTIAL_BREAK ->
  tabinv ops pb li -> tabinv (ops ++ [o]) pb li.
Proof.
  intros H1 H2 [A B C D E]. constructor; auto.
  - intros i b H. destruct (D i b H) as [Hz Hs]. split; auto.
    rewrite znth_app_l; auto. apply znth_some_range in Hz. lia.
  - intros i o' H. apply znth_snoc_inv in H. destruct H as [[_ H]|[_ ->]]; [eauto|].
    split; auto.
Qed.

Lemma tabinv_break ops pb li b : tabinv ops pb li ->
  tabinv (ops ++ [POTENTIAL_BREAK])
         (ainsert bp_ltb pb b ((match alookup bp_ltb pb b with Some l => l | None => [] end) ++ [zlen ops]))
         (ainsert z_ltb li (zlen ops) b).
Proof.
  intros [A B C D E].
  assert (Hkey : forall i b0, alookup z_ltb li i = Some b0 -> i < zlen ops).
  { intros i b0 H. apply D in H. destruct H as [H _]. apply znth_some_range in H. lia. }
  set (old := match alookup bp_ltb pb b with Some l => l | None => [] end).
  assert (Hold : forall i, In i old -> alookup z_ltb li i = Some b).
  { subst old. destruct (alookup bp_ltb pb b) as [s|] eqn:Es; [|intros i []]. apply (C b s Es). }
  assert (Holds : StronglySorted Z.lt old).
  { subst old. destruct (alookup bp_ltb pb b) as [s|] eqn:Es; [apply (C b s Es) | constructor]. }
  constructor.
  - apply sorted_ainsert; auto. apply bp_keqb_eq. apply bp_ltb_trans.
  - apply sorted_ainsert; auto. apply z_keqb_eq. apply z_ltb_trans.
  - intros b' s. rewrite bp_lookup_insert. destruct (keqb_bp_dec b b') as [[-> ->]|[-> Hn]].
    + intros H; inversion H; subst s; clear H. split; [destruct old; discriminate|]. split.
      * apply sorted_snoc; auto. apply Forall_forall. intros y Hy. eapply Hkey; eauto.
      * intros i Hi. rewrite z_lookup_insert. apply in_app_or in Hi. destruct Hi as [Hi|[<-|[]]].
        -- destruct (keqb_z_dec (zlen ops) i) as [[-> ->]|[-> _]]; auto.
        -- rewrite (proj2 (z_keqb_eq _ _) eq_refl). reflexivity.
    + intros H. destruct (C b' s H) as (C1 & C2 & C3). repeat split; auto.
      intros i Hi. rewrite z_lookup_insert. specialize (C3 i Hi).
      destruct (keqb_z_dec (zlen ops) i) as [[-> ->]|[-> _]]; auto.
      apply Hkey in C3. lia.
  - intros i b0. rewrite z_lookup_insert. destruct (keqb_z_dec (zlen ops) i) as [[-> ->]|[-> Hn]].
    + intros H; inversion H; subst b0; clear H. split; [apply znth_app_last|].
      exists (old ++ [zlen ops]). rewrite bp_lookup_insert. rewrite (proj2 (bp_keqb_eq _ _) eq_refl).
      split; auto. apply in_or_app. right; left; reflexivity.
    + intros H. destruct (D i b0 H) as [D1 [s [D2 D3]]]. split.
      * rewrite znth_app_l; auto. eapply Hkey; eauto.
      * rewrite bp_lookup_insert. destruct (keqb_bp_dec b b0) as [[-> ->]|[-> _]]; [|eauto].
        exists (old ++ [zlen ops]). split; auto. apply in_or_app. left.
        subst old. rewrite D2. exact D3.
  - intros i o H. rewrite z_lookup_insert. apply znth_snoc_inv in H. destruct H as [[Hl H]|[-> ->]].
    + destruct (E i o H) as [E1 E2]. split; auto.
      destruct (keqb_z_dec (zlen ops) i) as [[-> ->]|[-> _]]; [discriminate | auto].
    + split; [discriminate|]. rewrite (proj2 (z_keqb_eq _ _) eq_refl). discriminate.
Qed.

Lemma tabinv_remove ops pb li b sites x r :
  tabinv (ops ++ [POTENTIAL_BREAK]) pb li ->
  alookup z_ltb li (zlen ops) = Some b ->
  alookup bp_ltb pb b = Some sites ->
  rev sites = x :: r ->
  tabinv ops (match r with [] => aremove bp_ltb pb b | _ => ainsert bp_ltb pb b (rev r) end)
         (aremove z_ltb li (zlen ops)).
Proof.
  intros [A B C D E] Hli Hpb Hrev.
  assert (Hkey : forall i b0, alookup z_ltb li i = Some b0 -> i <= zlen ops).
  { intros i b0 H. apply D in H. destruct H as [H _]. apply znth_some_range in H.
    rewrite zlen_app in H. cbn in H. lia. }
  apply rev_cons_inv in Hrev.
  destruct (C b sites Hpb) as (C1 & C2 & C3).
  rewrite Hrev in C2. apply sorted_snoc_inv in C2. destruct C2 as [C2 C2'].
  rewrite Forall_forall in C2'.
  assert (Hx : x = zlen ops).
  { destruct (D _ _ Hli) as [_ [s [Hs Hin]]]. rewrite Hpb in Hs. inversion Hs; subst s; clear Hs.
    assert (Hxle : x <= zlen ops).
    { eapply Hkey. apply C3. rewrite Hrev. apply in_or_app; right; left; reflexivity. }
    rewrite Hrev in Hin. apply in_app_or in Hin. destruct Hin as [Hin|[Hin|[]]]; [|auto].
    apply C2' in Hin. lia. }
  subst x.
  assert (Hnew : forall b', alookup bp_ltb (match r with [] => aremove bp_ltb pb b | _ => ainsert bp_ltb pb b (rev r) end) b' =
                 if keqb bp_ltb b' b then (match r with [] => None | _ => Some (rev r) end) else alookup bp_ltb pb b').
  { intros b'. destruct r; [apply bp_lookup_remove; auto | apply bp_lookup_insert]. }
  constructor.
  - destruct r.
    + apply sorted_aremove; auto.
    + apply sorted_ainsert; auto. apply bp_keqb_eq. apply bp_ltb_trans.
  - apply sorted_aremove; auto.
  - intros b' s. rewrite Hnew. destruct (keqb_bp_dec b b') as [[-> ->]|[-> Hn]].
    + destruct r as [|y r']; [discriminate|]. intros H; inversion H; subst s; clear H.
      split.
      { intros H0. change (rev (y :: r') = []) in H0. apply (f_equal (@rev Z)) in H0.
        rewrite rev_involutive in H0. discriminate. }
      split; auto. intros i Hi. rewrite z_lookup_remove by auto.
      pose proof (C2' i Hi) as Hlt.
      destruct (keqb_z_dec (zlen ops) i) as [[-> ->]|[-> _]]; [lia|].
      apply C3. rewrite Hrev. apply in_or_app; left; auto.
    + intros H. destruct (C b' s H) as (K1 & K2 & K3). repeat split; auto.
      intros i Hi. rewrite z_lookup_remove by auto. specialize (K3 i Hi).
      destruct (keqb_z_dec (zlen ops) i) as [[-> ->]|[-> _]]; auto. congruence.
  - intros i b0. rewrite z_lookup_remove by auto.
    destruct (keqb_z_dec (zlen ops) i) as [[-> ->]|[-> Hn]]; [discriminate|].
    intros H. destruct (D i b0 H) as [D1 [s [D2 D3]]]. pose proof (Hkey _ _ H) as Hle. split.
    + rewrite znth_app_l in D1; auto. lia.
    + rewrite Hnew. destruct (keqb_bp_dec b b0) as [[-> ->]|[-> _]]; [|eauto].
      rewrite Hpb in D2. inversion D2; subst s; clear D2.
      rewrite Hrev in D3. apply in_app_or in D3. destruct D3 as [D3|[D3|[]]]; [|congruence].
      destruct r as [|y r']; [destruct D3|]. eauto.
  - intros i o H. pose proof (znth_some_range _ _ _ H) as Hr.
    assert (H' : znth (ops ++ [POTENTIAL_BREAK]) i = Some o) by (rewrite znth_app_l; auto; lia).
    destruct (E i o H') as [E1 E2]. split; auto. intros Ho. rewrite z_lookup_remove by auto.
    destruct (keqb_z_dec (zlen ops) i) as [[-> ->]|[-> _]]; [lia | auto].
Qed.

Lemma opcode_eqb_eq a b : opcode_eqb a b = true <-> a = b.
Proof. destruct a, b; cbn; split; intros H; try reflexivity; try discriminate. Qed.

Lemma hd_rev_inv {A} (c : list A) i : hd_error (rev c) = Some i -> c = removelast c ++ [i].
Proof.
  intros H. destruct (rev c) as [|x r] eqn:E; cbn in H; [discriminate|]. inversion H; subst x.
  apply rev_cons_inv in E. rewrite E. rewrite removelast_last. reflexivity.
Qed.

Lemma code_back_inv g i : code_back g = Ok i -> g_code g = removelast (g_code g) ++ [i].
Proof. unfold code_back. intros H. apply of_opt_inv in H. apply hd_rev_inv; auto. Qed.

Definition inv1 (g : gstate) : Prop := tabinv (map iop (g_code g)) (g_pb g) (g_li g).

Lemma inv1_ext g g' : g_code g' = g_code g -> g_pb g' = g_pb g -> g_li g' = g_li g -> inv1 g -> inv1 g'.
Proof. unfold inv1. intros -> -> ->. auto. Qed.

Lemma inv1_emit g i : iop i <> BREAK -> iop i <> POTENTIAL_BREAK -> inv1 g -> inv1 (emit g i).
Proof.
  unfold inv1, emit; cbn. intros H1 H2 H. rewrite map_app. cbn [map]. apply tabinv_app; auto.
Qed.

Lemma inv1_breakpoint g : inv1 g -> inv1 (breakpoint g).
Proof.
  unfold inv1, breakpoint, emit, next_pos; cbn. intros H. rewrite map_app. cbn [map].
  rewrite <- (zlen_map iop (g_code g)). apply tabinv_break; auto.
Qed.

Lemma inv1_advance g line file : inv1 g -> inv1 (advance_line g line file).
Proof.
  unfold advance_line. intros H. destruct (str_eqb file hidden_file); auto.
  destruct (str_eqb (g_fsname g) file).
  - destruct (line =? g_fsline g); auto. apply inv1_breakpoint. exact H.
  - apply inv1_breakpoint. exact H.
Qed.

Lemma inv1_remove g g' : remove_top_pot_break false g = Ok g' -> inv1 g -> inv1 g'.
Proof.
  unfold remove_top_pot_break. intros H I. binv H. apply hd_rev_inv in H0.
  destruct (opcode_eqb (iop a) POTENTIAL_BREAK) eqn:Eo; [|inversion H; subst; auto].
  apply opcode_eqb_eq in Eo. binv H.
  destruct (rev a1) as [|x r] eqn:Er; [discriminate|]. inversion H3; subst a2; clear H3.
  inversion H; subst g'; clear H.
  unfold inv1 in *; cbn. rewrite H0, map_app in I. cbn [map] in I. rewrite Eo in I.
  assert (Hp : next_pos g - 1 = zlen (map iop (removelast (g_code g)))).
  { unfold next_pos. rewrite H0 at 1. rewrite zlen_app, zlen_map. cbn. lia. }
  rewrite Hp in *. eapply tabinv_remove; eauto.
Qed.

Lemma step_inv1 Pos g g' : step Pos g g' -> inv1 g -> inv1 g'.
Proof.
  intros S I. destruct S; try (eapply inv1_ext; [| | | exact I]; reflexivity).
  - apply inv1_emit; auto; destruct i as [o ? ? ?]; cbn in *; destruct o; discriminate.
  - apply inv1_emit; try discriminate. unfold gen_str_to_int; cbn [fst].
    destruct (INT_MAX <=? strtol tok); auto.
  - apply inv1_emit; try discriminate. auto.
  - apply inv1_advance; auto.
  - eapply inv1_remove; eauto.
Qed.

Lemma code_listed_intro p c : forall k,
  (forall j ins, nth_error c j = Some ins -> is_break_op (iop ins) = true ->
                 alookup z_ltb (line_info p) (k + Z.of_nat j) <> None) ->
  code_listed p c k = true.
Proof.
  induction c as [|h t IH]; intros k H; cbn [code_listed]; [reflexivity|].
  apply andb_true_iff. split.
  - destruct (is_break_op (iop h)) eqn:E; [|reflexivity].
    specialize (H O h eq_refl E). replace (k + Z.of_nat 0) with k in H by lia.
    destruct (alookup z_ltb (line_info p) k); congruence.
  - apply IH. intros j ins Hj Hb. specialize (H (S j) ins Hj Hb).
    replace (k + 1 + Z.of_nat j) with (k + Z.of_nat (S j)) by lia. exact H.
Qed.

Lemma tabinv_tables_ok c maps pb li : tabinv (map iop c) pb li ->
  tables_ok (mkProg c maps pb li) = true /\ no_break (mkProg c maps pb li) = true.
Proof.
  intros [A B C D E]. split.
  - unfold tables_ok. cbn [potential_breaks line_info code]. rewrite !andb_true_iff. repeat split.
    + apply forallb_forall. intros [b s0] _. cbn [fst]. unfold pb_entry_ok. apply forallb_forall.
      intros i Hi. unfold sites in Hi. cbn [potential_breaks line_info code] in *.
      destruct (alookup bp_ltb pb b) as [s|] eqn:Es; [|destruct Hi].
      destruct (C b s Es) as (_ & _ & C3). specialize (C3 i Hi). rewrite C3.
      rewrite bp_eqb_refl. cbn [andb]. destruct (D i b C3) as [D1 _].
      rewrite znth_map in D1. destruct (znth c i) as [ins|]; [|discriminate].
      cbn in D1. inversion D1. rewrite H0. reflexivity.
    + apply forallb_forall. intros [i b] Hin. unfold li_entry_ok, sites. cbn [fst snd potential_breaks].
      assert (Hl : alookup z_ltb li i = Some b).
      { apply in_sorted_alookup; auto. apply z_keqb_eq. }
      destruct (D i b Hl) as [_ [s [Hs Hi]]]. rewrite Hs. apply zmem_in. exact Hi.
    + apply code_listed_intro. cbn [line_info]. intros j ins Hj Hb. cbn [Z.add].
      assert (Hz : znth (map iop c) (Z.of_nat j) = Some (iop ins)).
      { rewrite znth_of_nat. rewrite nth_error_map, Hj. reflexivity. }
      destruct (E _ _ Hz) as [E1 E2]. apply E2.
      destruct (iop ins); try discriminate; auto. congruence.
  - unfold no_break. cbn [code]. apply forallb_forall. intros ins Hin.
    apply In_nth_error in Hin. destruct Hin as [j Hj].
    assert (Hz : znth (map iop c) (Z.of_nat j) = Some (iop ins)).
    { rewrite znth_of_nat. rewrite nth_error_map, Hj. reflexivity. }
    destruct (E _ _ Hz) as [E1 _]. destruct (iop ins); try reflexivity. congruence.
Qed.

(* ================================================================================================ *)
(* 10. what advance_line and remove_top_pot_break do to the state                                   *)
(* ================================================================================================ *)
Lemma advance_spec g line file :
  advance_line g line file = g \/
  (file <> hidden_file /\ advance_line g line file = breakpoint (upd_fs g file line)).
Proof.
  unfold advance_line. destruct (str_eqb file hidden_file) eqn:E1; auto.
  assert (Hn : file <> hidden_file).
  { intros ->. rewrite (proj2 (str_eqb_eq _ _) eq_refl) in E1. discriminate. }
  destruct (str_eqb (g_fsname g) file) eqn:E2.
  - apply str_eqb_eq in E2. destruct (line =? g_fsline g); auto. right. rewrite E2. auto.
  - right. auto.
Qed.

Lemma remove_spec lp g g' : remove_top_pot_break lp g = Ok g' ->
  g' = g \/
  exists i pb li, iop i = POTENTIAL_BREAK /\ g_code g = removelast (g_code g) ++ [i] /\
    (forall b, In b (map fst pb) -> In b (map fst (g_pb g))) /\
    g' = upd_code (upd_tables g pb li) (removelast (g_code g)).
Proof.
  unfold remove_top_pot_break. intros H. binv H. apply hd_rev_inv in H0.
  destruct (opcode_eqb (iop a) POTENTIAL_BREAK) eqn:Eo; [|inversion H; subst; auto].
  apply opcode_eqb_eq in Eo. binv H. inversion H; subst g'; clear H. right.
  exists a, a2, (aremove z_ltb (g_li g) (next_pos g - 1)). repeat split; auto.
  intros b Hb. apply bp_alookup_in in H2.
  assert (Hk : In a0 (map fst (g_pb g))) by (apply in_map_iff; exists (a0, a1); auto).
  destruct lp.
  - inversion H3; subst a2. eapply in_keys_aremove; eauto.
  - destruct (rev a1) as [|x r]; [discriminate|]. inversion H3; subst a2; clear H3.
    destruct r.
    + eapply in_keys_aremove; eauto.
    + apply in_keys_ainsert in Hb. destruct Hb as [->|Hb]; auto.
Qed.
