(* Proofs_C07.v — C07: stepping and variable inspection are faithful to the source (C07Statements.v).
     C07_jumps_proof            one routine, the whole statement language (the fragment of C01_jumps): a complete
                                stepping run of the compiled program visits exactly the stops of the reference
                                semantics, in the same order, with the same user-variable values, and ends (HALT
                                executed) with the final views of the reference run;
     C07_no_hidden_stops_proof  (from Proofs_C07d.v) no stop of the reference trace lies in the hidden macro file;
     C07_jumps_instance         non-vacuity on the source of C01_jumps_instance.
   Assembly of the dynamic part (Proofs_C07a.v: the stage-3 simulation in stepping mode, with stops) and the static
   part (Proofs_C07b/c.v: the joint invariant of generator and flattener with line_info) through the end of gen, as
   in Proofs_C01s3.v.  C07_jumps_stmt is true as stated; gr_ok is not needed. *)
From Coq Require Import List ZArith NArith Lia Bool.
From Theo Require Import Base Tokens Errors MacroExtract Parser VMModel VMSpec GenModel Compile RefSem RefSemChk C01Statements C01Stages Gen_Consts Proofs_VM_mem Proofs_VM_dbg Proofs_Gen0 Proofs_Gen Proofs_Sem Proofs_C01a Proofs_C01b Proofs_C01.
From Theo Require Import C01Stages3 Proofs_C01s2a Proofs_C01s2b Proofs_C01s2c Proofs_C01s2d Proofs_C01s2 Proofs_C01s3a Proofs_C01s3b Proofs_C01s3c Proofs_C01s3d Proofs_C01s3.
From Theo Require Import C07Statements Proofs_C07a Proofs_C07b Proofs_C07c Proofs_C07d.
Import ListNotations.
Local Open Scope Z_scope.

(* ================================================================================================ *)
(* 1. from gen and abstract_source to matched code, with line_info                                  *)
(* ================================================================================================ *)
Lemma J3x_init : J3x 1 ginit s_init [] 0.
Proof.
  split; [exact J3_init|]. intros pc l H. cbn [s_init f_cur b_code] in H. rewrite znth_nil in H. discriminate.
Qed.

Lemma jumps_setup7 root r rs :
  jumps root = true -> lexable_names root = true ->
  gen true [] (Some root) = Ok r -> abstract_source (Some root) = Some rs ->
  exists rt regsF L,
    rs = [rt] /\ r_name rt = root_name /\
    stack_maps (gr_prog r) = [mkSM name_root (stack_map_of regsF 0)] /\
    znth (code (gr_prog r)) 0 = Some (IPrepare (zlen regsF) 0 0) /\
    (forall pc i, znth (r_code rt) pc = Some i ->
       imatch3 (RMof (map key regsF)) (code (gr_prog r)) (jpost3 rt 1) (pm3 rt 1 pc) i) /\
    RW (map key regsF) L /\ JV (map key regsF) (r_vars rt) /\
    (forall pc l, znth (r_code rt) pc = Some (RSite l) ->
       alookup z_ltb (line_info (gr_prog r)) (pm3 rt 1 pc) = Some (mkBP (fst l) (snd l))).
Proof.
  intros Hst Hlex Hgen Habs.
  unfold gen in Hgen. apply gen_gen_inv in Hgen.
  destruct Hgen as (g3 & g4 & p & i0 & c0 & g6 & Hbody & Hpop & Hp & Hi0 & Hc0 & Hbp & Hr).
  unfold gen_body in Hbody. cbn [negb cg_neg cg_pb cg_args cfgen_now] in Hbody.
  unfold abstract_source in Habs. cbv zeta in Habs. fold s_init in Habs.
  destruct (flat_stmt root s_init) as [sF|] eqn:EF; [|discriminate].
  destruct (forallb labels_set (f_done sF ++ [finish_routine (bemit (f_cur sF) RHalt)])) eqn:Els; [|discriminate].
  inversion Habs; subst rs; clear Habs Els.
  destruct (joint_walkx 1 root Hst Hlex ginit s_init [] g3 sF J3x_init Hbody EF) as (lmapF & HJ & HX & HF & _).
  destruct HF as (Fd & Fn & Fnm & Fpar). cbn [s_init f_done f_names f_cur b_name b_params] in Fd, Fn, Fnm, Fpar.
  destruct HX as (_ & [blk Hblk] & Hmaps & Hfuncs & f & f' & tls & Es0 & Es3 & Hfn & Hfa).
  change (g_syms ginit) with [mkFGS name_root [] 0 []] in Es0. inversion Es0; subst f tls; clear Es0.
  cbn [f_name f_argnum] in Hfn, Hfa.
  change (g_code ginit) with [IPrepare (-1) (-1) 0] in Hblk.
  change (g_maps ginit) with (@nil stackmap) in Hmaps. change (g_funcs ginit) with (@nil (str * progrec)) in Hfuncs.
  destruct HJ as ((_ & HB & _ & _) & HLI).
  unfold gks, gregs, gmarks in HB. rewrite Es3 in HB.
  set (regsF := f_regs f') in *. set (ksF := map key regsF) in *.
  set (rcode := b_code (f_cur sF)) in *. set (targets := b_targets (f_cur sF)) in *. set (vars := b_vars (f_cur sF)) in *.
  set (blabels := b_labels (f_cur sF)) in *.
  destruct HB as (HC & HL & HT & HR & HV & HL0 & _).
  set (N := zlen regsF).
  (* ---- the end of gen ---- *)
  unfold pop_symbols, get_symbols in Hpop. rewrite Es3 in Hpop. cbn [hd_error of_opt bind] in Hpop.
  destruct (check_marks g3 (f_marks f')) as [g1| |] eqn:Ecm; cbn [bind] in Hpop; try discriminate.
  destruct (check_marks_errs _ _ _ Ecm) as [e Eg1]. subst g1. inversion Hpop; subst g4; clear Hpop Ecm.
  cbn [upd_errs g_code g_maps g_pb g_li g_errs g_syms g_funcs g_labels g_todo g_loops g_fsname g_fsline] in *.
  rewrite Hmaps, Hfuncs, Hfn in *. cbn [app ainsert] in Hp. fold regsF in Hp. fold N in Hp.
  change (zlen [mkSM name_root (stack_map_of regsF 0)] - 1) with 0 in Hp.
  cbn [alookup] in Hp. rewrite (proj2 (str_keqb_eq name_root name_root) eq_refl) in Hp.
  inversion Hp; subst p; clear Hp. cbn [p_stack_size p_mi] in Hc0.
  rewrite Hblk in Hi0, Hc0. change (znth ([IPrepare (-1) (-1) 0] ++ blk) 0) with (Some (IPrepare (-1) (-1) 0)) in Hi0.
  inversion Hi0; subst i0; clear Hi0. cbn [iop ic IPrepare] in Hc0.
  assert (Ec0 : c0 = [IPrepare N 0 0] ++ blk).
  { apply Proofs_VM_mem.zupd_some in Hc0. exact Hc0. }
  subst c0. clear Hc0.
  unfold backpatch in Hbp. binv Hbp. rename a into g6'. rename H into Hbpl. inversion Hbp; subst g6; clear Hbp.
  cbn [emit upd_code g_code g_todo g_labels] in Hbpl.
  match type of Hbpl with backpatch_list ?g _ = _ => set (g5 := g) in * end.
  set (C5 := ([IPrepare N 0 0] ++ blk) ++ [IHalt]).
  assert (EC5 : g_code g5 = C5) by reflexivity.
  assert (EL5 : g_labels g5 = g_labels g3) by reflexivity.
  assert (ELI5 : g_li g5 = g_li g3) by reflexivity.
  change (backpatch_list g5 (g_todo g3) = Ok g6') in Hbpl.
  destruct (backpatch_list_patch _ _ _ Hbpl (proj1 HT)) as (BL & BM & _ & BLI & BA & BB).
  rewrite EC5 in BA, BB. rewrite EL5 in BB.
  set (C6 := g_code g6') in *.
  set (prg := gr_prog r).
  assert (Ecode : code prg = C6) by (unfold prg; rewrite Hr; reflexivity).
  assert (Emaps : stack_maps prg = [mkSM name_root (stack_map_of regsF 0)]).
  { unfold prg. rewrite Hr. cbn [gen_result gr_prog stack_maps upd_todo g_maps]. rewrite BM. reflexivity. }
  assert (Eli : line_info prg = g_li g3).
  { unfold prg. rewrite Hr. cbn [gen_result gr_prog line_info upd_todo g_li]. rewrite BLI. exact ELI5. }
  (* ---- the routine and its code ---- *)
  set (rt := finish_routine (bemit (f_cur sF) RHalt)) in *.
  assert (Ert : r_code rt = rcode ++ [RHalt]) by reflexivity.
  assert (Etg : r_targets rt = targets) by reflexivity.
  assert (Elb : r_labels rt = blabels) by reflexivity.
  assert (Evs : r_vars rt = vars) by reflexivity.
  assert (Enm : r_name rt = root_name) by (cbn [rt finish_routine r_name bemit b_name]; exact Fnm).
  destruct HC as (HClen & HCm & _). rewrite Hblk in HClen.
  assert (Hlen5 : zlen ([IPrepare N 0 0] ++ blk) = 1 + boff3 rcode (length rcode)).
  { rewrite zlen_app in *. change (zlen [IPrepare N 0 0]) with 1. change (zlen [IPrepare (-1) (-1) 0]) with 1 in HClen. lia. }
  assert (Hcopy : forall q ins, 1 <= q -> znth (g_code g3) q = Some ins -> znth C5 q = Some ins).
  { intros q ins Hq Hz. rewrite Hblk in Hz. unfold C5. apply znth_app_some.
    rewrite znth_app_r in Hz by (change (zlen [IPrepare (-1) (-1) 0]) with 1; lia).
    rewrite znth_app_r by (change (zlen [IPrepare N 0 0]) with 1; lia). exact Hz. }
  assert (Z0 : znth C6 0 = Some (IPrepare N 0 0)).
  { apply BA; [reflexivity|]. right. intros [E|E]; discriminate E. }
  exists rt, regsF, (g_loops g3).
  split; [rewrite Fd; reflexivity|]. split; [exact Enm|]. split; [exact Emaps|].
  fold prg. rewrite Ecode. split; [exact Z0|]. split; [|split; [exact HR | split; [rewrite Evs; exact HV|]]].
  - intros pc i Hz. rewrite Ert in Hz. unfold pm3. rewrite Ert. apply znth_snoc_inv in Hz. destruct Hz as [[Hlt Hz]|[-> ->]].
    + rewrite pm_of3_app by lia.
      assert (Hq1 : 1 <= pm_of3 1 rcode pc) by (unfold pm_of3; pose proof (boff3_nonneg rcode (Z.to_nat pc)); lia).
      eapply (imatch3_patch _ C5 C6 (jpre3 lmapF (f_marks f') (g_todo g3)) (jpost3 rt 1));
        [| |eapply imatch3_mono; [apply rm_le_refl | | | apply HCm; exact Hz]].
      * intros q' ins Hq' Hzq Hnj. apply BA; [exact Hzq | right; exact Hnj].
      * intros q' ins e' Hq' Hzq Hjm [Hin Hlm].
        destruct (BB _ _ Hzq Hin Hjm) as (tgt & Htg & Hz6). exists (tgt - q'). split; [exact Hz6|].
        destruct e' as [e'|l]; cbn [jpost3].
        -- destruct (jl_str _ _ _ _ _ _ _ HL _ _ Hlm) as (_ & _ & lv & t & A & B & Cc & D).
           rewrite A in Htg. inversion Htg; subst tgt. rewrite Etg. exists t. split; [exact B|].
           intros Ht. unfold pm3. rewrite Ert, pm_of3_app by lia. rewrite (D Ht). lia.
        -- destruct (jl_mark _ _ _ _ _ _ _ HL _ _ Hlm) as (lv & A & Cc & D).
           rewrite A in Htg. inversion Htg; subst tgt. rewrite Elb.
           intros Ht. unfold pm3. rewrite Ert, pm_of3_app by lia. rewrite (D Ht). lia.
      * intros q' ins Hq' Hzq. apply Hcopy; [lia | exact Hzq].
      * intros q' f0 e0 _ Hj. exact Hj.
    + cbn [imatch3 imatch]. rewrite pm_of3_app by lia. unfold pm_of3, zlen. rewrite Nat2Z.id. rewrite <- Hlen5.
      apply BA; [unfold C5; apply znth_app_last|]. right. intros [E|E]; discriminate E.
  - intros pc l Hz. rewrite Eli. rewrite Ert in Hz. unfold pm3. rewrite Ert.
    apply znth_snoc_inv in Hz. destruct Hz as [[Hlt Hz]|[_ E]]; [|discriminate E].
    rewrite pm_of3_app by lia. exact (HLI _ _ Hz).
Qed.

(* ================================================================================================ *)
(* 2. the views of a state of the one-routine program                                               *)
(* ================================================================================================ *)
Lemma one_routine_views prg regsF L rt s :
  prog s = prg -> stack s = [mkAct 0 (zlen regsF) 0 (-1) 0] ->
  stack_maps prg = [mkSM name_root (stack_map_of regsF 0)] ->
  r_name rt = root_name ->
  RW (map key regsF) L -> JV (map key regsF) (r_vars rt) ->
  forall a d q, SR (RMof (map key regsF)) 0 (zlen regsF) a d ->
    exists v, views (vm_at s q d) = Ok v /\ Forall2 view_agrees v ([] ++ [view_of rt a]).
Proof.
  intros Hprog Hstack Emaps Enm HR HV a d q HS.
  set (N := zlen regsF) in *. set (act0 := mkAct 0 N 0 (-1) 0) in *.
  set (sm := mkSM name_root (stack_map_of regsF 0)) in *.
  set (sE := vm_at s q d).
  assert (HVW : exists vmvars, views sE = Ok [(name_root, vmvars)] /\
            same_values (filter (fun e => user_name (fst e)) vmvars) (map (fun x => (x, get (ra_vars a) x)) (r_vars rt))).
  { unfold views. change (stack sE) with (stack s). rewrite Hstack. cbn [rev app views_of].
    change (debug_info act0) with 0. change (prog sE) with (prog s). rewrite Hprog, Emaps.
    change (znth [sm] 0) with (Some sm). cbn [of_opt bind]. unfold getActivationVariables.
    change (debug_info act0) with 0. change (prog sE) with (prog s). rewrite Hprog, Emaps.
    change (znth [sm] 0) with (Some sm). cbn [of_opt bind smap func_name sm].
    change (seg_size act0) with N. change (data_start act0) with 0. change (data sE) with d.
    destruct (Z.leb_spec N 0) as [Hle|Hgt].
    - exists []. split; [reflexivity|].
      assert (Evars : r_vars rt = []).
      { destruct (r_vars rt) as [|x vs] eqn:Ev; [reflexivity|]. exfalso.
        destruct HV as (_ & H2 & _). destruct (H2 x (or_introl eq_refl)) as (_ & i & Hi).
        apply frk_range in Hi. rewrite zlen_map in Hi. fold N in Hi. lia. }
      rewrite Evars. split; [intros x v []|intros x v H; discriminate H].
    - destruct (final_views regsF _ (r_vars rt) a d HR HV HS) as (vmvars & Erv & Hsame).
      exists vmvars. rewrite Erv. split; [reflexivity | exact Hsame]. }
  destruct HVW as (vmvars & Hviews & Hsame).
  exists [(name_root, vmvars)]. split; [exact Hviews|].
  cbn [app]. constructor; [|constructor].
  unfold view_of. rewrite Enm. split; [reflexivity | exact Hsame].
Qed.

(* ================================================================================================ *)
(* 3. the statement                                                                                 *)
(* ================================================================================================ *)
Lemma C07_jumps_proof : C07_jumps_stmt.
Proof.
  intros root r rs fuel rviews steps trace Hst Hlex Hgen _ Habs Hrun.
  destruct (jumps_setup7 root r rs Hst Hlex Hgen Habs) as (rt & regsF & L & -> & Enm & Emaps & Z0 & CM & HR & HV & LI).
  set (prg := gr_prog r) in *. set (C6 := code prg) in *. set (N := zlen regsF) in *. set (ksF := map key regsF) in *.
  unfold run_ref_chk in Hrun. cbn [length] in Hrun.
  assert (ROK : rm_ok (RMof ksF) N) by (unfold N; rewrite <- (zlen_map key regsF); eapply RW_rm_ok; exact HR).
  assert (HN : 0 <= N) by apply zlen_nonneg.
  set (d0 := zrepeat 0 (Z.to_nat N)) in *. set (act0 := mkAct 0 N 0 (-1) 0) in *.
  set (s0 := setSteppingMode (init prg) true).
  set (s1 := mkVM true 1 prg d0 [act0] []).
  (* the first instruction: PREPARE_EXEC of the main program *)
  assert (E1 : exec1 s0 = Ok (s1, false)).
  { unfold exec1, exec1_gen, s0, setSteppingMode, init. cbn [prog ip]. fold C6. rewrite Z0.
    cbn [of_opt bind iop IPrepare ia ib ic data stepping stack enabled app]. reflexivity. }
  assert (H0 : at_halt s0 = false).
  { unfold at_halt, op_at, s0, setSteppingMode, init. cbn [prog ip]. fold C6. rewrite Z0. reflexivity. }
  assert (FR : frame_of 0 C6 s1) by (split; [reflexivity | exists act0, []; split; reflexivity]).
  assert (VW : forall a d q, SR (RMof ksF) 0 N a d ->
             exists v, views (vm_at s1 q d) = Ok v /\ Forall2 view_agrees v ([] ++ [view_of rt a])).
  { exact (one_routine_views prg regsF L rt s1 eq_refl eq_refl Emaps Enm HR HV). }
  destruct (sim_run7 [rt] 0%nat rt eq_refl (RMof ksF) 0 N C6 1 ROK CM s1 [] eq_refl FR LI VW
                     fuel (mkRAct [] []) 0 0%nat [] d0 rviews steps trace (SR_start _ _ ROK HN) Hrun)
    as (n & pcf & a' & d' & stops & delta & Hstr & HS' & Hv & Htr & Hag).
  change (pm3 rt 1 0) with 1 in Hstr. change (vm_at s1 1 d0) with s1 in Hstr.
  cbn [app] in Htr. subst delta.
  destruct (VW a' d' (pm3 rt 1 pcf) HS') as (vmviews & Hviews & Hva).
  unfold trace_conclusion. fold prg. fold s0.
  exists (S n), stops, (vm_at s1 (pm3 rt 1 pcf) d'), vmviews.
  split.
  - rewrite step_trace_S, E1. cbn [bind]. rewrite H0. exact Hstr.
  - split; [exact Hag|]. split; [exact Hviews|]. rewrite Hv. exact Hva.
Qed.

Lemma C07_no_hidden_stops_proof : C07_no_hidden_stops_stmt.
Proof. exact C07_no_hidden_stops_aux. Qed.

(* ================================================================================================ *)
(* 4. non-vacuity: the source of C01_jumps_instance                                                 *)
(* ================================================================================================ *)
Lemma C07_jumps_instance :
  match Compile.parse [(ex_name, ex3_src)] ex_name with
  | Ok p =>
      match pr_root p with
      | Some root =>
          match gen true [] (Some root), abstract_source (Some root) with
          | Ok r, Some rs =>
              match run_ref_chk 1000 rs with
              | OStop rviews steps trace =>
                  pr_ok p = true /\ jumps root = true /\ lexable_names root = true /\ gr_ok r = true /\
                  steps = 30%nat /\ length trace = 12%nat /\ (5 < length trace)%nat /\
                  map fst trace =
                    map (fun l => (ex_name, l)) [1; 2; 3; 4; 5; 4; 5; 10; 11; 11; 12; 13] /\
                  trace_conclusion r trace rviews /\
                  (forall l vs, In (l, vs) trace -> fst l <> hidden_file)
              | _ => False
              end
          | _, _ => False
          end
      | None => False
      end
  | _ => False
  end.
Proof.
  destruct (Compile.parse [(ex_name, ex3_src)] ex_name) as [p| |] eqn:Ep; vm_compute in Ep; try discriminate.
  inversion Ep; subst p; clear Ep. cbn [pr_root pr_ok].
  match goal with |- context [gen true [] (Some ?n)] => set (root := n) end.
  destruct (gen true [] (Some root)) as [r| |] eqn:Eg; [|vm_compute in Eg; discriminate..].
  destruct (abstract_source (Some root)) as [rs|] eqn:Ea; [|vm_compute in Ea; discriminate].
  assert (Hrun : exists rviews trace, run_ref_chk 1000 rs = OStop rviews 30 trace /\ length trace = 12%nat /\
                   map fst trace =
                   map (fun l => (ex_name, l)) [1; 2; 3; 4; 5; 4; 5; 10; 11; 11; 12; 13]).
  { pose proof Ea as Ea'. vm_compute in Ea'. inversion Ea'; subst rs. vm_compute. eexists _, _. repeat split. }
  destruct Hrun as (rviews & trace & Hrun & Hlen & Hlines). rewrite Hrun.
  assert (Hj : jumps root = true) by (vm_compute; reflexivity).
  assert (Hl : lexable_names root = true) by (vm_compute; reflexivity).
  assert (Hok : gr_ok r = true) by (vm_compute in Eg; inversion Eg; subst r; reflexivity).
  split; [reflexivity|]. split; [exact Hj|]. split; [exact Hl|]. split; [exact Hok|]. split; [reflexivity|].
  split; [exact Hlen|]. split; [rewrite Hlen; lia|]. split; [exact Hlines|]. split.
  - eapply C07_jumps_proof; eauto.
  - intros l vs Hin. eapply C07_no_hidden_stops_proof; eauto.
Qed.

Print Assumptions C07_jumps_proof.
Print Assumptions C07_no_hidden_stops_proof.
Print Assumptions C07_jumps_instance.
