(* Stage6Statements.v — C01 without the layout condition: the values of a statement may stand on other lines than the
   statement (the generator then places breakpoint sites in the middle of the value's code, the flattener places the
   corresponding RSite pseudo-instructions in front of the statement's instruction).  Sites are no-ops for C01. *)
From Theo Require Import Base Regex Tokens Errors Lexer Scan MacroExtract Grammar LR MacroApply Parser VMModel VMSpec GenModel Compile
                         RefSem RefSemChk C01Statements C01Stages C01Stages3 C01Stages4 NamesStatements RefHaltStatements Gen_Lexer Gen_Consts.
Local Open Scope Z_scope.

(* tree level: the shape the parser builds (shape4 = prog4 without layout conditions), definitions on the line of their
   sequence node, identifiers without blanks (so that none is one of the generator's own register names and the VM's
   hidden loop counters can be told from user variables in a view) *)
Definition C01_anylayout_stmt : Prop :=
  forall root r rs fuel rviews steps trace,
    shape4 root = true -> headers_ok root = true -> lexable_names root = true ->
    gen true [] (Some root) = Ok r -> gr_ok r = true ->
    abstract_source (Some root) = Some rs ->
    run_ref_chk fuel rs = OStop rviews steps trace ->
    sim_conclusion r rviews steps.

Definition C01_anylayout_budget_unguarded_stmt : Prop :=
  forall root r rs n s,
    shape4 root = true -> headers_ok root = true -> lexable_names root = true ->
    gen true [] (Some root) = Ok r -> gr_ok r = true ->
    abstract_source (Some root) = Some rs ->
    run_ref_chk n rs = OFuel ->
    vm_run n (init (gr_prog r)) = Ok s -> isDone s = Ok false.

(* from source text, with no condition on the program at all: every successful compilation of files whose names contain
   no blank (a renamed macro temporary carries the name of its file) *)
Definition C01_every_source_unguarded_stmt : Prop :=
  forall files main c p root rs,
    Forall (fun kv => lexable (fst kv) = true) files ->
    compile files main = Ok c -> cr_ok c = true ->
    parse files main = Ok p -> pr_root p = Some root ->
    abstract_source (Some root) = Some rs ->
    (forall fuel rviews steps trace, run_ref_chk fuel rs = OStop rviews steps trace ->
       exists k s vmviews,
         vm_run k (init (cr_prog c)) = Ok s /\ isDone s = Ok true /\
         views s = Ok vmviews /\ Forall2 view_agrees vmviews rviews /\ (steps <= k)%nat) /\
    (forall n s, run_ref_chk n rs = OFuel -> vm_run n (init (cr_prog c)) = Ok s -> isDone s = Ok false).

(* ---- the budget clause needs one layout condition ------------------------------------------------------------------ *)
(* The two statements above (budget clause for every layout) are FALSE: refuted in Proofs_C01s6x.v by the source
     x := RUN f WITH RUN halt WITH END,      (halt: PROGRAM halt DO STOP END; f takes nine arguments)
      1, 2, ... 8 END                        (each further argument on its own line)
   — the VM reaches the STOP inside the first argument after 7 instructions, while the reference machine first executes
   the eight sites of the later arguments (RefSem places the sites of a statement's values in front of the statement) and
   needs 12 steps.  This is an artefact of counting sites as steps, not a program that terminates where it should not; the
   clause holds as soon as values that CALL a program stand on the line of their assignment. *)

(* a value that computes without a call: NAME, NUMBER, or NAME +/- NUMBER (the parser's __INC__ / __DEC__ calls) *)
Definition no_run (v : node) : bool :=
  match v with
  | Node N_NAME _ _ _ _ _ => true
  | Node N_NUMBER _ _ _ _ _ => true
  | Node N_CALL _ _ _ (Some f)
      (Some (Node N_SPLIT _ _ _ (Some (Node N_NAME _ _ _ _ _)) (Some (Node N_SPLIT _ _ _ (Some (Node N_NUMBER _ _ _ _ _)) None)))) =>
      str_eqb (n_tok f) name_INC || str_eqb (n_tok f) name_DEC
  | _ => false
  end.
Definition run_on_line (f : str) (l : Z) (v : node) : bool := no_run v || on_line f l v.
(* the shape of stage 4; every assigned value that contains a RUN of a program stands on the line of its assignment *)
Definition runs_on_line (root : node) : bool := prog4 run_on_line root.

Definition C01_anylayout_budget_stmt : Prop :=
  forall root r rs n s,
    shape4 root = true -> headers_ok root = true -> lexable_names root = true ->
    runs_on_line root = true ->
    gen true [] (Some root) = Ok r -> gr_ok r = true ->
    abstract_source (Some root) = Some rs ->
    run_ref_chk n rs = OFuel ->
    vm_run n (init (gr_prog r)) = Ok s -> isDone s = Ok false.

(* C01 for EVERY accepted source (blank-free file names): the finished-run clause unconditionally, the budget clause
   when values with calls are on their statement's line *)
Definition C01_every_source_stmt : Prop :=
  forall files main c p root rs,
    Forall (fun kv => lexable (fst kv) = true) files ->
    compile files main = Ok c -> cr_ok c = true ->
    parse files main = Ok p -> pr_root p = Some root ->
    abstract_source (Some root) = Some rs ->
    (forall fuel rviews steps trace, run_ref_chk fuel rs = OStop rviews steps trace ->
       exists k s vmviews,
         vm_run k (init (cr_prog c)) = Ok s /\ isDone s = Ok true /\
         views s = Ok vmviews /\ Forall2 view_agrees vmviews rviews /\ (steps <= k)%nat) /\
    (runs_on_line root = true ->
     forall n s, run_ref_chk n rs = OFuel -> vm_run n (init (cr_prog c)) = Ok s -> isDone s = Ok false).

Definition C01_budget_needs_layout_stmt : Prop :=
  ~ C01_anylayout_budget_unguarded_stmt /\ ~ C01_every_source_unguarded_stmt.

(* C16 on the VM without a layout condition: every successfully compiled source (blank-free file names) without WHILE,
   GOTO and IF halts on the VM, provided no value reaches the word limit *)
Definition C16_vm_loop_halts_any_stmt : Prop :=
  forall files main c p root rs,
    Forall (fun kv => lexable (fst kv) = true) files ->
    compile files main = Ok c -> cr_ok c = true ->
    parse files main = Ok p -> pr_root p = Some root ->
    RefHaltStatements.loop_only root = true ->
    abstract_source (Some root) = Some rs ->
    (forall fuel, run_ref_chk fuel rs <> OBad) ->
    exists k s, vm_run k (init (cr_prog c)) = Ok s /\ isDone s = Ok true.
