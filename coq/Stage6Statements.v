(* Stage6Statements.v — C01 without the layout condition: the values of a statement may stand on other lines than the
   statement (the generator then places breakpoint sites in the middle of the value's code, the flattener places the
   corresponding RSite pseudo-instructions in front of the statement's instruction).  Sites are no-ops for C01. *)
From Theo Require Import Base Regex Tokens Errors Lexer Scan MacroExtract Grammar LR MacroApply Parser VMModel VMSpec GenModel Compile
                         RefSem RefSemChk C01Statements C01Stages C01Stages3 C01Stages4 NamesStatements Gen_Lexer Gen_Consts.
Local Open Scope Z_scope.

(* tree level: the shape the parser builds (shape4 = prog4 without layout conditions), definitions on the line of their
   sequence node, identifiers without blanks (so that none is one of the generator's own register names and the VM's
   hidden loop counters can be told from user variables in a view) *)
Definition C01_anylayout_stmt : Prop :=
  forall root r rs fuel rviews steps trace,
    shape4 root = true -> headers_ok root = true -> lexable_names root = true ->
    gen true [] (Some root) = Ok r -> gr_ok r = true ->
    abstract_source (Some root) = Some rs ->
    run_ref_chk fuel rs = OStop rviews steps trace ->
    sim_conclusion r rviews steps.

Definition C01_anylayout_budget_stmt : Prop :=
  forall root r rs n s,
    shape4 root = true -> headers_ok root = true -> lexable_names root = true ->
    gen true [] (Some root) = Ok r -> gr_ok r = true ->
    abstract_source (Some root) = Some rs ->
    run_ref_chk n rs = OFuel ->
    vm_run n (init (gr_prog r)) = Ok s -> isDone s = Ok false.

(* from source text, with no condition on the program at all: every successful compilation of files whose names contain
   no blank (a renamed macro temporary carries the name of its file) *)
Definition C01_every_source_stmt : Prop :=
  forall files main c p root rs,
    Forall (fun kv => lexable (fst kv) = true) files ->
    compile files main = Ok c -> cr_ok c = true ->
    parse files main = Ok p -> pr_root p = Some root ->
    abstract_source (Some root) = Some rs ->
    (forall fuel rviews steps trace, run_ref_chk fuel rs = OStop rviews steps trace ->
       exists k s vmviews,
         vm_run k (init (cr_prog c)) = Ok s /\ isDone s = Ok true /\
         views s = Ok vmviews /\ Forall2 view_agrees vmviews rviews /\ (steps <= k)%nat) /\
    (forall n s, run_ref_chk n rs = OFuel -> vm_run n (init (cr_prog c)) = Ok s -> isDone s = Ok false).
