(* Proofs_C01s6i.v — C01, stage 6 (any layout), part 4: the STATIC part, values (1): arguments.
   As Proofs_C01s4i.v, without a layout condition: every value node may stand on a new line; then both traversals
   place a site there (L6_ghost), the generator in the middle of the code, the flattener in the reference code.
   The result of compiling a value (VRes6) counts the sites placed inside it; a value all of whose nodes stand on the
   line where the text already is gets none. *)
From Coq Require Import List ZArith NArith Lia Bool.
From Theo Require Import Base Tokens Errors MacroExtract Parser VMModel VMSpec GenModel Compile RefSem RefSemChk C01Statements C01Stages C01Stages3 C01Stages4 Gen_Consts Proofs_VM_mem Proofs_VM_dbg Proofs_Gen0 Proofs_Gen Proofs_Sem Proofs_C01a Proofs_C01b Proofs_C01 Proofs_C01s2a Proofs_C01s2b Proofs_C01s2c Proofs_C01s2d Proofs_C01s2 Proofs_C01s3a Proofs_C01s3b Proofs_C01s3c Proofs_C01s3d Proofs_C01s4a Proofs_C01s4b Proofs_C01s4g Proofs_C01s4h Proofs_C01s4i Proofs_C01s6a Proofs_C01s6g Proofs_C01s6h.
Import ListNotations.
Local Open Scope Z_scope.

(* the registers in use are those of the top table: a site does not touch them *)
Lemma InUse_syms g g' t : g_syms g' = g_syms g -> InUse g t -> InUse g' t.
Proof. intros E (r & Hz & Hu). exists r. unfold gregs in *. rewrite E. auto. Qed.

Lemma GF_syms FT g g' s s' : GF FT g s -> g_funcs g' = g_funcs g -> f_done s' = f_done s -> f_names s' = f_names s -> GF FT g' s'.
Proof.
  intros H Ef Ed En name j Hl. rewrite En in Hl. destruct (H _ _ Hl) as (callee & p & A & B & Cc & D).
  exists callee, p. rewrite Ed, Ef. auto.
Qed.

Section Args6.
  Variable P0 : Z.
  Variable FT : ftab.
  Variable LS : list Z.
  Variable W : rvalue -> Prop.
  Notation J6 := (J6 P0 FT LS W).

  (* the result of compiling a value into register tgt: p instructions and gh sites pending before it, n sites inside *)
  Record VRes6 (g g' : gstate) (s s' : fstate) (lmap : list Z) (p gh : Z) (rv : rvalue) (tgt n : Z) : Prop := mkVRes6 {
    vr6_J : J6 (gh + n) g' s' lmap (p + vlen4 rv);
    vr6_ext : Ext g g';
    vr6_fext : FExt s s';
    vr6_len : zlen (g_code g') = zlen (g_code g) + vlen4 rv + n;
    vr6_match : vmatch6 (RMof (gks g')) (g_code g') FT rv tgt (zlen (g_code g)) (Sfree g) n;
    vr6_inuse : forall t, InUse g t -> InUse g' t }.

  Definition PV6 (v : node) : Prop :=
    value4 v = true -> lexable_names v = true ->
    forall gh g s lmap p tgt g' s' rv, J6 gh g s lmap p -> GF FT g s ->
      dispatch_value false v tgt g = Ok g' -> flat_value v s = Some (s', rv) ->
      exists n, VRes6 g g' s s' lmap p gh rv tgt n /\
        (* a value on the line where the text stands: no site inside *)
        (forall f0 l0, on_line f0 l0 v = true -> at_loc (gpos g) f0 l0 -> n = 0 /\ gpos g' = gpos g).

  (* ---- the argument list ---- *)
  Lemma N6_args : forall a, all_sub PV6 a -> vargs4 a = true -> lexable_names a = true ->
    forall gh g s lmap p arglocs vs g' al' s' vs', J6 gh g s lmap p -> GF FT g s ->
      call_args (dispatch_value false) a (g, arglocs) = Ok (g', al') -> fargs a (s, vs) = Some (s', vs') ->
      exists ts rvs n, al' = arglocs ++ ts /\ vs' = vs ++ rvs /\ length rvs = nargs a /\
        J6 (gh + n) g' s' lmap (p + alen4 rvs) /\ Ext g g' /\ FExt s s' /\
        zlen (g_code g') = zlen (g_code g) + alen4 rvs + n /\
        (forall f0 l0, on_line f0 l0 a = true -> at_loc (gpos g) f0 l0 -> n = 0 /\ gpos g' = gpos g) /\
        (forall t, InUse g t -> InUse g' t) /\ (forall t, In t ts -> InUse g' t /\ RT g' t /\ Sfree g t) /\
        forall (S : Z -> Prop) prot, (forall t, Sfree g t -> S t) -> (forall t, In t prot -> InUse g t) ->
          amatch6 (RMof (gks g')) (g_code g') FT rvs ts (zlen (g_code g)) S prot n.
  Proof.
    induction a as [t line file tok l r IHl IHr] using Proofs_Gen0.node_ind'.
    intros Hall Hsh Hlex gh g s lmap p arglocs vs g' al' s' vs' HJ HG HD HF.
    destruct t; try discriminate Hsh. destruct l as [v|]; [|discriminate Hsh].
    cbn [vargs4] in Hsh. apply andb_true_iff in Hsh. destruct Hsh as [Hv4 Hmore].
    cbn [all_sub] in Hall. destruct Hall as (_ & Hallv & Hallr). pose proof (all_sub_here _ _ Hallv) as HPv.
    cbn [lexable_names] in Hlex. rewrite !andb_true_iff in Hlex. destruct Hlex as [[_ Hlv] Hlr].
    rewrite call_args_split in HD. cbn [call_args_o] in HD.
    rewrite fargs_eq in HF. cbn [fargs_opt] in HF.
    (* the first argument is a leaf for call_args / fargs *)
    assert (Hleaf : n_type v <> N_SPLIT).
    { destruct v as [tv ? ? ? ? ?]. destruct tv; cbn [value4] in Hv4; try discriminate Hv4; cbn; discriminate. }
    rewrite call_args_leaf in HD by exact Hleaf. cbn [fst snd] in HD.
    assert (HFl : fargs v (s, vs) = match flat_value v s with Some (s1, rv) => Some (s1, vs ++ [rv]) | None => None end).
    { destruct v as [tv lv fv kv av bv]. rewrite fargs_eq. destruct tv; try reflexivity. exfalso. apply Hleaf. reflexivity. }
    rewrite HFl in HF. clear HFl.
    destruct (L6_tmp P0 FT LS W g s lmap p HJ) as (g1 & t1 & E1 & J1 & X1 & S1 & T1 & U1 & K1).
    rewrite E1 in HD. cbn [bind] in HD. cbv beta iota in HD.
    destruct (dispatch_value false v t1 g1) as [g2| |] eqn:ED; cbn [bind] in HD; try discriminate.
    destruct (flat_value v s) as [[s1 rv]|] eqn:EF; [|discriminate].
    assert (HG1 : GF FT g1 s) by (eapply GF_ext; [exact HG | exact X1 | apply FExt_refl]).
    destruct (HPv Hv4 Hlv gh g1 s lmap p t1 g2 s1 rv J1 HG1 ED EF) as (n1 & [RJ RX RF RL RM RU] & RLn).
    assert (Hln1 : forall f0 l0, on_line f0 l0 (Node N_SPLIT line file tok (Some v) r) = true -> at_loc (gpos g) f0 l0 ->
              n1 = 0 /\ gpos g2 = gpos g /\ match r with Some m => on_line f0 l0 m = true | None => True end).
    { intros f0 l0 Hon Ha. cbn [on_line] in Hon. rewrite !andb_true_iff in Hon. destruct Hon as [[_ Hv] Hm].
      destruct (RLn f0 l0 Hv ltac:(rewrite (sm_pos _ _ S1); exact Ha)) as [A B].
      split; [exact A|]. split; [rewrite B; exact (sm_pos _ _ S1)|]. destruct r; auto. }
    pose proof (vmatch6_nonneg _ _ _ _ _ _ _ _ RM) as Hn1.
    assert (Hmono1 : forall t0, InUse g t0 -> InUse g1 t0).
    { intros t0 (r0 & Hz0 & Hu0). destruct (K1 _ _ Hz0 Hu0) as (_ & r'' & A & B). exists r''. auto. }
    assert (Hfree1 : Sfree g t1).
    { intros (r0 & Hz0 & Hu0). destruct (K1 _ _ Hz0 Hu0) as (A & _). apply A. reflexivity. }
    assert (X02 : Ext g g2) by (eapply Ext_trans; eauto).
    destruct r as [m|].
    - (* more arguments *)
      cbn [call_args_o] in HD. cbn [fargs_opt] in HF. cbn [optP] in IHr.
      assert (HG2 : GF FT g2 s1) by (eapply GF_ext; eauto).
      destruct (IHr Hallr Hmore Hlr (gh + n1) g2 s1 lmap (p + vlen4 rv) (arglocs ++ [t1]) (vs ++ [rv]) g' al' s' vs' RJ HG2 HD HF)
        as (ts & rvs & n2 & Eal & Evs & Hlen & JF & XF & FF & LF & LnF & UF & TF & AF).
      exists (t1 :: ts), (rv :: rvs), (n1 + n2). rewrite <- app_assoc in Eal, Evs. cbn [app] in Eal, Evs.
      split; [exact Eal|]. split; [exact Evs|]. split; [cbn [length nargs]; rewrite Hlen; reflexivity|].
      cbn [alen4]. split; [replace (p + (vlen4 rv + alen4 rvs)) with (p + vlen4 rv + alen4 rvs) by lia;
                            replace (gh + (n1 + n2)) with (gh + n1 + n2) by lia; exact JF|].
      split; [eapply Ext_trans; eauto|]. split; [eapply FExt_trans; eauto|]. split; [rewrite <- (sm_code _ _ S1); lia|].
      split.
      { intros f0 l0 Hon Ha. destruct (Hln1 f0 l0 Hon Ha) as (A & B & Hm).
        destruct (LnF f0 l0 Hm ltac:(rewrite B; exact Ha)) as [A2 B2]. split; [lia | rewrite B2; exact B]. }
      split; [intros t0 H0; apply UF, RU, Hmono1; exact H0|]. split.
      + intros t0 [<-|Hin].
        * split; [apply UF, RU; exact U1|]. split; [apply (RT_ext _ _ _ (Ext_trans _ _ _ RX XF)); exact T1 | exact Hfree1].
        * destruct (TF _ Hin) as (A & B & Cc). split; [exact A|]. split; [exact B|].
          intros H0. apply Cc. apply RU, Hmono1. exact H0.
      + intros S prot HS Hprot.
        eapply AM6_cons with (S1 := Sfree g1).
        * apply (RT_ext _ _ _ (Ext_trans _ _ _ RX XF)); exact T1.
        * apply HS; exact Hfree1.
        * intros Hin. apply Hfree1. apply Hprot; exact Hin.
        * intros x Hx. split; [apply HS; intros H0; apply Hx, Hmono1; exact H0|].
          intros Hin. apply Hx, Hmono1, Hprot; exact Hin.
        * destruct (vmatch6_move (RMof (gks g2)) (RMof (gks g')) (g_code g2) (g_code g') FT FT (Ext_rm _ _ XF) (fun j x H => H)) as [Mv _].
          rewrite <- (sm_code _ _ S1). eapply Mv; [exact RM | auto |].
          destruct XF as (_ & [blk ->] & _). intros q' ins _ Hz _. apply znth_app_some; exact Hz.
        * rewrite <- (sm_code _ _ S1). replace (zlen (g_code g1) + vlen4 rv + n1) with (zlen (g_code g2)) by lia.
          apply AF.
          -- intros t0 H0. apply HS. intros H1. apply H0, RU, Hmono1; exact H1.
          -- intros t0 Hin. apply in_app_or in Hin. destruct Hin as [Hin|[<-|[]]]; [apply RU, Hmono1, Hprot; exact Hin | apply RU; exact U1].
    - (* the last argument *)
      cbn [call_args_o] in HD. cbn [fargs_opt] in HF. inversion HD; subst g' al'. inversion HF; subst s' vs'.
      exists [t1], [rv], n1. split; [reflexivity|]. split; [reflexivity|]. split; [reflexivity|].
      cbn [alen4]. rewrite Z.add_0_r. split; [exact RJ|]. split; [exact X02|]. split; [exact RF|].
      split; [rewrite <- (sm_code _ _ S1); exact RL|].
      split; [intros f0 l0 Hon Ha; destruct (Hln1 f0 l0 Hon Ha) as (A & B & _); auto|].
      split; [intros t0 H0; apply RU, Hmono1; exact H0|]. split.
      + intros t0 [<-|[]]. split; [apply RU; exact U1|]. split; [apply (RT_ext _ _ _ RX); exact T1 | exact Hfree1].
      + intros S prot HS Hprot. replace n1 with (n1 + 0) by lia.
        eapply AM6_cons with (S1 := Sfree g1).
        * apply (RT_ext _ _ _ RX); exact T1.
        * apply HS; exact Hfree1.
        * intros Hin. apply Hfree1. apply Hprot; exact Hin.
        * intros x Hx. split; [apply HS; intros H0; apply Hx, Hmono1; exact H0|].
          intros Hin. apply Hx, Hmono1, Hprot; exact Hin.
        * rewrite <- (sm_code _ _ S1). exact RM.
        * constructor.
  Qed.
End Args6.
