#!/usr/bin/env python3
# setup.py — MANIFEST.setup_cmd: translators, full Coq build, extraction + model driver, implementation drivers.
import os, sys, subprocess
sys.path.insert(0, os.path.dirname(os.path.abspath(__file__)))
import vlib, translate
r = translate.run_all()
for k, v in r.items():
    print('translate', k, 'ok' if v is None else 'FAILED ' + v)
coq = vlib.COQ
subprocess.run(['coq_makefile', '-f', '_CoqProject', '-o', 'Makefile'], cwd=coq, check=True, stdout=subprocess.DEVNULL)
p = subprocess.run(['timeout', '5400', 'make', '-k', '-j16'], cwd=coq, stdout=subprocess.PIPE, stderr=subprocess.STDOUT, text=True)
print(p.stdout[-3000:])
ok = p.returncode == 0
exe, err = vlib.build_model()
print('model driver:', exe, err or '')
for v in ('plain', 'asan'):
    exe2, err2 = vlib.build_impl(v)
    print('impl driver', v, exe2, (err2 or '')[:2000])
    ok = ok and exe2 is not None
sys.exit(0 if ok and exe else 1)
