#!/usr/bin/env python3
# translate.py — regenerates coq/Gen_*.v from /repo's current working tree (DESIGN.md §4.1).
#   Gen_Lexer.v   : the rule list of Compiler/src/lexer.l as Regex.regex values, in rule order
#   Gen_Enums.v   : numbering of Token::Type, OpCode, ParseError::Type, Node::Type, CodegenResult::Error::Type
#   Gen_Consts.v  : THEO_MACRO_PASSES, standard-macro text, include phrase, name pieces of temporaries / loop counters
#   Gen_MacroGrammar.v : the detector grammar of macro.cpp (G.add block) and the slot -> non-terminal switch
#   Gen_Flex.v    : DFA tables of the committed lex.yy.c and of a flex run made now
#   Gen_Statics.v : writable objects with static storage duration in the compiled objects (nm)
# A file is rewritten only when its content changes (so make does not rebuild needlessly).
# A translator that cannot parse what it finds raises; the caller reports the obligation as broken.
import os, re, subprocess, sys, tempfile, shutil

REPO = os.environ.get('THEO_REPO', '/repo')
VERIF = os.path.dirname(os.path.dirname(os.path.abspath(__file__)))
COQ = os.path.join(VERIF, 'coq')


class TranslateError(Exception):
    pass


def write_if_changed(name, text):
    p = os.path.join(COQ, name)
    old = open(p).read() if os.path.exists(p) else None
    if old != text:
        with open(p, 'w') as f:
            f.write(text)
        return True
    return False


def coq_str(s):
    """python bytes/str -> Coq list N literal"""
    if isinstance(s, str):
        s = s.encode('latin-1')
    return '[' + '; '.join(str(b) for b in s) + ']'


# ---------------------------------------------------------------------------------------------
# lexer.l
# ---------------------------------------------------------------------------------------------
class RegexParser:
    def __init__(self, text, defs):
        self.t = text
        self.i = 0
        self.defs = defs

    def peek(self):
        return self.t[self.i] if self.i < len(self.t) else None

    def eat(self):
        c = self.t[self.i]
        self.i += 1
        return c

    def escape(self):
        c = self.eat()
        table = {'n': 10, 't': 9, 'r': 13, 'f': 12, 'a': 7, 'b': 8, 'v': 11, '0': 0}
        if c == 'x':
            h = ''
            while self.peek() is not None and self.peek() in '0123456789abcdefABCDEF' and len(h) < 2:
                h += self.eat()
            return int(h, 16)
        if c in table:
            return table[c]
        return ord(c)

    def regex(self):
        a = self.concat()
        while self.peek() == '|':
            self.eat()
            b = self.concat()
            a = 'Alt (%s) (%s)' % (a, b)
        return a

    def concat(self):
        parts = []
        while self.peek() is not None and self.peek() not in '|)':
            parts.append(self.repeat())
        if not parts:
            return 'Eps'
        r = parts[-1]
        for p in reversed(parts[:-1]):
            r = 'Cat (%s) (%s)' % (p, r)
        return r

    def repeat(self):
        a = self.atom()
        while self.peek() is not None and self.peek() in '*+?':
            c = self.eat()
            a = {'*': 'Star (%s)', '+': 'Plus (%s)', '?': 'Opt (%s)'}[c] % a
        return a

    def atom(self):
        c = self.eat()
        if c == '(':
            r = self.regex()
            if self.eat() != ')':
                raise TranslateError('unbalanced parenthesis in ' + self.t)
            return r
        if c == '[':
            neg = False
            if self.peek() == '^':
                self.eat()
                neg = True
            items = []
            first = True
            while True:
                if self.peek() is None:
                    raise TranslateError('unterminated class in ' + self.t)
                if self.peek() == ']' and not first:
                    self.eat()
                    break
                first = False
                ch = self.eat()
                lo = self.escape() if ch == '\\' else ord(ch)
                hi = lo
                if self.peek() == '-' and self.i + 1 < len(self.t) and self.t[self.i + 1] != ']':
                    self.eat()
                    ch = self.eat()
                    hi = self.escape() if ch == '\\' else ord(ch)
                items.append((lo, hi))
            return 'Rng %s [%s]' % ('true' if neg else 'false', '; '.join('(%d, %d)' % x for x in items))
        if c == '{':
            j = self.t.index('}', self.i)
            name = self.t[self.i:j]
            self.i = j + 1
            if name not in self.defs:
                raise TranslateError('unknown definition {%s}' % name)
            return self.defs[name]
        if c == '.':
            return 'Any'
        if c == '\\':
            return 'Chr %d' % self.escape()
        if c == '"':
            bs = []
            while self.peek() != '"':
                if self.peek() is None:
                    raise TranslateError('unterminated string in ' + self.t)
                ch = self.eat()
                bs.append(self.escape() if ch == '\\' else ord(ch))
            self.eat()
            return 'Lit [%s]' % '; '.join(map(str, bs))
        if c in '^$/<' and c != '<':
            raise TranslateError('unsupported flex operator %r in %s' % (c, self.t))
        return 'Chr %d' % ord(c)


def split_pattern(line):
    """flex: the pattern ends at the first unquoted, unbracketed, unescaped blank"""
    i = 0
    inbr = False
    inq = False
    while i < len(line):
        c = line[i]
        if c == '\\':
            i += 2
            continue
        if inq:
            if c == '"':
                inq = False
        elif inbr:
            if c == ']':
                inbr = False
        elif c == '"':
            inq = True
        elif c == '[':
            inbr = True
        elif c in ' \t':
            break
        i += 1
    return line[:i], line[i:].strip()


def tr_lexer():
    src = open(os.path.join(REPO, 'Compiler/src/lexer.l'), encoding='latin-1').read()
    parts = re.split(r'^%%[ \t]*$', src, flags=re.M)
    if len(parts) < 2:
        raise TranslateError('lexer.l: no %% separator')
    head, rules_txt = parts[0], parts[1]
    # definitions section: drop %{ ... %} blocks and % lines
    head = re.sub(r'^%\{.*?^%\}', '', head, flags=re.M | re.S)
    opts = []
    defs = {}
    for line in head.split('\n'):
        if not line.strip():
            continue
        if line.startswith('%'):
            opts.append(line.strip())
            continue
        m = re.match(r'^([A-Za-z_][A-Za-z0-9_-]*)[ \t]+(.*\S)[ \t]*$', line)
        if not m:
            raise TranslateError('lexer.l: cannot read definition line %r' % line)
        name, pat = m.group(1), m.group(2)
        p = RegexParser(pat, defs)
        r = p.regex()
        if p.i != len(pat):
            raise TranslateError('lexer.l: trailing input in definition %r' % line)
        defs[name] = r
    # options that change matching semantics must be the ones the model assumes
    optwords = ' '.join(opts).replace('%option', ' ').split()
    known = {'nounistd', 'never-interactive', 'reentrant', 'noyywrap', 'yylineno', 'noline'}
    for w in optwords:
        if w.startswith('extra-type='):
            continue
        if w not in known:
            raise TranslateError('lexer.l: option %r is not covered by the model' % w)
    if 'yylineno' not in optwords:
        raise TranslateError('lexer.l: %option yylineno missing (token lines would change)')
    rules = []
    for line in rules_txt.split('\n'):
        if not line.strip():
            continue
        if line[0] in ' \t':
            raise TranslateError('lexer.l: indented code in rules section is not covered: %r' % line)
        pat, act = split_pattern(line)
        p = RegexParser(pat, defs)
        r = p.regex()
        if p.i != len(pat):
            raise TranslateError('lexer.l: cannot parse pattern %r' % pat)
        if act == '{}':
            a = 'None'
        else:
            m = re.match(r'^\{TOK\(Theo::Token::(?:Type::)?([A-Za-z_]+)\)\}$', act)
            if not m:
                raise TranslateError('lexer.l: action not covered by the model: %r' % act)
            a = 'Some %s' % m.group(1)
        rules.append((pat, r, a))
    # the TOK macro decides text, file and line of a token
    m = re.search(r'#define TOK\(t\) (.*)', src)
    tok_macro = m.group(1).strip() if m else ''
    expected = '{*ret = Theo::Token(t, std::string(yytext, yyleng), yyextra->filename, yylineno); return 1;}'
    legacy = '{*ret = Theo::Token(t, std::string(yytext), yyextra->filename, yylineno); return 1;}'
    if tok_macro == expected:
        cut = 'false'
    elif tok_macro == legacy:
        cut = 'true'
    else:
        raise TranslateError('lexer.l: TOK macro not covered by the model: %r' % tok_macro)
    out = ['(* GENERATED by tools/translate.py from Compiler/src/lexer.l — do not edit *)',
           'From Theo Require Import Base Regex Tokens Lexer.', 'Local Open Scope N_scope.', '',
           '(* std::string(yytext) instead of std::string(yytext, yyleng): token text cut at a NUL byte *)',
           'Definition tok_text_cstring : bool := %s.' % cut, '',
           'Definition rules : list rule := [']
    for k, (pat, r, a) in enumerate(rules):
        out.append('  (* %2d: %s *)' % (k, pat.replace('*)', '* )').replace('(*', '( *')))
        out.append('  (%s, %s)%s' % (r, a, ';' if k + 1 < len(rules) else ''))
    out.append('].')
    out.append('')
    return '\n'.join(out) + '\n'


# ---------------------------------------------------------------------------------------------
# enumerations
# ---------------------------------------------------------------------------------------------
def parse_enum(text, header_re, what):
    m = re.search(header_re + r'\s*\{(.*?)\}', text, flags=re.S)
    if not m:
        raise TranslateError('enum %s not found' % what)
    body = re.sub(r'/\*.*?\*/', '', m.group(1), flags=re.S)
    body = re.sub(r'//[^\n]*', '', body)
    out = []
    nxt = 0
    for item in body.split(','):
        item = item.strip()
        if not item:
            continue
        mm = re.match(r'^([A-Za-z_][A-Za-z0-9_]*)(?:\s*=\s*(-?\d+))?$', item)
        if not mm:
            raise TranslateError('enum %s: cannot read %r' % (what, item))
        if mm.group(2) is not None:
            nxt = int(mm.group(2))
        out.append((mm.group(1), nxt))
        nxt += 1
    return out


def tr_enums():
    tok = open(os.path.join(REPO, 'Compiler/include/token.hpp')).read()
    ins = open(os.path.join(REPO, 'VM/include/instr.hpp')).read()
    pe = open(os.path.join(REPO, 'Compiler/include/parse_error.hpp')).read()
    ast = open(os.path.join(REPO, 'Compiler/include/ast.hpp')).read()
    gen = open(os.path.join(REPO, 'Compiler/include/gen.hpp')).read()
    enums = [
        ('token_enum', parse_enum(tok, r'enum\s+Type', 'Token::Type')),
        ('opcode_enum', parse_enum(ins, r'enum\s+class\s+OpCode', 'OpCode')),
        ('perr_enum', parse_enum(pe, r'enum\s+Type', 'ParseError::Type')),
        ('node_enum', parse_enum(ast, r'enum\s+class\s+Type', 'Node::Type')),
        ('generr_enum', parse_enum(gen, r'enum\s+class\s+Type', 'CodegenResult::Error::Type')),
    ]
    out = ['(* GENERATED by tools/translate.py from token.hpp, instr.hpp, parse_error.hpp, ast.hpp, gen.hpp — do not edit *)',
           'From Coq Require Import String ZArith List.', 'Import ListNotations.', 'Local Open Scope string_scope.', '']
    for name, items in enums:
        out.append('Definition %s : list (string * Z) := [' % name)
        out.append(';\n'.join('  ("%s", %d%%Z)' % (n, v) for n, v in items))
        out.append('].')
        out.append('')
    return '\n'.join(out) + '\n'


# ---------------------------------------------------------------------------------------------
# constants
# ---------------------------------------------------------------------------------------------
def c_string_literal(body):
    """decode a C string literal body with line continuations"""
    body = body.replace('\\\n', '')
    out = bytearray()
    i = 0
    while i < len(body):
        c = body[i]
        if c == '\\':
            i += 1
            e = body[i]
            out.append({'n': 10, 't': 9, '"': 34, '\\': 92, '0': 0, 'r': 13}.get(e, ord(e)))
        else:
            out.append(ord(c))
        i += 1
    return bytes(out)


def tr_consts():
    ph = open(os.path.join(REPO, 'Compiler/include/parse.hpp')).read()
    m = re.search(r'#define\s+THEO_MACRO_PASSES\s+(\d+)', ph)
    if not m:
        raise TranslateError('THEO_MACRO_PASSES not found')
    passes = int(m.group(1))
    pc = open(os.path.join(REPO, 'Compiler/src/parse.cpp')).read()
    m = re.search(r'std::string standard_macros =\s*"((?:[^"\\]|\\.|\\\n)*)";', pc, flags=re.S)
    if not m:
        raise TranslateError('standard_macros literal not found')
    std = c_string_literal(m.group(1))
    m = re.search(r'std::string incl_phrase = "((?:[^"\\]|\\.)*)";', pc)
    if not m:
        raise TranslateError('incl_phrase not found')
    incl = c_string_literal(m.group(1))
    m = re.search(r'files\["((?:[^"\\]|\\.)*)"\] = standard_macros;|files\.insert\(std::make_pair\("((?:[^"\\]|\\.)*)", standard_macros\)\);', pc)
    if not m:
        raise TranslateError('registration of the standard-macro file not found')
    stdname = c_string_literal(m.group(1) or m.group(2))
    std_replace = 'true' if m.group(1) else 'false'
    m = re.search(r'apply_macros\(mer\.tokens, mer\.macros, (\w+)\)', pc)
    if not m or m.group(1) != 'THEO_MACRO_PASSES':
        raise TranslateError('parse() does not pass THEO_MACRO_PASSES to apply_macros')
    mc = open(os.path.join(REPO, 'Compiler/src/macro.cpp')).read()
    m = re.search(r'std::string text = cand\.text \+ "([^"]*)" \+ cand\.file \+ "([^"]*)" \+\s*std::to_string\(def\.replacement\[0\]\.line\) \+ "([^"]*)" \+\s*std::to_string\(pass\) \+ "([^"]*)";', mc)
    if not m:
        raise TranslateError('temporary-name format in get_replacement not recognised')
    t1, t2, t3, t4 = [c_string_literal(x) for x in m.groups()]
    gc = open(os.path.join(REPO, 'Compiler/src/gen.cpp')).read()
    m = re.search(r'std::string loop_counter = "([^"]*)" \+ gs\.fs\.name \+ "([^"]*)" \+\s*std::to_string\(gs\.fs\.line\) \+ "([^"]*)" \+\s*std::to_string\(gs\.loops\) \+ "([^"]*)";', gc)
    if not m:
        raise TranslateError('loop-counter name format not recognised')
    l1, l2, l3, l4 = [c_string_literal(x) for x in m.groups()]
    m = re.search(r'if \(file == "([^"]*)"\)\s*return;', gc)
    if not m:
        raise TranslateError('advanceLine: hidden-file test not found')
    hidden = c_string_literal(m.group(1))
    # the generator's initial file state:  .fs = { .name = "...", .line = N }
    m = re.search(r'\.fs\s*=\s*\{\s*\.name\s*=\s*"((?:[^"\\]|\\.)*)"\s*,\s*\.line\s*=\s*(-?\d+)\s*,?\s*\}', gc)
    if not m:
        raise TranslateError('gen.cpp: initial file state of the generator not found')
    root_file, root_line = c_string_literal(m.group(1)), int(m.group(2))
    out = ['(* GENERATED by tools/translate.py from parse.hpp, parse.cpp, macro.cpp, gen.cpp — do not edit *)',
           'From Theo Require Import Base.', 'Local Open Scope N_scope.', '',
           'Definition macro_passes : N := %d.' % passes,
           'Definition standard_macros : str := %s.' % coq_str(std),
           'Definition incl_phrase : str := %s.' % coq_str(incl),
           'Definition standards_name : str := %s.' % coq_str(stdname),
           '(* true: files[name] = text (the hidden file cannot be supplied by the user); false: files.insert *)',
           'Definition standards_replace : bool := %s.' % std_replace,
           'Definition temp_sep1 : str := %s.' % coq_str(t1),
           'Definition temp_sep2 : str := %s.' % coq_str(t2),
           'Definition temp_sep3 : str := %s.' % coq_str(t3),
           'Definition temp_sep4 : str := %s.' % coq_str(t4),
           'Definition loopvar_p1 : str := %s.' % coq_str(l1),
           'Definition loopvar_p2 : str := %s.' % coq_str(l2),
           'Definition loopvar_p3 : str := %s.' % coq_str(l3),
           'Definition loopvar_p4 : str := %s.' % coq_str(l4),
           'Definition hidden_file : str := %s.' % coq_str(hidden),
           '(* the position the generator starts from, before any token has been visited *)',
           'Definition gen_root_file : str := %s.' % coq_str(root_file),
           'Definition gen_root_line : Z := %s%%Z.' % (str(root_line) if root_line >= 0 else '(%d)' % root_line),
           '']
    return '\n'.join(out) + '\n'


# ---------------------------------------------------------------------------------------------
# detector grammar of macro.cpp
# ---------------------------------------------------------------------------------------------
def tr_macrogrammar():
    mc = open(os.path.join(REPO, 'Compiler/src/macro.cpp')).read()
    m = re.search(r'auto ((?:\w+ = G\.createNonTerminal\(\),?\s*)+);', mc)
    if not m:
        raise TranslateError('non-terminal declarations of the detector grammar not found')
    nts = re.findall(r'(\w+) = G\.createNonTerminal\(\)', m.group(1))
    ntidx = {n: i for i, n in enumerate(nts)}
    start = mc.index(m.group(0)) + len(m.group(0))
    end = mc.index('// construct start symbol from macro definition')
    block = mc[start:end]
    rules = []
    for mm in re.finditer(r'G\.add\((.*?),\s*default_accumulator\);', block, flags=re.S):
        body = ' '.join(mm.group(1).split())
        mr = re.match(r'^(\w+) >>\s*(.*)$', body)
        if not mr:
            raise TranslateError('cannot read grammar rule %r' % body)
        lhs, rhs = mr.group(1), mr.group(2).strip()
        if rhs.startswith('(') and rhs.endswith(')'):
            rhs = rhs[1:-1]
        syms = []
        for part in re.split(r',\s*(?![^()]*\))', rhs):
            part = part.strip()
            mt = re.match(r'^term\(Token::(\w+)\)$', part)
            if mt:
                syms.append('T %s' % mt.group(1))
            elif part in ntidx:
                syms.append('NT %d' % ntidx[part])
            else:
                raise TranslateError('cannot read grammar symbol %r in %r' % (part, body))
        if lhs not in ntidx:
            raise TranslateError('unknown left side %r' % lhs)
        rules.append((ntidx[lhs], syms))
    n_add = len(re.findall(r'G\.add\(', block))
    if n_add != len(rules):
        raise TranslateError('detector grammar: %d G.add calls but %d rules read' % (n_add, len(rules)))
    # slot -> non-terminal switch
    sw = mc[end:mc.index('G.add(MACRO >> sym')]
    slots = re.findall(r'case Token::(\w+):\s*sym\.push_back\((\w+)\);', sw)
    if 'default:' not in sw or 'sym.push_back(term(t.t));' not in sw:
        raise TranslateError('slot switch: default branch not recognised')
    if 'MACRO' not in ntidx:
        raise TranslateError('MACRO non-terminal missing')
    # prefix mode and eof terminal of the detector
    m = re.search(r'LRParser<Accumulation, Token>\(G, (\w+), transformer, creator, (\w+),\s*Grammar::Symbol::Terminal\(Token::(\w+)\)\)', mc)
    if not m:
        raise TranslateError('construction of the detector parser not recognised')
    out = ['(* GENERATED by tools/translate.py from Compiler/src/macro.cpp (MacroDetector) — do not edit *)',
           'From Theo Require Import Base Tokens.', 'Local Open Scope nat_scope.', '',
           'Inductive gsym := T (k : tkind) | NT (n : nat).', '',
           '(* non-terminals in creation order: %s *)' % ', '.join('%s=%d' % (n, i) for n, i in ntidx.items()),
           'Definition detector_nonterminals : nat := %d.' % len(nts),
           'Definition nt_MACRO : nat := %d.' % ntidx['MACRO'],
           'Definition detector_rules : list (nat * list gsym) := [']
    out.append(';\n'.join('  (%d, [%s])' % (l, '; '.join(s)) for l, s in rules))
    out.append('].')
    out.append('Definition slot_nonterminal (k : tkind) : option nat :=')
    out.append('  match k with')
    for tk, nt in slots:
        if nt not in ntidx:
            raise TranslateError('slot switch: unknown non-terminal %r' % nt)
        out.append('  | %s => Some %d' % (tk, ntidx[nt]))
    out.append('  | _ => None')
    out.append('  end.')
    out.append('Definition detector_prefix_mode : bool := %s.' % m.group(1))
    out.append('Definition detector_start : nat := %d.' % ntidx[m.group(2)])
    out.append('Definition detector_eof : tkind := %s.' % m.group(3))
    out.append('')
    return '\n'.join(out) + '\n'


# ---------------------------------------------------------------------------------------------
# writable objects with static storage duration (C18)
# ---------------------------------------------------------------------------------------------
def tr_statics():
    import hashlib, tempfile, shutil
    srcs = ['Compiler/src/ast.cpp', 'Compiler/src/parse.cpp', 'Compiler/src/gen.cpp', 'Compiler/src/compiler.cpp', 'Compiler/src/scan.cpp',
            'Compiler/src/macro.cpp', 'Compiler/src/ParserGenerator/grammar.cpp', 'Compiler/src/ParserGenerator/lrdea.cpp', 'Compiler/src/lex.yy.c',
            'VM/src/instr.cpp', 'VM/src/vm.cpp', 'VM/src/program.cpp']
    h = hashlib.sha256()
    for root in ('Compiler', 'VM'):
        for d, _, fs in sorted(os.walk(os.path.join(REPO, root))):
            if '/test' in d:
                continue
            for f in sorted(fs):
                if f.endswith(('.cpp', '.hpp', '.h', '.c', '.l')):
                    h.update(f.encode())
                    h.update(open(os.path.join(d, f), 'rb').read())
    cache = os.path.join(VERIF, '.cache', 'statics-' + h.hexdigest()[:20] + '.txt')
    if os.path.exists(cache):
        syms = open(cache).read().split('\n')
    else:
        scratch = tempfile.mkdtemp(prefix='theo-nm.', dir='/var/tmp')
        try:
            procs = []
            for s_ in srcs:
                obj = os.path.join(scratch, s_.replace('/', '_') + '.o')
                procs.append((s_, obj, subprocess.Popen(['g++', '-x', 'c++', '-std=c++20', '-O1', '-w', '-I' + REPO, '-I' + os.path.join(REPO, 'Compiler/include'),
                                                          '-c', os.path.join(REPO, s_), '-o', obj], stdout=subprocess.PIPE, stderr=subprocess.STDOUT)))
            syms = []
            for s_, obj, pr in procs:
                out, _ = pr.communicate()
                if pr.returncode != 0:
                    raise TranslateError('cannot compile %s: %s' % (s_, out.decode()[-300:]))
                r = subprocess.run(['nm', '-C', '--defined-only', obj], capture_output=True, text=True)
                for line in r.stdout.split('\n'):
                    m = re.match(r'^[0-9a-f]+ ([bBdD]) (.*)$', line)
                    if not m:
                        continue
                    name = m.group(2)
                    # compiler-generated: iostream init objects, guard variables, typeinfo, vtables, DW.ref, the dso handle
                    if name.startswith(('std::', 'guard variable', 'typeinfo', 'vtable', 'DW.ref', '__dso_handle', '__gnu', 'VTT ')) or '__ioinit' in name:
                        continue
                    syms.append('%s:%s' % (os.path.basename(s_), name))
            os.makedirs(os.path.dirname(cache), exist_ok=True)
            open(cache, 'w').write('\n'.join(syms))
        finally:
            shutil.rmtree(scratch, ignore_errors=True)
    syms = sorted(x for x in syms if x)
    out = ['(* GENERATED by tools/translate.py from `nm -C` of the compiled objects — do not edit *)',
           'From Coq Require Import String List.', 'Import ListNotations.', 'Local Open Scope string_scope.', '',
           '(* objects with static storage duration in writable sections (nm classes b B d D), compiler-generated ones filtered out *)',
           'Definition writable_statics : list string := [' + '; '.join('"%s"' % x.replace('"', "'") for x in syms) + '].', '']
    return '\n'.join(out) + '\n'


# ---------------------------------------------------------------------------------------------
# lex.yy.c: the DFA tables of the committed scanner
# ---------------------------------------------------------------------------------------------
def tr_flex():
    src = open(os.path.join(REPO, 'Compiler/src/lex.yy.c'), encoding='latin-1').read()
    tabs = {}
    for m in re.finditer(r'static const (?:flex_int16_t|flex_int32_t|YY_CHAR) (yy_\w+)\[(\d+)\] =\s*\{(.*?)\}\s*;', src, flags=re.S):
        name, n, body = m.group(1), int(m.group(2)), m.group(3)
        vals = [int(x) for x in re.findall(r'-?\d+', body)]
        if len(vals) != n:
            raise TranslateError('lex.yy.c: table %s declares %d entries, has %d' % (name, n, len(vals)))
        tabs[name] = vals
    need = ['yy_accept', 'yy_ec', 'yy_meta', 'yy_base', 'yy_def', 'yy_nxt', 'yy_chk', 'yy_rule_can_match_eol']
    for k in need:
        if k not in tabs:
            raise TranslateError('lex.yy.c: table %s not found' % k)
    def one(rx, what):
        ms = set(re.findall(rx, src))
        if len(ms) != 1:
            raise TranslateError('lex.yy.c: cannot read %s (%r)' % (what, sorted(ms)))
        return int(ms.pop())
    jam = one(r'while \( yy_current_state != (\d+) \)', 'the jam state of the match loop')
    thr = one(r'if \( yy_current_state >= (\d+) \)', 'the template threshold')
    start = one(r'yyg->yy_start = (\d+);\s*/\* first start state \*/', 'the start state')
    nulc = one(r'YY_CHAR yy_c = \(\*yy_cp \? yy_ec\[YY_SC_TO_UI\(\*yy_cp\)\] : (\d+)\);', 'the class of NUL')
    nulc2 = one(r'yy_try_NUL_trans  \(yy_state_type yy_current_state , yyscan_t yyscanner\)\s*\{[^}]*?YY_CHAR yy_c = (\d+);', 'the class of NUL in yy_try_NUL_trans')
    if nulc != nulc2:
        raise TranslateError('lex.yy.c: two different classes for NUL')
    nrules = one(r'#define YY_NUM_RULES (\d+)', 'YY_NUM_RULES')
    eob = one(r'#define YY_END_OF_BUFFER (\d+)', 'YY_END_OF_BUFFER')
    # features the model of the skeleton does not cover
    for marker in ['#define REJECT reject_used_but_not_detected', '#define yymore() yymore_used_but_not_detected',
                   '#define YY_MORE_ADJ 0', 'yy_current_state = yyg->yy_start;\n']:
        if marker not in src:
            raise TranslateError('lex.yy.c: REJECT / yymore / ^ rules are not covered by the model (%r missing)' % marker)
    if 'yy_looking_for_trail_begin' in src or 'YY_TRAILING_MASK' in src:
        raise TranslateError('lex.yy.c: variable trailing context is not covered by the model')
    # the rule actions in the switch, in order: which token kind case k+1 produces
    acts = []
    for m in re.finditer(r'^case (\d+):\n(?:/\* rule \d+ can match eol \*/\n)?YY_RULE_SETUP\n(.*?)\n\tYY_BREAK', src, flags=re.M | re.S):
        k, body = int(m.group(1)), m.group(2).strip()
        if body == '{}':
            a = 'Some None'
        elif body == 'ECHO;':
            a = 'None'
        else:
            mm = re.match(r'^\{TOK\(Theo::Token::(?:Type::)?([A-Za-z_]+)\)\}$', body)
            if not mm:
                raise TranslateError('lex.yy.c: action of case %d not covered: %r' % (k, body))
            a = 'Some (Some %s)' % mm.group(1)
        if k != len(acts) + 1:
            raise TranslateError('lex.yy.c: case labels out of order at %d' % k)
        acts.append(a)
    if len(acts) != nrules:
        raise TranslateError('lex.yy.c: %d rule cases, YY_NUM_RULES %d' % (len(acts), nrules))
    def zl(v):
        lines = []
        for i in range(0, len(v), 20):
            lines.append('    ' + '; '.join(str(x) if x >= 0 else '(%d)' % x for x in v[i:i + 20]))
        return '[\n' + ';\n'.join(lines) + ']'
    out = ['(* GENERATED by tools/translate.py from Compiler/src/lex.yy.c — do not edit *)',
           'From Theo Require Import Base Regex Tokens Lexer FlexModel.', 'Local Open Scope Z_scope.', '']
    for k in need:
        out.append('Definition %s : list Z := %s.' % (k, zl(tabs[k])))
        out.append('')
    out.append('Definition flex_tables : ftables :=')
    out.append('  mkFlex yy_accept yy_ec yy_meta yy_base yy_def yy_nxt yy_chk yy_rule_can_match_eol %d %d %d %d %d.' % (jam, thr, start, nulc, eob))
    out.append('')
    out.append('(* the action of case k+1 of the switch: None = ECHO (default rule), Some None = {}, Some (Some t) = TOK(t) *)')
    out.append('Definition flex_actions : list (option (option tkind)) := [')
    out.append(';\n'.join('  ' + a for a in acts))
    out.append('].')
    out.append('')
    return '\n'.join(out) + '\n'


TRANSLATORS = {
    'Gen_Lexer.v': tr_lexer,
    'Gen_Enums.v': tr_enums,
    'Gen_Consts.v': tr_consts,
    'Gen_MacroGrammar.v': tr_macrogrammar,
    'Gen_Statics.v': tr_statics,
    'Gen_Flex.v': tr_flex,
}


def run_all(only=None):
    """returns dict name -> None | error text"""
    res = {}
    for name, fn in TRANSLATORS.items():
        if only and name not in only:
            continue
        try:
            write_if_changed(name, fn())
            res[name] = None
        except (TranslateError, OSError, ValueError, KeyError, IndexError) as e:
            res[name] = '%s: %s' % (type(e).__name__, e)
            # the source can no longer be translated.  The last translatable version of the file stays in place, so
            # that the stale model can still be run against the code in the search for a failing input; the caller
            # (checklib) reports every obligation that depends on this file as broken.  Only when there is no earlier
            # version, leave a file that does not compile.
            if not os.path.exists(os.path.join(COQ, name)) or 'Translator_failed.' in open(os.path.join(COQ, name)).read():
                write_if_changed(name, '(* translator failed: %s *)\nTranslator_failed.\n' % str(e).replace('*)', '* )'))
    return res


if __name__ == '__main__':
    r = run_all(sys.argv[1:] or None)
    for k, v in r.items():
        print(k, 'ok' if v is None else 'FAILED: ' + v)
    sys.exit(1 if any(r.values()) else 0)
