#!/bin/bash
# recheck_seeds.sh [seed-id ...] — development helper: for every seeded change (or the ones named) apply it to /repo,
# run the check of its property (quick tier), undo it, and record the outcome in seeded/<id>/recheck.json.
# Must be run with a clean /repo; leaves it clean.
set -u
export VERIF_SKIP_EVIDENCE=1
cd /verif
R=${THEO_REPO:-/repo}     # a clone of /repo may be given
seeds=("$@"); [ ${#seeds[@]} -eq 0 ] && seeds=($(ls seeded))
for sid in "${seeds[@]}"; do
  d=/verif/seeded/$sid
  pid=${sid%%_*}
  git -C "$R" diff --quiet || { echo "repo dirty before $sid"; exit 2; }
  git -C "$R" apply "$d/patch.diff" || { echo "$sid: patch does not apply"; continue; }
  s=$(date +%s)
  out=$(timeout 3000 ./check $pid --tier quick 2>&1 | grep -E "^VIOLATION|Traceback" | head -1)
  git -C "$R" checkout -- .
  caught=0; [[ "$out" == VIOLATION* && "$out" != *no-failing-input-found ]] && caught=1
  [[ "$out" == VIOLATION*no-failing-input-found ]] && caught=2
  echo "$sid caught=$caught $(( $(date +%s)-s ))s :: $out"
  echo "{\"seed\": \"$sid\", \"property\": \"$pid\", \"caught\": $caught, \"line\": \"$(echo $out | sed 's/"/\\"/g')\"}" > $d/recheck.json
done
[ "$R" = /repo ] && python3 /verif/tools/translate.py >/dev/null
git -C "$R" status --short | grep -v _build
