#!/bin/bash
# validate_seed.sh <seed-id> <source-dir-with-SEED> <property-id> [more property ids to run]
# 1. copies SEED/{patch.diff,demo.cpp,run_demo.sh,meta.json} to /verif/seeded/<seed-id>/
# 2. in a fresh scratch worktree: demo passes without the patch; with it: project builds, 12 tests pass, demo fails
# 3. applies the patch to /repo, runs ./check for the given properties, undoes it
set -u
export VERIF_SKIP_EVIDENCE=1
sid="$1"; src="$2"; shift 2
dst=/verif/seeded/$sid
mkdir -p "$dst"
cp "$src/SEED/patch.diff" "$src/SEED/demo.cpp" "$src/SEED/run_demo.sh" "$src/SEED/meta.json" "$dst/" 2>/dev/null
[ -s "$dst/patch.diff" ] || { echo "no patch"; exit 2; }
wt=/tmp/val_$sid
git -C /repo worktree remove --force "$wt" >/dev/null 2>&1
git -C /repo worktree add --detach "$wt" HEAD >/dev/null 2>&1 || { echo "cannot create worktree"; exit 2; }
mkdir -p "$wt/SEED"; cp "$dst/demo.cpp" "$dst/run_demo.sh" "$wt/SEED/"
( cd "$wt" && timeout 600 bash SEED/run_demo.sh >"$dst/demo_clean.log" 2>&1 ); clean=$?
( cd "$wt" && git apply "$dst/patch.diff" ) || { echo "patch does not apply"; git -C /repo worktree remove --force "$wt"; exit 2; }
( cd "$wt" && cmake -G Ninja -B build . >/dev/null 2>&1 && cmake --build build -j8 >"$dst/build.log" 2>&1 ); build=$?
( cd "$wt" && ctest --test-dir build -j8 2>&1 | tail -3 >"$dst/ctest.log" ); grep -q "100% tests passed" "$dst/ctest.log"; tests=$?
# the CMake build may regenerate the scanner in the source tree: put the two files back to what the patch says
( cd "$wt" && git checkout -- Compiler/src/lex.yy.c Compiler/include/lex.yy.h 2>/dev/null; git apply --include='Compiler/src/lex.yy.c' --include='Compiler/include/lex.yy.h' "$dst/patch.diff" 2>/dev/null; true )
( cd "$wt" && timeout 600 bash SEED/run_demo.sh >"$dst/demo_patched.log" 2>&1 ); patched=$?
git -C /repo worktree remove --force "$wt" >/dev/null 2>&1
echo "seed=$sid demo_clean_exit=$clean build_exit=$build ctest_ok=$((1-tests)) demo_patched_exit=$patched"
# 3. our checks
R=${THEO_REPO:-/repo}      # a clone of /repo may be given, so that other checks can run on /repo meanwhile
cd "$R" && git diff --quiet || { echo "repo dirty"; exit 2; }
git -C "$R" apply "$dst/patch.diff" || { echo "patch does not apply to $R"; exit 2; }
res=""
for p in "$@"; do
  out=$(cd /verif && timeout 3000 ./check $p 2>&1 | grep -E "^VIOLATION|^KNOWN|Traceback" | head -2 | tr '\n' ' ')
  echo "  check $p :: $out"
  res="$res $p:[$out]"
done
git -C "$R" checkout -- . ; [ "$R" = /repo ] && python3 /verif/tools/translate.py >/dev/null
echo "{\"seed\": \"$sid\", \"demo_clean_exit\": $clean, \"build_exit\": $build, \"ctest_12_pass\": $((1-tests)), \"demo_patched_exit\": $patched, \"checks\": \"$(echo $res | sed 's/"/\\"/g')\"}" > "$dst/validation.json"
