# explore_scan.py — exploration for C14 (token stream faithful to the text) and C15 (include resolution).
# The extracted model's scanner IS the specification here: Proofs_Lexer/Proofs_Scan show that it computes the
# maximal-munch tokenisation of the rule table translated from lexer.l, spliced at include directives.  So a
# disagreement between implementation and model on a scan case is a failing input of the property itself.
import itertools, os, re, subprocess, sys, tempfile, shutil
sys.path.insert(0, os.path.dirname(os.path.abspath(__file__)))
import vlib, gen_prog

ALPHA = [b'a', b'E', b'N', b'D', b'e', b'n', b'd', b'0', b'1', b'7', b' ', b'\n', b'"', b'/', b':', b'=', b'!', b'<', b'>', b'P',
         b'$', b'#', b';', b',']
WORDS = [b'END', b'End', b'end', b'END DEFINE', b'ENDDEF', b'DEFINE', b'def', b'PRIO', b'priority', b'AS', b'as', b'<P>', b'<p>', b'<V>',
         b'<VALUE>', b'<ID>', b'<INT>', b'<int>', b'<ARGS>', b'<A>', b'<PROGRAM>', b'<prog>', b'$0', b'$12', b'#3', b'#0', b'include',
         b'INCLUDE', b'"f"', b'"a b"', b'""', b'"', b':=', b':', b'!= 0', b'!=', b'=', b'==', b'x0', b'_y1', b'loopx', b'LOOP', b'Loop',
         b'while', b'goto', b'IF', b'then', b'stop', b'PROGRAM', b'prog', b'IN', b'in', b'OUT', b'out', b'DO', b'Do', b'RUN', b'run',
         b'WITH', b'with', b'0', b'007', b'12345678901234567890', b'//c\n', b'// x', b'/', b'(', b')', b',', b';', b'+', b'-', b'\t',
         b'\n', b' ', b'\r', b'\x00', b'\xff', b'\x80', b'@', b'<', b'>', b'<P', b'P>', b'$', b'#', b'$x', b'#-1', b'0x', b'1a', b'a1']


def scan_case(files, main):
    return 'scan ' + vlib.files_fields(main, files)


def flex_sync():
    """is the committed scanner byte-identical to what flex generates now from lexer.l?"""
    d = tempfile.mkdtemp(prefix='theo-flex.', dir='/var/tmp')
    try:
        os.makedirs(os.path.join(d, 'src'))
        os.makedirs(os.path.join(d, 'include'))
        r = subprocess.run(['flex', '--outfile=./src/lex.yy.c', '--header-file=./include/lex.yy.h', '--noline', '--nounistd',
                            os.path.join(vlib.REPO, 'Compiler/src/lexer.l')], cwd=d, capture_output=True, text=True)
        if r.returncode != 0:
            return None, 'flex failed: ' + r.stderr[:300]
        same_c = open(os.path.join(d, 'src/lex.yy.c'), 'rb').read() == open(os.path.join(vlib.REPO, 'Compiler/src/lex.yy.c'), 'rb').read()
        same_h = open(os.path.join(d, 'include/lex.yy.h'), 'rb').read() == open(os.path.join(vlib.REPO, 'Compiler/include/lex.yy.h'), 'rb').read()
        return (same_c and same_h), ('lex.yy.c differs' if not same_c else '') + (' lex.yy.h differs' if not same_h else '')
    finally:
        shutil.rmtree(d, ignore_errors=True)


def gen_bytes(ctx):
    rng = ctx.rng
    out = []
    L = 3 if ctx.quick() else 4
    for n in range(0, L + 1):
        for t in itertools.product(ALPHA, repeat=n):
            out.append(('exh', b''.join(t)))
    nrand = 3000 if ctx.quick() else 40000
    for _ in range(nrand):
        k = rng.randint(1, 12)
        parts = [rng.choice(WORDS) for _ in range(k)]
        sep = rng.choice([b'', b' ', b'', b'\n'])
        out.append(('words', sep.join(parts)))
    nmut = 400 if ctx.quick() else 5000
    for _ in range(nmut):
        files, main, _ = gen_prog.ProgGen(rng, gen_prog.Opts(canonical=rng.random() < 0.5, multi_file=0)).program()
        b = bytearray(files[main].encode())
        for _ in range(rng.randint(1, 4)):
            if not b:
                break
            pos = rng.randrange(len(b))
            x = rng.random()
            if x < 0.4:
                b[pos] = rng.choice(b''.join(ALPHA) + b'\x00\xff\r\t')
            elif x < 0.7:
                del b[pos]
            else:
                b.insert(pos, rng.choice(b''.join(ALPHA) + b'\x00\x7f'))
        out.append(('mutated', bytes(b)))
    return out


def file_bodies(nd, names):
    """contents of one file with exactly the given directive slots"""
    targets = [('"%s"' % n).encode() for n in names] + [b'"zz"', b'x', None]
    bodies = [[b't0']]
    for d in range(1, nd + 1):
        for combo in itertools.product(targets, repeat=d):
            parts = []
            ok = True
            for i, t in enumerate(combo):
                parts.append(b't%d' % i)
                parts.append(b'include')
                if t is None:
                    if i != len(combo) - 1:
                        ok = False
                        break
                else:
                    parts.append(t)
            if not ok:
                continue
            if combo[-1] is not None:
                parts.append(b'u')
            bodies.append(parts)
    return [b' '.join(p) + (b'\n' if i % 2 else b'') for i, p in enumerate(bodies)]


def gen_incl(ctx):
    rng = ctx.rng
    out = []
    two = file_bodies(2, ['a', 'b'])
    for ca in two:
        for cb in two:
            for main in ('a', 'q'):
                out.append(('incl2', {'a': ca, 'b': cb}, main))
    one3 = file_bodies(1, ['a', 'b', 'c'])
    for ca in one3:
        for cb in one3:
            for cc in one3:
                out.append(('incl3', {'a': ca, 'b': cb, 'c': cc}, 'a'))
    three = file_bodies(2, ['a', 'b', 'c'])
    n = 1500 if ctx.quick() else 60000
    for _ in range(n):
        out.append(('incl3r', {'a': rng.choice(three), 'b': rng.choice(three), 'c': rng.choice(three)}, rng.choice(['a', 'a', 'a', 'zz'])))
    four = file_bodies(2, ['a', 'b', 'c', 'd'])
    for _ in range(n // 3):
        out.append(('incl4r', {'a': rng.choice(four), 'b': rng.choice(four), 'c': rng.choice(four), 'd': rng.choice(four)}, 'a'))
    # directive split over lines, names with odd bytes, includes of the hidden file
    out.append(('odd', {'a': b'include\n\n"b" x', 'b': b'y\ninclude "a"\n'}, 'a'))
    out.append(('odd', {'a': b'include "__standards__" include "__standards__" x', 'b': b''}, 'a'))
    out.append(('odd', {'a': b'include "a b" x', 'a b': b'q include "a"'}, 'a'))
    out.append(('odd', {'a': b'include "" x', '': b'emptyname'}, 'a'))
    out.append(('odd', {'a': b'x include', 'b': b''}, 'a'))
    out.append(('odd', {'a': b'', 'b': b''}, 'a'))
    return out


def parse_scan(line):
    """-> (tokens list, errors list) or None"""
    if not line.startswith('toks='):
        return None
    parts = line.split()
    n = int(parts[0][5:])
    toks = parts[1:1 + n]
    rest = parts[1 + n:]
    errs = rest[1:] if rest else []
    return toks, errs


def dfa_counterexamples(ctx):
    ok, _ = vlib.coq_make(['Proofs_Flex.vo'])
    if ok:
        return []
    ok2, _ = vlib.coq_make(['Gen_Flex.vo', 'Gen_Lexer.vo', 'FlexModel.vo'])
    if not ok2:
        return []
    import tempfile
    d = tempfile.mkdtemp(prefix='theo-cex-', dir='/var/tmp')
    try:
        f = os.path.join(d, 'Cex.v')
        open(f, 'w').write('From Theo Require Import Base Regex Tokens Lexer FlexModel Gen_Lexer Gen_Flex.\n'
                           'Eval vm_compute in find_cex (256 * 256 * 4) flex_tables [(ft_start flex_tables, map fst rules, [])] [].\n')
        r = vlib.sh(['timeout', '600', 'coqc', '-Q', vlib.COQ, 'Theo', f], cwd=d)
        out = ' '.join(r.stdout.split())
        m = re.search(r'= Some \[([^\]]*)\]', out)
        if not m:
            ctx.notes.append('DFA obligation broken; product search found no distinguishing string: ' + out[:200])
            return []
        w = bytes(int(x.strip().rstrip('%N')) for x in m.group(1).split(';') if x.strip())
        ctx.notes.append('DFA obligation broken; distinguishing string from the product search: %r' % w)
        return [w]
    finally:
        shutil.rmtree(d, ignore_errors=True)


def explore(ctx, res, replay=None):
    pid = ctx.pid
    cases = []
    meta = {}
    k = 0

    def add(kind, files, main):
        nonlocal k
        cid = 's%d' % k
        k += 1
        cases.append((cid, scan_case(files, main)))
        meta[cid] = (kind, files, main)

    if replay and 'violation' in replay and 'files' in replay['violation']:
        v = replay['violation']
        add('replay', {n: bytes.fromhex(c) for n, c in v['files'].items()}, v['main'])
    else:
        if pid == 'C14':
            # every keyword spelling of the rule table as it is in lexer.l now: alone, glued to a letter, inside a line
            sp = ctx.run_model([('sp', 'spellings x')])
            words = sorted(set(bytes.fromhex(w) for w in (sp['sp'].split() if sp else []) if w != '-'))
            res.count('spellings_in_rule_table', len(words))
            for w in words:
                add('spelling', {'m': w}, 'm')
                add('spelling', {'m': w + b'x'}, 'm')
                add('spelling', {'m': b'a ' + w + b' 1\n' + w.swapcase() + b' ' + w[:-1]}, 'm')
            for kind, b in gen_bytes(ctx):
                add(kind, {'m': b}, 'm')
            for kind, files, main in gen_incl(ctx)[::3]:
                add(kind, files, main)
            # the label of the end-of-file token: the main file ends with an include, with nested includes, with blank lines
            for files, main in (({'m': b'INCLUDE "a"\nINCLUDE "p"', 'a': b'x := 1\n', 'p': b'PROGRAM f DO\n x0 := 1\n\n\nEND'}, 'm'),
                                ({'m': b'x := 1;\ninclude "p"\n\n\n', 'p': b'y := 2;\n\nz := 3'}, 'm'),
                                ({'m': b'include "a"', 'a': b'include "b"\n', 'b': b'\n\n\nq := 1\n'}, 'm'),
                                ({'m': b'include "a" // comment\n', 'a': b''}, 'm'),
                                ({'m': b'include "a"\ninclude "b"', 'a': b'x := 1', 'b': b'// only a comment\n\n'}, 'm')):
                add('eof_label', files, main)
            # when the DFA-equivalence obligation (Proofs_Flex.v) no longer checks: a distinguishing string found by a
            # search of the product of the translated tables and the rule list, evaluated inside Coq
            for w in dfa_counterexamples(ctx):
                add('dfa_counterexample', {'m': w}, 'm')
                add('dfa_counterexample', {'m': w + b' x'}, 'm')
                add('dfa_counterexample', {'m': b'x ' + w + b'\n'}, 'm')
        else:
            for kind, files, main in gen_incl(ctx):
                add(kind, files, main)
            for kind, b in gen_bytes(ctx)[::23]:
                add(kind, {'m': b}, 'm')
    variants = [('plain', False)]
    if pid == 'C14':
        variants.append(('plain', True))
    outs = []
    for var, fg in variants:
        outs.append((('flexgen' if fg else 'committed'), ctx.run_impl(cases, var, flexgen=fg, timeout_case=4)))
    mout = ctx.run_model(cases)
    spec_cases = [(cid, txt.replace('scan ', 'scanspec ', 1)) for cid, txt in cases] if pid == 'C14' else None
    sout = ctx.run_model(spec_cases) if spec_cases else None
    res.rule = ('G-bytes: every string up to length %d over 24 significant bytes, token-biased random strings, byte-mutated programs; '
                'G-incl: all include graphs over 2 files x <=2 directives and 3 files x <=1 directive, random 3- and 4-file graphs with <=2 '
                'directives (targets: every file, an absent name, a non-name, end of file; main present/absent). Each case is scanned by the '
                'implementation (%s) and by the extracted specification scanner; non-trivial = at least two tokens or one error; distinct by content.'
                % (3 if ctx.quick() else 4, ' and '.join(n for n, _ in outs)))
    if pid == 'C14' and not replay:
        same, why = flex_sync()
        if same is None:
            ctx.notes.append('flex not usable: ' + why)
        elif not same:
            res.tie_broken.append({'what': 'C14_flex_sync: the committed scanner is not what flex generates from lexer.l now (%s)' % why})
    for cid, _ in cases:
        kind, files, main = meta[cid]
        res.evaluations += 1
        res.count(kind)
        case = {'files': {vlib_name(n): hexb(c) for n, c in files.items()}, 'main': main}
        if mout is None:
            continue
        ml = mout[cid]
        mp = parse_scan(ml)
        for vname, out in outs:
            il = out[cid]
            if il == 'SKIPPED':
                continue
            ip = parse_scan(il)
            res.compared += 1
            if ip is None or mp is None:
                if vlib.norm_outcome(il, 'impl') == vlib.norm_outcome(ml, 'model'):
                    continue
                res.violations.append(dict(case, what='crash' if ip is None else 'model', build=vname,
                                           detail='implementation: %s / specification: %s' % (il[:200], ml[:200])))
                continue
            if len(ip[0]) >= 2 or ip[1]:
                res.nontrivial.add((hash(frozenset(case['files'].items())), main))
            if pid == 'C14' and sout is not None:
                sp = parse_scan(sout[cid])
                if sp is not None and ip[0] != sp[0]:
                    res.violations.append(dict(case, what='tokens', build=vname,
                                               detail='token stream differs from the maximal-munch tokenisation of the documented token table: impl %s / spec %s'
                                               % (' '.join(ip[0])[:300], ' '.join(sp[0])[:300])))
            if ip[0] != mp[0] and pid == 'C14':
                res.tie_broken.append(dict(case, what='scanner differs from the model instantiated with the rule list translated from lexer.l', build=vname,
                                           impl=' '.join(ip[0])[:300], model=' '.join(mp[0])[:300]))
            noline = lambda es: [e.split('@')[0] + '@' + e.split('@')[1].split(':')[0] + e[e.index('['):] for e in es]
            if (noline(ip[1]) != noline(mp[1])) and pid == 'C15':
                res.violations.append(dict(case, what='errors', build=vname,
                                           detail='include errors differ: impl %s / spec %s' % (' '.join(ip[1])[:300], ' '.join(mp[1])[:300])))
            if pid == 'C15' and ip[0] != mp[0]:
                # which files are spliced (repeat allowed, cycles skipped) shows in the token labels
                if [t.split(':')[1] for t in ip[0]] != [t.split(':')[1] for t in mp[0]]:
                    res.violations.append(dict(case, what='splice', build=vname, detail='spliced files differ: impl %s / spec %s'
                                               % (' '.join(ip[0])[:300], ' '.join(mp[0])[:300])))
        if res.evaluations % 4001 == 0:
            res.sample({'files': {n if isinstance(n, str) else n.decode('latin-1'): c.decode('latin-1') for n, c in files.items()},
                        'main': main, 'result': outs[0][1][cid][:200]})
    if pid == 'C15' and not replay:
        # file requests of the whole compilation
        sub = [(cid, 'parse ' + vlib.files_fields(meta[cid][2], meta[cid][1])) for cid, _ in cases[::5]]
        io = ctx.run_impl(sub)
        mo = ctx.run_model(sub)
        for cid, _ in sub:
            kind, files, main = meta[cid]
            res.evaluations += 1
            res.count('requests')
            ir = io[cid].split(' req=')[-1] if ' req=' in io[cid] else io[cid]
            mr = mo[cid].split(' req=')[-1] if mo and ' req=' in mo[cid] else (mo[cid] if mo else ir)
            if ir != mr:
                res.violations.append({'files': {vlib_name(n): hexb(c) for n, c in files.items()}, 'main': main, 'what': 'requests',
                                       'detail': 'file requests differ: impl %s / spec %s' % (ir[:200], mr[:200])})
    if not res.samples and cases:
        cid = cases[len(cases) // 3][0]
        kind, files, main = meta[cid]
        res.sample({'files': {n if isinstance(n, str) else n.decode('latin-1'): c.decode('latin-1') for n, c in files.items()},
                    'main': main, 'result': outs[0][1][cid][:200]})


def vlib_name(n):
    return n if isinstance(n, str) else n.decode('latin-1')


def hexb(c):
    return (c if isinstance(c, bytes) else c.encode('latin-1')).hex()
