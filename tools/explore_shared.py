# explore_shared.py — exploration for C18 (deterministic, no shared state).  driver/shared_driver.cpp compiles and runs
# every input once in a fresh process (reference), then many times in one process in random order with VMs of other
# programs kept alive in between, then from several threads at once — also under ThreadSanitizer.  Every serialised
# result (program, tables, full message texts, requests, final values) must equal the reference byte for byte; the
# references themselves are compared with the model (which is a function of the input).
import os, re, subprocess, sys, tempfile, shutil
sys.path.insert(0, os.path.dirname(os.path.abspath(__file__)))
import vlib, gen_prog
from explore_total import neighbours


def run_shared(exe, path, seed, rounds, threads, timeout):
    env = dict(os.environ)
    env['TSAN_OPTIONS'] = 'halt_on_error=0:exitcode=66:report_signal_unsafe=0'
    try:
        r = subprocess.run([exe, path, str(seed), str(rounds), str(threads)], capture_output=True, text=True, timeout=timeout, env=env)
        return r.returncode, r.stdout, r.stderr
    except subprocess.TimeoutExpired:
        return -9, '', 'TIMEOUT'


def explore(ctx, res, replay=None):
    rng = ctx.rng
    quick = ctx.quick()
    inputs = []
    n = 40 if quick else 300
    for k in range(n):
        files, main, _ = gen_prog.ProgGen(rng, gen_prog.Opts(canonical=rng.random() < 0.5, user_macros=0.3 if k % 2 else 0.0, multi_file=0.3)).program()
        inputs.append((files, main))
        if k % 3 == 0:
            f2 = dict(files)
            f2[main] = neighbours(rng, files[main], rng.randint(1, 3))
            inputs.append((f2, main))
    # inputs that drive library calls into their error paths (range errors, huge numerals, missing files): state such
    # calls leave behind (errno, locale, ...) must not reach later compilations
    for txt in ('x0 := 99999999999999999999', 'x0 := 18446744073709551616; x1 := x0 - 99999999999999999999', 'DEFINE PRIO 99999999999999999999 a AS b END DEFINE a',
                'x0 := 2147483647', 'x0 := 9223372036854775807', 'include "nofile" x := 1', 'x0 := 1; x1 := 2; x2 := x1 + 3'):
        inputs.append(({'m': txt}, 'm'))
    inputs.append(({}, 'absent'))
    # one input per kind of diagnostic (each compiled several times per process, next to inputs that share names with it):
    # a message, a counter or a table remembered from one compilation must not change another
    for txt in ('x1 := 7;\nx0 := RUN sqare WITH x1 END', 'y := RUN sqare WITH 1 END; z := RUN sqare WITH 2 END',
                'PROGRAM sqare IN a DO x0 := a END\nx0 := RUN sqare WITH 3 END', 'PROGRAM f IN a DO x0 := a END\nx := RUN f WITH 1, 2 END',
                'PROGRAM f IN a, a DO x0 := a END\nx := RUN f WITH 1, 2 END', 'GOTO nowhere', 'l: x := 1; GOTO l2', 'x := 1 y := 2', 'x := ; LOOP DO END',
                'LOOP x DO y := 1', 'x := RUN f WITH 1 END; PROGRAM f IN a DO x0 := a END', 'DEFINE a AS b END DEFINE DEFINE b AS a END DEFINE a',
                'DEFINE foo <V> AS x := $7 END DEFINE foo 1', 'DEFINE TWICE <P> AS $0 ; $0 END DEFINE TWICE x := 1', 'include "gone.theo"\nx := 1', 'x := 1 @ 2'):
        inputs.append(({'main.theo': txt}, 'main.theo'))
    # near-duplicates: inputs that agree in everything a cache key could look at (file names, definition sites, patterns,
    # program names) and differ in one detail; a result remembered from one must not be served for the other
    for c in (1, 2, 3):
        inputs.append(({'main.theo': 'DEFINE STEP <ID> AS $0 := $0 + %d END DEFINE\nx0 := 5; STEP x0; STEP x0' % c}, 'main.theo'))
        inputs.append(({'main.theo': 'PROGRAM f IN a DO x0 := a + %d END\nx1 := RUN f WITH 1 END' % c}, 'main.theo'))
        inputs.append(({'main.theo': 'include "lib.theo"\nx1 := RUN f WITH 4 END; INC x1', 'lib.theo': 'PROGRAM f IN a DO x0 := a - %d END\nDEFINE INC <ID> AS $0 := $0 + %d END DEFINE' % (c, c)}, 'main.theo'))
    for pr in (1, 9):
        inputs.append(({'main.theo': 'DEFINE PRIO %d A <ID> AS $0 := 1 END DEFINE\nDEFINE PRIO 5 A <ID> AS $0 := 2 END DEFINE\nA x' % pr}, 'main.theo'))
    for k in range(0, len(inputs), 4):
        files, main = inputs[k]
        txt = files.get(main)
        if isinstance(txt, str):
            m = re.search(r'\b(\d{1,4})\b', txt)
            if m:
                f2 = dict(files)
                f2[main] = txt[:m.start()] + str(int(m.group(1)) + 1) + txt[m.end():]
                inputs.append((f2, main))
    inputs.append(({'m': 'DEFINE <P> AS $0 END DEFINE x := 1'}, 'm'))
    scratch = tempfile.mkdtemp(prefix='theo-shared.', dir='/var/tmp')
    try:
        path = os.path.join(scratch, 'inputs.txt')
        with open(path, 'w') as f:
            for files, main in inputs:
                f.write(vlib.files_fields(main, files) + '\n')
        plain, err = vlib.build_impl('plain', driver='shared_driver.cpp')
        if plain is None:
            from checklib import BuildError
            raise BuildError(err)
        tsan, err2 = vlib.build_impl('tsan', driver='shared_driver.cpp')
        runs = []
        rounds = 6 if quick else 40
        for s in range(3 if quick else 10):
            runs.append(('plain', plain, ctx.seed * 100 + s, rounds, 8))
        if tsan is not None:
            for s in range(2 if quick else 8):
                runs.append(('tsan', tsan, ctx.seed * 100 + 50 + s, 2 if quick else 6, 8))
        else:
            ctx.notes.append('ThreadSanitizer build failed: ' + (err2 or '')[-200:])
        res.rule = ('%d compile inputs (valid sources with and without user macros, neighbours, absent main, a rejected macro); per run: references from fresh '
                    'processes, then rounds x inputs calls in one process in random order with a VM of the previous program kept alive, then 8 threads; '
                    'plain builds and ThreadSanitizer builds. Non-trivial = a run in which every input was compiled at least twice; distinct by (build, seed).' % len(inputs))
        for kind, exe, seed, rd, th in runs:
            rc, out, errtxt = run_shared(exe, path, seed, rd, th, 600)
            res.evaluations += 1
            res.count(kind)
            calls = 0
            for line in out.split('\n'):
                if line.startswith('OK'):
                    calls = int(line.split()[1])
                if line.startswith('MISMATCH'):
                    idx = int(line.split('input=')[1].split()[0])
                    res.violations.append({'what': 'mismatch', 'detail': line, 'build': kind, 'seed': seed,
                                           'source': {'files': inputs[idx][0], 'main': inputs[idx][1]}})
            if 'ThreadSanitizer' in errtxt:
                first = errtxt[errtxt.index('WARNING: ThreadSanitizer'):][:1500] if 'WARNING: ThreadSanitizer' in errtxt else errtxt[:500]
                res.violations.append({'what': 'race', 'detail': first, 'build': kind, 'seed': seed})
            elif rc not in (0, 1):
                res.violations.append({'what': 'crash', 'detail': 'exit %s %s' % (rc, errtxt[-300:]), 'build': kind, 'seed': seed})
            res.count('calls', calls)
            if calls >= 2 * len(inputs):
                res.nontrivial.add((kind, seed))
            res.sample({'build': kind, 'seed': seed, 'rounds': rd, 'threads': th, 'calls': calls, 'result': out.strip()[:100]})
        # the references are what the model computes (a function of the input): verdict, errors, program
        cases = [('c%d' % i, 'compile ' + vlib.files_fields(m, f)) for i, (f, m) in enumerate(inputs)]
        io = ctx.run_impl(cases)
        mo = ctx.run_model(cases, timeout_case=30)
        if mo is not None:
            for cid, _ in cases:
                res.compared += 1
                if io[cid] != mo[cid] and not mo[cid].startswith('TIMEOUT'):
                    i = int(cid[1:])
                    res.tie_broken.append({'what': 'compile result differs from the model', 'source': {'files': inputs[i][0], 'main': inputs[i][1]},
                                           'impl': io[cid][:300], 'model': mo[cid][:300]})
    finally:
        shutil.rmtree(scratch, ignore_errors=True)
