#!/usr/bin/env python3
# addprops.py — development helper (not run by the checks): appends theorems to an existing coq/Properties_<id>.v
# from the `Definition <name>_stmt : Prop := <body>.` entries of a *Statements.v file, restating each in full.
# usage: addprops.py <id> <StatementsFile> <extra imports...> -- <name> <name> ...
import re, sys, os
COQ = os.path.join(os.path.dirname(os.path.dirname(os.path.abspath(__file__))), 'coq')
pid, stfile = sys.argv[1], sys.argv[2]
rest = sys.argv[3:]
k = rest.index('--')
imports, names = [stfile] + rest[:k], rest[k + 1:]
src = open(os.path.join(COQ, stfile + '.v')).read()
p = os.path.join(COQ, 'Properties_%s.v' % pid)
txt = open(p).read()
m = re.search(r'^From Theo Require Import ([^.]*)\.', txt, flags=re.M)
have = m.group(1).split()
for i in imports:
    if i not in have:
        have.append(i)
txt = txt[:m.start()] + 'From Theo Require Import %s.' % ' '.join(have) + txt[m.end():]
add = []
for n in names:
    if re.search(r'^Theorem %s\b' % n, txt, flags=re.M):
        continue
    mm = re.search(r'Definition %s_stmt : Prop :=\s*(.*?)\.\s*\n(?=\s*\n|\s*\(\*|Definition|Inductive|Fixpoint|\Z)' % n, src, flags=re.S)
    if not mm:
        sys.exit('statement %s not found' % n)
    add.append('Theorem %s :\n  %s.\nProof. exact %s_proof. Qed.\nPrint Assumptions %s.\n' % (n, mm.group(1).strip(), n, n))
open(p, 'w').write(txt.rstrip('\n') + '\n\n' + '\n'.join(add))
print('appended %d theorems to Properties_%s.v' % (len(add), pid))
