# explore_gen.py — exploration for C03 (emitted bytecode is well-formed) and C08 (breakpoint tables).
# Translation validation: every program the implementation emits is checked by the verified checkers extracted from
# Coq (wf_program, tables_ok, no_break, consts_in_range, acyclic_calls); C03 additionally executes it under
# AddressSanitizer; C08 checks that every available location is a token position of the scanned text.
# Tie: the emitted program against the generator model, in the property's projection.
import os, re, sys
sys.path.insert(0, os.path.dirname(os.path.abspath(__file__)))
import vlib, gen_prog
from explore_vm import parse_prog, compile_sources

BREAKS = (0, 1)


def strip_breaks(p):
    """code without break instructions, offsets and entries re-targeted; plus stack maps"""
    code = p['code']
    newidx = []
    k = 0
    for ins in code:
        newidx.append(k)
        if ins[0] not in BREAKS:
            k += 1
    newidx.append(k)

    def tgt(old):
        return newidx[old] if 0 <= old <= len(code) else ('oob', old)
    out = []
    for i, ins in enumerate(code):
        if ins[0] in BREAKS:
            continue
        op, a, b, c = ins
        if op in (4, 5):     # JMP, JMPC
            t = tgt(i + a)
            a = (t - newidx[i]) if isinstance(t, int) else t
        elif op == 8:        # EXEC
            a = tgt(a)
        out.append((op, a, b, c))
    return out, p['maps']


def special_sources():
    S = []
    add = lambda s: S.append(({'m': s}, 'm', {'special': True}))
    add('PROGRAM f IN a OUT a DO a := a + 1 END\nx0 := RUN f WITH 3 END\n')                 # OUT equal to a parameter
    add('PROGRAM f DO x0 := 7 END\nx1 := RUN f WITH END\n')                                   # no parameters (header without IN)
    add('PROGRAM f IN a DO STOP END\nx1 := RUN f WITH 2 END\n')                               # no body variables
    # jumps whose mark is not set in the body they stand in (misspelt, set only in the main program, set only in another
    # program): must be rejected; if accepted, the jump must still land inside its routine
    add('PROGRAM dec IN n OUT r DO\n  IF n = 0 THEN GOTO done;\n  r := n - 1;\n  dne: r := r + 0\nEND\na := RUN dec WITH 0 END\n')
    add('PROGRAM p IN n DO\n  GOTO out;\n  x0 := n\nEND\nout: a := RUN p WITH 1 END\n')
    add('PROGRAM p IN n DO\n  here: x0 := n\nEND\nPROGRAM q IN n DO\n  GOTO here;\n  x0 := n\nEND\na := RUN q WITH 1 END\n')
    add('a := 1;\nGOTO inside;\nb := 2\n')
    add('PROGRAM p IN n DO\n  WHILE n != 0 DO\n    IF n = 1 THEN GOTO leave;\n    n := n - 1\n  END\nEND\na := RUN p WITH 3 END\n')
    add('PROGRAM f IN a DO x0 := a END\nPROGRAM f IN a, b DO x0 := RUN f WITH b END END\nx1 := RUN f WITH 1, 2 END\n')   # redefinition
    add('PROGRAM f IN a, a OUT a DO a := 1 END\nx := RUN f WITH 3, 4 END\n')                  # repeated parameter (rejected after D5)
    add('PROGRAM f IN a OUT r DO r := a END PROGRAM g IN b OUT r DO r := RUN f WITH RUN f WITH b END END END x0 := RUN g WITH RUN g WITH 1 END END\n')
    add('x0 := 1 include "b" PROGRAM b IN q DO x0 := 2 END\n')                                  # D6 layout needs file b
    S[-1][0]['b'] = 'END\n'
    add('x0 := 1;\nx0 := 2; x1 := 3\n;x2 := 4\n')
    add('l: m: n: x0 := 1; GOTO n\n')
    add('STOP\n')
    add('LOOP x0 DO STOP END; WHILE x1 != 0 DO x1 := x1 - 1 END\n')
    add('IF x0 = 0 THEN GOTO e; x1 := 1; e: x2 := 2\n')
    add('x0 := x0 + 2147483646; x1 := x1 - 2147483646\n')
    return S


def explore(ctx, res, replay=None):
    pid = ctx.pid
    rng = ctx.rng
    quick = ctx.quick()
    srcs = []
    if replay and 'violation' in replay and 'source' in replay['violation']:
        v = replay['violation']['source']
        srcs.append((v['files'], v['main'], {}))
    else:
        srcs += special_sources()
        srcs += [(f, m, {}) for f, m in gen_prog.extra_programs()]
        n = (400 if quick else 8000)
        for k in range(n):
            o = gen_prog.Opts(canonical=(rng.random() < 0.3), user_macros=0.25 if k % 3 == 0 else 0.0,
                              split_text=0.5 if pid == 'C08' else 0.2, share_lines=0.4 if k % 4 == 1 else 0.0, max_defs=4, p_call=0.8, multi_file=0.4)
            srcs.append(gen_prog.ProgGen(rng, o).program())
    comp = compile_sources(ctx, [(f, m) for f, m, _ in srcs])
    ccases = [('c%d' % i, 'compile ' + vlib.files_fields(m, f)) for i, (f, m, _) in enumerate(srcs)]
    mcomp = ctx.run_model(ccases)
    chk_cases = []
    vm_cases = []
    scan_cases = []
    for i, c in enumerate(comp):
        if c['prog'] and c['ok']:
            chk_cases.append(('k%d' % i, 'checkprog ' + c['prog']))
            if pid == 'C03':
                vm_cases.append(('v%d' % i, 'vm %s 3 XS 50000 S 1 XS 20000' % c['prog']))
            else:
                f, m, _ = srcs[i]
                scan_cases.append(('s%d' % i, 'scan ' + vlib.files_fields(m, f)))
    chk = ctx.run_model(chk_cases) or {}
    vout = ctx.run_impl(vm_cases, variant='asan', timeout_case=60) if vm_cases else {}
    sout = ctx.run_impl(scan_cases) if scan_cases else {}
    res.rule = ('G-prog in arbitrary layout (several statements per line, headers sharing lines, text cut over included files, user macros '
                'defined elsewhere) plus unusual declarations (OUT = parameter, no parameters, no body variables, redefinition, repeated '
                'parameters). Every accepted program is validated by the checkers extracted from Coq%s. Non-trivial = accepted with at least one '
                'call or one jump; distinct by source text.' % (' and executed under ASan/UBSan' if pid == 'C03' else ' and its locations compared with the scanned text'))
    for i, (files, main, meta) in enumerate(srcs):
        res.evaluations += 1
        c = comp[i]
        case = {'source': {'files': files, 'main': main}}
        if c['prog'] is None:
            res.violations.append(dict(case, what='crash', detail='compile: ' + c['raw'][:200]))
            continue
        p = parse_prog(c['prog'])
        # ---- tie, in the projection of the property ----
        if mcomp is not None:
            ml = mcomp['c%d' % i]
            res.compared += 1
            if not ml.startswith('ok='):
                res.tie_broken.append(dict(case, what='model outcome ' + ml[:60], impl=c['raw'][:200]))
            else:
                mp = parse_prog(ml[ml.index('PROG'):])
                mok = ml.startswith('ok=1')
                if mok != c['ok']:
                    res.tie_broken.append(dict(case, what='verdict differs', impl=c['raw'][:200], model=ml[:200]))
                elif c['ok']:
                    if pid == 'C03' and strip_breaks(p) != strip_breaks(mp):
                        res.tie_broken.append(dict(case, what='code/stack maps differ (breaks stripped)', impl=str(strip_breaks(p))[:300], model=str(strip_breaks(mp))[:300]))
                    if pid == 'C08':
                        sites = lambda q: [k for k, ins in enumerate(q['code']) if ins[0] in BREAKS]
                        if (p['pbs'], p['li'], sites(p)) != (mp['pbs'], mp['li'], sites(mp)):
                            res.tie_broken.append(dict(case, what='tables differ', impl=str((p['pbs'], p['li']))[:300], model=str((mp['pbs'], mp['li']))[:300]))
        if not c['ok']:
            res.count('rejected')
            continue
        res.count('accepted')
        if any(ins[0] in (4, 5, 8) for ins in p['code'][2:]):
            res.nontrivial.add(files[main])
        k = chk.get('k%d' % i, '')
        if pid == 'C03':
            if 'wf=1' not in k or 'halt=1' not in k or 'counts=1' not in k:
                res.violations.append(dict(case, what='wf', detail='verified checker rejects the emitted program: %s' % k))
            v = vout.get('v%d' % i, '')
            if v.startswith(('CRASH', 'TIMEOUT', 'MEMLIMIT')) or 'inv=tile' in v or 'inv=range' in v:
                res.violations.append(dict(case, what='vm_access', detail='execution under sanitizers: ' + v[:200]))
        else:
            if 'tables=1' not in k or 'nobreak=1' not in k:
                res.violations.append(dict(case, what='tables', detail='verified checker on the emitted tables: %s' % k))
            # every available location is a line on which a token of the program text stands, never the hidden file
            sl = sout.get('s%d' % i, '')
            toks = set()
            if sl.startswith('toks='):
                n = int(sl.split()[0][5:])
                for t in sl.split()[1:1 + n]:
                    q = t.split(':')
                    toks.add((q[1], int(q[2])))
            hidden = vlib.hexs('__standards__')
            for (f, l) in p['pbs']:
                if f == hidden:
                    res.violations.append(dict(case, what='hidden', detail='available location in the hidden file: line %d' % l))
                elif (f, l) not in toks:
                    res.violations.append(dict(case, what='location', detail='available location %s:%d carries no token' % (vlib.unhex_s(f) if f != '-' else '', l)))
            # inverse tables, checked directly too
            for b, ss in p['pbs'].items():
                for s in ss:
                    if p['li'].get(s) != b or p['code'][s][0] not in BREAKS:
                        res.violations.append(dict(case, what='tables', detail='site %d of %s not consistent' % (s, b)))
            for s, b in p['li'].items():
                if s not in p['pbs'].get(b, []):
                    res.violations.append(dict(case, what='tables', detail='line_info %d -> %s has no inverse entry' % (s, b)))
        if len(res.samples) < 3 and meta.get('split') and i % 5 == 0:
            res.sample({'files': {k_: v_[:200] for k_, v_ in files.items()}, 'checker': k})
    if not res.samples and srcs:
        res.sample({'main': srcs[0][0][srcs[0][1]][:200]})
