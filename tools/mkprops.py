#!/usr/bin/env python3
# mkprops.py — development helper (not run by the checks): writes coq/Properties_<id>.v from the
# `Definition <name>_stmt : Prop := <body>.` entries of a *Statements.v file, restating each
# statement in full and closing it with `exact <name>_proof.` + Print Assumptions.
# usage: mkprops.py <id> <StatementsFile> <imports...> -- <name> <name> ...
import re, sys, os
COQ = os.path.join(os.path.dirname(os.path.dirname(os.path.abspath(__file__))), 'coq')
pid, stfile = sys.argv[1], sys.argv[2]
rest = sys.argv[3:]
k = rest.index('--')
imports, names = rest[:k], rest[k + 1:]
src = open(os.path.join(COQ, stfile + '.v')).read()
out = ['(* Properties_%s.v — the theorems that decide property %s on the model, each stated in full and closed by' % (pid, pid),
       '   `exact <lemma>`; the lemmas live in the Proofs_*.v files.  Nothing else belongs in this file. *)',
       'From Theo Require Import %s.' % ' '.join(imports), 'Local Open Scope Z_scope.' if 'VM' in stfile else '', '']
for n in names:
    m = re.search(r'Definition %s_stmt : Prop :=\s*(.*?)\.\s*\n(?=\s*\n|\s*\(\*|Definition|Inductive|Fixpoint|\Z)' % n, src, flags=re.S)
    if not m:
        sys.exit('statement %s not found' % n)
    body = '  ' + m.group(1).strip()
    out.append('Theorem %s :\n%s.\nProof. exact %s_proof. Qed.\nPrint Assumptions %s.\n' % (n, body, n, n))
open(os.path.join(COQ, 'Properties_%s.v' % pid), 'w').write('\n'.join(out))
print('wrote Properties_%s.v with %d theorems' % (pid, len(names)))
