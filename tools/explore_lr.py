# explore_lr.py — exploration for C13 (generated LR(1) parsers recognise exactly their grammar).
# G-cfg: small context-free grammars (epsilon rules, left/right recursion, useless symbols) x all end-marked inputs up
# to a bounded length, full and prefix mode.  Oracle: a brute-force derivation counter (CYK-style fixpoint with
# counts saturating at 2) — accept iff a derivation exists, value = fold of the unique tree, ambiguity => conflict;
# FIRST sets against the textbook fixpoint.  Tie: complete output (FIRST, item sets in the implementation's state
# numbering, conflicts, verdicts, values) against the extracted model.
import itertools, os, sys
sys.path.insert(0, os.path.dirname(os.path.abspath(__file__)))
import vlib


def gram_fields(nnt, rules):
    out = [str(nnt), str(len(rules))]
    for lhs, rhs in rules:
        out += ['n%d' % lhs, str(len(rhs))] + [('t%d' % s[1] if s[0] == 't' else 'n%d' % s[1]) for s in rhs]
    return ' '.join(out)


def all_inputs(nterm, maxlen):
    out = []
    for n in range(0, maxlen + 1):
        for w in itertools.product(range(1, nterm + 1), repeat=n):
            out.append(list(w))
    return out


class Oracle:
    """derivations of grammar (rules: list of (lhs, rhs)), terminals are ints >= 1"""

    def __init__(self, nnt, rules):
        self.nnt = nnt
        self.rules = rules

    def counts(self, w):
        n = len(w)
        # cnt[X][i][j] in {0,1,2}; X: ('n',k)
        cnt = {}
        for k in range(self.nnt):
            for i in range(n + 1):
                for j in range(i, n + 1):
                    cnt[(k, i, j)] = 0
        changed = True

        def seq(rhs, i, j):
            # number of ways rhs derives w[i:j], saturating at 2
            ways = {i: 1}
            for s in rhs:
                nxt = {}
                for pos, c in ways.items():
                    if s[0] == 't':
                        if pos < j and w[pos] == s[1]:
                            nxt[pos + 1] = min(2, nxt.get(pos + 1, 0) + c)
                    else:
                        for e in range(pos, j + 1):
                            x = cnt[(s[1], pos, e)]
                            if x:
                                nxt[e] = min(2, nxt.get(e, 0) + c * x)
                ways = nxt
                if not ways:
                    return 0
            return min(2, ways.get(j, 0))
        it = 0
        while changed and it < 60:
            changed = False
            it += 1
            for k in range(self.nnt):
                for i in range(n + 1):
                    for j in range(i, n + 1):
                        tot = 0
                        for lhs, rhs in self.rules:
                            if lhs == k:
                                tot = min(2, tot + seq(rhs, i, j))
                        if tot > cnt[(k, i, j)]:
                            cnt[(k, i, j)] = tot
                            changed = True
        self.cnt = cnt
        self.w = w
        return cnt

    def tree(self, k, i, j, depth=0):
        """bracketed value of the unique derivation of Nt k over w[i:j] (requires count == 1)"""
        if depth > 40:
            return None
        w = self.w
        for r, (lhs, rhs) in enumerate(self.rules):
            if lhs != k:
                continue
            # find the unique split
            def go(idx, pos):
                if idx == len(rhs):
                    return [[]] if pos == j else []
                s = rhs[idx]
                res = []
                if s[0] == 't':
                    if pos < j and w[pos] == s[1]:
                        for rest in go(idx + 1, pos + 1):
                            res.append([('t', s[1], pos, pos + 1)] + rest)
                else:
                    for e in range(pos, j + 1):
                        if self.cnt[(s[1], pos, e)]:
                            for rest in go(idx + 1, e):
                                res.append([('n', s[1], pos, e)] + rest)
                return res
            sp = go(0, i)
            if sp:
                vals = []
                for (ty, x, a, b) in sp[0]:
                    if ty == 't':
                        vals.append('t%d' % x)
                    else:
                        v = self.tree(x, a, b, depth + 1)
                        if v is None:
                            return None
                        vals.append(v)
                return '(r%d%s)' % (r, ''.join(' ' + v for v in reversed(vals)))
        return None

    def first_sets(self):
        """textbook FIRST over sentential forms: dict nt -> set of terminal ints and 'e'"""
        first = {k: set() for k in range(self.nnt)}
        changed = True
        while changed:
            changed = False
            for lhs, rhs in self.rules:
                add = set()
                alle = True
                for s in rhs:
                    if s[0] == 't':
                        add.add(s[1])
                        alle = False
                        break
                    add |= (first[s[1]] - {'e'})
                    if 'e' not in first[s[1]]:
                        alle = False
                        break
                if alle:
                    add.add('e')
                if not add <= first[lhs]:
                    first[lhs] |= add
                    changed = True
        return first


def random_grammar(rng, nnt, nterm, nrules, maxrhs):
    rules = []
    for _ in range(nrules):
        lhs = rng.randrange(nnt)
        n = rng.choice([0, 1, 1, 2, 2, 3][:maxrhs + 2])
        rhs = []
        for _ in range(min(n, maxrhs)):
            if rng.random() < 0.5:
                rhs.append(('t', rng.randint(1, nterm)))
            else:
                rhs.append(('n', rng.randrange(nnt)))
        rules.append((lhs, rhs))
    return rules


def parse_lr(line):
    """-> dict(first=str, states=[...], conflicts=[...], parses=[...]) or None"""
    if not line.startswith('first='):
        return None
    try:
        head, rest = line.split(' conflicts=', 1)
        cpart, ppart = rest.split(' parses=', 1)
        confs = cpart.split()
        nconf = int(confs[0])
        parses = ppart.split()[1:]
        first = head.split(' maxterm=')[0][6:]
        return {'first': first, 'head': head, 'nconf': nconf, 'confs': confs[1:], 'parses': parses}
    except (ValueError, IndexError):
        return None


def explore(ctx, res, replay=None):
    rng = ctx.rng
    quick = ctx.quick()
    grams = []
    if replay and 'violation' in replay and 'grammar' in replay['violation']:
        g = replay['violation']['grammar']
        grams.append((g['nnt'], g['nterm'], [(l, [tuple(s) for s in r]) for l, r in g['rules']], 'replay'))
    else:
        # all grammars with one non-terminal, <= 3 rules, rhs <= 2 over {t1, t2, n0}; all with two rules over 2 nts
        syms = [('t', 1), ('t', 2), ('n', 0)]
        rhss = [[]] + [[a] for a in syms] + [[a, b] for a in syms for b in syms]
        for k in (1, 2, 3):
            for combo in itertools.combinations_with_replacement(range(len(rhss)), k):
                grams.append((1, 2, [(0, rhss[c]) for c in combo], 'exh1'))
        syms2 = [('t', 1), ('n', 0), ('n', 1)]
        rhs2 = [[]] + [[a] for a in syms2] + [[a, b] for a in syms2 for b in syms2]
        if not quick:
            for a in rhs2:
                for b in rhs2:
                    for c in rhs2:
                        grams.append((2, 1, [(0, a), (1, b), (1, c)], 'exh2'))
        else:
            for a in rhs2:
                for b in rhs2:
                    grams.append((2, 1, [(0, a), (1, b)], 'exh2'))
        n = 500 if quick else 8000
        for _ in range(n):
            nnt = rng.randint(1, 3)
            nterm = rng.randint(1, 3)
            grams.append((nnt, nterm, random_grammar(rng, nnt, nterm, rng.randint(1, 5), 3), 'random'))
        # classics: expression grammars, dangling else, palindromes, epsilon chains
        grams.append((3, 4, [(0, [('n', 0), ('t', 1), ('n', 1)]), (0, [('n', 1)]), (1, [('n', 1), ('t', 2), ('n', 2)]), (1, [('n', 2)]),
                             (2, [('t', 3), ('n', 0), ('t', 4)]), (2, [('t', 3)])], 'classic'))
        grams.append((1, 2, [(0, [('t', 1), ('n', 0), ('t', 1)]), (0, [('t', 2)]), (0, [])], 'classic'))
        grams.append((2, 3, [(0, [('t', 1), ('n', 0)]), (0, [('t', 1), ('n', 0), ('t', 2), ('n', 0)]), (0, [('t', 3)])], 'classic'))
        # grammars in which one state predicts the same non-terminal with different, overlapping lookahead sets, LR(1)-but-
        # not-LALR and LALR-but-not-SLR grammars, L = R, lists: closure and lookahead propagation are what decides here
        T = lambda i: ('t', i)
        NT = lambda i: ('n', i)
        CL = [
            (3, 4, [(0, [NT(1), T(2)]), (0, [NT(1), NT(2), T(3)]), (1, [T(1)]), (2, [T(2)]), (2, [T(4)])]),
            (3, 5, [(0, [T(1), NT(1), T(4)]), (0, [T(2), NT(2), T(4)]), (0, [T(1), NT(2), T(5)]), (0, [T(2), NT(1), T(5)]), (1, [T(3)]), (2, [T(3)])]),
            (2, 4, [(0, [NT(1), T(1)]), (0, [T(2), NT(1), T(3)]), (0, [T(4), T(3)]), (0, [T(2), T(4), T(1)]), (1, [T(4)])]),
            (3, 3, [(0, [NT(1), T(1), NT(2)]), (0, [NT(2)]), (1, [T(2), NT(2)]), (1, [T(3)]), (2, [NT(1)])]),
            (2, 2, [(0, [NT(0), T(1), NT(1)]), (0, [NT(1)]), (1, [T(2)])]),
            (2, 2, [(0, [NT(1), NT(0)]), (0, []), (1, [T(1)]), (1, [T(2), NT(1)])]),
            (3, 3, [(0, [NT(1), NT(2)]), (1, [T(1), NT(1)]), (1, []), (2, [T(2), NT(2)]), (2, [T(3)])]),
            (4, 4, [(0, [NT(1), T(1)]), (0, [NT(2), T(2)]), (1, [NT(3)]), (2, [NT(3), T(3)]), (3, [T(4)]), (3, [T(4), NT(3)])]),
            (3, 4, [(0, [T(1), NT(1), T(2)]), (0, [T(1), NT(2), T(3)]), (1, [T(4)]), (1, [T(4), NT(1)]), (2, [T(4)]), (2, [NT(2), T(4)])]),
        ]
        for nnt_, nterm_, rules_ in CL:
            grams.append((nnt_, nterm_, rules_, 'classic'))
            # variants: one terminal renumbered (changes the order in which lookaheads are met), one rule dropped
            for _ in range(3 if quick else 12):
                a_, b_ = rng.randint(1, nterm_), rng.randint(1, nterm_)
                sw = lambda sy: ('t', b_ if sy[1] == a_ else a_ if sy[1] == b_ else sy[1]) if sy[0] == 't' else sy
                grams.append((nnt_, nterm_, [(l_, [sw(sy) for sy in r_]) for l_, r_ in rules_], 'classic_variant'))
            k_ = rng.randrange(len(rules_))
            grams.append((nnt_, nterm_, rules_[:k_] + rules_[k_ + 1:], 'classic_variant'))
        for _ in range(150 if quick else 3000):
            nnt = rng.randint(3, 4)
            nterm = rng.randint(3, 4)
            grams.append((nnt, nterm, random_grammar(rng, nnt, nterm, rng.randint(4, 7), 3), 'random_large'))
    maxlen = 4 if quick else 5
    # phase 1: tables only (FIRST, item sets, conflicts)
    pre = []
    for gi, (nnt, nterm, rules, kind) in enumerate(grams):
        for mode in (0, 1):
            pre.append(('q%d_%d' % (gi, mode), 'lr %d 0 n0 %s 0' % (mode, gram_fields(nnt, rules))))
    pout = ctx.run_impl(pre, timeout_case=20)
    conflict_free = set()
    for c, _ in pre:
        ip0 = parse_lr(pout[c])
        if ip0 is not None and ip0['nconf'] == 0:
            conflict_free.add(c)
    cases = []
    meta = {}
    cid = 0
    for gi, (nnt, nterm, rules, kind) in enumerate(grams):
        inputs = all_inputs(nterm + 1 if nterm < 3 else nterm, maxlen if nterm <= 2 else maxlen - 1)
        if len(inputs) > 400:
            inputs = inputs[:150] + rng.sample(inputs[150:], 250)
        for mode in (0, 1):
            # the driver is only run on inputs for conflict-free tables (a table with conflicts may loop forever;
            # the property speaks about conflict-free generation); the oracle still counts derivations for the others
            use = inputs if ('q%d_%d' % (gi, mode)) in conflict_free else []
            istr = ' '.join('%d %s' % (len(w) + 1, ' '.join(map(str, w + [0]))) for w in use)
            c = 'g%d' % cid
            cid += 1
            cases.append((c, 'lr %d 0 n0 %s %d %s' % (mode, gram_fields(nnt, rules), len(use), istr)))
            meta[c] = (nnt, nterm, rules, kind, mode, inputs)
    iout = ctx.run_impl(cases, timeout_case=20)
    mout = ctx.run_model(cases)
    res.rule = ('G-cfg: all grammars with one non-terminal, <= 3 rules, right-hand sides <= 2 over {t1,t2,N}; all two-non-terminal grammars with '
                '%d rules; %d random grammars with <= 3 non-terminals, <= 3 terminals, <= 5 rules, right-hand sides <= 3; three classics; each with all '
                'end-marked inputs up to length %d (sampled beyond 400), in full and prefix mode.  Non-trivial = at least one accepted and one '
                'rejected input; distinct by (grammar, mode).' % (2 if quick else 3, 500 if quick else 8000, maxlen))
    for c, _ in cases:
        nnt, nterm, rules, kind, mode, inputs = meta[c]
        res.evaluations += 1
        res.count(kind)
        gcase = {'grammar': {'nnt': nnt, 'nterm': nterm, 'rules': [(l, [list(s) for s in r]) for l, r in rules]}, 'mode': mode}
        il = iout[c]
        if il == 'SKIPPED':
            continue
        ip = parse_lr(il)
        if ip is None:
            # a grammar with conflicts may send the driver into an endless reduce loop (C13 only speaks about conflict-free ones)
            if mout is not None and vlib.norm_outcome(il, 'i') == vlib.norm_outcome(mout[c], 'm'):
                res.count('diverging_or_crashing_with_conflicts')
                continue
            res.violations.append(dict(gcase, what='crash', detail=il[:200] + ' / model ' + (mout[c][:100] if mout else '')))
            continue
        if mout is not None:
            res.compared += 1
            if mout[c] != il:
                res.tie_broken.append(dict(gcase, what='implementation and model disagree', impl=il[:600], model=mout[c][:600]))
        orc = Oracle(nnt, rules)
        # FIRST
        fs = orc.first_sets()
        got = {}
        for ent in ip['first'].split(';'):
            if not ent:
                continue
            k, _, v = ent.partition(':')
            got[k] = set(x for x in v.split(',') if x)
        for k in range(nnt):
            want = set(('e' if x == 'e' else 't%d' % x) for x in fs[k])
            if ('n%d' % k) in got and got['n%d' % k] != want:
                res.violations.append(dict(gcase, what='first', detail='FIRST(n%d) = %s, textbook %s' % (k, sorted(got['n%d' % k]), sorted(want))))
        acc = rej = 0
        ambiguous = False
        verdicts = ip['parses'] if ip['parses'] else [None] * len(inputs)
        maxused = max([x[1] for _, rhs in rules for x in rhs if x[0] == 't'] + [0])
        for w, verdict in zip(inputs, verdicts):
            if any(x > maxused for x in w):
                res.skipped += 1      # outside the quantifier: a terminal beyond the largest one the grammar uses
                continue
            cnt = orc.counts(w)
            n = len(w)
            if mode == 0:
                c0 = cnt[(0, 0, n)]
                if c0 >= 2:
                    ambiguous = True
                if ip['nconf'] == 0:
                    if (verdict != 'R') != (c0 >= 1):
                        res.violations.append(dict(gcase, what='verdict', detail='input %s: parser %s, derivations %d' % (w, verdict, c0)))
                        break
                    if c0 == 1 and verdict != 'R':
                        want = orc.tree(0, 0, n)
                        if want is not None and bytes.fromhex(verdict[1:]).decode() != want:
                            res.violations.append(dict(gcase, what='value', detail='input %s: value %s, fold of the tree %s' % (w, bytes.fromhex(verdict[1:]).decode(), want)))
                            break
            else:
                pre = [j for j in range(0, n + 1) if cnt[(0, 0, j)] >= 1]
                if len(pre) >= 2 or any(cnt[(0, 0, j)] >= 2 for j in pre):
                    ambiguous = True
                if ip['nconf'] == 0:
                    if (verdict != 'R') != (len(pre) >= 1):
                        res.violations.append(dict(gcase, what='verdict', detail='prefix mode, input %s: parser %s, prefixes in the language %s' % (w, verdict, pre)))
                        break
                    if len(pre) == 1 and cnt[(0, 0, pre[0])] == 1 and verdict != 'R':
                        want = orc.tree(0, 0, pre[0])
                        if want is not None and bytes.fromhex(verdict[1:]).decode() != want:
                            res.violations.append(dict(gcase, what='value', detail='prefix mode, input %s: value %s, fold %s' % (w, bytes.fromhex(verdict[1:]).decode(), want)))
                            break
            if verdict == 'R':
                rej += 1
            elif verdict is not None:
                acc += 1
        if ambiguous and ip['nconf'] == 0:
            res.violations.append(dict(gcase, what='ambiguity', detail='two derivations exist for an explored input but no conflict was reported'))
        if ip['nconf'] == 0:
            res.count('conflict_free')
            if acc and rej:
                res.nontrivial.add((str(rules), mode))
        else:
            res.count('with_conflicts')
        if len(res.samples) < 3 and ip['nconf'] == 0 and acc and rej and kind == 'random':
            res.sample({'rules': ['n%d -> %s' % (l, ' '.join('%s%d' % s for s in r) or 'eps') for l, r in rules], 'mode': 'prefix' if mode else 'full',
                        'accepted': acc, 'rejected': rej})
    if not res.samples:
        res.sample({'rules': str(grams[0][2])})
